#!/venv/bin/python
"""Differential check for property C19 (configuration exports).

usage: diff.py <unmodified tree root> <refactored tree root>

Runs the same set of environments through every export back-end and option in
a subprocess per tree (each with its own sys.path) and exits 0 iff all
observable outputs (exported text, raised exception type) are identical.
"""
import sys, os, json, subprocess

WORKER = r'''
import sys, json, os, tempfile
root = sys.argv[1]
sys.path.insert(0, os.path.join(root, "src"))
import numpy as np
from scinumtools.dip import DIP
from scinumtools.dip.settings import Format
from scinumtools.dip.config import (ExportConfig, ExportConfigC, ExportConfigCPP,
    ExportConfigRust, ExportConfigFortran, ExportConfigBash, ExportConfigJSON,
    ExportConfigTOML, ExportConfigYAML)

SOURCES = {
"basic": """
simulation
  name str = 'Configuration test'
  output bool = true
box
  height float = 15 cm
num_cells int = 100
  !tags ["selection"]
""",
"derived": """
box
  width float32 = 12 cm
    !tags ["selection"]
density float128 = 23 g/cm3
num_groups uint64 = 2399495729
small int16 = -12
wide int64 = -9000000000
ushort uint16 = 65000
uword uint32 = 4000000000
flag bool = false
""",
"arrays": """
primes int[3] = [3,5,7]
sizes float[3] = [23.4,46,96.4] cm
grid int[2,3] = [[1,2,3],[4,5,6]]
cube float32[2,2,2] = [[[1,2],[3,4]],[[5,6],[7,8]]] m
flags bool[2] = [true,false]
names str[2] = ["ab","cd"]
matrix uint16[3,2] = [[1,2],[3,4],[5,6]]
""",
"none": """
particles
  stars int = none
  tracers int = 23
""",
"strings": """
quote str = 'say "hi" $HOME `x`'
back str = 'a\\\\b'
empty str = ''
text str = 'plain'
  !tags ["selection","other"]
""",
"floats": """
a float = 1e-30
b float = 123456789.125 km/s
c float32 = -0.5
d float64 = 3
e float128 = 2.5e10 J
f int = -7 m
""",
}

EXPORTERS = {
  "dip": ExportConfig, "c": ExportConfigC, "cpp": ExportConfigCPP,
  "rust": ExportConfigRust, "fortran": ExportConfigFortran, "bash": ExportConfigBash,
  "json": ExportConfigJSON, "toml": ExportConfigTOML, "yaml": ExportConfigYAML,
}

def env_of(names):
    with DIP() as dip:
        for n in names:
            dip.add_string(SOURCES[n])
        return dip.parse()

CASES = []
def case(label, names, exporter, ckw=None, select=None, pkw=None):
    CASES.append((label, names, exporter, ckw or {}, select, pkw or {}))

groups = [["basic"], ["derived"], ["arrays"], ["none"], ["strings"], ["floats"],
          ["basic", "derived"], ["basic", "arrays", "floats"]]
for g in groups:
    for e in EXPORTERS:
        case("plain", g, e)
        case("norename", g, e, ckw={"rename": False})
for e in EXPORTERS:
    case("tags", ["basic", "derived", "strings"], e, select={"tags": ["selection"]})
    case("tags2", ["strings"], e, select={"tags": ["other"]})
    case("query", ["basic", "derived"], e, select={"query": "box.*"})
    case("query1", ["basic"], e, select={"query": "num_cells"})
    case("query_none", ["basic"], e, select={"query": "nothing.*"})
for e in ("json", "toml", "yaml"):
    for g in (["basic"], ["arrays"], ["floats"], ["derived"]):
        case("nounits", g, e, pkw={"units": False})
        case("units", g, e, pkw={"units": True})
case("indent", ["basic", "arrays"], "json", pkw={"indent": 2})
case("sortkeys", ["basic", "floats"], "json", pkw={"sort_keys": True, "units": False})
case("yamlflow", ["arrays"], "yaml", pkw={"default_flow_style": True})
for g in (["basic"], ["derived"], ["arrays"], ["strings"], ["none"]):
    case("noexport", g, "bash", pkw={"export": False})
    case("guard", g, "c", pkw={"guard": "MY_GUARD_H"})
    case("guard", g, "cpp", pkw={"guard": "MY_GUARD_H"})
    case("module", g, "fortran", pkw={"module": "MyMod"})
case("define", ["basic", "derived"], "c", pkw={"define": ("simulation.name", "simulation.output", "density", "num_cells")})
case("define", ["basic", "derived"], "cpp", pkw={"define": ("simulation.name", "flag"), "const": ("box.height", "num_groups")})
case("const", ["arrays"], "cpp", pkw={"const": ("primes", "grid", "names")})
case("define_none", ["none"], "c", pkw={"define": ("particles.stars",)})
case("define_arr", ["arrays"], "c", pkw={"define": ("primes",)})
case("define_str", ["strings"], "c", pkw={"define": ("quote", "back", "empty")})
for fmt in ("VALUE", "TUPLE", "TYPE"):
    if hasattr(Format, fmt):
        for e in EXPORTERS:
            case("dtype_" + fmt, ["basic", "arrays"], e, ckw={"dtype": getattr(Format, fmt)})

def norm(x):
    if isinstance(x, np.ndarray):
        return ["nd", norm(x.tolist())]
    if isinstance(x, (list, tuple)):
        return [type(x).__name__] + [norm(v) for v in x]
    if isinstance(x, dict):
        return {str(k): norm(v) for k, v in x.items()}
    if isinstance(x, (np.generic,)):
        return [type(x).__name__, repr(x.item())]
    return [type(x).__name__, repr(x)]

out = []
for label, names, ename, ckw, select, pkw in CASES:
    key = "%s|%s|%s" % (label, "+".join(names), ename)
    rec = {"case": key}
    try:
        env = env_of(names)
        with EXPORTERS[ename](env, **ckw) as exp:
            if select is not None:
                exp.select(**select)
            rec["keys"] = [str(k) for k in exp.data.keys()]
            text = exp.parse(**pkw)
            rec["text"] = text
            rec["same_attr"] = (exp.text == text)
            rec["type"] = type(text).__name__
            if ename in ("json", "toml", "yaml", "bash") and "dtype" not in ckw:
                rec["data_after"] = norm(exp.data)
            if ename in ("c", "cpp"):
                rec["includes"] = list(exp.includes)
            fd, path = tempfile.mkstemp(suffix=".txt")
            os.close(fd)
            try:
                exp.save(path)
                with open(path) as f:
                    rec["saved"] = f.read()
            finally:
                os.remove(path)
    except BaseException as exc:
        rec["error"] = type(exc).__name__
    out.append(rec)

# non-data environment must be rejected with the same exception type
try:
    from scinumtools.dip.settings import EnvType
    env = env_of(["basic"])
    env.envtype = EnvType.DOCS
    ExportConfig(env)
    out.append({"case": "envtype", "ok": True})
except BaseException as exc:
    out.append({"case": "envtype", "error": type(exc).__name__})

# helpers of the base class
env = env_of(["basic"])
exp = ExportConfig(env)
for s in ["a.b.c", "", "x", "Mixed.Case_name"]:
    out.append({"case": "rename|" + s, "v": exp._rename(s)})
exp2 = ExportConfig(env, rename=False)
for s in ["a.b.c", "Mixed.Case_name"]:
    out.append({"case": "norename|" + s, "v": exp2._rename(s)})
for s in ['a"b', "a\\b", "l1\nl2", 12, "$x`y`"]:
    out.append({"case": "escape|" + repr(s), "v": [exp._escape(s), exp._escape(s, "\"$`", newline=None), exp._escape(s, "'", "\\n")]})

json.dump(out, sys.stdout, sort_keys=True)
'''

def run(root):
    env = dict(os.environ)
    env.pop("PYTHONPATH", None)
    env["PYTHONDONTWRITEBYTECODE"] = "1"
    p = subprocess.run([sys.executable, "-c", WORKER, root], capture_output=True,
                       text=True, env=env, cwd="/tmp")
    if p.returncode != 0:
        sys.stderr.write(p.stderr)
        raise SystemExit(2)
    return json.loads(p.stdout)

def main():
    base, ref = sys.argv[1], sys.argv[2]
    a, b = run(base), run(ref)
    bad = 0
    if len(a) != len(b):
        print("different number of results", len(a), len(b))
        bad += 1
    for x, y in zip(a, b):
        if x != y:
            bad += 1
            print("DIFF", x.get("case"))
            print("  base:", json.dumps(x)[:400])
            print("  ref :", json.dumps(y)[:400])
    nerr = sum(1 for x in a if "error" in x)
    print("%d cases compared (%d raise in base), %d differences" % (len(a), nerr, bad))
    sys.exit(0 if bad == 0 else 1)

if __name__ == "__main__":
    main()
