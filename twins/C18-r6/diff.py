#!/usr/bin/env python
"""Differential check for property C18 (DIP numerical / logical / template expressions).

usage: diff.py <unmodified tree root> <refactored tree root>

Runs the same inputs against both trees (each in its own subprocess with its own
sys.path) and exits 0 iff every observable output (value, unit, exception type)
is identical.
"""
import sys, os, json, subprocess

WORKER = r'''
import sys, os, json, warnings
warnings.simplefilter("ignore")
root = sys.argv[1]
sys.path.insert(0, os.path.join(root, "src"))
import numpy as np
from scinumtools.dip import DIP
from scinumtools.dip.solvers import NumericalSolver, LogicalSolver, TemplateSolver
from scinumtools.dip.datatypes import Type
from scinumtools.units import Quantity
from scinumtools.solver import ExpressionSolver, AtomBase

assert os.path.realpath(sys.modules["scinumtools"].__file__).startswith(os.path.realpath(root)), "wrong tree imported"

CODE = """
$unit len = 2 m
$unit blob = 5 kg
a float = 10 m
b float = 300 cm
c float = 3 [len]
t float = 4 s
e float = 2 J
n int = 7
neg float = -2.5 m
w float = 57.3 kg
flag bool = true
off bool = false
name str = "William Smith"
grid float[2,3] = [[23.4,235.4,34],[1e10,2e23,5e20]] cm
body
  height float = 177 cm
  age int = 34
"""

def show(v):
    if isinstance(v, Quantity):
        val = v.value()
        if isinstance(val, np.ndarray):
            val = val.tolist()
        return ["Quantity", repr(val), str(v.units()), str(v)]
    if isinstance(v, Type):
        val = v.value
        if isinstance(val, np.ndarray):
            val = val.tolist()
        return [type(v).__name__, repr(val), str(getattr(v, "unit", None))]
    if isinstance(v, AtomBase):
        return ["Atom", repr(v.value)]
    if isinstance(v, np.ndarray):
        return ["ndarray", repr(v.tolist())]
    return [type(v).__name__, repr(v)]

def run(fn, *args, **kwargs):
    try:
        return ["ok"] + show(fn(*args, **kwargs))
    except BaseException as e:
        return ["raise", type(e).__name__]

with DIP() as dip:
    dip.add_string(CODE)
    env = dip.parse()

out = {}

NUM = [
    ("2 + 4 - 3", None), ("1 - -3 + -4", None), ("8 / 4 * 3", None), ("8 / 2 / 4", None),
    ("2 + 3 * 4 - 6 / 2", None), ("10 - 4 - 3", None), ("-8 / 2 * -4", None),
    ("34 cm + 4 mm", "mm"), ("10 m + 4 cm + 3 m + 1 mm", "m"), ("3 m - 5 cm", "cm"),
    ("10 m * 2 cm", "m2"), ("4 cm2 + 10 m * 2 cm - 0.2 m2", "cm2"), ("10 m2 / 200 cm", "dm"),
    ("3 kg * 4 m2 / 2 s2 + 1e7 erg", "J"), ("23 kg*m2/s2 / 2 J", None),
    ("(10 m - 1 m) + 3 cm - 3 mm", "m"), ("10 m - (1 m + 3 cm - 3 mm)", "mm"),
    ("36 m2 / (20 dm * 300 cm) - 1", None), ("(2 + (3 - 4))", None), ("((2 + 3) * (4 - 1)) / 5", None),
    ("exp(10 m / 5 m)", None), ("log(10 m / 5 cm)", None), ("log10(10 m / 5 cm)", None),
    ("sqrt(16 m2)", "m"), ("sin(10 m / 5 cm)", None), ("cos(10 m / 5 cm)", None), ("tan(1 m / 2 m)", None),
    ("pow(10 m, 2)", "cm2"), ("logb(8, 2)", None), ("logb(100 m / 1 m, 10)", None),
    ("{?a} + {?b}", "m"), ("{?a} - {?b} * 2", "cm"), ("{?a} / {?t}", "km/s"), ("{?a} * {?b} / {?t}", None),
    ("3 m * log10({?a} / (7 cm - 20 mm)) + {?b}", "m"), ("{?c} + 1 m", "m"), ("{?c} + 1 [len]", "[len]"),
    ("2 [len] * 3", "m"), ("1 [blob] + 500 g", "kg"), ("{?w} / 1 [blob]", None), ("{?n} * 2", None),
    ("{?neg} + {?a}", "m"), ("- {?a} + 1 m", None), ("+ 3 m", None), ("- 3 m - - 2 m", "m"), ("2 m - + 1 m", "m"),
    ("{?body.height} + 3 cm", "m"), ("{?e} + 1e7 erg", "J"),
    # errors
    ("10 m + 1 J", None), ("10 m - 1 J", None), ("{?a} + {?t}", None), ("{?a} - {?w}", None),
    ("1 s + 1 Hz", None), ("1 + 1 m", None), ("1 m + 1", None), ("3 m +", None), ("* 3 m", None),
    ("(2 + 3", None), ("pow(10 m)", None), ("logb(8)", None), ("{?missing} + 1", None), ("{?*} + 1", None),
    ("10 m + 1 cm", "J"), ("foo + 1", None), ("", None), ("2 ** 3", None), ("2 m ** 2", None),
]
with NumericalSolver(env) as p:
    for expr, units in NUM:
        out["num|%s|%s" % (expr, units)] = run(p.solve, expr, units) if units else run(p.solve, expr)
    for e1, e2 in [("34 cm + 4 mm", "34.4 cm"), ("2 [len]", "4 m"), ("{?a}", "1000 cm"), ("{?a}", "11 m"),
                   ("8 / 2 / 4", "1"), ("10 m", "10 s"), ("3", "3 m"), ("1 [blob]", "5000 g")]:
        out["equal|%s|%s" % (e1, e2)] = run(p.equal, e1, e2)
    out["num|passthrough int"] = run(p.solve, 5)
    out["num|passthrough float"] = run(p.solve, 2.5)
    out["num|passthrough bool"] = run(p.solve, True)
with NumericalSolver() as p:
    for expr in ["2 + 4 - 3", "3 m - 5 cm", "{?a} + 1", "1 [len] + 1 m"]:
        out["num-noenv|%s" % expr] = run(p.solve, expr)

LOG = [
    "true", "false", "true || false", "true && false", "false || true && false", "true && true || false && false",
    "false || false || true && false && true", "(true || false) && false", "false || ((false||true) || false) && (true||false)",
    "~true", "~false", "~~true", "~~~true", "~true || true", "~(true && false)", "~true && false || true",
    "{?flag}", "~{?flag}", "{?off} || {?flag}", "!{?a}", "!{?nothing}", "~!{?nothing}", "!{?nothing} == false", "!{?a} && !{?nothing}",
    "{?a} == 10 m", "{?a} == 1000 cm", "{?a} == 1000.0005 cm", "{?a} == 1000.01 cm", "{?a} != 1001 cm", "{?a} != 10 m",
    "{?a} > {?b}", "{?a} < {?b}", "{?a} >= 10 m", "{?a} <= 999 cm", "{?w} >= 57300 g", "{?w} < 60", "{?w} > 60000 g",
    "{?c} == 6 m", "{?c} == 3 [len]", "{?w} == 11.46 [blob]", "{?n} == 7", "{?n} <= {?body.age}", "{?n} == 7 && {?flag}",
    "{?a} > 5 m && {?b} < 1 m || {?flag}", "{?a} > 5 m && ({?b} < 1 m || {?flag})", "~{?a} == 10 m", "~({?a} == 10 m)",
    "1 == 1", "1 == 1.0000001", "1 == 1.001", "2 > 1 && 1 > 2", "3 m == 300 cm",
    "{?size} > 30 cm\n || {?a} < 0.4 m\n && {?flag}\n || ~!{?color}",
    "{?b} > 30 cm\n || ({?b} < 0.4 m || {?b} >= 34)\n && ({?n} == 1 && {?n}<={?body.age})\n && {?flag}\n || ~!{?color}",
    "{?b} < 30 cm\n || ({?b} < 0.4 m || {?b} >= 34)\n && ({?n} == 7 && {?n}<={?body.age})\n && {?off}\n || ~!{?a}",
    # errors
    "{?nothing}", "{?nothing} == 1", "{?a} == 1 s", "{?a} > {?t}", "(true || false", "true &&", "&& true", "", "   ", "true false",
    "{?*} == 1", "~", "!", "{?name} == 1",
]
with LogicalSolver(env) as p:
    for expr in LOG:
        out["log|%s" % expr] = run(p.solve, expr)
with LogicalSolver() as p:
    for expr in ["true || false", "~false && true", "1 m == 100 cm", "!{?a}"]:
        out["log-noenv|%s" % expr] = run(p.solve, expr)

TPL = [
    "plain text", "", "{", "}", "{}", "{{", "}}", "{ {?a} }", "a{b}c", "{{?a}", "{{?a}:}", "{{?a} }",
    "A={{?a}}", "{{?a}:.3e}", "{{?a}:08.2f} and {{?b}:.1f}", "{{?n}:05d}", "{{?n}:>6d}|{{?n}:<6d}|{{?n}:^6d}|", "{{?n}}{{?n}}",
    "{{?name}}", "{{?name}[8:]}", "{{?name}[:7]}", "{{?name}[8:]:>10s}", "{{?name}:_^21s}", "{{?flag}} {{?off}}",
    "{{?body.height}:.2f} cm, {{?body.age}:d} yr", "{{?grid}[1,1]:.2e}", "{{?grid}[:,1:]}", "{{?grid}[0,2]}", "{{?grid}}",
    "{{?c}}", "{{?neg}:+.1f}", "json: {\"a\": {{?a}}, \"n\": {{?n}}}", "{{{?n}}}", "x{{?n}}y{{?n}:03d}z{",
    "line1\n{{?a}:.1f}\nline3\n", "{{?w}:10.3f}|", "{{?e}:e}",
    # errors
    "{{?missing}}", "{{?*}}", "{{?name}:d}", "{{?n}:.2q}", "{{?a}:d}", "{{?name}[a]}", "{{?grid}[9,9]}",
]
with TemplateSolver(env) as p:
    for expr in TPL:
        out["tpl|%s" % expr] = run(p.solve, expr)

# generic expression engine with plain atoms (same machinery, no units)
GEN = [
    "2 + 3 * 4", "2 * 3 + 4", "10 - 4 - 3", "8 / 2 / 4", "2 ** 3 ** 2", "2 * 3 ** 2", "-2 + 5", "2 - -3", "2 - +3", "- - 2", "+ + 2",
    "(2 + 3) * 4", "((1 + 2) * (3 + 4)) / 7", "exp(0)", "log(1)", "log10(100)", "sqrt(16) + 1", "sin(0) + cos(0) + tan(0)",
    "logb(8,2)", "pow(2,10)", "pow(2, 1 + 2) * 2", "1 < 2", "2 <= 2 && 3 > 4", "1 == 1 || 1 != 1", "!(1 > 2)", "!!(1 > 2)",
    "1 < 2 && 2 < 3 || 4 < 3", "1 > 2 || 2 > 3 && 3 > 2", "!(1 == 1) || 2 >= 2",
    "(1 + 2", "pow(2)", "2 +", "* 2", "2 3", "", "abc",
]
for expr in GEN:
    def gen(expr=expr):
        with ExpressionSolver(AtomBase) as es:
            return es.solve(expr)
    out["gen|%s" % expr] = run(gen)
# one solver instance reused for several expressions, including after a failure
def reuse():
    res = []
    with ExpressionSolver(AtomBase) as es:
        for expr in ["1 + 2", "2 +", "3 * 4", "(1", "5 - 1 - 1"]:
            try:
                res.append(repr(es.solve(expr).value))
            except BaseException as e:
                res.append(type(e).__name__)
    return tuple(res)
out["gen|reuse"] = run(reuse)

# whole DIP texts whose node values are expressions of the three grammars
DIPS = [
    '$unit len = 2 m\na float = 3 [len]\nb float = ("{?a} * 2 + 50 cm") m\nc int = ("{?b} / 1 [len]")\n',
    'a float = 10 m\nb float = 300 cm\nc float = ("{?a} + {?b} + 10 m") cm\nd int = ("{?b} + 1 cm + 10 m + 1 nm") cm\n',
    'a float = 2 m\nt float = 4 s\nv float = ("{?a} / {?t} * 3 - 0.5 m/s") km/h\ne float = ("sqrt({?a} * 8 m) + pow({?a}, 1)") cm\n',
    'a float = ("10 dm + 1 m") J\n',
    'a float = ("10 dm + 1 s") m\n',
    'age int = 20\nw float = 57.3 kg\nadult bool = ("{?age} > 18 && {?w} <= 57300 g")\nodd bool = ("~{?adult} || !{?nobody} == false && {?age} == 20")\n',
    'a float[3] = [1.5,2.5,3.5] m\nn int = 42\nname str = "Ada"\ns str = ("n={{?n}:04d} a0={{?a}[0]:.3e} a={{?a}[1:]} who={{?name}[:2]} {x}")\n',
    'a float = 5 m\n@case ("{?a} > 4 m && {?a} < 600 cm")\n  b int = 1\n@case ("{?a} == 5 m")\n  b int = 2\n@else\n  b int = 3\n@end\n',
    'a bool = ("true &&")\n',
    'a float = ("2 m + {?zz}") m\n',
]
for i, code in enumerate(DIPS):
    def parse(code=code):
        with DIP() as dip:
            dip.add_string(code)
            env = dip.parse()
        res = []
        for node in env.nodes.query("*"):
            val = node.value.value
            if isinstance(val, np.ndarray):
                val = val.tolist()
            res.append((node.name, type(node.value).__name__, repr(val), str(getattr(node.value, "unit", None))))
        return tuple(res)
    out["dip|%d" % i] = run(parse)

# environment with external sources: references to nodes of a source and (pathological) references to a whole source
import tempfile
with tempfile.TemporaryDirectory() as tmp:
    for fname, text in [("src.dip", "x float = 3 m\ny bool = true\nlabel str = 'abc'\n"), ("one.dip", "\n"), ("empty.dip", "")]:
        with open(os.path.join(tmp, fname), "w") as f:
            f.write(text)
    def make_env():
        with DIP() as dip:
            for name in ("src", "one", "empty"):
                dip.add_source(name, os.path.join(tmp, name + ".dip"))
            dip.add_string("a float = 10 m\n")
            return dip.parse()
    try:
        env2 = make_env()
    except BaseException as e:
        env2 = None
        out["src|env"] = ["raise", type(e).__name__]
    if env2 is not None:
        with LogicalSolver(env2) as p:
            for expr in ["{src?x} == 3 m", "{src?x} < {?a} && {src?y}", "!{src?x}", "!{src?zz}", "~!{src?zz} || {src?y}", "{src?zz}",
                         "{src}", "!{src}", "{one}", "!{one}", "{empty}", "!{empty}", "{nosuch?x}", "!{nosuch?x}", "{src?*}"]:
                out["src-log|%s" % expr] = run(p.solve, expr)
        with NumericalSolver(env2) as p:
            for expr in ["{src?x} * 2 + {?a}", "{src?zz} + 1", "{src}", "{one} + 1", "{empty} + 1", "{nosuch?x}"]:
                out["src-num|%s" % expr] = run(p.solve, expr)
        with TemplateSolver(env2) as p:
            for expr in ["x={{src?x}:.2f} l={{src?label}[1:]} y={{src?y}}", "{{src}}", "{{one}}", "{{empty}}", "{{src?zz}}", "{{nosuch?x}}"]:
                out["src-tpl|%s" % expr] = run(p.solve, expr)

# engine with a custom operator selection / custom steps / odd step types, and the other clients of the engine
from scinumtools.solver import OperatorAdd, OperatorSub, OperatorMul, OperatorGt, OperatorEq, OperatorLog, OperatorPar, Otype
def custom(expr, operators, steps=None):
    def go():
        with ExpressionSolver(AtomBase, operators, steps) as es:
            return es.solve(expr)
    return run(go)
out["cust|sel1"] = custom("23 > 4", {'gt':OperatorGt,'eq':OperatorEq})
out["cust|sel2"] = custom("23 > 4", {'log':OperatorLog})
out["cust|sel3"] = custom("1 + 2 * 3", {'add':OperatorAdd,'mul':OperatorMul})
out["cust|steps-reversed-priority"] = custom("1 + 2 * 3", {'add':OperatorAdd,'mul':OperatorMul},
    [dict(operators=['add'], otype=Otype.BINARY), dict(operators=['mul'], otype=Otype.BINARY)])
out["cust|steps-unknown-name"] = custom("1 + 2 * 3", {'add':OperatorAdd,'mul':OperatorMul},
    [dict(operators=['nope','mul'], otype=Otype.BINARY), dict(operators=['add','zzz'], otype=Otype.BINARY)])
out["cust|steps-ternary"] = custom("1 + 2", {'add':OperatorAdd},
    [dict(operators=['add'], otype=Otype.TERNARY)])
out["cust|steps-ternary-then-binary"] = custom("1 + 2", {'add':OperatorAdd},
    [dict(operators=['add'], otype=Otype.TERNARY), dict(operators=['add'], otype=Otype.BINARY)])
out["cust|steps-missing"] = custom("(1 + 2) * 3", {'par':OperatorPar,'add':OperatorAdd,'mul':OperatorMul},
    [dict(operators=['add'], otype=Otype.BINARY), dict(operators=['mul'], otype=Otype.BINARY)])
out["cust|nested-args"] = custom("((1 + 2) * (3 - (4 - 5)))", {'par':OperatorPar,'add':OperatorAdd,'sub':OperatorSub,'mul':OperatorMul})
for ex, un in [("1 kg*m2/s2", "erg"), ("3 km/h", "m/s"), ("2 (m/s)2", "km2/h2"), ("1 N*(m/s)", "W"), ("1 m", "s"), ("1 (kg", "g")]:
    def conv(ex=ex, un=un):
        val, u = ex.split(" ", 1)
        return Quantity(float(val), u).to(un)
    out["unit|%s|%s" % (ex, un)] = run(conv)
from scinumtools.materials import Substance, SubstanceSolver
for f in ["H2O", "DT", "C6H12O6", "Ca(OH)2", "B{11}N{14}H6", "((CB2)2Al)3", "H2O)", "(H2O"]:
    def sub(f=f):
        compound = Substance()
        with SubstanceSolver(compound.atom) as ms:
            return str(ms.solve(f))
    out["subst|%s" % f] = run(sub)

print("@@RESULT@@" + json.dumps(out, sort_keys=True))
'''

def collect(root):
    proc = subprocess.run([sys.executable, "-c", WORKER, os.path.abspath(root)],
                          capture_output=True, text=True, cwd="/")
    for line in proc.stdout.splitlines():
        if line.startswith("@@RESULT@@"):
            return json.loads(line[len("@@RESULT@@"):])
    sys.stderr.write("worker failed for %s (rc=%s)\n%s\n%s\n" % (root, proc.returncode, proc.stdout[-2000:], proc.stderr[-4000:]))
    sys.exit(2)

def main():
    if len(sys.argv) != 3:
        sys.stderr.write(__doc__)
        sys.exit(2)
    base, new = collect(sys.argv[1]), collect(sys.argv[2])
    bad = 0
    for key in sorted(set(base) | set(new)):
        if base.get(key) != new.get(key):
            bad += 1
            print("DIFF %r\n  base: %r\n  new:  %r" % (key, base.get(key), new.get(key)))
    nraise = sum(1 for v in base.values() if v[0] == "raise")
    print("%d inputs compared (%d raising in base), %d differences" % (len(base), nraise, bad))
    sys.exit(1 if bad else 0)

if __name__ == "__main__":
    main()
