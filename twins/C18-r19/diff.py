#!/usr/bin/env python
"""Differential check for property C18 (DIP numerical / logical / template expressions).

usage: diff.py <unmodified tree root> <refactored tree root>
Runs the same inputs against both trees (each in its own subprocess with its own
sys.path) and exits 0 iff all observable outcomes (values, units, exception types) agree.
"""
import sys, os, json, subprocess

WORKER = r'''
import sys, json, warnings
warnings.filterwarnings("ignore")
root = sys.argv[1]
sys.path.insert(0, root + "/src")
import numpy as np
from scinumtools.dip import DIP
from scinumtools.dip.settings import Format
from scinumtools.dip.solvers import NumericalSolver, LogicalSolver, TemplateSolver
from scinumtools.dip.datatypes import BooleanType

def show(x):
    if isinstance(x, np.ndarray):
        return ["ndarray", x.tolist()]
    if isinstance(x, (float, np.floating)):
        return [type(x).__name__, repr(float(x))]
    if isinstance(x, dict):
        return {k: show(v) for k, v in x.items()}
    if isinstance(x, (list, tuple)):
        return [type(x).__name__] + [show(v) for v in x]
    if hasattr(x, "magnitude") and hasattr(x, "baseunits"):     # Quantity
        return ["Quantity", repr(x.magnitude), str(x.units()), str(x)]
    if hasattr(x, "value") and hasattr(x, "unit"):              # DIP datatype
        return [type(x).__name__, show(x.value), x.unit]
    return [type(x).__name__, repr(x)]

def run(fn):
    try:
        return ["ok", show(fn())]
    except BaseException as e:
        first = e.args[0] if e.args and isinstance(e.args[0], str) else None
        return ["raise", type(e).__name__, first]

CODE = """
$unit length = 2 cm
$unit mass = 3 g
a float = 10 m
b float = 300 cm
c int = 7
w float = 23 [length]
t float = 5 s
name str = "William Smith"
flag bool = true
off bool = false
arr float[2,3] = [[23.4,235.4,34],[1e10,2e23,5e20]] mm
ivec int[3] = [1,2,3]
"""
with DIP() as dip:
    dip.add_string(CODE)
    env = dip.parse()

NUM = [
    ("2 + 4 - 3", None), ("1 - -3 + -4", None), ("34 cm + 4 mm", "cm"), ("10 m + 4 cm + 3 m + 1 mm", "m"),
    ("3 m - 5 cm", "cm"), ("10 m - 1 m + 3 cm - 3 mm", "mm"), ("8 / 4 * 3", None), ("8 / 2 / 4", None),
    ("-8 / 2 * -4", None), ("2 + 3 * 4 - 6 / 3", None), ("4 cm2 + 10 m * 2 cm - 0.2 m2", "m2"),
    ("4 m2 + 10 m3 / 2 m - 3 m2", "m2"), ("3 kg * 4 m2 / 2 s2 + 1e7 erg", "J"), ("23 kg*m2/s2 / 2 J", None),
    ("(10 m - 1 m) + 3 cm - 3 mm", "m"), ("10 m - (1 m + 3 cm - 3 mm)", "m"), ("(2 + (3 - 4))", None),
    ("36 m2 / (20 dm * 300 cm) - 1", None), ("exp(10 m / 5 m)", None), ("log(10 m / 5 cm)", None),
    ("log10(10 m / 5 cm)", None), ("sqrt(16 m2)", "m"), ("sin(10 m / 5 cm)", None), ("cos(2)", None), ("tan(1)", None),
    ("pow(10 m, 2)", "m2"), ("logb(8, 2)", None), ("2 ** 3", None),
    ("3 m * log10({?a} / (7 cm - 20 mm)) + {?b}", "m"), ("{?a} + {?b}", "cm"), ("{?a} * {?c} - {?b}", "m"),
    ("{?w} + 1 cm", "cm"), ("3 [length] + 1 [length] * 2", "cm"), ("{?w} / 1 [length]", None), ("2 [mass] + 1 g", "g"),
    ("{?a} / {?t}", "km/h"), ("+ 3 m + 2 m", "m"), ("- 3 m + 2 m", "m"), ("3 m + + 2 m", "m"), ("3 m + - 2 m", "m"),
    ("3 m - + 2 m", "m"), ("3 m - - 2 m", "m"), ("2 * - 3", None), ("2 * + 3", None), ("(- 3 m) * 2", "m"),
    ("1 + 2 m", None), ("1 + 2 m", "m"), ("2 m + 1", "m"),
    # consecutive signs (operators are blank-separated, so two signs need two blanks between them)
    (" + 3 m + 2 m", "m"), (" - 3 m + 2 m", "m"), ("3 m +  + 2 m", "m"), ("3 m +  - 2 m", "m"), ("3 m -  + 2 m", "m"),
    ("3 m -  - 2 m", "m"), ("2 *  - 3", None), ("2 *  + 3", None), ("( - 3 m) * 2", "m"), ("3 m +  +  - 2 m", "m"),
    ("3 m -  -  - 2 m", "m"), ("6 m /  - 2 +  + 1 m", "m"), (" -  - 3", None), (" +  - 3 cm", "mm"), ("4 *  -  + 2", None),
    # errors
    ("10 m + 1 J", None), ("10 m - 1 J", None), ("1 m + 1 s-1 * 0", None), ("1 Hz + 1 s", None), ("(1 m + 2 m", None),
    ("{?missing} + 1", None), ("pow(2)", None), ("1 m +", None), ("", None), ("3 m 4 m", None),
    ("10 m + 2 cm", "J"), ("{?name} + 1", None), ("{?arr} + 1 mm", None), (5, None), (2.5, "m"),
]
LOG = [
    "true || true || true", "false || true || false", "true && false && true",
    "true && true && true || false || false", "false || false || true && false && true",
    "(true || false) && true && true", "false || ((false||true) || false) && (true||false)",
    "{?a} == 1000 cm", "{?a} == 1000.0005 cm", "{?a} == 1000.01 cm", "{?a} != 10 m", "{?a} != 11 m",
    "{?a} <= {?b}", "{?a} >= {?b}", "{?a} < 2000 cm", "{?a} > 0.001 km", "{?c} == 7", "{?c} < 8 && {?c} > 6",
    "{?w} == 23 [length]", "{?w} == 46 cm", "{?w} > 45 cm && {?w} < 47 cm", "{?flag}", "~{?flag}", "~~{?flag}",
    "!{?a}", "!{?nothing}", "!{?nothing} == false", "~!{?nothing}", "~!{?a} || {?off}", "{?flag} && ~{?off}",
    "{?flag} == true", "{?off} != true", "1 == 1 && 2 < 3 || false", "3 cm == 30 mm", "3 cm <= 30 mm", "3 cm >= 31 mm",
    "true && ~false", "~(true && false)", "~true || ~false", "{?name} == 'William Smith'",
    # errors
    "{?nothing}", "{?nothing} == 1", "(true || false", "true &&", "", "true false", "{?a} == 3 s", "~", "&& true",
]
TPL = [
    "plain text", "", "{", "}", "{{", "{a}", "{{?a}", "A={{?a}}", "A={{?a}:.3e} B={{?b}:08.2f}", "C={{?c}:05d} {{?c}}",
    "N={{?name}} S={{?name}[8:]} T={{?name}[:7]:>10s}|", "F={{?flag}} O={{?off}}", "W={{?w}:.1f}",
    "X={{?arr}[1,1]:.2e}\n{{?arr}[:,1:]}", "V={{?ivec}[1]:d} {{?ivec}}", "{ {{?c}} }", "{{?c}}{{?c}}", "a{b}c{{?c}:3d}d",
    "json {\"k\": {{?c}}}",
    # errors
    "{{?missing}}", "{{?c}:q}", "{{?name}:d}", "{{?*}}",
]
DIPS = [
    "a float = 14.24 mm\nb int = 220 cm\nc float = (\"{?a} + {?b} + 10 m\") cm\nd int = (\"{?b} + 1 cm + 10 m + 1 nm\") cm",
    "a float = (\"10 dm + 1 m\") J",
    "a bool = true\nb float = 23.43 cm\nc bool = (\"\"\"\n  false || {?b} == 23.43 cm && {?a}\n\"\"\")",
    "a float[2] = [14.24,15.23] mm\nb str = (\"a = {{?a}[0]:.3e}\")",
    "$unit length = 2 cm\nw float = 3 [length]\nv float = (\"{?w} * 2 + 1 cm\") mm\nu bool = (\"{?v} == 13 cm\")",
    "x int = 3\ny float = (\"{?x} * 2 / 4 + 1\")\nz bool = (\"{?y} > 2 && !{?x} || ~!{?q}\")\ns str = (\"{{?y}:.2f}/{{?z}}\")",
]

out = {}
with NumericalSolver(env) as p:
    for i, (e, u) in enumerate(NUM):
        out["num%02d %r in %r" % (i, e, u)] = run(lambda: p.solve(e, u))
    for i, (l, r) in enumerate([("2 + 4 - 3", "3"), ("34 cm + 4 mm", "34.4 cm"), ("10 m2 / 200 cm", "50 dm"),
                                ("3 m", "4 m"), ("3 m", "3 s"), ("{?w}", "46 cm"), ("exp(10 m / 5 cm)", "7.22597376e86")]):
        out["equal%02d %r %r" % (i, l, r)] = run(lambda: p.equal(l, r))
with NumericalSolver() as p:
    for i, (e, u) in enumerate(NUM[:12] + NUM[28:36]):
        out["num-noenv%02d %r in %r" % (i, e, u)] = run(lambda: p.solve(e, u))
with LogicalSolver(env) as p:
    for i, e in enumerate(LOG):
        out["log%02d %r" % (i, e)] = run(lambda: p.solve(e))
with LogicalSolver() as p:
    for i, e in enumerate(LOG[:7] + LOG[32:39]):
        out["log-noenv%02d %r" % (i, e)] = run(lambda: p.solve(e))
with TemplateSolver(env) as p:
    for i, e in enumerate(TPL):
        out["tpl%02d %r" % (i, e)] = run(lambda: p.solve(e))
    out["tpl filename"] = run(lambda: p.filename == sys.argv[0] or p.filename)
for i, code in enumerate(DIPS):
    def parse():
        with DIP() as d:
            d.add_string(code)
            return d.parse().data(format=Format.TYPE)
    out["dip%02d" % i] = run(parse)
out["bool eq"] = run(lambda: [BooleanType(True) == True, BooleanType(False) == BooleanType(False),
                              BooleanType(BooleanType(True)).value, BooleanType(np.array([True, False])).value])
out["bool eq err"] = run(lambda: BooleanType(True) == 1)
print(json.dumps(out, sort_keys=True))
'''

def outcome(root):
    root = os.path.abspath(root)
    env = dict(os.environ, PYTHONDONTWRITEBYTECODE="1", PYTHONHASHSEED="0")
    env.pop("PYTHONPATH", None)
    r = subprocess.run([sys.executable, "-c", WORKER, root], capture_output=True, text=True, cwd=root, env=env)
    if r.returncode != 0:
        print("worker failed for", root, "\n", r.stderr[-3000:])
        sys.exit(2)
    return json.loads(r.stdout.strip().splitlines()[-1])

def main():
    a, b = outcome(sys.argv[1]), outcome(sys.argv[2])
    bad = [k for k in sorted(set(a) | set(b)) if a.get(k) != b.get(k)]
    for k in bad:
        print("DIFF", k, "\n   base:", a.get(k), "\n   new: ", b.get(k))
    nraise = sum(1 for v in a.values() if v[0] == "raise")
    print("%d cases compared (%d raising in base), %d differ" % (len(a), nraise, len(bad)))
    sys.exit(1 if bad else 0)

if __name__ == "__main__":
    main()
