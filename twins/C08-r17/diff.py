#!/venv/bin/python
"""Differential check for C08 refactoring r2 (unit conversion / unit-type add and sub helpers).

usage: diff.py <unmodified tree root> <refactored tree root>
Runs the same inputs against each tree in a subprocess and exits 0 iff all
observable outputs (values, errors, units, raised exception types) agree.
"""
import subprocess
import sys

PROBE = r'''
import sys, warnings
warnings.filterwarnings("ignore")
sys.path.insert(0, sys.argv[1] + "/src")
import numpy as np
from decimal import Decimal
from scinumtools.units import Quantity, Magnitude

def show(x):
    if isinstance(x, Quantity):
        return ("Q", show(x.magnitude), x.baseunits.expression)
    if isinstance(x, Magnitude):
        return ("M", show(x.value), show(x.error))
    if isinstance(x, np.ndarray):
        return ("arr", str(x.dtype), x.shape, [repr(float(v)) for v in x.ravel()])
    if isinstance(x, (float, np.floating)):
        return (type(x).__name__, repr(float(x)))
    return (type(x).__name__, repr(x))

def run(label, fn):
    try:
        out = show(fn())
    except BaseException as e:
        out = ("EXC", type(e).__name__)
    print(label, "=>", out)


Q = Quantity
def quants():
    return [
        ("m_e",    lambda: Q(2.0, "m", abse=0.1)),
        ("cm_e",   lambda: Q(-30.0, "cm", abse=2.0)),
        ("km_x",   lambda: Q(1.5, "km")),
        ("mm_rel", lambda: Q(250.0, "mm", rele=4)),
        ("s_e",    lambda: Q(3.0, "s", abse=0.2)),
        ("Hz_e",   lambda: Q(0.5, "Hz", abse=0.01)),
        ("arr_m",  lambda: Q([1.0, -2.0, 4.0], "m", abse=0.1)),
        ("arr_cm", lambda: Q(np.array([10.0, 20.0, -40.0]), "cm")),
        ("dec_m",  lambda: Q(Decimal("2.5"), "m")),
        ("nodim",  lambda: Q(0.25, abse=0.05)),
        ("K_e",    lambda: Q(300.0, "K", abse=1.5)),
        ("Cel_e",  lambda: Q(25.0, "Cel", abse=0.5)),
        ("degF_x", lambda: Q(70.0, "degF")),
        ("dB_e",   lambda: Q(10.0, "dB", abse=0.5)),
        ("dB_x",   lambda: Q(3.0, "dB")),
        ("dBm_e",  lambda: Q(20.0, "dBm", abse=1.0)),
        ("Np_x",   lambda: Q(1.0, "Np")),
        ("W_e",    lambda: Q(2.0, "W", abse=0.1)),
        ("kmh_e",  lambda: Q(72.0, "km/h", abse=3.6)),
        ("deg_e",  lambda: Q(90.0, "deg", abse=1.0)),
    ]

targets = ["m", "cm", "km", "um", "s", "Hz", "ms", "K", "Cel", "degF", "degR", "dB", "dBm", "dBW",
           "Np", "W", "mW", "m/s", "rad", "PR", "AR", "ft", "eV", "dBV", "V"]
for (lq, fq) in quants():
    for t in targets:
        run(f"{lq}.to({t})", lambda: fq().to(t))
        run(f"{lq}.to({t}).rele", lambda: fq().to(t).rele())
        run(f"{lq}.value({t})", lambda: fq().value(t))

for (la, fa) in quants():
    for (lb, fb) in quants():
        run(f"{la} + {lb}", lambda: fa() + fb())
        run(f"{la} - {lb}", lambda: fa() - fb())

# conversion into another quantity, plain numbers on either side
run("to quantity", lambda: Q(2.0, "km", abse=0.1).to(Q(2.0, "m")))
run("to quantity err", lambda: Q(2.0, "km", abse=0.1).to(Q(2.0, "m", abse=0.5)))
run("plus number", lambda: Q(0.5, abse=0.1) + 2)
run("number minus", lambda: 2 - Q(0.5, abse=0.1))
run("m plus number", lambda: Q(0.5, "m", abse=0.1) + 2)
run("decimal to", lambda: Q(Decimal("2.5"), "km").to("m"))
run("decimal err to", lambda: Q(Decimal("2.5"), "km", abse=Decimal("0.5")).to("m"))
run("eq after to", lambda: Q(2.0, "km", abse=0.1).to("m") == Q(2000.0, "m"))
run("str", lambda: str(Q(2.0, "km", abse=0.1).to("m")))
run("sin", lambda: np.sin(Q(30.0, "deg", abse=1.0)))
run("dB add str", lambda: str(Q(10.0, "dB", abse=0.5) + Q(10.0, "dB", abse=0.25)))
'''


def probe(root):
    proc = subprocess.run([sys.executable, "-c", PROBE, root],
                          capture_output=True, text=True, timeout=600)
    return proc.returncode, proc.stdout, proc.stderr


def main():
    base, new = sys.argv[1], sys.argv[2]
    rc_a, out_a, err_a = probe(base)
    rc_b, out_b, err_b = probe(new)
    if rc_a != 0 or rc_b != 0:
        print("probe crashed", rc_a, rc_b)
        print(err_a[-2000:])
        print(err_b[-2000:])
        return 2
    la, lb = out_a.splitlines(), out_b.splitlines()
    if len(la) < 12:
        print("too few probes", len(la))
        return 2
    bad = [(a, b) for a, b in zip(la, lb) if a != b]
    if len(la) != len(lb):
        print("different number of outputs", len(la), len(lb))
        return 1
    for a, b in bad[:20]:
        print("DIFF\n  base:", a, "\n  new: ", b)
    print(f"{len(la)} probes, {len(bad)} differences")
    return 1 if bad else 0


if __name__ == "__main__":
    sys.exit(main())
