#!/venv/bin/python
"""Differential check for property C15 (nested @case/@else/@end selection).

usage: diff.py <unmodified tree root> <refactored tree root>
Runs the same DIP inputs against each tree in its own subprocess and exits 0
iff all observable outcomes (node names, values, units, flags, raised
exception types) are identical.
"""
import sys, os, json, subprocess, itertools

WORKER = r'''
import sys, json, itertools
root = sys.argv[1]
sys.path.insert(0, root + '/src')
import scinumtools
assert scinumtools.__file__.startswith(root), scinumtools.__file__
from scinumtools.dip import DIP
from scinumtools.dip.settings import Format

def tf(b):
    return 'true' if b else 'false'

def inputs():
    out = []
    # --- fixed, hand written inputs -------------------------------------
    out.append(("end_only", "@end\n"))
    out.append(("else_only", "@else\n  car str = 'BMW'\n"))
    out.append(("end_deeper", "@case true\n  @end\n"))
    out.append(("else_after_end", "@case true\n  a int = 1\n@end\n@else\n  a int = 2\n"))
    out.append(("double_end", "@case true\n  a int = 1\n@end\n@end\n"))
    out.append(("else_deeper", "@case false\n  a int = 1\n  @else\n  a int = 2\n"))
    out.append(("end_in_parent", "box\n  @case true\n    a int = 1\n@end\n"))
    out.append(("case_no_value", "@case\n  a int = 1\n"))
    out.append(("compact", "plant.@case false\n    f str = 'g'\nplant.@case true\n    f str = 'y'\nplant.@else\n    f str = 'r'\n"))
    out.append(("compact_end", "plant.@case false\n    f str = 'g'\nplant.@else\n    f str = 'r'\nplant.@end\nplant.h int = 3\n"))
    out.append(("expr",
        "t\n  limit float = 75 km/s\n  urban bool = true\n"
        "  @case (\"{?t.limit} <= 50 km/s || {?t.urban}\")\n    road str = 'town'\n"
        "  @case (\"{?t.limit} <= 100 km/s && !{?t.urban}\")\n    road str = 'country'\n"
        "  @else\n    road str = 'motorway'\n  @end\n  cars int = 12\n"))
    out.append(("ref_false", "sim\n  gravity bool = false\n  @case (\"{?sim.gravity}\")\n    stars int = 30\n  @end\n"))
    out.append(("props",
        "gravity bool = false\n@case (\"{?gravity}\")\n  stars int = 30\n    !constant\n@end\n"
        "radiation bool = true\n  !constant\n"))
    out.append(("const_mod_in_false", "a int = 1\n  !constant\n@case false\n  a = 2\n@end\nb int = 3\n"))
    out.append(("const_mod_in_true", "a int = 1\n  !constant\n@case true\n  a = 2\n@end\nb int = 3\n"))
    out.append(("undefined_in_false", "@case false\n  a int\n@else\n  a int = 4\n"))
    out.append(("undefined_in_true", "@case true\n  a int\n@else\n  a int = 4\n"))
    out.append(("options_in_case", "@case true\n  a int = 2\n    !options [1,2,3]\n@else\n  a int = 7\n    !options [1,2]\n"))
    # --- one block, every truth assignment, explicit/indent closing ------
    for a, b in itertools.product([False, True], repeat=2):
        for close in ("end", "indent"):
            code  = "before int = 1\n"
            code += "grp\n"
            code += f"  @case {tf(a)}\n    x float = 1 m\n    only_a int = 10\n"
            code += f"  @case {tf(b)}\n    x float = 2 km\n    only_b int = 20\n"
            code += "  @else\n    x float = 3 s\n    only_e int = 30\n"
            if close == "end":
                code += "  @end\n"
            code += "  after int = 2\n"
            code += "last str = 'z'\n"
            out.append((f"one_{tf(a)}_{tf(b)}_{close}", code))
    # --- two nested blocks with modifications, every truth assignment ----
    for a, b, c in itertools.product([False, True], repeat=3):
        code  = "star str = 'Sun'\n"
        code += f"@case {tf(a)}\n"
        code += "  star = 'Sirius'\n"
        code += f"  @case {tf(b)}\n    inner float = 1 cm\n"
        code += "  @else\n    inner float = 2 g\n"
        code += "  mid int = 5\n"
        code += "@else\n"
        code += "  star = 'Wega'\n"
        code += f"  @case {tf(c)}\n    inner float = 3 K\n      !constant\n"
        code += "  @end\n"
        code += "  mid int = 6\n"
        code += "tail int = 9\n"
        out.append((f"two_{tf(a)}_{tf(b)}_{tf(c)}", code))
    # --- three levels deep, every truth assignment ------------------------
    for a, b, c in itertools.product([False, True], repeat=3):
        for close in ("end", "indent"):
            code  = "n0 int = 0\n"
            code += f"@case {tf(a)}\n"
            code += "  n1 int = 1\n"
            code += f"  @case {tf(b)}\n"
            code += "    n2 int = 2\n"
            code += f"    @case {tf(c)}\n"
            code += "      n3 int = 3\n"
            code += "    @else\n"
            code += "      e3 int = 33\n"
            if close == "end":
                code += "    @end\n"
            code += "    m2 int = 22\n"
            code += "  @else\n"
            code += "    e2 int = 222\n"
            if close == "end":
                code += "  @end\n"
            code += "  m1 int = 11\n"
            if close == "end":
                code += "@end\n"
            code += "m0 int = 100\n"
            out.append((f"three_{tf(a)}_{tf(b)}_{tf(c)}_{close}", code))
    # --- sibling blocks inside a selected / unselected clause ------------
    for a, b, c in itertools.product([False, True], repeat=3):
        code  = f"@case {tf(a)}\n"
        code += f"  @case {tf(b)}\n    p int = 1\n  @end\n"
        code += f"  @case {tf(c)}\n    q int = 2\n  @else\n    q int = 3\n"
        code += "  r int = 4\n"
        code += "@else\n"
        code += f"  @case {tf(c)}\n    p int = 5\n"
        code += f"  @case {tf(b)}\n    p int = 6\n"
        code += "s int = 7\n"
        out.append((f"sib_{tf(a)}_{tf(b)}_{tf(c)}", code))
    return out

def describe(env):
    res = []
    for node in env.nodes:
        v = node.value
        unit = getattr(v, 'unit', None)
        val = getattr(v, 'value', v)
        res.append([node.name, node.keyword, repr(val), repr(unit),
                    bool(node.constant), repr(getattr(node, 'options', None)),
                    repr(node.branch_id), repr(node.case_id)])
    return res

def run(code):
    try:
        with DIP() as p:
            p.add_string(code)
            env = p.parse()
        data = env.data(Format.TYPE, verbose=False) if False else env.data(Format.TYPE)
        d = {k: [type(v).__name__, repr(v.value), repr(getattr(v, 'unit', None))] for k, v in data.items()}
        st = env.branching
        return {"ok": True, "nodes": describe(env), "data": d,
                "open": list(st.state), "ncases": st.num_cases, "nbranches": st.num_branches,
                "cases": {k: [c.path, repr(c.value), c.branch_id, c.branch_part, c.case_type, c.indent]
                          for k, c in st.cases.items()},
                "branches": {k: [b.cases, b.types, b.nodes] for k, b in st.branches.items()}}
    except BaseException as e:
        return {"ok": False, "exc": type(e).__name__, "arg0": repr(e.args[0]) if e.args else None}

def run_docs(code):
    try:
        with DIP() as p:
            p.add_string(code)
            docs = p.parse_docs()
        env = docs.env if hasattr(docs, 'env') else None
        if env is None:
            return {"ok": True}
        return {"ok": True, "nodes": [[n.name, repr(n.branch_id), repr(n.case_id), repr(n.docs_type)] for n in env.nodes]}
    except BaseException as e:
        return {"ok": False, "exc": type(e).__name__}

results = {}
for name, code in inputs():
    results[name] = run(code)
    results["docs:" + name] = run_docs(code)
print(json.dumps(results, sort_keys=True))
'''

def run(root):
    root = os.path.abspath(root)
    env = dict(os.environ)
    env.pop('PYTHONPATH', None)
    p = subprocess.run([sys.executable, '-c', WORKER, root], capture_output=True,
                       text=True, cwd='/', env=env)
    if p.returncode != 0:
        sys.stderr.write(p.stderr)
        raise SystemExit(2)
    return json.loads(p.stdout.strip().splitlines()[-1])

def main():
    a = run(sys.argv[1])
    b = run(sys.argv[2])
    bad = 0
    if set(a) != set(b):
        print("different input sets"); bad += 1
    for k in sorted(a):
        if a[k] != b.get(k):
            bad += 1
            print("DIFF", k, "\n  base:", a[k], "\n  new: ", b.get(k))
    n_ok = sum(1 for k in a if a[k].get("ok"))
    print(f"{len(a)} inputs compared ({n_ok} parsed ok in base, {len(a)-n_ok} raised), {bad} differences")
    sys.exit(1 if bad else 0)

if __name__ == '__main__':
    main()
