#!/venv/bin/python
"""Differential check for property C06 (Quantity arithmetic vs. base-dimension arithmetic).

usage: diff.py <unmodified tree root> <refactored tree root>
Runs the same probe inputs against both trees (each in its own subprocess with
its own sys.path) and exits 0 iff every observable output is identical.
"""
import json
import subprocess
import sys

PROBE = r'''
import sys, json
sys.path.insert(0, sys.argv[1] + '/src')
import numpy as np
from decimal import Decimal
from scinumtools.units import Quantity, Unit
from scinumtools.units.base_units import BaseUnits, get_unit_base
from scinumtools.units.fraction import Fraction
from scinumtools.units.dimensions import Dimensions
from scinumtools.units.magnitude import Magnitude

def show(x):
    if isinstance(x, Quantity):
        v = x.magnitude.value
        base = v * x.baseunits.magnitude if not isinstance(v, Decimal) else None
        return {
            "q": repr(v), "err": repr(x.magnitude.error), "units": x.units(),
            "bu": repr(x.baseunits), "buval": repr(x.baseunits.value()),
            "dims": repr(x.baseunits.dimensions), "nodim": x.baseunits.nodim,
            "base": repr(base), "str": str(x),
        }
    if isinstance(x, BaseUnits):
        return {"bu": repr(x), "val": repr(x.value()), "mag": repr(x.magnitude),
                "dims": repr(x.dimensions), "expr": repr(x.expression),
                "units": repr(x.units), "nodim": x.nodim, "nobase": x.nobase}
    if isinstance(x, Fraction):
        return {"frac": [x.num, x.den], "str": str(x), "after": [x.num, x.den]}
    if isinstance(x, Magnitude):
        return {"mag": repr(x.value), "err": repr(x.error)}
    return repr(x)

Q = Quantity
CASES = []
def case(name):
    def deco(f):
        CASES.append((name, f)); return f
    return deco

# ---- sums / differences
case("add km+m")(lambda: Q(2,'km') + Q(350,'m'))
case("add m+km")(lambda: Q(350,'m') + Q(2,'km'))
case("sub J-erg")(lambda: Q(3,'J') - Q(4e6,'erg'))
case("add compound")(lambda: Q(1.5,'kg*m2/s2') + Q(2,'J'))
case("add compound2")(lambda: Q(2,'km/h') + Q(3,'m/s'))
case("sub compound3")(lambda: Q(7,'N*m') - Q(2,'kg*m2*s-2'))
case("add number right")(lambda: Q(2) + 3)
case("add number left")(lambda: 3 + Q(2))
case("sub number left")(lambda: 3.5 - Q(2))
case("sub number right")(lambda: Q(2) - 3.5)
case("add number to dimensional")(lambda: Q(2,'m') + 3)
case("radd number to dimensional")(lambda: 3 + Q(2,'m'))
case("add mismatch")(lambda: Q(2,'m') + Q(3,'s'))
case("sub mismatch")(lambda: Q(2,'kg') - Q(3,'m2'))
case("add mismatch compound")(lambda: Q(2,'m/s') + Q(3,'m/s2'))
case("add inverse dims")(lambda: Q(2,'s') + Q(4,'Hz'))
case("add arrays")(lambda: Q([1,2,3],'cm') + Q([4.,5.,6.],'mm'))
case("sub array scalar")(lambda: Q(np.array([1.,2.,3.]),'h') - Q(30,'min'))
case("add errors")(lambda: Q(2,'km',abse=0.1) + Q(350,'m',abse=5))
case("sub rel errors")(lambda: Q(2,'km',rele=10) - Q(350,'m'))
case("add temperature K+Cel")(lambda: Q(300,'K') + Q(20,'Cel'))
case("add temperature Cel+K")(lambda: Q(20,'Cel') + Q(300,'K'))
case("sub temperature degF")(lambda: Q(80,'degF') - Q(20,'Cel'))
case("add dB")(lambda: Q(10,'dBm') + Q(13,'dBm'))
case("sub dB")(lambda: Q(13,'dBm') - Q(10,'dBm'))
case("add dB mixed")(lambda: Q(10,'dBm') + Q(1,'dBW'))
case("sub dB mixed")(lambda: Q(10,'dBW') - Q(1,'dBm'))
case("add dB W")(lambda: Q(10,'dBm') + Q(1,'W'))
case("add Np")(lambda: Q(1,'Np') + Q(2,'Np'))
case("add B")(lambda: Q(1,'B') + Q(2,'B'))
case("sub dBV")(lambda: Q(3,'dBV') - Q(2,'dBV'))
case("add rad")(lambda: Q(1,'rad') + Q(90,'deg'))
case("add decimal")(lambda: Q(Decimal('1.5'),'m') + Q(Decimal('2.5'),'m'))
# ---- products / quotients
case("mul")(lambda: Q(2,'km') * Q(3,'m'))
case("mul cancel")(lambda: Q(6,'m/s') * Q(2,'s'))
case("mul cancel dims")(lambda: Q(6,'km') * Q(2,'m-1'))
case("mul number")(lambda: Q(6,'km') * 2.5)
case("rmul number")(lambda: 2.5 * Q(6,'km'))
case("div")(lambda: Q(6,'km') / Q(2,'h'))
case("div cancel")(lambda: Q(6,'km') / Q(2,'m'))
case("div same")(lambda: Q(6,'km') / Q(2,'km'))
case("div number")(lambda: Q(6,'J') / 4)
case("rdiv number")(lambda: 4 / Q(8,'s'))
case("mul arrays")(lambda: Q([1,2,3],'N') * Q([2,2,2],'cm'))
case("div arrays")(lambda: Q([1,2,3],'J') / Q(2,'eV'))
case("mul errors")(lambda: Q(2,'m',abse=0.1) * Q(3,'s',abse=0.2))
case("div zero")(lambda: Q(2,'m') / Q(0,'s'))
# ---- negation / powers
case("neg")(lambda: -Q(2,'km/s'))
case("neg array")(lambda: -Q([1,-2],'erg'))
case("pow int")(lambda: Q(3,'km')**2)
case("pow neg")(lambda: Q(4,'m/s')**-2)
case("pow tuple")(lambda: Q(4,'m2')**(1,2))
case("pow float")(lambda: Q(4,'m2')**0.5)
case("pow float third")(lambda: Q(8,'m3')**(1/3))
case("pow tuple third")(lambda: Q(8,'l')**(1,3))
case("pow fraction")(lambda: Q(8,'m3')**Fraction(2,3))
case("pow zero")(lambda: Q(8,'m3')**0)
case("pow compound")(lambda: Q(9,'kg*m2/s2')**(3,2))
case("pow array")(lambda: Q([1,4,9],'cm2')**0.5)
case("pow error")(lambda: Q(4,'m',abse=0.2)**2)
case("sqrt ufunc")(lambda: np.sqrt(Q(4,'m2')))
case("cbrt ufunc")(lambda: np.cbrt(Q(27,'m3')))
case("power ufunc")(lambda: np.power(Q(3,'m'),3))
# ---- chained / conversions
case("chain")(lambda: (Q(2,'km') + Q(3,'m')) * Q(2,'s-1') / Q(4,'kg') ** 2)
case("to")(lambda: (Q(2,'km/h') * Q(30,'min')).to('m'))
case("rebase")(lambda: (Q(2,'km') * Q(30,'cm')).rebase())
case("eq")(lambda: (Q(2,'km') + Q(3,'m')) == Q(2003,'m'))
case("eq2")(lambda: Q(2,'km') == Q(2,'m'))
case("eq3")(lambda: Q(2,'km') == Q(2,'s'))
case("eq num")(lambda: Q(2) == 2)
case("value")(lambda: (Q(1,'J') / Q(1,'s')).value('erg/s'))
# ---- helpers
case("bu add")(lambda: BaseUnits('kg*m2/s2') + BaseUnits('s2/m'))
case("bu sub")(lambda: BaseUnits('kg*m2/s2') - BaseUnits('kg*km'))
case("bu mul int")(lambda: BaseUnits('kg*m2/s2') * 3)
case("bu mul tuple")(lambda: BaseUnits('kg*m2/s2') * (1,2))
case("bu mul float")(lambda: BaseUnits('kg*m2/s2') * 0.25)
case("bu mul frac")(lambda: BaseUnits('kg*m2/s2') * Fraction(2,3))
case("bu mul zero")(lambda: BaseUnits('kg*m2/s2') * 0)
case("bu div")(lambda: BaseUnits('kg*m2/s2') / 2)
case("bu div3")(lambda: BaseUnits('m3*s-6') / 3)
case("bu div tuple")(lambda: BaseUnits('m3*s-6') / (3,2))
case("bu eq")(lambda: [BaseUnits('kg*m2/s2') == BaseUnits('s-2*m2*kg'),
                        BaseUnits('kg*m2/s2') == BaseUnits('kg*m2'),
                        BaseUnits('kg*m2/s2') == BaseUnits('kg*m2/s3'),
                        BaseUnits('kg*m2/s2') == BaseUnits('g*m2/s2'),
                        BaseUnits({'m':(2,4)}) == BaseUnits({'m':(1,2)}),
                        BaseUnits(None) == BaseUnits({})])
case("bu dict")(lambda: BaseUnits({'k:m':2, 's':(-1,2), 'g':0, 'K':Fraction(3,6)}))
case("bu list")(lambda: BaseUnits([1,0,-2,0,0,0,0,0]))
case("bu list frac")(lambda: BaseUnits([(1,2),0,-2,0,0,0,0,(4,6)]))
case("bu dims")(lambda: BaseUnits(Dimensions(m=Fraction(1), s=Fraction(-1,2))))
case("bu bad")(lambda: BaseUnits(3.5))
case("bu str")(lambda: [str(BaseUnits('km2*s-1')), repr(BaseUnits({'m':(2,4),'s':0}))])
case("gub")(lambda: [repr(get_unit_base(u, e)) for u, e in [('m',None),('k:m',Fraction(2)),('g',Fraction(-1,2)),
                       ('c:m',Fraction(2,4)),('J',Fraction(-3,-1)),('[c]',Fraction(1)),('m:g',Fraction(0))]])
case("gub bad")(lambda: get_unit_base('x:yz'))
def fr():
    out = []
    for n,d in [(0,5),(2,4),(-2,4),(2,-4),(-2,-4),(6,3),(7,1),(0,-3),(3,-1)]:
        f = Fraction(n,d)
        s = str(f)
        out.append((s, f.num, f.den, repr(f.value()), repr(Fraction(n,d).value(dtype=float)), repr(f)))
        g = Fraction(n,d); g.rebase(); out.append((g.num, g.den))
    return out
case("fraction rebase")(fr)
case("fraction ops")(lambda: [show(x) for x in [Fraction(1,2)+Fraction(1,3), Fraction(1,2)-(1,3), Fraction(1,2)+2,
      Fraction(1,2)*Fraction(2,3), Fraction(1,2)*(2,3), Fraction(1,2)*3, Fraction(1,2)*0.5, Fraction(1,2)*2.0,
      Fraction(1,2)/Fraction(2,3), Fraction(1,2)/(2,3), Fraction(1,2)/3, Fraction(1,2)/0.5, -Fraction(1,2)]]
      + [Fraction(1,2)==Fraction(2,4), Fraction(1,2)==Fraction(1,3), Fraction(-1,2)==Fraction(1,-2)])
case("fraction from")(lambda: [show(Fraction.from_string('3:4')), show(Fraction.from_string('-3')), show(Fraction.from_tuple((6,4)))])
def dm():
    a = Dimensions.from_list([1,(1,2),-2,0,0,0,0,0]); b = Dimensions(m=Fraction(1), s=Fraction(-1))
    z = Dimensions(); z2 = Dimensions.from_list([0]*8); z3 = Dimensions.from_list([(0,3),0,0,0,0,0,0,0])
    return [repr(x) for x in [a, b, a+b, a-b, a*2, a*(1,2), a*0.5, a/2, a/(3,2), -a, a+1, a-(1,2), z, z2, z3,
            a.nodim, b.nodim, z.nodim, z2.nodim, z3.nodim, (a-a).nodim, (a*0).nodim, a==b, a==a*1, -a==a, z==z2,
            a.value(), a.value(dtype=dict), a.value(dtype=tuple), z.value(), z.value(dtype=dict), z.value(dtype=tuple)]]
case("dimensions")(dm)
case("dimensions short")(lambda: Dimensions.from_list([1,2]))
case("dimensions long")(lambda: repr(Dimensions.from_list([1,2,3,4,5,6,7,8,9])))
case("unit mix")(lambda: (Q(2, Unit().km) + 3*Unit().m) / Unit().s)

results = {}
for name, fn in CASES:
    try:
        r = fn()
        if isinstance(r, list):
            r = [x if isinstance(x, (dict, str, bool, int, float, list, tuple)) else show(x) for x in r]
        else:
            r = show(r)
        results[name] = ["ok", r]
    except BaseException as e:
        results[name] = ["raise", type(e).__name__, [repr(a) for a in e.args]]
print("@@RESULT@@" + json.dumps(results, sort_keys=True, default=repr))
'''


def run(root):
    p = subprocess.run([sys.executable, "-W", "ignore", "-c", PROBE, root],
                       capture_output=True, text=True, timeout=300)
    if p.returncode != 0:
        print("probe crashed for", root, "\n", p.stderr[-3000:])
        sys.exit(2)
    line = [l for l in p.stdout.splitlines() if l.startswith("@@RESULT@@")][-1]
    return json.loads(line[len("@@RESULT@@"):])


def main():
    a = run(sys.argv[1])
    b = run(sys.argv[2])
    bad = 0
    for k in sorted(set(a) | set(b)):
        if a.get(k) != b.get(k):
            bad += 1
            print("DIFF", k, "\n  base:", a.get(k), "\n  new: ", b.get(k))
    nraise = sum(1 for v in a.values() if v[0] == "raise")
    print(f"{len(a)} cases ({nraise} raising on base), {bad} differing")
    sys.exit(1 if bad else 0)


if __name__ == "__main__":
    main()
