#!/usr/bin/env python
"""Differential check for C08 (uncertainty propagation).

usage: diff.py <unmodified tree root> <refactored tree root>
Runs the same set of inputs against each tree in its own subprocess and exits 0
iff every observable output (values, errors, units, exception types) is identical.
"""
import json
import os
import subprocess
import sys

CHILD = r'''
import sys, json, warnings
root = sys.argv[1]
sys.path.insert(0, root + '/src')
warnings.simplefilter('ignore')
import numpy as np
from decimal import Decimal
import scinumtools
assert scinumtools.__file__.startswith(root), (scinumtools.__file__, root)
from scinumtools.units import Quantity, Magnitude, Unit

def show(x):
    if x is None:
        return None
    if isinstance(x, np.ndarray):
        return ['ndarray', str(x.dtype), list(x.shape), [repr(float(v)) for v in x.ravel()]]
    if isinstance(x, Decimal):
        return ['Decimal', str(x)]
    if isinstance(x, (float, int, np.floating, np.integer)):
        return [type(x).__name__, repr(float(x))]
    return [type(x).__name__, repr(x)]

def safe(fn, *args):
    # formatting may itself fail (e.g. log10 of a zero error); record the exception type instead
    try:
        return fn(*args)
    except BaseException as e:
        return 'raise:' + type(e).__name__

def mag(m):
    return {'value': show(m.value), 'error': show(m.error), 'str': safe(str, m)}

def qty(q):
    return {'mag': mag(q.magnitude), 'units': q.units(), 'str': safe(str, q),
            'abse': show(q.abse()),
            'rele': safe(lambda: show(q.rele())) if q.abse() is not None else None}

results = []
def case(name, fn):
    try:
        out = fn()
        if isinstance(out, Magnitude):
            out = mag(out)
        elif isinstance(out, Quantity):
            out = qty(out)
        elif isinstance(out, (list, tuple)):
            out = [mag(o) if isinstance(o, Magnitude) else qty(o) if isinstance(o, Quantity) else show(o) for o in out]
        else:
            out = show(out)
        results.append([name, 'ok', out])
    except BaseException as e:
        results.append([name, 'raise', type(e).__name__])

M = Magnitude
ops = {
    'add': lambda a, b: a + b,
    'sub': lambda a, b: a - b,
    'mul': lambda a, b: a * b,
    'div': lambda a, b: a / b,
}

def mags():
    return {
        'exact_pos': lambda: M(3.5),
        'exact_neg': lambda: M(-2.25),
        'unc_pos': lambda: M(4.0, 0.05),
        'unc_neg': lambda: M(-7.0, 0.3),
        'unc_rel': lambda: M(12.0, rele=2.5),
        'unc_small': lambda: M(0.004, 0.0002),
        'int': lambda: M(6),
        'arr_exact': lambda: M([1.0, -2.0, 4.0]),
        'arr_unc': lambda: M(np.array([2.0, 5.0, -8.0]), 0.1),
        'arr_unc2': lambda: M([3.0, -6.0, 9.0], np.array([0.3, 0.2, 0.1])),
        'dec': lambda: M(Decimal('1.25')),
        'zero_unc': lambda: M(0.0, 0.1),
        'npfloat': lambda: M(np.float64(2.5), 0.01),
    }

# 1. Magnitude x Magnitude under + - * /
names = list(mags())
for on, op in ops.items():
    for a in names:
        for b in names:
            case(f'M:{on}:{a}:{b}', lambda a=a, b=b, op=op: op(mags()[a](), mags()[b]()))

# 2. Magnitude with plain numbers / arrays on either side
plain = {'two': 2, 'mhalf': -0.5, 'zero': 0, 'big': 1e6, 'lst': [1.0, 2.0, 3.0],
         'arr': np.array([2.0, -4.0, 8.0]), 'npf': np.float64(-3.0), 'dec': Decimal('2.5'),
         'str': 'abc', 'none': None}
for on, op in ops.items():
    for a in names:
        for pn, pv in plain.items():
            case(f'Mp:{on}:{a}:{pn}', lambda a=a, pv=pv, op=op: op(mags()[a](), pv))
            case(f'pM:{on}:{pn}:{a}', lambda a=a, pv=pv, op=op: op(pv, mags()[a]()))

# 3. power and negation
for a in names:
    case(f'M:neg:{a}', lambda a=a: -mags()[a]())
    for p in (2, 3, 0.5, -1, -2, 0, 1):
        case(f'M:pow:{a}:{p}', lambda a=a, p=p: mags()[a]() ** p)

# 4. constructor edge cases, abse/rele accessors
case('ctor:both', lambda: M(1.0, 0.1, 5))
case('ctor:str', lambda: M('1.0'))
case('ctor:tuple', lambda: M((1.0, 2.0)))
case('ctor:rele_neg', lambda: M(-5.0, rele=10))
case('ctor:rele_arr', lambda: M([1.0, -2.0], rele=10))
case('acc:abse', lambda: M(4.0, 0.05).abse())
case('acc:rele', lambda: M(4.0, 0.05).rele())
case('acc:abse_none', lambda: M(4.0).abse())
case('acc:rele_none', lambda: M(4.0).rele())
case('acc:set_abse', lambda: M(4.0).abse(0.2))
case('acc:set_rele', lambda: M(-4.0).rele(5))

# 5. Quantities: arithmetic with units and uncertainty
def quants():
    return {
        'm_unc': lambda: Quantity(2.0, 'm', abse=0.1),
        'cm_unc': lambda: Quantity(150.0, 'cm', abse=2.0),
        'km_exact': lambda: Quantity(0.003, 'km'),
        'm_neg': lambda: Quantity(-4.0, 'm', rele=5),
        's_unc': lambda: Quantity(8.0, 's', abse=0.4),
        'm_arr': lambda: Quantity([1.0, 2.0, 3.0], 'm', abse=0.05),
        'nodim': lambda: Quantity(3.0, abse=0.3),
        'cel': lambda: Quantity(25.0, 'Cel', abse=0.5),
        'K': lambda: Quantity(300.0, 'K', abse=1.0),
        'dB': lambda: Quantity(3.0, 'dB'),
    }
qn = list(quants())
for on, op in ops.items():
    for a in qn:
        for b in qn:
            case(f'Q:{on}:{a}:{b}', lambda a=a, b=b, op=op: op(quants()[a](), quants()[b]()))
        for pn in ('two', 'mhalf', 'zero', 'arr'):
            case(f'Qp:{on}:{a}:{pn}', lambda a=a, pn=pn, op=op: op(quants()[a](), plain[pn]))
            case(f'pQ:{on}:{pn}:{a}', lambda a=a, pn=pn, op=op: op(plain[pn], quants()[a]()))
for a in qn:
    case(f'Q:neg:{a}', lambda a=a: -quants()[a]())
    for p in (2, -1, 0.5, (1, 2)):
        case(f'Q:pow:{a}:{p}', lambda a=a, p=p: quants()[a]() ** p)

# 6. unit conversion
targets = ['m', 'cm', 'km', 'mm', 'ft', 's', 'ms', 'K', 'Cel', 'degF', 'Hz', 'm2', 'rad', 'dBm']
for a in qn:
    for t in targets:
        case(f'Q:to:{a}:{t}', lambda a=a, t=t: quants()[a]().to(t))
        case(f'Q:value:{a}:{t}', lambda a=a, t=t: quants()[a]().value(t))
case('Q:to:quantity', lambda: Quantity(2.0, 'm', abse=0.1).to(Quantity(2.0, 'cm')))
case('Q:to:quantity_unc', lambda: Quantity(2.0, 'm', abse=0.1).to(Quantity(2.0, 'cm', abse=0.1)))
case('Q:to:quantity_bad', lambda: Quantity(2.0, 'm', abse=0.1).to(Quantity(2.0, 's')))
case('Q:to:inv', lambda: Quantity(2.0, 's', abse=0.1).to('Hz'))
case('Q:to:bad', lambda: Quantity(2.0, 'm', abse=0.1).to('nonsense_unit'))
case('Q:to:dec', lambda: Quantity(Decimal('2.5'), 'm').to('cm'))
case('Q:to:dec_unc', lambda: Quantity(Decimal('2.5'), 'm', abse=0.1).to('cm'))
case('Q:to:deg', lambda: Quantity(90.0, 'deg', abse=1.0).to('rad'))
case('Q:to:neg', lambda: Quantity(-3.0, 'km', rele=1).to('m'))
case('Q:abse:set', lambda: Quantity(2.0, 'm').abse(0.3))
case('Q:rele:set', lambda: Quantity(2.0, 'm').rele(3))
case('Q:rebase', lambda: (Quantity(2.0, 'm*cm', abse=0.1)).rebase())
case('Q:ctor:mag', lambda: Quantity(M(2.0, 0.1), 'km', abse=0.4))
case('Q:ctor:mag_rele', lambda: Quantity(M(2.0, 0.1), 'km', rele=10))
case('Q:ctor:qunit', lambda: Quantity(3.0, Quantity(2.0, 'm', abse=0.1)))
case('Q:chain', lambda: ((Quantity(2.0, 'm', abse=0.1) + Quantity(30.0, 'cm', abse=1.0)) * Quantity(4.0, 's', abse=0.2) / 3).to('cm*s'))

print(json.dumps(results))
'''


def run(root):
    root = os.path.abspath(root)
    env = {k: v for k, v in os.environ.items() if k != 'PYTHONPATH'}
    proc = subprocess.run([sys.executable, '-c', CHILD, root], capture_output=True, text=True, env=env, cwd='/')
    if proc.returncode != 0:
        sys.stderr.write(proc.stderr)
        raise SystemExit(2)
    return json.loads(proc.stdout.strip().splitlines()[-1])


def main():
    base, new = os.path.abspath(sys.argv[1]), os.path.abspath(sys.argv[2])
    a, b = run(base), run(new)
    bad = 0
    if len(a) != len(b):
        print('different number of cases', len(a), len(b))
        bad += 1
    for x, y in zip(a, b):
        if x != y:
            bad += 1
            print('DIFF', x[0], '\n   base:', x[1:], '\n   new: ', y[1:])
    nraise = sum(1 for x in a if x[1] == 'raise')
    print(f'{len(a)} cases ({nraise} raising), {bad} differences')
    sys.exit(1 if bad else 0)


if __name__ == '__main__':
    main()
