#!/venv/bin/python
"""Differential check for property C07 (operations never alter their operands).

usage: diff.py <unmodified tree root> <refactored tree root>

Runs the same probe (below) against each tree in its own subprocess, with the
tree's own src/ on sys.path, and exits 0 iff the recorded observations
(values, units, uncertainties, raised exception types) are identical.
"""
import json
import subprocess
import sys

PROBE = r'''
import sys, json, warnings
warnings.simplefilter("ignore")
sys.path.insert(0, sys.argv[1] + "/src")
import numpy as np
from decimal import Decimal
from scinumtools.units import Quantity, Unit
import scinumtools
assert scinumtools.__file__.startswith(sys.argv[1]), scinumtools.__file__

def plain(x):
    if x is None:
        return None
    if isinstance(x, np.ndarray):
        return ["nd"] + [plain(v) for v in x.tolist()]
    if isinstance(x, (list, tuple)):
        return [plain(v) for v in x]
    if isinstance(x, Decimal):
        return "D" + str(x)
    if isinstance(x, (bool, np.bool_)):
        return bool(x)
    if isinstance(x, (float, np.floating, int, np.integer)):
        return repr(float(x))
    return repr(x)

def guarded(fn):
    try:
        return ["ok", fn()]
    except Exception as e:
        return ["exc", type(e).__name__]

def snap(q):
    if not isinstance(q, Quantity):
        return ["raw", plain(q)]
    return [plain(q.magnitude.value), q.units(), plain(q.magnitude.error),
            plain(q.baseunits.value()), guarded(lambda: str(q))]

OPS = {
    "add":  lambda a, b: a + b,
    "sub":  lambda a, b: a - b,
    "mul":  lambda a, b: a * b,
    "div":  lambda a, b: a / b,
    "radd": lambda a, b: b + a,
    "rsub": lambda a, b: b - a,
    "rmul": lambda a, b: b * a,
    "rdiv": lambda a, b: b / a,
    "eq":   lambda a, b: a == b,
    "pow2": lambda a, b: a ** 2,
    "powt": lambda a, b: a ** (1, 2),
    "neg":  lambda a, b: -a,
    "sqrt": lambda a, b: np.sqrt(a),
    "cbrt": lambda a, b: np.cbrt(a),
    "npow": lambda a, b: np.power(a, 3),
    "sin":  lambda a, b: np.sin(a),
    "abs":  lambda a, b: np.abs(a),
    "sum":  lambda a, b: np.sum(a),
    "floor":lambda a, b: np.floor(a),
    "lins": lambda a, b: np.linspace(a, b, 3),
    "item": lambda a, b: a[0],
}

PAIRS = {
    "same_unit":      (lambda: Quantity(2.5, "m"),            lambda: Quantity(4.0, "m"),            "cm",  "mm"),
    "diff_unit":      (lambda: Quantity(3.0, "km"),           lambda: Quantity(250.0, "m"),          "m",   "cm"),
    "compound":       (lambda: Quantity(7.0, "kg*m2/s2"),     lambda: Quantity(2.0, "J"),            "erg", "J"),
    "with_abse":      (lambda: Quantity(12.0, "m", abse=0.3), lambda: Quantity(50.0, "cm", abse=2.0),"cm",  "m"),
    "with_rele":      (lambda: Quantity(8.0, "s", rele=5),    lambda: Quantity(2.0, "s", rele=10),   "ms",  "min"),
    "array":          (lambda: Quantity([1.0, 2.0, 4.0], "m"),lambda: Quantity([10.0, 20.0, 30.0], "cm"), "mm", "km"),
    "array_err":      (lambda: Quantity(np.array([1.0, 3.0]), "kg", abse=0.1), lambda: Quantity(np.array([2.0, 5.0]), "g", abse=0.5), "g", "kg"),
    "decimal":        (lambda: Quantity(Decimal("1.25"), "m"),lambda: Quantity(Decimal("0.5"), "m"), "cm",  "mm"),
    "log_dB":         (lambda: Quantity(20.0, "dB"),          lambda: Quantity(13.0, "dB"),          "Np",  "B"),
    "log_dBm":        (lambda: Quantity(30.0, "dBm"),         lambda: Quantity(10.0, "dBm"),         "W",   "dBW"),
    "temperature":    (lambda: Quantity(300.0, "K"),          lambda: Quantity(20.0, "K"),           "Cel", "degF"),
    "number_operand": (lambda: Quantity(6.0, "m"),            lambda: 3,                             "cm",  None),
    "float_operand":  (lambda: Quantity(6.0),                 lambda: 1.5,                           None,  None),
    "incompatible":   (lambda: Quantity(1.0, "m"),            lambda: Quantity(1.0, "s"),            "km",  "ms"),
    "angle":          (lambda: Quantity(30.0, "deg"),         lambda: Quantity(0.25, "rad"),         "rad", "deg"),
}

out = {}
for pname, (mka, mkb, ua, ub) in PAIRS.items():
    for oname, op in OPS.items():
        a, b = mka(), mkb()
        rec = {"before": [snap(a), snap(b)]}
        res = guarded(lambda: op(a, b))
        r = res[1] if res[0] == "ok" else None
        rec["result"] = [res[0], snap(r) if res[0] == "ok" else res[1]]
        rec["after_op"] = [snap(a), snap(b)]
        # value-in-other-unit queries leave the operand alone
        if ua is not None:
            rec["query_a"] = guarded(lambda: plain(a.value(ua)))
            rec["after_query"] = [snap(a), snap(b)]
        # in-place conversions of the result must not reach the operands
        if isinstance(r, Quantity):
            tgt = r.units()
            rec["res_rebase"] = guarded(lambda: snap(r.rebase()))
            rec["res_err"] = guarded(lambda: snap(r.abse(0.125)))
            rec["after_res_mut"] = [snap(a), snap(b)]
        # in-place conversions of the operands must not reach the result
        before_r = snap(r) if isinstance(r, Quantity) else None
        if ua is not None and isinstance(a, Quantity):
            rec["a_to"] = guarded(lambda: snap(a.to(ua)))
        if ub is not None and isinstance(b, Quantity):
            rec["b_to"] = guarded(lambda: snap(b.to(ub)))
        if isinstance(a, Quantity):
            rec["a_err"] = guarded(lambda: snap(a.rele(2)))
        rec["res_after_operand_mut"] = [before_r, snap(r) if isinstance(r, Quantity) else None]
        rec["final"] = [snap(a), snap(b)]
        out[pname + "/" + oname] = rec


# conversion queries through every unit-type family (linear, inversed, temperature, logarithmic)
CONV = [
    (lambda: Quantity(1.5, "km"), "m"), (lambda: Quantity(2.0, "s"), "Hz"), (lambda: Quantity(4.0, "Hz"), "ms"),
    (lambda: Quantity(25.0, "Cel"), "K"), (lambda: Quantity(25.0, "Cel"), "degF"), (lambda: Quantity(70.0, "degF"), "degR"),
    (lambda: Quantity(3.0, "dBm"), "mW"), (lambda: Quantity(2.0, "W"), "dBm"), (lambda: Quantity(1.0, "Np"), "dB"),
    (lambda: Quantity(10.0, "dBV"), "dBuV"), (lambda: Quantity(0.5, "Pa"), "dBSPL"), (lambda: Quantity(3.0, "dB"), "PR"),
    (lambda: Quantity(Decimal("2.5"), "km"), "cm"), (lambda: Quantity([1.0, 2.0], "h", abse=0.5), "min"),
    (lambda: Quantity(9.0, "m", rele=10), "s"), (lambda: Quantity(45.0, "deg"), "rad"), (lambda: Quantity(2.0), "rad"),
    (lambda: Quantity(2.0, "dBm"), "dBV"), (lambda: Quantity(5.0, "kg*m/s2", abse=-0.5), "dyn"),
]
for i, (mk, tgt) in enumerate(CONV):
    q = mk()
    before = snap(q)
    got = guarded(lambda: plain(q.value(tgt)))
    mid = snap(q)
    conv = guarded(lambda: snap(mk().to(tgt)))
    back = guarded(lambda: snap(mk().to(tgt).to(before[1])))
    out["conv/%02d" % i] = [before, got, mid, conv, back]


# powers / roots rescale every unit exponent of the result; the operand's exponents must stay put
from scinumtools.units.fraction import Fraction
POWS = [2, -1, 0, 0.5, 1.5, (1, 3), (3, 2), Fraction(2, 3), Fraction(-1, 2), 3.0, 0.25, -2.5]
BASES = [lambda: Quantity(16.0, "m2/s2"), lambda: Quantity(27.0, "kg3*m-3", abse=0.5),
         lambda: Quantity([4.0, 9.0], "cm2"), lambda: Quantity(2.0, "J"), lambda: Quantity(5.0)]
for i, mk in enumerate(BASES):
    for j, pw in enumerate(POWS):
        q = mk()
        before = [snap(q), repr(q.baseunits)]
        r = guarded(lambda: q ** pw)
        res = [r[0], snap(r[1]) if r[0] == "ok" else r[1]]
        after = [snap(q), repr(q.baseunits)]
        mut = None
        if r[0] == "ok":
            mut = [guarded(lambda: snap(r[1].rebase())), snap(q), guarded(lambda: snap(q.rebase())), snap(r[1])]
        out["pow/%d/%02d" % (i, j)] = [before, res, after, mut]
    q = mk()
    out["root/%d" % i] = [snap(q), guarded(lambda: snap(np.sqrt(q))), guarded(lambda: snap(np.cbrt(q))),
                          guarded(lambda: snap(np.power(q, 2))), guarded(lambda: plain((q.baseunits*2).value())),
                          guarded(lambda: plain((q.baseunits/2).value())), snap(q)]

# Unit()/constant operands are shared objects: they must survive too
u = Unit()
k = guarded(lambda: snap(Quantity(2.0, "km") / u.m))
out["unit_env"] = [k, snap(u.m), snap(u.km)]
q = Quantity(5.0, "km")
out["to_quantity"] = [guarded(lambda: snap(Quantity(10.0, "km").to(q))), snap(q)]
print(json.dumps(out, sort_keys=True))
'''


def run(tree):
    proc = subprocess.run([sys.executable, "-c", PROBE, tree.rstrip("/")],
                          capture_output=True, text=True)
    if proc.returncode != 0:
        print("probe failed for", tree, "\n", proc.stderr[-3000:])
        sys.exit(2)
    return json.loads(proc.stdout.strip().splitlines()[-1])


def main():
    base, new = sys.argv[1], sys.argv[2]
    a, b = run(base), run(new)
    bad = [k for k in sorted(set(a) | set(b)) if a.get(k) != b.get(k)]
    for k in bad[:20]:
        print("DIFF", k)
        print("  base:", json.dumps(a.get(k))[:600])
        print("  new :", json.dumps(b.get(k))[:600])
    print("%d cases compared, %d differ" % (len(a), len(bad)))
    sys.exit(1 if bad else 0)


if __name__ == "__main__":
    main()
