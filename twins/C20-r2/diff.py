#!/venv/bin/python
"""Differential check for property C20 (ParameterTable, RowCollector,
DataPlotGrid, DataCombination).

usage: diff.py <unmodified tree root> <refactored tree root>

Runs the same operation sequences / grid sizes / item lists against each tree
in a subprocess (each with its own sys.path) and exits 0 iff all observable
outputs (values, value types, raised exception types) are identical.
"""
import sys, os, json, subprocess

WORKER = r'''
import sys, json, os, random, tempfile
root = sys.argv[1]
sys.path.insert(0, os.path.join(root, "src"))
import numpy as np
import scinumtools as snt
from scinumtools import ParameterTable, RowCollector, DataPlotGrid, DataCombination
from scinumtools.parameter_table import ParameterSettings

def norm(x):
    if isinstance(x, ParameterSettings):
        return ["PS", str(x), repr(x), list(x.keys()), norm(list(x.items())), norm(x.data())]
    if isinstance(x, np.ndarray):
        return ["nd", str(x.dtype), norm(x.tolist())]
    if isinstance(x, (list, tuple)):
        return [type(x).__name__] + [norm(v) for v in x]
    if isinstance(x, dict):
        return ["dict"] + [[norm(k), norm(v)] for k, v in x.items()]
    if isinstance(x, np.generic):
        return [type(x).__name__, repr(x.item())]
    if isinstance(x, range):
        return ["range", list(x)]
    return [type(x).__name__, repr(x)]

OUT = []
def rec(case, fn):
    try:
        OUT.append({"case": case, "v": norm(fn())})
    except BaseException as exc:
        OUT.append({"case": case, "error": type(exc).__name__})

# ---------------------------------------------------------------- ParameterTable
def pt_state(pt):
    st = {}
    def grab(name, fn):
        try:
            st[name] = norm(fn())
        except BaseException as exc:
            st[name] = "ERR:" + type(exc).__name__
    grab("len", lambda: len(pt))
    grab("shape", lambda: pt.shape())
    grab("keys", lambda: list(pt.keys()))
    grab("items", lambda: list(pt.items()))
    grab("data", lambda: pt.data())
    grab("str", lambda: str(pt))
    grab("repr", lambda: repr(pt))
    grab("iter", lambda: [p for p in pt])
    grab("_keys", lambda: pt._keys)
    grab("_data", lambda: pt._data)
    grab("_keyname", lambda: pt._keyname)
    grab("text", lambda: pt.to_text())
    grab("text_noindex", lambda: pt.to_text(index=False))
    grab("df_cols", lambda: list(pt.to_dataframe().columns))
    grab("df_vals", lambda: pt.to_dataframe().values.tolist())
    for k in (0, 1, -1, 5, "a", "b", "zz", "k3"):
        grab("get_%r" % (k,), lambda: pt[k])
        grab("in_%r" % (k,), lambda: k in pt)
    for k in ("a", "b", "zz", "k3"):
        grab("attr_" + k, lambda: getattr(pt, k))
    return st

def run_pt(label, keyed, ops, settings=("x", "y", "z"), init=None, keyname=None):
    trace = []
    try:
        kw = {}
        if keyed:
            kw["keys"] = True
        if keyname is not None:
            kw["keyname"] = keyname
        pt = ParameterTable(list(settings), init, **kw) if init is not None else ParameterTable(list(settings), **kw)
        trace.append(["init", pt_state(pt)])
        for op in ops:
            name, args = op[0], op[1:]
            try:
                if name == "append":
                    r = pt.append(*args)
                elif name == "set":
                    pt[args[0]] = args[1]; r = None
                elif name == "del":
                    del pt[args[0]]; r = None
                res = norm(r)
            except BaseException as exc:
                res = "ERR:" + type(exc).__name__
            trace.append([norm(op), res, pt_state(pt)])
    except BaseException as exc:
        trace.append("ERR:" + type(exc).__name__)
    OUT.append({"case": "pt|" + label, "v": trace})

run_pt("keyed_basic", True, [("set", "a", [1, 2, 3]), ("append", "b", [4, 5, 6]), ("set", "a", [7, 8, 9]),
                             ("del", "a"), ("set", "a", [0, 0, 0]), ("del", "zz"), ("append", "c", [1, 2])])
run_pt("keyed_init", True, [("del", "b"), ("set", "k3", [1.5, "s", None]), ("append", "b", (9, 8, 7)), ("del", 0)],
       init={"a": [1, 2, 3], "b": [4, 5, 6]}, keyname="key")
run_pt("keyed_empty", True, [("del", "a"), ("append", "a"), ("append", "a", [1, 2, 3], 4), ("set", "a", 5), ("set", "a", [1, 2, 3, 4])])
run_pt("keyed_longvals", True, [("set", "a", [1, 2, 3, 4, 5]), ("set", "b", []), ("set", "b", "pq")])
run_pt("list_basic", False, [("append", [1, 2, 3]), ("append", [4, 5, 6]), ("del", 0), ("append", (7, 8, 9)),
                             ("set", "a", [1, 2, 3]), ("set", 0, [1, 2, 3]), ("del", 7), ("append", "a", [1, 2, 3])])
run_pt("list_init", False, [("del", -1), ("append", [None, True, 2.5]), ("append",)], init=[[1, 2, 3], [4, 5, 6], [7, 8, 9]])
run_pt("list_init_dict", False, [("append", [1, 2, 3])], init={"a": [1, 2, 3]})
run_pt("keyed_init_list", True, [], init=[[1, 2, 3]])
run_pt("one_setting", True, [("set", "a", [1]), ("set", "b", [2]), ("del", "a"), ("set", "b", [3])], settings=("only",))
run_pt("empty_params", True, [("set", "a", [1, 2, 3])], init={})

rng = random.Random(12345)
for trial in range(6):
    keyed = trial % 2 == 0
    ops = []
    for i in range(25):
        r = rng.random()
        key = rng.choice(["a", "b", "k3", "zz", "q"])
        vals = [rng.randint(-5, 5) for _ in range(rng.choice([3, 3, 3, 2, 4]))]
        if keyed:
            if r < 0.4: ops.append(("set", key, vals))
            elif r < 0.7: ops.append(("append", key, vals))
            else: ops.append(("del", key))
        else:
            if r < 0.6: ops.append(("append", vals))
            elif r < 0.9: ops.append(("del", rng.randint(-2, 4)))
            else: ops.append(("set", key, vals))
    run_pt("random%d" % trial, keyed, ops)

# ParameterSettings on its own
def ps_case():
    ps = ParameterSettings({"a": 1, "b": "two", "c": None, "d": [1, 2]})
    with ps as p:
        return [p, p["a"], p.b, list(p.items()), p.data(), list(p.keys()), str(p), repr(p)]
rec("ps|basic", ps_case)
rec("ps|empty", lambda: ParameterSettings({}))
rec("ps|missing", lambda: ParameterSettings({"a": 1})["zz"])

# ---------------------------------------------------------------- RowCollector
def rc_state(rc):
    st = {}
    def grab(name, fn):
        try:
            st[name] = norm(fn())
        except BaseException as exc:
            st[name] = "ERR:" + type(exc).__name__
    grab("len", lambda: len(rc))
    grab("size", lambda: rc.size())
    grab("shape", lambda: rc.shape())
    grab("columns", lambda: rc._columns)
    grab("dict", lambda: rc.to_dict())
    grab("text", lambda: rc.to_text())
    grab("str", lambda: str(rc))
    grab("text_noindex", lambda: rc.to_text(index=False))
    grab("df_cols", lambda: list(rc.to_dataframe().columns))
    grab("df_vals", lambda: rc.to_dataframe().values.tolist())
    grab("df_sel_list", lambda: rc.to_dataframe(list(rc._columns[:2])).to_string())
    grab("df_sel_dict", lambda: rc.to_dataframe({c: "T_" + c for c in rc._columns[-2:]}).to_string())
    for c in list(rc._columns) + ["nope"]:
        grab("get_" + c, lambda: rc[c])
        grab("attr_" + c, lambda: getattr(rc, c))
    return st

def run_rc(label, columns, ops, rows=None, array=False):
    trace = []
    try:
        rc = RowCollector(columns, rows, array=array)
        trace.append(["init", rc_state(rc)])
        for op in ops:
            name, args = op[0], op[1:]
            try:
                if name == "append":
                    r = rc.append(args[0])
                elif name == "sort":
                    r = rc.sort(*args[:1], **(args[1] if len(args) > 1 else {}))
                res = norm(r)
            except BaseException as exc:
                res = "ERR:" + type(exc).__name__
            trace.append([norm(op), res, rc_state(rc)])
        fd, path = tempfile.mkstemp(); os.close(fd)
        try:
            rc.to_csv(path); trace.append(open(path).read())
            rc.to_file(path); trace.append(open(path).read())
        except BaseException as exc:
            trace.append("ERR:" + type(exc).__name__)
        finally:
            os.remove(path)
    except BaseException as exc:
        trace.append("ERR:" + type(exc).__name__)
    OUT.append({"case": "rc|" + label, "v": trace})

cols = ["c1", "c2", "c3"]
rows = [[1, 2, 3], [4, 5, 6], [7, 8, 0]]
for array in (False, True):
    tag = "arr" if array else "lst"
    run_rc(tag + "_basic", cols, [("append", r) for r in rows] + [("sort", "c3"), ("sort", "c1", {"reverse": True}),
                                   ("sort", "c2", {"reverse": False}), ("sort", "nope")], array=array)
    run_rc(tag + "_rows", cols, [("append", {"c1": 9, "c2": 1, "c3": 5}), ("append", {"c3": 0, "c1": -1, "c2": 2}),
                                 ("sort", "c2"), ("append", {"c1": 1, "c2": 2}), ("append", {"c1": 1, "c2": 2, "c3": 3, "c4": 4}),
                                 ("append", [1, 2]), ("append", (5, 5, 5)), ("append", [1, 2, 3, 4])], rows=rows, array=array)
    run_rc(tag + "_dictcols", [], [("append", {"a": 3, "b": 1.5}), ("append", {"a": 1, "b": 2.5}), ("append", {"b": 0.5, "a": 2}),
                                   ("sort", "a"), ("sort", "b", {"reverse": True}), ("append", {"a": 1, "b": 2, "c": 3})], array=array)
    run_rc(tag + "_ties", ["k", "v"], [("append", [2, 10]), ("append", [1, 20]), ("append", [2, 30]), ("append", [1, 40]),
                                       ("append", [3, 50]), ("sort", "k"), ("sort", "k", {"reverse": True}), ("sort", "v")], array=array)
    run_rc(tag + "_floats", ["x", "y"], [("append", [0.5, -1]), ("append", [-2.25, 7]), ("append", [1e3, 0]), ("sort", "x"), ("sort", "y", {"reverse": True})], array=array)
    run_rc(tag + "_empty", cols, [("sort", "c1"), ("append", [1, 2, 3]), ("sort", "c1")], array=array)
    run_rc(tag + "_nocols", [], [("sort", "c1"), ("append", [1, 2, 3])], array=array)
run_rc("lst_strings", ["name", "n"], [("append", ["pear", 3]), ("append", ["apple", 1]), ("append", ["fig", 2]), ("sort", "name"), ("sort", "n", {"reverse": True})])
run_rc("arr_typed", {"i": {"dtype": int}, "f": {"dtype": float}, "s": {"dtype": str}},
       [("append", [3, 1.5, "b"]), ("append", [1, 2.5, "a"]), ("append", {"s": "c", "f": 0.5, "i": 2}), ("sort", "i"), ("sort", "s", {"reverse": True})], array=True)
run_rc("lst_dictcolumns", {"i": {"dtype": int}, "f": {"dtype": float}}, [("append", [3, 1.5]), ("append", [1, 2.5]), ("sort", "i")])

rng = random.Random(777)
for trial in range(6):
    array = trial % 2 == 1
    ops = []
    for i in range(20):
        r = rng.random()
        if r < 0.5:
            ops.append(("append", [rng.randint(0, 9), rng.randint(0, 9), rng.randint(0, 9)]))
        elif r < 0.7:
            ops.append(("append", {"c2": rng.randint(0, 9), "c1": rng.randint(0, 9), "c3": rng.randint(0, 9)}))
        else:
            ops.append(("sort", rng.choice(cols), {"reverse": rng.random() < 0.5}))
    run_rc("random%d" % trial, cols, ops, array=array)

# ---------------------------------------------------------------- DataPlotGrid
def grid_case(n, ncols, as_dict, axsize=None):
    data = {("k%d" % i): i * i for i in range(n)} if as_dict else [chr(97 + i % 26) * (1 + i // 26) for i in range(n)]
    g = DataPlotGrid(data, ncols) if axsize is None else DataPlotGrid(data, ncols, axsize)
    res = [g.ndata, g.ncols, g.nrows, g.figsize]
    for missing in (None, False, True):
        for transpose in (False, True):
            res.append(list(g.items(missing, transpose)))
            res.append(list(g.items(missing=missing, transpose=transpose)))
    res.append(list(g.items()))
    return res

for n in list(range(0, 14)) + [25, 37]:
    for ncols in (1, 2, 3, 4, 5, 7):
        for as_dict in (False, True):
            rec("grid|%d|%d|%s" % (n, ncols, as_dict), lambda: grid_case(n, ncols, as_dict))
rec("grid|axsize", lambda: grid_case(7, 3, False, (5, 3.5)))
rec("grid|default_ncols", lambda: [DataPlotGrid([1, 2, 3]).nrows, list(DataPlotGrid([1, 2, 3]).items()), list(DataPlotGrid([1, 2, 3]).items(missing=True))])
rec("grid|zero_cols", lambda: DataPlotGrid([1, 2], 0))
rec("grid|tuple_data", lambda: list(DataPlotGrid((1, 2, 3), 2).items()))
rec("grid|tuple_missing", lambda: list(DataPlotGrid((1, 2, 3), 2).items(missing=True)))
rec("grid|tuple_lazy", lambda: type(DataPlotGrid((1, 2, 3), 2).items()).__name__)
rec("grid|str_data", lambda: list(DataPlotGrid("abc", 2).items(transpose=True)))
rec("grid|ndarray", lambda: list(DataPlotGrid(np.arange(4), 2).items()))
rec("grid|none", lambda: DataPlotGrid(None, 2))

# ---------------------------------------------------------------- DataCombination
def comb_case(items):
    dc = DataCombination(items)
    return [list(dc.keys()), list(dc.values()), list(dc.items()), list(dc.items()), type(dc.items()).__name__]

COMBS = [
    [[1, 2, 3], ["a", "b"]],
    [[1], [2], [3]],
    [[]],
    [[1, 2], []],
    [],
    [[1, 2]],
    [["x", "y"], [True, False], [None, 0.5, 3]],
    [(1, 2), "ab", [3.5]],
    [range(3), [10, 20]],
    [[[1, 2], [3]], [{"a": 1}, {"b": 2}]],
    [[1, 1], [1, 1]],
    [list(range(4)), list(range(3)), list(range(2)), [0]],
    [{"a": 1, "b": 2}, [1]],
    [5],
    None,
]
for i, items in enumerate(COMBS):
    rec("comb|%d" % i, lambda: comb_case(items))

json.dump(OUT, sys.stdout, sort_keys=True)
'''

def run(root):
    env = dict(os.environ)
    env.pop("PYTHONPATH", None)
    env["PYTHONDONTWRITEBYTECODE"] = "1"
    p = subprocess.run([sys.executable, "-W", "ignore", "-c", WORKER, root], capture_output=True,
                       text=True, env=env, cwd="/tmp")
    if p.returncode != 0:
        sys.stderr.write(p.stderr)
        raise SystemExit(2)
    return json.loads(p.stdout)

def main():
    base, ref = sys.argv[1], sys.argv[2]
    a, b = run(base), run(ref)
    bad = 0
    if len(a) != len(b):
        print("different number of results", len(a), len(b))
        bad += 1
    for x, y in zip(a, b):
        if x != y:
            bad += 1
            print("DIFF", x.get("case"))
            print("  base:", json.dumps(x)[:400])
            print("  ref :", json.dumps(y)[:400])
    nerr = sum(1 for x in a if "error" in x)
    print("%d cases compared (%d raise in base), %d differences" % (len(a), nerr, bad))
    sys.exit(0 if bad == 0 else 1)

if __name__ == "__main__":
    main()
