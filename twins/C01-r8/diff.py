#!/venv/bin/python
"""Differential check for property C01 (ExpressionSolver step table).

usage: diff.py <unmodified tree root> <refactored tree root>
Runs the same inputs against both trees (each in its own subprocess with its
own sys.path) and exits 0 iff every observable output is identical.
"""
import json
import os
import subprocess
import sys

WORKER = r'''
import sys, json, random
root = sys.argv[1]
sys.path.insert(0, root + '/src')
import scinumtools
assert scinumtools.__file__.startswith(root + '/'), scinumtools.__file__
from scinumtools.solver import ExpressionSolver, AtomBase
import scinumtools.solver as S
assert S.__file__.startswith(root + '/'), S.__file__

def show(v):
    if isinstance(v, AtomBase):
        v = v.value
    return "%s:%r" % (type(v).__name__, v)

def run(expr, **kw):
    try:
        with ExpressionSolver(AtomBase, **kw) as es:
            return show(es.solve(expr))
    except BaseException as e:
        return "EXC:" + type(e).__name__

fixed = [
    "1", " 42.5 ", "1+2", "1 + 2", "1-2-3", "2*3/4*5", "2**3**2", "-2**2", "2**-2",
    "--3", "-+-3", "+-+3", "3--2", "3-+2", "3+-2", "3 - - 2", "3*-2", "3/-2", "3*+2", "2**+2",
    "1+2*3", "(1+2)*3", "((1+2))*(3-4)", "( 1 + 2 ) * ( 3 )", "-(1+2)", "+(1+2)", "2*(-(3))",
    "exp(1)", "log(10)", "log10(1000)", "sqrt(16)", "sin(0.5)", "cos(0.5)", "tan(0.5)",
    "logb(8,2)", "pow(2,10)", "pow( 2 , 3 )", "pow(1+1,(2+1))", "logb(pow(2,5),2)",
    "sqrt(exp(2)*4)", "sin(1)**2+cos(1)**2", "exp(log(5))", "-exp(0)", "2*-exp(0)", "-sqrt(4)**2",
    "1<2", "1<=1", "2>=3", "2>1", "1==1", "1!=1", "1 == 2", "1+1==2", "2*3>5", "1<2==1",
    "!1", "!0", "!!1", "!!!0", "! 1", "!1==0", "!(1==0)", "!1<2", "!0&&!0",
    "1&&0", "1&&1", "0||1", "0||0", "1||0&&0", "0&&0||1", "(1||0)&&0", "1<2&&2<3", "1<2||2>3&&0",
    "1==1&&2!=3||!1", "!(1<2)||3>=3", "2&&3", "0||5", "3+4>6&&!0",
    "1e3+1", "1.5e-2*2", "1/0", "0/0", "log(0)", "sqrt(-1)", "2**0.5",
    # ill-formed
    "(1+2", "1+2)", "((1)", "(1))", "sqrt(", "sqrt(4", "pow(2)", "pow(1,2,3)", "logb(2)", "sin(1,2)",
    "exp()", "()", "1+", "*2", "1*", "1**", "/", "1//2", "1&&", "||1", "&&", "1==", "<2", "1<", "!",
    "1 2", "1+*2", "1*/2", "", " ", "abc", "1+a", "sin", "pow(,)", "pow(1,)", "1,2", "(1,2)",
    "1 ! 2", "1!", "(1)(2)", "2(3)", "1<>2", "1=2", "1&2", "1|2",
]

# pseudo-random stratified grammar samples
rnd = random.Random(20240131)
def num():
    return rnd.choice(["1", "2", "3", "7", "0.5", "2.25", "10", "1e1", "4", "0"])
def sp():
    return rnd.choice(["", "", " "])
def prim(d):
    r = rnd.random()
    if d <= 0 or r < 0.6:
        return num()
    if r < 0.7:
        return "(" + sp() + disj(d - 1) + sp() + ")"
    if r < 0.9:
        f = rnd.choice(["exp", "sqrt", "sin", "cos", "tan", "log", "log10"])
        return f + "(" + add(d - 1) + ")"
    f = rnd.choice(["pow", "logb"])
    return f + "(" + add(d - 1) + sp() + "," + sp() + add(d - 1) + ")"
def unary(d):
    s = prim(d)
    for _ in range(rnd.choice([0, 0, 0, 1, 1, 2])):
        s = rnd.choice("+-") + s
    return s
def chain(sub, ops, d, n=(1, 1, 1, 2, 3)):
    s = sub(d)
    for _ in range(rnd.choice(n) - 1):
        s += sp() + rnd.choice(ops) + sp() + sub(d)
    return s
def power(d): return chain(unary, ["**"], d, (1, 1, 1, 2))
def mul(d):   return chain(power, ["*", "/"], d)
def add(d):   return chain(mul, ["+", "-"], d)
def cmp_(d):  return chain(add, ["==", "!=", "<=", ">=", "<", ">"], d, (1, 1, 1, 2))
def neg(d):   return rnd.choice(["", "", "!", "!!"]) + cmp_(d)
def conj(d):  return chain(neg, ["&&"], d, (1, 1, 1, 2))
def disj(d):  return chain(conj, ["||"], d, (1, 1, 1, 2))

gen = [disj(rnd.choice([0, 1, 1, 2, 2, 3])) for _ in range(300)]
# single-edit ill-formed variants
bad = []
for e in gen[:120]:
    if not e:
        continue
    i = rnd.randrange(len(e))
    k = rnd.choice(["del", "ins", "dup"])
    if k == "del":
        bad.append(e[:i] + e[i + 1:])
    elif k == "ins":
        bad.append(e[:i] + rnd.choice(["(", ")", ",", "*", "&&", "<", "!"]) + e[i:])
    else:
        bad.append(e[:i] + e[i] + e[i:])

out = []
import warnings
warnings.simplefilter("ignore")
for e in fixed + gen + bad:
    out.append([e, run(e)])

# one solver object reused for several solves (token buffers must reset)
with ExpressionSolver(AtomBase) as es:
    for e in ["1+2", "(1+", "2*3", "pow(2)", "!0||0", "1+", "4/2"]:
        try:
            out.append(["reuse " + e, show(es.solve(e))])
        except BaseException as ex:
            out.append(["reuse " + e, "EXC:" + type(ex).__name__])

# restricted operator tables / custom steps
from scinumtools.solver import OperatorPar, OperatorMul, OperatorTruediv, OperatorAdd, OperatorSub, Otype
ops = {'par': OperatorPar, 'mul': OperatorMul, 'truediv': OperatorTruediv}
for e in ["2*3/4", "(2*3)/(4)", "2+3", "2*(3", "2**3"]:
    out.append(["restricted " + e, run(e, operators=ops)])
steps = [dict(operators=['par'], otype=Otype.ARGS),
         dict(operators=['add', 'sub'], otype=Otype.BINARY),
         dict(operators=['mul', 'truediv'], otype=Otype.BINARY)]
ops2 = {'par': OperatorPar, 'mul': OperatorMul, 'truediv': OperatorTruediv, 'add': OperatorAdd, 'sub': OperatorSub}
for e in ["2*3+4", "2+3*4", "(2+3)*4-1", "2*", "1-2*3-4"]:
    out.append(["steps " + e, run(e, operators=ops2, steps=steps)])
steps3 = [dict(operators=['par'], otype=Otype.ARGS), dict(operators=['mul'], otype=Otype.TERNARY)]
for e in ["2", "(2)", "2*3"]:
    out.append(["ternary " + e, run(e, operators=ops2, steps=steps3)])

# clients of the solver: units and DIP expressions
try:
    from scinumtools.units import Quantity, Unit
    for u in ["m", "kg*m2/s2", "m/s", "(kg*m)/(s2)", "J/(mol*K)", "km*(s", "m**2"]:
        try:
            q = Quantity(2.5, u)
            out.append(["unit " + u, str(q) + "|" + repr(q.baseunits if hasattr(q, 'baseunits') else None)])
        except BaseException as ex:
            out.append(["unit " + u, "EXC:" + type(ex).__name__])
except ImportError as ex:
    out.append(["units", "IMPORT:" + str(ex)])
try:
    from scinumtools.dip import DIP
    code = "a int = 3\nb float = (\"{?a} * 2 + 1\")\nc bool = (\"{?a} > 2 && !{?b} < 1\")\n"
    try:
        with DIP() as dip:
            dip.add_string(code)
            env = dip.parse()
        out.append(["dip", repr(env.data(verbose=False) if hasattr(env, 'data') else None)])
    except BaseException as ex:
        out.append(["dip", "EXC:" + type(ex).__name__])
except ImportError as ex:
    out.append(["dip", "IMPORT:" + str(ex)])

print("@@RESULT@@" + json.dumps(out))
'''


def run_tree(root):
    root = os.path.abspath(root)
    env = dict(os.environ)
    env.pop("PYTHONPATH", None)
    env["PYTHONDONTWRITEBYTECODE"] = "1"
    env["PYTHONHASHSEED"] = "0"
    p = subprocess.run([sys.executable, "-c", WORKER, root], capture_output=True,
                       text=True, env=env, cwd="/")
    if p.returncode != 0:
        sys.stderr.write(p.stderr)
        raise SystemExit(2)
    line = [l for l in p.stdout.splitlines() if l.startswith("@@RESULT@@")][-1]
    return json.loads(line[len("@@RESULT@@"):])


def main():
    a = run_tree(sys.argv[1])
    b = run_tree(sys.argv[2])
    bad = 0
    if len(a) != len(b):
        print("different number of results", len(a), len(b))
        bad += 1
    for (ea, ra), (eb, rb) in zip(a, b):
        if ea != eb or ra != rb:
            bad += 1
            print("DIFF %r: %s  vs  %s" % (ea, ra, rb))
    nexc = sum(1 for _, r in a if r.startswith("EXC:"))
    print("%d inputs compared (%d raising), %d differences" % (len(a), nexc, bad))
    sys.exit(1 if bad else 0)


if __name__ == "__main__":
    main()
