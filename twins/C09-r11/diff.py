#!/venv/bin/python
"""Differential check for property C09 (temporary custom units never outlive their scope).

usage: diff.py <unmodified tree root> <refactored tree root>

Runs the same scenarios against each tree in its own subprocess (own sys.path)
and exits 0 iff every observable output (values, units, exception types/args,
content of the process-wide tables, mutation of the caller's dictionaries) is identical.
"""
import json
import subprocess
import sys

RUNNER = r'''
import sys, json, hashlib
root = sys.argv[1]
sys.path.insert(0, root + '/src')
import numpy as np
from scinumtools.units import *
from scinumtools.units.settings import UNIT_STANDARD, UNIT_PREFIXES, UNIT_TYPES
from scinumtools.units.unit_environment import UnitEnvironment, check_unique_symbols
from scinumtools.units.unit_types import UnitType
from scinumtools.dip import DIP

def tname(x):
    return x.__name__ if isinstance(x, type) else repr(x)

def snap():
    std = [(k, repr(UNIT_STANDARD[k].data()) if not isinstance(UNIT_STANDARD[k].definition, type)
               else k + ':' + tname(UNIT_STANDARD[k].definition)) for k in list(UNIT_STANDARD.keys())]
    pre = [(k, repr(UNIT_PREFIXES[k].data())) for k in list(UNIT_PREFIXES.keys())]
    typ = [tname(t) for t in UNIT_TYPES]
    blob = repr((std, pre, typ, sorted(UNIT_STANDARD._data.keys()) == sorted(UNIT_STANDARD._keys)))
    return [len(std), len(pre), typ, hashlib.sha1(blob.encode()).hexdigest()]

INITIAL = snap()

def show(v):
    if isinstance(v, dict):
        return {str(k): show(x) for k, x in v.items()}
    if isinstance(v, (list, tuple)):
        return [show(x) for x in v]
    if isinstance(v, type):
        return 'type:' + v.__name__
    if isinstance(v, (int, float, str, bool)) or v is None:
        return v
    return str(v)

def exc(e):
    return ['EXC', type(e).__name__, show(list(e.args))]

class Boom(Exception):
    pass

class CustomA(UnitType):
    def _istype(self):
        return False

class CustomB(UnitType):
    def _istype(self):
        return False

DIMS = [3, 2, -1, 0, 0, 1, 0, 0]
results = {}

def scenario(fn):
    out = []
    try:
        r = fn(out)
        out.append(['RET', show(r)])
    except BaseException as e:
        out.append(exc(e))
    s = snap()
    out.append(['TABLES_RESTORED', s == INITIAL, s])
    # repair the global state so that later scenarios start from the same tables in both trees
    results[fn.__name__] = out
    return fn

def q(out, val, unit):
    x = Quantity(val, unit)
    out.append([str(x), x.baseunits.magnitude, x.baseunits.dimensions.value()])
    return x

@scenario
def s01_basic(out):
    units = {'x': {'magnitude': 3, 'dimensions': list(DIMS)}, 'y': Quantity(2, 'cm/g2')}
    with UnitEnvironment(units) as env:
        out.append([env.new_units, [tname(t) for t in env.new_types]])
        q(out, 1, 'x'); q(out, 1, 'y'); q(out, 2.5, 'x*y2/m')
        out.append(str(Quantity(1, 'x').to('m3*g2*cd/s')))
        out.append(['in', 'x' in UNIT_STANDARD, 'y' in UNIT_STANDARD, snap()[:2]])
    out.append(['after', 'x' in UNIT_STANDARD, 'y' in UNIT_STANDARD])
    return show(units['x'])

@scenario
def s02_body_raises(out):
    units = {'x': {'magnitude': 3, 'dimensions': list(DIMS)}}
    try:
        with UnitEnvironment(units):
            q(out, 1, 'x')
            raise Boom('body')
    finally:
        out.append(['after', 'x' in UNIT_STANDARD])

@scenario
def s03_duplicate_standard(out):
    units = {'a1': {'magnitude': 2, 'dimensions': list(DIMS)},
             'm': {'magnitude': 3, 'dimensions': list(DIMS)},
             'a2': {'magnitude': 4, 'dimensions': list(DIMS)}}
    try:
        UnitEnvironment(units)
    finally:
        out.append(show(units))

@scenario
def s04_prefixed_clash(out):
    units = {'km': {'magnitude': 3, 'dimensions': list(DIMS), 'definition': CustomA}}
    try:
        with UnitEnvironment(units):
            out.append('unreachable')
    finally:
        out.append([show(units), [tname(t) for t in UNIT_TYPES]])

@scenario
def s05_malformed_missing_magnitude(out):
    units = {'ok': {'magnitude': 1, 'dimensions': list(DIMS), 'definition': CustomA},
             'bad': {'dimensions': list(DIMS), 'definition': CustomB}}
    try:
        with UnitEnvironment(units):
            out.append('unreachable')
    finally:
        out.append([show(units), [tname(t) for t in UNIT_TYPES]])

@scenario
def s06_nested(out):
    u1 = {'x': {'magnitude': 3, 'dimensions': list(DIMS)}}
    with UnitEnvironment(u1) as e1:
        u2 = {'w': Quantity(5, 'x2/s'), 'v': {'magnitude': 7, 'dimensions': [1, 0, 0, 0, 0, 0, 0, 0], 'name': 'vee'}}
        with UnitEnvironment(u2) as e2:
            q(out, 2, 'w*v'); out.append([e1.new_units, e2.new_units])
            try:
                with UnitEnvironment(u1):
                    out.append('unreachable')
            except Exception as e:
                out.append(exc(e))
            out.append(['x' in UNIT_STANDARD, 'w' in UNIT_STANDARD, 'v' in UNIT_STANDARD])
            with UnitEnvironment({'jj': Quantity(1, 'w/v')}):
                q(out, 3, 'jj')
        out.append(['x' in UNIT_STANDARD, 'w' in UNIT_STANDARD, 'v' in UNIT_STANDARD, 'jj' in UNIT_STANDARD])
        try:
            Quantity(1, 'w')
        except Exception as e:
            out.append(exc(e))
    return show(u2)

@scenario
def s07_custom_type_manual_close(out):
    units = {'x': {'magnitude': 3, 'dimensions': list(DIMS), 'definition': CustomA},
             'y': {'magnitude': 3, 'dimensions': list(DIMS), 'definition': CustomA},
             'z': {'magnitude': 3, 'dimensions': list(DIMS), 'definition': CustomB}}
    env = UnitEnvironment(units)
    out.append([env.new_units, [tname(t) for t in env.new_types], [tname(t) for t in UNIT_TYPES]])
    out.append(UNIT_STANDARD['x'].name)
    env.close()
    out.append([[tname(t) for t in UNIT_TYPES], 'x' in UNIT_STANDARD])

@scenario
def s08_repeated_same_dict(out):
    units = {'x': {'magnitude': 3, 'dimensions': list(DIMS)}, 'y': Quantity(2, 'cm/g2')}
    for i in range(4):
        with UnitEnvironment(units):
            q(out, i, 'x/y')
        out.append(['x' in UNIT_STANDARD, snap() == INITIAL])
    return show(units)

@scenario
def s09_prefix_list(out):
    units = {'x': {'magnitude': 3, 'dimensions': list(DIMS), 'prefixes': ['k', 'M']}}
    with UnitEnvironment(units):
        q(out, 1, 'kx'); q(out, 1, 'Mx')
        try:
            Quantity(1, 'mx')
        except Exception as e:
            out.append(exc(e))

@scenario
def s09b_prefix_list_ok(out):
    units = {'xq': {'magnitude': 3, 'dimensions': list(DIMS), 'prefixes': ['k', 'M']}}
    with UnitEnvironment(units):
        q(out, 1, 'kxq'); q(out, 1, 'Mxq/s')
        try:
            Quantity(1, 'mxq')
        except Exception as e:
            out.append(exc(e))
    try:
        Quantity(1, 'kxq')
    except Exception as e:
        out.append(exc(e))

@scenario
def s10_prefix_true_clash(out):
    # 'c'+'al' collides with the calorie, 'G'+'al' with the Gal
    units = {'qq': {'magnitude': 1, 'dimensions': list(DIMS)},
             'al': {'magnitude': 3, 'dimensions': list(DIMS), 'prefixes': True}}
    with UnitEnvironment(units):
        out.append('unreachable')

@scenario
def s11_unknown_prefix(out):
    units = {'x': {'magnitude': 3, 'dimensions': list(DIMS), 'prefixes': ['Q'], 'definition': CustomB}}
    try:
        with UnitEnvironment(units):
            out.append('unreachable')
    finally:
        out.append([tname(t) for t in UNIT_TYPES])

@scenario
def s12_double_close(out):
    units = {'x': {'magnitude': 3, 'dimensions': list(DIMS), 'definition': CustomA}}
    try:
        with UnitEnvironment(units) as env:
            env.close()
            out.append(['x' in UNIT_STANDARD, [tname(t) for t in UNIT_TYPES]])
    finally:
        out.append(['x' in UNIT_STANDARD, [tname(t) for t in UNIT_TYPES]])

@scenario
def s13_non_mapping_unit(out):
    units = {'g1': {'magnitude': 3, 'dimensions': list(DIMS)}, 'g2': 'not a dict', 'g3': None}
    UnitEnvironment(units)

@scenario
def s14_quantity_existing_symbol(out):
    UnitEnvironment({'kg': Quantity(1, 'g')})

@scenario
def s15_string_definition(out):
    units = {'x': {'magnitude': 3, 'dimensions': list(DIMS), 'definition': 'm3*g2*cd/s', 'name': 'ex'},
             'n0': {'magnitude': 1, 'dimensions': list(DIMS), 'definition': None}}
    with UnitEnvironment(units) as env:
        out.append([env.new_units, env.new_types, UNIT_STANDARD['x'].definition, UNIT_STANDARD['x'].name,
                    UNIT_STANDARD['n0'].definition, UNIT_STANDARD['n0'].prefixes])
    return show(units)

@scenario
def s16_inner_raise_propagates(out):
    with UnitEnvironment({'x': {'magnitude': 3, 'dimensions': list(DIMS)}}):
        with UnitEnvironment({'y': Quantity(2, 'x')}):
            with UnitEnvironment({'z': Quantity(2, 'y')}):
                q(out, 1, 'z')
                raise KeyboardInterrupt()

@scenario
def s17_existing_type_not_reregistered(out):
    from scinumtools.units.unit_types import TemperatureUnitType
    units = {'x': {'magnitude': 3, 'dimensions': list(DIMS), 'definition': TemperatureUnitType}}
    with UnitEnvironment(units) as env:
        out.append([[tname(t) for t in env.new_types], [tname(t) for t in UNIT_TYPES]])
    out.append([tname(t) for t in UNIT_TYPES])

@scenario
def s18_empty_and_check(out):
    with UnitEnvironment({}) as env:
        out.append([env.new_units, env.new_types])
    return check_unique_symbols()

@scenario
def s19_keyboard_interrupt_in_registration(out):
    class Evil(dict):
        def __contains__(self, k):
            if k == 'prefixes':
                raise KeyboardInterrupt()
            return dict.__contains__(self, k)
    units = {'x': {'magnitude': 3, 'dimensions': list(DIMS), 'definition': CustomA},
             'y': Evil(magnitude=1, dimensions=list(DIMS), definition=CustomB)}
    try:
        UnitEnvironment(units)
    finally:
        out.append(['x' in UNIT_STANDARD, [tname(t) for t in UNIT_TYPES]])

@scenario
def s20_dip_units(out):
    with DIP() as p:
        p.add_unit("velocity", 13, 'cm/s')
        p.add_string("""
        $unit length = 2 cm
        $unit mass = 3 g
        a float = 4 [length]
        b float = 5 [mass]/[length]3
        c float = 2 [velocity]
        d float = 1 m
        d = 30 [length]
        """)
        env = p.parse()
        out.append(['mid', snap() == INITIAL])
        for n in ('a', 'b', 'c', 'd'):
            node = env.nodes.query(n)[0]
            out.append([n, str(node.value.value), node.value.unit])
        out.append(show({k: {a: b for a, b in v.items() if a != 'source'} for k, v in env.units.units.items()}))

@scenario
def s21_dip_unknown_unit(out):
    with DIP() as p:
        p.add_string("""
        $unit length = 2 cm
        a float = 4 [length]
        b float = 4 [nolength]
        """)
        p.parse()

@scenario
def s22_dip_duplicate_unit(out):
    with DIP() as p:
        p.add_string("""
        $unit length = 2 cm
        $unit area = 3 [length]2
        $unit length = 3 cm
        """)
        p.parse()

@scenario
def s23_dip_malformed_unit(out):
    with DIP() as p:
        p.add_string("""
        $unit length = 2 cm
        $unit bad = 2 [length]*qwerty
        """)
        p.parse()

@scenario
def s24_dip_repeated(out):
    for i in range(3):
        with DIP() as p:
            p.add_unit("len", i + 1, 'm')
            p.add_string("x float = 10 m\nx = 2 [len]\n")
            env = p.parse()
            node = env.nodes.query('x')[0]
            out.append([str(node.value.value), node.value.unit, snap() == INITIAL])

print('@@RESULT@@' + json.dumps(results, sort_keys=True, default=str))
'''


def run(root):
    p = subprocess.run([sys.executable, '-W', 'ignore', '-c', RUNNER, root],
                       capture_output=True, text=True, timeout=600)
    if p.returncode != 0:
        print(p.stdout[-2000:])
        print(p.stderr[-4000:])
        raise SystemExit(2)
    line = [l for l in p.stdout.splitlines() if l.startswith('@@RESULT@@')][-1]
    return json.loads(line[len('@@RESULT@@'):])


def main():
    base, new = sys.argv[1], sys.argv[2]
    a, b = run(base), run(new)
    bad = 0
    for k in sorted(set(a) | set(b)):
        if a.get(k) != b.get(k):
            bad += 1
            print('DIFF in', k)
            print('  base:', json.dumps(a.get(k)))
            print('  new :', json.dumps(b.get(k)))
    print(f'{len(a)} scenarios compared, {bad} differ')
    if '-v' in sys.argv:
        print(json.dumps(a, indent=1))
    sys.exit(1 if bad else 0)


if __name__ == '__main__':
    main()
