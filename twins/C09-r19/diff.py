#!/venv/bin/python
"""Differential check for property C09 (temporary custom units never outlive their scope).

usage: diff.py <unmodified tree root> <refactored tree root>
Runs the same scenarios against both trees (each in its own subprocess with its own
sys.path) and exits 0 iff every observable output is identical.
"""
import sys, os, json, subprocess

WORKER = r'''
import sys, json, copy
sys.path.insert(0, sys.argv[1] + '/src')
import numpy as np
from scinumtools.units import Quantity, Unit, UnitEnvironment
from scinumtools.units.settings import UNIT_STANDARD, UNIT_PREFIXES, UNIT_TYPES
from scinumtools.units.unit_types import UnitType
from scinumtools.units.unit_environment import check_unique_symbols
from scinumtools.parameter_table import ParameterTable, ParameterSettings
from scinumtools.dip import DIP
from scinumtools.dip.environment import Environment
from scinumtools.dip.datatypes import FloatType, IntegerType
from scinumtools.dip.solvers import NumericalSolver, LogicalSolver

def snap():
    return {
        'std_keys': list(UNIT_STANDARD.keys()),
        'std_data': repr(UNIT_STANDARD.data()),
        'std_len': len(UNIT_STANDARD),
        'pre_keys': list(UNIT_PREFIXES.keys()),
        'pre_data': repr(UNIT_PREFIXES.data()),
        'types': [t.__name__ for t in UNIT_TYPES],
    }

BASE = snap()
results = []

def exc(e):
    return [type(e).__name__, repr(e.args)]

def run(name, fn):
    out = {'name': name}
    try:
        out['value'] = fn()
    except BaseException as e:
        out['raised'] = exc(e)
    now = snap()
    out['tables_restored'] = (now == BASE)
    out['tables'] = now if now != BASE else 'base'
    results.append(out)

class CustomUnitType(UnitType):
    def _istype(self):
        return False

class OtherUnitType(UnitType):
    def _istype(self):
        return False

class Boom(Exception):
    pass

def q(value, unit):
    x = Quantity(value, unit)
    return [str(x), float(x.baseunits.magnitude), x.baseunits.dimensions.value()]

# 1 plain dict + Quantity definitions, used in scope
def s01():
    units = {'x': {'magnitude':3, 'dimensions':[3,2,-1,0,0,1,0,0]}, 'y': Quantity(2, 'cm/g2')}
    with UnitEnvironment(units) as env:
        inside = [q(1,'x'), q(1,'y'), q(2,'x*y2'), 'x' in UNIT_STANDARD, list(UNIT_STANDARD.keys())[-2:],
                  env.new_units, len(env.new_types)]
        inside.append(repr(UNIT_STANDARD['x'].data()))
        inside.append(repr(UNIT_STANDARD['y'].data()))
    return [inside, 'x' in UNIT_STANDARD, repr(units['x']), type(units['y']).__name__]
run('dict_and_quantity', s01)

# 2 exception in the body
def s02():
    units = {'x': {'magnitude':3, 'dimensions':[3,2,-1,0,0,1,0,0], 'prefixes':['k','G'], 'name':'ex'}}
    with UnitEnvironment(units):
        r = q(1, 'kx')
        raise Boom(r)
run('body_raises', s02)

# 3 duplicate of a standard symbol, after one good registration
def s03():
    units = {'x': {'magnitude':3, 'dimensions':[0]*8}, 'm': {'magnitude':1, 'dimensions':[1,0,0,0,0,0,0,0]}}
    with UnitEnvironment(units):
        return 'unreachable'
run('duplicate_standard_symbol', s03)

# 4 clash with a prefixed symbol (mm == milli + m), plus prefixes=True clash
def s04():
    out = []
    for units in (
        {'x': {'magnitude':3, 'dimensions':[0]*8}, 'mm': {'magnitude':1, 'dimensions':[0]*8}},
        {'in2': {'magnitude':3, 'dimensions':[0]*8}, 'i': {'magnitude':1, 'dimensions':[0]*8, 'prefixes':['m']}, 'mi2': {'magnitude':1, 'dimensions':[0]*8}},
        {'in': {'magnitude':1, 'dimensions':[0]*8}},
        {'W2': {'magnitude':1, 'dimensions':[0]*8, 'prefixes':True}, 'kW2': {'magnitude':1, 'dimensions':[0]*8}},
    ):
        try:
            with UnitEnvironment(units):
                out.append('ok')
        except BaseException as e:
            out.append(exc(e))
        out.append(snap()==BASE)
    return out
run('prefixed_clash', s04)

# 5 malformed definitions
def s05():
    out = []
    for units in (
        {'x': {'dimensions':[0]*8}},
        {'x': {'magnitude':1}},
        {'a': {'magnitude':1,'dimensions':[0]*8,'definition':CustomUnitType}, 'x': {'definition':OtherUnitType}},
        {'x': 5},
        {'x': None},
        {'x': 'abc'},
        {'m': 5},
        {'a': {'magnitude':1,'dimensions':[0]*8}, 'b': {'magnitude':1,'dimensions':[0]*8,'prefixes':['qq']}},
        {'a': {'magnitude':1,'dimensions':[0]*8,'definition':[1,2]}, 'b': {}},
        [('x', {'magnitude':1,'dimensions':[0]*8})],
        None,
    ):
        try:
            with UnitEnvironment(units):
                out.append(['ok', list(UNIT_STANDARD.keys())[-1]])
        except BaseException as e:
            out.append(exc(e))
        out.append(snap()==BASE)
        out.append(repr(units) if not isinstance(units, dict) or not any('definition' in v for v in units.values() if isinstance(v, dict) and not isinstance(v.get('definition'), (str, type(None), list))) else sorted(units))
    return out
run('malformed', s05)

# 6 custom conversion type registered and removed; string definitions; shared type
def s06():
    out = []
    units = {'x': {'magnitude':3, 'dimensions':[3,2,-1,0,0,1,0,0], 'definition':CustomUnitType},
             'z': {'magnitude':3, 'dimensions':[3,2,-1,0,0,1,0,0], 'definition':CustomUnitType},
             'w': {'magnitude':2, 'dimensions':[1,0,0,0,0,0,0,0], 'definition':'2*m'},
             'v': {'magnitude':2, 'dimensions':[1,0,0,0,0,0,0,0], 'definition':None}}
    env = UnitEnvironment(units)
    out.append([[t.__name__ for t in UNIT_TYPES], [t.__name__ for t in env.new_types], env.new_units, q(1,'w'), q(3, 'v')])
    out.append(sorted((k, sorted(v)) for k, v in units.items()))
    env.close()
    out.append(snap()==BASE)
    try:
        env.close()
    except BaseException as e:
        out.append(exc(e))
    out.append(snap()==BASE)
    return out
run('custom_types', s06)

# 7 nested scopes, inner fails on duplicate of outer, inner type shared with outer
def s07():
    out = []
    with UnitEnvironment({'x': {'magnitude':3, 'dimensions':[0]*8, 'definition':CustomUnitType}}) as outer:
        mid = snap()
        with UnitEnvironment({'y': {'magnitude':4, 'dimensions':[1]+[0]*7, 'definition':CustomUnitType},
                              'yy': {'magnitude':4, 'dimensions':[1]+[0]*7, 'definition':OtherUnitType}}) as inner:
            out.append([q(1,'x*y'), [t.__name__ for t in UNIT_TYPES], [t.__name__ for t in inner.new_types]])
        out.append(snap()==mid)
        try:
            with UnitEnvironment({'q': {'magnitude':1,'dimensions':[0]*8, 'definition':OtherUnitType}, 'x': {'magnitude':1,'dimensions':[0]*8}}):
                out.append('unreachable')
        except BaseException as e:
            out.append(exc(e))
        out.append(snap()==mid)
        try:
            with UnitEnvironment({'r': Quantity(2,'x')}):
                out.append(q(5,'r'))
                raise Boom('inner')
        except Boom as e:
            out.append(exc(e))
        out.append(snap()==mid)
        out.append(q(1,'x'))
    return out
run('nested', s07)

# 8 repeated scopes with the same dict (dict is mutated by the first registration)
def s08():
    out = []
    units = {'x': {'magnitude':3, 'dimensions':[0]*8}, 'y': Quantity(1,'km')}
    for i in range(3):
        with UnitEnvironment(units):
            out.append([q(i,'x'), q(i,'y'), len(UNIT_STANDARD)])
        out.append(snap()==BASE)
    out.append(repr(units['x']))
    return out
run('repeated', s08)

# 9 empty environment and check_unique_symbols itself
def s09():
    with UnitEnvironment({}) as env:
        inner = [env.new_units, env.new_types, check_unique_symbols()]
    return inner
run('empty', s09)

# 10 DIP text defining units, used in later nodes and expressions
def s10():
    with DIP() as p:
        p.add_unit("velocity", 13, 'cm/s')
        p.add_string("""
        $unit length = 1 cm
        $unit mass = 2 g
        $unit dens = 3 [mass]/[length]3
        a float = 3 [length]
        b float = 4 [mass]
        c float = ("{?a} * 2") cm
        d float = 5 [velocity]
        e float = 2 [dens]
        f int = 7 [length]
        """)
        env = p.parse()
    nodes = [[n.name, str(n.value.value), n.value.unit] for n in env.nodes.values()] if hasattr(env.nodes,'values') else None
    if nodes is None:
        nodes = [[k, str(v)] for k, v in env.data(verbose=True).items()]
    units = {k: sorted(v.keys()) for k, v in env.units.items()}
    vals = {k: [v['magnitude'], v['dimensions'], v['value'], v['units']] for k, v in env.units.items()}
    return [nodes, units, repr(vals)]
run('dip_units', s10)

# 11 DIP text: failing registrations/uses
def s11():
    out = []
    for code in (
        "$unit length = 1 cm\n$unit length = 2 cm\na float = 1 [length]",
        "$unit m = 1 cm\na float = 1 m",
        "$unit length = 1 foo\na float = 1 [length]",
        "$unit length = 1 cm\na float = 1 [nolength]",
        "$unit length = 1 cm\na float = 1 [length]\nb float = (\"{?a} + 1\") s",
        "$unit length = 1 cm\na int = 1 [length]\n  = 3 s",
        "$unit length = 1 cm\na int = 2 [length]\nb bool = (\"{?a} == 2 [length]\")",
        "$unit length = 1 cm\na float = 2 m\n@case (\"{?a} > 150 [length]\")\nb int = 1\n@case (\"{?a} > 1 [bad]\")\nb int = 2\n@end",
    ):
        try:
            with DIP() as p:
                p.add_string(code)
                env = p.parse()
            out.append([[k, str(v)] for k, v in env.data(verbose=True).items()])
        except BaseException as e:
            out.append(exc(e))
        out.append(snap()==BASE)
    return out
run('dip_failures', s11)

# 12 solvers and datatypes with a DIP environment holding custom units
def s12():
    out = []
    with DIP() as p:
        p.add_unit("velocity", 13, 'cm/s')
        p.add_string("$unit length = 2 cm\na float = 3 [length]\nb float = 4 [velocity]")
        env = p.parse()
    with NumericalSolver(env) as s:
        out.append(str(s.solve("{?a} * 2 + 1 cm")))
        out.append(str(s.solve("{?b} / {?a}", 's-1')))
        out.append(s.solve(3))
        out.append([s.equal("1 cm", "10 mm"), s.equal("1 cm", "11 mm")])
        try:
            out.append(s.equal("{?a}", "6 cm"))
        except BaseException as e:
            out.append(exc(e))
        out.append(snap()==BASE)
        try:
            s.solve("{?a} + 1 s")
        except BaseException as e:
            out.append(exc(e))
        out.append(snap()==BASE)
        try:
            s.solve("1 [nothing]")
        except BaseException as e:
            out.append(exc(e))
        out.append(snap()==BASE)
    with LogicalSolver(env) as s:
        out.append(str(s.solve("{?a} == 6 cm && {?b} > 1 cm/s")))
        out.append(str(s.solve("!{?zz} || {?a} < 1 [length]")))
        try:
            s.solve("{?a} == 1 [nothing]")
        except BaseException as e:
            out.append(exc(e))
        out.append(snap()==BASE)
    for T, v in ((FloatType, 3.0), (IntegerType, 4), (FloatType, np.array([1.0, 2.0])), (FloatType, [1.0, 2.0])):
        for args in (('[length]','mm',env), ('cm','mm',None), ('cm',None,env), (None,'cm',env), ('cm','cm',env), ('cm','',env),
                     ('[length]','mm',None), ('cm','[length]',None), ('cm','[length]',env), ('cm','s',env), ('[bad]','cm',env), ('[velocity]','m/s',env)):
            t = T(v, args[0])
            try:
                r = t.convert(args[1], args[2]) if args[2] is not None else t.convert(args[1])
                out.append([str(t.value), t.unit, r is t])
            except BaseException as e:
                out.append(exc(e) + [str(t.value), t.unit])
            out.append(snap()==BASE)
    return out
run('solvers_types', s12)

# 13 node-level unit validation inside DIP (declared units that do not exist / do exist)
def s13():
    out = []
    for code in (
        "$unit length = 1 cm\na float = 1 [length]2/s",
        "$unit length = 1 cm\na int = 1 k[length]",
        "a float = 1 qqq",
        "a int = 1 qqq",
        "a float = 1",
        "a int = 1",
        "$unit length = 1 cm\na float = (\"2 [length] * 3\") mm\nb int = (\"2 [length] * 3\") mm\nc float = (\"2 * 3\")\nd int = (\"7 / 2\")",
        "$unit length = 1 cm\na float = (\"2 [length] * 3\")",
    ):
        try:
            with DIP() as p:
                p.add_string(code)
                env = p.parse()
            out.append([[k, str(v)] for k, v in env.data(verbose=True).items()])
        except BaseException as e:
            out.append(exc(e))
        out.append(snap()==BASE)
    return out
run('dip_node_units', s13)

# 14 ParameterTable / ParameterSettings direct behaviour (table module used for the unit tables)
def s14():
    out = []
    t = ParameterTable(['a','b'], {'k1': (1,2), 'k2': (3,4)}, keys=True)
    out.append([list(t.keys()), repr(list(t.items())), repr(t[0]), repr(t['k2']), repr(t.k1), 'k1' in t, 'zz' in t, len(t), t.shape(), repr(t.data()), str(t)])
    t.append('k3', (5,6)); t['k1'] = (7,8)
    out.append([list(t.keys()), repr(t.data())])
    del t['k2']
    out.append([list(t.keys()), repr(t.data()), repr(t[1])])
    for fn in (lambda: t.__delitem__('nope'), lambda: t['nope'], lambda: t[9], lambda: t.nope, lambda: t.append('k9', 5), lambda: t.append('k8')):
        try:
            out.append(repr(fn()))
        except BaseException as e:
            out.append(exc(e))
        out.append([list(t.keys()), sorted(t._data.keys())])
    out.append(t.to_text())
    l = ParameterTable(['a','b'], [(1,2),(3,4),(5,6)])
    out.append([repr(l.items()), type(l.items()).__name__, repr(l[1]), len(l), l.shape(), repr(l.data())])
    del l[0]
    out.append(repr(l.data()))
    for fn in (lambda: l.keys(), lambda: 1 in l, lambda: l.a, lambda: l.__setitem__('a',(1,2)), lambda: l.__delitem__(7), lambda: l['a']):
        try:
            out.append(repr(fn()))
        except BaseException as e:
            out.append(exc(e))
    out.append(l.to_text())
    s = ParameterSettings({'a':1,'b':[2]})
    out.append([repr(s), s.keys(), list(s.items()), s.data(), s['a'], type(s.items()).__name__])
    e = ParameterTable(['a'], keys=True)
    out.append([list(e.keys()), repr(e.data()), len(e), repr(list(e.items()))])
    return out
run('parameter_table', s14)

# 15 registration interrupted by a non-Exception BaseException
def s15():
    class Evil(dict):
        def items(self):
            yield 'x', {'magnitude':1,'dimensions':[0]*8,'definition':CustomUnitType}
            raise KeyboardInterrupt('stop')
    out = []
    try:
        UnitEnvironment(Evil())
    except BaseException as e:
        out.append(exc(e))
    out.append(snap()==BASE)
    return out
run('base_exception', s15)

# 16 DIP unit list queries and duplicate custom unit names
def s16():
    from scinumtools.dip.lists import UnitList
    out = []
    with DIP() as p:
        p.add_unit("velocity", 13, 'cm/s')
        p.add_string("$unit length = 2 cm")
        env = p.parse()
    ul = env.units
    out.append([len(ul), list(ul.keys()), sorted(ul.query('*')), ul.query('*') is ul.units, sorted(ul.query('[length]')), ul.query('[length]')['[length]'] is ul['[length]']])
    for fn in (lambda: ul.query('[nope]'), lambda: ul.query(''), lambda: ul.append('length', '1', 'cm', Quantity(1,'cm'), ('s',1)), lambda: UnitList().query('*')):
        try:
            out.append(repr(fn()))
        except BaseException as e:
            out.append(exc(e))
    try:
        with DIP() as p:
            p.add_unit("velocity", 13, 'cm/s')
            p.add_unit("velocity", 14, 'cm/s')
    except BaseException as e:
        out.append(exc(e))
    return out
run('unit_list', s16)

sys.stdout.write('\n@@RESULT@@' + json.dumps(results, sort_keys=True, default=repr))
'''

def run_tree(root):
    p = subprocess.run([sys.executable, '-W', 'ignore', '-c', WORKER, os.path.abspath(root)],
                       capture_output=True, text=True, cwd='/tmp')
    if p.returncode != 0:
        print('worker failed for', root, '\n', p.stderr[-3000:])
        sys.exit(2)
    if '@@RESULT@@' not in p.stdout:
        print('no result from', root, p.stdout[-2000:], p.stderr[-2000:]); sys.exit(2)
    return json.loads(p.stdout.split('@@RESULT@@')[-1])

def main():
    a = run_tree(sys.argv[1])
    b = run_tree(sys.argv[2])
    ok = True
    if len(a) != len(b) or len(a) < 12:
        print('scenario count mismatch', len(a), len(b)); ok = False
    for x, y in zip(a, b):
        if x != y:
            ok = False
            print('DIFF in', x['name'])
            print('  base:', json.dumps(x, sort_keys=True)[:2000])
            print('  new :', json.dumps(y, sort_keys=True)[:2000])
    print('scenarios:', len(a), 'identical' if ok else 'DIFFERENT')
    if '-v' in sys.argv:
        for x in a:
            print(json.dumps(x, sort_keys=True)[:1500])
    sys.exit(0 if ok else 1)

if __name__ == '__main__':
    main()
