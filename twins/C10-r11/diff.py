#!/venv/bin/python
"""Differential check for property C10 (formula -> atoms decomposition).

usage: diff.py <unmodified tree root> <refactored tree root>

The same probe is executed in a fresh subprocess against each tree (each with
its own sys.path); the two JSON reports must be identical.  Exit 0 iff equal.
"""
import json
import subprocess
import sys

PROBE = r'''
import sys, json, warnings
warnings.filterwarnings("ignore")
root = sys.argv[1]
sys.path.insert(0, root + "/src")
import numpy as np
from scinumtools.units import Quantity
from scinumtools.materials import Element, Substance, SubstanceSolver

def enc(v):
    if isinstance(v, Quantity):
        return ["Q", enc(v.value()), str(v.units())]
    if isinstance(v, (np.floating, float)):
        return ["f", repr(float(v))]
    if isinstance(v, (np.integer, int)) and not isinstance(v, bool):
        return ["i", int(v)]
    if isinstance(v, (list, tuple)):
        return [enc(x) for x in v]
    if isinstance(v, dict):
        return {str(k): enc(x) for k, x in v.items()}
    if v is None or isinstance(v, (bool, str)):
        return v
    return ["o", type(v).__name__, str(v)]

def guard(fn):
    try:
        return fn()
    except BaseException as exc:
        return ["raised", type(exc).__name__]

def element_report(e):
    return {
        "expr": e.expr, "element": e.element, "isotope": enc(e.isotope),
        "ionisation": enc(e.ionisation), "proportion": enc(e.proportion),
        "mass": enc(e.mass), "Z": enc(e.Z), "N": enc(e.N), "e": enc(e.e),
        "natural": e.natural,
        "component_mass": enc(e.component_mass),
        "composite_mass": enc(e.composite_mass),
        "str": str(e),
    }

def substance_report(s):
    out = {"expr": s.expr, "str": guard(lambda: str(s)),
           "order": list(s.components.keys()),
           "proportion_norm": enc(s.proportion_norm),
           "composite_mass": enc(s.composite_mass),
           "components": {k: element_report(c) for k, c in s.components.items()}}
    def tables():
        res = {}
        dc = s.data_components(quantity=False)
        ds = s.data_composite(quantity=False)
        if dc is None or ds is None:
            return None
        for key in list(s.components.keys()):
            res["c:" + key] = enc(dict(dc[key]))
            res["s:" + key] = enc(dict(ds[key]))
        res["sum"] = enc(dict(ds["sum"]))
        res["avg"] = enc(dict(ds["avg"]))
        dq = s.data_composite()
        res["sumQ"] = enc(dict(dq["sum"]))
        return res
    out["tables"] = guard(tables)
    return out

ELEMENTS = [
    "H", "O", "B", "B{11}", "B{11-1}", "O{17-2}", "O{16+}", "O{18-}", "Fe{+3}",
    "Fe{-}", "Fe{+}", "Cl{35+2}", "U", "U{238}", "U{235+4}", "D", "T", "D{+}",
    "T{-2}", "D{3}", "T{2+1}", "[p]", "[n]", "[e]", "He{3}", "Og", "Tc", "Pm",
    "C{99}", "Xx", "x", "", "1", "{12}", "H{}", "H{1", "Na{23+1}", "h", "Da",
    "H{0}", "H{0+1}", "D{-}", "O{+0}", "O{-0}", "T{+}", "He{4+02}", "[p]2", "[x]",
]
FORMULAS = [
    "H2O", "B{11}N{14}H{1}6", "DT", "[p]3[n]2[e]", "C6H12O6", "Ca(OH)2",
    "Al2(SO4)3", "Mg3(PO4)2", "(NH4)2SO4", "K4(Fe(CN)6)", "((CH3)3C)2O",
    "H2 O", "Na Cl", "H2 + O", "H * 2 + O", "(H2O)3", "2 * H", "H{1}2O{16}",
    "O{16-2}H{1}2", "U{235}O2", "Fe2(SO4)3 (H2O)9", "C2H5OH", "CH3COOH",
    "D2O", "T2 O{18}", "[p]2[e]2[n]2", "He{4+2}", "NaCl Na{23+1}Cl{35-1}",
    "H2O2H2", "(D2O)2(H2O)3", "Ca(OH)2 * 3", "((H)2)2", "( H2 O )2",
    "H{1}H{2}H{3}", "HHeLiBeBCNOFNe", "Uuo", "Xx2", "H2(", "H2)", "()", "H{99}2",
    "C60", "H+O", "H*3", "(Fe{56+3})2(O{16-2})3", "H2O * 1.5", "H2O * 2e0",
]

report = {}
for nat in (True, False):
    tag = "nat" if nat else "abu"
    for x in ELEMENTS:
        report["E|%s|%s" % (tag, x)] = guard(lambda: element_report(Element(x, natural=nat)))
        report["E3|%s|%s" % (tag, x)] = guard(lambda: element_report(Element(x, 3, natural=nat)))
    for f in FORMULAS:
        report["S|%s|%s" % (tag, f)] = guard(lambda: substance_report(Substance(f, natural=nat)))

# preprocessing of the notation (implicit + and *)
with SubstanceSolver(lambda a: a) as ss:
    for f in FORMULAS + ["A1B2  C3", "Na2 (S O4) 3Cl", ")2(", "H)2O(", "[p][n] [e]2"]:
        report["P|" + f] = guard(lambda: ss.preprocess(f))

# pseudo-random formulas of the grammar (fixed seed, identical in both runs)
import random
rnd = random.Random(1234)
SYMS = ["H", "He", "C", "N", "O", "Na", "Cl", "Fe", "U", "D", "T", "[p]", "[n]", "[e]"]
def species():
    s = rnd.choice(SYMS)
    if s[0] != "[":
        k = rnd.random()
        if k < 0.15 and s in ("H", "C", "O"):
            s += "{%d}" % {"H": 2, "C": 13, "O": 18}[s]
        elif k < 0.3:
            s += "{%s%s}" % (rnd.choice("+-"), rnd.choice(["", "1", "2"]))
        elif k < 0.4 and s in ("H", "C", "O"):
            s += "{%d%s%d}" % ({"H": 1, "C": 12, "O": 16}[s], rnd.choice("+-"), rnd.randint(1, 3))
    if rnd.random() < 0.5:
        s += str(rnd.randint(2, 12))
    return s
def group(depth):
    parts = []
    for _ in range(rnd.randint(1, 4)):
        if depth < 3 and rnd.random() < 0.3:
            g = "(" + group(depth + 1) + ")"
            if rnd.random() < 0.7:
                g += str(rnd.randint(2, 5))
            parts.append(g)
        else:
            parts.append(species())
    sep = lambda: rnd.choice(["", "", "", " ", "  ", " + "])
    out = parts[0]
    for q in parts[1:]:
        out += sep() + q
    return out
RANDOM = [group(0) for _ in range(60)]
with SubstanceSolver(lambda a: a) as ss:
    for f in RANDOM:
        report["RP|" + f] = guard(lambda: ss.preprocess(f))
for f in RANDOM:
    for nat in (True, False):
        report["RS|%s|%s" % (nat, f)] = guard(lambda: substance_report(Substance(f, natural=nat)))

# arithmetic on substances and elements
def arith():
    out = {}
    a, b = Substance("B{11}N{14}"), Substance("H{1}6")
    out["a+b"] = substance_report(a + b)
    out["a+E"] = substance_report(a + Element("H{1}", 6))
    out["a*3"] = substance_report(a * 3)
    out["(a+b)*2"] = substance_report((a + b) * 2)
    out["h2o+h2o"] = substance_report(Substance("H2O", natural=False) + Substance("H2O", natural=False))
    out["dict"] = substance_report(Substance({"H": 2, "O{16-2}": 1, "D": 3}))
    out["dict_abu"] = substance_report(Substance({"H": 2, "O": 1}, natural=False))
    out["E*"] = element_report(Element("O{17-2}") * 4)
    out["E+"] = element_report(Element("B", 2) + Element("B", 5))
    out["E+bad"] = guard(lambda: element_report(Element("B") + Element("C")))
    s = Substance()
    s.add("H", 2); s.add("O"); s.add("H", 1)
    out["add"] = substance_report(s)
    out["empty"] = guard(lambda: substance_report(Substance()))
    return out
report["arith"] = guard(arith)

# every element of the table, both modes, and every isotope of a few elements
from scinumtools.materials.element import PERIODIC_TABLE
from scinumtools.materials.periodic_table import PT_DATA
for sym in PT_DATA:
    for nat in (True, False):
        report["T|%s|%s" % (sym, nat)] = guard(lambda: element_report(Element(sym, natural=nat)))
        report["Tion|%s|%s" % (sym, nat)] = guard(lambda: element_report(Element(sym + "{-2}", natural=nat)))
for sym in ("H", "C", "Sn", "U", "Xe"):
    for A in PT_DATA[sym][1]:
        report["I|%s|%s" % (sym, A)] = guard(lambda: element_report(Element("%s{%s+1}" % (sym, A))))

print(json.dumps(report, sort_keys=True))
'''


def run(root):
    proc = subprocess.run([sys.executable, "-c", PROBE, root],
                          capture_output=True, text=True, cwd="/tmp")
    if proc.returncode != 0:
        sys.stderr.write(proc.stderr)
        raise SystemExit(2)
    return json.loads(proc.stdout)


def main():
    base, new = run(sys.argv[1]), run(sys.argv[2])
    bad = [k for k in sorted(set(base) | set(new)) if base.get(k) != new.get(k)]
    for k in bad[:20]:
        print("DIFF", k, "\n  base:", json.dumps(base.get(k))[:400], "\n  new: ", json.dumps(new.get(k))[:400])
    print("%d probes compared, %d differ" % (len(base), len(bad)))
    return 1 if bad else 0


if __name__ == "__main__":
    sys.exit(main())
