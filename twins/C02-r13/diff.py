#!/venv/bin/python
"""Differential check for property C02 (a solver instance is unaffected by what it solved before).

usage: diff.py <unmodified tree root> <refactored tree root>

Runs the same sequences of solve() calls (including calls that fail part-way) on one solver
instance per scenario against both trees, each in its own subprocess with its own sys.path,
and exits 0 iff every observable output (value, type, unit string, raised exception type) and
the residual token buffers are identical.
"""
import json
import subprocess
import sys

WORKER = r'''
import sys, json, warnings
warnings.simplefilter("ignore")
sys.path.insert(0, sys.argv[1] + "/src")
import numpy as np
from scinumtools.solver import *
from scinumtools.solver.expression import Expression
from scinumtools.solver.tokens import Tokens

out = []

def show(v):
    if hasattr(v, "value") and not callable(getattr(v, "value")):
        v = v.value
    if isinstance(v, (float, np.floating)):
        return ["float", repr(float(v))]
    if isinstance(v, (bool, np.bool_)):
        return ["bool", bool(v)]
    return [type(v).__name__, str(v)]

def run(name, es, exprs):
    rec = []
    for e in exprs:
        try:
            r = es.solve(e)
            rec.append(["ok", e if isinstance(e, str) else repr(e), type(r).__name__, show(r)])
        except BaseException as exc:
            rec.append(["err", e if isinstance(e, str) else repr(e), type(exc).__name__])
        # residual state visible on the instance after the call
        rec.append(["state", [repr(t) for t in es.tokens.left], [repr(t) for t in es.tokens.right],
                    es.expr.left, es.expr.right])
    out.append([name, rec])

GOOD = ["1 + 2*3", "-(2 + 3)**2", "sin(0.5) + cos(0.25)*tan(1)", "logb(8, 2) + pow(2, 3)",
        "2 < 3 && !(4 == 5) || 1 > 2", "exp(1) - sqrt(16)/log10(100)", "!!1", "- -3", "+ +4 - -2",
        "((1 + 2)*(3 + 4))", "log(2.5)", "3 != 3", "2 <= 2", "5 >= 6"]
BAD = ["1 + foo", "(1 + 2", "2 *", "* 2", "1 + (2 * bar)", "logb(2)", "pow(1, 2, 3)", "sin(", "1 2 +",
       "3 + (4 + (5", "", "   ", "1 +* 2", "(1 + 2)) + 3", "2 ** ", "!"]

# 1. default solver: interleave good and failing expressions, then repeat the good ones
seq = []
for i, g in enumerate(GOOD):
    seq.append(g)
    seq.append(BAD[i % len(BAD)])
    seq.append(g)
run("default-interleaved", ExpressionSolver(AtomBase), seq)

# 2. default solver: all failing first, then all good
run("default-bad-then-good", ExpressionSolver(AtomBase), BAD + GOOD + BAD[::-1] + GOOD[::-1])

# 3. fresh instance per expression (reference for order independence)
for k, e in enumerate(GOOD + BAD):
    run("fresh-%d" % k, ExpressionSolver(AtomBase), [e])

# 4. custom atom with a constructor that raises
class AtomVar(AtomBase):
    table = {"foo": 3.0, "bar": 4.0}
    def __init__(self, value):
        if isinstance(value, str):
            v = value.strip()
            if v == "boom":
                raise KeyError("boom")
            self.value = self.table[v] if v in self.table else float(v)
        else:
            self.value = value
run("custom-atom", ExpressionSolver(AtomVar),
    ["foo*bar", "foo + boom", "foo*bar", "(boom)", "foo < bar && foo*bar == 12", "sin(boom) + 1",
     "foo*bar**(2-233)", "baz", "bar - foo", "(foo + (bar", "bar - foo", "logb(boom, 2)", "sin(foo)"])

# 5. string atom, operator subset, custom step order
class AtomStr(AtomBase):
    def __init__(self, value):
        self.value = str(value)
    def __add__(self, other):
        return AtomStr(self.value + other.value)
    def __gt__(self, other):
        return AtomStr(len(self.value) > len(other.value))
ops = {"add": OperatorAdd, "gt": OperatorGt, "par": OperatorPar}
steps = [dict(operators=["par"], otype=Otype.ARGS),
         dict(operators=["add"], otype=Otype.BINARY),
         dict(operators=["gt"], otype=Otype.BINARY)]
run("string-atom-steps", ExpressionSolver(AtomStr, ops, steps),
    ["foo + bar", "(limit + 100 km/s) > (limit + 5 km/s)", "(foo + bar", "foo + bar", "a > > b", "foo + bar",
     "+ a", "a +", "foo + bar", "(a, b)", "foo + (bar + baz)"])
run("string-atom-nosteps", ExpressionSolver(AtomStr, {"add": OperatorAdd, "gt": OperatorGt}),
    ["foo + bar", "foo > bar", "foo + bar > x", "foo + bar"])

# 6. operator subset with default steps
run("subset-gt-eq", ExpressionSolver(AtomBase, {"gt": OperatorGt, "eq": OperatorEq}),
    ["23 > 4", "20 == 20", "1 + 2", "23 > 4", "3 > ", "> 3", "20 == 20", "1 > 2 > 3", "23 > 4"])
run("subset-log", ExpressionSolver(AtomBase, {"log": OperatorLog}),
    ["log(1)", "23 > 4", "log(", "log(1)", "log(1, 2)", "log(log(1))", "log(1)"])

# 7. custom operators and reversed/odd step order
class OperatorSquare(OperatorBase):
    symbol = "~"
    def operate_unary(self, tokens):
        right = tokens.get_right()
        tokens.put_left(right*right)
class OperatorCube(OperatorBase):
    symbol = "^"
    def operate_unary(self, tokens):
        left = tokens.get_left()
        tokens.put_left(left*left*left)
class OperatorNotWord(OperatorNot):
    symbol = "not"
ops = {"square": OperatorSquare, "cube": OperatorCube, "add": OperatorAdd, "mul": OperatorMul,
       "not": OperatorNotWord, "par": OperatorPar}
steps = [dict(operators=["par"], otype=Otype.ARGS),
         dict(operators=["square", "cube"], otype=Otype.UNARY),
         dict(operators=["add"], otype=Otype.BINARY),      # addition before multiplication
         dict(operators=["mul", "missing"], otype=Otype.BINARY),
         dict(operators=["absent"], otype=Otype.BINARY),
         dict(operators=["not"], otype=Otype.UNARY),
         dict(operators=["add"], otype=Otype.TERNARY)]
run("custom-ops", ExpressionSolver(AtomBase, ops, steps),
    ["~3 + 2^", "2*3 + 4", "^", "~3 + 2^", "~", "2*(3 + 4", "2*3 + 4", "not 1", "not not 0", "not",
     "(~2)^ * 2", "2 + + 3", "~3 + 2^"])

# 8. Expression objects passed directly and re-used, plus the context-manager form
e1 = Expression("1 + 2")
with ExpressionSolver(AtomBase) as es:
    run("expression-objects", es, [e1, e1, Expression("(3"), Expression(" 4*(5 + 6) "), "7/2", Expression("8 +")])

# 9. low-level pieces: Tokens.operate and OperatorPar parsing on their own
def low():
    rec = []
    for text in ["(1 + 2) rest", "(1, 2) rest", "((a)(b)) x", "(", "(a, (b, c)", "logb(a, b)c", "()", "( , )"]:
        ex = Expression(text)
        try:
            cls = OperatorLogb if text.startswith("logb(") else OperatorPar
            op = cls(ex)
            rec.append(["ok", text, [a.expr for a in op.args], ex.left, ex.right])
        except BaseException as exc:
            rec.append(["err", text, type(exc).__name__, ex.left, ex.right])
    for otype in (Otype.ARGS, Otype.UNARY, Otype.BINARY, Otype.TERNARY):
        tk = Tokens(AtomBase)
        for t in (AtomBase(2.0), OperatorAdd(), AtomBase(3.0), OperatorMul(), AtomBase(4.0)):
            tk.append(t)
        try:
            tk.operate((OperatorAdd,), otype)
            rec.append(["ok", otype.name, [repr(t) for t in tk.left], [repr(t) for t in tk.right]])
        except BaseException as exc:
            rec.append(["err", otype.name, type(exc).__name__, [repr(t) for t in tk.left], [repr(t) for t in tk.right]])
    tk = Tokens(AtomBase)
    rec.append(["empty", repr(tk.get_left()), repr(tk.get_right())])
    tk.operate((OperatorAdd,), Otype.BINARY)
    rec.append(["empty-operate", tk.left, tk.right])
    out.append(["low-level", rec])
low()

# 10. consumers built on the solver: units and DIP numerical expressions, repeated after failures
try:
    from scinumtools.units import Quantity, Unit
    rec = []
    for u in ["kg*m2/s2", "kg*(m", "kg*m2/s2", "m/s/s", "xyzzy*m", "m/s/s", "(kg*m)2/(s*s)", "m**", "km:2"]:
        try:
            q = Quantity(2.5, u)
            rec.append(["ok", u, str(q), str(q.baseunits.dimensions)])
        except BaseException as exc:
            rec.append(["err", u, type(exc).__name__])
    out.append(["units", rec])
except ImportError as exc:
    out.append(["units", ["import-error"]])

# 11. parenthesis operator with its own delimiters (as the materials module defines it)
class AnglePar(OperatorPar):
    symbol = "<"
    symbol_open = "<"
    symbol_separator = ";"
    symbol_close = ">"
class AnglePair(AnglePar):
    symbol = "pair<"
    narg = 2
    def operate_args(self, tokens):
        tokens.put_left(self.args[0]*self.args[1])
class SpacedMul(OperatorMul):
    symbol = " * "
class SpacedAdd(OperatorAdd):
    symbol = " + "
ops = {"pair": AnglePair, "par": AnglePar, "mul": SpacedMul, "add": SpacedAdd}
steps = [dict(operators=["pair", "par"], otype=Otype.ARGS),
         dict(operators=["mul"], otype=Otype.BINARY),
         dict(operators=["add"], otype=Otype.BINARY)]
run("angle-brackets", ExpressionSolver(AtomBase, ops, steps),
    ["2 * <3 + 4>", "2 * <3 + 4", "2 * <3 + 4>", "pair<2; 3> + 1", "pair<2> + 1", "pair<2; <3; 4>> + 1",
     "pair<2; 3> + 1", "<<1 + 2> * <3 + 4>>", "<1; 2>", "2 * <x>", "<>", "pair<<2>; <3 + 1>>", "2 * <3 + 4>"])
try:
    from scinumtools.materials import Material
    rec = []
    for m in ["0.2 <H2O> 0.8 <NaCl>", "0.2 <H2O 0.8 <NaCl>", "2 <H2O> 3 <NaCl>", "<Xx2>", "2 <H2O> 3 <NaCl>"]:
        try:
            with Material(m) as mat:
                rec.append(["ok", m, sorted(mat.components.keys()) if hasattr(mat, "components") else str(type(mat))])
        except BaseException as exc:
            rec.append(["err", m, type(exc).__name__])
    out.append(["materials", rec])
except ImportError as exc:
    out.append(["materials", ["import-error"]])

print(json.dumps(out))
'''


def run(root):
    p = subprocess.run([sys.executable, "-c", WORKER, root], capture_output=True, text=True, timeout=300)
    if p.returncode != 0:
        return ["worker-crash", p.returncode, p.stderr.strip().splitlines()[-1:] if p.stderr else []]
    return json.loads(p.stdout.strip().splitlines()[-1])


def main():
    a, b = run(sys.argv[1]), run(sys.argv[2])
    if a and a[0] == "worker-crash" or b and b[0] == "worker-crash":
        print("worker crashed:", a if a[0] == "worker-crash" else b)
        return 2
    if a == b:
        n = sum(len(rec) for _, rec in a)
        print("identical: %d scenarios, %d records" % (len(a), n))
        return 0
    for (na, ra), (nb, rb) in zip(a, b):
        if na != nb or ra != rb:
            print("DIFF in scenario", na)
            for x, y in zip(ra, rb):
                if x != y:
                    print("  base:", x)
                    print("  new :", y)
    return 1


if __name__ == "__main__":
    sys.exit(main())
