#!/venv/bin/python
"""Differential check for C04 refactoring r1 (Quantity._convert for/else removed, Quantity.to temporaries).

usage: diff.py <unmodified tree root> <refactored tree root>
Runs the same conversions against both trees (each in its own subprocess with its own
sys.path) and exits 0 iff every observable (converted values bit-for-bit via repr,
resulting units, errors, state of the quantity after a refused conversion, raised
exception types) is identical.
"""
import json
import subprocess
import sys

# (value, from-unit, to-unit[, intermediate unit])
CASES = [
    # same dimension, scalars incl. 0, negatives, extreme exponents
    (1.0, "km", "m", "cm"), (2.5, "m", "km", "mm"), (0.0, "kg", "g", "mg"), (-3.75, "J", "erg", "eV"),
    (1e-300, "m", "nm", "km"), (1e300, "g", "kg", "ug"), (-1e-12, "s", "ns", "min"), (7.0, "h", "s", "min"),
    (123.456, "km/h", "m/s", "cm/ms"), (9.81, "m/s2", "km/h2", "cm/s2"), (1.0, "kg*m2/s2", "J", "kJ"),
    (3.0, "N*m", "J", "erg"), (5.0, "Pa", "kg/(m*s2)", "hPa"), (1.0, "eV", "J", "MeV"),
    (6.02e23, "mol-1", "mmol-1", "kmol-1"), (1.0, "[c]", "km/s", "m/s"), (2.0, "[h]", "J*s", "eV*s"),
    (1.0, "pc", "AU", "km"), (1.5, "m1:2", "cm1:2", "km1:2"), (4.0, "l", "cm3", "m3"),
    (1.0, "deg", "rad", "arcmin"), (180.0, "deg", "rad", "arcsec"), (1.0, "W*h", "J", "kJ"),
    # arrays
    ([1.0, 2.0, -3.0, 0.0], "km", "m", "cm"), ([1e-200, 1e200], "g", "kg", "mg"),
    ([[1.0, 2.0], [3.0, 4.0]], "J", "erg", "eV"), ([0.5], "km/h", "m/s", "cm/s"),
    # exactly reciprocal dimension
    (2.0, "s", "Hz", None), (4.0, "Hz", "ms", None), (0.25, "m-1", "cm", None), ([1.0, 2.0, 4.0], "kHz", "s", None),
    (0.0, "s", "Hz", None), ([0.0, 2.0], "s", "Hz", None), (-8.0, "m/s", "s/km", None),
    # bare number to radians
    (1.0, None, "rad", None), (-2.5, None, "rad", None), ([0.0, 3.14], None, "rad", None),
    (1.0, None, "deg", None), (1.0, None, "mrad", None), (1.0, "rad", None, None),
    # refused: differing dimensions
    (1.0, "m", "s", None), (1.0, "kg", "m", None), (2.0, "J", "W", None), (3.0, "m2", "m", None),
    (1.0, "m", "m-2", None), (1.0, None, "m", None), (1.0, "m", None, None), ([1.0, 2.0], "K", "m/s", None),
    (1.0, "Hz", "m", None), (1.0, "rad", "m", None), (1.0, "mol", "cd", None), (1.0, "C", "A", None),
    # unknown target
    (1.0, "m", "xyz", None), (1.0, "m", "kCel", None),
    # neighbours: offset and logarithmic units (must also be unchanged)
    (20.0, "Cel", "K", "degF"), (300.0, "K", "Cel", None), (10.0, "dBm", "mW", None), (1.0, "W", "dBm", None),
    (1.0, "Cel", "m", None), (3.0, "dB", "Np", None),
]

WORKER = r'''
import sys, json, warnings
warnings.simplefilter("ignore")
sys.path.insert(0, sys.argv[1] + "/src")
import numpy as np
from decimal import Decimal
from scinumtools.units import Quantity
from scinumtools.units.base_units import BaseUnits

def val(v):
    if isinstance(v, np.ndarray):
        return ["array", str(v.dtype), list(v.shape), [repr(float(x)) for x in v.ravel()]]
    return [type(v).__name__, repr(v)]

def state(q):
    err = q.magnitude.error
    return [val(q.magnitude.value), None if err is None else val(err), q.units(), str(q.baseunits),
            repr(q.baseunits.magnitude), str(q.baseunits.dimensions)]

def guard(fn):
    try:
        return fn()
    except BaseException as e:
        return "EXC:" + type(e).__name__

def make(x, u, **kw):
    return Quantity(x, u, **kw) if u is not None else Quantity(x, **kw)

def observe(x, u, v, w):
    out = {}
    # in-place conversion, and state after a refusal
    def do_to():
        q = make(x, u)
        before = state(q)
        try:
            r = q.to(v if v is not None else BaseUnits(None))
            return ["ok", r is q, state(q)]
        except BaseException as e:
            return ["EXC:" + type(e).__name__, state(q) == before, state(q)]
    out["to"] = guard(do_to)
    out["value"] = guard(lambda: val(make(x, u).value(v))) if v is not None else None
    out["value_dtype"] = guard(lambda: val(make(x, u).value(v, dtype=np.float32 if isinstance(x, list) else float))) if v is not None else None
    # there and back
    out["roundtrip"] = guard(lambda: state(make(x, u).to(v).to(u if u is not None else BaseUnits(None)))) if v is not None else None
    # through an intermediate unit
    if w is not None:
        out["via"] = guard(lambda: state(make(x, u).to(w).to(v)))
    # conversion to a Quantity target and with absolute / relative errors
    out["to_quantity"] = guard(lambda: state(make(x, u).to(Quantity(2.0, v)))) if v is not None else None
    out["abse"] = guard(lambda: state(make(x, u, abse=0.125).to(v))) if v is not None else None
    out["rele"] = guard(lambda: state(make(x, u, rele=10).to(v))) if v is not None else None
    # low level helper, addition and comparison use the same conversion
    def low():
        q = make(x, u)
        return val(q._convert(q.magnitude, q.baseunits, BaseUnits(v)).value)
    out["_convert"] = guard(low)
    out["add"] = guard(lambda: state(make(x, u) + make(1.0, v)))
    out["sub"] = guard(lambda: state(make(1.0, v) - make(x, u)))
    out["eq"] = guard(lambda: bool(make(x, u) == make(x, u).to(v))) if v is not None else None
    if not isinstance(x, list):
        out["decimal"] = guard(lambda: state(make(Decimal(repr(x)), u).to(v))) if v is not None else None
    return out

cases = json.loads(sys.stdin.read())
print(json.dumps([observe(*c) for c in cases], sort_keys=True))
'''


def run(root):
    cases = [list(c) + [None] * (4 - len(c)) for c in CASES]
    p = subprocess.run([sys.executable, "-c", WORKER, root], input=json.dumps(cases),
                       capture_output=True, text=True)
    if p.returncode != 0:
        print("worker failed for", root, "\n", p.stderr)
        sys.exit(2)
    return json.loads(p.stdout)


def main():
    a, b = run(sys.argv[1]), run(sys.argv[2])
    bad = 0
    if len(a) != len(b) or len(a) != len(CASES):
        print("result length differs")
        sys.exit(1)
    for case, x, y in zip(CASES, a, b):
        if x != y:
            bad += 1
            print("DIFF", case)
            for k in sorted(set(x) | set(y)):
                if x.get(k) != y.get(k):
                    print("   ", k, "\n      base:", x.get(k), "\n      new :", y.get(k))
    print(f"{len(CASES)} cases, {bad} differing")
    sys.exit(1 if bad else 0)


if __name__ == "__main__":
    main()
