#!/venv/bin/python
"""Differential check: run the same probes against two trees and compare all outputs.

usage: diff.py <unmodified tree root> <refactored tree root>
exit 0 iff every observable (values, units, dict state, exception types) is identical.
"""
import sys, subprocess, json

PROBE = r'''
import sys, json, warnings
warnings.filterwarnings("ignore")
sys.path.insert(0, sys.argv[1] + "/src")
import numpy as np
from scinumtools.units import Quantity, Unit, Constant, BaseUnits, Dimensions, Fraction, UnitSolver
from scinumtools.units.base_units import get_unit_base
from scinumtools.units.unit_solver import AtomParser, Atom
from scinumtools.units.settings import UNIT_STANDARD, UNIT_PREFIXES
from scinumtools.solver import ExpressionSolver, AtomBase

out = []
def rec(label, fn):
    try:
        val = fn()
    except BaseException as e:
        val = "EXC:" + type(e).__name__
    out.append([label, val])

def atom(a):
    return [repr(float(a.magnitude)), [[k, v.num, v.den] for k, v in a.baseunits.items()], str(a), repr(a)]

def bu(b):
    return [repr(b.magnitude), b.dimensions.value(), repr(b.dimensions), b.units, b.expression,
            b.nodim, b.nobase, str(b), repr(b), b.value()]

def qu(q):
    return [repr(q.magnitude.value if hasattr(q.magnitude, "value") else q.magnitude), str(q), bu(q.baseunits)]

GOOD = [
    "m", "km", "kg*m2/s2", "kg*m2*s-2", "m1:2", "m-3:2*s", "cm3/g/s2", "(kg*m)/(s2*K)", "1/s", "2*m",
    "1e3*g/m3", "2.5e-3*km-1", "J/(mol*K)", "N*m", "mrad", "rad", "Mpc", "kpc2", "Gly", "kt", "Ao", "mAo",
    "[c]", "[c]2", "[h]*[c]/nm", "[G]*kg2/m2", "[k_B]*K", "eV", "keV", "MeV/[c]2", "erg", "dyn*cm",
    "uF", "nH", "pC", "fs", "as", "zs", "ys", "Ym", "Zg", "Es", "PK", "TC", "Gcd", "Mmol", "hm", "dam", "dm",
    "au", "AU", "ly", "pc", "mi", "ft", "in", "oz", "lb", "u", "amu", "Da", "t", "min", "h", "day", "yr",
    "deg", "%", "((m))", "(m/s)/(s)", "m/(s*s)", "m/s/s", "kg/(m*(s2))", "W/(m2*K4)", "m0", "m+2", "s-1",
    "#SACC", "#CACC2", "#SACT*#SAOS-1", "#SADO1:2", "km2:4", "m6:3", "K", "Cel", "degF", "dB", "Np", "PR",
    "mol", "kat", "L", "mL", "bar", "mbar", "atm", "Pa", "hPa", "Hz", "GHz", "T", "G", "Wb", "lm", "lx",
    " m ", "kg * m", "m / s",
]
BAD = [
    "xyz", "qm", "kau", "mau", "kAU", "urad", "krad", "Tly", "uAo", "kin", "mft", "xm", "xkm", "1m", "$m", "m$",
    "k", "", " ", "*", "m*", "/m", "m//s", "(m", "m)", "m**2", "m^2", "m2.5", "m1:0", "m:", "m:2", "kk", "kkm",
    "_m", "[c", "c]", "[x]", "k[c]", "#XXXX", "#", "m #SACC", "2m", "1e3", "m+s", "m-s", "k:m", ":m", "m:m",
]
for s in GOOD + BAD:
    rec("AtomParser " + repr(s), lambda: atom(AtomParser(s)))
    rec("UnitSolver " + repr(s), lambda: atom(UnitSolver(s)))
    rec("BaseUnits " + repr(s), lambda: bu(BaseUnits(s)))
    rec("Quantity " + repr(s), lambda: qu(Quantity(1, s)))
    rec("Quantity3 " + repr(s), lambda: qu(Quantity(3.5, s)))
    def rt():
        q = Quantity(1, s)
        text = q.baseunits.expression
        q2 = Quantity(1, text)
        return [text, q2.baseunits.expression, bu(q2.baseunits), q.baseunits == q2.baseunits]
    rec("roundtrip " + repr(s), rt)
    rec("Unit " + repr(s), lambda: qu(Unit(s)))

# every table symbol with every prefix: acceptance / rejection and values
for sym in list(UNIT_STANDARD.keys()):
    for pre in [""] + list(UNIT_PREFIXES.keys()):
        for e in ("", "2", "-1:3"):
            s = pre + sym + e
            rec("tab " + s, lambda: [atom(AtomParser(s)), bu(BaseUnits(s))[:5]])

# AtomParser with numbers / non-strings
for s in ["1", "-1", "1.5", "1e3", "1.5e-3", "-2e+4", ".", "1.2.3", "e3", "1e", 3, 2.5, None, "--1", "+1"]:
    rec("AtomParser num " + repr(s), lambda: atom(AtomParser(s)))
rec("AtomParser default", lambda: atom(AtomParser()))

# get_unit_base directly
for uid in ["m", "k:m", "m:rad", "#SACC", "#AACT", "[c]", "k:[c]", "x", "k:x", "x:m", ":m", "k:", "#XXXX", "a:b:c", "", "k:m:"]:
    for ex in [None, Fraction(1), Fraction(2), Fraction(-1, 2), Fraction(4, 2), Fraction(3, -6), Fraction(0), Fraction(1, 0), Fraction(-2,-4)]:
        def g():
            b = get_unit_base(uid, ex)
            return [repr(b.magnitude), b.dimensions.value(), b.units, b.expression, None if ex is None else [ex.num, ex.den]]
        rec("gub %r %r" % (uid, ex), g)
rec("gub default", lambda: get_unit_base("k:g").expression)

# BaseUnits constructor variants, in place normalisation of caller's dict, failure midway
def d1():
    d = {"k:g": 1, "m": (2, 1), "s": Fraction(-2), "K": 0, "cd": (0, 3), "mol": Fraction(0, 5)}
    b = BaseUnits(d)
    return [bu(b), [[k, type(v).__name__, v.num, v.den] for k, v in d.items()], b.baseunits is d]
rec("BaseUnits dict", d1)
def d2():
    d = {"m": 2, "zzz": 1, "s": (1, 2), "K": 0}
    try:
        BaseUnits(d)
    except BaseException as e:
        return [type(e).__name__, [[k, type(v).__name__, repr(v)] for k, v in d.items()]]
    return "no error"
rec("BaseUnits dict failing", d2)
def d3():
    d = {"m": 2.0, "s": "3", "K": 1.9}
    b = BaseUnits(d)
    return [bu(b), [[k, v.num, v.den] for k, v in d.items()]]
rec("BaseUnits dict coercions", d3)
rec("BaseUnits None", lambda: bu(BaseUnits()))
rec("BaseUnits list", lambda: bu(BaseUnits([1, 1, -2, 0, 0, 0, 0, 0])))
rec("BaseUnits list frac", lambda: bu(BaseUnits([(1, 2), 1, -2, 0, 0, 0, (0, 3), 0])))
rec("BaseUnits array", lambda: bu(BaseUnits(np.array([1, 0, -1, 0, 0, 0, 0, 0]))))
rec("BaseUnits Dimensions", lambda: bu(BaseUnits(Dimensions(m=Fraction(1), s=Fraction(-1, 2)))))
rec("BaseUnits copy", lambda: bu(BaseUnits(BaseUnits("kg*m/s2"))))
rec("BaseUnits bad", lambda: bu(BaseUnits(3.5)))
rec("BaseUnits bad2", lambda: bu(BaseUnits({"m": "x"})))
rec("BaseUnits shortlist", lambda: bu(BaseUnits([1, 2])))
a, b = BaseUnits("kg*m2/s2"), BaseUnits("g*cm/s")
rec("BU add", lambda: bu(a + b)); rec("BU sub", lambda: bu(a - b))
rec("BU mul", lambda: bu(a * 2)); rec("BU mul frac", lambda: bu(a * 0.5)); rec("BU div", lambda: bu(a / 2))
rec("BU div tuple", lambda: bu(a / (2, 3)))
rec("BU eq", lambda: [a == a, a == b, a == BaseUnits("m2*kg*s-2"), BaseUnits("m2") == BaseUnits("m4:2"),
                      BaseUnits("m") == BaseUnits("s"), BaseUnits("m") == BaseUnits("m*s"), BaseUnits() == BaseUnits()])
rec("BU eq bad", lambda: a == 3)
rec("BU value", lambda: a.value())

# Atom arithmetic
x, y = AtomParser("km2"), AtomParser("s-1:2")
rec("Atom mul", lambda: atom(x * y)); rec("Atom div", lambda: atom(x / y)); rec("Atom self", lambda: atom(x * x / y / y))
rec("Atom unchanged", lambda: [atom(x), atom(y)])
rec("Atom num", lambda: atom(AtomParser("2") * x / AtomParser("4e2")))
rec("Atom div0", lambda: atom(x / AtomParser("0")))
rec("Atom bad", lambda: atom(x * 3))

# Fraction / Dimensions
F = Fraction
def fr(f):
    return None if f is None else ([f.num, f.den, str(f), repr(f), [f.num, f.den], f.value(), f.value(dtype=float) if f.den else None])
for args in [(), (1,), (2, 4), (-2, 4), (2, -4), (-2, -4), (0, -3), (0, 0), (6, 3), (1.9, 2.1), ("3", "4"), (10**20, 10**10), (3, 0)]:
    rec("Fraction %r" % (args,), lambda: fr(F(*args)))
    def rb():
        f = F(*args); f.rebase(); return [f.num, f.den, type(f.num).__name__, type(f.den).__name__]
    rec("Fraction rebase %r" % (args,), rb)
for s in ["2", "-2", "1:2", "-3:6", "+3", "3:-6", "1:2:3", "a", "", ":", "1:", "2.5", " 4 "]:
    rec("Fraction.from_string %r" % s, lambda: fr(F.from_string(s)))
rec("Fraction.from_tuple", lambda: [fr(F.from_tuple((1, 2))), fr(F.from_tuple([3, 4, 5]))])
rec("Fraction.from_tuple bad", lambda: fr(F.from_tuple((1,))))
rec("Fraction.from_fraction", lambda: fr(F.from_fraction(F(2, 4))))
f1, f2 = F(1, 2), F(-2, 3)
for lab, fn in [("add", lambda: f1 + f2), ("add t", lambda: f1 + (1, 3)), ("add i", lambda: f1 + 2), ("add bad", lambda: f1 + 0.5),
                ("sub", lambda: f1 - f2), ("sub t", lambda: f1 - (1, 3)), ("sub i", lambda: f1 - 2), ("mul", lambda: f1 * f2),
                ("mul t", lambda: f1 * (2, 5)), ("mul i", lambda: f1 * 3), ("mul f", lambda: f1 * 0.25), ("mul 2.0", lambda: f1 * 2.0),
                ("div", lambda: f1 / f2), ("div t", lambda: f1 / (2, 5)), ("div i", lambda: f1 / 3), ("div f", lambda: f1 / 0.25),
                ("neg", lambda: -f2), ("mul bad", lambda: f1 * "x"), ("div 0", lambda: f1 / 0)]:
    rec("Fraction op " + lab, lambda: fr(fn()))
rec("Fraction eq", lambda: [F(1, 2) == F(2, 4), F(1, 2) == F(1, 3), F(0, 1) == F(0, 5), F(-1, 2) == F(1, -2)])
rec("Fraction eq bad", lambda: F(1, 2) == 0.5)

def dm(d):
    return [d.value(), d.value(dtype=dict), d.value(dtype=tuple), str(d), repr(d), d.nodim]
D1 = Dimensions.from_list([1, (1, 2), -2, 0, 0, 0, 0, 0]); D2 = Dimensions(m=F(2), rad=F(1, 3))
for lab, fn in [("from_list", lambda: D1), ("ctor", lambda: D2), ("empty", lambda: Dimensions()), ("add", lambda: D1 + D2),
                ("add int", lambda: D1 + 1), ("add tuple", lambda: D1 + (1, 2)), ("sub", lambda: D1 - D2), ("sub int", lambda: D1 - 1),
                ("mul", lambda: D1 * 2), ("mul frac", lambda: D1 * F(1, 2)), ("mul f", lambda: D1 * 0.5), ("div", lambda: D1 / 2),
                ("div frac", lambda: D1 / F(1, 2)), ("neg", lambda: -D1), ("from_list tuple", lambda: Dimensions.from_list((1, 0, 0, 0, 0, 0, 0, 0))),
                ("from_list long", lambda: Dimensions.from_list([1, 0, 0, 0, 0, 0, 0, 0, 5, 6])), ("from_list short", lambda: Dimensions.from_list([1, 0])),
                ("from_list arr", lambda: Dimensions.from_list(np.array([1, 0, 0, 0, 0, 0, 0, 2]))), ("from_list bad", lambda: Dimensions.from_list([1, "x", 0, 0, 0, 0, 0, 0])),
                ("add bad", lambda: D1 + "x"), ("mul bad", lambda: D1 * "x"), ("sub D0", lambda: D1 - D1)]:
    rec("Dimensions " + lab, lambda: dm(fn()))
rec("Dimensions eq", lambda: [D1 == D1, D1 == D2, Dimensions() == Dimensions(), D1 == D1 * 1, D1 == D1 * 2])
rec("Dimensions eq bad", lambda: D1 == 3)
rec("Dimensions value other", lambda: D1.value(dtype=int))

# quantities: conversions, arithmetic, rendering
for lab, fn in [
    ("to km", lambda: Quantity(1500, "m").to("km")), ("to erg", lambda: Quantity(1, "J").to("erg")),
    ("to bad", lambda: Quantity(1, "J").to("m")), ("mul", lambda: Quantity(2, "kg") * Quantity(3, "m/s2")),
    ("div", lambda: Quantity(2, "kg") / Quantity(4, "m3")), ("pow", lambda: Quantity(2, "m") ** 3),
    ("sqrt", lambda: Quantity(4, "m2") ** 0.5), ("add", lambda: Quantity(1, "km") + Quantity(500, "m")),
    ("add bad", lambda: Quantity(1, "km") + Quantity(500, "s")), ("const", lambda: Constant("c").to("km/s")),
    ("unit mul", lambda: 5 * Unit("kg") * Unit("m") / Unit("s") ** 2), ("nodim", lambda: Quantity(1, "m/km")),
    ("nodim2", lambda: Quantity(3, "rad*m/m")), ("percent", lambda: Quantity(50, "%")), ("sys unit", lambda: Quantity(2, "#CACC").to("m/s2")),
    ("array", lambda: Quantity([1, 2, 3], "cm").to("m")), ("Cel", lambda: Quantity(20, "Cel").to("K")),
    ("eV", lambda: Quantity(1, "[k_B]*K").to("eV")), ("dict", lambda: Quantity(2, {"k:m": 1, "s": -1}).to("m/s")),
    ("list", lambda: Quantity(2, [1, 0, -1, 0, 0, 0, 0, 0]).to("km/h")), ("rebase", lambda: Quantity(1, "km*m").rebase()),
]:
    rec("Q " + lab, lambda: qu(fn()))

# generic expression solver (uses Tokens.operate with all operator kinds)
with ExpressionSolver(AtomBase) as es:
    for e in ["1+2*3", "-(2+3)**2/5", "2**3**2", "sqrt(16)+exp(0)*log10(100)", "1<2 and 3>=3 or not 1==1", "powb(2,3)-logb(8,2)",
              "3--2", "+4-+1", "sin(0)+cos(0)+tan(0)", "2*(3+(4-1))", "1 2", "(1", "2*", "!(1==2)", "1!=2", "1<=2", "log(1)"]:
        rec("ES " + e, lambda: repr(es.solve(e)))

print(json.dumps(out, default=repr))
'''

def run(root):
    p = subprocess.run([sys.executable, "-c", PROBE, root], capture_output=True, text=True, cwd="/tmp")
    if p.returncode != 0:
        print("probe crashed for", root, "\n", p.stderr[-3000:])
        sys.exit(2)
    return json.loads(p.stdout.strip().splitlines()[-1])

def main():
    base, new = run(sys.argv[1]), run(sys.argv[2])
    bad = 0
    if len(base) != len(new):
        print("different number of observations", len(base), len(new)); bad += 1
    for (la, va), (lb, vb) in zip(base, new):
        if la != lb or va != vb:
            bad += 1
            if bad < 20:
                print("DIFF", la, "\n   base:", va, "\n   new :", vb)
    print("observations:", len(base), "differences:", bad)
    sys.exit(1 if bad else 0)

main()
