#!/venv/bin/python
"""Differential check for C15 (case/else/end selection): run the same DIP inputs
against two source trees and compare every observable output.

usage: diff.py <unmodified tree root> <refactored tree root>
exit 0 iff outputs are identical.
"""
import sys, os, json, subprocess, itertools

WORKER = r'''
import sys, json, itertools, warnings
warnings.filterwarnings("ignore")
root = sys.argv[1]
sys.path.insert(0, root + "/src")
import numpy as np
from scinumtools.dip import DIP
from scinumtools.dip.settings import Format

def show(v):
    val = getattr(v, "value", v)
    if isinstance(val, np.ndarray):
        val = val.tolist()
    return [type(v).__name__, repr(val), repr(getattr(v, "unit", None))]

def run(code, docs=False):
    try:
        with DIP() as p:
            p.add_string(code)
            if docs:
                d = p.parse_docs()
                env = d.env if hasattr(d, "env") else None
                out = {"docs": True}
                if env is not None:
                    out["nodes"] = [[n.name, n.clean_name(), n.keyword, repr(n.branch_id), repr(n.case_id), repr(getattr(n, "docs_type", None))] for n in env.nodes]
                    out["cases"] = repr(env.branching.cases)
                    out["branches"] = repr(env.branching.branches)
                    out["state"] = repr(env.branching.state)
                return out
            env = p.parse()
            data = env.data(Format.TYPE, verbose=True)
            return {
                "keys": list(data.keys()),
                "data": {k: show(v) for k, v in data.items()},
                "nodes": [[n.name, n.keyword, repr(n.branch_id), repr(n.case_id), n.indent] for n in env.nodes],
                "cases": repr(env.branching.cases),
                "branches": repr(env.branching.branches),
                "state": repr(env.branching.state),
                "counters": [env.branching.num_cases, env.branching.num_branches],
            }
    except BaseException as e:
        return {"exc": type(e).__name__, "args": [repr(a) for a in e.args]}

T = {True: "true", False: "false"}
inputs = []

# 1. three-level nesting, closed by indentation, all 2^3 assignments
for a, b, c in itertools.product([True, False], repeat=3):
    inputs.append(f"""
before int = 1
@case {T[a]}
  l1 int = 10
  @case {T[b]}
    l2 int = 20
    @case {T[c]}
      l3 int = 30
    @else
      l3 int = 31
    after3 int = 32
  @else
    l2 int = 21
  after2 int = 22
@else
  l1 int = 11
after int = 2
""")

# 2. explicit @end, chain of clauses, first true wins; all 2^3 assignments
for a, b, c in itertools.product([True, False], repeat=3):
    inputs.append(f"""
x int = 0
@case {T[a]}
  x = 1
  y str = 'a'
@case {T[b]}
  x = 2
  y str = 'b'
@case {T[c]}
  x = 3
  y str = 'c'
@else
  x = 4
  y str = 'd'
@end
z float = 1.5 cm
@case {T[b]}
  z = 2.5 m
@end
w bool = true
""")

# 3. nesting inside groups with named clauses and explicit ends
for a, b in itertools.product([True, False], repeat=2):
    inputs.append(f"""
grp
  @case {T[a]}
    u int = 1 kg
    sub
      @case {T[b]}
        v int = 2
      @else
        v int = 3
      @end
      w int = 4
  @else
    u int = 5 g
  @end
  t int = 6
s int = 7
""")
    inputs.append(f"""
size float = 3 cm
@case {T[a]}
  size = 4 m
    !options [4,5,6] m
  @case {T[b]}
    size = 5
  name str = 'p'
    !constant
@case {T[b]}
  name str = 'q'
extra bool = {T[a]}
""")

# 4. conditions that use expressions and references
inputs.append("""
a int = 3
b bool = false
@case ("{?a} == 3 && ~{?b}")
  r int = 1
  @case ("{?a} > 5 || {?b}")
    q int = 2
  @case ("{?r} == 1")
    q int = 3
@else
  r int = 0
p int = 9
""")
inputs.append("""
a int = 3
@case {?a}
  r int = 1
@end
""")

# 5. clause keyword at same indent as a node inside an outer clause, blank lines, comments
inputs.append("""
@case true
  a int = 1

  # comment
  @case false
    b int = 2

  @else
    b int = 3
  c int = 4
d int = 5
""")
inputs.append("""
@case false
  a int = 1
  @case true
    b int = 2
  @else
    b int = 3
  @end
  c int = 4
@end
d int = 5
@case true
  e int = 6
""")

# 6. misplaced @else / @end and other failures
bad = [
    "@end\n",
    "@else\n  a int = 1\n",
    "@case true\n  @end\n",
    "@case true\n  a int = 1\n@end\n@end\n",
    "@case true\n  a int = 1\n@end\n@else\n  a int = 2\n",
    "a int = 1\n@case true\n  a = 2\nb int = 3\n@else\n  b = 4\n",
    "@case true\n  a int = 1\n  @case false\n    b int = 1\n@else\n  a int = 2\n  @else\n    b int = 2\n",
    "@case maybe\n  a int = 1\n",
    "@case\n  a int = 1\n",
    "@case true\n  a int = 1\n  @else\n  a int = 2\n",
    "@case false\n  a int\n@else\n  b int\n",
    "@case true\n  a int = 1\n    !constant\n@end\na = 2\n",
    "@case false\n  a = 2\n@else\n  a = 3\n",
    "g.@case true\n  a int = 1\ng.@else\n  a int = 2\ng.@end\n",
    "g\n  @case false\n    a int = 1\n  h.@else\n    a int = 2\n",
]
inputs.extend(bad)

results = []
for code in inputs:
    results.append(run(code))
for code in inputs[:8] + inputs[16:24] + bad:
    results.append(run(code, docs=True))
print(json.dumps(results, sort_keys=True))
'''

def run_tree(root):
    root = os.path.abspath(root)
    env = dict(os.environ)
    env.pop("PYTHONPATH", None)
    env["PYTHONDONTWRITEBYTECODE"] = "1"
    p = subprocess.run([sys.executable, "-c", WORKER, root], capture_output=True, text=True, cwd="/tmp", env=env)
    if p.returncode != 0:
        print("worker failed for", root, "\n", p.stderr[-3000:])
        sys.exit(2)
    return json.loads(p.stdout.strip().splitlines()[-1])

def main():
    a = run_tree(sys.argv[1])
    b = run_tree(sys.argv[2])
    if len(a) != len(b):
        print("different number of results"); sys.exit(1)
    bad = 0
    for i, (x, y) in enumerate(zip(a, b)):
        if x != y:
            bad += 1
            print(f"DIFF input #{i}:\n  base: {json.dumps(x)[:600]}\n  new:  {json.dumps(y)[:600]}")
    nexc = sum(1 for x in a if "exc" in x)
    print(f"{len(a)} inputs compared, {nexc} raising, {bad} differences")
    sys.exit(1 if bad else 0)

if __name__ == "__main__":
    main()
