#!/venv/bin/python
"""Differential check for property C17 (references deliver the referenced node's value and unit).

usage: diff.py <unmodified tree root> <refactored tree root>
Runs the same inputs against both trees (each in its own subprocess with its own
sys.path) and exits 0 iff every observable output (values, units, exception types
and leading messages) is identical.
"""
import sys, os, json, subprocess, tempfile, textwrap

DRIVER = r'''
import sys, os, json
root = sys.argv[1]
sys.path.insert(0, os.path.join(root, 'src'))
import numpy as np
from scinumtools.dip import DIP, Environment
from scinumtools.dip.settings import Format, Namespace
from scinumtools.dip.datatypes import NumberType

HERE = os.path.dirname(os.path.abspath(__file__))

def plain(v):
    if isinstance(v, np.ndarray):
        return ['ndarray', str(v.dtype), v.tolist()]
    if isinstance(v, (np.generic,)):
        return [type(v).__name__, v.item()]
    if isinstance(v, (list, tuple)):
        return [plain(x) for x in v]
    return [type(v).__name__, v] if v is None or isinstance(v, (bool, int, float, str)) else repr(v)

def dump(env):
    out = {}
    for node in env.nodes:
        val = node.value
        out[node.name] = dict(
            cls=type(node).__name__,
            keyword=node.keyword,
            vtype=type(val).__name__,
            value=plain(getattr(val, 'value', val)),
            unit=getattr(val, 'unit', None),
            units_raw=node.units_raw,
            value_raw=plain(node.value_raw),
            options=repr(getattr(node, 'options', None)),
            condition=node.condition,
            constant=node.constant,
            tags=repr(getattr(node, 'tags', None)),
            fmt=repr(getattr(node, 'format', None)),
            indent=node.indent,
            source=repr(node.source[0].split('_', 1)[-1] if node.source else None),
        )
    units = {k: [plain(v['magnitude']), repr(v['dimensions']), v['value'], v['units']] for k, v in env.units.items()}
    sources = sorted(k.split('_', 1)[-1] if k[0].isdigit() else k for k in env.sources.keys())
    return dict(nodes=out, order=[n.name for n in env.nodes], units=units, sources=sources,
                data=json.loads(json.dumps({k: plain(v) for k, v in env.data(format=Format.TUPLE).items()})))

def parse(code, env=None, name='P'):
    with DIP(env, name=name) if env is not None else DIP(name=name) as p:
        p.add_string(code)
        return p.parse()

def c_inject_units():
    return dump(parse("""
size1 float = 34 cm
size2 float = {?size1} m
size3 float = {?size2}
size1 = {?size2}
size4 float = {?size1} mm
n int = 7
k int = {?n}
f float = {?n}
"""))

def c_inject_after_mods():
    return dump(parse("""
a float = 1 km
b float = {?a} m
a = 2500 m
c float = {?a}
d float = {?a} cm
a = {?b} m
e float = {?a}
flag bool = true
g bool = {?flag}
flag = false
h bool = {?flag}
t str = "hello"
u str = {?t}
t = 'world'
v str = {?t}
"""))

def c_slices():
    return dump(parse("""
sizes float[3] = [34,23.34,1e34] cm
mysize float[2] = {?sizes}[:2]
last float = {?sizes}[2] m
masses float[2,2] = [[34,23.34],[1,1e34]] g
col float[2] = {?masses}[:,1]
row float[2] = {?masses}[1] kg
cell float = {?masses}[0,1]
ints int[4] = [1,2,3,4]
mid int[2] = {?ints}[1:3]
names str[3] = ["a","b","c"]
pick str = {?names}[1]
tail str[2] = {?names}[1:]
"""))

def c_slice_error():
    return dump(parse("""
sizes float[3] = [34,23.34,1e34] cm
mysize float = {?sizes}[:2]
"""))

def c_import_local():
    return dump(parse("""
icecream
  waffle str = 'standard'
    !options ["standard","choco"]
  scoops
    strawberry int = 1 kg
      !condition ("{?} > 0")
    chocolate float = 2 g
      !tags ["a","b"]
    none_yet bool = none
bowl
  {?icecream.scoops.*}
plate {?icecream.waffle}
all.of
  {?icecream.*}
icecream.scoops.strawberry = 5 kg
late {?icecream.scoops.strawberry}
"""))

def c_import_everything():
    return dump(parse("""
a int = 1 m
b
  c float = 2.5 s
copy {?*}
"""))

def c_remote():
    return dump(parse("""
$source nodes = %s/nodes.dip
{nodes?*}
box
  {nodes?*}
basket.bag {nodes?vegies.*}
bowl
  {nodes?fruits}
  {nodes?vegies.potato}
energy float = 34 erg
energy = {nodes?energy} eV
energy = {nodes?energy}
w float = {nodes?vegies.potato} kg
m int[3,4] = {nodes?matrix}
mm int[2] = {nodes?matrix}[1,1:3]
$source raw = %s/raw.txt
txt str = {raw}
""" %% (HERE, HERE)))

def c_remote_sources_units():
    return dump(parse("""
$source nodes = %s/nodes.dip
$source {nodes?inner}
{inner?deep}
$unit len = 3 cm
x float = {inner?deep} [len]
y float = 3 [len]
file str = %s/inner.dip
$source again = {?file}
grp {again?deep}
$source un = %s/units.dip
z float = {un?lenval}
zz float = {un?lenval} cm
""" %% (HERE, HERE, HERE)))

def c_remote_units_import():
    return dump(parse("""
$source un = %s/units.dip
$unit {un?*}
z float = 1 [len]
""" %% HERE))

def c_unit_inject():
    return dump(parse("""
base float = 12.5
$unit foo = {?base} cm
q float = 2 [foo]
r float = {?q} m
"""))

def c_inject_errors():
    res = []
    for code in [
        "a int = 1\nb int = {?missing}",
        "g\n  a int = 1\n  b int = 2\nc int = {?g.*}",
        "a int = 1\nb int = {nosrc?a}",
        "b int = {?a}",
        "a int = 1\n{?zzz.*}",
        "a int = 1\nx {?zzz}",
        "a int = 1\n{nosrc?*}",
        "a float = 1 m\nb float = {?a} s",
        "a str = 'x'\nb int = {?a}",
        "$source {nosrc?*}",
        "$unit {nosrc?*}",
        "a int = 1\n$source s = {?b}",
    ]:
        try:
            res.append(dump(parse(code)))
        except BaseException as e:
            res.append(['EXC', type(e).__name__, str(e.args[0]) if e.args else None, len(e.args)])
    return res

def c_base_env():
    env1 = parse("""
$unit mylen = 2 m
a float = 3 [mylen]
grp
  b int = 4 s
  c str = 'txt'
""", name='A')
    before = dump(env1)
    env2 = parse("""
d float = {?a} m
grp2 {?grp.*}
a = 10 m
e float = {?a}
$unit other = 5 s
f float = {?grp.b} [other]
""", env=env1, name='B')
    after = dump(env1)
    return dict(same=(before == after), env1=after, env2=dump(env2))

def c_request_api():
    env = parse("""
$source nodes = %s/nodes.dip
$source raw = %s/raw.txt
box
  geometry int = 2
  size float = 3 cm
    !tags ["dim"]
  depth float = 4 cm
    !tags ["dim","z"]
""" %% (HERE, HERE))
    out = {}
    def names(x):
        return [(n.name, plain(n.value.value), getattr(n.value, 'unit', None)) for n in x]
    out['one'] = names(env.request("?box.geometry"))
    out['kids'] = names(env.request("?box.*"))
    out['all'] = names(env.request("?*"))
    out['tag'] = names(env.request("?box.*", tags=['dim']))
    out['remote'] = names(env.request("nodes?vegies.*"))
    out['remote1'] = names(env.request("nodes?fruits", count=1))
    out['remote01'] = names(env.request("nodes?nothing", count=[0,1]))
    out['block'] = env.request("raw") if 'raw' in env.sources else None
    out['srcs'] = sorted(env.request("nodes?*", namespace=Namespace.SOURCES).keys())
    out['nosrc'] = names(env.request("nosrc?x", errsrc=False))
    for key, args, kw in [
        ('e1', ("?box.*",), dict(count=1)),
        ('e2', ("?box.zzz",), dict(count=[1,2])),
        ('e3', ("nosrc?x",), {}),
        ('e4', ("nodes?zz",), dict(namespace=Namespace.SOURCES)),
        ('e5', ("nodes?zz",), dict(namespace=Namespace.UNITS)),
        ('e8', ("nodes?*",), dict(namespace=Namespace.UNITS)),
        ('e6', ("nodes?fruits",), dict(namespace=99)),
        ('e7', ("?",), {}),
    ]:
        try:
            r = env.request(*args, **kw)
            out[key] = names(r)
        except BaseException as e:
            out[key] = ['EXC', type(e).__name__, str(e.args[0]) if e.args else None, len(e.args)]
    for key, fn in [
        ('lu1', lambda: sorted(env.units.query('*').keys())),
        ('lu2', lambda: sorted(env.units.query('[zz]').keys())),
        ('ls1', lambda: sorted(k.split('_',1)[-1] for k in env.sources.query('*').keys())),
        ('ls2', lambda: sorted(env.sources.query('nodes').keys())),
        ('ls3', lambda: sorted(env.sources.query('zz').keys())),
        ('ln1', lambda: names(env.nodes.query('box.*', tags=['z']))),
        ('ln2', lambda: names(env.nodes.query('box.*', tags=['dim','z']))),
        ('ln3', lambda: names(env.nodes['box'])),
    ]:
        try:
            out[key] = fn()
        except BaseException as e:
            out[key] = ['EXC', type(e).__name__, str(e.args[0]) if e.args else None, len(e.args)]
    env.autoref = 'box.size'
    out['auto'] = names(env.request("?"))
    out['data_q'] = {k: plain(v) for k, v in env.data(query="box.*", format=Format.TUPLE).items()}
    return out

def c_docs():
    with DIP(name='D') as p:
        p.add_string("""
a float = 3 cm
b float = {?a} m
c int = {?nothing}
grp {?a}
x {nosrc?*}
""")
        docs = p.parse_docs()
    env = docs.env if hasattr(docs, 'env') else None
    if env is None:
        return repr(sorted(vars(docs).keys()))
    return [(n.name, plain(n.value_raw), n.units_raw, n.value_ref) for n in env.nodes]

def c_cases_and_none():
    return dump(parse("""
a float = none m
b float = {?a}
c float = {?a} cm
s str = none
t str = {?s}
sw bool = true
@case ("{?sw}")
  v int = 1 m
@else
  v int = 2 m
@end
w int = {?v} cm
"""))

CASES = [c_remote_units_import, c_inject_units, c_inject_after_mods, c_slices, c_slice_error, c_import_local,
         c_import_everything, c_remote, c_remote_sources_units, c_unit_inject, c_inject_errors,
         c_base_env, c_request_api, c_docs, c_cases_and_none]

result = {}
for fn in CASES:
    try:
        result[fn.__name__] = json.loads(json.dumps(fn(), default=repr))
    except BaseException as e:
        result[fn.__name__] = ['EXC', type(e).__name__, str(e.args[0]) if e.args else None, len(e.args)]
print('@@RESULT@@' + json.dumps(result, sort_keys=True, default=repr))
'''

FILES = {
    'nodes.dip': textwrap.dedent('''\
        $source inner = inner.dip
        fruits int = 0
        vegies int = 1
           potato float = 200 g
             !options [100,200,300] g
        energy float = 13 J
        matrix str = """
        [[4234,34,35,34],
        [234,34,644,43],
        [353,2356,234,3]]
        """
        '''),
    'inner.dip': "deep float = 7 m\n",
    'units.dip': "$unit len = 3 cm\nlenval float = 2 [len]\n",
    'raw.txt': "some raw text\nsecond line\n",
}


def run(root, workdir):
    proc = subprocess.run([sys.executable, os.path.join(workdir, 'driver.py'), root],
                          capture_output=True, text=True, cwd=workdir)
    marker = [l for l in proc.stdout.splitlines() if l.startswith('@@RESULT@@')]
    if proc.returncode != 0 or not marker:
        print(proc.stdout[-2000:], proc.stderr[-4000:])
        raise SystemExit(2)
    return json.loads(marker[-1][len('@@RESULT@@'):])


def main():
    base, new = os.path.abspath(sys.argv[1]), os.path.abspath(sys.argv[2])
    with tempfile.TemporaryDirectory() as tmp:
        work = os.path.join(tmp, 'w')        # identical path for both runs -> identical file names in outputs
        os.mkdir(work)
        for name, text in FILES.items():
            with open(os.path.join(work, name), 'w') as f:
                f.write(text)
        with open(os.path.join(work, 'driver.py'), 'w') as f:
            f.write(DRIVER.replace('%%', '%'))
        a = run(base, work)
        b = run(new, work)
    bad = [k for k in sorted(set(a) | set(b)) if a.get(k) != b.get(k)]
    for k in bad:
        print('DIFF in', k)
        print('  base:', json.dumps(a.get(k), sort_keys=True)[:1500])
        print('  new :', json.dumps(b.get(k), sort_keys=True)[:1500])
    ok = sum(1 for v in a.values() if not (isinstance(v, list) and v[:1] == ['EXC']))
    print(f"{len(a)} cases, {ok} ran without exception on base, {len(bad)} differences")
    if '-v' in sys.argv:
        print(json.dumps(a, indent=1, sort_keys=True))
    sys.exit(1 if bad else 0)


if __name__ == '__main__':
    main()
