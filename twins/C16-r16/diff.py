#!/venv/bin/python
"""Differential check for property C16 (constraints: options, conditions, formats, dimensions, declarations).

usage: diff.py <unmodified tree root> <refactored tree root>
Runs the same DIP inputs against each tree in a separate subprocess and exits 0
iff all observable outputs (values, units, raised exception types) are identical.
"""
import sys, os, json, subprocess

CASES = [
    # --- options, per-line form
    "coordinates int = 1\n  = 1  # linear\n  = 2  # cylindrical\n  = 3  # spherical",
    "coordinates int = 4\n  = 1\n  = 2\n  = 3",
    "length float cm\n  = 12 cm\n  = 34 cm",
    "length float = 0.34 m\n  = 12 cm\n  = 34 cm",
    "length float = 0.35 m\n  = 12 cm\n  = 34 cm",
    "deposition bool = true\n  = true\n  = false",
    "animal str = dog\n  = cat\n  = dog",
    "animal str = Dog\n  = cat\n  = dog",
    # --- options, list form with units
    "size float cm\n  !options [12,13,14,15,16] cm\n  !options [22,23,24,25] m\nsize = 23 m",
    "size float cm\n  !options [12,13,14,15,16] cm\nsize = 11",
    "size float cm\n  !options [12,13,14,15,16] cm\nsize = 160 mm",
    "size float cm\n  !options [12,13,14,15,16] cm\nsize = 16.0000001",
    "size float cm\n  !options [12,13,14,15,16] cm\nsize = 16.01",
    "n int = 3 m\n  !options [300,400] cm",
    "n int = 3 m\n  !options [301,400] cm",
    "name str = b\n  !options [\"a\",\"b\"]",
    "name str = c\n  !options [\"a\",\"b\"]",
    "flag bool = true\n  !options [true,false]",
    "size float = 3 cm\n  !options [1,3] cm\n  = 5 cm\nsize = 5",
    "size float = 3 cm\n  !options [1,3] cm\n  = 5 cm\nsize = 4",
    # --- options redirected to the modified node
    "a int = 1\n  !options [1,2]\nb int = 5\na = 2\n  !options [3]",
    "a int = 1\n  !options [1,2]\nb int = 5\na = 3\n  = 3",
    # --- conditions
    "size float = 23 cm\n  !condition ('200 mm < {?} && {?} < 30 cm')",
    "size float = 23 cm\n  !condition ('250 mm < {?} && {?} < 30 cm')",
    "size float = 30 cm\n  !condition ('{?} <= 300 mm')",
    "size float = 30 cm\n  !condition ('{?} < 300 mm')",
    "size float = 30.1 cm\n  !condition ('{?} <= 300 mm')",
    "n int = 5\n  !condition ('{?} == 5')",
    "n int = 5\n  !condition ('{?} != 5')",
    "n int = 5\n  !condition ('{?} > 5 || {?} == 6')",
    "b bool = true\n  !condition ('{?} == true')",
    "b bool = false\n  !condition ('{?}')",
    "b bool = false\n  !condition ('~{?}')",
    "s str = abc\n  !condition ('{?} == abc')",
    "s str = abd\n  !condition ('{?} == abc')",
    "a int = 2\nb int = 3\n  !condition ('{?} > {?a}')",
    "a int = 4\nb int = 3\n  !condition ('{?} > {?a}')",
    "a int = 4\nb int = 3\n  !condition ('{?} > {?zz}')",
    "a int = 1\n  !condition ('{?} < 3')\na = 2",
    "a int = 1\n  !condition ('{?} < 3')\na = 3",
    # --- formats
    "name str = John\n  !format \"[a-zA-Z]+\"",
    "name str = 7-up\n  !format '[a-zA-Z]+'",
    "name str = John7\n  !format '^[a-zA-Z]+$'",
    "name str = John\n  !format '^[a-zA-Z]+$'",
    "name str = John\n  !format '^[a-zA-Z]{5}$'",
    "name str = John\n  !format '([a-z'",
    "size float = 23 cm\n  !format '[a-zA-Z]+'",
    "name str\n  !format '[a-z]+'\nname = abc",
    "name str\n  !format '[a-z]+'\nname = ABC",
    # --- dimensions
    "v int[3] = [1,2,3]",
    "v int[3] = [1,2]",
    "v int[2:] = [1]",
    "v int[2:] = [1,2]",
    "v int[:2] = [1,2,3]",
    "v int[:2] = [1,2]",
    "v float[2,1:3] = [[1,2,3],[4,5,6]] cm",
    "v float[2,1:3] = [[1,2,3,4],[4,5,6,7]] cm",
    "v float[2,2] = [1,2]",
    "v str[2] = [\"a\",\"b\"]",
    "v bool[1:2] = [true,false,true]",
    "v int[2]\nv = [1,2,3]",
    "v int[2]\nv = [1,2]",
    "v int = [1,2]",
    # --- declarations
    "a int\nb float = 2",
    "a int\na = 4",
    "a float cm\na = 1 m",
    "a str",
    "a bool\n  !condition ('{?} == true')\na = true",
    # --- combinations
    "w float = 2 m\n  !options [100,200,300] cm\n  !condition ('{?} > 150 cm')",
    "w float = 1 m\n  !options [100,200,300] cm\n  !condition ('{?} > 150 cm')",
    "w str = ab\n  !options [\"ab\",\"cd\"]\n  !format '^a'\n  !condition ('{?} == ab')",
    "w str = cd\n  !options [\"ab\",\"cd\"]\n  !format '^a'",
    "$unit len = 10 cm\nw float = 2 [len]\n  !options [20,30] cm",
    "$unit len = 10 cm\nw float = 2 [len]\n  !options [21,30] cm",
    "c bool = true\n@case (\"{?c}\")\n  x int = 1\n    !options [1,2]\n@else\n  x int = 7\n    !options [1,2]\n@end",
    "c bool = false\n@case (\"{?c}\")\n  x int = 1\n    !options [1,2]\n@else\n  x int = 7\n    !options [1,2]\n@end",
    "g\n  x float = 3 cm\n    !condition ('{?} < 4 cm')\n  y int = 2\n    = 1\n    = 2\ng.x = 5",
    "a int = 1\n  !constant\na = 2",
    "a int = 1\n  !tags [\"t\"]\n  !description \"d\"\n  !condition ('{?} == 1')",
]

RUNNER = r'''
import sys, json, warnings
warnings.simplefilter("ignore")
root = sys.argv[1]
sys.path.insert(0, root + "/src")
import numpy as np
from scinumtools.dip import DIP
from scinumtools.dip.settings import Format
cases = json.loads(sys.stdin.read())

def norm(v):
    if isinstance(v, np.ndarray):
        v = v.tolist()
    if isinstance(v, (list, tuple)):
        return [norm(x) for x in v]
    if isinstance(v, (np.generic,)):
        v = v.item()
    return [type(v).__name__, repr(v)]

out = []
for code in cases:
    try:
        with DIP() as p:
            p.add_string(code)
            env = p.parse()
        rec = {}
        for node in env.nodes:
            val = node.value
            rec[node.name] = {
                "kw": node.keyword,
                "vtype": type(val).__name__,
                "value": norm(val.value) if val is not None else None,
                "unit": getattr(val, "unit", None) if val is not None else None,
                "units_raw": node.units_raw,
                "options": [[norm(o.value.value), o.value.unit, norm(o.value_raw), o.units_raw]
                            for o in (getattr(node, "options", None) or [])],
                "condition": node.condition,
                "format": getattr(node, "format", None),
                "constant": node.constant,
                "dimension": node.dimension,
            }
        tup = env.data(format=Format.TUPLE)
        out.append({"ok": rec, "autoref": env.autoref, "cursor": env.nodes.cursor,
                    "tuple": {k: norm(v) for k, v in tup.items()}})
    except BaseException as e:
        out.append({"exc": type(e).__name__})
print("@@RESULT@@" + json.dumps(out, sort_keys=True))
'''

def run(root):
    root = os.path.abspath(root)
    proc = subprocess.run([sys.executable, "-c", RUNNER, root], input=json.dumps(CASES),
                          capture_output=True, text=True, cwd="/tmp")
    if proc.returncode != 0:
        print("runner failed for", root, proc.stderr[-2000:])
        sys.exit(2)
    line = [l for l in proc.stdout.splitlines() if l.startswith("@@RESULT@@")][-1]
    return json.loads(line[len("@@RESULT@@"):])

def main():
    a = run(sys.argv[1])
    b = run(sys.argv[2])
    bad = 0
    for code, x, y in zip(CASES, a, b):
        if x != y:
            bad += 1
            print("DIFF for input:\n" + code + "\n  base:", json.dumps(x)[:500], "\n  new: ", json.dumps(y)[:500])
    nexc = sum(1 for x in a if "exc" in x)
    print(f"{len(CASES)} inputs, {nexc} raise / {len(CASES)-nexc} accepted on base, {bad} differences")
    sys.exit(1 if bad or len(a) != len(b) else 0)

if __name__ == "__main__":
    main()
