#!/venv/bin/python
"""Differential check for property C11 (number / mass fractions of composites).

usage: diff.py <unmodified tree root> <refactored tree root>

Each tree is exercised in its own subprocess (own sys.path) with the same
inputs; exit code 0 iff every observable (values, units, exception types,
printed tables) is identical.
"""
import json
import os
import subprocess
import sys

WORKER = r'''
import sys, json, io, warnings, contextlib
warnings.simplefilter("ignore")
root = sys.argv[1]
sys.path.insert(0, root + "/src")
import numpy as np
from scinumtools.units import Quantity
from scinumtools.materials import Material, Substance, Element, Norm
import scinumtools.materials.composite as composite_module
assert composite_module.__file__.startswith(root), composite_module.__file__

def ser(v):
    if isinstance(v, Quantity):
        val = v.value()
        try:
            val = repr(float(val))
        except Exception:
            val = repr(val)
        return ["Q", val, str(v.units())]
    if isinstance(v, (float, np.floating)):
        return ["f", repr(float(v))]
    if isinstance(v, (int, np.integer)):
        return ["i", int(v)]
    if v is None:
        return None
    return ["s", str(v)]

def table(pt):
    if pt is None:
        return None
    return [[key, [[col, ser(val)] for col, val in row.items()]] for key, row in pt.data().items()]

def norms(c):
    return [ser(c.proportion_norm), ser(c.composite_mass), type(c.proportion_norm).__name__, type(c.composite_mass).__name__]

def observe(c, components=None):
    out = {}
    out["str"] = str(c)
    out["expr"] = c.expr
    out["norms"] = norms(c)
    out["comp_q"] = table(c.data_composite())
    out["comp_s"] = table(c.data_composite(quantity=False))
    out["cmpn_q"] = table(c.data_components())
    out["cmpn_s"] = table(c.data_components(quantity=False))
    if components:
        out["sel_q"] = table(c.data_composite(components=components))
        out["sel_s"] = table(c.data_composite(components=components, quantity=False))
    if c.mass_density:
        out["matter_q"] = table(c.data_matter())
        out["matter_s"] = table(c.data_matter(quantity=False))
        out["dens"] = [ser(c.mass_density), ser(c.number_density), ser(c.volume), ser(c.mass)]
    buf = io.StringIO()
    with contextlib.redirect_stdout(buf):
        c.print()
        c.print_composite()
        c.print_components()
    out["print"] = buf.getvalue()
    return out

def roundtrip(expr, natural):
    # number fractions -> resulting mass fractions -> same material again
    a = Material(expr, natural=natural, norm_type=Norm.NUMBER_FRACTION)
    X = {k: row["X"] for k, row in a.data_composite(quantity=False).data().items() if k not in ("avg", "sum")}
    b = Material(X, natural=natural, norm_type=Norm.MASS_FRACTION)
    return [observe(a), observe(b)]

NF, MF, NU = Norm.NUMBER_FRACTION, Norm.MASS_FRACTION, Norm.NUMBER
AIR = {"N2": 78.084, "O2": 20.946, "Ar": 0.934, "CO2": 0.036}

CASES = [
    ("nf_str",          lambda: observe(Material("0.2 <H2O> 0.3 <NaCl>"))),
    ("nf_str_scaled",   lambda: observe(Material("2 <H2O> 3 <NaCl>"))),
    ("nf_str_scaled2",  lambda: observe(Material("200 <H2O> 300 <NaCl>", norm_type=NF))),
    ("mf_str",          lambda: observe(Material("0.2 <H2O> 0.3 <NaCl>", norm_type=MF))),
    ("mf_str_scaled",   lambda: observe(Material("40 <H2O> 60 <NaCl>", norm_type=MF))),
    ("nf_air",          lambda: observe(Material(AIR, norm_type=NF), components=["O2", "Ar"])),
    ("mf_air",          lambda: observe(Material(AIR, norm_type=MF), components=["N2"])),
    ("nf_air_abundant", lambda: observe(Material(AIR, natural=False, norm_type=NF))),
    ("mf_air_abundant", lambda: observe(Material(AIR, natural=False, norm_type=MF))),
    ("number_material", lambda: observe(Material({"H2O": 2, "CO2": 5}, norm_type=NU))),
    ("single",          lambda: observe(Material({"Fe2O3": 7.5}))),
    ("single_mf",       lambda: observe(Material({"Fe2O3": 7.5}, norm_type=MF))),
    ("isotopes",        lambda: observe(Material({"D2O": 0.25, "H{1}2O{16}": 0.75, "U{235}O2": 1e-3}, norm_type=MF))),
    ("ions",            lambda: observe(Material("1.5 <Na{+}Cl{-}> 0.5 <[p]2[e]>", natural=False))),
    ("roundtrip_nat",   lambda: roundtrip("0.683815 <H2O> 0.316185 <NaCl>", True)),
    ("roundtrip_abn",   lambda: roundtrip("3 <C2H5OH> 1 <H2O> 0.01 <KMnO4>", False)),
    ("add_materials",   lambda: observe(Material({"H2O": 1.0}) + Material({"NaCl": 2.0, "H2O": 0.5}))),
    ("add_substance",   lambda: observe(Material({"H2O": 1.0}, norm_type=MF) + Substance("CaCO3", proportion=0.25))),
    ("rmul",            lambda: observe(3.5 * Material(AIR, norm_type=MF))),
    ("incremental",     lambda: (lambda m: (m.add("H2O", 0.2), m.add("NaCl", 0.8), m.add("H2O", 0.3), observe(m))[-1])(Material(norm_type=MF))),
    ("with_density",    lambda: observe(Material("0.2 <H2O> 0.3 <NaCl>", mass_density=Quantity(0.3, "g/cm3"), volume=Quantity(2, "l")))),
    ("with_density_mf", lambda: observe(Material("0.2 <H2O> 0.3 <NaCl>", norm_type=MF, mass_density=Quantity(0.3, "g/cm3")))),
    ("substance",       lambda: observe(Substance("C6H12O6"), components=["C", "O"])),
    ("substance_abn",   lambda: observe(Substance("Ca(OH)2", natural=False))),
    ("substance_dict",  lambda: observe(Substance({"B{11}": 2, "H": 6}))),
    ("substance_ops",   lambda: observe(Substance("H2O") * 3 + Substance("NaCl"))),
    ("substance_dens",  lambda: observe(Substance("H2O", number_density=Quantity(3e22, "cm-3")))),
    ("empty_material",  lambda: [table(Material().data_composite()), table(Material(norm_type=MF).data_components()), norms(Material())]),
    ("empty_substance", lambda: [table(Substance().data_composite()), norms(Substance())]),
    ("err_element",     lambda: observe(Material({"Xx2O": 1.0}))),
    ("err_isotope",     lambda: observe(Material("1 <H{9}2O>", norm_type=MF))),
    ("err_expr",        lambda: observe(Material("0.2 <H2O> + <>", norm_type=MF))),
    ("err_zero_mf",     lambda: observe(Material({"H2O": 0.0}, norm_type=MF))),
    ("err_zero_nf",     lambda: observe(Material({"H2O": 0.0, "NaCl": 0.0}))),
    ("err_proportion",  lambda: observe(Material({"H2O": "a"}))),
]

results = {}
for name, fn in CASES:
    try:
        with np.errstate(all="ignore"):
            results[name] = ["ok", fn()]
    except BaseException as exc:
        results[name] = ["raised", type(exc).__name__]
print("@@RESULT@@" + json.dumps(results, sort_keys=True))
'''


def run(root):
    root = os.path.abspath(root)
    proc = subprocess.run([sys.executable, "-c", WORKER, root],
                          capture_output=True, text=True, cwd="/")
    if proc.returncode != 0:
        sys.stderr.write(proc.stderr)
        raise SystemExit(2)
    payload = [l for l in proc.stdout.splitlines() if l.startswith("@@RESULT@@")]
    if len(payload) != 1:
        sys.stderr.write(proc.stdout + proc.stderr)
        raise SystemExit(2)
    return json.loads(payload[0][len("@@RESULT@@"):])


def main():
    if len(sys.argv) != 3:
        raise SystemExit("usage: diff.py <base tree> <refactored tree>")
    base, new = run(sys.argv[1]), run(sys.argv[2])
    bad = [k for k in sorted(set(base) | set(new)) if base.get(k) != new.get(k)]
    nok = sum(1 for v in base.values() if v[0] == "ok")
    print(f"{len(base)} inputs ({nok} returning, {len(base) - nok} raising); {len(bad)} differ")
    for k in bad:
        print("DIFF", k)
        print("  base:", json.dumps(base.get(k))[:600])
        print("  new: ", json.dumps(new.get(k))[:600])
    sys.exit(1 if bad else 0)


if __name__ == "__main__":
    main()
