#!/venv/bin/python
"""Differential check for property C09 (temporary custom units never outlive their scope).

usage: diff.py <unmodified tree root> <refactored tree root>

Runs the same set of scenarios against both trees (each in its own subprocess with
its own sys.path) and exits 0 iff every observable output is identical.
"""
import json
import os
import subprocess
import sys

RUNNER = r'''
import sys, os, json, hashlib
root = sys.argv[1]
sys.path.insert(0, os.path.join(root, 'src'))
import scinumtools
assert os.path.abspath(scinumtools.__file__).startswith(os.path.abspath(root) + os.sep), scinumtools.__file__

from scinumtools.units import Quantity, Unit, UnitEnvironment
from scinumtools.units.settings import UNIT_STANDARD, UNIT_PREFIXES, UNIT_TYPES
from scinumtools.units.unit_types import UnitType
from scinumtools.units.unit_environment import check_unique_symbols
from scinumtools.dip import DIP
from scinumtools.dip.settings import Format

def snap():
    data = {
        'unit_keys':   list(UNIT_STANDARD.keys()),
        'unit_data':   [(k, repr(v.data())) for k, v in UNIT_STANDARD.items()],
        'prefix_keys': list(UNIT_PREFIXES.keys()),
        'prefix_data': [(k, repr(v.data())) for k, v in UNIT_PREFIXES.items()],
        'types':       [t.__name__ for t in UNIT_TYPES],
    }
    return hashlib.sha256(json.dumps(data, sort_keys=True).encode()).hexdigest()

BASE = snap()

def exc(e):
    return {'exc': type(e).__name__, 'args': repr(e.args)}

def q(value, unit):
    try:
        x = Quantity(value, unit)
        return {'str': str(x), 'mag': repr(x.baseunits.magnitude), 'dim': x.baseunits.dimensions.value()}
    except Exception as e:
        return exc(e)

def state():
    s = snap()
    return {'restored': s == BASE, 'hash': s, 'nunits': len(UNIT_STANDARD), 'ntypes': len(UNIT_TYPES)}

class CustomTypeA(UnitType):
    def _istype(self):
        return False

class CustomTypeB(UnitType):
    def _istype(self):
        return False

def dict_units():
    return {
        'x': {'magnitude': 3, 'dimensions': [3, 2, -1, 0, 0, 1, 0, 0]},
        'y': Quantity(2, 'cm/g2'),
    }

SCENARIOS = []
def scenario(fn):
    SCENARIOS.append(fn)
    return fn

@scenario
def s01_normal_scope():
    out = []
    units = dict_units()
    with UnitEnvironment(units) as env:
        out.append([q(1, 'x'), q(1, 'y'), q(2, 'x*y'), q(1, 'kx')])
        out.append([sorted(env.new_units), len(env.new_types), 'x' in UNIT_STANDARD, state()])
        out.append(repr(UNIT_STANDARD['x'].data()))
    out.append(['x' in UNIT_STANDARD, 'y' in UNIT_STANDARD, q(1, 'x'), state()])
    # the input dictionary is completed in place
    out.append([list(units['x'].keys()), repr(units['x']), type(units['y']).__name__])
    return out

@scenario
def s02_exception_in_body():
    out = []
    try:
        with UnitEnvironment(dict_units()):
            out.append(q(5, 'x'))
            raise KeyError('boom')
    except Exception as e:
        out.append(exc(e))
    out.append(state())
    try:
        with UnitEnvironment(dict_units()):
            1 / 0
    except Exception as e:
        out.append(exc(e))
    out.append(state())
    return out

@scenario
def s03_duplicate_standard_symbol():
    out = []
    for units in (
        {'m': {'magnitude': 3, 'dimensions': [1, 0, 0, 0, 0, 0, 0, 0]}},
        {'x': {'magnitude': 3, 'dimensions': [1, 0, 0, 0, 0, 0, 0, 0]},
         'z': {'magnitude': 1, 'dimensions': [0, 0, 0, 0, 0, 0, 0, 0], 'definition': CustomTypeA},
         'g': {'magnitude': 3, 'dimensions': [0, 1, 0, 0, 0, 0, 0, 0]}},
    ):
        try:
            with UnitEnvironment(units):
                out.append('entered')
        except Exception as e:
            out.append(exc(e))
        out.append(state())
    return out

@scenario
def s04_prefixed_symbol_clash():
    out = []
    for units in (
        {'km': {'magnitude': 3, 'dimensions': [1, 0, 0, 0, 0, 0, 0, 0]}},
        {'ol': {'magnitude': 3, 'dimensions': [1, 0, 0, 0, 0, 0, 0, 0], 'prefixes': ['m']}},
        {'in': {'magnitude': 3, 'dimensions': [1, 0, 0, 0, 0, 0, 0, 0], 'prefixes': True}},
        {'x': {'magnitude': 3, 'dimensions': [1, 0, 0, 0, 0, 0, 0, 0], 'prefixes': ['k', 'M']},
         'kx': {'magnitude': 3, 'dimensions': [1, 0, 0, 0, 0, 0, 0, 0]},
         'Mx': {'magnitude': 3, 'dimensions': [1, 0, 0, 0, 0, 0, 0, 0], 'definition': CustomTypeB}},
        {'x': {'magnitude': 3, 'dimensions': [1, 0, 0, 0, 0, 0, 0, 0], 'prefixes': True},
         'dax': {'magnitude': 3, 'dimensions': [1, 0, 0, 0, 0, 0, 0, 0], 'prefixes': False}},
    ):
        try:
            with UnitEnvironment(units):
                out.append(['entered', sorted(units)])
        except Exception as e:
            out.append(exc(e))
        out.append(state())
    return out

@scenario
def s05_malformed_definitions():
    out = []
    for units in (
        {'x': {'dimensions': [1, 0, 0, 0, 0, 0, 0, 0]}},                          # no magnitude
        {'w': {'magnitude': 1, 'dimensions': [0] * 8}, 'x': {'magnitude': 3}},   # no dimensions, second
        {'x': {'magnitude': 3, 'dimensions': [1, 0, 0, 0, 0, 0, 0, 0], 'prefixes': ['k', 'Q']}},  # unknown prefix
        {'x': 5},                                                                 # not a mapping
        {'w': {'magnitude': 1, 'dimensions': [0] * 8, 'definition': CustomTypeA}, 'x': None},
        {'x': {'magnitude': 3, 'dimensions': [1, 0, 0, 0, 0, 0, 0, 0], 'prefixes': 'k'}},  # string prefixes
        {5: {'magnitude': 3, 'dimensions': [1, 0, 0, 0, 0, 0, 0, 0]}},            # non-string symbol
        None,
        [('x', {'magnitude': 3, 'dimensions': [0] * 8})],
    ):
        try:
            with UnitEnvironment(units) as env:
                out.append(['entered', [str(u) for u in env.new_units], q(1, 'x')])
        except Exception as e:
            out.append(exc(e))
        out.append(state())
    return out

@scenario
def s06_nested_scopes():
    out = []
    with UnitEnvironment({'x': {'magnitude': 3, 'dimensions': [1, 0, 0, 0, 0, 0, 0, 0]}}):
        out.append(q(1, 'x'))
        with UnitEnvironment({'y': Quantity(2, 'x')}):
            out.append([q(1, 'y'), q(1, 'x/y')])
            with UnitEnvironment({'z': {'magnitude': 7, 'dimensions': [0, 0, 1, 0, 0, 0, 0, 0], 'prefixes': ['k']}}):
                out.append([q(1, 'kz'), q(1, 'Mz'), q(1, 'x*y*z')])
                out.append(state())
            out.append(['z' in UNIT_STANDARD, q(1, 'z')])
            try:
                with UnitEnvironment({'w': {'magnitude': 1, 'dimensions': [0] * 8}, 'x': {'magnitude': 1, 'dimensions': [0] * 8}}):
                    out.append('entered')
            except Exception as e:
                out.append(exc(e))
            out.append(['w' in UNIT_STANDARD, q(1, 'y'), q(1, 'x')])
        out.append(['y' in UNIT_STANDARD, q(1, 'x'), state()])
    out.append(state())
    return out

@scenario
def s07_repeated_scopes():
    out = []
    for i in range(4):
        with UnitEnvironment({'x': {'magnitude': i + 1, 'dimensions': [i, 0, 0, 0, 0, 0, 0, 0], 'name': 'ex%d' % i}}):
            out.append([q(1, 'x'), UNIT_STANDARD['x'].name, len(UNIT_STANDARD)])
        out.append(state())
    return out

@scenario
def s08_custom_types():
    out = []
    units = {
        'x': {'magnitude': 3, 'dimensions': [3, 2, -1, 0, 0, 1, 0, 0], 'definition': CustomTypeA},
        'y': {'magnitude': 3, 'dimensions': [3, 2, -1, 0, 0, 1, 0, 0], 'definition': CustomTypeA},
        'z': {'magnitude': 3, 'dimensions': [3, 2, -1, 0, 0, 1, 0, 0], 'definition': CustomTypeB},
        'v': {'magnitude': 3, 'dimensions': [3, 2, -1, 0, 0, 1, 0, 0], 'definition': 'm2'},
        'xu': {'magnitude': 3, 'dimensions': [3, 2, -1, 0, 0, 1, 0, 0], 'definition': None},
    }
    env = UnitEnvironment(units)
    out.append([[t.__name__ for t in UNIT_TYPES], [t.__name__ for t in env.new_types], list(env.new_units)])
    out.append([q(1, 'x'), q(1, 'v'), q(1, 'xu')])
    out.append(state())
    env.close()
    out.append([[t.__name__ for t in UNIT_TYPES], state()])
    # closing twice
    try:
        env.close()
    except Exception as e:
        out.append(exc(e))
    out.append(state())
    return out

@scenario
def s09_type_then_failure():
    out = []
    for units in (
        {'x': {'magnitude': 3, 'dimensions': [0] * 8, 'definition': CustomTypeA},
         'y': {'magnitude': 3, 'dimensions': [0] * 8, 'definition': CustomTypeB},
         's': {'magnitude': 3, 'dimensions': [0] * 8}},
        {'x': {'magnitude': 3, 'dimensions': [0] * 8, 'definition': CustomTypeA, 'prefixes': ['k']},
         'kx': {'magnitude': 3, 'dimensions': [0] * 8, 'definition': CustomTypeB}},
        {'x': {'magnitude': 3, 'dimensions': [0] * 8, 'definition': CustomTypeA},
         'y': {'definition': CustomTypeB}},
    ):
        try:
            with UnitEnvironment(units):
                out.append('entered')
        except Exception as e:
            out.append(exc(e))
        out.append([[t.__name__ for t in UNIT_TYPES], state()])
    return out

@scenario
def s10_manual_open_close_interleaved():
    out = []
    a = UnitEnvironment({'x': {'magnitude': 2, 'dimensions': [1, 0, 0, 0, 0, 0, 0, 0]}})
    b = UnitEnvironment({'y': {'magnitude': 5, 'dimensions': [0, 1, 0, 0, 0, 0, 0, 0], 'definition': CustomTypeA}})
    out.append([q(1, 'x*y'), state()])
    a.close()
    out.append([q(1, 'x'), q(1, 'y'), state()])
    b.close()
    out.append([q(1, 'y'), state()])
    # leaving an already closed environment closes it a second time
    try:
        with a as same:
            out.append(same is a)
    except Exception as e:
        out.append(exc(e))
    out.append(state())
    return out

@scenario
def s11_check_unique_symbols():
    out = []
    try:
        out.append(check_unique_symbols())
    except Exception as e:
        out.append(exc(e))
    # table tampered with directly: duplicates reported in sorted order
    UNIT_STANDARD.append('km', (1.0, [1, 0, 0, 0, 0, 0, 0, 0], None, 'fake', False))
    UNIT_STANDARD.append('cm', (1.0, [1, 0, 0, 0, 0, 0, 0, 0], None, 'fake', ['k', 'M']))
    UNIT_STANDARD.append('kcm', (1.0, [1, 0, 0, 0, 0, 0, 0, 0], None, 'fake', False))
    UNIT_STANDARD.append('am', (1.0, [1, 0, 0, 0, 0, 0, 0, 0], None, 'fake', ['d']))   # 'dam' three times
    UNIT_STANDARD.append('dam', (1.0, [1, 0, 0, 0, 0, 0, 0, 0], None, 'fake', False))
    try:
        out.append(check_unique_symbols())
    except Exception as e:
        out.append(exc(e))
    UNIT_STANDARD.append('bad', (1.0, [1, 0, 0, 0, 0, 0, 0, 0], None, 'fake', ['k', 'QQ']))
    try:
        out.append(check_unique_symbols())
    except BaseException as e:
        out.append(exc(e))
    for k in ('km', 'cm', 'kcm', 'am', 'dam', 'bad'):
        del UNIT_STANDARD[k]
    out.append(state())
    return out

def dip_data(env):
    data = env.data(format=Format.TUPLE)
    return {k: repr(v) for k, v in data.items()}

@scenario
def s12_dip_custom_units():
    out = []
    with DIP() as dip:
        dip.add_unit("length", 1, "m")
        dip.add_string("""
        $unit mass = 2 g
        $unit speed = 3 [length]/s
        width float = 23 [length]
        weight float = 4 [mass]
        fast float = 2 [speed]
        conv float = 1 km
        conv = 200 [length]
        """)
        env = dip.parse()
    out.append(dip_data(env))
    out.append([list(env.units.keys()), {k: [repr(v['magnitude']), v['dimensions'], v['value'], v['units']] for k, v in env.units.items()}])
    out.append(['[length]' in UNIT_STANDARD, q(1, '[length]'), state()])
    return out

@scenario
def s13_dip_failures():
    out = []
    codes = [
        # duplicate custom unit
        """
        $unit length = 1 cm
        $unit length = 2 m
        a float = 1 [length]
        """,
        # unknown unit in a unit definition
        """
        $unit length = 1 cm
        $unit blob = 2 foobar
        """,
        # unknown custom unit used by a node
        """
        $unit length = 1 cm
        a float = 1 [width]
        """,
        # incompatible conversion inside custom scope
        """
        $unit length = 1 cm
        a float = 1 [length]
        a = 3 s
        """,
        # malformed value
        """
        $unit length = abc cm
        """,
        # expression using custom units
        """
        $unit length = 10 cm
        a float = 2 [length]
        b float = ("{?a} * 3") m
        @case ("{?a} > 1 cm")
          c int = 1
        @else
          c int = 2
        @end
        """,
    ]
    for code in codes:
        try:
            with DIP() as dip:
                dip.add_string(code)
                env = dip.parse()
            out.append([dip_data(env), list(env.units.keys())])
        except Exception as e:
            out.append({'exc': type(e).__name__, 'args0': repr(e.args[:1])})
        out.append(state())
    return out

@scenario
def s14_dip_nested_in_unit_environment():
    out = []
    with UnitEnvironment({'x': {'magnitude': 3, 'dimensions': [1, 0, 0, 0, 0, 0, 0, 0]}}):
        with DIP() as dip:
            dip.add_string("""
            $unit length = 2 x
            a float = 3 [length]
            a = 1 x
            """)
            env = dip.parse()
        out.append([dip_data(env), q(1, 'x'), '[length]' in UNIT_STANDARD])
        try:
            with DIP() as dip:
                dip.add_string("""
                $unit length = 2 x
                $unit length = 3 x
                """)
                dip.parse()
        except Exception as e:
            out.append({'exc': type(e).__name__, 'args0': repr(e.args[:1])})
        out.append([q(2, 'x'), len(UNIT_STANDARD)])
    out.append(state())
    return out

@scenario
def s15_dip_imported_units_and_repeats():
    out = []
    for i in range(3):
        with DIP() as dip:
            dip.add_unit("length", i + 1, "m")
            dip.add_unit("area", 2, "[length]2")
            dip.add_string("""
            s float = 5 [area]
            s2 float = 5 [area]
            s2 = 1 m2
            """)
            env = dip.parse()
        with DIP(env) as dip2:
            dip2.add_string("""
            t float = 2 [length]
            """)
            env2 = dip2.parse()
        out.append([dip_data(env2), list(env2.units.keys()), state()])
    return out

@scenario
def s16_dip_malformed_unit_nodes_and_queries():
    out = []
    codes = [
        "$unit length",
        "$unit length = 5",
        "$unit = 1 cm",
        "$unit my-len = 1 cm",
        "$unit {foo?*}",
        "$unit length = 1 cm\n$unit area = 2 [length]2\n$unit vol = 3 [area]*[length]\nv float = 1 [vol]\nv = 1 cm3",
        "$unit length = 1 cm\nb float = 3 [length]\n$unit width = {?b}\nc float = 1 [width]\nc = 1 m",
        "$unit length = 1 cm\n$unit m = 2 [length]\nc float = 1 [m]",
    ]
    for code in codes:
        try:
            with DIP() as dip:
                dip.add_string(code)
                env = dip.parse()
            res = [dip_data(env), {k: [repr(v['magnitude']), v['dimensions'], v['value'], v['units']] for k, v in env.units.items()}]
            for query in ('*', '[length]', '[nothing]'):
                try:
                    res.append(sorted(env.units.query(query).keys()))
                except Exception as e:
                    res.append(exc(e))
            out.append(res)
        except Exception as e:
            out.append({'exc': type(e).__name__, 'args0': repr(e.args[:1])})
        out.append(state())
    return out

results = {}
for fn in SCENARIOS:
    try:
        results[fn.__name__] = fn()
    except BaseException as e:
        results[fn.__name__] = {'scenario_raised': type(e).__name__, 'args': repr(e.args)}
    results[fn.__name__ + ':after'] = state()
print('@@RESULT@@' + json.dumps(results, sort_keys=True, default=repr))
'''


def run(root):
    root = os.path.abspath(root)
    proc = subprocess.run(
        [sys.executable, '-c', RUNNER, root],
        capture_output=True, text=True, cwd='/', env={**os.environ, 'PYTHONDONTWRITEBYTECODE': '1', 'PYTHONPATH': ''},
    )
    if proc.returncode != 0:
        print(proc.stdout)
        print(proc.stderr, file=sys.stderr)
        raise SystemExit(2)
    for line in proc.stdout.splitlines():
        if line.startswith('@@RESULT@@'):
            return json.loads(line[len('@@RESULT@@'):])
    print(proc.stdout)
    raise SystemExit(2)


def main():
    base = os.path.abspath(sys.argv[1])
    other = os.path.abspath(sys.argv[2])
    a = run(base)
    b = run(other)
    bad = 0
    for key in sorted(set(a) | set(b)):
        if a.get(key) != b.get(key):
            bad += 1
            print('DIFF in', key)
            print('  base :', json.dumps(a.get(key)))
            print('  other:', json.dumps(b.get(key)))
    nscen = len([k for k in a if not k.endswith(':after')])
    if '-v' in sys.argv:
        print(json.dumps(a, indent=1))
    print('%d scenarios compared, %d differences' % (nscen, bad))
    sys.exit(1 if bad else 0)


if __name__ == '__main__':
    main()
