#!/venv/bin/python
"""Differential check for property C20 (tables, row collector, plot grid, combinations).

usage: diff.py <unmodified tree root> <refactored tree root>
Runs the same inputs against each tree in its own subprocess (own sys.path) and
exits 0 iff every observable output (values, dtypes, raised exception types and
arguments) is identical.
"""
import json
import os
import subprocess
import sys

DRIVER = r'''
import sys, json, warnings
warnings.filterwarnings("ignore")
sys.path.insert(0, sys.argv[1] + "/src")
import numpy as np
from scinumtools import ParameterTable, RowCollector, DataPlotGrid, DataCombination

def norm(x):
    if isinstance(x, np.ndarray):
        return ["ndarray", str(x.dtype), [norm(v) for v in x.tolist()]]
    if isinstance(x, np.generic):
        return ["npscalar", type(x).__name__, repr(x.item())]
    if isinstance(x, dict):
        return ["dict", [[norm(k), norm(v)] for k, v in x.items()]]
    if isinstance(x, (list, tuple)):
        return [type(x).__name__, [norm(v) for v in x]]
    if hasattr(x, "_keys") and hasattr(x, "data") and not isinstance(x, type):
        return [type(x).__name__, repr(x) if type(x).__name__ == "ParameterSettings" else None, norm(x.data())]
    return [type(x).__name__, repr(x)]

def guard(fn):
    try:
        return ["ok", norm(fn())]
    except BaseException as e:
        return ["exc", type(e).__name__, repr(e.args)]

out = {}
def case(name):
    def deco(fn):
        out[name] = guard(fn)
        return fn
    return deco

# ---------------------------------------------------------------- tables
SET = ["a", "b", "c"]

def dump_table(t):
    r = {"len": guard(lambda: len(t)), "shape": guard(t.shape), "data": guard(t.data),
         "items": guard(lambda: list(t.items())), "keys": guard(lambda: list(t.keys())),
         "str": guard(lambda: str(t)), "repr": guard(lambda: repr(t)),
         "text": guard(t.to_text), "rawkeys": norm(t._keys)}
    return ["dump", [[k, v] for k, v in r.items()]]

@case("pt_list_basic")
def _():
    t = ParameterTable(SET, [[1, 2, 3], [4, 5, 6]])
    t.append([7, 8, 9])
    return [dump_table(t), norm(t[0]), norm(t[-1]), guard(lambda: t[5]), guard(lambda: t["x"]),
            guard(lambda: t.foo), guard(lambda: "a" in t), guard(lambda: t.__setitem__("k", [1, 2, 3]))]

@case("pt_list_delete")
def _():
    t = ParameterTable(SET, [[1, 2, 3], [4, 5, 6], [7, 8, 9]])
    del t[1]
    r = [dump_table(t), guard(lambda: t.__delitem__(9))]
    del t[0]; del t[0]
    r.append(dump_table(t))
    return r

@case("pt_keyed_basic")
def _():
    t = ParameterTable(SET, {"x": [1, 2, 3], "y": [4, 5, 6]}, keys=True)
    t["z"] = [7, 8, 9]
    t.append("w", [0, 0, 1])
    return [dump_table(t), norm(t["x"]), norm(t[0]), norm(t[-1]), norm(t[True]), norm(t.y), norm(t.y.b),
            norm(t["z"]["c"]), guard(lambda: t[7]), guard(lambda: t["nope"]), guard(lambda: t.nope),
            "x" in t, "q" in t, 1 in t, list(t.keys()), t.z.keys(), list(t.z.items())]

@case("pt_keyed_overwrite_delete")
def _():
    t = ParameterTable(SET, keys=True, keyname="id")
    for k, v in [("k1", [1, 2, 3]), ("k2", [4, 5, 6]), ("k1", [9, 9, 9]), ("k3", ["s", None, 2.5])]:
        t[k] = v
    r = [dump_table(t)]
    del t["k2"]
    r.append(dump_table(t))
    r.append(guard(lambda: t.__delitem__("k2")))
    r.append(dump_table(t))
    t["k2"] = [0, 1, 2]
    r.append(dump_table(t))
    r.append(guard(lambda: t.__delitem__(0)))
    r.append(dump_table(t))
    return r

@case("pt_keyed_short_long_values")
def _():
    t = ParameterTable(SET, keys=True)
    t["s"] = [1]
    t["l"] = [1, 2, 3, 4, 5]
    t["e"] = []
    r = [dump_table(t), guard(lambda: t.s.b), guard(lambda: t["s"]["b"]), guard(lambda: t.append("bad", 5)),
         dump_table(t), guard(lambda: t.append("only")), guard(lambda: t.append("a", [1], 2))]
    return r

@case("pt_list_edge")
def _():
    t = ParameterTable(SET)
    r = [dump_table(t), guard(lambda: t.append(3)), guard(lambda: t.append()), guard(lambda: t.append([1, 2], "extra"))]
    r.append(dump_table(t))
    t2 = ParameterTable([], [[1, 2]])
    r.append(dump_table(t2))
    return r

@case("pt_settings_object")
def _():
    from scinumtools.parameter_table import ParameterSettings
    class Odd:
        def __str__(self): return "odd-str"
        def __repr__(self): return "odd-repr"
        def __format__(self, spec): return "odd-format"
    s = ParameterSettings({"p": 1, "q": "two", "r": Odd(), "s": [1, 2]})
    with s as z:
        same = z is s
    return [str(s), repr(s), s.keys(), [[k, repr(v)] for k, v in s.items()], sorted(s.data()), list(s.data()),
            same, s["q"], guard(lambda: s["zz"]), guard(lambda: ParameterSettings({1: 2})),
            str(ParameterSettings({})), ParameterSettings({}).data()]

@case("pt_context_and_mixed_keys")
def _():
    with ParameterTable(["v"], keys=True) as t:
        t["b"] = [2]; t["a"] = [1]; t["c"] = [3]; t["a"] = [10]
        return [dump_table(t), [k for k, _ in t.items()], [v.v for _, v in t.items()],
                guard(lambda: t.to_dataframe().values.tolist()), guard(lambda: list(t.to_dataframe().columns))]

# ---------------------------------------------------------------- row collector
def dump_rc(rc):
    r = {"len": guard(lambda: len(rc)), "size": guard(rc.size), "shape": guard(rc.shape),
         "dict": guard(rc.to_dict), "cols": norm(rc._columns), "str": guard(lambda: str(rc)),
         "df": guard(lambda: rc.to_dataframe().values.tolist())}
    return ["dump", [[k, v] for k, v in r.items()]]

@case("rc_list_basic")
def _():
    rc = RowCollector(["a", "b", "c"])
    rc.append([3, "x", 1.5]); rc.append([1, "y", 2.5]); rc.append({"c": 0.5, "a": 2, "b": "z"})
    r = [dump_rc(rc), norm(rc["a"]), norm(rc.b)]
    rc.sort("a"); r.append(dump_rc(rc))
    rc.sort("c", reverse=True); r.append(dump_rc(rc))
    rc.sort("b"); r.append(dump_rc(rc))
    r.append(guard(lambda: rc.sort("nope")))
    r.append(guard(lambda: rc["nope"]))
    return r

@case("rc_list_init_rows_ties")
def _():
    rows = [[2, 10], [1, 20], [2, 30], [1, 40], [0, 50], [2, 60]]
    rc = RowCollector(["k", "v"], rows)
    r = [dump_rc(rc)]
    rc.sort("k"); r.append(dump_rc(rc))
    rc.sort("k", reverse=True); r.append(dump_rc(rc))
    rc.sort("v", reverse=1); r.append(dump_rc(rc))
    return r

@case("rc_array_basic")
def _():
    rc = RowCollector(["a", "b"], array=True)
    rc.append([3, 1.5]); rc.append([1, 2.5]); rc.append({"b": 0.5, "a": 2})
    r = [dump_rc(rc)]
    rc.sort("a"); r.append(dump_rc(rc))
    rc.sort("b", reverse=True); r.append(dump_rc(rc))
    return r

@case("rc_array_dtypes")
def _():
    rc = RowCollector({"i": {"dtype": int}, "s": {"dtype": str}, "f": {"dtype": np.float32}, "o": {"dtype": bool}},
                      [[3, "c", 1.5, True], [1, "a", 0.25, False], [2, "b", 9, 1]], array=True)
    r = [dump_rc(rc)]
    rc.append([7.9, 12, "3.5", 0]); r.append(dump_rc(rc))
    rc.sort("s"); r.append(dump_rc(rc))
    rc.sort("i", reverse=True); r.append(dump_rc(rc))
    r.append(guard(lambda: rc.append(["zz", "a", 1.0, True])))
    r.append(dump_rc(rc))
    return r

@case("rc_dict_columns_list_mode")
def _():
    rc = RowCollector({"i": {"dtype": int}, "s": {"dtype": str}})
    rc.append([1, "a"]); rc.append([0, "b"])
    rc.sort("i")
    return dump_rc(rc)

@case("rc_autocolumns")
def _():
    rc = RowCollector()
    r = [dump_rc(rc)]
    rc.append({"x": 2, "y": "b"}); rc.append({"y": "a", "x": 1})
    r.append(dump_rc(rc))
    r.append(guard(lambda: rc.append({"x": 1, "y": 2, "z": 3})))
    r.append(guard(lambda: rc.append({"x": 1})))
    r.append(dump_rc(rc))
    rc.sort("x"); r.append(dump_rc(rc))
    rca = RowCollector(array=True)
    rca.append({"p": 1.5, "q": 3}); rca.append({"p": 0.5, "q": 4})
    rca.sort("p", reverse=True)
    r.append(dump_rc(rca))
    return r

@case("rc_bad_rows")
def _():
    rc = RowCollector(["a", "b", "c"])
    r = [guard(lambda: rc.append([1, 2])), dump_rc(rc), guard(lambda: rc.append(5)), dump_rc(rc),
         guard(lambda: rc.append([1, 2, 3, 4])), dump_rc(rc)]
    rca = RowCollector(["a", "b"], array=True)
    r += [guard(lambda: rca.append([1])), dump_rc(rca), guard(lambda: rca.append([1, [2, 3]])), dump_rc(rca)]
    return r

@case("rc_odd_array_flag_and_names")
def _():
    r = []
    for flag in (0, 1, None, "yes"):
        def f(flag=flag):
            rc = RowCollector(["a"], array=flag)
            rc.append([1]); rc.append([0]); rc.sort("a")
            return dump_rc(rc)
        r.append(guard(f))
    r.append(guard(lambda: RowCollector([1, 2])))
    r.append(guard(lambda: RowCollector({"a": {"bogus": 1}, "b": {}}, array=True)))
    r.append(guard(lambda: RowCollector(["a", "a"], [[1, 2]]).to_dict()))
    return r

@case("rc_to_dataframe_columns")
def _():
    rc = RowCollector(["a", "b"], [[1, 2], [3, 4]])
    return [rc.to_dataframe(["b"]).to_dict("list"), rc.to_dataframe({"a": "A"}).to_dict("list"),
            rc.to_text(index=False), guard(lambda: rc.to_dataframe(["zz"]))]

@case("rc_sort_random")
def _():
    import random
    rnd = random.Random(20)
    r = []
    for trial in range(6):
        n = rnd.randint(0, 9)
        rows = [[rnd.randint(0, 4), rnd.random(), "s%d" % rnd.randint(0, 3)] for _ in range(n)]
        for arr in (False, True):
            cols = {"i": {"dtype": int}, "f": {"dtype": float}, "s": {"dtype": str}} if arr else ["i", "f", "s"]
            rc = RowCollector(cols, rows, array=arr)
            for col, rev in (("i", False), ("f", True), ("s", False), ("i", True)):
                rc.sort(col, reverse=rev)
                r.append(guard(rc.to_dict))
    return r

# ---------------------------------------------------------------- plot grid
def grid_dump(data, ncols, **kw):
    def f():
        g = DataPlotGrid(data, ncols, **kw)
        r = [g.ndata, g.ncols, g.nrows, g.figsize]
        for missing in (None, False, True, 0, 1):
            for transpose in (False, True, 0, "t"):
                r.append(guard(lambda: list(g.items(missing=missing, transpose=transpose))))
        r.append(guard(lambda: list(g.items())))
        r.append(guard(lambda: list(g.items(True))))
        r.append(guard(lambda: list(g.items(True, True))))
        return r
    return guard(f)

@case("grid_lists")
def _():
    return [grid_dump(list("abcdefghijk")[:n], c) for n in (0, 1, 2, 3, 5, 6, 7, 11) for c in (1, 2, 3, 4, 7)]

@case("grid_dicts")
def _():
    return [grid_dump({"k%d" % i: i * i for i in range(n)}, c, axsize=(3, 5)) for n in (0, 1, 4, 5, 9) for c in (1, 2, 3, 5)]

@case("grid_bad")
def _():
    g = DataPlotGrid((1, 2, 3), 2)
    it = g.items()
    r = [type(it).__name__, guard(lambda: next(it)), guard(lambda: list(g.items(missing=True))),
         guard(lambda: list(g.items(transpose=True))), grid_dump([1, 2], 0), grid_dump("abc", 2),
         grid_dump([1, 2, 3], -2), guard(lambda: DataPlotGrid(5, 2))]
    return r

@case("grid_lazy")
def _():
    g = DataPlotGrid(list(range(7)), 3)
    it = g.items(transpose=True)
    first = next(it)
    g.nrows = 7
    rest = list(it)
    it2 = g.items(missing=True)
    g.ncols = 2; g.nrows = 5
    it3 = g.items()
    a = next(it3); it3.close()
    return [first, rest, list(it2), a, guard(lambda: next(it3)), type(g.items(True)).__name__]

# ---------------------------------------------------------------- combinations
def comb_dump(items):
    def f():
        c = DataCombination(items)
        return [list(c.keys()), list(c.values()), list(c.items()), type(c.keys()).__name__, type(c.items()).__name__]
    return guard(f)

@case("comb_basic")
def _():
    return [comb_dump(x) for x in ([[1, 2], ["a", "b", "c"]], [[1], [2], [3]], [], [[]], [[1, 2], []],
                                   [[1, 2, 3]], ["ab", "cd"], [(1, 2), [3], "xy"], [[None, 0], [[], {}]],
                                   [[1, 1], [1, 1]], ([1, 2], [3, 4]))]

@case("comb_bad")
def _():
    def part():
        c = DataCombination([[1, 2], [3, 4], [5]])
        it = c.items(); a = next(it); b = next(it)
        k = c.keys(); k0 = next(k)
        return [a, b, k0, list(it), list(k)]
    return [comb_dump(5), comb_dump([1, 2]), comb_dump([{1: "a", 0: "b"}, [7]]), comb_dump([{"x": 1}]),
            comb_dump([iter([1, 2])]), guard(part)]

print(json.dumps(out, sort_keys=True))
'''


def run(root):
    p = subprocess.run([sys.executable, "-c", DRIVER, os.path.abspath(root)],
                       capture_output=True, text=True, cwd="/tmp")
    if p.returncode != 0:
        print("driver failed for", root, "\n", p.stderr[-3000:])
        sys.exit(2)
    return json.loads(p.stdout.strip().splitlines()[-1])


def main():
    base, new = run(sys.argv[1]), run(sys.argv[2])
    bad = [k for k in sorted(set(base) | set(new)) if base.get(k) != new.get(k)]
    for k in bad:
        print("DIFF in case", k)
        print("  base:", json.dumps(base.get(k))[:1500])
        print("  new :", json.dumps(new.get(k))[:1500])
    print("%d cases compared, %d differ" % (len(base), len(bad)))
    sys.exit(1 if bad else 0)


if __name__ == "__main__":
    main()
