#!/venv/bin/python
"""Differential check for property C04 (linear unit conversion).

usage: diff.py <unmodified tree root> <refactored tree root>
Runs the same set of conversion scenarios against each tree in its own
subprocess (own sys.path) and exits 0 iff all observable outputs are equal.
"""
import json
import subprocess
import sys

WORKER = r'''
import sys, json
root = sys.argv[1]
sys.path.insert(0, root + '/src')
import numpy as np
from decimal import Decimal
from scinumtools.units import Quantity, Unit
from scinumtools.units.base_units import BaseUnits
from scinumtools.units.magnitude import Magnitude

def show(v):
    if isinstance(v, Quantity):
        return ['Q', show(v.magnitude), v.baseunits.expression, str(v)]
    if isinstance(v, Magnitude):
        return ['M', show(v.value), show(v.error)]
    if isinstance(v, np.ndarray):
        return ['A', str(v.dtype), [show(x) for x in v.tolist()]]
    if isinstance(v, (float, np.floating)):
        return ['F', float(v).hex() if np.isfinite(v) else repr(float(v))]
    if isinstance(v, Decimal):
        return ['D', str(v)]
    if isinstance(v, (list, tuple)):
        return [show(x) for x in v]
    if v is None or isinstance(v, (bool, int, str)):
        return [type(v).__name__, v]
    return [type(v).__name__, repr(v)]

cases = []
def case(name):
    def deco(fn):
        cases.append((name, fn))
        return fn
    return deco

def conv(x, u, v):
    return Quantity(x, u).to(v)

MAGS = [0.0, 1.0, -1.0, 2.5, -3.75e-7, 1e-300, 1e300, 5e-324, 1.7976931348623157e308, 123456789.123]
TRIPLES = [
    ('m', 'km', 'cm'), ('km', 'au', 'pc'), ('g', 'kg', 'mg'), ('s', 'min', 'h'),
    ('J', 'erg', 'eV'), ('J', 'kg*m2/s2', 'kW*h'), ('N', 'kg*m/s2', 'dyn'),
    ('Pa', 'bar', 'atm'), ('km/s', 'm/s', 'cm/ms'), ('m3', 'l', 'cm3'),
    ('rad', 'deg', "'"), ('Hz', 'kHz', 's-1'), ('W', 'J/s', 'erg/s'),
    ('mol', 'mmol', 'kmol'), ('C', 'A*s', 'mA*h'), ('g/cm3', 'kg/m3', 'kg/l'),
    ('Ym', 'ym', 'nm'), ('m2:3', 'cm2:3', 'km2:3'),
]

@case('direct scalar conversions over triples x magnitudes')
def _():
    out = []
    for (u, v, w) in TRIPLES:
        for x in MAGS:
            for (a, b) in ((u, v), (v, w), (u, w), (w, u)):
                try:
                    out.append([u, v, w, x, a, b, show(conv(x, a, b))])
                except Exception as e:
                    out.append([u, v, w, x, a, b, 'EXC', type(e).__name__])
    return out

@case('round trip and via-intermediate')
def _():
    out = []
    for (u, v, w) in TRIPLES:
        for x in MAGS:
            try:
                q = Quantity(x, u)
                r1 = q.to(v)
                same = r1 is q
                r2 = q.to(u)
                q2 = Quantity(x, u).to(v).to(w)
                q3 = Quantity(x, u).to(w)
                out.append([u, v, w, x, same, show(r2), show(q2), show(q3)])
            except Exception as e:
                out.append([u, v, w, x, 'EXC', type(e).__name__])
    return out

@case('array conversions')
def _():
    out = []
    arrs = [np.array(MAGS), np.array([[1., 2.], [3., -4.]]), np.array([1, 2, 3]), [1.5, 2.5], np.array([])]
    for (u, v, w) in TRIPLES[:8]:
        for a in arrs:
            try:
                out.append([u, v, show(conv(a, u, v)), show(conv(a, u, v).to(w)), show(conv(a, u, w))])
            except Exception as e:
                out.append([u, v, 'EXC', type(e).__name__])
    return out

@case('reciprocal dimensions')
def _():
    out = []
    for (u, v) in [('s', 'Hz'), ('Hz', 'ms'), ('m', 'cm-1'), ('km-1', 'm'), ('s/m', 'km/h'), ('m2', 'cm-2'), ('J', 'erg-1')]:
        for x in [1.0, -2.0, 0.25, 1e300, 1e-300, 0.0, np.array([1., 2., 4.])]:
            try:
                with np.errstate(all='ignore'):
                    out.append([u, v, show(x), show(conv(x, u, v))])
            except Exception as e:
                out.append([u, v, show(x), 'EXC', type(e).__name__])
    return out

@case('bare number to radians and angles')
def _():
    out = []
    for x in MAGS + [np.array([0., 1., -2.])]:
        for tgt in ['rad', 'mrad', 'deg', None, 'm', 'rad2', 'rad*s']:
            try:
                out.append([show(x), tgt, show(Quantity(x).to(tgt))])
            except Exception as e:
                out.append([show(x), tgt, 'EXC', type(e).__name__])
        for src in ['rad', 'deg']:
            try:
                out.append([show(x), src, show(Quantity(x, src).to(None))])
            except Exception as e:
                out.append([show(x), src, 'EXC', type(e).__name__])
    return out

@case('refused conversions leave quantity unchanged')
def _():
    out = []
    pairs = [('m', 's'), ('kg', 'm'), ('J', 'N'), ('m', 'm2'), ('s', 'Hz2'), ('m/s', 'm/s2'),
             ('rad', 'm'), ('mol', 'cd'), ('K', 'J'), ('m', None), ('Pa', 'N/m'), ('m', 'nonsense'),
             ('m', ''), ('kg*m', 's-1')]
    for (u, v) in pairs:
        for x in [1.0, 0.0, -7.5, np.array([1., 2.])]:
            q = Quantity(x, u)
            mag_before, bu_before = q.magnitude, q.baseunits
            try:
                r = q.to(v)
                out.append([u, v, 'OK', show(r)])
            except Exception as e:
                out.append([u, v, 'EXC', type(e).__name__, show(q), q.magnitude is mag_before, q.baseunits is bu_before])
    return out

@case('to() with Quantity / BaseUnits / dict / list targets')
def _():
    out = []
    tgts = [lambda: Quantity(2, 'km'), lambda: Quantity(0.5, 'cm'), lambda: Unit('au'), lambda: BaseUnits('mm'),
            lambda: Quantity(3, 's'), lambda: Quantity(np.array([1., 2.]), 'm'), lambda: Quantity(0, 'm'),
            lambda: {'m': 1}, lambda: {'k:m': 1}, lambda: 12, lambda: 3.5, lambda: [1, 2]]
    for t in tgts:
        for x in [1.0, 1500.0, np.array([10., 20.])]:
            q = Quantity(x, 'm')
            try:
                with np.errstate(all='ignore'):
                    r = q.to(t())
                out.append([show(x), 'OK', r is q, show(r)])
            except Exception as e:
                out.append([show(x), 'EXC', type(e).__name__, show(q)])
    return out

@case('value(expression, dtype)')
def _():
    out = []
    for (x, u, v, dt) in [(1.0, 'km', 'm', None), (1.0, 'km', 'm', int), (np.array([1., 2.]), 'h', 's', int),
                          (2.0, 's', 'Hz', None), (1.0, 'm', 's', None), (3, 'kg', None, float), (1.0, 'm', 'm', str)]:
        try:
            out.append([show(x), u, v, show(Quantity(x, u).value(v, dt))])
        except Exception as e:
            out.append([show(x), u, v, 'EXC', type(e).__name__])
    return out

@case('errors and Decimal magnitudes')
def _():
    out = []
    for (x, u, v, kw) in [(1.0, 'km', 'm', dict(abse=0.1)), (5.0, 'm', 'km', dict(rele=10)), (2.0, 's', 'Hz', dict(abse=0.2)),
                          (np.array([1., 2.]), 'kg', 'g', dict(abse=np.array([0.1, 0.2]))), (-4.0, 'J', 'erg', dict(abse=0.5)),
                          (3.0, None, 'rad', dict(abse=0.3)), (1.0, 'm', 's', dict(abse=0.1))]:
        q = None
        try:
            q = Quantity(x, u, **kw)
            out.append([u, v, show(q.to(v))])
        except Exception as e:
            out.append([u, v, 'EXC', type(e).__name__, show(q)])
    for (x, u, v) in [(Decimal('1.5'), 'km', 'm'), (Decimal('2'), 'm', 'km'), (Decimal('4'), 's', 'Hz'), (Decimal('1'), 'm', 's')]:
        try:
            out.append([str(x), u, v, show(Quantity(x, u).to(v))])
        except Exception as e:
            out.append([str(x), u, v, 'EXC', type(e).__name__])
    return out

@case('arithmetic / comparison / numpy paths using _convert')
def _():
    out = []
    exprs = [
        lambda: Quantity(1, 'km') + Quantity(5, 'm'),
        lambda: Quantity(1, 'km') - Quantity(5, 'cm'),
        lambda: Quantity(1, 'km') + Quantity(5, 's'),
        lambda: Quantity(1, 's') + Quantity(5, 'Hz'),
        lambda: Quantity(1, 'km') == Quantity(1000, 'm'),
        lambda: Quantity(1, 'km') == Quantity(1000, 's'),
        lambda: Quantity(1, 'km') < Quantity(1001, 'm'),
        lambda: np.sin(Quantity(90, 'deg')),
        lambda: np.cos(Quantity(0.5)),
        lambda: np.tan(Quantity(1, 'm')),
        lambda: np.arcsin(Quantity(0.5)),
        lambda: np.arccos(Quantity(0.5, 'm')),
        lambda: np.linspace(Quantity(1, 'km'), Quantity(2000, 'm'), 3),
        lambda: np.linspace(Quantity(1, 'km'), Quantity(2, 's'), 3),
        lambda: Quantity(1, 'km*m').rebase(),
        lambda: Quantity(1, 'kg*m2/s2').to('J').to('erg').to('kg*m2/s2'),
    ]
    for i, f in enumerate(exprs):
        try:
            out.append([i, show(f())])
        except Exception as e:
            out.append([i, 'EXC', type(e).__name__])
    return out

@case('non-linear neighbours (temperature, logarithmic) unchanged')
def _():
    out = []
    for (x, u, v) in [(20., 'Cel', 'K'), (300., 'K', 'degF'), (1., 'Cel', 'm'), (1., 'Cel/s', 'K/s'), (1., 'K', 'mK'),
                      (10., 'dBm', 'W'), (1., 'W', 'dBm'), (3., 'B', 'Np'), (1., 'dB', 'm'), (1., 'PR', 'dB')]:
        try:
            out.append([x, u, v, show(conv(x, u, v))])
        except Exception as e:
            out.append([x, u, v, 'EXC', type(e).__name__])
    return out

@case('all table units with prefixes: self round trip through SI-ish base')
def _():
    from scinumtools.units.unit_environment import UnitEnvironment
    from scinumtools.units import settings
    out = []
    tbl = settings.UNIT_STANDARD
    prefixes = list(settings.UNIT_PREFIXES.keys())
    for sym in list(tbl.keys()):
        unit = tbl[sym]
        if not (unit.definition is None or isinstance(unit.definition, str)):
            continue   # logarithmic / temperature types are outside the property
        pfx = unit.prefixes
        names = [sym]
        if pfx is True:
            names += [p + sym for p in prefixes]
        elif isinstance(pfx, (list, tuple)):
            names += [p + sym for p in pfx]
        for n in names:
            for x in (1.0, -2.5e10):
                try:
                    q = Quantity(x, n)
                    dims = q.baseunits.dimensions
                    r = Quantity(x, n).to(dims)
                    back = Quantity(r.magnitude.value, r.baseunits).to(n)
                    out.append([n, x, show(r), show(back)])
                except Exception as e:
                    out.append([n, x, 'EXC', type(e).__name__])
    return out

res = {}
for name, fn in cases:
    try:
        res[name] = fn()
    except Exception as e:
        res[name] = ['CASE-EXC', type(e).__name__]
print(json.dumps(res, sort_keys=True))
'''


def run(root):
    p = subprocess.run([sys.executable, '-W', 'ignore', '-c', WORKER, root],
                       capture_output=True, text=True, cwd='/')
    if p.returncode != 0:
        print('worker failed for', root, file=sys.stderr)
        print(p.stderr, file=sys.stderr)
        sys.exit(2)
    return json.loads(p.stdout)


def main():
    base, new = sys.argv[1], sys.argv[2]
    a, b = run(base), run(new)
    bad = 0
    total = 0
    for name in sorted(set(a) | set(b)):
        ra, rb = a.get(name), b.get(name)
        n = len(ra) if isinstance(ra, list) else 1
        total += n
        if ra != rb:
            bad += 1
            print('DIFFERENCE in case:', name)
            if isinstance(ra, list) and isinstance(rb, list):
                for x, y in zip(ra, rb):
                    if x != y:
                        print('  base:', x)
                        print('  new :', y)
                        break
    print('cases: %d, observations: %d, differing cases: %d' % (len(a), total, bad))
    sys.exit(1 if bad else 0)


if __name__ == '__main__':
    main()
