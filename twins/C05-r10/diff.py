#!/venv/bin/python
"""Differential check for property C05 (temperature / logarithmic conversions).

usage: diff.py <unmodified tree root> <refactored tree root>

The same probe program is run in a fresh subprocess against each tree (each
with its own sys.path); the two JSON transcripts (values via repr, unit
expressions, error parts, raised exception types) must be identical.
Exit status 0 iff identical.
"""
import json
import subprocess
import sys

PROBE = r'''
import sys, json, warnings
root = sys.argv[1]
sys.path.insert(0, root + "/src")
warnings.simplefilter("ignore")
import numpy as np
from decimal import Decimal
from scinumtools.units import Quantity, Unit
import scinumtools
assert scinumtools.__file__.startswith(root), scinumtools.__file__

out = []

def show(q):
    m = q.magnitude
    val = getattr(m, "value", m)
    err = getattr(m, "error", None)
    if isinstance(val, np.ndarray):
        val = [repr(float(v)) for v in val.ravel()]
    else:
        val = repr(val)
    if isinstance(err, np.ndarray):
        err = [repr(float(v)) for v in err.ravel()]
    elif err is not None:
        err = repr(err)
    return {"value": val, "error": err, "units": q.units(), "str": str(q)}

def run(label, fn):
    try:
        res = fn()
        if hasattr(res, "baseunits"):
            res = show(res)
        elif isinstance(res, np.ndarray):
            res = [repr(float(v)) for v in res.ravel()]
        else:
            res = repr(res)
        out.append([label, "ok", res])
    except BaseException as e:
        out.append([label, "raise", type(e).__name__])

temps = ["K", "Cel", "degF", "degR", "kK", "mK"]
tvals = [0, 23, -40, 273.15, 1e4, 0.001]
for a in temps:
    for b in temps:
        for v in tvals:
            run(f"T {v} {a}->{b}", lambda: Quantity(v, a).to(b))
            run(f"T-rt {v} {a}->{b}->{a}", lambda: Quantity(v, a).to(b).to(a))
            run(f"T-val {v} {a}->{b}", lambda: Quantity(v, a).value(b))

# arrays, errors, Decimal and compound (inadmissible) temperature expressions
run("T arr", lambda: Quantity(np.array([0., 10., 100.]), "Cel").to("degF"))
run("T arr2", lambda: Quantity(np.array([[1., 2.], [3., 4.]]), "degR").to("Cel"))
run("T err", lambda: Quantity(23, "Cel", abse=0.5).to("K"))
run("T err lin", lambda: Quantity(23, "K", abse=0.5).to("mK"))
run("T dec", lambda: Quantity(Decimal("23"), "Cel").to("K"))
run("T dec2", lambda: Quantity(Decimal("23"), "K").to("kK"))
run("T compound", lambda: Quantity(1, "Cel/s").to("K/s"))
run("T compound2", lambda: Quantity(1, "K*m").to("degF*m"))
run("T wrongdim", lambda: Quantity(1, "Cel").to("m"))
run("T kCel", lambda: Quantity(1, "kCel"))
run("T add", lambda: Quantity(1, "Cel") + Quantity(1, "K"))
run("T sub", lambda: Quantity(300, "K") - Quantity(1, "degF"))
run("T addKK", lambda: Quantity(300, "K") + Quantity(1, "kK"))

logpairs = [
    ("PR", "Np"), ("PR", "B"), ("PR", "dB"), ("AR", "Np"), ("AR", "B"), ("AR", "dB"),
    ("B", "Np"), ("dB", "cNp"), ("dB", "dNp"), ("B", "dB"),
    ("W", "dBm"), ("mW", "dBm"), ("W", "dBmW"), ("uW", "dBmW"), ("W", "dBW"), ("kW", "dBW"),
    ("W/m2", "dBSIL"), ("W", "dBSWL"),
    ("V", "dBV"), ("mV", "dBV"), ("V", "dBuV"), ("uV", "dBuV"),
    ("A", "dBA"), ("A", "dBuA"), ("uA", "dBuA"),
    ("Ohm", "dBOhm"), ("Pa", "dBSPL"),
    ("dBW", "dBm"), ("dBW", "dBmW"), ("dBm", "dBmW"), ("dBV", "dBuV"),
    ("dBm", "dBV"), ("Np", "dBm"), ("dB", "dBm"), ("dBA", "dBuA"), ("dBSIL", "dBSWL"),
    ("W/Hz", "dBmW/Hz"), ("dBm", "m"), ("J", "dBm"),
]
lvals = [1, 0.115, 3.16228, 30, 1000, -3, 0]
for a, b in logpairs:
    for v in lvals:
        run(f"L {v} {a}->{b}", lambda: Quantity(v, a).to(b))
        run(f"L {v} {b}->{a}", lambda: Quantity(v, b).to(a))
        run(f"L-rt {v} {a}->{b}->{a}", lambda: Quantity(v, a).to(b).to(a))
        run(f"L-rt {v} {b}->{a}->{b}", lambda: Quantity(v, b).to(a).to(b))
for u in ["Np", "cNp", "B", "dB", "dBm", "dBmW", "dBW", "dBV", "dBuV", "dBA", "dBuA",
          "dBOhm", "dBSPL", "dBSIL", "dBSWL"]:
    for v in lvals:
        run(f"L-id {v} {u}", lambda: Quantity(v, u).to(u))
run("L arr", lambda: Quantity(np.array([1., 10., 100.]), "W").to("dBm"))
run("L arr2", lambda: Quantity(np.array([0., 10., 20.]), "dBV").to("V"))
run("L err", lambda: Quantity(10, "W", abse=0.1).to("dBm"))
run("L dec", lambda: Quantity(Decimal("10"), "dB").to("B"))
run("L triple", lambda: Quantity(1, "dBm*m/s").to("W*m/s"))
run("L frac", lambda: Quantity(10, "dBmW/Hz").to("W/Hz"))

# level arithmetic (power sum / difference)
levels = ["dB", "B", "dBm", "dBmW", "dBW", "dBV", "dBuV", "dBA", "dBSPL", "Np", "cNp"]
pairs = [(1, 2), (2, 1), (10, 10), (0, 0), (30, 3), (-5, 7), (3, 3)]
for u in levels:
    for x, y in pairs:
        run(f"A + {x} {y} {u}", lambda: Quantity(x, u) + Quantity(y, u))
        run(f"A - {x} {y} {u}", lambda: Quantity(x, u) - Quantity(y, u))
run("A + dB B", lambda: Quantity(1, "dB") + Quantity(1, "B"))
run("A - dB B", lambda: Quantity(1, "dB") - Quantity(1, "B"))
run("A + B dB", lambda: Quantity(1, "B") + Quantity(5, "dB"))
run("A + dBm dBW", lambda: Quantity(1, "dBm") + Quantity(1, "dBW"))
run("A - dBm dBW", lambda: Quantity(1, "dBm") - Quantity(1, "dBW"))
run("A + dBm dBV", lambda: Quantity(1, "dBm") + Quantity(1, "dBV"))
run("A - dBm dBV", lambda: Quantity(1, "dBm") - Quantity(1, "dBV"))
run("A + dBm W", lambda: Quantity(1, "dBm") + Quantity(1, "W"))
run("A - W dBm", lambda: Quantity(1, "W") - Quantity(1, "dBm"))
run("A + dB num", lambda: Quantity(1, "dB") + 2)
run("A r+ dB num", lambda: 2 + Quantity(1, "dB"))
run("A r- dB num", lambda: 2 - Quantity(1, "dB"))
run("A + err", lambda: Quantity(1, "dB", abse=0.1) + Quantity(2, "dB", abse=0.2))
run("A - err", lambda: Quantity(3, "dB", abse=0.1) - Quantity(2, "dB", abse=0.2))
run("A + arr", lambda: Quantity(np.array([1., 2., 3.]), "dB") + Quantity(2, "dB"))
run("A - arr", lambda: Quantity(np.array([5., 6., 7.]), "dBm") - Quantity(2, "dBm"))

# class-level observables
from scinumtools.units.unit_types import TemperatureUnitType, LogarithmicUnitType, StandardUnitType, UnitType
run("C proc T", lambda: TemperatureUnitType.process)
run("C proc L", lambda: LogarithmicUnitType.process)
run("C conv L", lambda: sorted(LogarithmicUnitType.conversions.items()))
from scinumtools.units.base_units import BaseUnits
def conv(cls, a, b):
    c = cls(BaseUnits(a), BaseUnits(b))
    return None if c is None else c.conversion
for cls in (StandardUnitType, TemperatureUnitType, LogarithmicUnitType):
    for a, b in [("K", "Cel"), ("m", "km"), ("Hz", "s"), ("dBm", "W"), ("B", "Np"), ("dBm", "dBV"),
                 ("K", "degR"), ("Cel", "Cel"), ("K*s", "Cel"), ("dBm*m*s", "W"), (None, "rad")]:
        run(f"C {cls.__name__} {a} {b}", lambda: conv(cls, a, b))

print(json.dumps(out))
'''


def transcript(root):
    p = subprocess.run([sys.executable, "-c", PROBE, root], capture_output=True, text=True, cwd="/")
    if p.returncode != 0:
        sys.stderr.write(p.stderr)
        raise SystemExit(2)
    return json.loads(p.stdout.strip().splitlines()[-1])


def main():
    base, new = sys.argv[1].rstrip("/"), sys.argv[2].rstrip("/")
    a, b = transcript(base), transcript(new)
    bad = 0
    if len(a) != len(b):
        print("different number of probes", len(a), len(b))
        bad += 1
    for x, y in zip(a, b):
        if x != y:
            bad += 1
            print("DIFF", x, "!=", y)
    nraise = sum(1 for x in a if x[1] == "raise")
    print(f"{len(a)} probes ({nraise} raising), {bad} differences")
    sys.exit(1 if bad else 0)


if __name__ == "__main__":
    main()
