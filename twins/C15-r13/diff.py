#!/venv/bin/python
"""Differential check for property C15 (nested @case/@else/@end selection).

usage: diff.py <unmodified tree root> <refactored tree root>
Runs the same inputs against both trees (each in its own subprocess with its
own sys.path) and exits 0 iff every observable output is identical.
"""
import sys, os, json, subprocess

RUNNER = r'''
import sys, json, itertools, warnings
warnings.filterwarnings("ignore")
root = sys.argv[1]
sys.path.insert(0, root + "/src")
import numpy as np
from scinumtools.dip import DIP
from scinumtools.dip.settings import Format
from scinumtools.dip.datatypes import Type

def show(v):
    if isinstance(v, Type):
        val = v.value
        if isinstance(val, np.ndarray):
            val = val.tolist()
        return [type(v).__name__, repr(val), repr(getattr(v, "unit", None))]
    return ["raw", repr(v), None]

def branching(env):
    b = env.branching
    return dict(
        state=list(b.state),
        num_cases=b.num_cases,
        num_branches=b.num_branches,
        branches={k: [list(v.cases), list(v.types), dict(v.nodes)] for k, v in b.branches.items()},
        cases={k: [c.path, repr(c.value), c.code, repr(c.expr), c.branch_id, c.branch_part,
                   c.case_id, c.case_type, c.indent] for k, c in b.cases.items()},
    )

def run(code, docs=False):
    try:
        with DIP() as p:
            p.add_string(code)
            if docs:
                d = p.parse_docs()
                env = d.target if hasattr(d, "target") else getattr(d, "env", None)
                out = dict(kind="docs")
                if env is not None:
                    out["nodes"] = [[n.name, n.keyword, repr(n.branch_id), repr(n.case_id),
                                     repr(getattr(n, "docs_type", None))] for n in env.nodes]
                    out["branching"] = branching(env)
                return out
            env = p.parse()
            data = env.data(Format.TYPE, verbose=False)
            return dict(
                kind="ok",
                data={k: show(v) for k, v in data.items()},
                order=list(data.keys()),
                nodes=[[n.name, n.keyword, bool(n.constant), repr(n.branch_id), repr(n.case_id)]
                       for n in env.nodes],
                branching=branching(env),
            )
    except BaseException as e:
        return dict(kind="exc", type=type(e).__name__, args=[repr(a) for a in e.args])

def tf(b):
    return "true" if b else "false"

INPUTS = []
def add(name, code, docs=False):
    INPUTS.append((name, code, docs))

# --- hand written inputs -----------------------------------------------------
add("misplaced_end", "\n@end\n")
add("misplaced_else", "\n@else\n  car str = 'BMW'\n")
add("nested_misplaced_end", "\n@case true\n  @end\n")
add("else_after_end", "\n@case true\n  a int = 1\n@end\n@else\n  a int = 2\n")
add("end_after_end", "\n@case false\n  a int = 1\n@end\n@end\n")
add("deeper_else_without_case", "\n@case true\n  a int = 1\n  @else\n    b int = 2\n")
add("compact_else_wrong_parent", "\nplant.@case false\n  f str = 'g'\nanimal.@else\n  f str = 'r'\n")
add("case_without_value", "\n@case\n  a int = 1\n")
add("case_bad_expression", "\n@case maybe\n  a int = 1\n@end\n")
add("nested", """
@case false
  flower str = 'rose'
@else
  flower str = 'dandelion'
  @case false
    color str = 'red'
  @case false
    color str = 'blue'
  @else
    @case true
      leaves int = 234
    color str = 'yellow'
tree str = 'maple'
""")
add("modifications", """
star str = 'Sun'

@case false
  star = 'Sirius'
  nebula str = 'Orion'
@else
  star = 'Wega'
  nebula str = 'Crab'

nebula = 'Eagle'
""")
add("indent_end", """
climate
  @case true
    warming bool = true
      increase float = 2 Cel

  temperature float = 10.2 Cel
""")
add("compact_names", """
plant.@case false
    flower str = 'green'
plant.@case false
    flower str = 'yellow'
plant.@case true
    flower str = 'red'
plant.@else
    flower str = 'blue'
plant.@end
plant.stem float = 3 cm
""")
add("expression", """
trafic
  limit float = 75 km/s
  urban bool = true
  @case ("{?trafic.limit} <= 50 km/s || {?trafic.urban}")
    road str = 'town'
  @case ("( {?trafic.limit} <= 100 km/s && {?trafic.limit} > 50 km/s )  && !{?trafic.urban}")
    road str = 'country'
  @else
    road str = 'motorway'
  @end
  cars int = 12  # outside of case
""")
add("properties", """
gravity bool = false

@case ("{?gravity}")
  stars int = 30
    !constant
@end

radiation bool = true
  !constant

@case ("!{?gravity}")
  width float = 3 cm
    !options [1,2,3] cm
    !condition ("{?} > 2 cm")
@else
  width float = 9 cm
    !constant
""")
add("constant_in_selected", """
@case true
  stars int = 30
    !constant
@end
stars = 31
""")
add("constant_in_unselected", """
stars int = 1
@case false
  stars = 30
    !constant
@end
stars = 31
""")
add("end_closes_inner_by_outer", """
@case true
  a int = 1
  @case true
    b int = 2
@end
c int = 3
""")
add("sibling_blocks", """
@case true
  a int = 1
@end
@case false
  b int = 2
@else
  b int = 3
@end
@case false
  c int = 4
@end
d int = 5
""")
add("nested_in_group", """
box
  @case false
    size float = 1 m
  @else
    size float = 2 m
    lid
      @case true
        colour str = 'red'
      @else
        colour str = 'blue'
    weight float = 3 kg
  volume float = 4 l
outside bool = true
""")
add("docs_nested", """
@case true
  flower str = 'rose'
@else
  flower str = 'dandelion'
  @case false
    color str = 'red'
  @else
    color str = 'yellow'
tree str = 'maple'
tree = 'oak'
""", docs=True)
add("docs_noelse", """
a int = 1
@case false
  a = 2
  b int = 3
@end
b int = 4
""", docs=True)

# --- generated sweep: 3-deep nesting, all truth assignments, both closings ----
def block(depth, vals, explicit, ind=0, tag=""):
    pad = " " * ind
    v1, v2 = vals[0]
    lines = [f"{pad}pre{tag} int = {depth}"]
    lines.append(f"{pad}@case {tf(v1)}")
    lines.append(f"{pad}  x{tag} int = 1")
    if len(vals) > 1:
        lines += block(depth + 1, vals[1:], explicit, ind + 2, tag + "a")
    lines.append(f"{pad}  y{tag} int = 1")
    lines.append(f"{pad}@case {tf(v2)}")
    lines.append(f"{pad}  x{tag} int = 2")
    if len(vals) > 1:
        lines += block(depth + 1, vals[1:], explicit, ind + 2, tag + "b")
    lines.append(f"{pad}@else")
    lines.append(f"{pad}  x{tag} int = 3")
    lines.append(f"{pad}  z{tag} int = 3")
    if explicit:
        lines.append(f"{pad}@end")
    lines.append(f"{pad}post{tag} int = {depth}")
    return lines

pairs = list(itertools.product([True, False], repeat=2))
for explicit in (True, False):
    for combo in itertools.product(pairs, repeat=2):
        code = "\n".join(block(0, list(combo), explicit)) + "\n"
        add(f"sweep2_{explicit}_{combo}", code)
    for combo in list(itertools.product(pairs, repeat=3))[::3]:
        code = "\n".join(block(0, list(combo), explicit)) + "\n"
        add(f"sweep3_{explicit}_{combo}", code)

out = {}
for name, code, docs in INPUTS:
    out[name] = run(code, docs)
print("@@RESULT@@" + json.dumps(out, sort_keys=True))
'''

def run_tree(root):
    env = dict(os.environ)
    env.pop("PYTHONPATH", None)
    env["PYTHONDONTWRITEBYTECODE"] = "1"
    p = subprocess.run([sys.executable, "-c", RUNNER, os.path.abspath(root)],
                       capture_output=True, text=True, env=env, cwd="/tmp")
    if p.returncode != 0:
        print(p.stdout[-2000:]); print(p.stderr[-4000:])
        raise SystemExit(2)
    line = [l for l in p.stdout.splitlines() if l.startswith("@@RESULT@@")][-1]
    return json.loads(line[len("@@RESULT@@"):])

def main():
    a = run_tree(sys.argv[1])
    b = run_tree(sys.argv[2])
    bad = 0
    if set(a) != set(b):
        print("different input sets"); bad += 1
    for k in sorted(a):
        if a[k] != b.get(k):
            bad += 1
            print("DIFF", k)
            print("  base:", json.dumps(a[k])[:600])
            print("  new :", json.dumps(b.get(k))[:600])
    kinds = {}
    for v in a.values():
        kinds[v["kind"]] = kinds.get(v["kind"], 0) + 1
    print(f"{len(a)} inputs compared ({kinds}), {bad} differences")
    sys.exit(1 if bad else 0)

if __name__ == "__main__":
    main()
