#!/venv/bin/python
"""Differential check for property C01 (expression solver step table).

usage: diff.py <unmodified tree root> <refactored tree root>
Runs the same inputs against both trees (each in its own subprocess with its
own sys.path) and exits 0 iff every observable output is identical.
"""
import json
import subprocess
import sys

CHILD = r'''
import sys, json, warnings
warnings.simplefilter("ignore")
sys.path.insert(0, sys.argv[1] + "/src")
import numpy as np
from scinumtools.solver import ExpressionSolver, AtomBase
from scinumtools.solver.operators import (Otype, OperatorAdd, OperatorSub, OperatorMul,
    OperatorPar, OperatorPow, OperatorNot, OperatorNe, OperatorEq)
from scinumtools.units import Quantity

EXPRS = [
    # well formed
    "1", "  42.5 ", "1+2", "1 + 2", "3-4-5", "2*3/4*5", "2**3**2", "2 ** 3 ** 2",
    "-2**2", "- 2 ** 2", "+3", "--3", "-+3", "+-3", "---3", "2--3", "2-+3", "2+-3", "2*-3", "2/-4",
    "2**-1", "(1+2)*3", "((1+2))*((3))", "( 1 + 2 ) * 3", "1+2*3**2-4/2",
    "exp(0)", "exp( 1 )", "log(exp(2))", "log10(1000)", "sqrt(16)", "sin(0)", "cos(0)", "tan(0.5)",
    "logb(8,2)", "logb( 8 , 2 )", "pow(2,10)", "pow( 2 , 3 )**2", "pow(1+1,sqrt(9))",
    "-sqrt(4)", "-(1+2)", "+(1+2)", "2*-(3+1)", "sin(1)**2+cos(1)**2",
    "1<2", "2<1", "1<=1", "1>=2", "3>2", "1==1", "1!=1", "1 == 1", "1 != 2",
    "1+1==2", "2*3>5&&1<2", "1>2||3>2", "1>2 || 3<2", "!1", "!0", "!!1", "! ! 0", "!(1>2)",
    "!1==1", "!1>2&&1", "0&&1||1", "1||0&&0", "1&&0||0&&1||1",
    "1<2==1", "1+2<2+2&&!0||0", "-1<-2", "2**2*3+4<=16&&1!=2||!1",
    "exp(log(3))*logb(pow(2,3),2)-sqrt((1+3)*4)", "((((1))))", "(1+(2*(3-(4/(5+1)))))",
    "1e3+1", "1.5e-3*2", "  1  +  2  *  3  ",
    # ill formed
    "(1+2", "((1+2)", "1+2)", "exp(1", "sqrt((4)", "logb(8)", "pow(2)", "pow(1,2,3)", "sqrt(1,2)",
    "exp()", "()", "1+", "*2", "1*", "1**", "/3", "1 2", "1==", "&&1", "1||", "1&&", "!",
    "1+*2", "1//2", "", "   ", "abc", "1+a", "(", ")", ",", "logb(,2)", "1<", ">1", "1 < = 2",
]

def show(v):
    if isinstance(v, AtomBase):
        x = v.value
        return ["Atom", type(x).__name__, repr(x)]
    return [type(v).__name__, repr(v)]

def run(fn):
    try:
        return ["ok"] + show(fn())
    except BaseException as e:
        return ["exc", type(e).__name__]

out = {}
for e in EXPRS:
    def f(e=e):
        with ExpressionSolver(AtomBase) as es:
            return es.solve(e)
    out["solve:" + e] = run(f)

# one solver instance reused for many expressions (state reset between solves)
def reuse():
    res = []
    with ExpressionSolver(AtomBase) as es:
        for e in ["1+2", "(3", "2*3", "1+", "!0", "pow(2,3)"]:
            try:
                res.append(repr(es.solve(e).value))
            except Exception as x:
                res.append(type(x).__name__)
    return res
out["reuse"] = run(reuse)

# custom operator tables / steps
def custom1():
    ops = {'par': OperatorPar, 'add': OperatorAdd, 'mul': OperatorMul}
    steps = [dict(operators=['par'], otype=Otype.ARGS),
             dict(operators=['mul'], otype=Otype.BINARY),
             dict(operators=['add'], otype=Otype.BINARY)]
    with ExpressionSolver(AtomBase, ops, steps) as es:
        return es.solve("2*(3+4)+5")
out["custom1"] = run(custom1)

def custom2():
    ops = {'add': OperatorAdd, 'sub': OperatorSub, 'mul': OperatorMul}
    steps = [dict(operators=['add', 'sub', 'missing'], otype=Otype.UNARY),
             dict(operators=['nothing'], otype=Otype.BINARY),
             dict(operators=['mul'], otype=Otype.TERNARY),
             dict(operators=['add', 'sub'], otype=Otype.BINARY)]
    with ExpressionSolver(AtomBase, ops, steps) as es:
        return es.solve("-2+3--4")
out["custom2"] = run(custom2)

def custom3():
    ops = {'add': OperatorAdd, 'mul': OperatorMul}
    steps = [dict(operators=['mul'], otype=Otype.TERNARY),
             dict(operators=['add'], otype=Otype.BINARY)]
    with ExpressionSolver(AtomBase, ops, steps) as es:
        return es.solve("2*3+4")
out["custom3"] = run(custom3)

# other users of the solver: quantities with unit expressions
for e in ["1*m", "m*s-1", "kg*m2/s2", "(m/s)2"]:
    out["quantity:" + e] = run(lambda e=e: str(Quantity(2, e)))

print(json.dumps(out, sort_keys=True))
'''


def run(root):
    p = subprocess.run([sys.executable, "-c", CHILD, root], capture_output=True, text=True)
    if p.returncode != 0:
        print("child failed for", root, p.stderr, file=sys.stderr)
        sys.exit(2)
    return json.loads(p.stdout.strip().splitlines()[-1])


def main():
    a = run(sys.argv[1])
    b = run(sys.argv[2])
    bad = 0
    for k in sorted(set(a) | set(b)):
        if a.get(k) != b.get(k):
            bad += 1
            print("DIFF", repr(k), a.get(k), b.get(k))
    print(f"{len(a)} inputs compared, {bad} differences")
    sys.exit(1 if bad else 0)


if __name__ == "__main__":
    main()
