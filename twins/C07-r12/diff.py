#!/venv/bin/python
"""Differential check for property C07 (operations never alter their operands).

usage: diff.py <unmodified tree root> <refactored tree root>
Runs the same probe in a subprocess against each tree (each with its own
sys.path) and exits 0 iff every observable output is identical.
"""
import json
import subprocess
import sys

PROBE = r'''
import sys, json, operator, warnings
warnings.simplefilter("ignore")
sys.path.insert(0, sys.argv[1] + "/src")
import numpy as np
from decimal import Decimal
from scinumtools.units import Quantity, Unit
from scinumtools.units.magnitude import Magnitude

def norm(v):
    if isinstance(v, np.ndarray):
        return ["array", [norm(x) for x in v.tolist()]]
    if isinstance(v, (list, tuple)):
        return [norm(x) for x in v]
    if isinstance(v, Decimal):
        return ["Decimal", str(v)]
    if isinstance(v, (bool, np.bool_)):
        return bool(v)
    if isinstance(v, (float, np.floating)):
        return ["float", repr(float(v))]
    if isinstance(v, (int, np.integer)):
        return ["int", int(v)]
    if v is None:
        return None
    return [type(v).__name__, str(v)]

def snap(q):
    if isinstance(q, Quantity):
        return {"value": attempt(lambda: norm(q.value())), "units": attempt(q.units),
                "abse": attempt(lambda: norm(q.abse())), "str": attempt(lambda: str(q)),
                "bu": attempt(lambda: sorted((k, str(e)) for k, e in q.baseunits.baseunits.items()))}
    return {"plain": norm(q)}

def attempt(fn):
    try:
        return {"ok": fn()}
    except BaseException as e:
        return {"exc": type(e).__name__}

MAKERS = {
    "m_m":        lambda: (Quantity(2.0, "m"), Quantity(3.0, "m")),
    "m_cm":       lambda: (Quantity(2.0, "m"), Quantity(35.0, "cm")),
    "km_m_err":   lambda: (Quantity(2.0, "km", abse=0.1), Quantity(300.0, "m", abse=5)),
    "kg_g_rele":  lambda: (Quantity(4.0, "kg", rele=10), Quantity(250.0, "g")),
    "m_s":        lambda: (Quantity(6.0, "m"), Quantity(2.0, "s")),
    "arr_arr":    lambda: (Quantity([1.0, 2.0, 3.0], "m"), Quantity([10.0, 20.0, 30.0], "cm")),
    "arr_err":    lambda: (Quantity(np.array([1.0, 2.0, 4.0]), "km", abse=0.5), Quantity(50.0, "m", abse=2)),
    "dec_dec":    lambda: (Quantity(Decimal("1.5"), "m"), Quantity(Decimal("25"), "cm")),
    "dec_float":  lambda: (Quantity(Decimal("2.25"), "kg"), Quantity(500.0, "g")),
    "dB_dB":      lambda: (Quantity(10.0, "dB"), Quantity(13.0, "dB")),
    "dBm_dBm":    lambda: (Quantity(20.0, "dBm"), Quantity(17.0, "dBm")),
    "dBm_dBW":    lambda: (Quantity(20.0, "dBm"), Quantity(1.0, "dBW")),
    "dBm_W":      lambda: (Quantity(30.0, "dBm"), Quantity(2.0, "W")),
    "Np_Np":      lambda: (Quantity(1.0, "Np"), Quantity(2.0, "Np")),
    "K_Cel":      lambda: (Quantity(300.0, "K"), Quantity(20.0, "Cel")),
    "Cel_degF":   lambda: (Quantity(20.0, "Cel"), Quantity(70.0, "degF")),
    "nodim_num":  lambda: (Quantity(4.0), 2.5),
    "num_m":      lambda: (3.0, Quantity(4.0, "m")),
    "m_num":      lambda: (Quantity(4.0, "m"), 2),
    "rad_deg":    lambda: (Quantity(1.0, "rad"), Quantity(45.0, "deg")),
    "Hz_s":       lambda: (Quantity(4.0, "Hz"), Quantity(0.5, "s")),
    "unit_unit":  lambda: (Quantity(2.0, "m") * Unit("s"), Quantity(5.0, "cm*s")),
}

OPS = {
    "add": operator.add, "sub": operator.sub, "mul": operator.mul,
    "truediv": operator.truediv, "eq": operator.eq,
    "radd": lambda a, b: b + a, "rsub": lambda a, b: b - a,
}

CONV = {"m": "cm", "cm": "m", "km": "m", "kg": "g", "g": "kg", "dB": "Np", "Np": "dB",
        "dBm": "dBW", "dBW": "dBm", "K": "Cel", "Cel": "K", "degF": "Cel", "rad": "deg",
        "deg": "rad", "Hz": "kHz", "s": "ms", "W": "mW"}

def inplace(q, log, tag):
    """a sequence of in-place conversions; records what happens"""
    if not isinstance(q, Quantity):
        return
    u = q.units()
    log[tag + ".to"] = attempt(lambda: snap(q.to(CONV[u]))) if u in CONV else "n/a"
    log[tag + ".rebase"] = attempt(lambda: snap(q.rebase()))
    log[tag + ".abse"] = attempt(lambda: snap(q.abse(0.25)))

out = {}
for mname, make in MAKERS.items():
    for oname, op in OPS.items():
        key = mname + ":" + oname
        a, b = make()
        rec = {"before": [snap(a), snap(b)]}
        res = attempt(lambda: op(a, b))
        rec["after"] = [snap(a), snap(b)]
        if "ok" in res:
            r = res["ok"]
            rec["result"] = snap(r)
            if isinstance(r, Quantity):
                rec["shares_mag"] = [isinstance(x, Quantity) and r.magnitude is x.magnitude for x in (a, b)]
            # converting the result must not change operands
            inplace(r, rec, "res")
            rec["after_res_conv"] = [snap(a), snap(b)]
            # converting the operands must not change the result
            inplace(a, rec, "a")
            inplace(b, rec, "b")
            rec["res_after_operand_conv"] = snap(r)
        else:
            rec["result"] = res
        out[key] = rec

# value-in-other-unit queries
for mname, make in MAKERS.items():
    a, b = make()
    for tag, q in (("a", a), ("b", b)):
        if not isinstance(q, Quantity):
            continue
        u = q.units()
        rec = {"before": snap(q)}
        rec["value"] = attempt(lambda: norm(q.value(CONV.get(u, "m"))))
        rec["value_dtype"] = attempt(lambda: norm(q.value(CONV.get(u, "m"), dtype=float)))
        rec["value_plain_int"] = attempt(lambda: norm(q.value(dtype=int)))
        rec["after"] = snap(q)
        out["value:" + mname + ":" + tag] = rec

# to() with a Quantity target, and failing conversions leave the object alone
for name, mk, tgt in [
    ("to_quantity", lambda: Quantity(3.0, "km"), lambda: Quantity(2.0, "m")),
    ("to_bad", lambda: Quantity(3.0, "km", abse=0.1), lambda: "s"),
    ("to_bad_q", lambda: Quantity(3.0, "km"), lambda: Quantity(2.0, "kg")),
    ("to_temp", lambda: Quantity(23.0, "Cel"), lambda: "degF"),
    ("to_log", lambda: Quantity(23.0, "dBm"), lambda: "W"),
    ("to_log_bad", lambda: Quantity(23.0, "dBm"), lambda: "m"),
    ("to_inv", lambda: Quantity(4.0, "Hz"), lambda: "s"),
    ("to_arr", lambda: Quantity([1.0, 2.0], "km", abse=0.1), lambda: "m"),
    ("to_dec", lambda: Quantity(Decimal("1.25"), "km"), lambda: "m"),
]:
    q, t = mk(), tgt()
    rec = {"before": snap(q), "tbefore": snap(t) if isinstance(t, Quantity) else t}
    rec["to"] = attempt(lambda: snap(q.to(t)))
    rec["after"] = snap(q)
    rec["tafter"] = snap(t) if isinstance(t, Quantity) else t
    rec["value_bad"] = attempt(lambda: norm(q.value("mol")))
    rec["after2"] = snap(q)
    out["to:" + name] = rec

# unary operators, powers, indexing
for name, mk in [
    ("m", lambda: Quantity(4.0, "m", abse=0.2)),
    ("arr", lambda: Quantity([1.0, 4.0, 9.0], "m2")),
    ("dec", lambda: Quantity(Decimal("4"), "m")),
    ("dB", lambda: Quantity(4.0, "dB")),
]:
    for oname, op in [("neg", operator.neg), ("pow2", lambda q: q ** 2), ("pow_t", lambda q: q ** (1, 2)),
                      ("idx", lambda q: q[1]), ("eq_num", lambda q: q == 4), ("eq_str", lambda q: q == "x")]:
        q = mk()
        rec = {"before": snap(q)}
        res = attempt(lambda: op(q))
        rec["after"] = snap(q)
        if "ok" in res:
            r = res["ok"]
            rec["result"] = snap(r)
            inplace(r, rec, "res")
            rec["after_res_conv"] = snap(q)
            inplace(q, rec, "q")
            rec["res_after"] = snap(r)
        else:
            rec["result"] = res
        out["unary:" + name + ":" + oname] = rec

# NumPy ufuncs and functions
NP = {
    "sqrt": lambda q: np.sqrt(q), "cbrt": lambda q: np.cbrt(q), "power": lambda q: np.power(q, 3),
    "sin": lambda q: np.sin(q), "cos": lambda q: np.cos(q), "tan": lambda q: np.tan(q),
    "arcsin": lambda q: np.arcsin(q), "arccos": lambda q: np.arccos(q), "arctan": lambda q: np.arctan(q),
    "isnan": lambda q: np.isnan(q), "exp": lambda q: np.exp(q), "log": lambda q: np.log(q),
    "negative": lambda q: np.negative(q), "square": lambda q: np.square(q),
    "absolute": lambda q: np.absolute(q), "abs": lambda q: np.abs(q), "round": lambda q: np.round(q),
    "floor": lambda q: np.floor(q), "ceil": lambda q: np.ceil(q), "sum": lambda q: np.sum(q),
    "iscomplexobj": lambda q: np.iscomplexobj(q), "mean": lambda q: np.mean(q),
    "linspace": lambda q: np.linspace(q, Quantity(2000.0, "mm"), 4),
    "linspace_n": lambda q: np.linspace(q, 7, 3),
    "logspace": lambda q: np.logspace(q, Quantity(300.0, "cm"), 3),
    "np_add": lambda q: np.add(q, q),
    "np_add_num_first": lambda q: np.add(3.0, q),
    "np_mul_arr_first": lambda q: np.multiply(np.array([1.0, 2.0]), q),
    "arr_times_q": lambda q: np.array([1.0, 2.0]) * q,
    "npfloat_plus_q": lambda q: np.float64(2.0) + q,
    "power_num_first": lambda q: np.power(2.0, q),
    "power_frac": lambda q: np.power(q, 0.5),
    "sqrt_out_kw": lambda q: np.sqrt(q, where=True),
    "isnat": lambda q: np.isnat(q),
    "degrees": lambda q: np.degrees(q),
}
NPMAKERS = {
    "m2": lambda: Quantity(4.0, "m2", abse=0.1),
    "arr_m": lambda: Quantity([0.25, -0.5, 0.75], "m"),
    "deg": lambda: Quantity(30.0, "deg"),
    "nodim": lambda: Quantity(0.5),
    "nodim_arr": lambda: Quantity(np.array([0.1, 0.5, 0.9])),
    "m": lambda: Quantity(1.0, "m"),
    "dB": lambda: Quantity(20.0, "dB"),
}
for mname, mk in NPMAKERS.items():
    for fname, fn in NP.items():
        q = mk()
        rec = {"before": snap(q)}
        res = attempt(lambda: fn(q))
        rec["after"] = snap(q)
        if "ok" in res:
            r = res["ok"]
            rec["result"] = snap(r)
            inplace(r, rec, "res")
            rec["after_res_conv"] = snap(q)
            inplace(q, rec, "q")
            rec["res_after"] = snap(r)
        else:
            rec["result"] = res
        out["np:" + mname + ":" + fname] = rec

print(json.dumps(out, sort_keys=True, default=str))
'''


def run(root):
    p = subprocess.run([sys.executable, "-c", PROBE, root], capture_output=True, text=True)
    if p.returncode != 0:
        sys.stderr.write(p.stderr)
        raise SystemExit(2)
    return json.loads(p.stdout)


def main():
    base, new = run(sys.argv[1]), run(sys.argv[2])
    bad = [k for k in sorted(set(base) | set(new)) if base.get(k) != new.get(k)]
    for k in bad:
        print("DIFF", k)
        print("  base:", json.dumps(base.get(k), sort_keys=True))
        print("  new :", json.dumps(new.get(k), sort_keys=True))
    print(f"{len(base)} cases compared, {len(bad)} differ")
    return 1 if bad else 0


if __name__ == "__main__":
    sys.exit(main())
