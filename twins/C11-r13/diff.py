#!/venv/bin/python
"""Differential check for property C11 (number / mass fractions of composites).

usage: diff.py <unmodified tree root> <refactored tree root>
Runs the same inputs against both trees (each in its own subprocess with its own
sys.path) and exits 0 iff every observable output is identical.
"""
import sys, os, subprocess, json

WORKER = r'''
import sys, json, io, contextlib
sys.path.insert(0, sys.argv[1] + '/src')
import numpy as np
from scinumtools.units import Quantity
from scinumtools.materials import Material, Substance, Element, Norm

def show(v):
    if isinstance(v, Quantity):
        return ['Q', repr(float(v.value())) if not hasattr(v.value(), 'tolist') else repr(v.value()), str(v.units())]
    if isinstance(v, (np.floating, float)):
        return ['f', repr(float(v))]
    if isinstance(v, (np.integer, int)):
        return ['i', repr(int(v))]
    return [type(v).__name__, repr(v)]

def table(pt):
    if pt is None:
        return None
    out = []
    for key, row in pt.items():
        out.append([key, [[col, show(val)] for col, val in row.items()]])
    return out

def fractions(m, **kw):
    return {
        'q':   table(m.data_composite(**kw)),
        's':   table(m.data_composite(quantity=False, **kw)),
        'pn':  show(m.proportion_norm),
        'cm':  show(m.composite_mass),
        'expr': m.expr,
        'str': str(m),
    }

def roundtrip(spec, natural):
    # number fractions -> resulting mass fractions -> same material again
    a = Material(spec, natural=natural, norm_type=Norm.NUMBER_FRACTION)
    X = a.data_composite(quantity=False)
    b = Material({k: X[k].X for k in spec}, natural=natural, norm_type=Norm.MASS_FRACTION)
    return [fractions(a), fractions(b)]

def printed(obj, *a, **kw):
    buf = io.StringIO()
    with contextlib.redirect_stdout(buf):
        obj(*a, **kw)
    return buf.getvalue()

CASES = {
  'nf_dict_2':        lambda: fractions(Material({'H2O': 0.2, 'NaCl': 0.3})),
  'nf_dict_2_scaled': lambda: fractions(Material({'H2O': 20.0, 'NaCl': 30.0})),
  'nf_single':        lambda: fractions(Material({'CO2': 7})),
  'nf_str':           lambda: fractions(Material('0.2 <H2O> 0.3 <NaCl>')),
  'mf_str':           lambda: fractions(Material('0.2 <H2O> 0.3 <NaCl>', norm_type=Norm.MASS_FRACTION)),
  'mf_dict_4':        lambda: fractions(Material({'N2': 75.5, 'O2': 23.1, 'Ar': 1.3, 'CO2': 0.1}, norm_type=Norm.MASS_FRACTION)),
  'mf_dict_4_scaled': lambda: fractions(Material({'N2': 0.755, 'O2': 0.231, 'Ar': 0.013, 'CO2': 0.001}, norm_type=Norm.MASS_FRACTION)),
  'nf_abundant':      lambda: fractions(Material({'H2O': 1, 'C2H5OH': 3, 'Fe2O3': 0.5}, natural=False)),
  'mf_abundant':      lambda: fractions(Material({'H2O': 1, 'C2H5OH': 3, 'Fe2O3': 0.5}, natural=False, norm_type=Norm.MASS_FRACTION)),
  'isotopes':         lambda: fractions(Material({'D2O': 1.5, 'H{1}2O{18}': 2.5, 'U{235}O2': 0.25, 'T2': 1e-3})),
  'ions':             lambda: fractions(Material({'Na{+}Cl{-}': 2, 'Ca{40+2}': 1, '[e]': 3, '[p]': 3, '[n]': 1}, natural=False)),
  'number_norm':      lambda: fractions(Material({'H2O': 2, 'NaCl': 3}, norm_type=Norm.NUMBER)),
  'select':           lambda: fractions(Material({'N2': 78, 'O2': 21, 'Ar': 1}), components=['O2', 'Ar']),
  'roundtrip_nat':    lambda: roundtrip({'H2O': 0.6, 'NaCl': 0.3, 'SiO2': 0.1}, True),
  'roundtrip_abund':  lambda: roundtrip({'CH4': 11.0, 'Cl2': 4.0, 'Sn': 2.5, 'Xe': 0.5}, False),
  'add_incremental':  lambda: (lambda m: (m.add('H2O', 1.0), m.add('NaCl', 2.0), m.add('H2O', 0.5), fractions(m))[-1])(Material(norm_type=Norm.MASS_FRACTION)),
  'arith':            lambda: fractions(2.5*Material({'H2O': 1}) + Material({'KCl': 4, 'H2O': 1})),
  'add_substance':    lambda: fractions(Material({'H2O': 1}) + Substance('NaCl', proportion=3)),
  'empty':            lambda: [table(Material().data_composite()), show(Material().proportion_norm)],
  'components_tbl':   lambda: [table(Material({'H2O': 0.2, 'NaCl': 0.3}).data_components()), table(Material({'H2O': 0.2, 'NaCl': 0.3}, natural=False).data_components(quantity=False))],
  'err_matter_mf':    lambda: (lambda m: [fractions(m), table(m.data_matter()), table(m.data_matter(quantity=False)), show(m.number_density), show(m.mass_density), show(m.mass)])(
                          Material({'H2O': 0.9, 'NaCl': 0.1}, norm_type=Norm.MASS_FRACTION, mass_density=Quantity(1.07, 'g/cm3'), volume=Quantity(2, 'l'))),
  'matter_nf':        lambda: (lambda m: [fractions(m), table(m.data_matter()), table(m.data_matter(quantity=False)), show(m.number_density), show(m.mass_density), show(m.mass)])(
                          Material({'H2O': 0.9, 'NaCl': 0.1}, mass_density=Quantity(1.07, 'g/cm3'), volume=Quantity(2, 'l'))),
  'matter_n':         lambda: (lambda m: [fractions(m), table(m.data_matter()), show(m.mass_density)])(
                          Material({'N2': 78, 'O2': 21}, number_density=Quantity(2.5e19, 'cm-3'))),
  'substance_x':      lambda: (lambda s: [fractions(s), table(s.data_components()), table(s.data_components(quantity=False))])(Substance('C2H5OH')),
  'substance_abund':  lambda: (lambda s: [fractions(s), table(s.data_components())])(Substance('Fe2(SO4)3', natural=False)),
  'substance_dict':   lambda: fractions(Substance({'Sn': 2, 'Xe{+}': 1, 'D': 4}, natural=False, proportion=2.0)),
  'elements':         lambda: [[str(Element(e, natural=n)), show(Element(e, natural=n).component_mass), show(Element(e, natural=n).isotope)]
                               for e in ('H', 'C', 'Cl', 'Cu', 'Sn', 'Xe', 'U', 'Li{6}', 'B{-}', 'T') for n in (True, False)],
  'err_no_natural':   lambda: str(Element('Tc', natural=True)),
  'tc_abundant':      lambda: str(Element('Tc', natural=False)),
  'abundant_all':     lambda: (lambda E: [[k, [show(v) for v in Element(k, natural=False).get_abundant(k, 0)]] for k in E.PERIODIC_TABLE.keys()])(__import__('scinumtools.materials.element', fromlist=['x'])),
  'print':            lambda: printed(Material({'H2O': 0.2, 'NaCl': 0.3}, mass_density=Quantity(1.1, 'g/cm3')).print),
  'print_composite':  lambda: printed(Material({'N2': 78, 'O2': 21, 'Ar': 1}, norm_type=Norm.MASS_FRACTION).print_composite, components=['N2']),
  'err_isotope':      lambda: fractions(Material({'H{7}2O': 1})),
  'err_element':      lambda: fractions(Material({'Xx2O': 1})),
  'err_expr':         lambda: fractions(Material({'?!': 1})),
  'err_zero_mass':    lambda: fractions(Material({'H2O': 0, 'NaCl': 0})),
  'err_str_prop':     lambda: fractions(Material({'H2O': 'a'})),
  'err_select_none':  lambda: fractions(Material({'H2O': 1}), components=['NaCl']),
}

res = {}
import warnings
for name, fn in CASES.items():
    try:
        with warnings.catch_warnings(record=True) as w:
            warnings.simplefilter('always')
            value = fn()
        res[name] = {'ok': value, 'warn': sorted(str(x.category.__name__) for x in w)}
    except BaseException as e:
        res[name] = {'exc': type(e).__name__, 'args': repr(e.args)}
print('@@RESULT@@' + json.dumps(res, sort_keys=True))
'''

def run(root):
    env = dict(os.environ)
    env.pop('PYTHONPATH', None)
    env['PYTHONDONTWRITEBYTECODE'] = '1'
    p = subprocess.run([sys.executable, '-c', WORKER, os.path.abspath(root)],
                       capture_output=True, text=True, env=env, cwd='/')
    if p.returncode != 0:
        print(p.stderr)
        raise SystemExit(2)
    line = [l for l in p.stdout.splitlines() if l.startswith('@@RESULT@@')][-1]
    return json.loads(line[len('@@RESULT@@'):])

def main():
    a, b = run(sys.argv[1]), run(sys.argv[2])
    bad = 0
    for k in sorted(set(a) | set(b)):
        if a.get(k) != b.get(k):
            bad += 1
            print('DIFF', k)
            print('  base:', json.dumps(a.get(k))[:600])
            print('  new :', json.dumps(b.get(k))[:600])
    nexc = sum(1 for v in a.values() if 'exc' in v)
    print(f'{len(a)} cases ({nexc} raising), {bad} differing')
    sys.exit(1 if bad else 0)

if __name__ == '__main__':
    main()
