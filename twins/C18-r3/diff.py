#!/venv/bin/python
"""Differential check for property C18 (DIP numerical / logical / template expressions).

usage: diff.py <unmodified tree root> <refactored tree root>

Every input is run against both trees (one subprocess per tree, each with its own
sys.path); exit code 0 iff all observable outputs are identical.
"""
import json
import os
import subprocess
import sys
import tempfile

WORKER = r'''
import sys, os, json, io, contextlib, warnings
warnings.filterwarnings("ignore")
root = sys.argv[1]
sys.path.insert(0, os.path.join(root, "src"))
import numpy as np
from scinumtools.dip import DIP
from scinumtools.dip.settings import Format
from scinumtools.dip.datatypes import Type
from scinumtools.dip.solvers import NumericalSolver, LogicalSolver, TemplateSolver
from scinumtools.units import Quantity

def plain(v):
    if isinstance(v, Quantity):
        return ["Quantity", repr(v.magnitude if not hasattr(v.magnitude, "value") else v.magnitude.value), str(v.units()), str(v)]
    if isinstance(v, Type):
        return [type(v).__name__, plain(v.value), getattr(v, "unit", None)]
    if isinstance(v, np.ndarray):
        return ["ndarray", str(v.dtype), v.tolist()]
    if isinstance(v, np.generic):
        return [type(v).__name__, repr(v.item())]
    if isinstance(v, (list, tuple)):
        return [plain(x) for x in v]
    if isinstance(v, dict):
        return {str(k): plain(x) for k, x in v.items()}
    if isinstance(v, float):
        return ["float", repr(v)]
    if isinstance(v, (int, bool, str)) or v is None:
        return [type(v).__name__, v]
    return [type(v).__name__, str(v)]

ENV_CODE = """
$unit len = 2 m
$unit pack = 12
a float = 10 m
b float = 300 cm
c int = 7
d float = 2.5 s
e float = 3 [len]
mass float = 57.3 kg
dogs int = 23
cats int = 44
birds int = 23
animal bool = true
lazy bool = false
name str = "William Smith"
empty float = none m
widths float[2,3] = [[23.4,235.4,34],[1e10,2e23,5e20]] cm
ids int[3] = [3,14,159]
flags bool[2] = [true,false]
body
  weight float = 62.3 kg
  height float = 177 cm
"""

def make_env():
    with DIP(name="envsrc") as p:
        p.add_string(ENV_CODE)
        return p.parse()

ENV = make_env()

def attempt(fn):
    try:
        return {"ok": plain(fn())}
    except BaseException as e:
        return {"exc": type(e).__name__, "args": [str(a) for a in e.args][:1]}

NUMERICAL = [
    ("2 + 4 - 3", None), ("1 - -3 + -4", None), ("34 cm + 4 mm", "cm"), ("10 m + 4 cm + 3 m + 1 mm", "m"),
    ("3 m - 5 cm", "cm"), ("10 m - 1 m + 3 cm - 3 mm", "mm"), ("23 kg*m*s-2", "N"),
    ("8 / 4 * 3", None), ("2 * 3 * 4", None), ("8 / 2 / 4", None), ("-8 / 2 * -4", None),
    ("2 + 3 * 4", None), ("2 * 3 + 4", None), ("20 - 12 / 4 - 2", None), ("2 - 3 - 4", None), ("100 / 10 * 2 / 4", None),
    ("10 m * 2 cm", "m2"), ("4 cm2 + 10 m * 2 cm - 0.2 m2", "m2"), ("10 m2 / 200 cm", "dm"),
    ("4 m2 + 10 m3 / 2 m - 3 m2", "m2"), ("3 kg * 4 m2 / 2 s2 + 1e7 erg", "J"), ("23 kg*m2/s2 / 2 J", None),
    ("(10 m - 1 m) + 3 cm - 3 mm", "m"), ("10 m - (1 m + 3 cm) - 3 mm", "m"), ("4 m2 + 10000 mm * (300 cm - 1 m)", "m2"),
    ("36 m2 / (20 dm * 300 cm) - 1", None), ("(2 + (3 - 4))", None), ("((2 + 3) * (4 - 1)) / 5", None),
    ("exp(10 m / 5 m)", None), ("log(10 m / 5 cm)", None), ("log10(10 m / 5 cm)", None), ("sqrt(16 m2)", "m"),
    ("sin(10 m / 5 cm)", None), ("cos(10 m / 5 cm)", None), ("tan(0.5)", None), ("pow(10 m, 2)", "m2"),
    ("logb(8, 2)", None), ("sqrt(4 m * 9 m) + 1 m", "cm"),
    ("{?a} + {?b}", "m"), ("{?a} * {?b} / {?d}", "m2/s"), ("3 m * log10({?a} / (7 cm - 20 mm)) + {?b}", "m"),
    ("{?c} * 2", None), ("{?e} + 1 m", "m"), ("{?e} + 1 [len]", "[len]"), ("2 [len] * 3 [len]", "m2"), ("5 [pack] + 1", None),
    ("{?body.weight} / {?mass}", None), ("{?body.height} - {?a}", "cm"), ("-{?a} + {?b}", "m"), ("{?a} - -{?b}", "m"),
    ("10 m + 1 J", None), ("10 m - 1 J", None), ("1 s + 1 Hz", None), ("1 + 1 m", None), ("1 m + 1", None),
    ("{?a} + {?d}", None), ("{?missing} + 1", None), ("{?empty} + 1 m", None), ("{?name} + 1", None),
    ("(2 + 3", None), ("2 +", None), ("pow(2)", None), ("3 m", "J"), ("", None), ("   4.5e3 g  ", "kg"),
    (3, None), (2.5, "m"),
]

LOGICAL = [
    "true || true || true", "false || true || false", "false || false || false", "true && false && true",
    "true && true && true || false || false", "false || true && false && true || true", "false || false || true && false && true",
    "true || false && false", "(true || false) && false", "(true || false) && true && true", "false || ((false||true) || false) && (true||false)",
    "~true", "~false || false", "~(true && false)", "~~true", "~true && false", "~false && ~false",
    "{?dogs} == {?cats}", "{?dogs} == {?birds}", "{?dogs} != {?cats}", "{?dogs} <= {?birds}", "{?dogs} >= {?cats}",
    "{?dogs} <  {?cats}", "{?dogs} >  {?cats}", "{?dogs}<={?cats}", "{?animal}", "~{?animal}", "{?lazy} || {?animal}",
    "!{?dogs}", "!{?elefant}", "!{?elefant} == false", "~!{?elefant}", "!{?dogs} && ~!{?elefant}", "!{?empty}",
    "{?mass} == 57.30 kg", "{?mass} == 57.31 kg", "{?mass} == 57.30001 kg", "{?mass} == 57.3001 kg", "{?mass} != 57.30 kg",
    "{?mass} <= 57.30 kg", "{?mass} >= 57300 g", "{?mass} > 60000 g", "{?mass} < 60", "{?mass} == 57300 g",
    "{?a} == 1000 cm", "{?a} > {?b}", "{?e} == 6 m", "{?e} == 3 [len]", "{?b} < 1 [len]",
    "{?name} == 'William Smith'", "{?name} != 'Bill'", "{?animal} == true", "{?lazy} == false",
    "{?a} > 5 m && {?b} < 4 m || {?dogs} == 1", "{?a} < 5 m || {?b} < 4 m && {?dogs} == 1",
    "{?a} > 30 cm \n || ({?a} < 0.4 m || {?a} >= 34) \n && ({?c} == 1 && {?c}<={?dogs}) \n && {?animal} \n || ~!{?color}",
    "~{?dogs} == {?cats}", "~{?dogs} == {?birds} || {?mass} == 57.3 kg", "{?dogs} == {?birds} && {?dogs} == {?cats}",
    "{?name} == 'William Smith' && {?animal} == true", "~({?mass} == 57300 g) || ~!{?dogs}", "!{?dogs} == true && !{?nope} == false",
    "{?elefant} == 1", "{?a} == 1 s", "{?a} < 1 J", "true &&", "(true || false", "", "{?dogs} == ", "5 > 3", "3 m > 200 cm",
]

TEMPLATES = [
    "ID: {{?c}:05d}", "Name: {{?name}}", "Weight: {{?body.weight}:.3e}", "Height:  {{?body.height}:.2f}", "Married: {{?animal}}",
    "Surname: {{?name}[8:]}", "First: {{?name}[:7]}", "Char: {{?name}[3]}", "Scalar: {{?widths}[1,1]:.2e}", "Array:\n{{?widths}[:,1:]}",
    "Row: {{?widths}[0]}", "Ids: {{?ids}} / {{?ids}[1]:03d} / {{?ids}[1:]}", "Flags: {{?flags}} {{?flags}[0]}",
    "{{?a}} and {{?b}:.1f} and {{?c}:b}", "no refs at all { } {x} }{", "{{?a}", "{{?a} }", "{ {?a}}", "{{?a}}{{?b}}{{?c}}",
    "json: {\"k\": {{?c}}}", "{{?missing}}", "{{?body.*}}", "{{?name}:d}", "{{?c}:.2f}", "{{?mass}:10.3f}|", "{{?name}:s}", "",
    "{{?e}} {{?empty}}", "trailing {", "{{?a}:.3e", "{{?name}[2:5]:s}",
]

DIPCODES = {
 "doc_logical": """
a bool = true
b float = 23.43 cm
c bool = (\"\"\"
  false || {?b} == 23.43 cm && {?a}
\"\"\")
""",
 "doc_numerical": """
a float = 14.24 mm
b int = 220 cm
c float = ("{?a} + {?b} + 10 m") cm
d int = ("{?b} + 1 cm + 10 m + 1 nm") cm
e float = ("{?a} * {?b} / 2 s") m2/s
f float = ("{?a} / {?b}")
""",
 "numerical_bad_dim": """
a float = ("10 dm + 1 m") J
""",
 "numerical_custom_unit": """
$unit len = 2 m
$unit area = 3 [len]2
x float = 4 [len]
y float = ("{?x} + 1 [len] + 2 m") m
z float = ("{?x} * 2 [len]") [area]
w float = ("5 [len]") [len]
""",
 "template": """
a float[2] = [14.24,15.23] mm
n int = 42
s str = "text"
b str = ("a = {{?a}[0]:.3e}")
c str = ("{{?n}:04d}-{{?s}[1:3]}-{{?a}}")
""",
 "case_and_condition": """
size float = 34 cm
  !condition ("{?} > 30 cm && {?} < 1 m")
geom int = 2
@case ("{?geom} == 1 || {?size} > 1 m")
  kind str = "line"
@case ("{?geom} == 2 && ~!{?nothing}")
  kind str = "square"
@else
  kind str = "other"
flag bool = ("{?kind} == 'square' && {?size} >= 340 mm")
""",
 "condition_fails": """
size float = 34 cm
  !condition ("{?} > 1 m")
""",
}

out = {}
with NumericalSolver(ENV) as ns:
    for i, (expr, unit) in enumerate(NUMERICAL):
        out["num%02d %r -> %s" % (i, expr, unit)] = attempt(lambda: ns.solve(expr, unit) if unit else ns.solve(expr))
    for i, (x, y) in enumerate([("34 cm + 4 mm", "34.4 cm"), ("{?a} + {?b}", "13 m"), ("2 * 3", "7"), ("1 m", "1 J"), ("{?e}", "6 m")]):
        out["equal%02d" % i] = attempt(lambda: bool(ns.equal(x, y)))
with NumericalSolver() as ns:
    for i, (expr, unit) in enumerate(NUMERICAL[:12] + [("{?a} + 1", None), ("1 [len]", None)]):
        out["num_noenv%02d %r" % (i, expr)] = attempt(lambda: ns.solve(expr, unit) if unit else ns.solve(expr))
with LogicalSolver(ENV) as ls:
    for i, expr in enumerate(LOGICAL):
        out["log%02d %r" % (i, expr)] = attempt(lambda: ls.solve(expr))
with LogicalSolver() as ls:
    for i, expr in enumerate(LOGICAL[:17] + ["{?dogs} == 1", "!{?dogs}"]):
        out["log_noenv%02d %r" % (i, expr)] = attempt(lambda: ls.solve(expr))
with TemplateSolver(ENV) as ts:
    for i, expr in enumerate(TEMPLATES):
        out["tpl%02d %r" % (i, expr)] = attempt(lambda: ts.solve(expr))
for name, code in DIPCODES.items():
    def run():
        with DIP(name="case") as p:
            p.add_string(code)
            env = p.parse()
        return env.data(format=Format.TYPE)
    buf = io.StringIO()
    with contextlib.redirect_stdout(buf):
        out["dip " + name] = attempt(run)
# the shared environment must not have been altered by solving
out["env_after"] = attempt(lambda: ENV.data(format=Format.TYPE))
print("@@RESULT@@" + json.dumps(out, sort_keys=True, default=str))
'''


def run(root, work):
    script = os.path.join(work, "worker.py")
    proc = subprocess.run([sys.executable, script, root], capture_output=True, text=True, cwd=work)
    for line in proc.stdout.splitlines():
        if line.startswith("@@RESULT@@"):
            return json.loads(line[len("@@RESULT@@"):])
    raise SystemExit("worker failed for %s:\n%s\n%s" % (root, proc.stdout[-2000:], proc.stderr[-4000:]))


def main():
    base, new = os.path.abspath(sys.argv[1]), os.path.abspath(sys.argv[2])
    verbose = "-v" in sys.argv[3:]
    with tempfile.TemporaryDirectory() as work:
        with open(os.path.join(work, "worker.py"), "w") as f:
            f.write(WORKER)
        a = run(base, work)
        b = run(new, work)
    bad = 0
    nexc = 0
    for name in sorted(set(a) | set(b)):
        same = a.get(name) == b.get(name)
        if "exc" in a.get(name, {}):
            nexc += 1
        if verbose:
            print("%-70s %s" % (name[:70], json.dumps(a.get(name))[:90]))
        if not same:
            bad += 1
            print("DIFFERENT:", name)
            print("   base:", json.dumps(a.get(name))[:600])
            print("   new :", json.dumps(b.get(name))[:600])
    print("%d inputs (%d raising in base), %d differing" % (len(a), nexc, bad))
    sys.exit(1 if bad or len(a) < 12 else 0)


if __name__ == "__main__":
    main()
