#!/usr/bin/env python
"""Differential check for property C07 (operations never alter their operands).

usage: diff.py <unmodified tree root> <refactored tree root>

Runs the same list of cases against both trees (each in its own subprocess with
its own sys.path) and exits 0 iff every observable output is identical.
"""
import json
import subprocess
import sys

CHILD = r'''
import sys, json, warnings
warnings.simplefilter("ignore")
root = sys.argv[1]
sys.path.insert(0, root + "/src")
import numpy as np
from decimal import Decimal
from scinumtools.units import Quantity, Unit, Constant
from scinumtools.units.magnitude import Magnitude
from scinumtools.units.base_units import BaseUnits
from scinumtools.units.fraction import Fraction
from scinumtools.units.dimensions import Dimensions

def safestr(x):
    try:
        return str(x)
    except BaseException as e:
        return "strexc:" + type(e).__name__

def show(x):
    if isinstance(x, Quantity):
        return ["Q", show(x.magnitude.value), x.units(), show(x.magnitude.error),
                {k: [v.num, v.den] for k, v in x.baseunits.baseunits.items()}, safestr(x)]
    if isinstance(x, Magnitude):
        return ["M", show(x.value), show(x.error)]
    if isinstance(x, BaseUnits):
        return ["B", {k: [v.num, v.den] for k, v in x.baseunits.items()}, x.expression,
                repr(x.magnitude), safestr(x.dimensions), x.units, x.nodim, x.nobase]
    if isinstance(x, np.ndarray):
        return ["A", str(x.dtype), [show(i) for i in x.tolist()]]
    if isinstance(x, (list, tuple)):
        return [show(i) for i in x]
    if isinstance(x, dict):
        return {str(k): show(v) for k, v in x.items()}
    return type(x).__name__ + ":" + repr(x)

def Q(*a, **k):
    return Quantity(*a, **k)

OPS = {
    "add": lambda a, b: a + b,
    "sub": lambda a, b: a - b,
    "mul": lambda a, b: a * b,
    "div": lambda a, b: a / b,
    "eq":  lambda a, b: a == b,
    "pow2": lambda a, b: a ** 2,
    "powt": lambda a, b: a ** (1, 2),
    "powf": lambda a, b: a ** Fraction(3, 2),
    "neg": lambda a, b: -a,
    "radd": lambda a, b: 2 + a,
    "rsub": lambda a, b: 2 - a,
    "rmul": lambda a, b: 3 * a,
    "rdiv": lambda a, b: 3 / a,
    "val": lambda a, b: a.value(b.units()),
    "valb": lambda a, b: b.value(a.baseunits.expression),
    "sqrt": lambda a, b: np.sqrt(a),
    "cbrt": lambda a, b: np.cbrt(a),
    "nppow": lambda a, b: np.power(a, 3),
    "sin": lambda a, b: np.sin(a),
    "arcsin": lambda a, b: np.arcsin(a),
    "abs": lambda a, b: np.abs(a),
    "absolute": lambda a, b: np.absolute(a),
    "round": lambda a, b: np.round(a),
    "floor": lambda a, b: np.floor(a),
    "ceil": lambda a, b: np.ceil(a),
    "sum": lambda a, b: np.sum(a),
    "isnan": lambda a, b: np.isnan(a),
    "linspace": lambda a, b: np.linspace(a, b, 4),
    "logspace": lambda a, b: np.logspace(a, b, 3),
    "getitem": lambda a, b: a[0],
    "negative": lambda a, b: np.negative(a),
}

PAIRS = {
    "same":      lambda: (Q(2.5, "m"), Q(4.0, "m")),
    "diffunit":  lambda: (Q(2.5, "km"), Q(40.0, "cm")),
    "compound":  lambda: (Q(3.0, "kg*m2/s2"), Q(5.0, "J")),
    "err":       lambda: (Q(2.5, "m", abse=0.1), Q(4.0, "cm", rele=5)),
    "err_left":  lambda: (Q(2.5, "km", abse=0.2), Q(4.0, "m")),
    "err_right": lambda: (Q(2.5, "km"), Q(4.0, "m", abse=0.3)),
    "decimal":   lambda: (Q(Decimal("2.5"), "m"), Q(Decimal("4.25"), "cm")),
    "decmix":    lambda: (Q(Decimal("2.5"), "m"), Q(4.0, "m")),
    "array":     lambda: (Q([1.0, 2.0, 3.0], "m"), Q([4.0, 5.0, 6.0], "km")),
    "arrerr":    lambda: (Q([1.0, 2.0, 3.0], "m", abse=0.1), Q(2.0, "cm", abse=0.5)),
    "arrscal":   lambda: (Q(np.array([1.5, -2.5]), "s"), Q(3.0, "min")),
    "dB":        lambda: (Q(10.0, "dBm"), Q(20.0, "dBm")),
    "dBmix":     lambda: (Q(10.0, "dBm"), Q(1.0, "dBW")),
    "dBW":       lambda: (Q(2.0, "BW"), Q(30.0, "mW")),
    "Np":        lambda: (Q(1.0, "Np"), Q(2.0, "B")),
    "temp":      lambda: (Q(20.0, "Cel"), Q(300.0, "K")),
    "tempF":     lambda: (Q(50.0, "degF"), Q(10.0, "Cel")),
    "tempK":     lambda: (Q(280.0, "K"), Q(50.0, "degF")),
    "incompat":  lambda: (Q(1.0, "m"), Q(1.0, "s")),
    "inverse":   lambda: (Q(2.0, "s"), Q(4.0, "Hz")),
    "nodim":     lambda: (Q(0.5), Q(0.25)),
    "angle":     lambda: (Q(30.0, "deg"), Q(0.5, "rad")),
    "number":    lambda: (Q(2.0, "m"), Q(3.0)),
    "zero":      lambda: (Q(0.0, "m"), Q(0.0, "km")),
    "const":     lambda: (Q(2.0, "[c]"), Q(3.0, "km/s")),
    "tempcomp":  lambda: (Q(20.0, "Cel*m"), Q(300.0, "K")),
}

INPLACE = {
    "same": ("cm", "km"), "diffunit": ("m", "mm"), "compound": ("erg", "eV"),
    "err": ("mm", "km"), "err_left": ("m", "cm"), "err_right": ("m", "cm"),
    "decimal": ("mm", "km"), "decmix": ("mm", "km"), "array": ("cm", "mm"),
    "arrerr": ("cm", "mm"), "arrscal": ("ms", "h"), "dB": ("dBW", "mW"),
    "dBmix": ("dBW", "W"), "dBW": ("W", "dBm"), "Np": ("B", "Np"),
    "temp": ("K", "degF"), "tempF": ("K", "Cel"), "tempK": ("Cel", "degR"),
    "incompat": ("km", "ms"), "inverse": ("Hz", "s"), "nodim": ("%", "ppm"),
    "angle": ("rad", "deg"), "number": ("cm", "%"), "zero": ("cm", "m"),
    "const": ("km/s", "m/s"), "tempcomp": ("K*m", "Cel"),
}

def attempt(fn):
    try:
        return ["ok", show(fn())]
    except BaseException as e:
        return ["exc", type(e).__name__]

out = {}
for pname, mk in PAIRS.items():
    for oname, op in OPS.items():
        rec = {}
        try:
            a, b = mk()
        except BaseException as e:
            out[pname + "/" + oname] = ["mkexc", type(e).__name__]
            continue
        rec["before"] = [show(a), show(b)]
        holder = {}
        def run():
            holder["r"] = op(a, b)
            return holder["r"]
        rec["result"] = attempt(run)
        rec["after"] = [show(a), show(b)]
        r = holder.get("r")
        ua, ub = INPLACE[pname]
        # in-place conversions of the result must not leak into the operands ...
        if isinstance(r, Quantity):
            rec["r_to"] = attempt(lambda: r.to(ua))
            rec["r_rebase"] = attempt(lambda: r.rebase())
            rec["r_abse"] = attempt(lambda: r.abse(0.125))
            rec["after_r"] = [show(a), show(b)]
        # ... and the other way round
        rec["a_to"] = attempt(lambda: a.to(ua))
        rec["b_to"] = attempt(lambda: b.to(ub))
        rec["a_rele"] = attempt(lambda: a.rele(10))
        rec["b_rebase"] = attempt(lambda: b.rebase())
        rec["final"] = [show(a), show(b), show(r)]
        out[pname + "/" + oname] = rec

# lower level pieces used by the operators
def low(name, fn):
    out["low/" + name] = attempt(fn)

def mags():
    res = []
    vals = [Magnitude(2.0), Magnitude(3.0, abse=0.2), Magnitude(4.0, rele=10),
            Magnitude(Decimal("1.5")), Magnitude([1.0, 2.0]), Magnitude([1.0, 2.0], abse=0.1)]
    for i, x in enumerate(vals):
        for j, y in enumerate(vals):
            for nm, f in (("+", lambda p, q: p + q), ("-", lambda p, q: p - q),
                          ("*", lambda p, q: p * q), ("/", lambda p, q: p / q)):
                bx, by = show(x), show(y)
                r = attempt(lambda: f(x, y))
                res.append([i, j, nm, r, bx == show(x), by == show(y)])
        res.append([i, attempt(lambda: 2 + x), attempt(lambda: 2 - x), attempt(lambda: 2 * x),
                    attempt(lambda: 2 / x), attempt(lambda: x ** 2), attempt(lambda: -x), show(x)])
    return res
low("magnitude", mags)

def bases():
    res = []
    items = [BaseUnits("kg*m2/s2"), BaseUnits("km"), BaseUnits({"k:m": 2, "s": (1, 2)}),
             BaseUnits(None), BaseUnits("dBm"), BaseUnits("m/s"), BaseUnits({"m": 1, "s": 0})]
    for i, x in enumerate(items):
        for j, y in enumerate(items):
            bx, by = show(x), show(y)
            res.append([i, j, attempt(lambda: x + y), attempt(lambda: x - y), attempt(lambda: x == y),
                        bx == show(x), by == show(y)])
        for k in (2, 0.5, (1, 3), Fraction(2, 3), -1, 0):
            bx = show(x)
            res.append([i, repr(k), attempt(lambda: x * k), attempt(lambda: x / k), bx == show(x)])
        res.append([i, str(x), repr(x), show(x.value())])
    # results of BaseUnits arithmetic share no dictionary with the operands
    x, y = BaseUnits("kg*m"), BaseUnits("s")
    s = x + y
    s.baseunits["s"] = Fraction(5)
    res.append([show(x), show(y)])
    p = x * 2
    p.baseunits["m"] = Fraction(7)
    res.append([show(x)])
    res.append([(x + y).baseunits["s"] is y.baseunits["s"], (x - y).baseunits["s"] is y.baseunits["s"],
                (x + y).baseunits["m"] is x.baseunits["m"], (x * 1).baseunits["m"] is x.baseunits["m"]])
    return res
low("baseunits", bases)

def chains():
    res = []
    a = Quantity(3.0, "km", abse=0.1)
    b = Quantity(200.0, "m")
    c = a + b
    d = c - a
    e = (a * b) / c
    c.to("cm"); a.to("m"); d.to("mm"); e.rebase(); b.abse(2.0)
    res += [show(a), show(b), show(c), show(d), show(e)]
    f = -a
    f.to("km")
    g = a ** 2
    g.to("km2")
    res += [show(a), show(f), show(g)]
    h = a[...] if isinstance(a.magnitude.value, np.ndarray) else a
    arr = Quantity([1.0, 4.0, 9.0], "m2", abse=0.5)
    s = np.sqrt(arr); s.to("cm")
    t = arr[1]; t.to("cm2")
    res += [show(arr), show(s), show(t)]
    u = Quantity(5.0, Quantity(2.0, "m"))
    res += [show(u)]
    m = Magnitude(2.0, abse=0.1)
    q1 = Quantity(m, "m"); q2 = q1 + q1; q2.abse(0.7)
    res += [show(m), show(q1), show(q2)]
    return res
low("chains", chains)

print(json.dumps(out, sort_keys=True))
'''


def run(root):
    proc = subprocess.run([sys.executable, "-c", CHILD, root], capture_output=True, text=True)
    if proc.returncode != 0:
        sys.stderr.write(proc.stderr)
        raise SystemExit(2)
    return json.loads(proc.stdout)


def main():
    base, new = sys.argv[1], sys.argv[2]
    a, b = run(base), run(new)
    bad = [k for k in sorted(set(a) | set(b)) if a.get(k) != b.get(k)]
    for k in bad[:20]:
        print("DIFF", k)
        print("  base:", json.dumps(a.get(k))[:600])
        print("  new :", json.dumps(b.get(k))[:600])
    print(f"{len(a)} cases compared, {len(bad)} differ")
    sys.exit(1 if bad else 0)


if __name__ == "__main__":
    main()
