#!/venv/bin/python
"""Differential check for property C16 (constraints validated by DIP.parse()).

usage: diff.py <unmodified tree root> <refactored tree root>

Each tree is exercised in its own subprocess (own sys.path); the script exits 0
iff every observable output (values, units, option lists, exception types and
exception arguments) is identical for all inputs.
"""
import json
import subprocess
import sys

RUNNER = r'''
import sys, json
root = sys.argv[1]
sys.path.insert(0, root + '/src')
import numpy as np
from scinumtools.dip import DIP, Format
from scinumtools.dip.datatypes import Type

CASES = [
    # ---- options: per-line form, with units, on / near / off the list
    ("opt_line_ok",      "size float = 24 cm\n  = 24 cm\n  = 25 m\n"),
    ("opt_line_conv_ok", "size float = 2500 cm\n  = 24 cm\n  = 25 m\n"),
    ("opt_line_off",     "size float = 25 cm\n  = 24 cm\n  = 25 m\n"),
    ("opt_line_near",    "size float = 24.001 cm\n  = 24 cm\n  = 25 m\n"),
    ("opt_line_tiny",    "size float = 24.0000000001 cm\n  = 24 cm\n"),
    # ---- options: list form
    ("opt_list_ok",      "size float = 0.13 m\n  !options [12,13,14,15,16] cm\n  !options [22,23,24,25] m\n"),
    ("opt_list_ok2",     "size float = 2300 cm\n  !options [12,13,14,15,16] cm\n  !options [22,23,24,25] m\n"),
    ("opt_list_off",     "size float = 11 cm\n  !options [12,13,14,15,16] cm\n"),
    ("opt_int_ok",       "n int = 3\n  !options [1,2,3]\n"),
    ("opt_int_off",      "n int = 4\n  !options [1,2,3]\n"),
    ("opt_int_unit_ok",  "n int = 2000 m\n  !options [1,2,3] km\n"),
    ("opt_int_unit_off", "n int = 2001 m\n  !options [1,2,3] km\n"),
    ("opt_str_ok",       "animal str = 'dog'\n  = 'cat'\n  = 'dog'\n"),
    ("opt_str_off",      "animal str = 'cow'\n  = 'cat'\n  = 'dog'\n"),
    ("opt_str_list_ok",  "animal str = 'cat'\n  !options [\"cat\",\"dog\"]\n"),
    ("opt_str_list_off", "animal str = 'Cat'\n  !options [\"cat\",\"dog\"]\n"),
    ("opt_bool_err",     "flag bool = true\n  = true\n"),
    ("opt_mod_ok",       "size float = 24 cm\n  = 24 cm\n  = 25 m\nsize = 25 m\n"),
    ("opt_mod_off",      "size float = 24 cm\n  = 24 cm\n  = 25 m\nsize = 26 m\n"),
    ("opt_declared_ok",  "size float cm\n  = 24 cm\n  = 25 m\nsize = 0.24 m\n"),
    ("opt_declared_none","size float cm\n  = 24 cm\n  = 25 m\n"),
    ("opt_none_value",   "size float = none cm\n  = 24 cm\n"),
    ("opt_array",        "v int[2] = [1,2]\n  !options [1,2,3]\n"),
    # ---- conditions
    ("cond_num_ok",      "size float = 25 cm\n  !condition ('200 mm < {?} && {?} < 30 cm')\n"),
    ("cond_num_off",     "size float = 25 cm\n  !condition ('250 mm < {?} && {?} < 30 cm')\n"),
    ("cond_num_edge",    "size float = 30 cm\n  !condition ('{?} <= 300 mm')\n"),
    ("cond_num_edge_off","size float = 30 cm\n  !condition ('{?} < 300 mm')\n"),
    ("cond_int_ok",      "n int = 5\n  !condition ('{?} > 4')\n"),
    ("cond_int_off",     "n int = 4\n  !condition ('{?} > 4')\n"),
    ("cond_bool_ok",     "flag bool = true\n  !condition ('{?} == true')\n"),
    ("cond_bool_off",    "flag bool = false\n  !condition ('{?} == true')\n"),
    ("cond_str_ok",      "name str = 'abc'\n  !condition ('{?} == \"abc\"')\n"),
    ("cond_str_off",     "name str = 'abd'\n  !condition ('{?} == \"abc\"')\n"),
    ("cond_other_node",  "a int = 3\nb int = 4\n  !condition ('{?a} < {?}')\n"),
    ("cond_other_off",   "a int = 5\nb int = 4\n  !condition ('{?a} < {?}')\n"),
    ("cond_mod_off",     "n int = 5\n  !condition ('{?} > 4')\nn = 2\n"),
    ("cond_mod_ok",      "n int = 2\n  !condition ('{?} > 4')\nn = 7\n"),
    ("cond_two_nodes",   "a int = 5\n  !condition ('{?} > 4')\nb int = 1\n  !condition ('{?} > 4')\n"),
    ("cond_group",       "box\n  w float = 2 m\n    !condition ('{?} > 100 cm')\n  h float = 1 m\n    !condition ('{?} < {?box.w}')\n"),
    # ---- formats
    ("fmt_ok",           "name str = 'Laura'\n  !format '[a-zA-Z]+'\n"),
    ("fmt_dq_ok",        "name str = 'Laura'\n  !format \"[a-zA-Z]+\"\n"),
    ("fmt_off",          "name str = '4Laura'\n  !format '[a-zA-Z]+'\n"),
    ("fmt_prefix",       "name str = 'Laura4'\n  !format '[a-zA-Z]+'\n"),
    ("fmt_anchor_off",   "name str = 'Laura4'\n  !format '^[a-zA-Z]+$'\n"),
    ("fmt_anchor_ok",    "name str = 'Laura'\n  !format '^[a-zA-Z]+$'\n"),
    ("fmt_empty",        "name str = ''\n  !format '^[a-z]+$'\n"),
    ("fmt_int_err",      "age int = 3\n  !format '[0-9]+'\n"),
    ("fmt_mod_off",      "name str = 'Laura'\n  !format '^[a-zA-Z]+$'\nname = 'L4'\n"),
    ("fmt_declared",     "name str\n  !format '^[a-zA-Z]+$'\n"),
    # ---- dimensions
    ("dim_exact_ok",     "v int[3] = [1,2,3]\n"),
    ("dim_exact_less",   "v int[3] = [1,2]\n"),
    ("dim_exact_more",   "v int[3] = [1,2,3,4]\n"),
    ("dim_range_lo",     "v float[2:4] = [1,2] cm\n"),
    ("dim_range_hi",     "v float[2:4] = [1,2,3,4] cm\n"),
    ("dim_range_under",  "v float[2:4] = [1] cm\n"),
    ("dim_range_over",   "v float[2:4] = [1,2,3,4,5] cm\n"),
    ("dim_open_lo_ok",   "v float[:2] = [1]\n"),
    ("dim_open_lo_off",  "v float[:2] = [1,2,3]\n"),
    ("dim_open_hi_ok",   "v float[2:] = [1,2,3,4,5,6]\n"),
    ("dim_open_hi_off",  "v float[2:] = [1]\n"),
    ("dim_any",          "v str[:] = [\"a\",\"b\",\"c\"]\n"),
    ("dim_2d_ok",        "m int[2,3] = [[1,2,3],[4,5,6]]\n"),
    ("dim_2d_off",       "m int[2,3] = [[1,2],[4,5]]\n"),
    ("dim_2d_range",     "m int[1:2,:3] = [[1,2,3]]\n"),
    ("dim_2d_range_off", "m int[1:2,:3] = [[1,2,3,4]]\n"),
    ("dim_bool",         "b bool[2] = [true,false]\n"),
    ("dim_bool_off",     "b bool[2] = [true,false,true]\n"),
    ("dim_scalar_arr",   "v int = [1,2]\n"),
    ("dim_mod_off",      "v int[2] = [1,2]\nv = [1,2,3]\n"),
    ("dim_mod_ok",       "v int[2:3] = [1,2]\nv = [1,2,3]\n"),
    # ---- declared nodes must be defined
    ("decl_missing",     "a int\n"),
    ("decl_filled",      "a int\na = 3\n"),
    ("decl_float_miss",  "x float cm\ny float = 3\n"),
    ("decl_str_miss",    "s str\n"),
    ("decl_bool_miss",   "b bool\n"),
    ("decl_none",        "a int = none\n"),
    ("decl_case",        "@case true\n  a int\n@end\n"),
    ("decl_case_false",  "@case false\n  a int\n@end\nb int = 1\n"),
    # ---- combinations
    ("combo_ok",         "size float = 25 cm\n  = 25 cm\n  = 1 m\n  !condition ('{?} > 1 mm')\nname str = 'ab'\n  !options [\"ab\",\"cd\"]\n  !format '^[a-d]+$'\n"),
    ("combo_opt_off",    "size float = 26 cm\n  = 25 cm\n  = 1 m\n  !condition ('{?} > 1 mm')\n"),
    ("combo_cond_off",   "size float = 25 cm\n  = 25 cm\n  = 1 m\n  !condition ('{?} > 1 m')\n"),
    ("combo_fmt_off",    "name str = 'ab'\n  !options [\"ab\",\"cd\"]\n  !format '^[c-d]+$'\n"),
    ("combo_order",      "a int\nb int = 4\n  !condition ('{?} > 4')\n"),
    ("combo_order2",     "b int = 4\n  !condition ('{?} > 4')\na int\n"),
    ("combo_const",      "a int = 4\n  !constant\n  !condition ('{?} == 4')\n"),
    # ---- slices / casts feeding the dimension check
    ("slice_scalar",     "a int[3] = [1,2,3]\nb int = {?a}[1]\n"),
    ("slice_range_ok",   "a int[3] = [1,2,3]\nc int[2] = {?a}[0:2]\n"),
    ("slice_range_off",  "a int[3] = [1,2,3]\nc int[1] = {?a}[0:2]\n"),
    ("slice_to_scalar",  "a int[3] = [1,2,3]\nc int = {?a}[0:2]\n"),
    ("cast_bool_bad",    "b bool = maybe\n"),
    ("cast_int_bad",     "n int = abc\n"),
    ("cast_float_ref",   "x float = 3.0 cm\ny int = {?x}\n  !options [3,4] cm\n"),
    ("cast_int_ref",     "x int = 3 cm\ny float = {?x}\n  !condition ('{?} == 30 mm')\n"),
    ("cast_bool_ref",    "x bool = true\ny bool = {?x}\n  !condition ('{?}')\n"),
    ("dim_str_off",      "s str[2] = [\"a\",\"b\",\"c\"]\n"),
    ("dim_3d_ok",        "t int[2,1:2,2] = [[[1,2]],[[3,4]]]\n"),
    ("dim_3d_off",       "t int[2,2:,2] = [[[1,2]],[[3,4]]]\n"),
    ("dim_too_few_axes", "t int[2,2] = [1,2]\n"),
    ("dim_none_value",   "t int[2] = none\n"),
]

def plain(v):
    if isinstance(v, Type):
        return ['T', type(v).__name__, plain(v.value), plain(getattr(v, 'unit', None))]
    if isinstance(v, np.ndarray):
        return ['A', str(v.dtype), v.tolist()]
    if isinstance(v, (np.generic,)):
        return [type(v).__name__, v.item()]
    if isinstance(v, (list, tuple)):
        return [plain(x) for x in v]
    if isinstance(v, (str, int, float, bool)) or v is None:
        return [type(v).__name__, v]
    return repr(v)

out = {}
for name, code in CASES:
    try:
        with DIP() as p:
            p.add_string(code)
            env = p.parse()
        res = {}
        for node in env.nodes:
            opts = None
            if getattr(node, 'options', None):
                opts = [[plain(o.value), plain(o.value_raw), plain(o.units_raw)] for o in node.options]
            res[node.name] = dict(
                cls=type(node).__name__, value=plain(node.value), units=node.units_raw,
                options=opts, condition=node.condition,
                format=getattr(node, 'format', None), dimension=plain(node.dimension),
                constant=node.constant, defined=node.defined,
            )
        out[name] = ['ok', res, plain(env.autoref)]
        tup = env.data(format=Format.TUPLE)
        out[name].append({k: plain(v) for k, v in tup.items()})
    except Exception as e:
        out[name] = ['err', type(e).__name__, [plain(a) for a in e.args]]

DOCS = [
    ("docs_opts_units",  "size float = 24 cm\n  = 24 cm\n  = 25 m\nn int = 1 km\n  !options [1,2] m\n"),
    ("docs_opts_str",    "animal str = 'cow'\n  = 'cat'\n  = 'dog'\n"),
    ("docs_off_values",  "size float = 3 cm\n  = 24 cm\n  !condition ('{?} > 1 m')\nname str = '44'\n  !format '^[a-z]+$'\n"),
    ("docs_dim",         "v int[2] = [1,2,3]\n"),
]
for name, code in DOCS:
    try:
        with DIP() as p:
            p.add_string(code)
            doc = p.parse_docs()
        res = {}
        for node in doc.env.nodes:
            opts = None
            if getattr(node, 'options', None):
                opts = [[plain(o.value), plain(o.value_raw), plain(o.units_raw)] for o in node.options]
            res[node.name] = dict(cls=type(node).__name__, value=plain(node.value), options=opts,
                                  condition=node.condition, format=getattr(node, 'format', None))
        out[name] = ['ok', res]
    except Exception as e:
        out[name] = ['err', type(e).__name__, [plain(a) for a in e.args]]
print("@@RESULT@@" + json.dumps(out, sort_keys=True))
'''


def run(root):
    proc = subprocess.run([sys.executable, '-c', RUNNER, root],
                          capture_output=True, text=True, cwd='/tmp')
    if proc.returncode != 0:
        print(proc.stderr)
        raise SystemExit(2)
    for line in proc.stdout.splitlines():
        if line.startswith("@@RESULT@@"):
            return json.loads(line[len("@@RESULT@@"):])
    print("no result from", root)
    raise SystemExit(2)


def main():
    base, new = sys.argv[1], sys.argv[2]
    a, b = run(base), run(new)
    bad = 0
    for key in sorted(set(a) | set(b)):
        if a.get(key) != b.get(key):
            bad += 1
            print("DIFF", key)
            print("   base:", json.dumps(a.get(key))[:400])
            print("   new :", json.dumps(b.get(key))[:400])
    nok = sum(1 for v in a.values() if v[0] == 'ok')
    print(f"{len(a)} cases ({nok} accepted, {len(a)-nok} rejected in base), {bad} differences")
    sys.exit(1 if bad else 0)


if __name__ == '__main__':
    main()
