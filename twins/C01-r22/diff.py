#!/usr/bin/env python
"""Differential check: argv[1] = clean tree root, argv[2] = changed tree root."""
import subprocess, sys, os

CHILD = r'''
import sys, warnings
warnings.simplefilter("ignore")
import numpy as np
np.seterr(all="ignore")
from scinumtools.solver import ExpressionSolver, AtomBase, OperatorPar, OperatorLogb, OperatorPowb, OperatorExp
from scinumtools.solver.expression import Expression
from scinumtools.solver.tokens import Tokens

def show(tag, fn):
    try:
        r = fn()
        v = r.value if isinstance(r, AtomBase) else r
        print(tag, "OK", type(r).__name__, type(v).__name__, repr(v))
    except BaseException as e:
        print(tag, "EXC", type(e).__name__, repr(e.args))

EXPRS = [
    "1+2*3", "2**3**2", "-2**2", "- 3 + + 4", "2 - -3", "(1+2)*(3-4)/5", " ( 1 + 2 ) * 3 ",
    "exp(1)", "log(10)", "log10(1000)", "sqrt(16)+sin(0)*cos(0)-tan(0)", "logb(8,2)", "pow(2,10)",
    "pow((1+1),(2*3))", "logb( pow(2, 3) , 2 )", "1<2", "1<=1 && 2>3", "1==1 || 0", "!1", "!!0",
    "!(1>2) && 3!=4", "1 >= 2 || 2 >= 1", "exp(log(5))", "sqrt(-1)", "log(0)", "1/0", "1e3*2.5e-1",
    "((2))", "(1+2", "1+2)", "logb(8)", "pow(1,2,3)", "sqrt()", "sqrt(1,2)", "(1,2)", "1+", "*2",
    "1 2", "", "()", "abc", "exp(", "pow(2,(3)", "3*(2+(1-(4/2)))", "1.5e+2-1", "0&&1", "2||0", "0||0",
    "1 && 2", "-sqrt(4)", "2*-3", "2**-1", "10/4/5", "10-4-3", "1<2<3", "1==1==1",
]
for i, e in enumerate(EXPRS):
    def run(e=e):
        with ExpressionSolver(AtomBase) as es:
            return es.solve(e)
    show("S%02d %r" % (i, e), run)

# direct atom construction and arithmetic / comparison
VALS = [" 2.5 ", "3", 4.0, 2, True, False, 0.0, "-1e2", "x", "", None, np.float64(2.0), "nan", "inf"]
for i, v in enumerate(VALS):
    show("A%02d" % i, lambda v=v: AtomBase(v))
    show("R%02d" % i, lambda v=v: repr(AtomBase(v)))
PAIRS = [(2.0, 3.0), (2, 3), (True, 2.5), ("4", " 0.5"), (0.0, 0.0), (-8.0, 1/3), (1, 0), (1.0, 0.0), (False, True), (np.float64(3), 2)]
OPS = ["__add__", "__sub__", "__mul__", "__truediv__", "__pow__", "__eq__", "__ne__", "__le__", "__ge__", "__lt__", "__gt__", "logical_and", "logical_or"]
for i, (a, b) in enumerate(PAIRS):
    for op in OPS:
        show("B%02d %s" % (i, op), lambda a=a, b=b, op=op: getattr(AtomBase(a), op)(AtomBase(b)))
    for op in ["__neg__", "log", "log10", "sqrt", "sin", "cos", "tan", "logical_not"]:
        show("U%02d %s" % (i, op), lambda a=a, op=op: getattr(AtomBase(a), op)())
show("B-bad", lambda: AtomBase(1.0) + 2.0)
show("B-bad2", lambda: AtomBase(1.0) == 2.0)

# subclass of AtomBase: results must stay plain AtomBase
class MyAtom(AtomBase):
    pass
show("SUB1", lambda: type(MyAtom("2") + MyAtom("3")).__name__)
show("SUB2", lambda: type(MyAtom("2") < MyAtom("3")).__name__)
def sub_solve():
    with ExpressionSolver(MyAtom) as es:
        r = es.solve("exp(0)+pow(2,2)")
        return (type(r).__name__, r.value)
show("SUB3", sub_solve)

# direct construction of parenthesis operators
def par(cls, s):
    e = Expression(s)
    op = cls(e)
    return (type(op).__name__, repr(op.args), e.left, e.right, e.expr)
CASES = [(OperatorPar, "(1+2)*3"), (OperatorPar, "((1),(2))"), (OperatorPar, "(1,2)"), (OperatorPar, "(1"),
         (OperatorPar, "()"), (OperatorPar, "(a(b)c)d"), (OperatorLogb, "logb(8,2)+1"), (OperatorLogb, "logb(8)"),
         (OperatorLogb, "logb((1,2),3)"), (OperatorPowb, "pow( 2 , 3 )"), (OperatorPowb, "pow(2,3"),
         (OperatorPowb, "pow(1,2,3)"), (OperatorExp, "exp(1)"), (OperatorExp, "exp((("), (OperatorPar, "(,)"),
         (OperatorPar, "(1))"), (OperatorPar, "")]
for i, (cls, s) in enumerate(CASES):
    show("P%02d" % i, lambda cls=cls, s=s: par(cls, s))
show("P-none", lambda: OperatorPar(None))

# custom bracket symbols via subclass
class Brk(OperatorPar):
    symbol = '['
    symbol_open = '['
    symbol_close = ']'
    symbol_separator = ';'
    narg = 2
show("C1", lambda: par(Brk, "[1;[2;3]]x"))
show("C2", lambda: par(Brk, "[1,2]"))
show("C3", lambda: par(Brk, "[1;2;3]"))

# operate_args directly
def oargs(cls, s):
    e = Expression(s)
    op = cls(e)
    op.args = [AtomBase(a.expr) for a in op.args]
    t = Tokens(AtomBase)
    r = op.operate_args(t)
    return (r, [(type(x).__name__, type(x.value).__name__, repr(x.value)) for x in t.left], len(t.right))
for i, (cls, s) in enumerate([(OperatorPar, "(3)"), (OperatorExp, "exp(2)"), (OperatorLogb, "logb(9,3)"),
                              (OperatorLogb, "logb(0,1)"), (OperatorPowb, "pow(2,0.5)"), (OperatorPowb, "pow(0,-1)")]):
    show("O%02d" % i, lambda cls=cls, s=s: oargs(cls, s))
'''

def run(root):
    env = dict(os.environ)
    env["PYTHONPATH"] = os.path.join(os.path.abspath(root), "src")
    env["PYTHONDONTWRITEBYTECODE"] = "1"
    p = subprocess.run([sys.executable, "-c", "import sys; sys.path.insert(0, %r)\n" % env["PYTHONPATH"] + CHILD],
                       capture_output=True, text=True, env=env, cwd="/tmp")
    return p.returncode, p.stdout

def main():
    a = run(sys.argv[1]); b = run(sys.argv[2])
    if a != b:
        la, lb = a[1].splitlines(), b[1].splitlines()
        for x, y in zip(la, lb):
            if x != y:
                print("DIFF:\n  clean:   %s\n  changed: %s" % (x, y))
        print("returncodes", a[0], b[0], "lines", len(la), len(lb))
        sys.exit(1)
    n = len(a[1].splitlines())
    if a[0] != 0 or n < 12:
        print("child failed", a[0], n); sys.exit(1)
    print("identical: %d result lines" % n)
    sys.exit(0)

main()
