#!/venv/bin/python
"""Differential check: run the same inputs against two source trees and compare.

usage: diff.py <unmodified tree root> <refactored tree root>
exit 0 iff every observable output (values, units, exception types) is identical.
"""
import json
import subprocess
import sys

WORKER = r'''
import sys, json
root = sys.argv[1]
sys.path.insert(0, root + '/src')
import warnings
warnings.simplefilter('ignore')
import numpy as np
from decimal import Decimal
from scinumtools.units import Quantity
from scinumtools.units.base_units import BaseUnits, get_unit_base
from scinumtools.units.fraction import Fraction

def show(v):
    if isinstance(v, np.ndarray):
        return ['arr'] + [repr(float(x)) for x in v.ravel()]
    if isinstance(v, Decimal):
        return ['dec', str(v)]
    try:
        return ['num', repr(float(v))]
    except Exception:
        return ['obj', repr(v)]

def qshow(q):
    return {'value': show(q.magnitude.value),
            'error': None if getattr(q.magnitude, 'error', None) is None else show(q.magnitude.error),
            'units': q.units(), 'str': str(q)}

out = []
def run(label, fn):
    try:
        out.append([label, 'ok', fn()])
    except BaseException as e:
        out.append([label, 'exc', type(e).__name__])

temps = ['K', 'Cel', 'degF', 'degR', 'kK', 'mK']
tvals = [0.0, 23, -40.0, 273.15, 1234.5678, 1e-3]
for u1 in temps:
    for u2 in temps:
        for v in tvals:
            run(f'T {v} {u1}->{u2}', lambda: qshow(Quantity(v, u1).to(u2)))
            run(f'T rt {v} {u1}->{u2}->{u1}', lambda: qshow(Quantity(v, u1).to(u2).to(u1)))
run('T arr', lambda: qshow(Quantity([0., 10., 100.], 'Cel').to('degF')))
run('T arr2', lambda: qshow(Quantity(np.array([1., 2., 3.]), 'degF').to('kK')))
run('T value', lambda: show(Quantity(300, 'K').value('Cel')))
run('T err', lambda: qshow(Quantity(300, 'K', abse=0.5).to('mK')))
run('T err2', lambda: qshow(Quantity(300, 'K', abse=0.5).to('Cel')))
run('T compound', lambda: qshow(Quantity(1, 'Cel*m').to('K*m')))
run('T compound2', lambda: qshow(Quantity(1, 'Cel').to('K*m')))
run('T bad', lambda: qshow(Quantity(1, 'Cel').to('m')))
run('T prefix bad', lambda: qshow(Quantity(1, 'kCel')))
run('T add', lambda: qshow(Quantity(10, 'Cel') + Quantity(5, 'Cel')))
run('T sub', lambda: qshow(Quantity(300, 'K') - Quantity(5, 'K')))
run('T addK', lambda: qshow(Quantity(300, 'K') + Quantity(5, 'kK')))

pairs = [('PR','Np'),('PR','B'),('PR','dB'),('AR','Np'),('AR','B'),('AR','dB'),('AR','cNp'),('PR','dNp'),
         ('W','dBm'),('mW','dBm'),('uW','dBmW'),('W','dBW'),('kW','dBW'),('V','dBV'),('mV','dBV'),('uV','dBuV'),
         ('A','dBA'),('uA','dBuA'),('mA','dBuA'),('Ohm','dBOhm'),('Pa','dBSPL'),('W/m2','dBSIL'),('W','dBSWL'),
         ('dBW','dBm'),('dBW','dBmW'),('dBm','dBmW'),('dBV','dBuV'),('B','Np'),('dB','cNp'),('dB','B'),('Np','dNp'),
         ('dBm','dBV'),('dB','dBm'),('dBA','dBuA'),('Np','dBm')]
lvals = [1.0, 0.5, 1000, 3.16228, 42.0, 1e-6]
for u1, u2 in pairs:
    for v in lvals:
        run(f'L {v} {u1}->{u2}', lambda: qshow(Quantity(v, u1).to(u2)))
        run(f'L {v} {u2}->{u1}', lambda: qshow(Quantity(v, u2).to(u1)))
        run(f'L rt {v} {u1}->{u2}->{u1}', lambda: qshow(Quantity(v, u1).to(u2).to(u1)))
        run(f'L rt {v} {u2}->{u1}->{u2}', lambda: qshow(Quantity(v, u2).to(u1).to(u2)))
for u in ['Np','B','dB','dBm','dBmW','dBW','dBV','dBuV','dBA','dBuA','dBOhm','dBSPL','dBSIL','dBSWL','cNp','PR','AR']:
    for v in [0.0, 1.0, -20.0, 77.7]:
        run(f'L id {v} {u}', lambda: qshow(Quantity(v, u).to(u)))
run('L neg', lambda: qshow(Quantity(-1.0, 'PR').to('dB')))
run('L zero', lambda: qshow(Quantity(0.0, 'AR').to('dB')))
run('L arr', lambda: qshow(Quantity([1., 10., 100.], 'PR').to('dB')))
run('L err', lambda: qshow(Quantity(10., 'W', abse=0.1).to('dBm')))
run('L 3units', lambda: qshow(Quantity(1., 'dB*m*s').to('B*m*s')))
run('L frac', lambda: qshow(Quantity(1., 'dB/m').to('B/m')))

adds = [(80,'dB',75,'dB'),(0,'dB',0,'dB'),(1,'B',1,'B'),(3,'dBm',3,'dBm'),(10,'dBV',13,'dBV'),(2,'Np',1,'Np'),
        (70,'dBSPL',60,'dBSPL'),(-5.5,'dBW',12.25,'dBW'),(1,'B',10,'dB'),(10,'dB',1,'B'),(10,'dBm',10,'dBW'),
        (10,'dB',1,'Np'),(10,'dBm',1,'W'),(10,'dB',1,'m'),(5,'dBuA',5,'dBuA'),(20,'cNp',20,'cNp')]
for a, ua, b, ub in adds:
    run(f'A {a}{ua}+{b}{ub}', lambda: qshow(Quantity(a, ua) + Quantity(b, ub)))
    run(f'A {a}{ua}-{b}{ub}', lambda: qshow(Quantity(a, ua) - Quantity(b, ub)))
    run(f'A {b}{ub}-{a}{ua}', lambda: qshow(Quantity(b, ub) - Quantity(a, ua)))
run('A err', lambda: qshow(Quantity(80, 'dB', abse=0.5) + Quantity(75, 'dB', abse=0.25)))
run('A err sub', lambda: qshow(Quantity(80, 'dB', abse=0.5) - Quantity(75, 'dB', abse=0.25)))
run('A arr', lambda: qshow(Quantity([80., 70.], 'dB') + Quantity([75., 70.], 'dB')))
run('A radd', lambda: qshow(3 + Quantity(75, 'dB')))
run('A rsub', lambda: qshow(3 - Quantity(75, 'dB')))

# low-level helpers
def bshow(b):
    return [repr(b.magnitude), repr(b.dimensions.value()), b.units, b.expression]
for uid, exp in [('K', None), ('k:K', None), ('m:K', Fraction(2)), ('Cel', None), ('degF', Fraction(1, 2)),
                 ('degR', Fraction(-1)), ('d:B', None), ('c:Np', Fraction(3)), ('B', Fraction(4, 2)), ('Bm', None),
                 ('x:K', None), ('k:foo', None), ('foo', None), ('#ETEM', None), ('#SLEN', Fraction(2)),
                 ('#foo', None), ('a:b:c', None), ('u:W', Fraction(0))]:
    run(f'gub {uid} {exp}', lambda: bshow(get_unit_base(uid, exp)))
for expr in ['K', 'kK', 'Cel', 'degF', 'degR', 'dBm', 'cNp', 'dB/m', 'W/m2', 'mK2', 'K*Cel', 'kCel', 'xyz']:
    def bu():
        b = BaseUnits(expr)
        return [repr(b.magnitude), repr(b.dimensions.value()), b.units, b.expression, b.nodim, b.nobase]
    run(f'BU {expr}', bu)
run('eq T', lambda: bool(Quantity(0, 'Cel').to('K') == Quantity(273.15, 'K')))
run('eq L', lambda: bool(Quantity(1, 'B') == Quantity(10, 'dB')))
print(json.dumps(out))
'''


def collect(root):
    p = subprocess.run([sys.executable, '-c', WORKER, root], capture_output=True, text=True)
    if p.returncode != 0:
        print('worker failed for', root, '\n', p.stderr[-3000:])
        sys.exit(2)
    return json.loads(p.stdout.strip().splitlines()[-1])


def main():
    a = collect(sys.argv[1])
    b = collect(sys.argv[2])
    bad = 0
    if len(a) != len(b):
        print('different number of results', len(a), len(b))
        bad += 1
    for ra, rb in zip(a, b):
        if ra != rb:
            bad += 1
            print('DIFF', ra, '!=', rb)
    n_ok = sum(1 for r in a if r[1] == 'ok')
    print(f'{len(a)} inputs compared ({n_ok} ok, {len(a) - n_ok} raising), {bad} differences')
    sys.exit(1 if bad else 0)


if __name__ == '__main__':
    main()
