#!/venv/bin/python
"""Differential check for property C06 (Quantity arithmetic vs base-dimension arithmetic).

usage: diff.py <unmodified tree root> <refactored tree root>
Runs the same probe inputs against each tree in a separate subprocess and exits 0 iff
every observable output (values, units, dimensions, exception types) is identical.
"""
import json
import os
import subprocess
import sys

PROBE = r'''
import sys, json
root = sys.argv[1]
sys.path.insert(0, root + '/src')
import numpy as np
import scinumtools
assert scinumtools.__file__.startswith(root + '/'), (scinumtools.__file__, root)
from scinumtools.units import Quantity, Fraction, Dimensions
from scinumtools.units.base_units import BaseUnits, get_unit_base

def num(x):
    if isinstance(x, np.ndarray):
        return [repr(float(v)) for v in x.ravel()]
    try:
        return repr(float(x))
    except Exception:
        return repr(x)

def fr(f):
    return [int(f.num), int(f.den)]

def show(q):
    if isinstance(q, Quantity):
        base = None
        try:
            dims = q.baseunits.dimensions.value()
            base = [num(q.magnitude.value * q.baseunits.magnitude), repr(dims)]
        except Exception as e:
            base = ['EXC', type(e).__name__]
        err = q.magnitude.error
        return {'t': 'Q', 'v': num(q.magnitude.value), 'e': None if err is None else num(err),
                'u': q.units(), 'bu': {k: fr(v) for k, v in q.baseunits.baseunits.items()},
                'str': str(q), 'base': base}
    if isinstance(q, BaseUnits):
        return {'t': 'BU', 'bu': {k: fr(v) for k, v in q.baseunits.items()}, 'm': num(q.magnitude),
                'x': q.expression, 'd': repr(q.dimensions), 'units': q.units, 'nodim': q.nodim,
                'nobase': q.nobase}
    if isinstance(q, Fraction):
        return {'t': 'F', 'f': fr(q), 's': str(q)}
    if isinstance(q, (bool, np.bool_)):
        return bool(q)
    return repr(q)

def run(fn):
    try:
        return show(fn())
    except BaseException as e:
        return {'t': 'EXC', 'type': type(e).__name__}

Q = Quantity
units = ['m', 'km', 'cm', 's', 'min', 'kg', 'g', 'J', 'N', 'erg', 'eV', 'W', 'Pa', 'km/s',
         'kg*m2/s2', 'm/s2', 'N*m', 'g/cm3', 'rad', 'deg', 'K', 'mol', 'C', 'Hz', 'l',
         'au', 'ly', 'pc', 'h', 'km2', 'cm-1', 'kW*h']
mags = [1.0, 2.5, -3.0, 0.0, 1e-12, 7e20, [1.0, 2.0, 4.0], np.array([0.5, -1.5])]
powers = [2, 3, -1, 0, 1, (1, 2), (3, 2), (-2, 3), 0.5, 1.5, -0.25, 2.0, Fraction(1, 3), Fraction(2)]

cases = []
def add(name, fn):
    cases.append((name, fn))

for i, u1 in enumerate(units):
    for j, u2 in enumerate(units):
        if (i * 7 + j * 3) % 5 not in (0, 1):
            continue
        m1 = mags[(i + j) % len(mags)]
        m2 = mags[(i * 3 + j + 1) % len(mags)]
        if isinstance(m1, (list, np.ndarray)) and isinstance(m2, (list, np.ndarray)):
            m2 = 3.0
        add('add %s %s' % (u1, u2), lambda m1=m1, m2=m2, u1=u1, u2=u2: Q(m1, u1) + Q(m2, u2))
        add('sub %s %s' % (u1, u2), lambda m1=m1, m2=m2, u1=u1, u2=u2: Q(m1, u1) - Q(m2, u2))
        add('mul %s %s' % (u1, u2), lambda m1=m1, m2=m2, u1=u1, u2=u2: Q(m1, u1) * Q(m2, u2))
        add('div %s %s' % (u1, u2), lambda m1=m1, m2=m2, u1=u1, u2=u2: Q(m1, u1) / Q(m2, u2))
        add('chain %s %s' % (u1, u2), lambda m1=m1, m2=m2, u1=u1, u2=u2: (Q(m1, u1) * Q(m2, u2)) / Q(2.0, u1))
        add('rebase %s %s' % (u1, u2), lambda m1=m1, m2=m2, u1=u1, u2=u2: (Q(m1, u1) * Q(m2, u2)).rebase())

for i, u in enumerate(units):
    for k, m in enumerate(mags):
        if (i + k) % 3:
            continue
        add('neg %s %d' % (u, k), lambda m=m, u=u: -Q(m, u))
        add('lnum+ %s %d' % (u, k), lambda m=m, u=u: 3 + Q(m, u))
        add('rnum+ %s %d' % (u, k), lambda m=m, u=u: Q(m, u) + 3)
        add('lnum- %s %d' % (u, k), lambda m=m, u=u: 3.5 - Q(m, u))
        add('rnum- %s %d' % (u, k), lambda m=m, u=u: Q(m, u) - 3.5)
        add('lnum* %s %d' % (u, k), lambda m=m, u=u: 4 * Q(m, u))
        add('rnum* %s %d' % (u, k), lambda m=m, u=u: Q(m, u) * 4.0)
        add('lnum/ %s %d' % (u, k), lambda m=m, u=u: 4 / Q(m, u))
        add('rnum/ %s %d' % (u, k), lambda m=m, u=u: Q(m, u) / 4)
        add('arr* %s %d' % (u, k), lambda m=m, u=u: Q(m, u) * [1.0, 2.0] if not isinstance(m, (list, np.ndarray)) else Q(m, u) * 2)
        add('self/ %s %d' % (u, k), lambda m=m, u=u: Q(m, u) / Q(2.0, u))
    for p_i, p in enumerate(powers):
        if (i + p_i) % 2:
            continue
        m = [4.0, 2.0, [1.0, 9.0], 0.25][(i + p_i) % 4]
        add('pow %s %r' % (u, p), lambda m=m, u=u, p=p: Q(m, u) ** p)
        add('powdiv %s %r' % (u, p), lambda m=m, u=u, p=p: (Q(m, u) ** p) / (Q(1.0, u) ** p))

# same-dimension groups: sums and differences in every mix of units
groups = [['m', 'km', 'cm', 'au', 'ly', 'pc', 'mm'], ['J', 'erg', 'eV', 'kg*m2/s2', 'N*m', 'kW*h', 'W*s'],
          ['s', 'min', 'h', 'Hz-1'], ['kg', 'g', 'mg'], ['km/s', 'm/s', 'km/h', 'cm*s-1'],
          ['rad', 'deg'], ['Pa', 'N/m2', 'bar']]
for g in groups:
    for i, u1 in enumerate(g):
        for j, u2 in enumerate(g):
            m1 = mags[(i + 2 * j) % len(mags)]
            m2 = mags[(3 * i + j + 1) % len(mags)]
            if isinstance(m1, (list, np.ndarray)) and isinstance(m2, (list, np.ndarray)):
                m2 = -0.75
            add('gadd %s %s' % (u1, u2), lambda m1=m1, m2=m2, u1=u1, u2=u2: Q(m1, u1) + Q(m2, u2))
            add('gsub %s %s' % (u1, u2), lambda m1=m1, m2=m2, u1=u1, u2=u2: Q(m1, u1) - Q(m2, u2))
            add('gmix %s %s' % (u1, u2), lambda m1=m1, m2=m2, u1=u1, u2=u2: (Q(m1, u1) - Q(m2, u2)) * Q(2.0, u2) / Q(m1, u1) if not isinstance(m1, (list, np.ndarray)) and m1 != 0 else -(Q(m1, u1) + Q(m2, u2)))
# plain numbers with quantities whose units cancel
for m in mags:
    add('cnum+ %r' % (m,), lambda m=m: 3 + Q(m, 'km') / Q(2.0, 'm'))
    add('cnum- %r' % (m,), lambda m=m: Q(m, 'kW*h') / Q(2.0, 'J') - 1.5)
    add('cnumr- %r' % (m,), lambda m=m: 1.5 - Q(m, 's') * Q(2.0, 'Hz'))

# system-of-units quantities
sysu = ['#SPRE', '#CPRE', '#APRE', '#SACC', '#CACC', '#SACT', '#AACT']
for i, u1 in enumerate(sysu):
    for j, u2 in enumerate(sysu + ['Pa', 'm/s2', 'J*s']):
        add('sys+ %s %s' % (u1, u2), lambda u1=u1, u2=u2, i=i, j=j: Q(1.5 + i, u1) + Q(2.0 - j, u2))
        add('sys- %s %s' % (u1, u2), lambda u1=u1, u2=u2, i=i, j=j: Q(1.5 + i, u1) - Q(2.0 - j, u2))
        add('sys* %s %s' % (u1, u2), lambda u1=u1, u2=u2, i=i, j=j: Q(1.5 + i, u1) * Q(2.0 - j, u2))
        add('sys/ %s %s' % (u1, u2), lambda u1=u1, u2=u2, i=i, j=j: Q(1.5 + i, u1) / Q(2.5 + j, u2))
    add('sys** %s' % u1, lambda u1=u1, i=i: Q(1.5 + i, u1) ** (i - 3, 2))

# malformed exponents and factors
for bad_i, bad in enumerate([(1, 0), (1,), (), 'a', None, (2, 3, 4), [1, 2], np.array([1.0, 2.0]), float('nan'), float('inf')]):
    add('pow bad %d' % bad_i, lambda bad=bad: Q(4.0, 'm') ** bad)
    add('F* bad %d' % bad_i, lambda bad=bad: Fraction(3, 2) * bad)
    add('F/ bad %d' % bad_i, lambda bad=bad: Fraction(3, 2) / bad)
    add('BU* bad %d' % bad_i, lambda bad=bad: BaseUnits('km*s-1') * bad)
    add('BU/ bad %d' % bad_i, lambda bad=bad: BaseUnits('km*s-1') / bad)

# dimensionless numbers, errors, other operand kinds
add('nodim add', lambda: Q(2) + 3)
add('nodim radd', lambda: 3 + Q(2))
add('dim + num', lambda: Q(2, 'm') + 3)
add('num - dim', lambda: 3 - Q(2, 's'))
add('str operand', lambda: Q(2, 'm') + 'm')
add('none operand', lambda: Q(2, 'm') * None)
add('errs mul', lambda: Q(2.0, 'm', abse=0.1) * Q(3.0, 's', abse=0.2))
add('errs div', lambda: Q(2.0, 'km', rele=10) / Q(4.0, 's'))
add('errs add', lambda: Q(2.0, 'km', abse=0.1) + Q(30.0, 'm', abse=2))
add('errs sub', lambda: Q(2.0, 'km', abse=0.1) - Q(30.0, 'm'))
add('errs pow', lambda: Q(2.0, 'km', abse=0.1) ** 2)
add('temp add', lambda: Q(2.0, 'Cel') + Q(3.0, 'K'))
add('temp sub', lambda: Q(300.0, 'K') - Q(3.0, 'Cel'))
add('log add', lambda: Q(2.0, 'dBm') + Q(3.0, 'dBm'))
add('log add2', lambda: Q(2.0, 'dBm') + Q(3.0, 'm'))
add('dict units', lambda: Q(2.0, {'k:m': 1, 's': -1}) * Q(3.0, {'s': (1, 2)}))
add('list units', lambda: Q(2.0, [1, 0, -1, 0, 0, 0, 0, 0]) / Q(3.0, 'km'))
add('np.float', lambda: np.float64(2.0) * Q(3.0, 'm'))
add('np.array left', lambda: np.array([1.0, 2.0]) * Q(3.0, 'm'))
add('eq', lambda: (Q(1, 'km') + Q(1, 'm')) == Q(1001, 'm'))
add('cancel', lambda: Q(6.0, 'km') / Q(3.0, 'm'))
add('cancel2', lambda: Q(6.0, 'km*s') * Q(3.0, 'm-1'))
add('cancel3', lambda: Q(6.0, 'kW*h') / Q(3.0, 'J'))

# building blocks: BaseUnits / Fraction / get_unit_base
bu = ['m', 'km*s-1', 'kg*m2*s-2', 'cm3', 'N*m', 's-1', 'rad', 'J/K', None]
for a in bu:
    for b in bu:
        add('BU+ %s %s' % (a, b), lambda a=a, b=b: BaseUnits(a) + BaseUnits(b))
        add('BU- %s %s' % (a, b), lambda a=a, b=b: BaseUnits(a) - BaseUnits(b))
        add('BU== %s %s' % (a, b), lambda a=a, b=b: BaseUnits(a) == BaseUnits(b))
    for p in powers + [(4, 2), 0.3333333333333333, -1.0]:
        add('BU* %s %r' % (a, p), lambda a=a, p=p: BaseUnits(a) * p)
        if not (isinstance(p, (int, float)) and p == 0):
            add('BU/ %s %r' % (a, p), lambda a=a, p=p: BaseUnits(a) / p)
fracs = [Fraction(1), Fraction(0), Fraction(-3, 2), Fraction(2, 4), Fraction(5, -3), Fraction(7, 1)]
for f_i, f in enumerate(fracs):
    for p in powers + [(4, 2), (1.0, 2.0), 0.3333333333333333, -1.0, 1e-3, np.float64(0.75), np.int64(3)]:
        add('F* %d %r' % (f_i, p), lambda f=f, p=p: Fraction(f.num, f.den) * p)
        add('F/ %d %r' % (f_i, p), lambda f=f, p=p: Fraction(f.num, f.den) / p)
    for g_i, g in enumerate(fracs):
        add('F+ %d %d' % (f_i, g_i), lambda f=f, g=g: Fraction(f.num, f.den) + Fraction(g.num, g.den))
        add('F- %d %d' % (f_i, g_i), lambda f=f, g=g: Fraction(f.num, f.den) - Fraction(g.num, g.den))
    add('F+t %d' % f_i, lambda f=f: Fraction(f.num, f.den) + (1, 2))
    add('F-i %d' % f_i, lambda f=f: Fraction(f.num, f.den) - 2)
    add('F neg %d' % f_i, lambda f=f: -Fraction(f.num, f.den))
for uid in ['#SADO', '#CACC', '#AACT', '#SCAP', 'm', 'k:m', 'c:m', 'g', 'k:g', 'J', 'M:eV', 'min', 'rad', 'deg', 'Cel', '#NOPE', 'nope', 'x:m']:
    for e in [None, Fraction(1), Fraction(2), Fraction(-1, 2), Fraction(3, 2), Fraction(4, 2), Fraction(0)]:
        def gub(uid=uid, e=e):
            e2 = None if e is None else Fraction(e.num, e.den)
            b = get_unit_base(uid, e2)
            return repr((num(b.magnitude), repr(b.dimensions), b.units, b.expression,
                         None if e2 is None else (e2.num, e2.den)))
        add('gub %s %r' % (uid, e), gub)

out = {}
for idx, (name, fn) in enumerate(cases):
    out['%04d %s' % (idx, name)] = run(fn)
json.dump(out, sys.stdout, sort_keys=True)
'''


def run_tree(root):
    root = os.path.abspath(root)
    env = {k: v for k, v in os.environ.items() if k not in ('PYTHONPATH', 'PYTHONSTARTUP')}
    env['PYTHONDONTWRITEBYTECODE'] = '1'
    env['PYTHONWARNINGS'] = 'ignore'
    proc = subprocess.run([sys.executable, '-c', PROBE, root], capture_output=True, text=True,
                          env=env, cwd='/')
    if proc.returncode != 0:
        sys.stderr.write(proc.stderr)
        raise SystemExit(2)
    return json.loads(proc.stdout)


def main():
    a = run_tree(sys.argv[1])
    b = run_tree(sys.argv[2])
    bad = [k for k in sorted(set(a) | set(b)) if a.get(k) != b.get(k)]
    for k in bad[:20]:
        print('DIFF', k, a.get(k), b.get(k))
    nexc = sum(1 for v in a.values() if isinstance(v, dict) and v.get('t') == 'EXC')
    print('%d cases (%d raising), %d differences' % (len(a), nexc, len(bad)))
    sys.exit(1 if bad else 0)


if __name__ == '__main__':
    main()
