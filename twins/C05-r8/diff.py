#!/venv/bin/python
"""Differential check for property C05 (temperature / logarithmic conversions).

usage: diff.py <unmodified tree root> <refactored tree root>
Runs the same inputs against both trees (each in its own subprocess with its
own sys.path) and exits 0 iff every observable output is identical.
"""
import json
import os
import subprocess
import sys

DRIVER = r'''
import sys, json, itertools
root = sys.argv[1]
sys.path.insert(0, root + '/src')
import numpy as np
from decimal import Decimal
import scinumtools
assert scinumtools.__file__.startswith(root + '/'), scinumtools.__file__
from scinumtools.units import Quantity
from scinumtools.units.base_units import BaseUnits
from scinumtools.units.unit_types import (
    TemperatureUnitType, LogarithmicUnitType, StandardUnitType)

def show(q):
    mag = q.magnitude
    if hasattr(mag, 'value'):
        val, err = mag.value, getattr(mag, 'error', None)
    else:
        val, err = mag, None
    return {'type': type(q).__name__, 'mtype': type(mag).__name__,
            'vtype': type(val).__name__, 'value': repr(val),
            'error': repr(err), 'units': q.units(), 'str': str(q)}

out = []
def case(label, fn):
    try:
        res = fn()
        if isinstance(res, Quantity):
            res = show(res)
        else:
            res = repr(res)
        out.append([label, 'ok', res])
    except BaseException as e:
        out.append([label, 'exc', type(e).__name__, repr(e.args)])

# 1. all ordered pairs of temperature units (incl. prefixed kelvin)
temps = ['K', 'Cel', 'degF', 'degR', 'kK', 'mK']
tvals = [0, 23, -40, 273.15, 1e4, 0.001, -459.67]
for a, b in itertools.product(temps, temps):
    for v in tvals:
        case(f'T {v} {a}->{b}', lambda: Quantity(v, a).to(b))
        case(f'T rt {v} {a}->{b}->{a}', lambda: Quantity(v, a).to(b).to(a))
for a, b in itertools.product(temps, temps):
    case(f'T arr {a}->{b}', lambda: Quantity(np.array([1., 20., 300.]), a).to(b))
    case(f'T err {a}->{b}', lambda: Quantity(25., a, abse=0.5).to(b))
    case(f'T dec {a}->{b}', lambda: Quantity(Decimal('25.5'), a).to(b))
    case(f'T value {a}->{b}', lambda: Quantity(12.5, a).value(b))

# 2. logarithmic <-> linear pairs
logpairs = [
    ('PR','Np'),('PR','B'),('PR','dB'),('AR','Np'),('AR','B'),('AR','dB'),('AR','cNp'),('PR','dNp'),
    ('W','dBm'),('mW','dBm'),('uW','dBm'),('pW','dBm'),('W','dBmW'),('W','dBW'),('kW','dBW'),('W','Bm'),
    ('V','dBV'),('mV','dBV'),('V','dBuV'),('uV','dBuV'),('A','dBA'),('A','dBuA'),('uA','dBuA'),
    ('Ohm','dBOhm'),('Pa','dBSPL'),('W/m2','dBSIL'),('W','dBSWL'),
    ('B','Np'),('dB','cNp'),('dB','dNp'),('dB','B'),
    ('dBW','dBm'),('dBW','dBmW'),('dBm','dBmW'),('dBV','dBuV'),('BW','Bm'),
    ('dBm','dBV'),('dBV','dBA'),('dB','dBm'),('Np','dBm'),('dBSPL','dBSIL'),
]
lvals = [1, 10, 0.5, 3.16228, 1e-6, 250.0, 0, -3]
for a, b in logpairs:
    for v in lvals:
        case(f'L {v} {a}->{b}', lambda: Quantity(v, a).to(b))
        case(f'L {v} {b}->{a}', lambda: Quantity(v, b).to(a))
        case(f'L rt {v} {a}->{b}->{a}', lambda: Quantity(v, a).to(b).to(a))
        case(f'L rt {v} {b}->{a}->{b}', lambda: Quantity(v, b).to(a).to(b))
    case(f'L arr {a}->{b}', lambda: Quantity(np.array([1., 2., 40.]), a).to(b))
    case(f'L arr {b}->{a}', lambda: Quantity(np.array([1., 2., 40.]), b).to(a))
    case(f'L err {a}->{b}', lambda: Quantity(5., a, abse=0.25).to(b))
    case(f'L err {b}->{a}', lambda: Quantity(5., b, abse=0.25).to(a))
    case(f'L dec {b}->{a}', lambda: Quantity(Decimal('5'), b).to(a))

# 3. identity conversions
for u in ['Np','cNp','B','dB','dBm','dBmW','dBW','dBV','dBuV','dBA','dBuA','dBOhm','dBSPL','dBSIL','dBSWL',
          'K','Cel','degF','degR','kK']:
    for v in [0, 1, -17.5, 123.456]:
        case(f'I {v} {u}', lambda: Quantity(v, u).to(u))

# 4. level addition / subtraction
levels = ['dB','B','dBm','dBmW','dBW','dBV','dBuV','dBA','dBSPL','dBSIL','dBSWL','Np','cNp','dBOhm']
for u in levels:
    for a, b in [(20, 23), (23, 20), (0, 0), (10, 10), (-5, 3.5), (60, 1)]:
        case(f'A {a}+{b} {u}', lambda: Quantity(a, u) + Quantity(b, u))
        case(f'A {a}-{b} {u}', lambda: Quantity(a, u) - Quantity(b, u))
    case(f'A err {u}', lambda: Quantity(20., u, abse=0.1) + Quantity(23., u, abse=0.2))
    case(f'S err {u}', lambda: Quantity(23., u, abse=0.1) - Quantity(20., u, abse=0.2))
    case(f'A arr {u}', lambda: Quantity(np.array([20., 30.]), u) + Quantity(np.array([23., 10.]), u))
for u1, u2 in [('dBm','dBW'),('dBm','dBmW'),('dB','B'),('dBm','dBV'),('dBm','W'),('W','dBm'),
               ('dB','Np'),('dBm','dB'),('K','Cel'),('Cel','K'),('Cel','Cel'),('degF','degF'),
               ('Cel','degF'),('K','degR'),('degR','K'),('kK','K'),('dBV','dBuV'),('Cel','m')]:
    case(f'A mix {u1}+{u2}', lambda: Quantity(20, u1) + Quantity(23, u2))
    case(f'A mix {u1}-{u2}', lambda: Quantity(23, u1) - Quantity(20, u2))
case('A radd', lambda: 3 + Quantity(2, 'dB'))
case('A rsub', lambda: 3 - Quantity(2, 'dB'))

# 5. error paths / compound units
for a, b in [('Cel','m'),('m','Cel'),('Cel/s','K/s'),('K*m','Cel*m'),('Cel2','K2'),('dBm','m'),
             ('m','dBm'),('dBm/Hz','W/Hz'),('dBmW/Hz','dBm/Hz'),('dBm*m*s','W*m*s'),('dBm','dBSPL'),
             ('dBA','dBV'),('Np','W'),('degR','K'),('K','degR'),('K','kK'),('kg','g'),('s','Hz'),
             ('dBm','Cel'),('Cel','dBm'),('m','s'),('kg','K'),('K','J'),('W','V')]:
    case(f'E {a}->{b}', lambda: Quantity(10, a).to(b))
case('E prefix', lambda: Quantity(1, 'kCel'))

# 6. unit-type objects seen directly
def ut(cls, a, b):
    obj = cls(BaseUnits(a), BaseUnits(b))
    if obj is None:
        return None
    return (type(obj).__name__, tuple(obj.conversion))
for cls in (TemperatureUnitType, LogarithmicUnitType, StandardUnitType):
    for a, b in [('K','Cel'),('Cel','degF'),('degR','degF'),('K','K'),('m','s'),('m','km'),('s','Hz'),
                 ('dBm','W'),('W','dBm'),('dBW','dBm'),('dB','Np'),('dBm','dBm'),('dBm','dBV'),
                 ('Cel/s','K'),('dBm*m*s','W'),('dBm/Hz','W/Hz')]:
        case(f'U {cls.__name__} {a} {b}', lambda: ut(cls, a, b))
case('U process T', lambda: list(TemperatureUnitType.process))
case('U process L', lambda: list(LogarithmicUnitType.process))
case('U conversions L', lambda: sorted((k, tuple(v)) for k, v in LogarithmicUnitType.conversions.items()))

json.dump(out, sys.stdout)
'''


def run(root):
    root = os.path.abspath(root)
    env = dict(os.environ)
    env.pop('PYTHONPATH', None)
    env['PYTHONDONTWRITEBYTECODE'] = '1'
    p = subprocess.run([sys.executable, '-W', 'ignore', '-c', DRIVER, root],
                       capture_output=True, text=True, env=env, cwd='/')
    if p.returncode != 0:
        sys.stderr.write(p.stderr)
        raise SystemExit(2)
    return json.loads(p.stdout)


def main():
    if len(sys.argv) != 3:
        raise SystemExit('usage: diff.py <base tree> <refactored tree>')
    a = run(sys.argv[1])
    b = run(sys.argv[2])
    bad = 0
    if len(a) != len(b):
        print('different number of cases', len(a), len(b))
        bad += 1
    for x, y in zip(a, b):
        if x != y:
            bad += 1
            if bad <= 20:
                print('DIFF', x, '!=', y)
    nexc = sum(1 for x in a if x[1] == 'exc')
    print(f'{len(a)} cases ({nexc} raising), {bad} differences')
    sys.exit(1 if bad else 0)


if __name__ == '__main__':
    main()
