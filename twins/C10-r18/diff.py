#!/venv/bin/python
"""Differential check for property C10 (formula -> atoms decomposition).

usage: diff.py <unmodified tree root> <refactored tree root>
Runs the same inputs against both trees (each in its own subprocess with its
own sys.path) and exits 0 iff all observable outputs are identical.
"""
import json
import subprocess
import sys

PYTHON = "/venv/bin/python"

WORKER = r'''
import sys, json
root = sys.argv[1]
sys.path.insert(0, root + "/src")
import warnings
warnings.filterwarnings("ignore")
from scinumtools.materials import Substance, Element, SubstanceSolver
from scinumtools.units import Quantity

FORMULAS = [
    "H2O", "C", "C{12}", "C{-2}", "C{+}", "C{12-}", "C{13-2}", "C{13+2}",
    "[e]", "[n]", "[n]2", "[p]", "[p]2", "[p]B{11}", "D", "T", "D2O", "D{2-2}",
    "D{+}", "T{-}2", "H{1-1}", "H{1+}", "H{1-1} + B{11}", "(H2O)", "H(CN)",
    "Ca(OH)2", "H{1-1}2", "(H{1-1} + B{11})2", "((CB2)2Al)3",
    "C{13+2}(B{11}Li2)4 H{-}2 O{+3}", "C2 B4", "C2B4", "NaCl", "Fe2(SO4)3",
    "Al2(SO4)3(H2O)18", "C6H12O6", "U{235}O2", "U{238}F6", "Og", "Og{294}",
    "Tc", "He{3}He{4}", "HHH", "H + H", "H2 + O", "H * 2 + O", "2H",
    "(((H)2)2)2", "((H2O)2(NaCl)3)4", "  H2  O ", "Mg(OH)2 + CaCO3",
    "K4Fe(CN)6", "Pb{208}", "Sn{120+4}", "Cl{35-}", "Cl{37-1}Na{+}",
    "O{16}O{17}O{18}", "H{0}", "C12", "C1", "C0", "H2O1", "CH3(CH2)10CH3",
    # error inputs
    "Xx", "C{11}", "H{4}", "(H2O", "H2O)", "{12}", "", "h2o", "C{12", "H++",
    "Qq2", "[x]", "H{+-}",
]

ELEMENTS = [
    "B", "B{11}", "B{11-1}", "O", "O{17-2}", "[p]", "[n]", "[e]", "D", "T",
    "D{+}", "T{-2}", "D{2-}", "H{3}", "U", "U{235}", "Og", "Tc", "Fe{+3}",
    "Fe{56+2}", "Cl{-}", "Cl{+}", "He{0}", "Zz", "C{99}", "1H", "",
]

def num(v):
    if isinstance(v, Quantity):
        return ["Q", repr(float(v.value())), str(v.units()) if callable(getattr(v, "units", None)) else None]
    try:
        import numpy as np
        if isinstance(v, np.generic):
            return [type(v).__name__, repr(v.item())]
    except Exception:
        pass
    return [type(v).__name__, repr(v)]

def table(pt):
    if pt is None:
        return None
    return {str(key): {k: num(v) for k, v in row.items()}
            for key, row in pt.data().items()}

def describe_element(e):
    return {
        "expr": e.expr, "element": e.element, "isotope": num(e.isotope),
        "ionisation": num(e.ionisation), "mass": num(e.mass), "Z": num(e.Z),
        "N": num(e.N), "e": num(e.e), "proportion": num(e.proportion),
        "component_mass": num(e.component_mass),
        "composite_mass": num(e.composite_mass), "str": str(e),
    }

def describe_substance(s):
    return {
        "expr": s.expr,
        "order": list(s.components.keys()),
        "components": {k: describe_element(v) for k, v in s.components.items()},
        "proportion_norm": num(s.proportion_norm),
        "composite_mass": num(s.composite_mass),
        "str": str(s),
        "data_components_q": table(s.data_components()),
        "data_components": table(s.data_components(quantity=False)),
        "data_composite_q": table(s.data_composite()),
        "data_composite": table(s.data_composite(quantity=False)),
    }

def guarded(fn):
    try:
        return {"ok": fn()}
    except BaseException as exc:
        return {"exc": type(exc).__name__}

results = {}
for natural in (True, False):
    for f in FORMULAS:
        results["S|%s|%s" % (natural, f)] = guarded(
            lambda: describe_substance(Substance(f, natural=natural)))
    for x in ELEMENTS:
        results["E|%s|%s" % (natural, x)] = guarded(
            lambda: describe_element(Element(x, natural=natural)))
        results["E3|%s|%s" % (natural, x)] = guarded(
            lambda: describe_element(Element(x, 3, natural=natural)))

# preprocessing of the formula text
with SubstanceSolver(Substance().atom) as ms:
    for f in FORMULAS + ["(C + B * 2) * 2", "C{13+2} + (B{11} + Li * 2)4",
                         "A(B)C", "(A)2(B)3", ")2(", "a b c", "Ab12Cd{3-}4 (Ef)"]:
        results["P|" + f] = guarded(lambda: ms.preprocess(f))
        results["SOLVE|" + f] = guarded(lambda: describe_substance(ms.solve(f)))

# deterministic pseudo-random formula-like strings through the preprocessor
import random
rng = random.Random(20260929)
TOKENS = ["H", "C", "O", "Na", "Cl", "Fe", "[p]", "[n]", "[e]", "D", "T", "(", ")", "{", "}",
          "{12}", "{13+2}", "{-}", "{+3}", "+", "-", "*", " + ", " * ", " ", "  ", "1", "2", "3", "10", "b", "x"]
with SubstanceSolver(Substance().atom) as ms:
    for i in range(400):
        f = "".join(rng.choice(TOKENS) for _ in range(rng.randint(1, 9)))
        results["FUZZP|%d|%s" % (i, f)] = guarded(lambda: ms.preprocess(f))
        results["FUZZS|%d|%s" % (i, f)] = guarded(lambda: describe_substance(Substance(f, natural=bool(i % 2))))

# isotope table helpers, every element / every tabulated isotope
from scinumtools.materials.element import PERIODIC_TABLE
probe = Element("H")
for sym in list(PERIODIC_TABLE.keys()):
    for ion in (0, None, 2, -1):
        results["ABU|%s|%s" % (sym, ion)] = guarded(
            lambda: [num(v) for v in probe.get_abundant(sym, ion)])
        results["NAT|%s|%s" % (sym, ion)] = guarded(
            lambda: [num(v) for v in probe.get_natural(sym, ion)])
    for iso in list(PERIODIC_TABLE[sym].A.keys()):
        results["ISO|%s|%s" % (sym, iso)] = guarded(
            lambda: [num(v) for v in probe.get_isotope(sym, int(iso), -1)])
    results["ISO|%s|default" % sym] = guarded(
        lambda: [num(v) for v in probe.get_isotope(sym, None, None)])
    results["ISO|%s|999" % sym] = guarded(
        lambda: [num(v) for v in probe.get_isotope(sym, 999, 0)])

# arithmetic on substances / elements
def arith():
    out = {}
    for natural in (True, False):
        a = Substance("H2O", natural=natural)
        b = Substance("NaCl{35}", natural=natural)
        c = Substance({"H": 2, "O{16}": 1, "[p]": 3}, natural=natural)
        el = Element("O{18}", 2, natural=natural)
        out["a+b|%s" % natural] = describe_substance(a + b)
        out["a+a|%s" % natural] = describe_substance(a + a)
        out["a*3|%s" % natural] = describe_substance(a * 3)
        out["a*2.5|%s" % natural] = describe_substance(a * 2.5)
        out["(a+b)*2+c|%s" % natural] = describe_substance((a + b) * 2 + c)
        out["a+el|%s" % natural] = describe_substance(a + el)
        out["c|%s" % natural] = describe_substance(c)
        out["el*4|%s" % natural] = describe_element(el * 4)
        out["el+el|%s" % natural] = describe_element(el + el)
        a.add("O", 2); a.add("C{13}")
        out["a.add|%s" % natural] = describe_substance(a)
        out["empty|%s" % natural] = [Substance(natural=natural).expr,
                                     list(Substance(natural=natural).components)]
    return out
results["ARITH"] = guarded(arith)
results["ARITH_ERR1"] = guarded(lambda: str(Element("O") + Element("H")))
results["ARITH_ERR2"] = guarded(lambda: str(Substance("H2O") + 3))
results["ATOM_NUM"] = guarded(lambda: [Substance().atom("12"), Substance().atom("1.5e3")])

# materials share the add/multiply machinery of substances
from scinumtools.materials import Material, Norm
def describe_material(m):
    return {
        "expr": m.expr, "order": list(m.components.keys()),
        "components": {k: [num(v.proportion), describe_substance(v)["components"], num(v.component_mass)]
                       for k, v in m.components.items()},
        "proportion_norm": num(m.proportion_norm), "composite_mass": num(m.composite_mass),
        "data_components": table(m.data_components(quantity=False)),
        "data_composite": table(m.data_composite(quantity=False)),
    }
def materials():
    out = {}
    for norm in (Norm.NUMBER_FRACTION, Norm.MASS_FRACTION):
        m1 = Material("0.2 <H2O> 0.8 <NaCl>", norm_type=norm)
        m2 = Material({"CO2": 0.5, "H2O": 0.25, "D2O{18}": 0.25}, norm_type=norm, natural=False)
        out["m1|%s" % norm.name] = describe_material(m1)
        out["m2|%s" % norm.name] = describe_material(m2)
        out["m1+m2|%s" % norm.name] = describe_material(m1 + m2)
        out["2*m1|%s" % norm.name] = describe_material(2 * m1)
        out["m1+s|%s" % norm.name] = describe_material(m1 + Substance("Ca(OH)2", 0.5))
        out["m1+m1|%s" % norm.name] = describe_material(m1 + m1)
    return out
results["MATERIALS"] = guarded(materials)
results["MAT_ERR"] = guarded(lambda: describe_material(Material("0.2 <H2O> 0.8 <NaCl>") + None))
results["SUB_ERR_NONE"] = guarded(lambda: describe_substance(Substance("H2O") + None))
results["SUB_ADD_STR"] = guarded(lambda: describe_substance(Substance("H2O") + "O"))

json.dump(results, sys.stdout, sort_keys=True)
'''


def run(root):
    proc = subprocess.run([PYTHON, "-B", "-c", WORKER, root], capture_output=True, text=True)
    if proc.returncode != 0:
        print("worker failed for", root)
        print(proc.stderr[-3000:])
        sys.exit(2)
    return json.loads(proc.stdout)


def main():
    base, new = sys.argv[1], sys.argv[2]
    a, b = run(base), run(new)
    bad = [k for k in sorted(set(a) | set(b)) if a.get(k) != b.get(k)]
    n_ok = sum(1 for v in a.values() if "ok" in v)
    print("cases: %d (%d returning a value, %d raising); differing: %d"
          % (len(a), n_ok, len(a) - n_ok, len(bad)))
    for k in bad[:20]:
        print("DIFF", k)
        print("   base:", json.dumps(a.get(k))[:400])
        print("   new :", json.dumps(b.get(k))[:400])
    sys.exit(1 if bad else 0)


if __name__ == "__main__":
    main()
