#!/venv/bin/python
"""Differential check for property C11 (number / mass fractions of composites).

usage: diff.py <unmodified tree root> <refactored tree root>

Runs the same set of inputs against both trees (each in its own subprocess with
its own sys.path) and exits 0 iff every observable output (values, units,
raised exception types, printed tables) is identical.
"""
import json
import os
import subprocess
import sys

WORKER = r'''
import sys, os, io, json, contextlib
root = sys.argv[1]
sys.path.insert(0, os.path.join(root, 'src'))
import warnings
warnings.filterwarnings('ignore')
import numpy as np
import scinumtools
assert os.path.abspath(scinumtools.__file__).startswith(os.path.abspath(root) + os.sep), scinumtools.__file__
from scinumtools.units import Quantity
from scinumtools.materials import Material, Substance, Element, Norm

def ser(v):
    if isinstance(v, Quantity):
        return ['Q', repr(v.value()), str(v.units())]
    if isinstance(v, (list, tuple)):
        return [ser(i) for i in v]
    if isinstance(v, dict):
        return {str(k): ser(i) for k, i in v.items()}
    if isinstance(v, (float, np.floating)):
        return ['f', repr(float(v))]
    if isinstance(v, (int, np.integer)) and not isinstance(v, bool):
        return ['i', repr(int(v))]
    return [type(v).__name__, str(v)]

def table(pt):
    if pt is None:
        return None
    return {'keys': list(pt.keys()), 'rows': {k: ser(v.data()) for k, v in pt.items()}}

def snapshot(c, components=None, matter=False):
    out = {}
    out['str'] = str(c)
    out['expr'] = c.expr
    out['norm_type'] = str(c.norm_type)
    out['proportion_norm'] = ser(c.proportion_norm)
    out['composite_mass'] = ser(c.composite_mass)
    out['proportions'] = {k: ser(m.proportion) for k, m in c.components.items()}
    out['component_masses'] = {k: ser(m.component_mass) for k, m in c.components.items()}
    out['data_components_q'] = table(c.data_components())
    out['data_components'] = table(c.data_components(quantity=False))
    out['data_composite_q'] = table(c.data_composite())
    out['data_composite'] = table(c.data_composite(quantity=False))
    if components:
        out['data_composite_sel'] = table(c.data_composite(components=components, quantity=False))
    if matter:
        out['number_density'] = ser(c.number_density)
        out['mass_density'] = ser(c.mass_density)
        out['mass'] = ser(c.mass)
        out['data_matter'] = table(c.data_matter(quantity=False))
        out['data_matter_q'] = table(c.data_matter())
    buf = io.StringIO()
    with contextlib.redirect_stdout(buf):
        c.print()
    out['print'] = buf.getvalue()
    return out

def mass_fractions_of(m):
    d = m.data_composite(quantity=False)
    return {k: d[k].X for k in m.components.keys()}

AIR = {'N2': 78.0840, 'O2': 20.9460, 'Ar': 0.93400, 'CO2': 0.03600}

def case_air_number(natural):
    return snapshot(Material(dict(AIR), natural=natural, norm_type=Norm.NUMBER_FRACTION))

def case_air_scaled(factor, natural=True):
    return snapshot(Material({k: v*factor for k, v in AIR.items()}, natural=natural, norm_type=Norm.NUMBER_FRACTION))

def case_roundtrip(spec, natural):
    a = Material(dict(spec), natural=natural, norm_type=Norm.NUMBER_FRACTION)
    b = Material(mass_fractions_of(a), natural=natural, norm_type=Norm.MASS_FRACTION)
    return {'number': snapshot(a), 'mass': snapshot(b)}

def case_mass_fraction(spec, natural=True, scale=1):
    return snapshot(Material({k: v*scale for k, v in spec.items()}, natural=natural, norm_type=Norm.MASS_FRACTION))

def case_number_norm():
    return snapshot(Material({'H2O': 2, 'NaCl': 3, 'B{11}N{14}H{1}6': 1}, norm_type=Norm.NUMBER))

def case_string_exprs():
    return [
        snapshot(Material('0.2 <H2O> 0.8 <NaCl>')),
        snapshot(Material('2 <H2O> 3 <NaCl>')),
        snapshot(Material('0.2 <H2O> 0.3 <NaCl>', norm_type=Norm.MASS_FRACTION)),
        snapshot(Material('0.683815 <H2O> 0.316185 <NaCl>', norm_type=Norm.NUMBER_FRACTION), components=['NaCl']),
        snapshot(Material('<DT> 3 <He{3}> 0.5 <Fe{+2}O>', natural=False)),
    ]

def case_single():
    return [
        snapshot(Material({'H2O': 1.0}, natural=True)),
        snapshot(Material({'H2O': 7.5}, natural=False)),
        snapshot(Material({'U': 0.001}, norm_type=Norm.MASS_FRACTION)),
    ]

def case_matter():
    return [
        snapshot(Material('0.2 <H2O> 0.3 <NaCl>', mass_density=Quantity(0.3, 'g/cm3')), matter=True),
        snapshot(Material('0.2 <H2O> 0.3 <NaCl>', mass_density=Quantity(0.3, 'g/cm3'), volume=Quantity(1, 'l')), matter=True),
        snapshot(Material({'N2': 3, 'O2': 1}, number_density=Quantity(2.5e19, 'cm-3'), volume=Quantity(2, 'cm3'), norm_type=Norm.NUMBER_FRACTION), matter=True),
        snapshot(Material({'N2': 3, 'O2': 1}, number_density=Quantity(2.5e19, 'cm-3'), norm_type=Norm.NUMBER), matter=True),
    ]

def case_arithmetic():
    a = Material({'H2O': 0.2, 'NaCl': 0.3})
    b = Material({'NaCl': 0.1, 'KCl': 0.4})
    c = a + b
    d = 4 * c
    e = d + Substance('CO2', proportion=0.25)
    m = Material({'Fe2O3': 60, 'SiO2': 40}, norm_type=Norm.MASS_FRACTION)
    n = 0.01 * m
    o = m + Material({'SiO2': 10, 'CaO': 5}, norm_type=Norm.MASS_FRACTION)
    return [snapshot(x) for x in (c, d, e, n, o)]

def case_incremental_add():
    m = Material(norm_type=Norm.MASS_FRACTION, natural=False)
    snaps = [table(m.data_composite()), ser(m.proportion_norm), ser(m.composite_mass)]
    for expr, p in (('H2O', 10), ('C2H5OH', 30), ('H2O', 5), ('NaCl', 1e-3)):
        m.add(expr, p)
        snaps.append(snapshot(m))
    return snaps

def case_substances():
    out = []
    for expr, natural in (('H2O', True), ('C6H12O6', False), ('Ca(OH)2', True), ('DT', True),
                          ('Fe{56}2O{16}3', True), ('[p]2[e]', True), ('U{238}O{16-2}2', False)):
        out.append(snapshot(Substance(expr, natural=natural)))
    s = Substance('NaCl', natural=False, mass_density=Quantity(2.16, 'g/cm3'), volume=Quantity(3, 'cm3'))
    out.append(snapshot(s, components=['Cl'], matter=True))
    t = Substance({'C': 2, 'H': 6, 'O': 1})
    out.append(snapshot(t))
    out.append(snapshot(t * 3))
    out.append(snapshot(t + Substance('H2O')))
    out.append(snapshot(t + Element('O', 2)))
    return out

def case_many(k, mode, natural):
    names = ['H2', 'He', 'CH4', 'NH3', 'H2O', 'Ne', 'N2', 'CO', 'O2', 'Ar', 'CO2', 'SO2', 'Kr', 'Xe', 'SF6', 'UF6']
    spec = {names[i]: (i*i + 1)*0.37 + 1e-3*i for i in range(k)}
    return snapshot(Material(spec, natural=natural, norm_type=mode), components=names[:k:2])

def case_matter_number_density_mass_fraction():
    return snapshot(Material({'N2': 3, 'O2': 1}, number_density=Quantity(2.5e19, 'cm-3'), volume=Quantity(2, 'cm3'), norm_type=Norm.MASS_FRACTION), matter=True)

def case_matter_mass_density_mass_fraction():
    return snapshot(Material({'N2': 3, 'O2': 1}, mass_density=Quantity(1.2e-3, 'g/cm3'), volume=Quantity(2, 'cm3'), norm_type=Norm.MASS_FRACTION), matter=True)

def case_bad_substance():
    return snapshot(Substance('U{238}O2{-2}', natural=False))

def case_empty():
    m = Material()
    return [table(m.data_composite()), table(m.data_components()), ser(m.proportion_norm), ser(m.composite_mass), str(m)]

def case_bad_element():
    return snapshot(Material({'H2O': 1, 'Xx3': 2}))

def case_bad_isotope():
    return snapshot(Material({'H{9}2O': 1}, norm_type=Norm.MASS_FRACTION))

def case_bad_expr():
    return snapshot(Material('0.2 <H2O> 0.8 <>'))

def case_zero_norm():
    return snapshot(Material({'H2O': 0, 'NaCl': 0}))

def case_weird_norm():
    m = Material({'H2O': 1, 'NaCl': 2}, norm_type=None)
    out = [ser(m.proportion_norm), ser(m.composite_mass), table(m.data_components())]
    out.append(table(m.data_composite()))
    return out

CASES = [
    ('air_number_natural', lambda: case_air_number(True)),
    ('air_number_abundant', lambda: case_air_number(False)),
    ('air_scaled_0.01', lambda: case_air_scaled(0.01)),
    ('air_scaled_1e6_abundant', lambda: case_air_scaled(1e6, False)),
    ('air_scaled_third', lambda: case_air_scaled(1/3.)),
    ('roundtrip_air_natural', lambda: case_roundtrip(AIR, True)),
    ('roundtrip_brine_abundant', lambda: case_roundtrip({'H2O': 0.683815, 'NaCl': 0.316185}, False)),
    ('roundtrip_alloy', lambda: case_roundtrip({'Fe': 70, 'Cr': 19, 'Ni': 10, 'C{13}': 1}, True)),
    ('mass_fraction_steel', lambda: case_mass_fraction({'Fe': 70, 'Cr': 19, 'Ni': 11})),
    ('mass_fraction_steel_scaled', lambda: case_mass_fraction({'Fe': 70, 'Cr': 19, 'Ni': 11}, natural=False, scale=0.001)),
    ('number_norm', case_number_norm),
    ('string_exprs', case_string_exprs),
    ('single', case_single),
    ('matter', case_matter),
    ('arithmetic', case_arithmetic),
    ('incremental_add', case_incremental_add),
    ('substances', case_substances),
    ('many_16_number', lambda: case_many(16, Norm.NUMBER_FRACTION, True)),
    ('many_11_mass', lambda: case_many(11, Norm.MASS_FRACTION, False)),
    ('many_9_count', lambda: case_many(9, Norm.NUMBER, True)),
    ('matter_nd_mass_fraction', case_matter_number_density_mass_fraction),
    ('matter_md_mass_fraction', case_matter_mass_density_mass_fraction),
    ('bad_substance', case_bad_substance),
    ('empty', case_empty),
    ('bad_element', case_bad_element),
    ('bad_isotope', case_bad_isotope),
    ('bad_expr', case_bad_expr),
    ('zero_norm', case_zero_norm),
    ('weird_norm', case_weird_norm),
]

results = {}
for name, fn in CASES:
    try:
        results[name] = {'ok': fn()}
    except BaseException as e:
        results[name] = {'raised': type(e).__name__}
sys.stdout.write('@@RESULT@@' + json.dumps(results, sort_keys=True))
'''


def run(root):
    proc = subprocess.run(
        [sys.executable, '-c', WORKER, root],
        stdout=subprocess.PIPE, stderr=subprocess.PIPE, text=True,
        cwd='/', env={k: v for k, v in os.environ.items() if k != 'PYTHONPATH'},
    )
    if proc.returncode != 0 or '@@RESULT@@' not in proc.stdout:
        sys.stderr.write(f"worker failed for {root}:\n{proc.stderr}\n")
        sys.exit(2)
    return json.loads(proc.stdout.split('@@RESULT@@', 1)[1])


def main():
    if len(sys.argv) != 3:
        sys.stderr.write(__doc__)
        sys.exit(2)
    base = os.path.abspath(sys.argv[1])
    new = os.path.abspath(sys.argv[2])
    a, b = run(base), run(new)
    bad = [k for k in sorted(set(a) | set(b)) if a.get(k) != b.get(k)]
    n_ok = sum(1 for v in a.values() if 'ok' in v)
    print(f"{len(a)} cases ({n_ok} returning, {len(a) - n_ok} raising); {len(bad)} differ")
    for k in bad:
        print("DIFF", k)
        print("  base:", json.dumps(a.get(k))[:600])
        print("  new :", json.dumps(b.get(k))[:600])
    sys.exit(1 if bad else 0)


if __name__ == '__main__':
    main()
