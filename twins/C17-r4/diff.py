#!/venv/bin/python
"""Differential check for property C17 (references deliver the referenced node's
current value and unit).

usage: diff.py <unmodified tree root> <refactored tree root>

Every input below is run against both trees, each in its own subprocess with
its own sys.path; the script exits 0 iff all observable outputs (node names,
datatypes, values, units, attached constraints, raised exception types) agree.
"""
import json
import os
import subprocess
import sys
import tempfile

RUNNER = r'''
import sys, os, json
root, work = sys.argv[1], sys.argv[2]
sys.path.insert(0, os.path.join(root, 'src'))
os.chdir(work)
import numpy as np
from scinumtools.dip import DIP
from scinumtools.dip.settings import Format, Namespace, EnvType
from scinumtools.dip.environment import Environment

def val(v):
    if isinstance(v, np.ndarray):
        return ['array', str(v.dtype.kind), v.tolist()]
    if isinstance(v, (np.generic,)):
        return [type(v).__name__, v.item()]
    return [type(v).__name__, v if isinstance(v, (int, float, str, bool, type(None))) else repr(v)]

def describe_node(node):
    d = {
        'cls': type(node).__name__,
        'keyword': node.keyword,
        'vtype': type(node.value).__name__,
        'value': val(node.value.value) if hasattr(node.value, 'value') else val(node.value),
        'unit': getattr(node.value, 'unit', None),
        'units_raw': node.units_raw,
        'value_raw': val(node.value_raw),
        'indent': node.indent,
        'constant': node.constant,
        'condition': node.condition,
        'defined': node.defined,
        'options': repr(getattr(node, 'options', None)),
        'tags': repr(getattr(node, 'tags', None)),
        'format': repr(getattr(node, 'format', None)),
        'description': repr(getattr(node, 'description', None)),
        'isource': repr(node.isource)[-40:] if node.isource else repr(node.isource),
    }
    return d

def describe_env(env):
    out = {'order': [n.name for n in env.nodes]}
    for n in env.nodes:
        out[n.name] = describe_node(n)
    out['__units__'] = sorted(repr(k) for k in getattr(env.units, 'units', env.units).keys()) \
        if hasattr(getattr(env.units, 'units', env.units), 'keys') else repr(env.units)
    try:
        out['__data__'] = {k: repr(v) for k, v in env.data(format=Format.TUPLE).items()}
    except AttributeError:   # docs mode: declarations have no value
        out['__data__'] = {k: str(v) for k, v in env.data(format=Format.NODE).items()}
    return out

def run_code(code, base=None, docs=False):
    def fn():
        if base is not None:
            with DIP(name='base') as p0:
                p0.add_string(base)
                env0 = p0.parse()
            before = describe_env(env0)
            with DIP(env0, name='top') as p:
                p.add_string(code)
                env = p.parse()
            after0 = describe_env(env0)
            return {'env': describe_env(env), 'base_unchanged': before == after0, 'base': after0}
        with DIP(name='top') as p:
            p.add_string(code)
            if docs:
                d = p.parse_docs()
                return {'docs': describe_env(d.env) if hasattr(d, 'env') else repr(type(d))}
            env = p.parse()
        return {'env': describe_env(env)}
    return fn

def run_request(code, calls):
    def fn():
        with DIP(name='top') as p:
            p.add_string(code)
            env = p.parse()
        res = []
        for args, kwargs in calls:
            try:
                r = env.request(*args, **kwargs)
                if isinstance(r, str):
                    res.append(['str', r])
                elif isinstance(r, dict):
                    res.append(['dict', sorted(r.keys())])
                else:
                    res.append(['nodes', [[n.name, describe_node(n)] for n in r]])
            except Exception as e:
                res.append(['EXC', type(e).__name__, [str(a) for a in e.args]])
        res.append(describe_env(env))
        return res
    return fn

TREE = """
$unit boxlen = 2 m
box
  size float = 34 cm
    !options [34,50] cm
    !tags ["geom"]
    !description 'Box size'
  count int = 3
    !condition ('{?} > 1')
  lid bool = true
    !constant
  label str = 'crate'
    !format '[a-z]+'
  inner
    mass float = 2 kg
    ids int[3] = [1,2,3]
"""

CASES = {}
# --- injections -------------------------------------------------------------
CASES['inj_units'] = run_code("""
size1 float = 34 cm
size2 float = {?size1} m
size3 float = {?size2}
size1 = {?size2}
size4 float = {?size1} mm
""")
CASES['inj_after_mod'] = run_code("""
a float = 1 m
a = 250 cm
b float = {?a}
c float = {?a} km
a = 3 m
d float = {?a}
n int = 7
n = 9
m int = {?n}
k float = {?n}
""")
CASES['inj_bool_str'] = run_code("""
flag bool = true
other bool = {?flag}
flag = false
third bool = {?flag}
name str = "John Smith"
sur str = {?name}
name = "Jane Doe"
sur2 str = {?name}
""")
CASES['inj_slices'] = run_code("""
sizes float[3] = [34,23.34,1e34] cm
mysize float[2] = {?sizes}[:2]
one float = {?sizes}[1]
one_m float = {?sizes}[0] m
masses float[2,2] = [[34,23.34],[1,1e34]] g
mymass float[2] = {?masses}[:,1] kg
el float = {?masses}[1,0]
ids int[4] = [4,5,6,7]
tail int[2] = {?ids}[2:]
""")
CASES['inj_slice_scalar_err'] = run_code("""
sizes float[3] = [34,23.34,1e34] cm
mysize float = {?sizes}[:2]
""")
CASES['inj_none_value'] = run_code("""
a float = none cm
b float = {?a}
c float = {?a} m
s str = none
t str = {?s}
""")
CASES['inj_missing'] = run_code("""
a float = 1 m
b float = {?zzz}
""")
CASES['inj_str_slice'] = run_code("""
name str = "John Smith"
sur str = {?name}[5:]
""")
CASES['inj_unit_def'] = run_code("""
n float = 2.5 cm
k int = 4
$unit ua = {?n} m
$unit ub = {?k}
x float = 3 [ua]
y float = {?x} m
z float = 8 [ub]
z2 float = {?z}
z3 float = {?z} [ua]
""")
CASES['inj_many'] = run_code("""
g
  a float = 1 m
  b float = 2 m
c float = {?g.*}
""")
CASES['inj_all_err'] = run_code("""
a float = 1 m
b float = 2 m
c float = {?*}
""")
CASES['inj_no_local'] = run_code("""
c float = {?a}
""")
CASES['inj_unknown_source'] = run_code("""
a float = 1
c float = {nosuch?a}
""")
CASES['inj_remote'] = run_code("""
$source query = query.dip
$source matrix = matrix.txt
$source text = text.txt
$source table = table.txt
energy float = 34 erg
energy float = {query?energy}
energy = {query?energy} eV
energy = {query?energy}
e2 float = {query?energy}
e3 float = {query?energy} kJ
m2 int[3,4] = {query?matrix}
m1 int[3,4] = {matrix}
t2 str = {query?text}
t1 str = {text}
col int[3] = {query?matrix}[:,1]
tbl table = {table}
tb2 table = {query?table}
""")
CASES['inj_remote_blocks'] = run_code("""
$source matrix = matrix.txt
$source text = text.txt
$source query = query.dip
m1 int[3,4] = {matrix}
m3 float[3,4] = {matrix}
t1 str = {text}
col int[3] = {matrix}[:,1]
m2 float[3,4] = {query?matrix}
""")
CASES['inj_remote_many'] = run_code("""
$source query = query.dip
energy float = {query?*}
""")
CASES['inj_source_path'] = run_code("""
file str = nodes.dip
$source nodes = {?file}
{nodes?fruits}
pot float = {nodes?vegies.potato} kg
pot2 float = {nodes?vegies.potato}
""")
CASES['inj_in_case'] = run_code("""
g bool = true
a float = 5 cm
@case ("{?g}")
  b float = {?a} mm
@else
  b float = {?nothing}
@end
""")
# --- imports ----------------------------------------------------------------
CASES['imp_local'] = run_code(TREE + """
bowl
  {?box.inner.*}
plate {?box.size}
deep.er {?box.*}
cup
  {?box.count}
  {?box.lid}
  {?box.label}
""")
CASES['imp_all_local'] = run_code("""
a float = 1 m
b int = 2
  !options [2,3]
all {?*}
""")
CASES['imp_after_mod'] = run_code(TREE + """
box.size = 50 cm
box.inner.mass = 3000 g
copy {?box.*}
box.size = 34 cm
copy2 {?box.size}
copy.size = 34 cm
""")
CASES['imp_none_selected'] = run_code(TREE + """
bowl {?box.nothing.*}
""")
CASES['imp_none_selected2'] = run_code(TREE + """
bowl {?nothing}
x int = 1
""")
CASES['imp_remote'] = run_code("""
$source nodes = nodes.dip
{nodes?*}
box
  {nodes?*}
basket.bag {nodes?*}
bowl
  {nodes?fruits}
  {nodes?vegies.potato}
plate {nodes?vegies.*}
$source {nodes?blocks}
{blocks?energy}
""")
CASES['imp_remote_src_all'] = run_code("""
$source file = nodes.dip
$source {file?*}
{blocks?energy}
x float = {blocks?energy} erg
""")
CASES['imp_remote_src_err1'] = run_code("""
$source file = nodes.dip
$source {file?books}
""")
CASES['imp_remote_src_err2'] = run_code("""
$source blocks = nodes.dip
$source {blocks?blocks}
""")
CASES['imp_unknown_source'] = run_code("""
a int = 1
{nosuch?*}
""")
CASES['imp_block_source'] = run_code("""
$source text = text.txt
{text}
""")
# --- base environments --------------------------------------------------------
CASES['base_env'] = run_code("""
w float = {?box.size} mm
box.size = 50 cm
w2 float = {?box.size}
mine {?box.inner.*}
mine.mass = 1 kg
u float = 2 [boxlen]
v float = {?u} m
w3 float = {?box.size} [boxlen]
""", base=TREE)
CASES['base_env_remote'] = run_code("""
e float = {query?energy} erg
query.energy_copy {query?energy}
fr {nodes?*}
fr.fruits = 5
""", base="""
$source query = query.dip
$source nodes = nodes.dip
z int = 1
""")
# --- docs mode ------------------------------------------------------------------
CASES['docs_mode'] = run_code(TREE + """
w float = {?box.size} mm
z float = {?nothing}
q float = {nosuch?thing}
bowl {?box.inner.*}
cup {nosuch?*}
""", docs=True)
CASES['docs_many'] = run_code("""
g
  a float = 1 m
  b float = 2 m
c float = {?g.*}
""", docs=True)
# --- direct requests --------------------------------------------------------------
CASES['request_api'] = run_request(TREE + """
$source nodes = nodes.dip
$source text = text.txt
""", [
    (('?box.size',), {}),
    (('?box.size',), {'count': 1}),
    (('?box.*',), {'count': 1}),
    (('?box.*',), {'count': [6, 7]}),
    (('?box.*',), {'count': [0, 1]}),
    (('?nothing',), {'count': [0, 1]}),
    (('?nothing',), {'count': 1}),
    (('?nothing',), {}),
    (('?*',), {}),
    (('?*',), {'tags': ['geom']}),
    (('nodes?*',), {}),
    (('nodes?vegies.*',), {'count': 1}),
    (('nodes?fruits',), {'count': np.int64(1)}),
    (('nodes?blocks',), {'namespace': Namespace.SOURCES}),
    (('nodes?*',), {'namespace': Namespace.SOURCES}),
    (('nodes?energy',), {'namespace': Namespace.UNITS}),
    (('nodes?*',), {'namespace': Namespace.UNITS}),
    (('text',), {}),
    (('text',), {'count': 1}),
    (('nosuch',), {}),
    (('nosuch',), {'errsrc': False}),
    (('nosuch?x',), {'errsrc': False}),
    (('nosuch?x',), {'errsrc': False, 'count': 1}),
    (('nosuch?x',), {'errsrc': False, 'count': [0, 1]}),
    (('nosuch?x',), {}),
    (('?',), {}),
    (('a?b?c',), {}),
])

def run_empty_env():
    env = Environment()
    out = []
    for args, kwargs in [(('?a',), {}), (('?a',), {'errsrc': False}), (('src?a',), {'errsrc': False}),
                         (('src',), {'errsrc': False}), (('src?a',), {})]:
        try:
            r = env.request(*args, **kwargs)
            out.append([type(r).__name__, len(r)])
        except Exception as e:
            out.append(['EXC', type(e).__name__, [str(a) for a in e.args]])
    env.autoref = 'x'
    try:
        out.append(repr(env.request('?')))
    except Exception as e:
        out.append(['EXC', type(e).__name__, [str(a) for a in e.args]])
    return out
CASES['request_empty_env'] = run_empty_env

results = {}
for name, fn in CASES.items():
    try:
        results[name] = ['OK', fn()]
    except Exception as e:
        results[name] = ['EXC', type(e).__name__, [str(a) for a in e.args]]
    except SystemExit as e:
        results[name] = ['EXIT', repr(e)]
sys.stdout.write('@@RESULT@@' + json.dumps(results, sort_keys=True, default=repr))
'''

FILES = {
    'query.dip': '''energy float = 13 J
matrix str = """
[[4234,34,35,34],
[234,34,644,43],
[353,2356,234,3]]
"""
table str = """
x float m
y float m

0.234 0.234
1.355 1.43
2.535 2.423
"""
text str = """
This is a block text
with multiple lines.
"""
''',
    'nodes.dip': '''$source blocks = query.dip
$unit energy = 1 erg
fruits int = 0
vegies int = 1
   potato float = 200 g
''',
    'matrix.txt': '[[4234,34,35,34],\n[234,34,644,43],\n[353,2356,234,3]]\n',
    'text.txt': 'This is a block text\nwith multiple lines.\n',
    'table.txt': 'x float m\ny float m\n\n0.234 0.234\n1.355 1.43\n',
}


def run(root, work):
    runner = os.path.join(work, '_runner.py')
    with open(runner, 'w') as f:
        f.write(RUNNER)
    env = dict(os.environ)
    env.pop('PYTHONPATH', None)
    env['PYTHONDONTWRITEBYTECODE'] = '1'
    proc = subprocess.run([sys.executable, runner, os.path.abspath(root), work],
                          capture_output=True, text=True, env=env)
    if proc.returncode != 0 or '@@RESULT@@' not in proc.stdout:
        print('runner failed for', root)
        print(proc.stdout[-2000:])
        print(proc.stderr[-4000:])
        sys.exit(2)
    text = proc.stdout.split('@@RESULT@@', 1)[1]
    # the object name of a DIP instance is part of generated source names only;
    # names are fixed ('top'/'base'), so outputs are directly comparable
    return json.loads(text)


def main():
    a_root, b_root = sys.argv[1], sys.argv[2]
    outs = []
    for root in (a_root, b_root):
        with tempfile.TemporaryDirectory() as work:
            for name, text in FILES.items():
                with open(os.path.join(work, name), 'w') as f:
                    f.write(text)
            res = run(root, work)
            # temp dir names differ between the runs: normalise
            outs.append(json.loads(json.dumps(res).replace(work, '<WORK>')))
    a, b = outs
    bad = 0
    for name in sorted(set(a) | set(b)):
        if a.get(name) != b.get(name):
            bad += 1
            print('DIFF in case', name)
            print('  base:', json.dumps(a.get(name))[:1500])
            print('  new :', json.dumps(b.get(name))[:1500])
    n_ok = sum(1 for v in a.values() if v[0] == 'OK')
    print(f'{len(a)} cases ({n_ok} returning, {len(a)-n_ok} raising on base); {bad} differ')
    sys.exit(1 if bad else 0)


if __name__ == '__main__':
    main()
