#!/venv/bin/python
"""Differential check for property C02 (a solver instance is unaffected by what it solved before).

usage: diff.py <unmodified tree root> <refactored tree root>

Runs the same probe (many sequences of solve() calls on ONE instance, with
failing calls interleaved) against each tree in its own subprocess and exits 0
iff every observable outcome (repr of value / units / exception type) agrees.
"""
import json
import subprocess
import sys

PROBE = r'''
import sys, json, warnings
warnings.simplefilter("ignore")
sys.path.insert(0, sys.argv[1] + "/src")
import numpy as np
np.seterr(all="ignore")
from scinumtools.solver import *
from scinumtools.solver.expression import Expression
from scinumtools.solver.tokens import Tokens

out = []

def show(v):
    if isinstance(v, AtomBase):
        return "Atom:%r" % (v.value,)
    return "%s:%s" % (type(v).__name__, v)

def attempt(fn, *a, **k):
    try:
        return ["ok", show(fn(*a, **k))]
    except BaseException as e:
        return ["err", type(e).__name__]

def sequence(label, make, exprs):
    """solve all exprs on one shared instance; also on a fresh instance each."""
    shared = make()
    res = []
    for e in exprs:
        one = attempt(shared.solve, e)
        fresh = attempt(make().solve, e)
        res.append([e, one, fresh, one == fresh])
    out.append([label, res])

# ---- 1. default solver, AtomBase -------------------------------------------------
GOOD = ["1 + 2", "2 * (3 + 4)", "-3 + 5", "2**3**2", "10 / 4 - 1", "sqrt(16) + pow(2,3)",
        "logb(8,2)", "exp(0) + log(1)", "log10(1000)", "sin(0) + cos(0) + tan(0)",
        "1 < 2 && 3 >= 3", "!(1 == 2) || 0", "!!1", "4 != 4", "2 <= 1", "5 > 3",
        "3 - -2", "3 - +2", "+4", "((2))", "2 * -3", "1 - (2 - (3 - 4))"]
BAD = ["1 + abc", "(1 + 2", "2 * ", "* 2", "pow(2)", "logb(1,2,3)", "1 2", "sqrt(x)",
       "((1)", "1 +", "", "   ", "1 + (2 * (3 + q))", "!", "3 ** ", "1 && ", "()", "1)"]
mixed = []
for i, b in enumerate(BAD):
    mixed.append(GOOD[i % len(GOOD)])
    mixed.append(b)
    mixed.append(GOOD[(i * 7 + 3) % len(GOOD)])
sequence("default/mixed", lambda: ExpressionSolver(AtomBase), mixed)
sequence("default/good", lambda: ExpressionSolver(AtomBase), GOOD)
sequence("default/bad-then-good", lambda: ExpressionSolver(AtomBase), BAD + GOOD)
sequence("default/repeat", lambda: ExpressionSolver(AtomBase), ["1 + 2", "1 + 2", "(1", "1 + 2", "x", "1 + 2"])

# ---- 2. custom atom type, constructor raising -----------------------------------
class Pick(AtomBase):
    calls = 0
    def __init__(self, value):
        if isinstance(value, str):
            v = value.strip()
            if v == "boom":
                raise KeyError(v)
            if v == "zero":
                raise ZeroDivisionError(v)
            value = {"a": 1.0, "b": 2.0, "c": 3.0}.get(v, v)
            if isinstance(value, str):
                value = float(value)
        self.value = value
sequence("custom-atom", lambda: ExpressionSolver(Pick),
         ["a + b", "a + boom", "a * c", "(a + zero) * b", "b * (a + c)", "a + (b", "c - a",
          "sqrt(boom)", "pow(b,c)", "pow(b,boom)", "a < b", "d", "a"])

def fatom(s):
    s = s.strip()
    if s == "bad":
        raise RuntimeError(s)
    return AtomBase(float(s) * 2)
sequence("callable-atom", lambda: ExpressionSolver(fatom),
         ["1 + 2", "1 + bad", "2 * 3", "bad", "(1 + 1) * 2", "(bad)", "exp(1)", "1 - 1"])

# ---- 3. subset of operators ------------------------------------------------------
sub_ops = {"par": OperatorPar, "mul": OperatorMul, "truediv": OperatorTruediv}
sequence("subset-ops", lambda: ExpressionSolver(AtomBase, sub_ops),
         ["2 * 3", "2 + 3", "2 * (3 / 4)", "(2 * 3", "6 / 3", "2 * * 3", "8 / 2 / 2", "2 *", "7"])
sub_ops2 = {"add": OperatorAdd, "sub": OperatorSub, "and": OperatorAnd, "or": OperatorOr, "not": OperatorNot}
sequence("subset-ops2", lambda: ExpressionSolver(AtomBase, sub_ops2),
         ["1 + 2 - 3", "(1 + 2)", "1 - - 2", "!0 && 1", "1 ||", "0 || 2", "- 1 - 1", "!!0", "1 * 2"])

# ---- 4. custom step order --------------------------------------------------------
steps = [
    dict(operators=["par"], otype=Otype.ARGS),
    dict(operators=["add", "sub"], otype=Otype.BINARY),
    dict(operators=["mul", "truediv"], otype=Otype.BINARY),
]
ops4 = {"par": OperatorPar, "mul": OperatorMul, "truediv": OperatorTruediv, "add": OperatorAdd, "sub": OperatorSub}
sequence("custom-steps", lambda: ExpressionSolver(AtomBase, ops4, steps),
         ["1 + 2 * 3", "2 * 3 + 1", "(1 + 2", "2 * (1 + 2) * 3", "1 + x", "8 / 2 - 1", "-1", "4 - 1 - 1"])
steps5 = [
    dict(operators=["par", "sqrt", "nosuch"], otype=Otype.ARGS),
    dict(operators=["add"], otype=Otype.TERNARY),
    dict(operators=["nosuch"], otype=Otype.BINARY),
    dict(operators=["mul"], otype=Otype.UNARY),
    dict(operators=["add"], otype=Otype.BINARY),
]
ops5 = {"sqrt": OperatorSqrt, "par": OperatorPar, "mul": OperatorMul, "add": OperatorAdd}
sequence("odd-steps", lambda: ExpressionSolver(AtomBase, ops5, steps5),
         ["1 + 2", "sqrt(4) + 1", "2 * 3", "1 + (2 + 3)", "sqrt(4", "1 + 1"])

# ---- 5. Expression objects, context manager, nested args -------------------------
def as_expr():
    with ExpressionSolver(AtomBase) as es:
        r = []
        for e in ["1 + 1", "(2", "pow(2, (1 + 2))", "logb(pow(2,3), sqrt(4))", "pow((1,2)", "3 * 3"]:
            r.append([e, attempt(es.solve, Expression(e)), attempt(es.solve, e)])
        r.append(["state", [len(es.tokens.left), len(es.tokens.right), es.expr.left, es.expr.right, es.expr.expr]])
        return r
out.append(["expression-objects", as_expr()])

# ---- 6. low level helpers --------------------------------------------------------
def lowlevel():
    r = []
    e = Expression(" ab (cd, ef) g")
    e.shift(); e.shift(3); r.append([e.left, e.right, e.expr, repr(e)])
    e.remove(" (") ; r.append([e.left, e.right]); r.append(e.pop_left()); r.append([e.left, e.right])
    for src in ["(1, 2) + 3", "(1, (2, 3))x", "(1", "((1)", "()", "(,)", "(1))"]:
        for cls in (OperatorPar, OperatorPowb, OperatorSqrt, OperatorLogb):
            if not src.startswith("("):
                continue
            ex = Expression(cls.symbol + src[1:])
            try:
                op = cls(ex)
                r.append([cls.__name__, src, "ok", [a.expr for a in op.args], ex.left, ex.right, repr(op)])
            except BaseException as x:
                r.append([cls.__name__, src, "err", type(x).__name__, ex.left, ex.right])
    t = Tokens(AtomBase)
    r.append([t.get_left(), t.get_right()])
    for tok in (AtomBase(1.0), OperatorAdd(), AtomBase(2.0), OperatorMul(), AtomBase(4.0)):
        t.append(tok)
    for ops, ot in (((OperatorAdd,), Otype.UNARY), ((OperatorMul,), Otype.TERNARY), ((OperatorMul, OperatorTruediv), Otype.BINARY), ((OperatorAdd, OperatorSub), Otype.BINARY)):
        t.operate(ops, ot)
        r.append([repr(t.left), repr(t.right)])
    t.put_right(OperatorNot()); t.put_left(AtomBase(0)); r.append([repr(t.left), repr(t.right)])
    r.append([repr(t.get_left()), repr(t.get_right()), repr(t.get_right()), repr(t.get_right())])
    for v in ("  3.5 ", 2, True, 0.0, "x"):
        try:
            a = AtomBase(v); r.append([repr(a), repr(a.logical_not()), repr(a.logical_and(AtomBase(5))), repr(a.logical_or(AtomBase(7)))])
        except BaseException as x:
            r.append(["err", type(x).__name__])
    return r
out.append(["lowlevel", lowlevel()])

# ---- 7. sibling solvers built on ExpressionSolver -------------------------------
from scinumtools.units import Quantity, Unit
from scinumtools.units.unit_solver import UnitSolver, AtomParser
def units():
    r = []
    es = ExpressionSolver(AtomParser, {"par": OperatorPar, "mul": OperatorMul, "truediv": OperatorTruediv})
    for u in ["m", "kg*m2/s2", "foo", "km/(s*Mpc)", "(m", "m*", "J/K", "m/s/s", "cm-1", "qq*m", "N*m"]:
        r.append([u, attempt(lambda: str(es.solve(u))), attempt(lambda: str(UnitSolver(u)))])
    for a, b in [(1, "km"), (2.5, "J/s"), (3, "nonsense"), (1, "m*(s"), (4, "kg*m/s2")]:
        r.append([a, b, attempt(lambda: str(Quantity(a, b)))])
    r.append(attempt(lambda: str(Quantity(1, "km").to("m"))))
    r.append(attempt(lambda: str(Quantity(1, "km").to("s"))))
    return r
out.append(["units", units()])

from scinumtools.dip.solvers import NumericalSolver, LogicalSolver
def dipsolvers():
    r = []
    with NumericalSolver() as ns:
        for e in ["1 + 2", "2 m * 3 s", "1 + ", "(2 cm + 3 m", "sqrt(4 m2)", "2 m + 1 s", "pow(2 m, 2)", "3 km - 2 m", "1 + 1"]:
            r.append([e, attempt(lambda: str(ns.solve(e)))])
    with LogicalSolver() as ls:
        for e in ["true && false", "1 == 1", "!true || false", "(true", "2 m < 3 km", "~!true", "true &&", "1 m == 100 cm", "{?x} == 1", "false || true"]:
            r.append([e, attempt(lambda: str(ls.solve(e)))])
    return r
out.append(["dip", dipsolvers()])

from scinumtools.materials import Substance, Material
def materials():
    r = []
    for e in ["H2O", "C2H5OH", "Xx2", "(H2O", "NaCl", "Ca(OH)2", "H2O +", "B{11}2", "[e]2"]:
        r.append([e, attempt(lambda: str(Substance(e).data_components(quantity=False).to_text() if hasattr(Substance(e), "data_components") else str(Substance(e))))])
    return r
try:
    out.append(["materials", materials()])
except BaseException as x:
    out.append(["materials", "err", type(x).__name__])

print(json.dumps(out, default=repr, sort_keys=True))
'''


def run(root):
    p = subprocess.run([sys.executable, "-c", PROBE, root], capture_output=True, text=True, cwd="/tmp")
    if p.returncode != 0:
        print("probe failed for", root, file=sys.stderr)
        print(p.stderr[-3000:], file=sys.stderr)
        sys.exit(2)
    return json.loads(p.stdout.strip().splitlines()[-1])


def main():
    base, new = run(sys.argv[1]), run(sys.argv[2])
    bad = 0
    n = 0
    for (la, ra), (lb, rb) in zip(base, new):
        items_a = ra if isinstance(ra, list) else [ra]
        items_b = rb if isinstance(rb, list) else [rb]
        n += len(items_a)
        if la != lb or ra != rb:
            bad += 1
            print("DIFFERENCE in group", la)
            for x, y in zip(items_a, items_b):
                if x != y:
                    print("   base:", x)
                    print("   new :", y)
    if len(base) != len(new):
        bad += 1
    print("groups=%d observations=%d differing_groups=%d" % (len(base), n, bad))
    sys.exit(1 if bad else 0)


if __name__ == "__main__":
    main()
