#!/venv/bin/python
"""Differential check for property C17 (references deliver the referenced node's value and unit).

usage: diff.py <unmodified tree root> <refactored tree root>
Runs the same inputs against both trees (each in its own subprocess with its own sys.path)
and exits 0 iff all observable outputs (values, units, exception types) are identical.
"""
import sys, os, subprocess, tempfile, json, textwrap

RUNNER = r'''
import sys, os, json
sys.path.insert(0, os.path.join(sys.argv[1], 'src'))
import numpy as np
from scinumtools.dip import DIP
from scinumtools.dip.settings import Format, Namespace, Order

def plain(v):
    if isinstance(v, np.ndarray):
        return ['ndarray', str(v.dtype.kind), v.tolist()]
    if isinstance(v, (np.generic,)):
        return [type(v).__name__, v.item()]
    if isinstance(v, (list, tuple)):
        return [plain(x) for x in v]
    if isinstance(v, dict):
        return {str(k): plain(x) for k, x in v.items()}
    if v is None or isinstance(v, (bool, int, float, str)):
        return [type(v).__name__, v]
    return repr(v)

def dump_node(n):
    val = n.value
    out = dict(
        name=n.name, cls=type(n).__name__, keyword=n.keyword,
        vtype=type(val).__name__,
        value=plain(getattr(val, 'value', val)),
        unit=getattr(val, 'unit', None),
        units_raw=n.units_raw, value_raw=plain(n.value_raw), indent=n.indent,
        source=plain(n.source), isource=plain(n.isource),
        constant=n.constant, condition=n.condition, defined=n.defined,
        tags=plain(getattr(n, 'tags', None)), fmt=getattr(n, 'format', None),
        descr=getattr(n, 'description', None),
        value_ref=n.value_ref, value_slice=plain(n.value_slice),
    )
    opts = getattr(n, 'options', None)
    if opts:
        out['options'] = [[plain(o.value.value), getattr(o.value, 'unit', None), plain(o.value_raw), o.units_raw] for o in opts]
    return out

def dump_env(env):
    return dict(
        nodes=[dump_node(n) for n in env.nodes],
        units={k: plain({kk: vv for kk, vv in v.items()}) for k, v in env.units.items()},
        sources=sorted(env.sources.keys()),
        remote={k: [dump_node(n) for n in s.nodes] for k, s in env.sources.items() if s.nodes is not None},
    )

def parse(code, **kw):
    with DIP(name='t', **kw) as p:
        p.add_string(code)
        return p.parse()

CASES = []
def case(fn):
    CASES.append(fn)
    return fn

# 1. local injection: unit adoption, explicit unit, later modification of host and source
@case
def local_injection_units():
    return dump_env(parse("""
size1 float = 34 cm
size2 float = {?size1} m
size3 float = {?size2}
size1 = {?size2}
size4 int = {?size1} mm
size1 = 2 m
size5 float = {?size1}
size6 float = {?size1} km
size3 = {?size5} mm
"""))

# 2. boolean / string / none injections
@case
def scalar_kinds():
    return dump_env(parse("""
flag bool = true
name str = 'hello world'
nothing float = none km
count int = 7
flag2 bool = {?flag}
name2 str = {?name}
nothing2 float = {?nothing}
nothing3 float = {?nothing} m
count2 float = {?count} s
flag = false
flag3 bool = {?flag}
"""))

# 3. slices
@case
def slices():
    return dump_env(parse("""
sizes float[3] = [34,23.34,1e34] cm
mysize float[2] = {?sizes}[:2]
one float = {?sizes}[1] m
masses float[2,2] = [[34,23.34],[1,1e3]] g
mymass float[2] = {?masses}[:,1]
row float[2] = {?masses}[0] kg
tail float[1:] = {?sizes}[1:]
cell int = {?masses}[1,0]
names str[3] = ["a","b","c"]
pick str = {?names}[2]
"""))

# 4. slice to scalar node error
@case
def slice_error():
    return dump_env(parse("""
sizes float[3] = [34,23.34,1e34] cm
mysize float = {?sizes}[:2]
"""))

# 5. local imports: subtree, single, all
@case
def local_imports():
    return dump_env(parse("""
icecream
  waffle str = 'standard'
    !options ["standard","crispy"]
  scoops
    strawberry int = 1 kg
      !condition ("{?} > 0")
    chocolate float = 2 g
      !constant
      !tags ["sweet"]
bowl
  {?icecream.scoops.*}
plate {?icecream.waffle}
all.of.it {?*}
deep {?icecream.*}
"""))

# 6. remote imports and injections
@case
def remote_imports():
    return dump_env(parse("""
$source nodes = remote.dip
{nodes?*}
box
  {nodes?*}
basket.bag {nodes?vegies.*}
bowl
  {nodes?fruits}
  {nodes?vegies.potato}
energy float = 34 erg
energy float = {nodes?energy}
energy = {nodes?energy} eV
energy = {nodes?energy}
m int[2,2] = {nodes?matrix}
mass float = {nodes?vegies.potato} kg
kind2 str = {nodes?kind}
"""))

# 7. injection selecting several nodes
@case
def inject_several():
    return dump_env(parse("""
$source nodes = remote.dip
energy float = {nodes?*}
"""))

# 8. injection selecting no node
@case
def inject_none():
    return dump_env(parse("""
a float = 1 m
b float = {?missing}
"""))

@case
def inject_none_remote():
    return dump_env(parse("""
$source nodes = remote.dip
b float = {nodes?missing}
"""))

@case
def inject_subtree_request():
    return dump_env(parse("""
g
  a float = 1 m
  b float = 2 m
c float = {?g.*}
"""))

# 9. import selecting none
@case
def import_none_local():
    env = parse("""
a float = 1 m
box {?missing}
box2 {?a.*}
""")
    return [dump_env(env), plain(env.data(format=Format.TUPLE))]

@case
def import_none_remote():
    env = parse("""
$source nodes = remote.dip
box {nodes?nothing.*}
""")
    return [dump_env(env), plain(env.data())]

# 10. import without local nodes, unknown source
@case
def import_no_local_nodes():
    return dump_env(parse("""
{?*}
"""))

@case
def unknown_source():
    return dump_env(parse("""
a float = {nowhere?x}
"""))

@case
def unknown_source_import():
    return dump_env(parse("""
box {nowhere?*}
"""))

# 11. base environment: parsing on top leaves it unchanged
@case
def base_environment():
    env0 = parse("""
$unit len = 2 m
$source nodes = remote.dip
w float = 3 [len]
h float = 10 cm
g
  x int = 1
  y int = 2
""")
    before = dump_env(env0)
    with DIP(env0, name='u') as p:
        p.add_string("""
w2 float = {?w} m
h = {?w}
copy {?g.*}
g.x = 5
x2 int = {?g.x}
e float = {nodes?energy} erg
w = 1 m
$unit wid = 3 cm
""")
        env1 = p.parse()
    after = dump_env(env0)
    return dict(same=(before == after), same_nodes=(before['nodes'] == after['nodes']),
                same_units=(before['units'] == after['units']), same_remote=(before['remote'] == after['remote']),
                before=before, after=after, new=dump_env(env1),
                data=plain(env1.data(format=Format.TUPLE)))

# 12. unit / source directives with references
@case
def unit_source_directives():
    return dump_env(parse("""
file str = remote.dip
scale float = 2.5
$source nodes = {?file}
$source {nodes?*}
$unit myu = {?scale} cm
{inner?deep}
a float = 2 [myu]
b float = {?a} cm
"""))

@case
def source_errors():
    out = []
    for code in ["$source nodes = remote.dip\n$source {nodes?books}",
                 "$source inner = remote.dip\n$source {inner?inner}",
                 "$source nodes = remote.dip\n$unit {nodes?nounit}",
                 "$source nodes = remote.dip\n$unit {nodes?*}"]:
        try:
            out.append(dump_env(parse(code)))
        except Exception as e:
            out.append(['exc', type(e).__name__, str(e.args[0]) if e.args else ''])
    return out

# 13. block / text imports
@case
def block_imports():
    return dump_env(parse("""
$source matrix = matrix.txt
$source text = text.txt
m1 int[2,3] = {matrix}
m2 float[2,3] = {matrix}
row int[3] = {matrix}[1]
t str = {text}
"""))

# 14. Environment.request directly
@case
def request_api():
    env = parse("""
$source nodes = remote.dip
$unit len = 2 m
a float = 1 m
  !tags ["x","y"]
g
  b int = 2
    !tags ["x"]
  c int = 3
""")
    out = {}
    def attempt(key, fn):
        try:
            r = fn()
            if isinstance(r, str):
                out[key] = ['str', r]
            elif isinstance(r, dict):
                out[key] = ['dict', sorted(r.keys())]
            else:
                out[key] = [type(r).__name__, [dump_node(n) for n in r]]
        except Exception as e:
            out[key] = ['exc', type(e).__name__, str(e.args[0]) if e.args else '']
    attempt('all', lambda: env.request('?*'))
    attempt('sub', lambda: env.request('?g.*'))
    attempt('one', lambda: env.request('?a', count=1))
    attempt('cnt_bad', lambda: env.request('?g.*', count=1))
    attempt('cnt_list', lambda: env.request('?g.*', count=[0, 2]))
    attempt('cnt_list_bad', lambda: env.request('?g.*', count=[0, 1]))
    attempt('cnt_zero', lambda: env.request('?zzz', count=0))
    attempt('tags', lambda: env.request('?*', tags=['x']))
    attempt('tags2', lambda: env.request('?*', tags=['x', 'y']))
    attempt('tags_sub', lambda: env.request('?g.*', tags=['x']))
    attempt('tags_none', lambda: env.request('?g.c', tags=['x']))
    attempt('remote', lambda: env.request('nodes?vegies.*'))
    attempt('query_none', lambda: env.nodes.query(None))
    attempt('getitem_bad', lambda: env.nodes[1.5])
    attempt('getitem_missing', lambda: env.nodes['zz'])
    attempt('remote_tags', lambda: env.request('nodes?*', tags=['food']))
    attempt('block', lambda: env.request('nodes'))
    attempt('srcs', lambda: env.request('nodes?*', namespace=Namespace.SOURCES))
    attempt('src1', lambda: env.request('nodes?inner', namespace=Namespace.SOURCES))
    attempt('units', lambda: env.request('nodes?*', namespace=Namespace.UNITS))
    attempt('unit1', lambda: env.request('nodes?[energy]', namespace=Namespace.UNITS))
    attempt('badns', lambda: env.request('nodes?x', namespace='other'))
    attempt('nosrc', lambda: env.request('zz?x'))
    attempt('nosrc_quiet', lambda: env.request('zz?x', errsrc=False))
    attempt('nosrc_quiet_cnt', lambda: env.request('zz?x', count=[0, 1], errsrc=False))
    attempt('nosrc_block_quiet', lambda: env.request('zz', errsrc=False))
    attempt('autoref_off', lambda: env.request('?'))
    env.autoref = 'g.b'
    attempt('autoref', lambda: env.request('?'))
    env.autoref = None
    attempt('two_q', lambda: env.request('a?b?c'))
    attempt('getitem', lambda: env.nodes['g'])
    attempt('getitem1', lambda: [env.nodes['g.b']])
    attempt('query_order', lambda: env.nodes.query('*', order=Order.ASC if hasattr(Order, 'ASC') else True))
    out['keys'] = env.nodes.keys()
    out['srcq'] = sorted(env.sources.query('*').keys())
    out['unitq'] = sorted(env.units.query('*').keys())
    for q in ('[len]', '[nope]'):
        try:
            out['unitq' + q] = plain(env.units.query(q))
        except Exception as e:
            out['unitq' + q] = ['exc', type(e).__name__, str(e.args[0]) if e.args else '']
    for q in ('nodes', 'nope'):
        try:
            out['srcq' + q] = sorted(env.sources.query(q).keys())
        except Exception as e:
            out['srcq' + q] = ['exc', type(e).__name__, str(e.args[0]) if e.args else '']
    empty = type(env)()
    attempt('empty_local', lambda: empty.request('?*'))
    return out

# 15. docs mode
@case
def docs_mode():
    with DIP(name='t') as p:
        p.add_string("""
$source nodes = remote.dip
a float = 1 m
b float = {?a} cm
c float = {?missing}
d float = {ghost?x}
box {ghost?*}
bag {nodes?vegies.*}
e float = {nodes?energy}
""")
        docs = p.parse_docs()
    env = docs.env if hasattr(docs, 'env') else None
    if env is None:
        for k, v in vars(docs).items():
            if hasattr(v, 'nodes') and hasattr(v, 'sources'):
                env = v
    return [dump_node(n) for n in env.nodes]

@case
def docs_mode_several():
    with DIP(name='t') as p:
        p.add_string("""
g
  a float = 1 m
  b float = 2 m
c float = {?g.*}
""")
        p.parse_docs()
    return 'ok'

# 16. references in conditions, cases, expressions and options
@case
def references_elsewhere():
    return dump_env(parse("""
a float = 5 cm
  !condition ("{?} > 1 && {?} < 10")
b float = ("{?a} * 2") m
flag bool = ("{?a} == 5")
@case ("{?flag}")
  c float = {?a} mm
@else
  c float = 1 mm
@end
s str = ("a is {?a} and b {?b}")
o float = 3 cm
  = {?a}
  = 3 cm
  = 1 m
"""))

# 17. modification of imported nodes, constants
@case
def modify_imported():
    return dump_env(parse("""
$source nodes = remote.dip
box {nodes?*}
box.fruits = 4
box.vegies.potato = 0.3 kg
copy float = {?box.vegies.potato} g
box.energy = {?box.energy} erg
box.energy = {nodes?energy}
"""))

@case
def modify_constant_import():
    return dump_env(parse("""
a float = 1 m
  !constant
b {?a}
b.a = 3 m
"""))

# 18. type mismatch via reference, int/float conversions, unit incompatibility
@case
def conversions():
    out = []
    for code in ["a float = 1.7 m\nb int = {?a}",
                 "a int = 3 m\nb float = {?a} cm",
                 "a str = 'x'\nb float = {?a}",
                 "a float = 1 m\nb float = {?a} s\nb = {?a}",
                 "a float = 1 m\nb float = 2 s\nb = {?a}",
                 "a bool = true\nb str = {?a}",
                 "a float = 1 m\nb bool = {?a}",
                 "a float\nb float = {?a} m",
                 "a float = 1\nb float = {?a} m\nc float = {?b}",
                 ]:
        try:
            out.append(dump_env(parse(code)))
        except Exception as e:
            out.append(['exc', type(e).__name__, str(e.args[0]) if e.args else ''])
    return out

results = {}
for fn in CASES:
    try:
        results[fn.__name__] = ['ok', fn()]
    except Exception as e:
        results[fn.__name__] = ['exc', type(e).__name__, str(e.args[0]) if e.args else '']
print(json.dumps(results, sort_keys=True, default=repr))
'''

REMOTE = '''$source inner = inner.dip
$unit energy = 1 erg
fruits int = 0
  !tags ["food"]
vegies int = 1
   potato float = 200 g
     !options [100,200,300] g
     !tags ["food","root"]
energy float = 13 J
  !condition ("{?} > 1")
kind str = 'green'
  !options ["green","red"]
  !constant
matrix str = """
[[4234,34],
[234,34]]
"""
'''

INNER = '''deep float = 3 km
'''

MATRIX = '''[[1,2,3],
[4,5,6]]
'''

TEXT = '''This is a block text
with two lines.
'''


def run(tree, workdir):
    runner = os.path.join(workdir, 'runner.py')
    proc = subprocess.run(['/venv/bin/python', runner, tree], cwd=workdir,
                          capture_output=True, text=True, timeout=600)
    if proc.returncode != 0:
        return None, proc.stderr
    return proc.stdout.strip().splitlines()[-1], proc.stderr


def main():
    base, new = os.path.abspath(sys.argv[1]), os.path.abspath(sys.argv[2])
    with tempfile.TemporaryDirectory(prefix='c17diff_') as wd:
        for name, text in (('runner.py', RUNNER), ('remote.dip', REMOTE), ('inner.dip', INNER),
                           ('matrix.txt', MATRIX), ('text.txt', TEXT)):
            with open(os.path.join(wd, name), 'w') as f:
                f.write(text)
        out_a, err_a = run(base, wd)
        out_b, err_b = run(new, wd)
    if out_a is None or out_b is None:
        print('runner failed', err_a[-2000:] if out_a is None else '', err_b[-2000:] if out_b is None else '')
        return 2
    a, b = json.loads(out_a), json.loads(out_b)
    bad = [k for k in sorted(set(a) | set(b)) if a.get(k) != b.get(k)]
    nexc = sum(1 for v in a.values() if v[0] == 'exc')
    print(f"{len(a)} cases ({nexc} raise at top level); differing: {bad}")
    if '-v' in sys.argv:
        for k, v in a.items():
            print(k, json.dumps(v)[:300])
    return 1 if bad else 0


if __name__ == '__main__':
    sys.exit(main())
