#!/venv/bin/python
"""Differential check for property C16 (parse() returns only environments that
satisfy every declared constraint).

usage: diff.py <unmodified tree root> <refactored tree root>
Runs the same DIP inputs against both trees (each in its own subprocess with its
own sys.path) and exits 0 iff every observable outcome is identical.
"""
import json
import os
import subprocess
import sys

CASES = [
    # --- options, per-line form
    ("opt_line_ok", "coordinates int = 1\n  = 1  # linear\n  = 2\n  = 3\n"),
    ("opt_line_last", "coordinates int = 3\n  = 1\n  = 2\n  = 3\n"),
    ("opt_line_bad", "coordinates int = 4\n  = 1\n  = 2\n  = 3\n"),
    ("opt_line_undefined", "length float cm\n  = 12 cm\n  = 34 cm\n"),
    ("opt_line_units_ok", "length float = 0.12 m\n  = 12 cm\n  = 34 cm\n"),
    ("opt_line_units_mod_ok", "length float cm\n  = 12 cm\n  = 34 cm\nlength = 0.34 m\n"),
    ("opt_line_units_mod_bad", "length float cm\n  = 12 cm\n  = 34 cm\nlength = 0.35 m\n"),
    ("opt_bool_unsupported", "deposition bool = true\n  = true\n  = false\n"),
    ("opt_str_ok", "animal str = dog\n  = cat\n  = dog\n"),
    ("opt_str_bad", "animal str = cow\n  = cat\n  = dog\n"),
    # --- options, list form
    ("opt_list_ok", "size float cm\n  !options [12,13,14,15,16] cm\n  !options [22,23,24,25] m\nsize = 23 m\n"),
    ("opt_list_bad", "size float cm\n  !options [12,13,14,15,16] cm\nsize = 11\n"),
    ("opt_list_near", "size float cm\n  !options [12,13,14,15,16] cm\nsize = 12.0001\n"),
    ("opt_list_close", "size float cm\n  !options [12,13,14,15,16] cm\nsize = 12.00000000001\n"),
    ("opt_list_int_ok", "n int = 15\n  !options [12,13,14,15,16]\n"),
    ("opt_list_int_bad", "n int = 17\n  !options [12,13,14,15,16]\n"),
    ("opt_list_str_ok", "name str = b\n  !options [\"a\",\"b\"]\n"),
    ("opt_list_str_bad", "name str = c\n  !options [\"a\",\"b\"]\n"),
    ("opt_none_value", "size float = none cm\n  !options [12,13] cm\n"),
    # --- conditions
    ("cond_ok", "size float = 23 cm\n  !condition ('200 mm < {?} && {?} < 30 cm')\n"),
    ("cond_bad", "size float = 23 cm\n  !condition ('250 mm < {?} && {?} < 30 cm')\n"),
    ("cond_boundary_lt", "size float = 30 cm\n  !condition ('{?} < 30 cm')\n"),
    ("cond_boundary_le", "size float = 30 cm\n  !condition ('{?} <= 30 cm')\n"),
    ("cond_int_ok", "n int = 5\n  !condition ('{?} > 4')\n"),
    ("cond_int_bad", "n int = 4\n  !condition ('{?} > 4')\n"),
    ("cond_bool_ok", "flag bool = true\n  !condition ('{?} == true')\n"),
    ("cond_bool_bad", "flag bool = false\n  !condition ('{?} == true')\n"),
    ("cond_str_ok", "name str = John\n  !condition ('{?} == \"John\"')\n"),
    ("cond_str_bad", "name str = Jane\n  !condition ('{?} == \"John\"')\n"),
    ("cond_after_mod_bad", "size float = 23 cm\n  !condition ('{?} < 30 cm')\nsize = 31 cm\n"),
    ("cond_after_mod_ok", "size float = 23 cm\n  !condition ('{?} < 30 cm')\nsize = 0.29 m\n"),
    ("cond_other_node", "limit float = 10 cm\nsize float = 5 cm\n  !condition ('{?} < {?limit}')\n"),
    ("cond_other_node_bad", "limit float = 10 cm\nsize float = 15 cm\n  !condition ('{?} < {?limit}')\n"),
    ("cond_two_nodes", "a int = 1\n  !condition ('{?} == 1')\nb int = 2\n  !condition ('{?} == 1')\n"),
    # --- formats
    ("fmt_ok", "name str = John\n  !format \"[a-zA-Z]+\"\n"),
    ("fmt_bad", "name str = 7-up\n  !format '[a-zA-Z]+'\n"),
    ("fmt_anchored_ok", "name str = John\n  !format '^[a-zA-Z]+$'\n"),
    ("fmt_anchored_bad", "name str = John7\n  !format '^[a-zA-Z]+$'\n"),
    ("fmt_prefix_only", "name str = John7\n  !format '[a-zA-Z]+'\n"),
    ("fmt_on_float", "size float = 23 cm\n  !format '[a-zA-Z]+'\n"),
    ("fmt_after_mod_bad", "name str = John\n  !format '^[a-zA-Z]+$'\nname = J0hn\n"),
    # --- dimensions
    ("dim_ok", "counts int[3] = [4234,34,2]\nlengths float[2:,2] = [[4234,34],[234,34]] cm\n"
               "colleagues str[:] = [\"John\",\"Patricia\",\"Lena\"]\nlogic bool[2] = [true,false]\n"),
    ("dim_gt", "counts int[2] = [4234,34,2]\n"),
    ("dim_lt", "counts int[2] = [4234]\n"),
    ("dim_upper_gt", "counts int[:2] = [4234,34,2]\n"),
    ("dim_upper_eq", "counts int[:2] = [4234,34]\n"),
    ("dim_lower_lt", "counts int[2:] = [4234]\n"),
    ("dim_lower_eq", "counts int[2:] = [4234,34]\n"),
    ("dim_second_axis", "counts int[2,3:] = [[234,4234],[234,34]]\n"),
    ("dim_range_ok", "counts int[1:3,2] = [[1,2],[3,4]]\n"),
    ("dim_range_bad", "counts int[1:3,2] = [[1,2],[3,4],[5,6],[7,8]]\n"),
    ("dim_rank_too_low", "counts int[2,2] = [1,2]\n"),
    ("dim_rank_too_high", "counts int[2] = [[1,2],[3,4]]\n"),
    ("dim_options_list_bounds", "n int[2] = [12,13]\n  !options [12,13,14]\n"),
    ("dim_scalar_array", "counts int = [[234,4234],[234,34]]\n"),
    ("dim_mod_bad", "counts int[2] = [1,2]\ncounts = [1,2,3]\n"),
    ("dim_float_units", "lengths float[2] = [1,2] cm\n  !condition ('{?} == {?}')\n"),
    # --- declarations
    ("decl_missing", "size float cm\n"),
    ("decl_filled", "size float cm\nsize = 3 m\n"),
    ("decl_str_missing", "name str\n"),
    ("decl_bool_missing", "flag bool\n"),
    ("decl_in_group", "box\n  size float cm\nbox.size = 4\n"),
    # --- combinations
    ("combo_ok", "size float = 23 cm\n  !options [22,23,24] cm\n  !condition ('{?} > 22 cm')\n"),
    ("combo_opt_fails", "size float = 21 cm\n  !options [22,23,24] cm\n  !condition ('{?} > 20 cm')\n"),
    ("combo_cond_fails", "size float = 22 cm\n  !options [22,23,24] cm\n  !condition ('{?} > 22 cm')\n"),
    ("combo_str", "name str = abc\n  !options [\"abc\",\"ab1\"]\n  !format '^[a-z]+$'\n  !condition ('{?} == \"abc\"')\n"),
    ("combo_str_fmt_fails", "name str = ab1\n  !options [\"abc\",\"ab1\"]\n  !format '^[a-z]+$'\n"),
    ("combo_case", "big bool = true\n@case ('{?big}')\n  size float = 50 cm\n    !condition ('{?} > 40 cm')\n"
                   "@else\n  size float = 5 cm\n    !condition ('{?} > 40 cm')\n@end\n"),
    ("combo_const_mod", "size float = 30 cm\n  !constant\nsize = 23\n"),
]

RUNNER = r'''
import sys, json, warnings
warnings.filterwarnings("ignore")
root = sys.argv[1]
sys.path.insert(0, root + "/src")
import numpy as np
from scinumtools.dip import DIP
from scinumtools.dip.settings import Format
cases = json.loads(sys.stdin.read())

def show(v):
    if isinstance(v, np.ndarray):
        v = v.tolist()
    return repr(v)

out = {}
for name, code in cases:
    try:
        with DIP() as p:
            p.add_string(code)
            env = p.parse()
        res = {}
        for key, node in env.data(format=Format.NODE).items():
            val = node.value
            res[key] = [type(node).__name__, type(val).__name__,
                        show(getattr(val, "value", val)), show(getattr(val, "unit", None)),
                        show([(show(o.value.value), show(o.value.unit)) for o in (getattr(node, "options", None) or [])]),
                        show(node.condition), show(getattr(node, "format", None))]
        out[name] = ["ok", res, show(env.autoref)]
    except BaseException as e:
        out[name] = ["raise", type(e).__name__, [show(a) for a in e.args]]
import scinumtools
assert scinumtools.__file__.startswith(root), scinumtools.__file__
print(json.dumps(out, sort_keys=True))
'''


def run(root):
    proc = subprocess.run([sys.executable, "-c", RUNNER, root], input=json.dumps(CASES),
                          capture_output=True, text=True, cwd="/")
    if proc.returncode != 0:
        print(proc.stderr)
        raise SystemExit(2)
    return json.loads(proc.stdout.strip().splitlines()[-1])


def main():
    a = run(os.path.abspath(sys.argv[1]))
    b = run(os.path.abspath(sys.argv[2]))
    bad = 0
    for name, _ in CASES:
        if a[name] != b[name]:
            bad += 1
            print("DIFF", name, "\n  base:", a[name], "\n  new: ", b[name])
    kinds = {}
    for name, _ in CASES:
        kinds[a[name][0]] = kinds.get(a[name][0], 0) + 1
    print(f"{len(CASES)} cases, {bad} differing; base outcomes: {kinds}")
    sys.exit(1 if bad else 0)


if __name__ == "__main__":
    main()
