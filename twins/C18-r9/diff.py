#!/usr/bin/env python
"""Differential check for C18 (DIP numerical / logical / template expressions).

usage: diff.py <unmodified tree root> <refactored tree root>
Runs the same inputs against both trees (each in its own subprocess with its
own sys.path) and exits 0 iff every observable output is identical.
"""
import json
import os
import subprocess
import sys

WORKER = r'''
import sys, json
root = sys.argv[1]
sys.path.insert(0, root + '/src')
import numpy as np
import scinumtools
assert scinumtools.__file__.startswith(root + '/src'), scinumtools.__file__
from scinumtools.dip import DIP
from scinumtools.dip.solvers import NumericalSolver, LogicalSolver, TemplateSolver

DIP_TEXT = """
$unit len = 2 m
$unit mass = 500 g
a float = 10 m
b float = 300 cm
c float = 4 [len]
w float = 57.3 kg
t float = 20 s
n int = 23
k int = 44
m int = 23
flag bool = true
off bool = false
name str = "William Smith"
id int = 345
body
  weight float = 62.3 kg
  height float = 177 cm
widths float[2,3] = [[23.4,235.4,34],[1e10,2e23,5e20]]
"""

def make_env():
    with DIP() as dip:
        dip.add_string(DIP_TEXT)
        return dip.parse()

def show(v):
    if isinstance(v, np.ndarray):
        return ['ndarray', v.tolist()]
    if hasattr(v, 'baseunits') and hasattr(v, 'magnitude'):
        return ['quantity', repr(v.value()), repr(v.magnitude), str(v.units()), repr(v.baseunits.dimensions), str(v)]
    if hasattr(v, 'value') and hasattr(v, 'unit') and not callable(v.value):
        return [type(v).__name__, repr(v.value), repr(v.unit)]
    return [type(v).__name__, repr(v)]

def run(fn):
    try:
        return ['ok', show(fn())]
    except BaseException as e:
        return ['exc', type(e).__name__, [str(a) for a in e.args][:1]]

NUMERICAL = [
    ('2 + 4 - 3', None),
    ('1 - -3 + -4', None),
    ('34 cm + 4 mm', 'cm'),
    ('10 m + 4 cm + 3 m + 1 mm', 'm'),
    ('10 m - 1 m + 3 cm - 3 mm', 'mm'),
    ('8 / 4 * 3', None),
    ('8 / 2 / 4', None),
    ('-8 / 2 * -4', None),
    ('2 + 3 * 4 - 6 / 2', None),
    ('4 cm2 + 10 m * 2 cm - 0.2 m2', 'cm2'),
    ('4 m2 + 10 m3 / 2 m - 3 m2', 'm2'),
    ('3 kg * 4 m2 / 2 s2 + 1e7 erg', 'J'),
    ('23 kg*m2/s2 / 2 J', None),
    ('(10 m - 1 m) + 3 cm - 3 mm', 'm'),
    ('10 m - (1 m + 3 cm - 3 mm)', 'm'),
    ('4 m2 + 10000 mm * (300 cm - 1 m)', 'm2'),
    ('36 m2 / (20 dm * 300 cm) - 1', None),
    ('(2 + (3 - 4))', None),
    ('exp(10 m / 5 m)', None),
    ('log(10 m / 5 cm)', None),
    ('log10(10 m / 5 cm)', None),
    ('sqrt(16 m2)', 'cm'),
    ('sin(10 m / 5 cm)', None),
    ('cos(10 m / 5 cm)', None),
    ('tan(1 m / 2 m)', None),
    ('pow(10 m, 2)', 'm2'),
    ('powb(10 m, 3)', 'm3'),
    ('logb(8, 2)', None),
    ('3 m * log10({?a} / (7 cm - 20 mm)) + {?b}', 'm'),
    ('{?a} + {?b} - {?c}', 'm'),
    ('{?a} / {?t} * 2', 'km/h'),
    ('3 [len] + 1 m', 'm'),
    ('2 [mass] + 1 kg', 'g'),
    ('{?w} / 1 [mass]', None),
    ('- 3 m + 5 m', 'm'),
    ('5 m - - 2 m', 'm'),
    ('5 m + - 2 m', 'm'),
    ('5 m - + 2 m', 'm'),
    ('2 * - 3', None),
    # failures
    ('10 m + 1 J', None),
    ('10 m - 1 J', None),
    ('1 s + 1 Hz', None),
    ('1 s - 1 Hz', None),
    ('1 + 1 m', None),
    ('1 - 1 m', None),
    ('{?a} + {?w}', None),
    ('{?missing} + 1', None),
    ('3 m', 's'),
    ('2 +', None),
    ('', None),
]

EQUAL = [
    ('2 + 4 - 3', '3'),
    ('34 cm + 4 mm', '34.4 cm'),
    ('10 m * 2 cm', '0.2 m2'),
    ('10 m2 / 200 cm', '50 dm'),
    ('1 m', '1.0000001 m'),
    ('1 m', '1.01 m'),
    ('2 [len]', '4 m'),
    ('1', '1 m'),
]

LOGICAL = [
    'true || true || true',
    'false || true || false',
    'true && false && true',
    'true && true && true || false || false',
    'false || true && false && true || true',
    'false || false || true && false && true',
    '(true || false) && true && true',
    'false || ((false||true) || false) && (true||false)',
    '{?n} == {?k}', '{?n} == {?m}', '{?n} != {?k}', '{?n} != {?m}',
    '{?n} <= {?k}', '{?n} >= {?k}', '{?n} <  {?k}', '{?n} >  {?k}',
    '{?flag}', '~{?flag}', '~~{?flag}', '{?off} || ~{?off}',
    '!{?n}', '!{?elefant}', '!{?elefant} == false', '~!{?elefant}',
    '!{?flag} && {?flag}', '~!{?n} || !{?k}',
    '{?w} == 57.30 kg', '{?w} == 57.31 kg', '{?w} == 57.30000001 kg',
    '{?w} == 57.3001 kg', '{?w} != 57.30 kg', '{?w} <= 60 kg',
    '{?w} >= 57300 g', '{?w} >= 60000 g', '{?w} > 50000 g',
    '{?w} < 50', '{?w} < 60', '{?w} == 114.6 [mass]', '{?c} == 8 m', '{?c} > {?a}',
    '{?a} > 30 cm || ({?a} < 0.4 m || {?a} >= 34) && ({?n} == 1 && {?n}<={?k}) && {?flag} || ~!{?color}',
    '3 == 3', '3 m == 300 cm', '3 m < 2 km && 4 s > 3 ms', 'true == false', '~true', '~ false',
    # failures
    '{?elefant}', '{?elefant} == 1', '{?w} == 3 m', '', '   ', 'true &&', '{?name} == 3',
]

TEMPLATE = [
    'ID:      {{?id}:05d}',
    'Name:    {{?name}}',
    'Weight:  {{?body.weight}:.3e}',
    'Height:  {{?body.height}:.2f}',
    'Flag: {{?flag}} / {{?off}}',
    'Surname:  {{?name}[8:]}',
    'First: {{?name}[:7]:>10s}|',
    'Scalar:   {{?widths}[1,1]:.2e}',
    'Array:\n{{?widths}[:,1:]}',
    'Row: {{?widths}[0]}',
    'two: {{?id}} and {{?n}:4d} and {{?a}:8.3f}!',
    'plain text without references',
    'braces { alone } and {x} and {{ nope',
    'json {"a": 1, "b": {"c": 2}}',
    '{{?id}:x} {{?id}:o} {{?id}:+d} {{?id}:e}',
    '{{?w}:10.2f}|{{?w}:<10.1f}|{{?w}:^12.4e}|',
    '{{?id}}{{?id}}',
    '',
    # failures
    'missing {{?elefant}}',
    'bad format {{?name}:d}',
    'bad slice {{?name}[1,2]}',
    'unterminated {{?id}',
    'two many {{?*}}',
]

out = {}
env = make_env()
for i, (expr, unit) in enumerate(NUMERICAL):
    def f(expr=expr, unit=unit):
        with NumericalSolver(env) as p:
            return p.solve(expr, unit) if unit else p.solve(expr)
    out['num/%02d/%s/%s' % (i, expr, unit)] = run(f)
for i, (expr, unit) in enumerate(NUMERICAL[:30]):
    if '{' in expr or '[' in expr:
        continue
    def f(expr=expr, unit=unit):
        with NumericalSolver() as p:
            return p.solve(expr, unit) if unit else p.solve(expr)
    out['num-noenv/%02d/%s/%s' % (i, expr, unit)] = run(f)
for val in (3, 2.5, True):
    out['num-passthrough/%r' % (val,)] = run(lambda val=val: NumericalSolver(env).solve(val))
for i, (e1, e2) in enumerate(EQUAL):
    out['equal/%02d/%s/%s' % (i, e1, e2)] = run(lambda e1=e1, e2=e2: NumericalSolver(env).equal(e1, e2))
for i, expr in enumerate(LOGICAL):
    def f(expr=expr):
        with LogicalSolver(env) as p:
            return p.solve(expr)
    out['log/%02d/%s' % (i, expr)] = run(f)
for i, expr in enumerate(LOGICAL[:8] + ['3 m == 300 cm', '{?n} == 1', '!{?n}']):
    def f(expr=expr):
        with LogicalSolver() as p:
            return p.solve(expr)
    out['log-noenv/%02d/%s' % (i, expr)] = run(f)
for i, expr in enumerate(TEMPLATE):
    def f(expr=expr):
        with TemplateSolver(env) as p:
            return p.solve(expr)
    out['tpl/%02d/%s' % (i, expr)] = run(f)

# whole-document use: expressions inside DIP code
DOC = """
$unit len = 2 m
a float = 10 m
b float = 300 cm
s float = ("{?a} + {?b} * 2") m
d float = ("3 [len] / 2") cm
e float = ("pow({?a}, 2) / {?b}") km
@case ("{?a} > 5 m && ~!{?zzz}")
  x int = 1
@case ("{?a} == 10 m")
  x int = 2
@else
  x int = 3
@end
y int = 5
  !condition ("{?y} > 2 && {?y} <= 5")
"""
def doc():
    with DIP() as dip:
        dip.add_string(DOC)
        env2 = dip.parse()
    data = env2.data(verbose=False)
    return {k: repr(v) for k, v in sorted(data.items())}
out['doc'] = run(lambda: json.dumps(doc(), sort_keys=True))

print(json.dumps(out, sort_keys=True, indent=1))
'''


def run_tree(root):
    root = os.path.abspath(root)
    env = dict(os.environ)
    env.pop('PYTHONPATH', None)
    env['PYTHONDONTWRITEBYTECODE'] = '1'
    proc = subprocess.run([sys.executable, '-c', WORKER, root], cwd=root, env=env,
                          capture_output=True, text=True)
    if proc.returncode != 0:
        sys.stderr.write(proc.stderr)
        raise SystemExit(2)
    return json.loads(proc.stdout)


def main():
    base, new = os.path.abspath(sys.argv[1]), os.path.abspath(sys.argv[2])
    a, b = run_tree(base), run_tree(new)
    bad = 0
    for key in sorted(set(a) | set(b)):
        if a.get(key) != b.get(key):
            bad += 1
            print('DIFF %s\n   base: %r\n   new : %r' % (key, a.get(key), b.get(key)))
    n_exc = sum(1 for v in a.values() if v[0] == 'exc')
    print('%d inputs compared (%d raise in base), %d differences' % (len(a), n_exc, bad))
    sys.exit(1 if bad else 0)


if __name__ == '__main__':
    main()
