#!/venv/bin/python
"""Differential check for property C02 (a solver instance is unaffected by what it solved before).

usage: diff.py <unmodified tree root> <refactored tree root>

Runs the same scenarios (sequences of solve() calls on ONE ExpressionSolver instance, with
failing calls interleaved) against both trees, each in its own subprocess with its own
sys.path, and exits 0 iff every observable (value, unit, exception type, exception args,
left-over token buffers) is identical.
"""
import json
import subprocess
import sys

WORKER = r'''
import sys, json, warnings
warnings.filterwarnings("ignore")
root = sys.argv[1]
sys.path.insert(0, root + "/src")
import numpy as np
from scinumtools.solver import *
from scinumtools.solver.tokens import Tokens
from scinumtools.solver.expression import Expression

def show(v):
    if v is None:
        return "None"
    if hasattr(v, "magnitude") and hasattr(v, "baseunits"):
        try:
            return "%s|%r|%s" % (type(v).__name__, v.magnitude, str(v))
        except Exception:
            pass
    if hasattr(v, "value") and not callable(v.value):
        val = v.value
        if isinstance(val, (float, np.floating)):
            val = round(float(val), 12)
        return "%s|%r|%s" % (type(v).__name__, val, getattr(v, "unit", ""))
    return "%s|%s" % (type(v).__name__, str(v))

def excargs(e):
    out = []
    for a in e.args:
        try:
            out.append(str(a))
        except Exception:
            out.append("<unprintable>")
    return out

def run_sequence(make, exprs):
    """solve exprs one after another on one instance; also on a fresh instance each."""
    rec = []
    es = make()
    for x in exprs:
        item = {"expr": x}
        try:
            item["same"] = show(es.solve(x))
        except BaseException as e:
            item["same"] = "EXC:" + type(e).__name__
            item["same_args"] = excargs(e)
        item["buffers"] = [len(es.tokens.left), len(es.tokens.right)]
        item["expr_state"] = [es.expr.left, es.expr.right]
        try:
            item["fresh"] = show(make().solve(x))
        except BaseException as e:
            item["fresh"] = "EXC:" + type(e).__name__
        item["independent"] = item["same"] == item["fresh"]
        rec.append(item)
    return rec

class UAtom(AtomBase):
    """custom atom type carrying a unit string"""
    def __init__(self, value, unit=""):
        if isinstance(value, str):
            parts = value.strip().split()
            if parts[0] == "boom":
                raise ValueError("atom constructor raising")
            self.value = float(parts[0])
            self.unit = parts[1] if len(parts) > 1 else unit
        else:
            self.value = value
            self.unit = unit
    def __add__(self, o):
        if self.unit != o.unit:
            raise TypeError("unit mismatch")
        return UAtom(self.value + o.value, self.unit)
    def __sub__(self, o):
        if self.unit != o.unit:
            raise TypeError("unit mismatch")
        return UAtom(self.value - o.value, self.unit)
    def __mul__(self, o):
        return UAtom(self.value * o.value, (self.unit + "." + o.unit).strip("."))
    def __truediv__(self, o):
        return UAtom(self.value / o.value, (self.unit + "/" + o.unit).rstrip("/"))
    def __neg__(self):
        return UAtom(-self.value, self.unit)
    def __pow__(self, o):
        return UAtom(self.value ** o.value, self.unit + "^" + repr(o.value) if self.unit else "")

out = {}

# 1-4: default solver, failing calls of each kind interleaved with good ones
out["default_mixed"] = run_sequence(lambda: ExpressionSolver(AtomBase), [
    "1 + 2 * 3", "2 * (3 + ", "4 / 2", "abc + 1", "1 + 1", "3 *", "2 ** 3 ** 2", "* 3",
    "-(2 + 3) * 4", "logb(8)", "logb(8, 2)", "pow(2, )", "pow(2, 3) - 1", "", "7",
    "1 2", "5 - 3", "((1 + 2) * (3 + 4)", "(1 + 2) * (3 + 4)", "sin(x)", "sin(0) + cos(0)",
])
out["default_logic"] = run_sequence(lambda: ExpressionSolver(AtomBase), [
    "1 < 2 && 3 >= 3", "1 <", "!0", "!!1 || 0", "1 == ", "2 != 3", "!(1 > 2) && (2 <= 2", "1 == 1 && !0",
    "&& 1", "0 || 0",
])
out["default_nested_fail"] = run_sequence(lambda: ExpressionSolver(AtomBase), [
    "exp(log(2) + foo)", "exp(log(2))", "sqrt(4 * (2 + ))", "sqrt(4 * (2 + 2))", "log10(100, 3)", "log10(100)",
    "tan(0) + (1 +", "tan(0) + (1 + 1)",
])
# 5-7: custom atom type
out["custom_atom"] = run_sequence(lambda: ExpressionSolver(UAtom), [
    "2 m * 3 s", "2 m + 3 s", "2 m + 3 m", "boom + 1 m", "1 m + boom", "4 m / 2 s", "(boom)", "(6 m - 2 m) * 2",
    "-3 m", "2 m ** 2", "1 m +", "10 kg",
])
# 8-9: subset of operators
sub_ops = {'par': OperatorPar, 'mul': OperatorMul, 'truediv': OperatorTruediv}
out["subset_ops"] = run_sequence(lambda: ExpressionSolver(AtomBase, sub_ops), [
    "2 * 3 / 4", "2 * (3", "2 + 3", "(2 * 3) / (1 * 2)", "2 * * 3", "8 / 2", "/ 2", "3",
])
sub_ops2 = {'add': OperatorAdd, 'sub': OperatorSub, 'not': OperatorNot, 'and': OperatorAnd}
out["subset_ops2"] = run_sequence(lambda: ExpressionSolver(UAtom, sub_ops2), [
    "1 m + 2 m - 4 m", "1 m + ", "1 m - boom", "- 1 m + 5 m", "1 m * 2 m", "3 m - 1 m",
])
# 10-11: custom step order (additions before multiplications; missing ARGS step)
steps_a = [
    dict(operators=['par'], otype=Otype.ARGS),
    dict(operators=['add', 'sub'], otype=Otype.UNARY),
    dict(operators=['add', 'sub'], otype=Otype.BINARY),
    dict(operators=['mul', 'truediv'], otype=Otype.BINARY),
]
ops_a = {'par': OperatorPar, 'mul': OperatorMul, 'truediv': OperatorTruediv, 'add': OperatorAdd, 'sub': OperatorSub}
out["custom_steps"] = run_sequence(lambda: ExpressionSolver(AtomBase, ops_a, steps_a), [
    "1 + 2 * 3", "1 + (2 *", "2 * 3 + 1", "q * 2", "2 * (1 + 1) + 1", "6 / 1 + 2", "6 / + ", "-2 * 3",
])
steps_b = [
    dict(operators=['mul'], otype=Otype.BINARY),
    dict(operators=['par', 'nonexistent'], otype=Otype.ARGS),
    dict(operators=['ghost'], otype=Otype.BINARY),
    dict(operators=['add'], otype=Otype.TERNARY),
    dict(operators=['add'], otype=Otype.BINARY),
]
out["custom_steps_odd"] = run_sequence(lambda: ExpressionSolver(AtomBase, ops_a, steps_b), [
    "2 * 3 + 1", "(2) * 3", "2 * 3 + (1", "1 + 1", "4 - 1", "5",
])
# 12: Expression objects instead of strings
def expr_objects():
    es = ExpressionSolver(AtomBase)
    rec = []
    for x in ["1 + 1", "2 * (", "3 * 3"]:
        try:
            rec.append(show(es.solve(Expression(x))))
        except Exception as e:
            rec.append("EXC:" + type(e).__name__ + repr(excargs(e)))
    return rec
out["expression_objects"] = expr_objects()

# 13: pieces used directly (Tokens.operate, OperatorPar scanning)
def low_level():
    rec = []
    t = Tokens(AtomBase)
    for tok in [AtomBase(2.0), OperatorMul(), AtomBase(5.0), OperatorAdd(), AtomBase(1.0)]:
        t.append(tok)
    t.operate((OperatorAdd,), Otype.TERNARY)
    rec.append([repr(t.left), repr(t.right)])
    t.operate((OperatorMul, OperatorTruediv), Otype.BINARY)
    rec.append([repr(t.left), repr(t.right)])
    t.operate((OperatorAdd, OperatorSub), Otype.BINARY)
    rec.append([repr(t.left), repr(t.right)])
    try:
        t2 = Tokens(AtomBase)
        t2.append(OperatorMul()); t2.append(AtomBase(1.0))
        t2.operate((OperatorMul,), Otype.UNARY)
    except Exception as e:
        rec.append("EXC:" + type(e).__name__)
        rec.append([repr(t2.left), repr(t2.right)])
    for src in ["(1, 2) + 3", "(a(b)c) tail", "(1, (2, 3)", "(1, 2, 3)x", "()", "(,)"]:
        for cls in (OperatorPar, OperatorLogb):
            e = Expression(cls.symbol[:-1] + src)
            try:
                op = cls(e)
                rec.append([src, cls.__name__, [a.expr for a in op.args], e.left, e.right])
            except Exception as ex:
                rec.append([src, cls.__name__, "EXC:" + type(ex).__name__, excargs(ex), e.left, e.right])
    return rec
out["low_level"] = low_level()

# 14-17: sibling solvers built on the expression solver
def sibling(name, fn, exprs):
    rec = []
    for x in exprs:
        try:
            rec.append([x, show(fn(x))])
        except BaseException as e:
            rec.append([x, "EXC:" + type(e).__name__, excargs(e)])
    out[name] = rec

from scinumtools.units import UnitSolver, Quantity
sibling("unit_solver", UnitSolver, ["kg*m2/s2", "kg*(m/s", "m/s", "foo*m", "(kg*m)/(s*s)", "m*", "1e3*g", "m2:3/s"])
from scinumtools.dip.solvers import NumericalSolver, LogicalSolver
ns = NumericalSolver()
sibling("numerical_solver", ns.solve, ["1 + 2 * 3", "2 cm + 3 m", "2 * (3 + ", "4 / 2", "2 m + 3 s", "sqrt(4) - 1",
                                        " - 2 + 5", "exp(1) * 2", "pow(2, 3)", "logb(8, 2", "3 m * 2 s"])
from scinumtools.dip import DIP
with DIP() as dip:
    dip.add_string("""
    dogs int = 23
    cats int = 44
    birds int = 23
    animal bool = true
    """)
    env = dip.parse()
ls = LogicalSolver(env)
sibling("logical_solver", ls.solve, ["true && false", "{?dogs} < {?cats} || false", "~true", "({?dogs} == {?birds}",
                                      "true &&", "~~true", "{?nothing} == 1", "~{?animal} || {?dogs} >= {?birds}",
                                      "(true || false) && ~false", "{?dogs} !=", "!{?nothing}"])
from scinumtools.materials import Substance, Material
def subst(x):
    s = Substance(x)
    return "%s|%s" % (str(s), sorted(s.components.keys()))
sibling("substance", subst, ["H2O", "Ca(OH)2", "Ca(OH", "C6H12O6", "Xx2", "(NH4)2SO4", "B{11}2", "H2O)"])
def mater(x):
    m = Material(x)
    return "%s|%s" % (str(m), sorted(m.components.keys()))
sibling("material", mater, ["2 <H2O> 3 <NaCl>", "0.2 <H2O> 0.8 <NaCl", "<H2O>", "2 <Xx> <H2O>", "0.5 <CO2> 0.5 <N2>"])

print(json.dumps(out, sort_keys=True))
'''


def run(root):
    p = subprocess.run([sys.executable, "-c", WORKER, root], capture_output=True, text=True, timeout=300)
    if p.returncode != 0:
        print("worker failed for", root, file=sys.stderr)
        print(p.stderr[-3000:], file=sys.stderr)
        sys.exit(2)
    return json.loads(p.stdout.strip().splitlines()[-1])


def main():
    if len(sys.argv) != 3:
        print(__doc__)
        sys.exit(2)
    a, b = run(sys.argv[1]), run(sys.argv[2])
    bad = 0
    ncases = 0
    for key in sorted(set(a) | set(b)):
        ra, rb = a.get(key), b.get(key)
        ncases += len(ra) if isinstance(ra, list) else 1
        if ra != rb:
            bad += 1
            print("DIFF in scenario", key)
            if isinstance(ra, list) and isinstance(rb, list):
                for x, y in zip(ra, rb):
                    if x != y:
                        print("   base:", x)
                        print("   new :", y)
            else:
                print("   base:", ra)
                print("   new :", rb)
    print("%d scenarios, %d recorded calls, %d differing" % (len(a), ncases, bad))
    sys.exit(1 if bad else 0)


if __name__ == "__main__":
    main()
