#!/usr/bin/env python
"""Differential check for property C20 (table, row collector, plot grid, combinations).

usage: diff.py <unmodified tree root> <refactored tree root>
Runs the same scenarios against each tree in its own subprocess and exits 0
iff every observable outcome (values, ordering, raised exception types) is identical.
"""
import json
import subprocess
import sys

DRIVER = r'''
import sys, json
root = sys.argv[1]
sys.path.insert(0, root + '/src')
import numpy as np
import scinumtools as snt
from scinumtools.parameter_table import ParameterTable, ParameterSettings
from scinumtools.row_collector import RowCollector
from scinumtools.data_plot_grid import DataPlotGrid
from scinumtools.data_combination import DataCombination

def norm(x):
    if isinstance(x, ParameterSettings):
        return ['PS', [[k, norm(v)] for k, v in x.items()], str(x)]
    if isinstance(x, np.ndarray):
        return ['nd', str(x.dtype), [norm(v) for v in x.tolist()]]
    if isinstance(x, np.generic):
        return ['np', type(x).__name__, repr(x.item())]
    if isinstance(x, dict):
        return ['dict', [[norm(k), norm(v)] for k, v in x.items()]]
    if isinstance(x, (list, tuple)):
        return [type(x).__name__, [norm(v) for v in x]]
    if isinstance(x, range):
        return ['range', list(x)]
    return [type(x).__name__, repr(x)]

def attempt(fn):
    try:
        return ['ok', norm(fn())]
    except BaseException as e:
        return ['exc', type(e).__name__]

def table_state(pt):
    out = {}
    out['len'] = attempt(lambda: len(pt))
    out['shape'] = attempt(lambda: pt.shape())
    out['keys'] = attempt(lambda: list(pt.keys()))
    out['items'] = attempt(lambda: [[k, v] for k, v in pt.items()])
    out['data'] = attempt(lambda: pt.data())
    out['str'] = attempt(lambda: str(pt))
    out['text'] = attempt(lambda: pt.to_text())
    out['raw_keys'] = attempt(lambda: pt._keys)
    out['raw_data'] = attempt(lambda: pt._data)
    return out

def run_table_ops(pt, ops):
    log = []
    for op in ops:
        name, args = op[0], op[1:]
        if name == 'append':
            log.append(attempt(lambda: pt.append(*args)))
        elif name == 'set':
            def f():
                pt[args[0]] = args[1]
            log.append(attempt(f))
        elif name == 'del':
            def f():
                del pt[args[0]]
            log.append(attempt(f))
        elif name == 'get':
            log.append(attempt(lambda: pt[args[0]]))
        elif name == 'attr':
            log.append(attempt(lambda: getattr(pt, args[0])))
        elif name == 'in':
            log.append(attempt(lambda: args[0] in pt))
        elif name == 'getfield':
            log.append(attempt(lambda: pt[args[0]][args[1]]))
        log.append(table_state(pt))
    return log

def collector_state(rc):
    out = {}
    out['len'] = attempt(lambda: len(rc))
    out['shape'] = attempt(lambda: rc.shape())
    out['dict'] = attempt(lambda: rc.to_dict())
    out['columns'] = attempt(lambda: rc._columns)
    out['text'] = attempt(lambda: rc.to_text())
    out['str'] = attempt(lambda: str(rc))
    return out

def run_collector_ops(make, ops):
    log = []
    try:
        rc = make()
    except BaseException as e:
        return [['ctor-exc', type(e).__name__]]
    log.append(collector_state(rc))
    for op in ops:
        name, args = op[0], op[1:]
        if name == 'append':
            log.append(attempt(lambda: rc.append(args[0])))
        elif name == 'sort':
            log.append(attempt(lambda: rc.sort(*args[0], **args[1])))
        elif name == 'get':
            log.append(attempt(lambda: rc[args[0]]))
        elif name == 'df':
            log.append(attempt(lambda: rc.to_dataframe(args[0]).to_string()))
        log.append(collector_state(rc))
    return log

def grid(data, *a, **kw):
    def f():
        g = DataPlotGrid(data, *a, **kw)
        res = {'ndata': g.ndata, 'ncols': g.ncols, 'nrows': g.nrows, 'figsize': g.figsize}
        for missing in (None, False, True):
            for transpose in (False, True):
                res['m=%s,t=%s' % (missing, transpose)] = attempt(
                    lambda: list(g.items(missing=missing, transpose=transpose)))
        res['default'] = attempt(lambda: list(g.items()))
        # laziness: the generator object must be created without raising
        res['lazy'] = attempt(lambda: type(g.items()).__name__)
        return res
    return attempt(f)

def comb(items):
    def f():
        c = DataCombination(items)
        res = {}
        res['keys'] = attempt(lambda: list(c.keys()))
        res['values'] = attempt(lambda: list(c.values()))
        res['items'] = attempt(lambda: list(c.items()))
        res['lazy'] = attempt(lambda: [type(c.keys()).__name__, type(c.values()).__name__, type(c.items()).__name__])
        def partial():
            it = c.items()
            return [next(it), next(it)]
        res['partial'] = attempt(partial)
        return res
    return attempt(f)

R = {}
F = ['a', 'b', 'c']

# ---- keyed parameter tables -------------------------------------------------
R['pt01_keyed_basic'] = run_table_ops(ParameterTable(F, keys=True), [
    ('append', 'x', [1, 2, 3]), ('append', 'y', [4, 5, 6]), ('set', 'z', [7, 8, 9]),
    ('get', 'x'), ('get', 0), ('get', 2), ('get', -1), ('get', 3), ('get', 'nope'),
    ('attr', 'y'), ('attr', 'nope'), ('in', 'x'), ('in', 'q'),
    ('getfield', 'y', 'b'), ('getfield', 1, 'c'), ('getfield', 'y', 'zz'),
])
R['pt02_keyed_overwrite_delete'] = run_table_ops(ParameterTable(F, keys=True), [
    ('append', 'x', [1, 2, 3]), ('append', 'y', [4, 5, 6]), ('append', 'x', [10, 20, 30]),
    ('set', 'y', ['p', 'q', 'r']), ('del', 'x'), ('get', 0), ('del', 'x'), ('del', 0),
    ('append', 'x', [0, 0, 0]), ('get', 1), ('get', -2), ('del', 'y'), ('del', 'x'), ('get', 0),
])
R['pt03_keyed_init_dict'] = run_table_ops(
    ParameterTable(F, {'k1': [1, 2, 3], 'k2': [4, 5, 6], 'k3': (7, 8, 9)}, keys=True, keyname='key'), [
    ('get', 'k2'), ('get', 1), ('attr', 'k3'), ('del', 'k2'), ('get', 1), ('set', 'k2', [0, 1, 2]), ('get', 2),
])
R['pt04_keyed_bad_calls'] = run_table_ops(ParameterTable(F, keys=True), [
    ('append',), ('append', 'only'), ('append', 'k', [1, 2, 3], 'extra'), ('append', 'k', 5),
    ('append', 'short', [1]), ('append', 'long', [1, 2, 3, 4, 5]), ('append', ['un', 'hash'], [1, 2, 3]),
    ('append', 7, [1, 2, 3]), ('get', 7), ('get', 0), ('get', 1.0), ('get', True), ('get', None),
    ('del', 7), ('del', 7), ('set', None, [1, 2, 3]), ('get', None), ('in', None),
])
R['pt05_keyed_int_keys'] = run_table_ops(ParameterTable(['v'], keys=True), [
    ('append', 2, [20]), ('append', 0, [0]), ('append', 1, [10]),
    ('get', 0), ('get', 1), ('get', 2), ('get', -1), ('del', 0), ('get', 0), ('get', 1), ('del', 5),
])
R['pt06_keyed_generators'] = run_table_ops(ParameterTable(F, keys=True), [
    ('append', 'g', (i * i for i in range(3))), ('append', 's', 'xyz'), ('append', 'd', {'p': 1, 'q': 2, 'r': 3}),
    ('get', 'g'), ('get', 's'), ('get', 'd'),
])
R['pt07_keyed_nonstr_fields'] = run_table_ops(ParameterTable(['a', 3], keys=True), [
    ('append', 'x', [1, 2]), ('in', 'x'), ('get', 'x'), ('append', 'y', [1]), ('get', 'y'),
])
# ---- unkeyed parameter tables ------------------------------------------------
R['pt08_list_basic'] = run_table_ops(ParameterTable(F), [
    ('append', [1, 2, 3]), ('append', [4, 5, 6]), ('append', [7, 8, 9], 'ignored'),
    ('get', 0), ('get', -1), ('get', 5), ('get', 'x'), ('get', slice(0, 2)),
    ('del', 1), ('get', 1), ('del', 9), ('del', 'x'),
    ('set', 'x', [1, 2, 3]), ('set', 0, [1, 2, 3]), ('attr', 'x'), ('in', 'x'),
    ('append',), ('append', 5), ('append', [1]),
])
R['pt09_list_init'] = run_table_ops(ParameterTable(F, [[1, 2, 3], [4, 5, 6]]), [
    ('get', 1), ('del', 0), ('get', 0), ('del', slice(None)), ('get', 0),
])
R['pt10_ctor_errors'] = [
    attempt(lambda: ParameterTable(F, [[1, 2, 3]], keys=True)),
    attempt(lambda: table_state(ParameterTable(F, {'a': [1, 2, 3]}))),
    attempt(lambda: table_state(ParameterTable(F, {}, keys=True))),
    attempt(lambda: table_state(ParameterTable(F, None, keys=True))),
    attempt(lambda: table_state(ParameterTable(F, {'k': 3}, keys=True))),
    attempt(lambda: table_state(ParameterTable([], {'k': [1]}, keys=True))),
]
def ctx():
    with ParameterTable(['m', 'n'], keys=True) as pt:
        pt['one'] = [1, 'u']
        pt.append('two', [2, 'v'])
        pt['one'] = [3, 'w']
        return [pt.data(), pt.one.m, pt['two']['n'], pt[0].n, list(pt.keys()), pt.to_dataframe().to_string()]
R['pt11_context'] = attempt(ctx)
def library_tables():
    from scinumtools.units.settings import UNIT_PREFIXES, UNIT_STANDARD
    from scinumtools.materials.element import PERIODIC_TABLE
    return [len(UNIT_PREFIXES), len(UNIT_STANDARD), len(PERIODIC_TABLE),
            list(UNIT_PREFIXES.keys()), list(UNIT_STANDARD.keys())[:40], UNIT_STANDARD[3], UNIT_PREFIXES['k'],
            UNIT_STANDARD.m, list(PERIODIC_TABLE.keys())[:20], PERIODIC_TABLE[5]]
R['pt12_library_tables'] = attempt(library_tables)

# ---- row collectors ----------------------------------------------------------
rows = [[3, 'c', 1.5], [1, 'a', 2.5], [2, 'b', 0.5], [1, 'z', 9.0]]
R['rc01_list_rows'] = run_collector_ops(lambda: RowCollector(['i', 's', 'f']), [
    ('append', rows[0]), ('append', rows[1]), ('append', rows[2]), ('append', rows[3]),
    ('get', 'i'), ('get', 'nope'), ('sort', ['i'], {}), ('sort', ['f'], {'reverse': True}),
    ('sort', ['s'], {}), ('sort', ['nope'], {}), ('df', None), ('df', ['s', 'i']), ('df', {'f': 'F', 'i': 'I'}),
])
R['rc02_dict_rows'] = run_collector_ops(lambda: RowCollector(['i', 's']), [
    ('append', {'i': 2, 's': 'b'}), ('append', {'s': 'a', 'i': 1}), ('append', {'i': 3}),
    ('append', {'i': 3, 's': 'c', 'extra': 0}), ('append', [0, 'z']), ('append', [5]), ('sort', ['i'], {}),
])
R['rc03_dict_rows_no_columns'] = run_collector_ops(lambda: RowCollector(), [
    ('append', {'x': 2, 'y': 'b'}), ('append', {'y': 'a', 'x': 1}), ('append', {'w': 1}),
    ('sort', ['x'], {}), ('sort', ['x'], {'reverse': True}),
])
R['rc04_array_list_columns'] = run_collector_ops(lambda: RowCollector(['p', 'q'], array=True), [
    ('append', [3, 1.5]), ('append', [1, 2.5]), ('append', {'q': 0.5, 'p': 2}), ('append', [1, 'text']),
    ('sort', ['p'], {}), ('sort', ['q'], {'reverse': True}), ('get', 'p'),
])
R['rc05_array_dict_columns'] = run_collector_ops(
    lambda: RowCollector({'n': dict(dtype=int), 'name': dict(dtype=str), 'ok': dict(dtype=bool)}, array=True), [
    ('append', [3, 'cc', True]), ('append', [1, 'a', False]), ('append', {'ok': True, 'n': 2, 'name': 'bbb'}),
    ('append', ['bad', 'x', True]), ('sort', ['n'], {}), ('sort', ['name'], {'reverse': True}), ('df', ['n']),
])
R['rc06_init_rows'] = run_collector_ops(lambda: RowCollector(['a', 'b'], rows=[[2, 'y'], [1, 'x'], {'b': 'w', 'a': 0}]), [
    ('sort', ['a'], {}), ('sort', ['b'], {}), ('sort', ['a', True], {}),
])
R['rc07_dict_columns_no_array'] = run_collector_ops(lambda: RowCollector({'a': dict(dtype=int), 'b': {}}), [
    ('append', [1, 2]), ('append', [0, 5]), ('sort', ['b'], {'reverse': True}),
])
R['rc08_bad_columns'] = [
    run_collector_ops(lambda: RowCollector(['a', 3]), []),
    run_collector_ops(lambda: RowCollector({'a': dict(dtype=int), 'b': dict(bogus=1), 'c': {}}, array=True), []),
    run_collector_ops(lambda: RowCollector(['a', 'b'], array=0), [('append', [1, 2])]),
    run_collector_ops(lambda: RowCollector(['a', 'b'], array=1), [('append', [1, 2]), ('append', [0, 3]), ('sort', ['a'], {})]),
    run_collector_ops(lambda: RowCollector('xyz'), [('append', [1, 2, 3]), ('append', [0, 0, 0]), ('sort', ['x'], {})]),
    run_collector_ops(lambda: RowCollector(5), []),
    run_collector_ops(lambda: RowCollector(['a', 'a']), [('append', [1, 2])]),
]
R['rc09_sort_ties_and_empty'] = run_collector_ops(lambda: RowCollector(['k', 'v']), [
    ('sort', ['k'], {}), ('append', [1, 'a']), ('sort', ['k'], {}), ('append', [1, 'b']), ('append', [0, 'c']),
    ('append', [1, 'd']), ('append', [0, 'e']), ('sort', ['k'], {}), ('sort', ['k'], {'reverse': True}),
])
R['rc10_mixed_values'] = run_collector_ops(lambda: RowCollector(['k', 'v']), [
    ('append', [2.5, None]), ('append', [1, [1, 2]]), ('append', [-3, 'x']), ('sort', ['k'], {}), ('sort', ['v'], {}),
])
def rc_ctx():
    with RowCollector(['col1', 'col2', 'col3']) as rc:
        rc.append([1, 2, 3])
        rc.append([4, 5, 6])
        return [rc.to_dict(), rc.size(), rc['col2'], rc.col3]
R['rc11_context'] = attempt(rc_ctx)

# ---- plot grids --------------------------------------------------------------
R['pg01'] = grid(list(range(5)), 2)
R['pg02'] = grid(list('abcdefg'), 3)
R['pg03'] = grid({'a': 0, 'b': 1, 'c': 2, 'd': 3, 'e': 4}, 2)
R['pg04'] = grid([], 3)
R['pg05'] = grid({}, 1)
R['pg06'] = grid(list(range(6)), 3, (5, 3))
R['pg07'] = grid(list(range(4)), 1)
R['pg08'] = grid(list(range(3)), 7)
R['pg09'] = grid(tuple(range(5)), 2)
R['pg10'] = grid('hello', 2)
R['pg11'] = grid(list(range(5)), 0)
R['pg12'] = grid(np.arange(5), 2)
R['pg13'] = grid(list(range(5)), 2.0)
R['pg14'] = grid(5, 2)
R['pg15'] = [grid(list(range(n)), c) for n in range(0, 14) for c in range(1, 6)]
R['pg16'] = grid({i: str(i) for i in range(11)}, 4)
R['pg17'] = grid(list(range(5)))

# ---- combinations ------------------------------------------------------------
R['dc01'] = comb([['a', 'b', 'c'], [1, 2], [True, False]])
R['dc02'] = comb([[1, 2, 3]])
R['dc03'] = comb([])
R['dc04'] = comb([[1, 2], []])
R['dc05'] = comb([[1, 2], [3]])
R['dc06'] = comb(['ab', 'cd'])
R['dc07'] = comb([(1, 2), (3, 4), (5, 6), (7,)])
R['dc08'] = comb([[1, 2], 5])
R['dc09'] = comb([{'x': 1, 'y': 2}, [0, 1]])
R['dc10'] = comb([{0: 'p', 1: 'q'}, [7, 8]])
R['dc11'] = comb(([None, [1]], [(), {}]))
R['dc12'] = comb([range(3), range(2)])
R['dc13'] = comb(None)

print('@@RESULT@@' + json.dumps(R, sort_keys=True))
'''


def run(root):
    proc = subprocess.run([sys.executable, '-c', DRIVER, root], capture_output=True, text=True)
    if proc.returncode != 0:
        sys.stderr.write(proc.stderr)
        raise SystemExit('driver failed for %s' % root)
    line = [l for l in proc.stdout.splitlines() if l.startswith('@@RESULT@@')][-1]
    return json.loads(line[len('@@RESULT@@'):])


def main():
    base, new = sys.argv[1], sys.argv[2]
    a, b = run(base), run(new)
    bad = 0
    for key in sorted(set(a) | set(b)):
        if a.get(key) != b.get(key):
            bad += 1
            print('DIFF in', key)
            print('  base:', json.dumps(a.get(key))[:600])
            print('  new :', json.dumps(b.get(key))[:600])
    print('%d scenarios compared, %d differ' % (len(a), bad))
    sys.exit(1 if bad else 0)


if __name__ == '__main__':
    main()
