#!/usr/bin/env python
"""Differential script: diff.py <clean tree root> <changed tree root>.
Runs the same inputs against both trees (subprocess each, tree's src first on sys.path)
and compares the printed results. Exit 0 when identical, 1 otherwise."""
import os, subprocess, sys

DRIVER = r'''
import sys, warnings
warnings.filterwarnings("ignore")
sys.path.insert(0, sys.argv[1] + "/src")
from scinumtools.materials import Substance, Element, Material, Norm
import scinumtools
assert scinumtools.__file__.startswith(sys.argv[1]), scinumtools.__file__

def desc(o):
    t = type(o).__name__
    if isinstance(o, Element):
        return (t, o.expr, repr(o.proportion), type(o.proportion).__name__, o.natural,
                repr(o.isotope), repr(o.ionisation), repr(o.Z), repr(o.N), repr(o.e),
                str(o.mass), str(o.component_mass), str(o.composite_mass), str(o))
    if isinstance(o, (Substance, Material)):
        comps = [(k, type(c).__name__, c.expr, repr(c.proportion), type(c.proportion).__name__,
                  str(c.component_mass)) for k, c in o.components.items()]
        extra = ()
        if isinstance(o, Substance):
            d = o.data_composite(quantity=False)
            if d is not None:
                extra = tuple(repr(d['sum'][k]) for k in ('mass', 'Z', 'N', 'e'))
            dc = o.data_components(quantity=False)
            if dc is not None:
                extra += tuple((k, repr(dc[k]['count']), repr(dc[k]['Z']), repr(dc[k]['N']), repr(dc[k]['e'])) for k in o.components)
        return (t, repr(o.expr), o.natural, str(o.norm_type), repr(o.proportion_norm), str(o.composite_mass),
                comps, extra, str(o) if o.components else None)
    return (t, repr(o))

def run(label, fn):
    try:
        r = fn()
        print(label, "OK", desc(r))
    except BaseException as e:
        print(label, "EXC", type(e).__name__, [str(a) for a in e.args])

def keep(label, make, op):
    # also checks that the operands are left untouched
    def fn():
        ops = make()
        before = [desc(o) for o in ops]
        r = op(*ops)
        after = [desc(o) for o in ops]
        print(label, "operands-unchanged", before == after, [r is o for o in ops])
        return r
    run(label, fn)

S = Substance
E = Element
cases = [
  ("s_mul_int",      lambda: [S("H2O")],                       lambda a: a*3),
  ("s_mul_float",    lambda: [S("H2O")],                       lambda a: a*2.5),
  ("s_mul_zero",     lambda: [S("CO2")],                       lambda a: a*0),
  ("s_mul_neg",      lambda: [S("NaCl")],                      lambda a: a*-2),
  ("s_mul_bool",     lambda: [S("NaCl")],                      lambda a: a*True),
  ("s_mul_str",      lambda: [S("NaCl")],                      lambda a: a*"x"),
  ("s_mul_none",     lambda: [S("NaCl")],                      lambda a: a*None),
  ("s_mul_empty",    lambda: [S()],                            lambda a: a*4),
  ("s_mul_abund",    lambda: [S("C6H12O6", natural=False)],    lambda a: a*2),
  ("s_mul_subst",    lambda: [S("H2"), S("O")],                lambda a,b: a*b),
  ("s_rmul",         lambda: [S("H2O")],                       lambda a: 3*a),
  ("s_add_s",        lambda: [S("H2O"), S("CO2")],             lambda a,b: a+b),
  ("s_add_self",     lambda: [S("H2O")],                       lambda a: a+a),
  ("s_add_elem",     lambda: [S("H2O"), E("O", 2)],            lambda a,b: a+b),
  ("s_add_elem_new", lambda: [S("H2O"), E("C{13}", 4)],        lambda a,b: a+b),
  ("s_add_empty",    lambda: [S("H2O"), S()],                  lambda a,b: a+b),
  ("empty_add_s",    lambda: [S(), S("H{1-1}B{11}")],          lambda a,b: a+b),
  ("s_add_int",      lambda: [S("H2O")],                       lambda a: a+1),
  ("s_add_none",     lambda: [S("H2O")],                       lambda a: a+None),
  ("s_add_str",      lambda: [S("H2O")],                       lambda a: a+"O"),
  ("s_add_material", lambda: [S("H2O"), Material("H2O")],      lambda a,b: a+b),
  ("s_add_natmix",   lambda: [S("C", natural=False), S("C")],  lambda a,b: a+b),
  ("s_add_ion",      lambda: [S("[p]2[e]"), S("D{+}T{3-}")],   lambda a,b: a+b),
  ("s_chain",        lambda: [S("Fe2O3"), S("(OH)2")],         lambda a,b: (a+b)*2+a),
  ("e_mul_int",      lambda: [E("O")],                         lambda a: a*2),
  ("e_mul_float",    lambda: [E("Fe{56+2}", 3)],               lambda a: a*1.5),
  ("e_mul_zero",     lambda: [E("[n]")],                       lambda a: a*0),
  ("e_mul_abund",    lambda: [E("C", 2, natural=False)],       lambda a: a*3),
  ("e_mul_str",      lambda: [E("O", 2)],                      lambda a: a*"ab"),
  ("e_mul_none",     lambda: [E("O")],                         lambda a: a*None),
  ("e_mul_elem",     lambda: [E("O"), E("O")],                 lambda a,b: a*b),
  ("e_rmul",         lambda: [E("O")],                         lambda a: 2*a),
  ("e_add_same",     lambda: [E("O", 2), E("O", 3)],           lambda a,b: a+b),
  ("e_add_self",     lambda: [E("H{2}", 2)],                   lambda a: a+a),
  ("e_add_float",    lambda: [E("He{+}", 0.5), E("He{+}", 1)], lambda a,b: a+b),
  ("e_add_diff",     lambda: [E("O"), E("N")],                 lambda a,b: a+b),
  ("e_add_diff_iso", lambda: [E("O"), E("O{16}")],             lambda a,b: a+b),
  ("e_add_natmix",   lambda: [E("C", natural=False), E("C", 2)], lambda a,b: a+b),
  ("e_add_int",      lambda: [E("O")],                         lambda a: a+1),
  ("e_add_none",     lambda: [E("O")],                         lambda a: a+None),
  ("e_add_subst",    lambda: [E("O"), S("O")],                 lambda a,b: a+b),
  ("e_add_subst2",   lambda: [E("O"), S("H2O")],               lambda a,b: a+b),
  ("m_rmul",         lambda: [Material("H2O")],                lambda a: 2*a),
  ("m_add_m",        lambda: [Material("H2O"), Material("CO2")], lambda a,b: a+b),
  ("m_add_subst",    lambda: [Material("H2O"), S("NaCl", 2)],  lambda a,b: a+b),
  ("m_add_mass",     lambda: [Material("H2O", norm_type=Norm.MASS_FRACTION), Material("NaCl", norm_type=Norm.MASS_FRACTION)], lambda a,b: a+b),
  ("m_add_int",      lambda: [Material("H2O")],                lambda a: a+3),
]
for label, make, op in cases:
    keep(label, make, op)

# formula parsing drives __add__/__mul__ through the solver
for f in ["H2O", "DT", "(H{1-1} + B{11})2", "Ca(OH)2", "((CH3)2CH)2O", "H2 * 3 + O", "[p]2[n]2[e]2",
          "Al2(SO4)3", "C{13}O{16}2", "Fe{+3}2O{-2}3", "H2O + ", "Xx2", "(H2", "2 * 3", "H{9}"]:
    for nat in (True, False):
        run("parse %r nat=%s" % (f, nat), lambda: S(f, natural=nat))
'''

def run(root):
    root = os.path.abspath(root)
    env = dict(os.environ, PYTHONDONTWRITEBYTECODE="1", PYTHONHASHSEED="0")
    env.pop("PYTHONPATH", None)
    p = subprocess.run([sys.executable, "-c", DRIVER, root], capture_output=True, text=True, env=env, cwd="/tmp")
    if p.returncode != 0:
        print("driver failed for", root, p.stderr[-2000:])
        sys.exit(2)
    return p.stdout.replace(root, "<ROOT>")

def main():
    a, b = run(sys.argv[1]), run(sys.argv[2])
    la, lb = a.splitlines(), b.splitlines()
    print("lines:", len(la), len(lb))
    if a == b:
        print("IDENTICAL")
        sys.exit(0)
    for x, y in zip(la, lb):
        if x != y:
            print("DIFF\n  clean:  ", x, "\n  changed:", y)
    sys.exit(1)

if __name__ == "__main__":
    main()
