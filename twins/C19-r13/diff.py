#!/venv/bin/python
"""Differential check for property C19 (configuration exports).

usage: diff.py <unmodified tree root> <refactored tree root>

Runs the same set of DIP sources through every configuration exporter and
option combination in a subprocess per tree (each with its own sys.path) and
exits 0 iff all observable outputs (exported text, saved file content,
raised exception types) are identical.
"""
import sys, os, json, subprocess

DRIVER = r'''
import sys, os, json, tempfile
root = sys.argv[1]
sys.path.insert(0, os.path.join(root, 'src'))
import numpy as np
from scinumtools.dip import DIP
from scinumtools.dip.settings import Format
from scinumtools.dip.config import (ExportConfig, ExportConfigC, ExportConfigCPP,
    ExportConfigRust, ExportConfigFortran, ExportConfigBash, ExportConfigJSON,
    ExportConfigTOML, ExportConfigYAML)

SOURCES = {
 "basic": """
simulation
  name str = 'Configuration test'
  output bool = true
box
  height float = 15 cm
num_cells int = 100
  !tags ["selection"]
""",
 "derived": """
box
  width float32 = 12 cm
    !tags ["selection"]
density float128 = 23 g/cm3
num_groups uint64 = 2399495729
""",
 "widths": """
a int16 = -12
b int32 = 70000
c int64 = -9000000000
d uint16 = 65000
e uint32 = 4000000000
f uint64 = 18000000000000000000
g float32 = 1.5
h float64 = -2.25e-3 m
i float128 = 1e20 kg
""",
 "small_ints": """
x int[:] = [1,2,3,4]
y float64[2:] = [0.5,1.5,2.5] s
u uint16[2] = [1,65535]
w float128[2] = [1,2] kg
s str[1] = ["only"]
""",
 "arrays1d": """
primes int[3] = [3,5,7]
sizes float[3] = [23.4,46,96.4] cm
flags bool[2] = [true,false]
names str[3] = ["ab","cd","e"]
""",
 "arrays2d": """
grid int[2,3] = [[1,2,3],[4,5,6]]
field float32[2,2] = [[1.5,2.5],[3.5,4.5]] m
mask bool[2,2] = [[true,false],[false,true]]
words str[2,2] = [["a","bb"],["ccc","dddd"]]
""",
 "arrays3d": """
cube int16[2,2,2] = [[[1,2],[3,4]],[[5,6],[7,8]]]
ucube uint32[1,2,3] = [[[1,2,3],[4,5,6]]]
""",
 "strings": """
plain str = "hello"
quoted str = 'say "hi" now'
dollar str = 'cost $5 `x`'
back str = 'a\\\\b'
empty str = ""
""",
 "nones": """
particles
  stars int = none
  tracers int = 23
  label str = none
  mass float = none g
  on bool = none
""",
 "nested": """
a
  b
    c int = 1
      !tags ["x","y"]
    d float = 2.5 km
      !tags ["y"]
  e bool = false
    !tags ["x"]
f str = "z"
""",
 "units": """
v float = 3.5 km/s
t float64 = 10 s
n int = 4 m
arr float[2] = [1,2] J
""",
 "negzero": """
z float = 0
nz float = -0.5
big float = 1e300
tiny float32 = 1e-30
neg int = -1
t bool = true
""",
 "empty": """
""",
}

_ENVS = {}
def build(names):
    # exporters only read the environment (Environment.data returns a fresh dict),
    # so one parsed environment per source combination is shared
    key = tuple(names)
    if key not in _ENVS:
        with DIP() as dip:
            for n in names:
                dip.add_string(SOURCES[n])
            _ENVS[key] = dip.parse()
    return _ENVS[key]

def attempt(fn):
    try:
        return ["ok", fn()]
    except BaseException as e:
        return ["exc", type(e).__name__]

COMBOS = [
 ["basic"], ["derived"], ["basic","derived"], ["widths"], ["small_ints"],
 ["arrays1d"], ["arrays2d"], ["arrays3d"], ["strings"], ["nones"],
 ["nested"], ["units"], ["negzero"], ["empty"], ["basic","arrays1d","arrays2d"],
 ["widths","strings","units"],
]

SELECTS = [
 None,
 {"query": "box.*"},
 {"tags": ["selection"]},
 {"query": "a.*"},
 {"tags": ["x"]},
 {"tags": ["y"]},
 {"query": "a.b.*", "tags": ["y"]},
 {"query": "nothing.*"},
]

def variants():
    # (label, class, ctor kwargs, parse kwargs)
    out = []
    for rn in (True, False):
        out.append(("dip", ExportConfig, {"rename": rn}, {}))
        out.append(("c", ExportConfigC, {"rename": rn}, {}))
        out.append(("c_guard", ExportConfigC, {"rename": rn}, {"guard": "MY_H"}))
        out.append(("c_define", ExportConfigC, {"rename": rn},
                    {"define": ("simulation.name","simulation.output","num_cells","a","g","plain","quoted",
                                "particles.stars","particles.label","particles.on","v","primes","t","a.b.c")}))
        out.append(("cpp", ExportConfigCPP, {"rename": rn}, {}))
        out.append(("cpp_sel", ExportConfigCPP, {"rename": rn},
                    {"guard": "X_H", "define": ("num_cells","a","plain","particles.stars","t"),
                     "const": ("simulation.name","box.height","b","quoted","grid","v","z","a.b.d")}))
        out.append(("rust", ExportConfigRust, {"rename": rn}, {}))
        out.append(("fortran", ExportConfigFortran, {"rename": rn}, {}))
        out.append(("fortran_mod", ExportConfigFortran, {"rename": rn}, {"module": "Cfg"}))
        out.append(("bash", ExportConfigBash, {"rename": rn}, {}))
        out.append(("bash_noexp", ExportConfigBash, {"rename": rn}, {"export": False}))
        out.append(("bash_tuple", ExportConfigBash, {"rename": rn, "dtype": Format.TUPLE}, {}))
        for u in (True, False):
            out.append(("json_u%d"%u, ExportConfigJSON, {"rename": rn}, {"units": u}))
            out.append(("json_ind_u%d"%u, ExportConfigJSON, {"rename": rn}, {"units": u, "indent": 2, "sort_keys": True}))
            out.append(("yaml_u%d"%u, ExportConfigYAML, {"rename": rn}, {"units": u}))
            out.append(("toml_u%d"%u, ExportConfigTOML, {"rename": rn}, {"units": u}))
        out.append(("json_value", ExportConfigJSON, {"rename": rn, "dtype": Format.VALUE}, {}))
        out.append(("c_value", ExportConfigC, {"rename": rn, "dtype": Format.VALUE}, {}))
        out.append(("dip_value", ExportConfig, {"rename": rn, "dtype": Format.VALUE}, {}))
    return out

results = {}
tmpdir = tempfile.mkdtemp(prefix="c19diff_")
for combo in COMBOS:
    for sel in SELECTS:
        for label, cls, ckw, pkw in variants():
            key = "|".join(["+".join(combo), json.dumps(sel, sort_keys=True), label, json.dumps({k:str(v) for k,v in ckw.items()}, sort_keys=True)])
            def run():
                env = build(combo)
                with cls(env, **ckw) as exp:
                    if sel is not None:
                        exp.select(**sel)
                    text = exp.parse(**pkw)
                    again = exp.parse(**pkw) if cls in (ExportConfig, ExportConfigC, ExportConfigCPP, ExportConfigRust, ExportConfigFortran, ExportConfigBash) else None
                    path = os.path.join(tmpdir, "out.txt")
                    exp.save(path)
                    with open(path) as f:
                        saved = f.read()
                    os.remove(path)
                    return {"text": text, "again": again, "attr": exp.text, "saved": saved,
                            "keys": list(exp.data.keys())}
            results[key] = attempt(run)

# helper-level checks
def helpers():
    env = build(["basic"])
    out = {}
    for rn in (True, False):
        exp = ExportConfig(env, rename=rn)
        out["rename_%s"%rn] = [exp._rename(n) for n in ("a.b.c", "x", "Box.Height", "")]
        out["escape_%s"%rn] = [exp._escape(v) for v in ('a"b', "a\\b", "l1\nl2", 12, None)] + \
                              [exp._escape('a"$`b', "\"$`", newline=None)]
    b = ExportConfigBash(env)
    out["bash_scalar"] = [repr(b._parse_scalar(v)) for v in (None, "x$y", True, False, 3, 2.5, 'q"q')]
    out["bash_array"] = [repr(b._parse_array("N", v, [])) for v in ([1,2,3], [[1,2],[3,4]], ["a","b"], [[True,False]], np.array([[1.5,2.5],[3.5,4.5]]), [None, 1])]
    out["bash_array_empty"] = attempt(lambda: repr(b._parse_array("N", [], [])))
    return out
results["__helpers__"] = attempt(helpers)

# non-data environment must be rejected identically
def bad_env():
    with DIP() as dip:
        dip.add_string(SOURCES["basic"])
        env = dip.parse()
    from scinumtools.dip.settings import EnvType
    env.envtype = EnvType.DOCS if hasattr(EnvType, "DOCS") else None
    return ExportConfigC(env).parse()
results["__bad_env__"] = attempt(bad_env)

json.dump(results, sys.stdout, sort_keys=True, default=repr)
'''

def run(root):
    p = subprocess.run([sys.executable, "-c", DRIVER, os.path.abspath(root)],
                       capture_output=True, text=True, cwd="/tmp",
                       env={k: v for k, v in os.environ.items() if k != "PYTHONPATH"})
    if p.returncode != 0:
        sys.stderr.write(p.stderr)
        raise SystemExit(2)
    return json.loads(p.stdout)

def main():
    a = run(sys.argv[1])
    b = run(sys.argv[2])
    bad = 0
    if set(a) != set(b):
        print("different case sets")
        bad += 1
    for k in sorted(set(a) & set(b)):
        if a[k] != b[k]:
            bad += 1
            if bad <= 10:
                print("MISMATCH", k)
                print("  base:", json.dumps(a[k])[:600])
                print("  new :", json.dumps(b[k])[:600])
    nok = sum(1 for v in a.values() if v[0] == "ok")
    print(f"{len(a)} cases compared ({nok} ok, {len(a)-nok} raising on base), {bad} mismatches")
    sys.exit(0 if bad == 0 else 1)

if __name__ == "__main__":
    main()
