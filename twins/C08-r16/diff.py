#!/venv/bin/python
"""Differential check for C08 refactoring r1 (Magnitude arithmetic helpers).

usage: diff.py <unmodified tree root> <refactored tree root>
Runs the same inputs against each tree in a subprocess and exits 0 iff all
observable outputs (values, errors, units, raised exception types) agree.
"""
import subprocess
import sys

PROBE = r'''
import sys, warnings
warnings.filterwarnings("ignore")
sys.path.insert(0, sys.argv[1] + "/src")
import numpy as np
from decimal import Decimal
from scinumtools.units import Quantity, Magnitude

def show(x):
    if isinstance(x, Quantity):
        return ("Q", show(x.magnitude), x.baseunits.expression)
    if isinstance(x, Magnitude):
        return ("M", show(x.value), show(x.error))
    if isinstance(x, np.ndarray):
        return ("arr", str(x.dtype), x.shape, [repr(float(v)) for v in x.ravel()])
    if isinstance(x, (float, np.floating)):
        return (type(x).__name__, repr(float(x)))
    return (type(x).__name__, repr(x))

def run(label, fn):
    try:
        out = show(fn())
    except BaseException as e:
        out = ("EXC", type(e).__name__)
    print(label, "=>", out)

M = Magnitude
scal = [
    ("e_pos", lambda: M(4.0, 0.2)),
    ("e_neg", lambda: M(-7.5, 0.3)),
    ("x_pos", lambda: M(3.0)),
    ("x_neg", lambda: M(-2.0)),
    ("e_rel", lambda: M(12.0, rele=5)),
    ("e_zero", lambda: M(0.0, 0.1)),
    ("a_err", lambda: M([1.0, -2.0, 3.0], 0.1)),
    ("a_exact", lambda: M(np.array([2.0, 4.0, -8.0]))),
    ("a_rel", lambda: M([10.0, 20.0, 40.0], rele=10)),
    ("dec", lambda: M(Decimal("2.5"))),
    ("dec_e", lambda: M(Decimal("1.25"), Decimal("0.05"))),
]
ops = [
    ("add", lambda a, b: a + b),
    ("sub", lambda a, b: a - b),
    ("mul", lambda a, b: a * b),
    ("div", lambda a, b: a / b),
]
for (la, fa) in scal:
    for (lb, fb) in scal:
        for (lo, fo) in ops:
            run(f"{la} {lo} {lb}", lambda: fo(fa(), fb()))

# reflected operators with plain numbers / arrays / Decimals
plain = [("2", 2), ("-0.5", -0.5), ("0", 0), ("list", [1.0, 2.0, 4.0]),
         ("nparr", np.array([1.0, -3.0, 5.0])), ("D", Decimal("4")), ("str", "abc"), ("None", None)]
for (la, fa) in scal:
    for (lp, p) in plain:
        for (lo, fo) in ops:
            run(f"{la} {lo} plain:{lp}", lambda: fo(fa(), p))
            run(f"plain:{lp} {lo} {la}", lambda: fo(p, fa()))

# powers and negation
for (la, fa) in scal:
    run(f"neg {la}", lambda: -fa())
    for p in (2, -1, 0.5, 3, 0):
        run(f"{la} ** {p}", lambda: fa() ** p)

# the same through Quantity (units attached, including conversion before the sum)
run("Q add", lambda: Quantity(2.0, "m", abse=0.1) + Quantity(30.0, "cm", abse=2.0))
run("Q sub", lambda: Quantity(2.0, "m", abse=0.1) - Quantity(30.0, "cm"))
run("Q mul", lambda: Quantity(-2.0, "m", abse=0.1) * Quantity(3.0, "s", rele=10))
run("Q div", lambda: Quantity(6.0, "m", abse=0.3) / Quantity(-3.0, "s", abse=0.1))
run("Q mul exact", lambda: -3 * Quantity(2.0, "kg", abse=0.1))
run("Q rdiv exact", lambda: 3 / Quantity(2.0, "kg", abse=0.1))
run("Q div exact", lambda: Quantity(2.0, "kg", abse=0.1) / -4)
run("Q arr mul", lambda: Quantity([1.0, 2.0], "m", abse=0.1) * Quantity([3.0, -4.0], "s", abse=0.2))
run("Q arr div", lambda: Quantity([1.0, 2.0], "m", abse=0.1) / Quantity([3.0, -4.0], "s", abse=0.2))
run("Q to", lambda: Quantity(2.0, "km", abse=0.1).to("m"))
run("Q to rele", lambda: Quantity(2.0, "km", abse=0.1).to("cm").rele())
run("Q pow", lambda: Quantity(2.0, "m", abse=0.1) ** 2)
run("Q exact", lambda: Quantity(2.0, "m") * Quantity(3.0, "m") / Quantity(4.0, "s"))
run("Q str", lambda: str(Quantity(2.0, "m", abse=0.1) * Quantity(3.0, "s", abse=0.2)))
run("Q bad add", lambda: Quantity(2.0, "m", abse=0.1) + Quantity(3.0, "s", abse=0.2))
'''


def probe(root):
    proc = subprocess.run([sys.executable, "-c", PROBE, root],
                          capture_output=True, text=True, timeout=600)
    return proc.returncode, proc.stdout, proc.stderr


def main():
    base, new = sys.argv[1], sys.argv[2]
    rc_a, out_a, err_a = probe(base)
    rc_b, out_b, err_b = probe(new)
    if rc_a != 0 or rc_b != 0:
        print("probe crashed", rc_a, rc_b)
        print(err_a[-2000:])
        print(err_b[-2000:])
        return 2
    la, lb = out_a.splitlines(), out_b.splitlines()
    if len(la) < 12:
        print("too few probes", len(la))
        return 2
    bad = [(a, b) for a, b in zip(la, lb) if a != b]
    if len(la) != len(lb):
        print("different number of outputs", len(la), len(lb))
        return 1
    for a, b in bad[:20]:
        print("DIFF\n  base:", a, "\n  new: ", b)
    print(f"{len(la)} probes, {len(bad)} differences")
    return 1 if bad else 0


if __name__ == "__main__":
    sys.exit(main())
