#!/venv/bin/python
"""Differential check for property C02 (a solver instance is unaffected by what it solved before).

usage: diff.py <unmodified tree root> <refactored tree root>

Each tree is exercised in its own subprocess (own sys.path = <root>/src).  Every
scenario is a sequence of solve() calls on ONE solver instance; per call the value
(repr + type), or the raised exception type, and the sizes of the instance's token
buffers after the call are recorded.  The JSON observations of both trees are
compared; exit code 0 iff they are identical.
"""
import json
import subprocess
import sys

PROBE = r'''
import sys, json, warnings
warnings.simplefilter("ignore")
sys.path.insert(0, sys.argv[1] + "/src")
import numpy as np
np.seterr(all="ignore")
from scinumtools.solver import *
from scinumtools.solver.expression import Expression

class PickyAtom(AtomBase):
    """custom atom type whose constructor raises for some inputs"""
    def __init__(self, value):
        if isinstance(value, str) and value.strip() == "13":
            raise KeyError("unlucky atom")
        if isinstance(value, str) and value.strip() == "pi":
            value = "3.0"
        super().__init__(value)

def show(a):
    if a is None:
        return ["NONE"]
    v = getattr(a, "value", a)
    return ["VAL", type(a).__name__, type(v).__name__, repr(v)]

def sequence(es, exprs):
    res = []
    for e in exprs:
        try:
            r = show(es.solve(e() if callable(e) else e))
        except BaseException as x:
            r = ["EXC", type(x).__name__]
        # state left behind in the instance
        r.append([len(es.tokens.left), len(es.tokens.right)])
        res.append(r)
    return res

GOOD = ["1+2*3", "2**3**2", "-(2+3)*2", "pow(2,logb(8,2))", "1<2&&!0", "8/4/2", "!!1||0", " 7 "]
BAD = ["(1+2", "1+", "*2", "1+abc", "1 2", "pow(1)", "exp(1,2)", "1+2)", "", "!", "2*(3+(4*x))", "sqrt(4", "3 4 5 +", "1&&"]

scenarios = {}

# 1. every good expression after every bad one, on one default instance
def s1():
    with ExpressionSolver(AtomBase) as es:
        seq = []
        for b in BAD:
            for g in GOOD[:4]:
                seq += [b, g]
        return sequence(es, seq)
scenarios["bad_then_good"] = s1

# 2. reference: each good expression on a fresh instance
def s2():
    res = []
    for g in GOOD:
        with ExpressionSolver(AtomBase) as es:
            res.append(sequence(es, [g]))
    return res
scenarios["fresh"] = s2

# 3. the same expression repeatedly, interleaved with failures
def s3():
    with ExpressionSolver(AtomBase) as es:
        return sequence(es, ["1+2*3", "1+2*3", "(", "1+2*3", "1+", "1+", "1+2*3", "3 4", "1+2*3", "", "1+2*3"])
scenarios["repeat"] = s3

# 4. custom atom type with a raising constructor
def s4():
    with ExpressionSolver(PickyAtom) as es:
        return sequence(es, ["pi*2", "1+13", "pi*2", "13", "2*(1+13)", "pi*2", "pow(13,2)", "pow(pi,2)", "7+13+1", "7+1"])
scenarios["custom_atom"] = s4

# 5. subset of operators
def s5():
    ops = {'par': OperatorPar, 'mul': OperatorMul, 'add': OperatorAdd}
    with ExpressionSolver(AtomBase, ops) as es:
        return sequence(es, ["2*(3+4)", "2-1", "2*(3+4)", "2*(3", "2+3*4", "2/1", "+3", "2*", "2*3*4+1"])
scenarios["subset_ops"] = s5

# 6. custom step order (additive before multiplicative) and a step of an unused kind
def s6():
    ops = {'par': OperatorPar, 'mul': OperatorMul, 'add': OperatorAdd, 'sub': OperatorSub}
    steps = [
        dict(operators=['par'], otype=Otype.ARGS),
        dict(operators=['add', 'sub'], otype=Otype.UNARY),
        dict(operators=['add', 'sub'], otype=Otype.BINARY),
        dict(operators=['mul'], otype=Otype.BINARY),
        dict(operators=['mul'], otype=Otype.TERNARY),
        dict(operators=['nothing'], otype=Otype.BINARY),
    ]
    with ExpressionSolver(AtomBase, ops, steps) as es:
        return sequence(es, ["2+3*4", "2*(3+4)*2", "(2", "2+3*4", "2+*4", "-2+3*4", "2 3", "2+3*4"])
scenarios["custom_steps"] = s6

# 7. steps that leave tokens unprocessed (final-check error), then a good one
def s7():
    ops = {'par': OperatorPar, 'mul': OperatorMul, 'add': OperatorAdd}
    steps = [dict(operators=['par'], otype=Otype.ARGS), dict(operators=['mul'], otype=Otype.BINARY)]
    with ExpressionSolver(AtomBase, ops, steps) as es:
        return sequence(es, ["2*3", "2+3", "2*3", "2*3+1", "(2*3)", "(2+3)", "2*3"])
scenarios["unprocessed"] = s7

# 8. Expression objects as input (fresh, and a consumed one re-submitted)
def s8():
    with ExpressionSolver(AtomBase) as es:
        shared = Expression("2*(1+1)")
        return sequence(es, [lambda: Expression("1+1"), lambda: shared, lambda: shared, "(1", lambda: Expression("3*3"), lambda: Expression("3*"), "3*3"])
scenarios["expression_objects"] = s8

# 9. nested function arguments that fail deep inside, then succeed
def s9():
    with ExpressionSolver(AtomBase) as es:
        return sequence(es, ["pow(2,(1+", "pow(2,(1+1))", "sqrt(pow(2,x))", "sqrt(pow(2,4))", "logb(8,)", "logb(8,2)", "exp(log(", "exp(log(1))"])
scenarios["nested"] = s9

# 10. two instances used alternately do not influence each other
def s10():
    res = []
    with ExpressionSolver(AtomBase) as a, ExpressionSolver(PickyAtom) as b:
        for e in ["1+2", "13+1", "(3", "pi", "4*5", "1+"]:
            res.append(sequence(a, [e]))
            res.append(sequence(b, [e]))
    return res
scenarios["two_instances"] = s10

# 11. solver users that keep units: repeated parsing with failures in between
def s11():
    from scinumtools.units import Quantity
    res = []
    for u in ["kg*m2/s2", "kg*(m", "kg*m2/s2", "m//s", "m/s", "(kg*m)/(s2*K)", "foo*m", "m/s"]:
        try:
            res.append(str(Quantity(2.0, u)))
        except BaseException as x:
            res.append(type(x).__name__)
    return res
scenarios["units"] = s11

def s12():
    from scinumtools.dip import DIP
    res = []
    for code in ['a bool = true\nb float = 23.43 cm\nc bool = ("false || {?b} == 23.43 cm && {?a}")',
                 'a float = ("(10 dm + 1 m") m',
                 'a float = 14.24 mm\nb int = 220 cm\nc float = ("{?a} + {?b} + 10 m") cm',
                 'a float = ("10 dm + 1 m") J',
                 'a float = 2 m\nb float = ("{?a} * 3 + 1 cm") cm']:
        try:
            with DIP() as dip:
                dip.add_string(code)
                env = dip.parse()
            res.append(sorted((k, repr(v)) for k, v in env.data().items()))
        except BaseException as x:
            res.append(type(x).__name__)
    return res
scenarios["dip"] = s12

out = []
for name, fn in scenarios.items():
    try:
        out.append([name, fn()])
    except BaseException as x:
        out.append([name, ["SCENARIO-EXC", type(x).__name__]])
print(json.dumps(out))
'''


def run(root):
    p = subprocess.run([sys.executable, "-c", PROBE, root],
                       capture_output=True, text=True, timeout=600)
    if p.returncode != 0:
        print("probe failed for", root, file=sys.stderr)
        print(p.stderr, file=sys.stderr)
        sys.exit(2)
    return json.loads(p.stdout.strip().splitlines()[-1])


def main():
    base, new = sys.argv[1], sys.argv[2]
    a, b = run(base), run(new)
    bad = 0
    total = 0
    if len(a) != len(b):
        print("different number of scenarios", len(a), len(b))
        bad += 1
    for (ka, va), (kb, vb) in zip(a, b):
        total += len(va) if isinstance(va, list) else 1
        if ka != kb or va != vb:
            bad += 1
            print("DIFF in scenario %r:\n   base: %r\n   new:  %r" % (ka, va, vb))
    print("%d scenarios (%d observations) compared, %d differing scenarios" % (len(a), total, bad))
    sys.exit(0 if bad == 0 else 1)


if __name__ == "__main__":
    main()
