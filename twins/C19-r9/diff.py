#!/venv/bin/python
"""Differential check for property C19 (configuration exports).

usage: diff.py <unmodified tree root> <refactored tree root>
Runs the same inputs against each tree in a separate subprocess and exits 0
iff every observable output (export text, raised exception type) is identical.
"""
import sys, os, json, subprocess

WORKER = r'''
import sys, json
root = sys.argv[1]
sys.path.insert(0, root + "/src")
import scinumtools
assert scinumtools.__file__.startswith(root + "/"), scinumtools.__file__
from scinumtools.dip import DIP
from scinumtools.dip.settings import Format
from scinumtools.dip.config import *

SOURCES = {
 "basic": """
simulation
  name str = 'Configuration test'
  output bool = true
box
  height float = 15 cm
num_cells int = 100
  !tags ["selection"]
""",
 "derived": """
box
  width float32 = 12 cm
    !tags ["selection"]
density float128 = 23 g/cm3
num_groups uint64 = 2399495729
""",
 "ints": """
b int16 = -300
c int32 = 70000
d int64 = -5000000000 mm
f uint16 = 60000
g uint32 = 4000000000
h uint64 = 18000000000000000000
""",
 "floats": """
x float32 = 1.5
y float64 = -2.25e-3 m
z float128 = 1e10 kg
w float = 0.1
""",
 "arrays": """
primes int[3] = [3,5,7]
sizes float[3] = [23.4,46,96.4] cm
flags bool[2] = [true,false]
names str[2] = ["ab","cd"]
""",
 "matrix": """
m int[2,3] = [[1,2,3],[4,5,6]]
t float32[2,2,2] = [[[1,2],[3,4]],[[5,6],[7,8]]] s
u uint16[3,1] = [[1],[2],[3]]
bm bool[2,2] = [[true,false],[false,true]]
sm str[2,2] = [["a","b"],["c","d"]]
""",
 "none": """
particles
  stars int = none
  tracers int = 23
""",
 "strings": """
s1 str = 'He said "hi"'
s2 str = "back\\\\slash $HOME `cmd`"
s3 str = ""
path str = 'a b c'
""",
 "tags": """
g1
  p1 int = 1
    !tags ["one","two"]
  p2 float = 2.5 m
    !tags ["two"]
g2
  p1 bool = false
    !tags ["one"]
  p3 str = 'x'
""",
 "f16": """
q float16 = 1.5
""",
 "f80": """
r float128 = 3.25 J
i6 int16 = 7
""",
}

_ENVS = {}
def env_of(*keys):
    if keys not in _ENVS:
        with DIP() as dip:
            for k in keys:
                dip.add_string(SOURCES[k])
            _ENVS[keys] = dip.parse()
    return _ENVS[keys]

EXPORTERS = {
 "dip":  (ExportConfig,        [dict()]),
 "json": (ExportConfigJSON,    [dict(), dict(units=False), dict(indent=2)]),
 "yaml": (ExportConfigYAML,    [dict(), dict(units=False)]),
 "toml": (ExportConfigTOML,    [dict(), dict(units=False)]),
 "bash": (ExportConfigBash,    [dict(), dict(export=False)]),
 "c":    (ExportConfigC,       [dict(), dict(guard="G_H"), "DEFINE_FIRST", "DEFINE_ALL"]),
 "cpp":  (ExportConfigCPP,     [dict(), "DEFINE_FIRST", "CONST_ALL", "DEFINE_ALL"]),
 "f90":  (ExportConfigFortran, [dict(), dict(module="Mod")]),
 "rust": (ExportConfigRust,    [dict()]),
}

CASES = [
 ("basic",), ("derived",), ("basic","derived"), ("ints",), ("floats",), ("arrays",),
 ("matrix",), ("none",), ("basic","derived","none"), ("strings",), ("tags",), ("f16",),
 ("f80",), ("arrays","matrix","ints"),
]
SELECTS = [None, dict(query="box.*"), dict(tags=["selection"]), dict(tags=["one"]),
           dict(query="g1.*", tags=["two"]), dict(query="*")]

out = {}
def record(key, fn):
    try:
        out[key] = ["ok", fn()]
    except BaseException as e:
        out[key] = ["exc", type(e).__name__]

for case in CASES:
    for ename, (cls, optlist) in EXPORTERS.items():
        for rename in (True, False):
            for sel in SELECTS:
                if sel is not None and not ({"basic","derived","tags"} & set(case)):
                    continue
                for oi, opts in enumerate(optlist):
                    key = "|".join([",".join(case), ename, str(rename), json.dumps(sel), str(oi)])
                    def run():
                        env = env_of(*case)
                        exp = cls(env, rename=rename)
                        if sel is not None:
                            exp.select(**sel)
                        o = opts
                        names = list(exp.data.keys())
                        if o == "DEFINE_FIRST":
                            o = dict(define=tuple(names[:1]))
                        elif o == "DEFINE_ALL":
                            o = dict(define=tuple(names))
                        elif o == "CONST_ALL":
                            o = dict(const=tuple(names))
                        text = exp.parse(**o)
                        assert text == exp.text
                        extra = getattr(exp, "includes", None)
                        return [text, extra]
                    record(key, run)

# non-default dtype for the DIP/bash exporters, and a non-data environment
for ename in ("dip","bash","json","c"):
    cls = EXPORTERS[ename][0]
    for fmt in (Format.VALUE, Format.TUPLE, Format.TYPE, Format.NODE):
        def run():
            exp = cls(env_of("basic","arrays"), dtype=fmt)
            return exp.parse()
        record("fmt|%s|%s" % (ename, fmt), run)

# hand-built typed parameters: widths/signedness that the DIP grammar itself cannot declare
from scinumtools.dip.datatypes import IntegerType, FloatType, StringType, BooleanType
def synthetic():
    d = {}
    for prec in (8, 16, 32, 64, 128):
        for uns in (False, True):
            d["grp.i%d%s" % (prec, "u" if uns else "s")] = IntegerType(5, "m" if prec == 16 else None, precision=prec, unsigned=uns)
    for prec in (16, 32, 64, 80, 96, 128):
        d["grp.f%d" % prec] = FloatType(2.5, precision=prec)
    d["arr.i8"] = IntegerType([[1, 2], [3, 4]], precision=8, unsigned=True)
    d["arr.f32"] = FloatType([1.5, 2.5, 3.5], "s", precision=32)
    d["arr.s"] = StringType(["a\"b", "c\nd"])
    d["arr.b"] = BooleanType([[True], [False]])
    d["s.nl"] = StringType("line1\nline2\ttab \\ end")
    d["s.none"] = StringType(None)
    d["b.none"] = BooleanType(None)
    d["i.none"] = IntegerType(None)
    return d
SYN = synthetic()
for ename in ("dip", "c", "cpp", "f90", "rust"):
    cls = EXPORTERS[ename][0]
    for pname in SYN:
        for rename in (True, False):
            for mode in ("default", "define", "const"):
                if mode != "default" and ename not in ("c", "cpp"): continue
                if mode == "const" and ename != "cpp": continue
                def run():
                    exp = cls(env_of("basic"), rename=rename)
                    exp.data = {pname: SYN[pname]}
                    o = {} if mode == "default" else {mode: (pname,)}
                    return [exp.parse(**o), getattr(exp, "includes", None)]
                record("syn|%s|%s|%s|%s" % (ename, pname, rename, mode), run)
VAL = {"v.none": None, "v.s": "a $b `c` \"d\" \\ e\nf", "v.t": True, "v.f": False, "v.i": 3, "v.x": 2.5,
       "v.l": [1, 2, 3], "v.ll": [[1, "x"], [True, None]], "v.e": [], "v.lll": [[[1], [2]], [[3], [4]]], "v.tup": (1, 2)}
for pname in VAL:
    for rename in (True, False):
        for export in (True, False):
            def run():
                exp = ExportConfigBash(env_of("basic"), rename=rename)
                exp.data = {pname: VAL[pname]}
                return exp.parse(export=export)
            record("synbash|%s|%s|%s" % (pname, rename, export), run)
TUP = {"a": 1, "b": (2.5, "m"), "c": ([1, 2], "s"), "d": "x", "e": None, "f": [True, False]}
for ename in ("json", "yaml", "toml"):
    cls = EXPORTERS[ename][0]
    for units in (True, False):
        def run():
            exp = cls(env_of("basic"))
            exp.data = dict(TUP)
            return exp.parse(units=units)
        record("syntup|%s|%s" % (ename, units), run)

# user-registered include libraries, repeated parse() calls on one exporter, save()
for ename in ("c", "cpp"):
    cls = EXPORTERS[ename][0]
    for case in (("basic",), ("floats",), ("arrays", "matrix")):
        def run():
            exp = cls(env_of(*case))
            exp.include("<stdio.h>"); exp.include("<math.h>"); exp.include("<stdio.h>")
            first = exp.parse()
            exp.select(query="nonexistent.*")
            second = exp.parse(guard="EMPTY_H")
            return [first, second, exp.includes]
        record("inc|%s|%s" % (ename, ",".join(case)), run)
import tempfile, os
for ename, (cls, optlist) in EXPORTERS.items():
    def run():
        with cls(env_of("basic", "derived", "arrays")) as exp:
            exp.parse()
            fd, path = tempfile.mkstemp(); os.close(fd)
            try:
                exp.save(path)
                return open(path).read()
            finally:
                os.remove(path)
    record("save|%s" % ename, run)

def run():
    from scinumtools.dip import Environment
    from scinumtools.dip.settings import EnvType
    env = Environment(envtype=EnvType.DOCS) if hasattr(EnvType, "DOCS") else None
    return ExportConfigC(env).parse()
record("nondata", run)

json.dump(out, sys.stdout, sort_keys=True, default=repr)
'''

def run(root):
    root = os.path.abspath(root)
    env = dict(os.environ)
    env.pop("PYTHONPATH", None)
    p = subprocess.run([sys.executable, "-c", WORKER, root], cwd=root, env=env,
                       capture_output=True, text=True)
    if p.returncode != 0:
        sys.stderr.write(p.stderr)
        sys.exit(2)
    return json.loads(p.stdout)

def main():
    a = run(sys.argv[1])
    b = run(sys.argv[2])
    bad = [k for k in sorted(set(a) | set(b)) if a.get(k) != b.get(k)]
    nok = sum(1 for v in a.values() if v[0] == "ok")
    print("cases: %d (ok: %d, exc: %d); differing: %d" % (len(a), nok, len(a) - nok, len(bad)))
    for k in bad[:20]:
        print("DIFF", k, "\n  base:", a.get(k), "\n  new: ", b.get(k))
    sys.exit(1 if bad or len(a) < 12 else 0)

if __name__ == "__main__":
    main()
