#!/venv/bin/python
"""Differential check for property C20 (table, row and grid helpers).

usage: diff.py <unmodified tree root> <refactored tree root>
Runs the same probes against both trees (each in its own subprocess with its
own sys.path) and exits 0 iff every observable output is identical.
"""
import json
import subprocess
import sys

PROBE = r'''
import sys, json, warnings
warnings.filterwarnings("ignore")
sys.path.insert(0, sys.argv[1] + "/src")
import numpy as np
from scinumtools import ParameterTable, RowCollector, DataPlotGrid, DataCombination
import scinumtools, os
assert os.path.abspath(scinumtools.__file__).startswith(os.path.abspath(sys.argv[1])), scinumtools.__file__

def norm(x):
    if isinstance(x, np.ndarray):
        return ["ndarray", str(x.dtype), [norm(v) for v in x.tolist()]]
    if isinstance(x, np.generic):
        return [type(x).__name__, norm(x.item())]
    if isinstance(x, (list, tuple)):
        return [type(x).__name__, [norm(v) for v in x]]
    if isinstance(x, dict):
        return ["dict", [[norm(k), norm(v)] for k, v in x.items()]]
    if isinstance(x, (int, float, str, bool)) or x is None:
        return [type(x).__name__, repr(x)]
    if hasattr(x, "data") and callable(x.data) and type(x).__name__ == "ParameterSettings":
        return ["ParameterSettings", norm(x.data()), str(x), list(x.keys())]
    return [type(x).__name__, repr(x)]

results = []
def probe(label, fn):
    try:
        out = ["ok", norm(fn())]
    except BaseException as e:
        out = ["raise", type(e).__name__, norm(list(e.args))]
    results.append([label, out])

# ---------------------------------------------------------------- plot grid
def grid(data, ncols, **kw):
    g = DataPlotGrid(data, ncols=ncols)
    return [g.ndata, g.ncols, g.nrows, g.figsize, list(g.items(**kw))]

for n in (0, 1, 2, 3, 5, 6, 7, 12, 13):
    for ncols in (1, 2, 3, 4, 5):
        for kw in ({}, {"transpose": True}, {"missing": True}, {"missing": True, "transpose": True},
                   {"missing": False, "transpose": False}):
            probe("grid-list %d %d %r" % (n, ncols, kw), lambda: grid(list("abcdefghijklmnop"[:n]), ncols, **kw))
            probe("grid-dict %d %d %r" % (n, ncols, kw),
                  lambda: grid({"k%d" % i: i * i for i in range(n)}, ncols, **kw))
probe("grid-axsize", lambda: DataPlotGrid([1, 2, 3], ncols=2, axsize=(3, 5)).figsize)
probe("grid-tuple", lambda: grid((1, 2, 3), 2))
probe("grid-tuple-missing", lambda: grid((1, 2, 3), 2, missing=True))
probe("grid-str", lambda: grid("abc", 2, transpose=True))
probe("grid-zero-cols", lambda: grid([1, 2], 0))
probe("grid-nested", lambda: grid([(1, 2), [3], {"a": 1}], 2))
def lazy_raise():
    g = DataPlotGrid((1, 2, 3), ncols=2)
    it = g.items()          # must not raise before the first next()
    try:
        next(it)
    except Exception as e:
        return ["lazy", type(e).__name__, list(e.args)]
    return "no-raise"
probe("grid-lazy-raise", lazy_raise)
def live_list():
    d = [1, 2]
    g = DataPlotGrid(d, ncols=2)
    out = []
    for item in g.items():
        out.append(item)
        if len(d) < 4:
            d.append(len(d) + 1)
    return out
probe("grid-live-list", live_list)
def live_dict():
    d = {"a": 1, "b": 2}
    g = DataPlotGrid(d, ncols=2)
    out = []
    for item in g.items():
        out.append(item)
        d["z%d" % len(d)] = 0
    return out
probe("grid-live-dict", live_dict)

# -------------------------------------------------------------- combination
def comb(items):
    dc = DataCombination(items)
    return [list(dc.keys()), list(dc.values()), list(dc.items())]
for items in ([], [[1, 2]], [[1, 2], ["a", "b", "c"]], [[1], [2], [3]], [[1, 2], []], [[], [1]],
              [[1, 2], [3, 4], [5, 6]], ["ab", "cd"], [(1, 2), (3,)], [[None, 0.5], [[1], {"a": 2}]],
              [[1, 1], [1, 1]], [range(3), range(2)]):
    probe("comb %r" % (items,), lambda: comb(items))
probe("comb-set", lambda: comb([{1}, [2, 3]]))
probe("comb-int", lambda: comb([3, [1]]))
probe("comb-gen-keys", lambda: list(DataCombination([iter([1, 2])]).keys()))
probe("comb-gen-values", lambda: list(DataCombination([iter([1, 2]), [3]]).values()))
probe("comb-type", lambda: [type(DataCombination([[1]]).keys()).__name__,
                             type(DataCombination([[1]]).values()).__name__,
                             type(DataCombination([[1]]).items()).__name__])

# ------------------------------------------------------------ row collector
def rc_state(rc):
    return [rc._columns, rc.to_dict(), len(rc), rc.size(), rc.shape(),
            [rc[c] for c in rc._columns], rc.to_text() if rc._columns else None]
def rc_basic(array):
    rc = RowCollector(["a", "b", "c"], array=array)
    rc.append([3, "x", 1.5]) if not array else rc.append([3, 7, 1.5])
    rc.append({"c": 0.5, "a": 1, "b": 9})
    rc.append([2, 8, 2.5])
    s0 = rc_state(rc)
    rc.sort("a"); s1 = rc_state(rc)
    rc.sort("c", reverse=True); s2 = rc_state(rc)
    rc.sort("b"); s3 = rc_state(rc)
    return [s0, s1, s2, s3]
probe("rc-list", lambda: rc_basic(False))
probe("rc-array", lambda: rc_basic(True))
probe("rc-empty", lambda: rc_state(RowCollector()))
probe("rc-empty-cols", lambda: rc_state(RowCollector(["a", "b"])))
probe("rc-empty-sort", lambda: (lambda rc: (rc.sort("a"), rc_state(rc))[1])(RowCollector(["a", "b"])))
probe("rc-rows", lambda: rc_state(RowCollector(["a", "b"], rows=[[1, 2], [3, 4], {"b": 6, "a": 5}])))
probe("rc-rows-array", lambda: rc_state(RowCollector(["a", "b"], rows=[[1, 2], [3, 4]], array=True)))
probe("rc-dtype", lambda: (lambda rc: (rc.append([1.7, "5"]), rc.append([2, 3]), rc.sort("b", reverse=True), rc_state(rc))[-1])(
    RowCollector({"a": {"dtype": int}, "b": {"dtype": float}}, array=True)))
probe("rc-dict-cols-noarray", lambda: rc_state(RowCollector({"a": {"dtype": int}, "b": {}}, rows=[[1, 2]])))
probe("rc-autocols", lambda: (lambda rc: (rc.append({"x": 1, "y": 2}), rc.append({"y": 4, "x": 3}), rc_state(rc))[-1])(RowCollector()))
probe("rc-autocols-array", lambda: (lambda rc: (rc.append({"x": 1, "y": 2}), rc.append([0, 3]), rc.sort("x"), rc_state(rc))[-1])(RowCollector(array=True)))
probe("rc-missing-cols", lambda: RowCollector(["a"]).append({"a": 1, "q": 2}))
probe("rc-dict-missing-key", lambda: RowCollector(["a", "b"]).append({"a": 1}))
def rc_try(rc):
    try:
        rc.append([1])
    except Exception as e:
        return type(e).__name__
probe("rc-short-row", lambda: (lambda rc: (rc_try(rc), rc_state(rc)))(RowCollector(["a", "b"])))
probe("rc-long-row", lambda: (lambda rc: (rc.append([1, 2, 3]), rc_state(rc))[-1])(RowCollector(["a", "b"])))
probe("rc-sort-unknown", lambda: RowCollector(["a"], rows=[[1]]).sort("zz"))
probe("rc-sort-ties", lambda: (lambda rc: (rc.sort("a"), rc_state(rc))[-1])(
    RowCollector(["a", "b"], rows=[[2, 0], [1, 1], [2, 2], [1, 3], [0, 4], [2, 5]])))
probe("rc-sort-ties-rev", lambda: (lambda rc: (rc.sort("a", reverse=True), rc_state(rc))[-1])(
    RowCollector(["a", "b"], rows=[[2, 0], [1, 1], [2, 2], [1, 3], [0, 4], [2, 5]], array=True)))
probe("rc-sort-str", lambda: (lambda rc: (rc.sort("n"), rc_state(rc))[-1])(
    RowCollector(["n", "v"], rows=[["pear", 1], ["apple", 2.5], ["fig", 3]])))
probe("rc-sort-mixed", lambda: (lambda rc: (rc.sort("v"), rc_state(rc))[-1])(
    RowCollector(["n", "v"], rows=[["pear", 1], ["apple", None]])))
probe("rc-sort-float-nan", lambda: (lambda rc: (rc.sort("v"), rc_state(rc))[-1])(
    RowCollector(["n", "v"], rows=[[1, 2.0], [2, float("nan")], [3, -1.0]])))
probe("rc-getitem-bad", lambda: RowCollector(["a"])["b"])
probe("rc-getitem-int", lambda: RowCollector(["a"])[0])
probe("rc-str", lambda: str(RowCollector(["a", "b"], rows=[[1, 2], [3, 4]])))
probe("rc-dataframe", lambda: [RowCollector(["a", "b"], rows=[[1, 2], [3, 4]]).to_dataframe(c).to_string()
                               for c in (None, ["b"], {"a": "A", "b": "B"}, ["b", "a"])])
probe("rc-dataframe-bad", lambda: RowCollector(["a"], rows=[[1]]).to_dataframe(["q"]))
probe("rc-to-dict-identity", lambda: (lambda rc: rc.to_dict()["a"] is rc.a)(RowCollector(["a"], rows=[[1]])))
probe("rc-with", lambda: (lambda rc: rc.__enter__() is rc)(RowCollector(["a"])))
probe("rc-same-col-twice", lambda: (lambda rc: (rc.append([1, 2]), rc_state(rc))[-1])(RowCollector(["a", "a"])))

# ---------------------------------------------------------- parameter table
def pt_state(pt):
    keyed = pt._keys is not None
    out = [len(pt), pt.shape(), pt.data(), list(pt.items()), pt.to_text()]
    if keyed:
        out += [pt.keys(), str(pt), repr(pt), [pt[i] for i in range(len(pt))], [pt[k] for k in pt.keys()],
                [getattr(pt, k) for k in pt.keys() if k.isidentifier()]]
    else:
        out += [[pt[i] for i in range(len(pt))]]
    return out
def pt_keyed():
    pt = ParameterTable(["x", "y", "z"], {"a": [1, 2, 3], "b": [4, 5, 6]}, keys=True)
    s = [pt_state(pt)]
    pt.append("c", [7, 8, 9]); s.append(pt_state(pt))
    pt["a"] = [0, 0, 0]; s.append(pt_state(pt))          # overwrite keeps position
    pt.append("b", ["q", None, 1.5]); s.append(pt_state(pt))
    del pt["a"]; s.append(pt_state(pt))
    pt["a"] = [1, 1, 1]; s.append(pt_state(pt))          # re-insert goes last
    s.append(["a" in pt, "zz" in pt, pt[0].x, pt[-1]["y"], pt.b.z, pt["c"].data()])
    del pt["b"]; del pt["c"]; del pt["a"]; s.append(pt_state(pt))
    return s
probe("pt-keyed", pt_keyed)
def pt_plain():
    pt = ParameterTable(["x", "y"], [[1, 2], [3, 4]])
    s = [pt_state(pt)]
    pt.append([5, 6]); s.append(pt_state(pt))
    del pt[0]; s.append(pt_state(pt))
    pt.append(["s", None]); s.append(pt_state(pt))
    s.append([pt[-1].x, pt[0]["y"], pt[0:2]])
    return s
probe("pt-plain", pt_plain)
probe("pt-empty-keyed", lambda: pt_state(ParameterTable(["x"], keys=True)))
probe("pt-empty-plain", lambda: pt_state(ParameterTable(["x"])))
probe("pt-keyname", lambda: ParameterTable(["x"], {"a": [1]}, keys=True, keyname="name").to_text())
probe("pt-short-values", lambda: pt_state(ParameterTable(["x", "y", "z"], {"a": [1]}, keys=True)))
probe("pt-long-values", lambda: pt_state(ParameterTable(["x"], {"a": [1, 2, 3]}, keys=True)))
probe("pt-plain-setitem", lambda: ParameterTable(["x"], [[1]]).__setitem__(0, [2]))
probe("pt-plain-getattr", lambda: ParameterTable(["x"], [[1]]).foo)
probe("pt-plain-contains", lambda: 1 in ParameterTable(["x"], [[1]]))
probe("pt-plain-keys", lambda: ParameterTable(["x"], [[1]]).keys())
probe("pt-plain-str", lambda: str(ParameterTable(["x"], [[1]])))
probe("pt-plain-index", lambda: ParameterTable(["x"], [[1]])[3])
probe("pt-plain-del-bad", lambda: ParameterTable(["x"], [[1]]).__delitem__(3))
probe("pt-keyed-missing", lambda: ParameterTable(["x"], {"a": [1]}, keys=True)["b"])
probe("pt-keyed-missing-attr", lambda: ParameterTable(["x"], {"a": [1]}, keys=True).b)
probe("pt-keyed-index-bad", lambda: ParameterTable(["x"], {"a": [1]}, keys=True)[5])
probe("pt-keyed-del-bad", lambda: ParameterTable(["x"], {"a": [1]}, keys=True).__delitem__("q"))
probe("pt-keyed-append-1arg", lambda: ParameterTable(["x"], keys=True).append([1]))
probe("pt-keyed-append-3arg", lambda: ParameterTable(["x"], keys=True).append("a", [1], 2))
probe("pt-plain-append-2arg", lambda: pt_state((lambda pt: (pt.append([1], [2]), pt)[1])(ParameterTable(["x"]))))
probe("pt-plain-append-0arg", lambda: ParameterTable(["x"]).append())
probe("pt-keyed-list-params", lambda: ParameterTable(["x"], [[1]], keys=True))
probe("pt-plain-dict-params", lambda: pt_state(ParameterTable(["x", "y"], {"ab": [1], "cd": [2]})))
probe("pt-nonstr-key", lambda: (lambda pt: [len(pt), pt.keys(), pt.data(), list(pt.items())])(
    ParameterTable(["x"], {1.5: [1], ("t",): [2]}, keys=True)))
probe("pt-int-key", lambda: (lambda pt: [len(pt), pt.keys(), pt.data()])(ParameterTable(["x"], {7: [1], 0: [2]}, keys=True)))
probe("pt-int-key-get", lambda: ParameterTable(["x"], {7: [1], 0: [2]}, keys=True)[0].data())
probe("pt-settings", lambda: (lambda s: [s, list(s.items()), s.keys(), s.data(), s["x"], s.y, str(s), repr(s)])(
    ParameterTable(["x", "y"], {"a": [1, "t"]}, keys=True)["a"]))
probe("pt-settings-bad", lambda: ParameterTable(["x", "y"], {"a": [1, "t"]}, keys=True)["a"]["q"])
probe("pt-with", lambda: (lambda pt: pt.__enter__() is pt)(ParameterTable(["x"])))
probe("pt-generator-values", lambda: pt_state(ParameterTable(["x", "y"], {"a": iter([1, 2])}, keys=True)))

print(json.dumps(results))
'''


def run(root):
    proc = subprocess.run([sys.executable, "-c", PROBE, root], capture_output=True, text=True)
    if proc.returncode != 0:
        print("probe failed for", root, "\n", proc.stderr[-3000:])
        sys.exit(2)
    return json.loads(proc.stdout.strip().splitlines()[-1])


def main():
    a = run(sys.argv[1])
    b = run(sys.argv[2])
    bad = 0
    if len(a) != len(b):
        print("different number of probes", len(a), len(b))
        bad += 1
    for (la, ra), (lb, rb) in zip(a, b):
        if la != lb or ra != rb:
            bad += 1
            print("DIFF", la, "\n   base:", json.dumps(ra)[:400], "\n   new :", json.dumps(rb)[:400])
    print("%d probes, %d differences" % (len(a), bad))
    sys.exit(1 if bad else 0)


if __name__ == "__main__":
    main()
