#!/venv/bin/python
"""Differential check for property C14 (last assignment wins, in the units and type of the definition).

usage: diff.py <unmodified tree root> <refactored tree root>
Runs the same DIP inputs against each tree in its own subprocess and exits 0 iff
all observable outputs (values, units, types, exception types/messages) are identical.
"""
import sys, os, json, subprocess

CASES = [
    # --- same-dimension modifications, typed and untyped
    ("float_untyped_same_unit",   "a float = 1 m\na = 250 cm"),
    ("float_typed_other_unit",    "a float = 1 m\na float = 250 cm"),
    ("float_no_unit_mod",         "a float = 1 m\na = 7"),
    ("float_chain",               "a float = 1 m\na = 2 km\na = 30 cm\na float = 4 mm"),
    ("float_zero",                "a float = 5 km\na = 0 m"),
    ("float_zero_nounit",         "a float = 5 km\na = 0"),
    ("float_negative",            "a float = 5 km\na = -250 m"),
    ("float_none",                "a float = 5 km\na = none"),
    ("float_none_then_value",     "a float = none km\na = 3 m"),
    ("float_exponent",            "a float = 1e3 g\na = 2.5e-1 kg"),
    ("int_same_dim",              "n int = 3 m\nn = 2 km"),
    ("int_typed",                 "n int = 3 m\nn int = 700 cm"),
    ("int_zero",                  "n int = 3 m\nn = 0 km"),
    ("int_negative",              "n int = 3 m\nn = -4"),
    ("int_none",                  "n int = 3 m\nn = none"),
    ("int_dimensionless",         "n int = 3\nn = 12"),
    ("float_dimensionless_unit",  "x float = 3\nx = 12 m"),
    ("bool_false",                "b bool = true\nb = false"),
    ("bool_true",                 "b bool = false\nb bool = true"),
    ("bool_none",                 "b bool = true\nb = none"),
    ("str_mod",                   "s str = 'abc'\ns = 'def'"),
    ("str_empty",                 "s str = 'abc'\ns = ''"),
    ("str_none",                  "s str = 'abc'\ns = none"),
    ("str_typed",                 "s str = abc\ns str = \"x y\""),
    # --- declarations
    ("decl_then_value",           "a float m\na = 120 cm"),
    ("decl_then_zero",            "a float m\na = 0 cm"),
    ("decl_int_then_value",       "n int s\nn = 2 min"),
    ("decl_bool_false",           "b bool\nb = false"),
    ("decl_str",                  "s str\ns = hello"),
    ("decl_then_typed",           "a float m\na float = 2 km"),
    ("decl_no_value",             "a float m"),
    ("decl_no_value_bool",        "b bool"),
    ("decl_then_none",            "a float m\na = none"),
    ("decl_among_defined",        "x float = 1 m\ny int\nz str = a"),
    # --- failing inputs
    ("dtype_change_int_float",    "n int = 3 m\nn float = 4.5 m"),
    ("dtype_change_float_int",    "a float = 3 m\na int = 4 m"),
    ("dtype_change_bool_str",     "b bool = true\nb str = true"),
    ("dtype_change_str_float",    "s str = 1\ns float = 1"),
    ("other_dimension",           "a float = 1 m\na = 3 s"),
    ("other_dimension_typed",     "a float = 1 m\na float = 3 kg"),
    ("other_dimension_int",       "n int = 1 s\nn = 3 m"),
    ("unit_on_dimensionless_def", "a float = 1 m\na = 3 xyzq"),
    ("bool_with_unit",            "b bool = true\nb = false m"),
    ("bad_bool_value",            "b bool = true\nb = 3"),
    ("bad_int_value",             "n int = 3\nn = abc"),
    ("bad_float_value",           "a float = 3\na = abc"),
    ("constant_mod",              "a float = 1 m\n  !constant\na = 2 m"),
    ("constant_mod_typed",        "n int = 1\n  !constant\nn int = 2"),
    ("constant_same_value",       "b bool = true\n  !constant\nb = true"),
    ("constant_other_untouched",  "a float = 1 m\n  !constant\nc float = 2 m\nc = 3 cm"),
    ("mod_undefined",             "a = 2 m"),
    # --- hierarchy
    ("hier_group",                "box\n  size float = 1 m\nbox.size = 35 cm"),
    ("hier_group_typed",          "box\n  size float = 1 m\n  size float = 35 mm"),
    ("hier_deep",                 "a\n  b\n    c int = 1 km\na.b.c = 2500 m\na.b\n  c = 7000 m"),
    ("hier_decl",                 "a\n  b float kg\na.b = 500 g"),
    ("hier_decl_missing",         "a\n  b float kg\n  c int = 1"),
    ("hier_other_dim",            "a\n  b float = 1 kg\na.b = 1 m"),
    ("hier_constant",             "a\n  b float = 1 kg\n    !constant\na.b = 2 kg"),
    ("hier_dtype",                "a\n  b float = 1 kg\na.b int = 2 kg"),
    ("hier_siblings",             "a\n  b float = 1 kg\n  c float = 1 g\na.c = 2 kg\na.b = 2 g"),
    # --- properties following a modification belong to the modified node
    ("options_after_mod",         "a int = 1 m\n  !options [1,2,300] cm\na = 2 m"),
    ("options_violated",          "a int = 1 m\n  = 1 m\n  = 2 m\na = 3 m"),
    ("condition_after_mod",       "a float = 1 m\na = 200 cm\n  !condition (\"{?} > 1 m\")"),
    ("const_after_mod",           "a float = 1 m\na = 2 m\n  !constant\na = 3 m"),
    # --- cases
    ("case_mod",                  "a float = 1 m\n@case true\n  a = 20 cm\n@else\n  a = 30 cm\n@end"),
    ("case_mod_false",            "a float = 1 m\n@case false\n  a = 20 cm\n@else\n  a = 30 mm\n@end"),
    # --- arrays
    ("array_mod",                 "v float[3] = [1,2,3] m\nv = [10,20,30] cm"),
    ("array_int_mod",             "v int[2] = [1,2] km\nv = [3000,4000] m"),
    ("array_bad_dim",             "v float[3] = [1,2,3] m\nv = [10,20] cm"),
    # --- custom units
    ("custom_unit",               "$unit len = 2 m\na float = 1 m\na = 3 [len]"),
    ("custom_unit_def",           "$unit len = 2 m\na float = 1 [len]\na = 3 m"),
    # --- references / expressions as the modifying value
    ("ref_mod",                   "x float = 50 cm\na float = 1 m\na = {?x}"),
    ("ref_mod_unit",              "x float = 50\na float = 1 m\na = {?x} cm"),
    ("expr_mod",                  "x float = 50 cm\na float = 1 m\na float = (\"{?x} * 3\") cm"),
    ("precision_kept",            "a float32 = 1 m\na = 5 cm"),
    ("unsigned_kept",             "n uint16 = 1 m\nn = 5 km"),
    # --- modify_value edges: none with units, none -> none, repeated none, none on typed mods
    ("float_none_with_unit",      "a float = 5 km\na = none m"),
    ("float_none_same_unit",      "a float = 5 km\na = none km"),
    ("float_none_none",           "a float = none km\na = none"),
    ("float_none_value_none",     "a float = 5 km\na = none\na = 20 m\na = none"),
    ("int_typed_none",            "n int = 5 km\nn int = none"),
    ("bool_none_then_false",      "b bool = none\nb = false"),
    ("str_none_then_empty",       "s str = none\ns = ''"),
    ("decl_int_zero_typed",       "n int m\nn int = 0 km"),
    ("decl_str_none",             "s str\ns = none"),
    ("decl_bool_none",            "b bool\nb bool = none"),
    ("dtype_change_on_decl",      "a float m\na int = 3 m"),
    ("dtype_change_none",         "a float = none m\na bool = true"),
    ("float_from_int_ref",        "k int = 3 km\na float = 1 m\na = {?k}"),
    ("int_from_float_ref",        "k float = 3.6 km\nn int = 1 m\nn = {?k}"),
    # --- unit conversion edges: custom units with prefixes, chained custom units, compound units, temperature
    ("custom_unit_chain",         "$unit len = 2 m\n$unit wid = 3 [len]\na float = 1 [wid]\na = 12 m\na = 3 [len]"),
    ("custom_unit_unknown",       "a float = 1 m\na = 3 [len]"),
    ("custom_unit_other_dim",     "$unit tt = 2 s\na float = 1 m\na = 3 [tt]"),
    ("compound_unit",             "v float = 1 m/s\nv = 36 km/h"),
    ("compound_unit_spelling",    "v float = 1 m*s-1\nv = 2 m/s"),
    ("energy_units",              "e float = 1 J\ne = 1 kW*h\ne = 3 erg"),
    ("temperature",               "t float = 300 K\nt = 25 Cel"),
    ("same_unit_no_conversion",   "a int = 1 km\na = 7 km"),
    ("def_dimensionless_mod_unit","a int = 1\na = 7 km"),
    ("expr_def_then_mod",         "x float = 2 m\na float = (\"{?x} + 1 m\") cm\na = 1 m"),
    ("options_in_other_unit",     "a float = 1 m\n  !options [1,2,3] m\na = 200 cm"),
    ("condition_other_unit",      "a float = 1 km\n  !condition (\"{?} < 1500 m\")\na = 1200 m"),
    ("condition_violated",        "a float = 1 km\n  !condition (\"{?} < 1500 m\")\na = 1600 m"),
]

RUNNER = r'''
import sys, json, warnings
warnings.filterwarnings("ignore")
root = sys.argv[1]
sys.path.insert(0, root + "/src")
import numpy as np
from scinumtools.dip import DIP, Format
import scinumtools
assert scinumtools.__file__.startswith(root), scinumtools.__file__
cases = json.loads(sys.stdin.read())

def norm(v):
    if isinstance(v, np.ndarray):
        return ["ndarray", v.tolist()]
    if isinstance(v, (np.generic,)):
        return [type(v).__name__, v.item()]
    if isinstance(v, (list, tuple)):
        return [type(v).__name__, [norm(x) for x in v]]
    return [type(v).__name__, v if isinstance(v, (int, float, str, bool, type(None))) else repr(v)]

out = {}
for name, code in cases:
    try:
        with DIP() as dip:
            dip.add_string(code)
            env = dip.parse()
        res = []
        for node in env.nodes:
            val = node.value
            res.append({
                "name": node.name,
                "node_class": type(node).__name__,
                "keyword": node.keyword,
                "units_raw": node.units_raw,
                "constant": node.constant,
                "defined": node.defined,
                "value_type": type(val).__name__,
                "value": norm(getattr(val, "value", val)),
                "unit": getattr(val, "unit", None),
                "precision": getattr(val, "precision", None),
                "unsigned": getattr(val, "unsigned", None),
                "options": repr(getattr(node, "options", None)),
                "condition": node.condition,
                "str": str(node),
            })
        data = {
            "value": {k: norm(v) for k, v in env.data(format=Format.VALUE).items()},
            "tuple": {k: norm(v) for k, v in env.data(format=Format.TUPLE).items()},
        }
        out[name] = {"ok": True, "nodes": res, "data": data, "cursor": env.nodes.cursor if hasattr(env.nodes, "cursor") else None}
    except BaseException as e:
        out[name] = {"ok": False, "exc_type": type(e).__name__,
                     "exc_args": [a if isinstance(a, (int, float, str, bool, type(None))) else repr(a) for a in e.args]}
print("@@RESULT@@" + json.dumps(out, sort_keys=True))
'''

def run(root):
    root = os.path.abspath(root)
    env = dict(os.environ)
    env.pop("PYTHONPATH", None)
    env["PYTHONDONTWRITEBYTECODE"] = "1"
    p = subprocess.run([sys.executable, "-c", RUNNER, root], input=json.dumps(CASES),
                       capture_output=True, text=True, env=env, cwd="/tmp")
    if p.returncode != 0:
        print("runner failed for", root, "\n", p.stderr)
        sys.exit(2)
    line = [l for l in p.stdout.splitlines() if l.startswith("@@RESULT@@")][-1]
    return json.loads(line[len("@@RESULT@@"):])

def main():
    base, new = sys.argv[1], sys.argv[2]
    a, b = run(base), run(new)
    bad = 0
    for name, _ in CASES:
        if a[name] != b[name]:
            bad += 1
            print("DIFF", name)
            print("   base:", json.dumps(a[name], sort_keys=True))
            print("   new :", json.dumps(b[name], sort_keys=True))
    nok = sum(1 for n, _ in CASES if a[n]["ok"])
    print(f"{len(CASES)} cases ({nok} parse ok, {len(CASES)-nok} raise on base); {bad} differences")
    sys.exit(1 if bad else 0)

if __name__ == "__main__":
    main()
