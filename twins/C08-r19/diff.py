#!/venv/bin/python
"""Differential check: run the same inputs against two source trees.

usage: diff.py <unmodified tree root> <refactored tree root>
exit 0 iff every observable output (values, errors, units, strings,
raised exception types) is identical for both trees.
"""
import json
import subprocess
import sys

RUNNER = r'''
import sys, json, warnings
warnings.simplefilter("ignore")
sys.path.insert(0, sys.argv[1] + "/src")
import numpy as np
from decimal import Decimal
from scinumtools.units import Quantity, Magnitude
np.seterr(all="ignore")

def show(x):
    if x is None:
        return "None"
    if isinstance(x, Magnitude):
        return {"M": [show(x.value), show(x.error)], "s": safe(lambda: str(x))}
    if isinstance(x, Quantity):
        return {"Q": [show(x.magnitude.value), show(x.magnitude.error), x.units()],
                "s": safe(lambda: str(x))}
    if isinstance(x, np.ndarray):
        return ["nd", str(x.dtype), list(x.shape), [show(v) for v in x.ravel().tolist()]]
    if isinstance(x, Decimal):
        return ["Dec", str(x)]
    if isinstance(x, (float, np.floating)):
        return [type(x).__name__, repr(float(x))]
    if isinstance(x, (list, tuple)):
        return [type(x).__name__] + [show(v) for v in x]
    return [type(x).__name__, repr(x)]

def safe(f):
    try:
        return f()
    except BaseException as e:
        return "EXC:" + type(e).__name__

M, Q = Magnitude, Quantity
cases = {}
def case(name, f):
    try:
        cases[name] = show(f())
    except BaseException as e:
        cases[name] = "EXC:" + type(e).__name__ + ":" + repr(e.args)[:200]

# ---- Magnitude level: + - * / ** neg, with/without error, either sign, scalar/array
vals = {
    "p":   lambda: M(4.0, 0.1),
    "n":   lambda: M(-3.0, 0.2),
    "ex":  lambda: M(2.5),
    "exn": lambda: M(-0.5),
    "rel": lambda: M(32, rele=10),
    "arr": lambda: M([2.0, -4.0, 6.0], 0.5),
    "are": lambda: M(np.array([1.0, 2.0, -8.0])),
    "ar2": lambda: M([1.5, 2.5, 3.5], abse=np.array([0.1, 0.2, 0.3])),
    "dec": lambda: M(Decimal("1.25")),
    "zer": lambda: M(0.0, 0.3),
}
import operator
ops = {"add": operator.add, "sub": operator.sub, "mul": operator.mul, "div": operator.truediv}
for an, a in vals.items():
    for bn, b in vals.items():
        for on, op in ops.items():
            case(f"M.{on}.{an}.{bn}", lambda: op(a(), b()))
    for num in (3, -2.5, 0, Decimal("2"), [1.0, 2.0, 4.0], "x"):
        for on, op in ops.items():
            case(f"M.{on}.{an}.num{num!r}", lambda: op(a(), num))
            case(f"M.r{on}.num{num!r}.{an}", lambda: op(num, a()))
    for p in (2, 3, -1, 0.5, 0):
        case(f"M.pow.{an}.{p}", lambda: a() ** p)
    case(f"M.neg.{an}", lambda: -a())
    case(f"M.abse.{an}", lambda: a().abse())
    case(f"M.rele.{an}", lambda: a().rele())
    case(f"M.setabse.{an}", lambda: a().abse(0.25))
    case(f"M.setrele.{an}", lambda: a().rele(5))
    case(f"M.repr.{an}", lambda: repr(a()))
case("M.both", lambda: M(1.0, 0.1, 2))
case("M.badvalue", lambda: M("abc"))
case("M.none", lambda: M(None))
case("M.npscalar", lambda: M(np.float32(2.5), 0.5))
case("M.int", lambda: M(7, rele=1))
case("M.parse", lambda: Magnitude.parse_string(np.array([[1.5, 20.0], [0.03, 4e5]]), np.array([[0.1, 2.0], [0.004, 3e3]])))

# ---- Quantity level incl. unit conversion
qs = {
    "cm":  lambda: Q(4, "cm", abse=0.1),
    "m":   lambda: Q(-2.5, "m", rele=4),
    "mex": lambda: Q(3, "m"),
    "km":  lambda: Q([1.0, -2.0], "km", abse=0.05),
    "s":   lambda: Q(2, "s", abse=0.5),
    "dl":  lambda: Q(5.0, abse=0.2),
    "dec": lambda: Q(Decimal("3.5"), "cm"),
    "erg": lambda: Q(12.0, "erg", rele=1),
}
for an, a in qs.items():
    for bn, b in qs.items():
        for on, op in ops.items():
            case(f"Q.{on}.{an}.{bn}", lambda: op(a(), b()))
    for num in (2, -0.5, Decimal("4")):
        for on, op in ops.items():
            case(f"Q.{on}.{an}.num{num!r}", lambda: op(a(), num))
            case(f"Q.r{on}.num{num!r}.{an}", lambda: op(num, a()))
    for p in (2, -1, (1, 2)):
        case(f"Q.pow.{an}.{p}", lambda: a() ** p)
    case(f"Q.neg.{an}", lambda: -a())
    for u in ("mm", "km", "in", "J", "ms", "Hz", "1", None):
        case(f"Q.to.{an}.{u}", lambda: a().to(u))
        case(f"Q.toerr.{an}.{u}", lambda: [a().to(u).abse(), a().to(u).rele()])
    case(f"Q.value.{an}", lambda: a().value("m"))
    case(f"Q.rebase.{an}", lambda: (a() * Q(2, "mm", abse=0.01)).rebase())
    case(f"Q.setabse.{an}", lambda: a().abse(0.3))
    case(f"Q.setrele.{an}", lambda: a().rele(3))
case("Q.toquant", lambda: Q(10, "m", abse=1).to(Q(2, "cm")))
case("Q.frommag", lambda: Q(M(3.0, 0.1), "m", abse=0.4))
case("Q.frommag2", lambda: Q(M(3.0, 0.1), "m", rele=2))
case("Q.percent", lambda: Q(50, "%", abse=1))
case("Q.nodim", lambda: Q(3, "m/cm", abse=0.3))
case("Q.nodim2", lambda: Q(3, "rad*m/km", rele=5))
case("Q.badmag", lambda: Q("x", "m"))
case("Q.badunit", lambda: Q(1, 3.5))
case("Q.quantunit", lambda: Q(2, Q(3, "m", abse=0.3)))
case("Q.inv", lambda: Q(2, "s", abse=0.1).to("Hz"))
case("Q.inv2", lambda: Q(2, "Hz").to("s"))
case("Q.deg", lambda: Q(90, "deg", abse=1).to("rad"))
case("Q.nobase_rad", lambda: Q(1.5, abse=0.1).to("rad"))
# temperatures
for src, val in (("K", 300.0), ("Cel", 25.0), ("degF", 70.0), ("degR", 500.0)):
    for dst in ("K", "Cel", "degF", "degR"):
        case(f"T.{src}.{dst}", lambda: Q(val, src, abse=0.5).to(dst))
        case(f"Tex.{src}.{dst}", lambda: Q(val, src).to(dst))
case("T.add", lambda: Q(20, "Cel", abse=1) + Q(5, "Cel"))
case("T.bad", lambda: Q(20, "Cel/s").to("K/s"))
# logarithmic units
logc = [(1, "B", "dB"), (1, "dB", "Np"), (1, "Np", "dB"), (1000, "AR", "dB"), (30, "dB", "AR"),
        (1000, "PR", "dB"), (6, "dB", "PR"), (10, "W", "dBm"), (20, "dBm", "W"), (3, "dBW", "dBm"),
        (1, "V", "dBV"), (5, "dBuV", "dBV"), (2, "Pa", "dBSPL"), (1, "dBA", "dBuA"), (1, "Np", "AR"),
        (2, "PR", "Np"), (1, "dBm", "dBm"), (1, "dB", "m"), (1, "dBm", "dBV")]
for v, s, d in logc:
    case(f"L.{v}.{s}.{d}", lambda: Q(v, s).to(d))
    case(f"Lerr.{v}.{s}.{d}", lambda: Q(v, s, abse=0.1).to(d))
for s1, s2 in (("dB", "dB"), ("dBm", "dBm"), ("dB", "B"), ("dBm", "dBW"), ("Np", "Np"), ("dB", "m"), ("dBm", "W")):
    case(f"L.add.{s1}.{s2}", lambda: Q(10, s1, abse=0.5) + Q(7, s2, abse=0.2))
    case(f"L.sub.{s1}.{s2}", lambda: Q(10, s1, abse=0.5) - Q(7, s2))
    case(f"L.addex.{s1}.{s2}", lambda: Q(10, s1) + Q(7, s2))
    case(f"L.subex.{s1}.{s2}", lambda: Q(10, s1) - Q(7, s2))
case("L.multi", lambda: Q(1, "dB*m*s").to("B*m*s"))
# mismatched dimensions
case("X.add", lambda: Q(1, "m", abse=0.1) + Q(1, "s"))
case("X.sub", lambda: Q(1, "m") - Q(1, "kg", abse=0.1))
case("X.to", lambda: Q(1, "m", abse=0.1).to("s"))
case("X.radd", lambda: 3 + Q(1, "m", abse=0.1))
case("X.rsub", lambda: 3 - Q(1, abse=0.1))
case("X.eq", lambda: [Q(1, "m", abse=0.1) == Q(100, "cm"), Q(1, "m") == 1, Q(0, "m") == Q(0, "m")])
case("X.getitem", lambda: Q([1.0, 2.0], "m", abse=0.1)[1])
case("X.sqrt", lambda: np.sqrt(Q(4.0, "m2", abse=0.1)))

print(json.dumps(cases, sort_keys=True))
'''


def run(root):
    p = subprocess.run([sys.executable, "-c", RUNNER, root], capture_output=True, text=True)
    if p.returncode != 0:
        print("runner failed for", root)
        print(p.stderr[-3000:])
        sys.exit(2)
    return json.loads(p.stdout.strip().splitlines()[-1])


def main():
    a = run(sys.argv[1])
    b = run(sys.argv[2])
    bad = [k for k in sorted(set(a) | set(b)) if a.get(k) != b.get(k)]
    for k in bad[:40]:
        print("DIFF", k, "\n   base:", a.get(k), "\n   new: ", b.get(k))
    nexc = sum(1 for v in a.values() if isinstance(v, str) and v.startswith("EXC:"))
    print(f"{len(a)} cases ({nexc} raising), {len(bad)} differences")
    sys.exit(1 if bad else 0)


if __name__ == "__main__":
    main()
