#!/usr/bin/env python
"""Differential check for property C12 (densities, volume and masses of matter).

usage: diff.py <unmodified tree root> <refactored tree root>
Runs the same inputs against both trees (each in its own subprocess with its own
sys.path) and exits 0 iff every observable output is identical.
"""
import sys, os, json, subprocess

CHILD = r'''
import sys, io, json, contextlib
root = sys.argv[1]
sys.path.insert(0, root + '/src')
import numpy as np
from scinumtools.units import Quantity
from scinumtools.materials import Element, Substance, Material, Norm

def q(x):
    if x is None:
        return None
    if isinstance(x, Quantity):
        return ['Q', repr(x.magnitude), str(x.baseunits) if hasattr(x, 'baseunits') else '', repr(x.value()), str(x)]
    return ['S', repr(x)]

def table(pt):
    if pt is None:
        return None
    out = {}
    for key, row in pt.items():
        out[str(key)] = {str(c): q(v) for c, v in row.items()} if hasattr(row, 'items') else repr(row)
    return out

def dump(obj, components=None):
    res = {
        'rho': q(obj.mass_density), 'n': q(obj.number_density),
        'V': q(obj.volume), 'M': q(getattr(obj, 'mass', None)),
        'cm': q(getattr(obj, 'composite_mass', None)),
        'given': repr(getattr(obj, 'number_density_given', None)),
    }
    if hasattr(obj, 'proportion_norm'):
        res['pnorm'] = q(obj.proportion_norm)
    for quantity in (True, False):
        try:
            res['matter_%s' % quantity] = table(obj.data_matter(components=components, quantity=quantity))
        except Exception as e:
            res['matter_%s' % quantity] = ['EXC', type(e).__name__]
    if hasattr(obj, 'data_composite'):
        for quantity in (True, False):
            try:
                res['composite_%s' % quantity] = table(obj.data_composite(components=components, quantity=quantity))
            except Exception as e:
                res['composite_%s' % quantity] = ['EXC', type(e).__name__]
        try:
            res['components'] = table(obj.data_components(quantity=False))
        except Exception as e:
            res['components'] = ['EXC', type(e).__name__]
    buf = io.StringIO()
    try:
        with contextlib.redirect_stdout(buf):
            obj.print()
        res['print'] = buf.getvalue()
    except Exception as e:
        res['print'] = ['EXC', type(e).__name__]
    try:
        res['str'] = str(obj)
    except Exception as e:
        res['str'] = ['EXC', type(e).__name__]
    return res

Q = Quantity
CASES = [
    ('el_B_rho_V',        lambda: dump(Element('B', mass_density=Q(997, 'kg/m3'), volume=Q(1, 'l')))),
    ('el_B_rho_V_units',  lambda: dump(Element('B', mass_density=Q(0.997, 'g/cm3'), volume=Q(1000, 'cm3')))),
    ('el_O16_n',          lambda: dump(Element('O{16}', number_density=Q(2.5e22, 'cm-3')))),
    ('el_O16_n_m3',       lambda: dump(Element('O{16}', number_density=Q(2.5e28, 'm-3'), volume=Q(2, 'dm3')))),
    ('el_Fe_ion',         lambda: dump(Element('Fe{56+2}', proportion=3, mass_density=Q(7.8, 'g/cm3'), volume=Q(0.5, 'm3')))),
    ('el_ion_minus',      lambda: dump(Element('Cl{-}', natural=False, number_density=Q(1e20, 'cm-3'), volume=Q(3, 'l')))),
    ('el_ion_plus',       lambda: dump(Element('Na{+}', mass_density=Q(2, 'g/cm3')))),
    ('el_iso_ion_sign',   lambda: dump(Element('He{4+}', mass_density=Q(1, 'kg/m3'), volume=Q(1, 'm3')))),
    ('el_D',              lambda: dump(Element('D', mass_density=Q(160, 'kg/m3'), volume=Q(10, 'cm3')))),
    ('el_T_ion',          lambda: dump(Element('T{+}', number_density=Q(1e19, 'cm-3')))),
    ('el_ion_plus2',      lambda: dump(Element('Ca{+2}', mass_density=Q(1.55, 'g/cm3'), volume=Q(4, 'cm3')))),
    ('el_iso_ion_minus2', lambda: dump(Element('O{16-2}', number_density=Q(4e22, 'cm-3'), volume=Q(1, 'l')))),
    ('el_iso_ion_minus',  lambda: dump(Element('O{18-}', natural=False, mass_density=Q(1.4, 'kg/m3'), volume=Q(1, 'm3')))),
    ('el_D_minus',        lambda: dump(Element('D{-}', number_density=Q(5e18, 'cm-3'), volume=Q(20, 'l')))),
    ('el_T_plus1',        lambda: dump(Element('T{+1}', mass_density=Q(0.3, 'g/cm3')))),
    ('sub_ions_signs',    lambda: dump(Substance('H{1+}2O{16-2}[e]', natural=False, mass_density=Q(997, 'kg/m3'), volume=Q(1, 'l')))),
    ('el_proton',         lambda: dump(Element('[p]', number_density=Q(1e15, 'cm-3'), volume=Q(1, 'm3')))),
    ('el_electron',       lambda: dump(Element('[e]', mass_density=Q(1e-9, 'g/cm3')))),
    ('el_neutron',        lambda: dump(Element('[n]', proportion=2, number_density=Q(3e10, 'm-3'), volume=Q(5, 'l')))),
    ('el_none',           lambda: dump(Element('C{12}'))),
    ('el_both',           lambda: dump(Element('C', mass_density=Q(2.2, 'g/cm3'), number_density=Q(1e22, 'cm-3'), volume=Q(1, 'cm3')))),
    ('el_bad',            lambda: dump(Element('123'))),
    ('el_bad_iso',        lambda: dump(Element('H{9}', mass_density=Q(1, 'g/cm3')))),
    ('el_bad_unit',       lambda: dump(Element('H', mass_density=Q(1, 'm')))),
    ('sub_n',             lambda: dump(Substance('B{11}N{14}H{1}6', number_density=Q(1.5123538e+22, 'cm-3')))),
    ('sub_rho',           lambda: dump(Substance('B{11}N{14}H{1}6', mass_density=Q(780, 'kg/m3')))),
    ('sub_rho_V',         lambda: dump(Substance('B{11}N{14}H{1}6', mass_density=Q(780, 'kg/m3'), volume=Q(1, 'l')))),
    ('sub_rho_V_units',   lambda: dump(Substance('B{11}N{14}H{1}6', mass_density=Q(0.78, 'g/cm3'), volume=Q(1e-3, 'm3')))),
    ('sub_H2O',           lambda: dump(Substance('H2O', natural=False, mass_density=Q(997, 'kg/m3'), volume=Q(1, 'l')))),
    ('sub_H2O_sel',       lambda: dump(Substance('H2O', natural=False, mass_density=Q(997, 'kg/m3'), volume=Q(1, 'l')), components=['H'])),
    ('sub_dict',          lambda: dump(Substance({'C': 2, 'H': 6, 'O': 1}, number_density=Q(1.03e28, 'm-3'), volume=Q(250, 'cm3')))),
    ('sub_nested',        lambda: dump(Substance('Ca(OH)2', mass_density=Q(2.21, 'g/cm3'), volume=Q(3, 'cm3')))),
    ('sub_ions',          lambda: dump(Substance('Na{+}Cl{-}', mass_density=Q(2.16, 'g/cm3'), volume=Q(2, 'ml')))),
    ('sub_nucleons',      lambda: dump(Substance('[p]2[n]2[e]2', number_density=Q(1e12, 'cm-3'), volume=Q(1, 'l')))),
    ('sub_empty',         lambda: dump(Substance(mass_density=Q(1, 'g/cm3')))),
    ('sub_no_density',    lambda: dump(Substance('CO2', volume=Q(1, 'l')))),
    ('sub_add_after',     lambda: (lambda s: (s.add('O', 2), dump(s))[1])(Substance('C', mass_density=Q(1.98, 'kg/m3'), volume=Q(1, 'm3')))),
    ('sub_add_after_n',   lambda: (lambda s: (s.add('H', 2), dump(s))[1])(Substance('O', number_density=Q(3.3e22, 'cm-3'), volume=Q(1, 'l')))),
    ('sub_mul',           lambda: dump(Substance('H2O', mass_density=Q(1, 'g/cm3')) * 2)),
    ('sub_bad_unit',      lambda: dump(Substance('H2O', mass_density=Q(1, 'g/cm3'), volume=Q(1, 's')))),
    ('mat_rho',           lambda: dump(Material('0.2 <H2O> 0.3 <NaCl>', mass_density=Q(0.3, 'g/cm3')))),
    ('mat_rho_V',         lambda: dump(Material('0.2 <H2O> 0.3 <NaCl>', mass_density=Q(0.3, 'g/cm3'), volume=Q(1, 'l')))),
    ('mat_rho_V_units',   lambda: dump(Material('0.2 <H2O> 0.3 <NaCl>', mass_density=Q(300, 'kg/m3'), volume=Q(1000, 'cm3')))),
    ('mat_n_V',           lambda: dump(Material('0.2 <H2O> 0.3 <NaCl>', number_density=Q(8.5e21, 'cm-3'), volume=Q(0.5, 'l')))),
    ('mat_massfrac',      lambda: dump(Material({'N2': 0.78, 'O2': 0.21, 'Ar': 0.01}, norm_type=Norm.MASS_FRACTION, mass_density=Q(1.225, 'kg/m3'), volume=Q(1, 'm3')))),
    ('mat_massfrac_n',    lambda: dump(Material({'N2': 0.78, 'O2': 0.21, 'Ar': 0.01}, norm_type=Norm.MASS_FRACTION, number_density=Q(2.5e19, 'cm-3'), volume=Q(2, 'l')))),
    ('mat_massfrac_plain',lambda: dump(Material('0.2 <H2O> 0.3 <NaCl>', norm_type=Norm.MASS_FRACTION))),
    ('mat_massfrac_dict', lambda: dump(Material({'N2': 0.78, 'O2': 0.21, 'Ar': 0.01}, natural=False, norm_type=Norm.MASS_FRACTION), components=['O2'])),
    ('mat_numfrac_dict',  lambda: dump(Material({'N2': 78, 'O2': 21, 'Ar': 1}, natural=False, mass_density=Q(1.225e-3, 'g/cm3'), volume=Q(10, 'l')), components=['N2', 'Ar'])),
    ('mat_add_after',     lambda: (lambda m: (m.add('CO2', 0.1), dump(m))[1])(Material({'N2': 0.8}, mass_density=Q(1.2, 'kg/m3'), volume=Q(1, 'l')))),
    ('mat_sum',           lambda: dump(Material('1 <H2O>') + Material('2 <NaCl>'))),
    ('mat_empty',         lambda: dump(Material(number_density=Q(1, 'cm-3')))),
    ('mat_bad_unit',      lambda: dump(Material('1 <H2O>', number_density=Q(1, 'kg')))),
]

results = {}
for name, fn in CASES:
    try:
        results[name] = fn()
    except Exception as e:
        results[name] = ['EXC', type(e).__name__]
print(json.dumps(results, sort_keys=True, default=repr))
'''

def run(root):
    p = subprocess.run([sys.executable, '-W', 'ignore', '-c', CHILD, os.path.abspath(root)],
                       capture_output=True, text=True, cwd='/tmp')
    if p.returncode != 0:
        print('child failed for', root, '\n', p.stderr)
        sys.exit(2)
    return json.loads(p.stdout.strip().splitlines()[-1])

def main():
    a, b = run(sys.argv[1]), run(sys.argv[2])
    bad = 0
    for k in sorted(set(a) | set(b)):
        if a.get(k) != b.get(k):
            bad += 1
            print('DIFF in case', k)
            print('  base:', json.dumps(a.get(k))[:600])
            print('  new :', json.dumps(b.get(k))[:600])
    n_exc = sum(1 for v in a.values() if isinstance(v, list))
    print('%d cases compared (%d raising), %d differences' % (len(a), n_exc, bad))
    sys.exit(1 if bad else 0)

if __name__ == '__main__':
    main()
