#!/venv/bin/python
"""Differential check for property C17 (references: value injection and node import).

usage: diff.py <unmodified tree root> <refactored tree root>

Every input is run against both trees (one subprocess per tree, each with its own
sys.path); exit code 0 iff all observable outputs are identical.
"""
import json
import os
import subprocess
import sys
import tempfile

WORKER = r'''
import sys, os, json, io, contextlib, warnings
warnings.filterwarnings("ignore")
root, work = sys.argv[1], sys.argv[2]
sys.path.insert(0, os.path.join(root, "src"))
import numpy as np
from scinumtools.dip import DIP
from scinumtools.dip.settings import Format
from scinumtools.dip.datatypes import NumberType, Type

REMOTE = os.path.join(work, "remote.dip")
NESTED = os.path.join(work, "nested.dip")
MATRIX = os.path.join(work, "matrix.txt")

def plain(v):
    if isinstance(v, np.ndarray):
        return ["ndarray", str(v.dtype), v.tolist()]
    if isinstance(v, np.generic):
        return [type(v).__name__, v.item()]
    if isinstance(v, (list, tuple)):
        return [plain(x) for x in v]
    if isinstance(v, dict):
        return {str(k): plain(x) for k, x in v.items()}
    if isinstance(v, (int, float, bool, str)) or v is None:
        return [type(v).__name__, v]
    return [type(v).__name__, str(v)]

def dump_env(env):
    out = []
    for node in env.nodes:
        val = node.value
        rec = {
            "name": node.name,
            "keyword": node.keyword,
            "class": type(node).__name__,
            "vtype": type(val).__name__,
            "value": plain(val.value if isinstance(val, Type) else val),
            "unit": getattr(val, "unit", None),
            "units_raw": node.units_raw,
            "value_raw": plain(node.value_raw),
            "indent": node.indent,
            "constant": node.constant,
            "condition": node.condition,
            "format": getattr(node, "format", None),
            "tags": plain(getattr(node, "tags", None)),
            "options": [[plain(o.value.value if isinstance(o.value, Type) else o.value),
                         getattr(o.value, "unit", None)] for o in (getattr(node, "options", None) or [])],
        }
        out.append(rec)
    return out

def run_code(code, base=None, docs=False):
    with (DIP(env=base, name="second") if base is not None else DIP(name="first")) as p:
        p.add_string(code)
        if docs:
            return p.parse_docs().env
        return p.parse()

def case(code, docs=False):
    def fn():
        env = run_code(code.replace("REMOTE", REMOTE).replace("NESTED", NESTED).replace("MATRIX", MATRIX), docs=docs)
        return {"nodes": dump_env(env), "units": sorted(env.units.keys()) if hasattr(env.units, "keys") else None,
                "data": plain(env.data(format=Format.TUPLE)) if not docs else None}
    return fn

def layered(first, second):
    def fn():
        env1 = run_code(first.replace("REMOTE", REMOTE))
        before = dump_env(env1)
        units_before = plain({k: str(v) for k, v in env1.units.items()}) if hasattr(env1.units, "items") else None
        try:
            env2 = run_code(second.replace("REMOTE", REMOTE), base=env1)
            second_out = {"nodes": dump_env(env2), "data": plain(env2.data(format=Format.TUPLE))}
        except Exception as e:
            second_out = {"exc": type(e).__name__, "args": [str(a) for a in e.args]}
        after = dump_env(env1)
        units_after = plain({k: str(v) for k, v in env1.units.items()}) if hasattr(env1.units, "items") else None
        return {"second": second_out, "base_unchanged": before == after, "base_after": after,
                "units_unchanged": units_before == units_after, "units_after": units_after}
    return fn

def query_api():
    env = run_code("""
g
  a int = 1 m
    !tags ["x"]
  b float = 2 s
    !tags ["y"]
  sub
    c str = "t"
      !tags ["x"]
h bool = true
""")
    res = {}
    for label, call in {
        "req_sub": lambda: env.request("?g.*"),
        "req_one": lambda: env.request("?g.sub.c", count=1),
        "req_all": lambda: env.request("?*"),
        "req_tag": lambda: env.request("?g.*", tags=["x"]),
        "req_all_tag": lambda: env.request("?*", tags=["y"]),
        "req_none": lambda: env.request("?zzz"),
        "req_count_list": lambda: env.request("?zzz", count=[0,1]),
        "req_count_bad": lambda: env.request("?g.*", count=[1,2]),
        "req_count_bad2": lambda: env.request("?g.*", count=2),
    }.items():
        try:
            nodes = call()
            res[label] = [[n.name, n.keyword, plain(n.value.value), getattr(n.value, "unit", None), plain(n.tags)] for n in nodes]
        except Exception as e:
            res[label] = {"exc": type(e).__name__, "args": [str(a) for a in e.args]}
    res["data_query"] = plain(env.data(format=Format.TUPLE, query="g.*"))
    res["data_tags"] = plain(env.data(format=Format.TUPLE, tags=["x"]))
    res["data_query_tags"] = plain(env.data(format=Format.TUPLE, query="g.sub.*", tags=["x"]))
    res["env_after"] = dump_env(env)
    return res

CASES = {
 "query_api": query_api,
 "inject_units": case("""
size1 float = 34 cm
size2 float = {?size1} m
size3 float = {?size2}
size1 = {?size2}
size4 float = {?size1} mm
"""),
 "inject_adopt_unit_then_convert": case("""
a float = 2 km
b float = {?a}
c float m
c = {?a}
d int = 3 s
e float = {?d}
f int = {?a}
"""),
 "inject_bool_str_int": case("""
flag bool = true
text str = "hello world"
n int = 7
flag2 bool = {?flag}
text2 str = {?text}
n2 int = {?n}
flag = false
flag3 bool = {?flag}
"""),
 "inject_after_modifications": case("""
box
  w float = 1 m
  h float = 20 cm
box.w = 250 cm
copy1 float = {?box.w}
box.w = 3 m
copy2 float = {?box.w} cm
copy1 = {?box.h}
"""),
 "inject_slices": case("""
sizes float[3] = [34,23.34,1e34] cm
first float = {?sizes}[1]
mysize float[2] = {?sizes}[:2]
tail float[2] = {?sizes}[1:] m
masses float[2,2] = [[34,23.34],[1,1e34]] g
col float[2] = {?masses}[:,1]
counts int[2,3] = [[1,2,3],[4,5,6]] s
row int[3] = {?counts}[0,:]
cell int = {?counts}[1,2] min
cellf float = {?counts}[1,0]
"""),
 "inject_slice_to_scalar_error": case("""
sizes float[3] = [34,23.34,1e34] cm
mysize float = {?sizes}[:2]
"""),
 "inject_none_selected": case("""
a int = 1
b int = {?missing}
"""),
 "inject_several_selected": case("""
g
  a int = 1
  b int = 2
c int = {?g.*}
"""),
 "inject_all_selected": case("""
a int = 1
b int = 2
c int = {?*}
"""),
 "inject_no_local_nodes": case("""
c int = {?a}
"""),
 "inject_undefined_value": case("""
a float m
b float = {?a} cm
a = 5
c float = {?a} cm
"""),
 "import_local_subtree": case("""
icecream
  waffle str = 'standard'
  scoops
    strawberry int = 1 g
      !options [1,2,3] g
    chocolate float = 2 kg
      !condition ("{?} > 1 kg")
    name str = "abc"
      !format "[a-z]+"
    fixed int = 3
      !constant
    tagged bool = true
      !tags ["x","y"]

bowl
  {?icecream.scoops.*}
plate {?icecream.waffle}
deep.er.path {?icecream.scoops.chocolate}
"""),
 "import_local_all": case("""
a int = 1 m
g
  b float = 2.5 s
copy
  {?*}
"""),
 "import_local_none": case("""
a int = 1
box
  {?nothing.*}
"""),
 "import_root": case("""
g
  a int = 1 m
  b float = 2 s
{?g.*}
{?nothing.*}
"""),
 "import_block_source": case("""
$source m = MATRIX
box {m}
"""),
 "import_local_none_single": case("""
a int = 1
box {?nothing}
"""),
 "import_then_modify": case("""
src
  x float = 1 m
  y int = 2
dst
  {?src.*}
dst.x = 50 cm
src.x = 3 m
again {?src.x}
again2 {?dst.x}
"""),
 "remote_inject": case("""
$source query = REMOTE

energy float = 34 erg
energy float = {query?energy}
energy = {query?energy} eV
energy = {query?energy}
len float = {query?geom.length} cm
cnt int = {query?geom.count}
name str = {query?label}
ok bool = {query?on}
part float[2] = {query?vec}[1:]
"""),
 "remote_inject_errors_all": case("""
$source query = REMOTE
energy float = {query?*}
"""),
 "remote_inject_errors_missing": case("""
$source query = REMOTE
energy float = {query?nope}
"""),
 "remote_unknown_source": case("""
energy float = {nosrc?energy}
"""),
 "remote_import": case("""
$source query = REMOTE
{query?*}
box
  {query?geom.*}
basket.bag {query?energy}
pl {query?geom.length}
"""),
 "remote_import_none": case("""
$source query = REMOTE
box
  {query?nothing.*}
"""),
 "remote_nested_source": case("""
$source nest = NESTED
$source {nest?inner}
v float = {inner?energy} erg
{nest?top}
w float = {nest?top}
"""),
 "remote_block_text": case("""
$source m = MATRIX
mat int[2,2] = {m}
matf float[2,2] = {m}
txt str = {m}
"""),
 "remote_custom_unit": case("""
$source query = REMOTE
$unit foo = 2 m
x float = 3 [foo]
y float = {?x} m
z float = {query?geom.length} [foo]
w float = {?z}
"""),
 "docs_mode": case("""
$source query = REMOTE
a float = 3 m
b float = {?a} cm
c float = {query?energy}
d float = {other?energy}
box
  {query?geom.*}
  {other?geom.*}
""", docs=True),
 "layered_base_env": layered("""
$source query = REMOTE
$unit foo = 2 m
a float = 3 [foo]
g
  b int = 4 s
    !options [4,5] s
""", """
c float = {?a} m
a = 10 m
g.b = 5
d int = {?g.b}
e float = {query?energy} erg
copy
  {?g.*}
"""),
 "layered_base_env_error": layered("""
a float = 3 m
""", """
a = 7 cm
b float = {?zzz}
"""),
}

out = {}
for name, fn in CASES.items():
    buf = io.StringIO()
    try:
        with contextlib.redirect_stdout(buf):
            res = fn()
        out[name] = {"ok": res}
    except BaseException as e:
        out[name] = {"exc": type(e).__name__, "args": [str(a) for a in e.args]}
print("@@RESULT@@" + json.dumps(out, sort_keys=True, default=str))
'''

REMOTE = '''energy float = 13 J
label str = "remote label"
on bool = false
vec float[3] = [1,2,3] km
geom
  length float = 2 m
    !options [2,4] m
  count int = 5
    !condition ("{?} > 1")
'''

NESTED = '''$source inner = remote.dip
top float = 1.5 kg
'''

MATRIX = '''[[1,2],
[3,4]]
'''


def run(root, work):
    script = os.path.join(work, "worker.py")
    proc = subprocess.run([sys.executable, script, root, work], capture_output=True, text=True, cwd=work)
    for line in proc.stdout.splitlines():
        if line.startswith("@@RESULT@@"):
            return json.loads(line[len("@@RESULT@@"):])
    raise SystemExit("worker failed for %s:\n%s\n%s" % (root, proc.stdout[-2000:], proc.stderr[-4000:]))


def main():
    base, new = os.path.abspath(sys.argv[1]), os.path.abspath(sys.argv[2])
    with tempfile.TemporaryDirectory() as work:
        for fname, text in (("remote.dip", REMOTE), ("nested.dip", NESTED), ("matrix.txt", MATRIX), ("worker.py", WORKER)):
            with open(os.path.join(work, fname), "w") as f:
                f.write(text)
        a = run(base, work)
        b = run(new, work)
    bad = 0
    for name in sorted(set(a) | set(b)):
        same = a.get(name) == b.get(name)
        kind = "exc:" + a[name]["exc"] if "exc" in a.get(name, {}) else "ok"
        print("%-34s %-22s %s" % (name, kind, "same" if same else "DIFFERENT"))
        if not same:
            bad += 1
            print("   base:", json.dumps(a.get(name))[:600])
            print("   new :", json.dumps(b.get(name))[:600])
    print("%d inputs, %d differing" % (len(a), bad))
    sys.exit(1 if bad or len(a) < 12 else 0)


if __name__ == "__main__":
    main()
