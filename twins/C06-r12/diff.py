#!/venv/bin/python
"""Differential check for property C06 (Quantity arithmetic vs. base-dimension arithmetic).

usage: diff.py <unmodified tree root> <refactored tree root>

Runs the same set of arithmetic inputs against each tree in its own subprocess
(each with its own sys.path) and exits 0 iff every observable output (values,
errors, unit expressions, unit exponents, values in base dimensions, raised
exception types) is identical.
"""
import json
import subprocess
import sys

WORKER = r'''
import sys, json, warnings
root = sys.argv[1]
sys.path.insert(0, root + "/src")
warnings.simplefilter("ignore")
import numpy as np
from decimal import Decimal
from scinumtools.units import Quantity, Unit, Fraction, BaseUnits, Magnitude
import scinumtools
assert scinumtools.__file__.startswith(root), scinumtools.__file__

Q = Quantity
unit = Unit()

def num(v):
    if v is None:
        return None
    if isinstance(v, np.ndarray):
        return ["array", [repr(float(x)) for x in v.ravel()], list(v.shape)]
    if isinstance(v, Decimal):
        return ["decimal", str(v)]
    return [type(v).__name__, repr(float(v))]

def base_value(q):
    # the result re-expressed in base dimensions
    try:
        dims = q.baseunits.dimensions.value(dtype=dict)
        return num(Q(q.magnitude.value, q.baseunits).to(BaseUnits(dict(dims))).value())
    except Exception as e:
        return ["EXC", type(e).__name__]

def show(q):
    if isinstance(q, Quantity):
        return {
            "value": num(q.magnitude.value),
            "error": num(q.magnitude.error),
            "units": q.units(),
            "exps": {k: str(v) for k, v in q.baseunits.baseunits.items()},
            "dims": str(q.baseunits.dimensions),
            "bmag": repr(q.baseunits.magnitude),
            "str": str(q),
            "base": base_value(q),
        }
    if isinstance(q, (list, dict)):
        return {"nested": q}
    return {"plain": repr(q)}

CASES = []
def case(name):
    def deco(fn):
        CASES.append((name, fn))
        return fn
    return deco

# ---- sums and differences: left operand's units, any mix of units
case("add km+m")(lambda: Q(1.5, "km") + Q(250, "m"))
case("add m+km")(lambda: Q(250, "m") + Q(1.5, "km"))
case("sub km-cm")(lambda: Q(2, "km") - Q(3e4, "cm"))
case("add compound")(lambda: Q(3, "kg*m2*s-2") + Q(2, "J"))
case("sub compound")(lambda: Q(3, "kW*h") - Q(2e6, "J"))
case("add erg+eV")(lambda: Q(1, "erg") + Q(1e12, "eV"))
case("add array")(lambda: Q([1, 2, 3], "km") + Q([10, 20, 30], "m"))
case("sub array/scalar")(lambda: Q([1, 2, 3], "h") - Q(30, "min"))
case("add number right")(lambda: Q(2) + 3)
case("add number left")(lambda: 3 + Q(2))
case("sub number left")(lambda: 3.5 - Q(2))
case("sub number right")(lambda: Q(2) - 3.5)
case("add number to %")(lambda: Q(50, "%") + 1)
case("radd number to %")(lambda: 1 + Q(50, "%"))
case("add inverse dims")(lambda: Q(2, "s") + Q(4, "Hz"))
case("sub inverse dims")(lambda: Q(2, "Hz") - Q(4, "s"))
case("add errors")(lambda: Q(12.0, "cm", abse=0.2) + Q(0.03, "m", abse=0.001))
case("sub rel errors")(lambda: Q(12.0, "cm", rele=5) - Q(0.03, "m"))
case("add decimal")(lambda: Q(Decimal("3.25"), "cm") + Q(Decimal("0.5"), "m"))
case("add temperature")(lambda: Q(20, "Cel") + Q(5, "K"))
case("sub temperature")(lambda: Q(300, "K") - Q(20, "Cel"))
case("add dB")(lambda: Q(10, "dBm") + Q(20, "dBm"))
case("sub dB")(lambda: Q(20, "dBm") - Q(10, "dBm"))
case("add dB mixed")(lambda: Q(10, "dBm") + Q(20, "dBW"))
case("add Np")(lambda: Q(1, "Np") + Q(2, "Np"))
# ---- refused
case("add m+s")(lambda: Q(1, "m") + Q(1, "s"))
case("sub kg-J")(lambda: Q(1, "kg") - Q(1, "J"))
case("add m+number")(lambda: Q(1, "m") + 2)
case("radd number+m")(lambda: 2 + Q(1, "m"))
case("rsub number-m")(lambda: 2 - Q([1, 2], "m"))
case("add Cel+m")(lambda: Q(1, "Cel") + Q(1, "m"))
case("add Cel+K*m")(lambda: Q(1, "Cel") + Q(1, "K*m"))
case("add dBm+m")(lambda: Q(1, "dBm") + Q(1, "m"))
case("add str")(lambda: Q(1, "m") + "2")
# ---- products and quotients
case("mul m*km")(lambda: Q(2, "m") * Q(3, "km"))
case("mul cancel")(lambda: Q(2, "m") * Q(3, "km-1"))
case("div cancel")(lambda: Q(6, "km") / Q(3, "m"))
case("div same")(lambda: Q(6, "km") / Q(3, "km"))
case("div compound")(lambda: Q(6, "J") / Q(3, "kg*m2*s-2"))
case("mul compound")(lambda: Q(6, "N*m") * Q(0.5, "s-1") / Q(3, "W"))
case("mul number right")(lambda: Q(6, "au") * 2.5)
case("mul number left")(lambda: 2.5 * Q(6, "au"))
case("div number right")(lambda: Q(6, "ly") / 4)
case("div number left")(lambda: 4 / Q([1, 2, 8], "ms"))
case("mul arrays")(lambda: Q([1, 2], "kg") * Q([3, 4], "m*s-2"))
case("div arrays")(lambda: Q(np.array([1.0, 2.0]), "kg") / Q(np.array([4.0, 5.0]), "l"))
case("mul errors")(lambda: Q(12.0, "cm", abse=0.2) * Q(3.0, "cm", abse=0.1))
case("div errors")(lambda: Q(12.0, "cm", abse=0.2) / Q(3.0, "s", abse=0.1))
case("mul decimal")(lambda: Q(Decimal("3.25"), "cm") * Q(Decimal("0.5"), "cm"))
case("div decimal")(lambda: Q(Decimal("3.25"), "cm") / Q(Decimal("0.5"), "s"))
case("mul rad")(lambda: Q(2, "rad") * Q(3, "deg"))
case("div deg/rad")(lambda: Q(180, "deg") / Q(2, "rad"))
case("mul %")(lambda: Q(50, "%") * Q(4, "m"))
case("mul units")(lambda: unit.kg * unit.m ** 2 / unit.s ** 2)
case("div by zero")(lambda: Q(1, "m") / Q(0.0, "s"))
case("mul str")(lambda: Q(1, "m") * "a")
case("mul none")(lambda: Q(1, "m") * None)
# ---- negation and powers
case("neg")(lambda: -Q(2.5, "km*s-1"))
case("neg array err")(lambda: -Q([1, -2], "g", abse=0.1))
case("pow int")(lambda: Q(3, "km") ** 2)
case("pow neg int")(lambda: Q(4, "km*s-1") ** -2)
case("pow tuple")(lambda: Q(9, "m2") ** (1, 2))
case("pow tuple cancel")(lambda: Q(8, "km3*m-3") ** (1, 3))
case("pow fraction")(lambda: Q(8, "m") ** Fraction(2, 3))
case("pow float half")(lambda: Q(9, "cm2*s-4") ** 0.5)
case("pow float 1.5")(lambda: Q(4, "m2") ** 1.5)
case("pow float third")(lambda: Q(27, "l") ** (1 / 3))
case("pow zero")(lambda: Q(5, "m") ** 0)
case("pow array")(lambda: Q([1, 4, 9], "m2") ** (1, 2))
case("pow error")(lambda: Q(12.0, "cm", abse=0.2) ** 2)
case("pow decimal")(lambda: Q(Decimal("3.25"), "cm") ** 2)
case("pow J")(lambda: Q(2, "J") ** 3)
case("pow str")(lambda: Q(2, "J") ** "a")
case("np.sqrt")(lambda: np.sqrt(Q([4, 9], "m2")))
case("np.power")(lambda: np.power(Q([2, 3, 4], "m"), 3))
# ---- mixed chains
case("chain 1")(lambda: (Q(1, "km") + Q(1, "m")) * Q(2, "s-1") - Q(3, "km/h"))
case("chain 2")(lambda: (Q(2, "kg") * Q(3, "m/s") ** 2 / 2).to("J"))
case("chain 3")(lambda: ((Q(3, "m") ** 2 + Q(4, "m") ** 2) ** (1, 2)))
case("chain 4")(lambda: (Q(1, "l") / Q(1, "dm3")) + 1)
case("eq")(lambda: (Q(1, "km") + Q(1, "m")) == Q(1001, "m"))

# ---- exponent fractions and error propagation seen directly
def fr(f):
    raw = (f.num, f.den)
    return {"plain": repr((raw, str(f), (f.num, f.den), f.value(), f.value(dtype=float)))}
def mg(m):
    try:
        text = str(m)
    except Exception as e:
        text = "EXC " + type(e).__name__
    return {"plain": repr((num(m.value), num(m.error), text))}
case("F mul frac")(lambda: fr(Fraction(2, 3) * Fraction(-3, 4)))
case("F mul tuple")(lambda: fr(Fraction(2, 3) * (3, -4)))
case("F mul int")(lambda: fr(Fraction(2, 3) * -3))
case("F mul intfloat")(lambda: fr(Fraction(2, 3) * 3.0))
case("F mul float")(lambda: fr(Fraction(2, 3) * 0.75))
case("F mul float neg")(lambda: fr(Fraction(-2, 3) * -0.3333333333))
case("F mul zero")(lambda: fr(Fraction(2, -3) * 0))
case("F mul npint")(lambda: fr(Fraction(2, 3) * np.int64(2)))
case("F mul str")(lambda: fr(Fraction(2, 3) * "x"))
case("F div frac")(lambda: fr(Fraction(2, 3) / Fraction(-3, 4)))
case("F div tuple")(lambda: fr(Fraction(2, 3) / (3, -4)))
case("F div int")(lambda: fr(Fraction(2, 3) / -3))
case("F div float")(lambda: fr(Fraction(2, 3) / 1.5))
case("F div zero")(lambda: fr(Fraction(2, 3) / 0))
case("F div none")(lambda: fr(Fraction(2, 3) / None))
case("F rebase")(lambda: repr([(lambda f: (f.rebase(), f.num, f.den))(Fraction(a, b))[1:] for a in (-6, -1, 0, 4, 12) for b in (-8, -3, -1, 1, 2, 6)]))
case("F neg/eq")(lambda: repr((str(-Fraction(2, -4)), Fraction(2, -4) == Fraction(-1, 2), Fraction(0, -5) == Fraction(0, 3))))
case("M add errs")(lambda: [mg(a + b) for a in (Magnitude(4.0), Magnitude(4.0, 0.2)) for b in (Magnitude(2.0), Magnitude(2.0, 0.1))])
case("M sub errs")(lambda: [mg(a - b) for a in (Magnitude(4.0), Magnitude(4.0, 0.2)) for b in (Magnitude(2.0), Magnitude(2.0, 0.1))])
case("M mul errs")(lambda: [mg(a * b) for a in (Magnitude(4.0), Magnitude(4.0, 0.2)) for b in (Magnitude(-2.0), Magnitude(-2.0, 0.1))])
case("M div errs")(lambda: [mg(a / b) for a in (Magnitude(4.0), Magnitude(4.0, 0.2)) for b in (Magnitude(-2.0), Magnitude(-2.0, 0.1))])
case("M arr errs")(lambda: [mg(f(a, b)) for f in (lambda x, y: x + y, lambda x, y: x - y) for a in (Magnitude([4.0, 5.0]), Magnitude([4.0, 5.0], 0.2)) for b in (Magnitude([2.0, 1.0]), Magnitude([2.0, 1.0], 0.1))])
case("M number sides")(lambda: [mg(2 + Magnitude(4.0, 0.2)), mg(2 - Magnitude(4.0, 0.2)), mg(2 * Magnitude(4.0, 0.2)), mg(2 / Magnitude(4.0, 0.2))])
case("M pow")(lambda: [mg(Magnitude(4.0) ** 0.5), mg(Magnitude(4.0, 0.2) ** 0.5), mg(Magnitude(4.0, rele=1) ** -2), mg(Magnitude([4.0, 9.0], 0.2) ** 2)])
case("Q err mix")(lambda: [show(f(a, b)) for f in (lambda x, y: x + y, lambda x, y: x - y, lambda x, y: x * y, lambda x, y: x / y) for a in (Q(4.0, "km"), Q(4.0, "km", abse=0.2)) for b in (Q(200.0, "m"), Q(200.0, "m", rele=2))])
case("Q pow exps")(lambda: [show(Q(16.0, "km4*s-2", abse=0.5) ** p) for p in (2, -1, (1, 2), (-3, 4), 0.25, 1.5, -0.5, 2.0, Fraction(1, 4))])

out = {}
for name, fn in CASES:
    try:
        with np.errstate(all="ignore"):
            out[name] = show(fn())
    except BaseException as e:
        out[name] = {"EXC": type(e).__name__}
sys.stdout.write("@@RESULT@@" + json.dumps(out, sort_keys=True))
'''


def run(root):
    proc = subprocess.run(
        [sys.executable, "-c", WORKER, root.rstrip("/")],
        capture_output=True, text=True, cwd="/",
    )
    if proc.returncode != 0 or "@@RESULT@@" not in proc.stdout:
        sys.stderr.write("worker failed for %s\n%s\n%s\n" % (root, proc.stdout[-2000:], proc.stderr[-4000:]))
        sys.exit(2)
    return json.loads(proc.stdout.split("@@RESULT@@", 1)[1])


def main():
    base, new = sys.argv[1], sys.argv[2]
    a, b = run(base), run(new)
    bad = 0
    for name in sorted(set(a) | set(b)):
        if a.get(name) != b.get(name):
            bad += 1
            print("DIFF  %s\n   base: %s\n   new : %s" % (name, a.get(name), b.get(name)))
    print("%d cases compared, %d differ" % (len(a), bad))
    sys.exit(1 if bad else 0)


if __name__ == "__main__":
    main()
