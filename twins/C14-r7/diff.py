#!/venv/bin/python
"""Differential check for property C14 (last assignment wins, in the units and
type of the definition).

usage: diff.py <unmodified tree root> <refactored tree root>

Runs the same DIP inputs against both trees (each in its own subprocess with its
own sys.path) and exits 0 iff every observable output is identical.
"""
import json
import os
import subprocess
import sys

CASES = [
    # --- same dimension, different units, last wins -----------------------
    ("float_cm_to_m",        "a float = 1 m\na = 250 cm\n"),
    ("float_typed_km",       "a float = 1 m\na float = 2.5 km\n"),
    ("float_no_unit_mod",    "a float = 1 m\na = 7\n"),
    ("float_three_mods",     "a float = 1 m\na = 3 km\na = 40 cm\na = 5 mm\n"),
    ("int_km_to_m",          "n int = 3 m\nn = 2 km\n"),
    ("int_typed_mod",        "n int = 3 m\nn int = 500 cm\n"),
    ("int_no_unit",          "n int = 3 m\nn = 11\n"),
    ("float_time",           "t float = 10 s\nt = 2 min\nt = 1.5 h\n"),
    ("float_compound",       "v float = 1 m/s\nv = 36 km/h\n"),
    ("float_temperature",    "T float = 300 K\nT = 25 Cel\n"),
    # --- zero / negative / false / none -----------------------------------
    ("float_zero",           "a float = 5 m\na = 0 cm\n"),
    ("float_zero_nounit",    "a float = 5 m\na = 0\n"),
    ("float_negative",       "a float = 5 m\na = -120 cm\n"),
    ("int_zero",             "n int = 5\nn = 0\n"),
    ("int_negative",         "n int = 5 km\nn = -3000 m\n"),
    ("bool_false",           "b bool = true\nb = false\n"),
    ("bool_true_false_true", "b bool = false\nb = true\nb = false\nb bool = true\n"),
    ("float_none",           "a float = 5 m\na = none\n"),
    ("float_none_then_val",  "a float = 5 m\na = none\na = 20 cm\n"),
    ("float_def_none",       "a float = none m\na = 20 cm\n"),
    ("int_none",             "n int = 5\nn = none\n"),
    ("bool_none",            "b bool = true\nb = none\n"),
    ("str_none",             "s str = 'x'\ns = none\n"),
    ("str_mod",              "s str = 'x'\ns = 'yy'\ns str = zz\n"),
    ("str_empty",            "s str = 'x'\ns = ''\n"),
    ("float_def_zero",       "a float = 0 m\na = 3 cm\n"),
    # --- declarations ------------------------------------------------------
    ("decl_then_mod",        "a float m\na = 20 cm\n"),
    ("decl_then_two_mods",   "a float m\na = 20 cm\na = 3 km\n"),
    ("decl_typed_mod",       "a float m\na float = 3 km\n"),
    ("decl_zero",            "a float m\na = 0\n"),
    ("decl_bool_false",      "b bool\nb = false\n"),
    ("decl_int",             "n int km\nn = 4000 m\n"),
    ("decl_no_value",        "a float m\n"),
    ("decl_no_value_other",  "a float m\nb int = 3\n"),
    ("decl_none",            "a float m\na = none\n"),
    ("decl_str",             "s str\ns = hello\n"),
    # --- hierarchy ---------------------------------------------------------
    ("hier_group_mod",       "box\n  size float = 1 m\n  size = 30 cm\n"),
    ("hier_dotted_mod",      "box\n  size float = 1 m\nbox.size = 2 km\n"),
    ("hier_deep",            "a\n  b\n    c int = 1 km\na.b.c = 3000 m\na\n  b.c = 5\n"),
    ("hier_decl",            "a\n  b float s\na.b = 3 min\n"),
    ("hier_decl_missing",    "a\n  b float s\n  c int = 2\n"),
    ("hier_two_nodes",       "x float = 1 m\ny float = 1 s\nx = 3 cm\ny = 2 min\nx = 4 mm\n"),
    # --- failures ----------------------------------------------------------
    ("err_other_dtype",      "a float = 1 m\na int = 2 m\n"),
    ("err_other_dtype2",     "n int = 1\nn float = 2\n"),
    ("err_other_dtype3",     "b bool = true\nb str = false\n"),
    ("err_other_dtype4",     "s str = a\ns bool = true\n"),
    ("err_other_dimension",  "a float = 1 m\na = 2 s\n"),
    ("err_other_dimension2", "n int = 1 kg\nn int = 2 m\n"),
    ("err_unit_on_unitless", "a float = 1\na = 2 m\n"),
    ("err_constant",         "a float = 1 m\n  !constant\na = 2 m\n"),
    ("err_constant_typed",   "n int = 1\n  !constant\nn int = 2\n"),
    ("err_constant_hier",    "g\n  n bool = true\n    !constant\ng.n = false\n"),
    ("ok_constant_other",    "a float = 1 m\n  !constant\nb float = 1 m\nb = 2 cm\n"),
    ("err_bool_unit",        "b bool = true\nb = false m\n"),
    ("err_bad_int",          "n int = 1\nn = abc\n"),
    ("err_bad_bool",         "b bool = true\nb = maybe\n"),
    ("err_undefined_mod",    "zz = 3\n"),
    # --- arrays / options / conditions after modification -----------------
    ("array_mod",            "v float[3] = [1,2,3] m\nv = [100,200,300] cm\n"),
    ("array_int_mod",        "v int[2] = [1,2] km\nv = [3000,4000] m\n"),
    ("array_bad_dim",        "v float[3] = [1,2,3] m\nv = [1,2] m\n"),
    ("option_after_mod",     "a float = 1 m\n  = 1 m\n  = 2 m\na = 200 cm\n"),
    ("option_fail_mod",      "a float = 1 m\n  = 1 m\n  = 2 m\na = 300 cm\n"),
    ("cond_after_mod",       "a float = 1 m\n  !condition (\"{?} < 2 m\")\na = 150 cm\n"),
    ("cond_fail_mod",        "a float = 1 m\n  !condition (\"{?} < 2 m\")\na = 250 cm\n"),
    ("props_follow_mod",     "a float = 1 m\nb float = 2 m\na = 50 cm\n  !constant\nb = 3 m\n"),
    ("const_after_mod",      "a float = 1 m\na = 50 cm\n  !constant\na = 3 m\n"),
    ("case_mod",             "a float = 1 m\n@case true\n  a = 20 cm\n@case false\n  a = 30 cm\n@end\n"),
    ("case_else_mod",        "a int = 1 km\n@case false\n  a = 2000 m\n@else\n  a = 3000 m\n@end\n"),
    ("expr_mod",             "a float = 1 m\nb float = (\"{?a} * 2\") cm\na = (\"{?b} + 1 m\")\n"),
    ("ref_mod",              "a float = 1 m\nb float = 30 cm\na = {?b}\n"),
    ("custom_unit",          "$unit len = 2 m\na float = 1 m\na = 3 len\n"),
    ("custom_unit_mod",      "$unit len = 2 m\na float = 1 m\na = 3 [len]\n"),
    ("custom_unit_def",      "$unit len = 2 m\na float = 1 [len]\na = 3 m\na = 50 cm\n"),
    ("custom_unit_int",      "$unit len = 2 m\nn int = 4 [len]\nn = 6 m\n"),
    ("custom_unit_baddim",   "$unit len = 2 m\na float = 1 [len]\na = 3 s\n"),
    ("float_same_unit",      "a float = 5 m\na = 6 m\na float = -7 m\n"),
    ("float_none_unit",      "a float = 5 m\na = none cm\n"),
    ("decl_unitless_mod_u",  "a float\na = 3 m\n"),
    ("int_precision",        "n uint16 = 1 km\nn = 2000 m\nn = 0 m\n"),
    ("float32",              "a float32 = 1 m\na = 12.5 cm\n"),
]

WORKER = r'''
import sys, json
root = sys.argv[1]
sys.path.insert(0, root + "/src")
import numpy as np
import scinumtools
assert scinumtools.__file__.startswith(root + "/"), scinumtools.__file__
from scinumtools.dip import DIP
from scinumtools.dip.settings import Format

cases = json.loads(sys.stdin.read())

def plain(v):
    if isinstance(v, np.ndarray):
        return ["ndarray", str(v.dtype), v.tolist()]
    if isinstance(v, np.generic):
        return [type(v).__name__, v.item()]
    if isinstance(v, (list, tuple)):
        return [type(v).__name__] + [plain(x) for x in v]
    return [type(v).__name__, repr(v)]

def describe(env):
    out = []
    for node in env.nodes:
        val = node.value
        item = {
            "name": node.name,
            "class": type(node).__name__,
            "keyword": node.keyword,
            "dtype": getattr(node.dtype, "__name__", str(node.dtype)),
            "units_raw": node.units_raw,
            "value_raw": plain(node.value_raw),
            "constant": node.constant,
            "defined": node.defined,
            "valtype": type(val).__name__,
            "str": str(node),
        }
        if val is not None and hasattr(val, "value"):
            item["value"] = plain(val.value)
            item["unit"] = val.unit
            item["precision"] = getattr(val, "precision", None)
            item["unsigned"] = getattr(val, "unsigned", None)
        out.append(item)
    res = {"nodes": out, "cursor": env.nodes.cursor}
    for fmt in (Format.VALUE, Format.TUPLE):
        try:
            data = env.data(format=fmt)
            res["data_" + str(fmt)] = {k: plain(v) for k, v in data.items()}
        except Exception as e:
            res["data_" + str(fmt)] = ["EXC", type(e).__name__, [str(a) for a in e.args]]
    return res

results = {}
for name, code in cases:
    try:
        with DIP() as dip:
            dip.add_string(code)
            env = dip.parse()
        results[name] = {"ok": describe(env)}
    except BaseException as e:
        results[name] = {"exc": type(e).__name__, "args": [str(a) for a in getattr(e, "args", ())]}
print("@@RESULT@@" + json.dumps(results, sort_keys=True))
'''


def run(root):
    root = os.path.abspath(root)
    env = {k: v for k, v in os.environ.items() if k not in ("PYTHONPATH",)}
    env["PYTHONDONTWRITEBYTECODE"] = "1"
    p = subprocess.run(
        [sys.executable, "-c", WORKER, root],
        input=json.dumps(CASES), capture_output=True, text=True, env=env, cwd="/",
    )
    if p.returncode != 0:
        sys.stderr.write(p.stderr)
        raise SystemExit(2)
    line = [l for l in p.stdout.splitlines() if l.startswith("@@RESULT@@")][-1]
    return json.loads(line[len("@@RESULT@@"):])


def main():
    if len(sys.argv) != 3:
        print(__doc__)
        raise SystemExit(2)
    a = run(sys.argv[1])
    b = run(sys.argv[2])
    bad = 0
    for name, _ in CASES:
        if a[name] != b[name]:
            bad += 1
            print("DIFF in case", name)
            print("  base:", json.dumps(a[name], sort_keys=True)[:600])
            print("  new :", json.dumps(b[name], sort_keys=True)[:600])
    nok = sum(1 for n, _ in CASES if "ok" in a[n])
    print(f"{len(CASES)} cases ({nok} parse, {len(CASES)-nok} raise on base); {bad} differ")
    if os.environ.get("DIFF_VERBOSE"):
        for name, _ in CASES:
            r = a[name]
            if "ok" in r:
                print(name, "->", [(n["name"], n.get("value"), n.get("unit")) for n in r["ok"]["nodes"]])
            else:
                print(name, "-> EXC", r["exc"], r["args"][:1])
    raise SystemExit(1 if bad else 0)


if __name__ == "__main__":
    main()
