#!/venv/bin/python
"""Differential check for property C07 (operations never alter their operands).

usage: diff.py <unmodified tree root> <refactored tree root>
Runs the same probe in a subprocess against each tree (own sys.path) and
exits 0 iff every observable (values, units, uncertainties, exception types) is identical.
"""
import sys, os, subprocess, json

PROBE = r'''
import sys, json, warnings
warnings.simplefilter("ignore")
sys.path.insert(0, sys.argv[1])
import numpy as np
from decimal import Decimal
from scinumtools.units import Quantity, Unit, Constant, NaN, UnitEnvironment
from scinumtools.units.magnitude import Magnitude
from scinumtools.units.base_units import BaseUnits, get_unit_base
from scinumtools.units.fraction import Fraction
from scinumtools.units.dimensions import Dimensions
from scinumtools.units.unit_types import *
import scinumtools.units.settings as S

def sstr(x):
    try:
        return str(x)
    except BaseException as e:
        return "str-raises:" + type(e).__name__

def show(x):
    if isinstance(x, Quantity):
        m = x.magnitude
        return ["Q", show(m.value), show(m.error), x.units(), str(x.baseunits), str(x.baseunits.dimensions),
                show(x.baseunits.magnitude), sorted((k, str(v)) for k, v in x.baseunits.baseunits.items()), sstr(x)]
    if isinstance(x, Magnitude):
        return ["M", show(x.value), show(x.error)]
    if isinstance(x, np.ndarray):
        return ["A", str(x.dtype), [show(v) for v in x.tolist()]]
    if isinstance(x, (list, tuple)):
        return [type(x).__name__, [show(v) for v in x]]
    if isinstance(x, dict):
        return ["D", [(str(k), show(v)) for k, v in x.items()]]
    if isinstance(x, Decimal):
        return ["Dec", str(x)]
    if isinstance(x, (float, np.floating)):
        return [type(x).__name__, repr(float(x))]
    if isinstance(x, (bool, np.bool_)):
        return ["b", bool(x)]
    if x is None or isinstance(x, (int, str)):
        return x
    return [type(x).__name__, str(x)]

out = []
def case(name, fn):
    try:
        r = fn()
        out.append([name, "ok", show(r)])
    except BaseException as e:
        out.append([name, "exc", type(e).__name__, [show(a) if not isinstance(a, Quantity) else str(a) for a in e.args]])

def mk():
    """fresh operand factories, keyed by label"""
    return {
        "m":     lambda: Quantity(2.5, "m"),
        "m_e":   lambda: Quantity(2.5, "m", abse=0.1),
        "cm":    lambda: Quantity(30, "cm"),
        "cm_e":  lambda: Quantity(30, "cm", rele=10),
        "km2":   lambda: Quantity(3, "km2"),
        "s":     lambda: Quantity(4, "s"),
        "Hz":    lambda: Quantity(5, "Hz"),
        "arr_m": lambda: Quantity([1.0, 2.0, 3.0], "m"),
        "arr_cm_e": lambda: Quantity(np.array([10., 20., 30.]), "cm", abse=0.5),
        "dec_m": lambda: Quantity(Decimal("1.25"), "m"),
        "dec_km": lambda: Quantity(Decimal("0.002"), "km"),
        "dB":    lambda: Quantity(3, "dB"),
        "dB_e":  lambda: Quantity(10, "dB", abse=0.2),
        "dBm":   lambda: Quantity(20, "dBm"),
        "Np":    lambda: Quantity(1, "Np"),
        "Cel":   lambda: Quantity(23, "Cel"),
        "K":     lambda: Quantity(300, "K"),
        "degF":  lambda: Quantity(73, "degF"),
        "deg":   lambda: Quantity(60, "deg"),
        "nodim": lambda: Quantity(0.5),
        "J":     lambda: Quantity(2, "J"),
        "erg_e": lambda: Quantity(3e7, "erg", abse=1e6),
        "kgms":  lambda: Quantity(2, "kg*m2*s-2"),
        "pct":   lambda: Quantity(30, "%"),
        "zero":  lambda: Quantity(0, "m"),
    }

F = mk()
PAIRS = [("m","cm"),("m_e","cm_e"),("cm","m"),("m","m"),("m","s"),("s","Hz"),("arr_m","cm"),("arr_m","arr_cm_e"),
         ("dec_m","dec_km"),("dec_m","cm"),("m","dec_km"),("dB","dB"),("dB_e","dB"),("dB","dBm"),("dB","Np"),("dBm","dBm"),
         ("Cel","K"),("K","Cel"),("Cel","Cel"),("degF","Cel"),("J","erg_e"),("J","kgms"),("kgms","J"),("nodim","pct"),
         ("nodim","m"),("km2","m"),("zero","cm"),("m","zero"),("arr_cm_e","m_e"),("deg","nodim")]
import operator
OPS = [("add", operator.add), ("sub", operator.sub), ("mul", operator.mul), ("div", operator.truediv),
       ("eq", operator.eq), ("ne", operator.ne)]
CONV = {"m":["cm","km"], "m_e":["mm"], "cm":["m","au"], "cm_e":["m"], "km2":["m2"], "s":["ms"], "Hz":["s-1","s"],
        "arr_m":["cm"], "arr_cm_e":["m"], "dec_m":["cm"], "dec_km":["m"], "dB":["Np","PR"], "dB_e":["B"], "dBm":["W","dBW"],
        "Np":["dB"], "Cel":["K","degF"], "K":["Cel"], "degF":["K"], "deg":["rad"], "nodim":["%"], "J":["erg","eV"],
        "erg_e":["J"], "kgms":["J"], "pct":["ppm"], "zero":["km"]}

def binop(a, b, opn, op):
    def run():
        x, y = F[a](), F[b]()
        before = [show(x), show(y)]
        res = []
        try:
            r = op(x, y)
            res.append(["r", show(r)])
        except BaseException as e:
            r = None
            res.append(["exc", type(e).__name__])
        res.append(["same_after_op", [show(x), show(y)] == before, show(x), show(y)])
        # in-place conversions of the result, then the operands
        if isinstance(r, Quantity):
            res.append(["alias", r.magnitude is x.magnitude, r.magnitude is y.magnitude,
                        r.baseunits is x.baseunits, r.baseunits is y.baseunits,
                        r.baseunits.baseunits is x.baseunits.baseunits, r.baseunits.baseunits is y.baseunits.baseunits])
            try:
                r.rebase(); res.append(["r.rebase", show(r), show(x), show(y)])
            except BaseException as e:
                res.append(["r.rebase exc", type(e).__name__])
            try:
                r.abse(0.25); res.append(["r.abse", show(r), show(x), show(y)])
            except BaseException as e:
                res.append(["r.abse exc", type(e).__name__])
        for lab, q in (("x", x), ("y", y)):
            for u in CONV[a if lab == "x" else b]:
                try:
                    v = q.value(u)
                    res.append([lab + ".value " + u, show(v), show(q)])
                    q.to(u)
                    res.append([lab + ".to " + u, show(q), show(r) if isinstance(r, Quantity) else None])
                except BaseException as e:
                    res.append([lab + ".to " + u + " exc", type(e).__name__])
        res.append(["final", show(x), show(y), show(r) if isinstance(r, Quantity) else show(r)])
        return res
    return run

for a, b in PAIRS:
    for opn, op in OPS:
        case("%s %s %s" % (a, opn, b), binop(a, b, opn, op))

# scalars on either side, powers, negation, indexing
for a in ["m", "m_e", "arr_cm_e", "dec_m", "dB", "Cel", "nodim", "km2"]:
    for opn, fn in [("q+2", lambda q: q + 2), ("2+q", lambda q: 2 + q), ("q-2", lambda q: q - 2), ("2-q", lambda q: 2 - q),
                    ("q*3", lambda q: q * 3), ("3*q", lambda q: 3 * q), ("q/4", lambda q: q / 4), ("4/q", lambda q: 4 / q),
                    ("q**2", lambda q: q ** 2), ("q**(1,2)", lambda q: q ** (1, 2)), ("q**Fr", lambda q: q ** Fraction(3, 2)),
                    ("q**0.5", lambda q: q ** 0.5), ("-q", lambda q: -q), ("q==2", lambda q: q == 2), ("q==2.5", lambda q: q == 2.5),
                    ("q*arr", lambda q: q * np.array([1., 2.])), ("q+Dec", lambda q: q + Decimal("1.5")), ("q*Dec", lambda q: q * Decimal("1.5")),
                    ("q*None", lambda q: q * None), ("q+'m'", lambda q: q + "m")]:
        def run(a=a, fn=fn):
            q = F[a](); before = show(q)
            res = []
            try:
                r = fn(q); res.append(show(r))
            except BaseException as e:
                r = None; res.append(["exc", type(e).__name__])
            res.append([show(q) == before, show(q)])
            if isinstance(r, Quantity):
                try:
                    r.rebase(); r.abse(0.5)
                except BaseException as e:
                    res.append(["exc2", type(e).__name__])
                res.append([show(r), show(q)])
            for u in CONV[a]:
                try:
                    q.to(u); res.append([u, show(q), show(r) if isinstance(r, Quantity) else None])
                except BaseException as e:
                    res.append([u, "exc", type(e).__name__])
            return res
        case("%s %s" % (a, opn), run)

# numpy functions
NPF = [("sqrt", np.sqrt), ("cbrt", np.cbrt), ("sin", np.sin), ("cos", np.cos), ("tan", np.tan), ("arcsin", np.arcsin),
       ("arccos", np.arccos), ("arctan", np.arctan), ("isnan", np.isnan), ("abs", np.abs), ("absolute", np.absolute),
       ("round", np.round), ("floor", np.floor), ("ceil", np.ceil), ("sum", np.sum), ("negative", np.negative),
       ("exp", np.exp), ("log10", np.log10), ("iscomplexobj", np.iscomplexobj), ("mean", np.mean),
       ("power3", lambda q: np.power(q, 3)), ("power05", lambda q: np.power(q, 0.5)),
       ("linspace_qq", lambda q: np.linspace(q, Quantity(1, "km") if q.baseunits.dimensions == Quantity(1, "m").baseunits.dimensions else q * 3, 4)),
       ("linspace_qs", lambda q: np.linspace(q, 10, 3)), ("linspace_sq", lambda q: np.linspace(1, q, 3)),
       ("logspace_qs", lambda q: np.logspace(q, 3, 3)), ("logspace_sq", lambda q: np.logspace(0, q, 3)),
       ("getitem", lambda q: q[1]), ("getslice", lambda q: q[:2])]
for a in ["m", "m_e", "arr_m", "arr_cm_e", "km2", "deg", "nodim", "dB", "Hz"]:
    for n, fn in NPF:
        def run(a=a, fn=fn):
            q = F[a](); before = show(q)
            res = []
            try:
                r = fn(q); res.append(show(r))
            except BaseException as e:
                r = None; res.append(["exc", type(e).__name__])
            res.append([show(q) == before, show(q)])
            if isinstance(r, Quantity):
                try:
                    r.rebase(); r.rele(5)
                except BaseException as e:
                    res.append(["exc2", type(e).__name__])
                res.append([show(r), show(q)])
            for u in CONV[a]:
                try:
                    q.to(u); res.append([u, show(q), show(r) if isinstance(r, Quantity) else None])
                except BaseException as e:
                    res.append([u, "exc", type(e).__name__])
            return res
        case("np %s %s" % (n, a), run)

# value-in-other-unit queries, to() with a Quantity, rebase, abse/rele setters, chains
def chain1():
    a = Quantity(1, "km", abse=0.01); b = Quantity(250, "m", rele=2)
    c = a + b; d = c * a; e = d / b
    log = [show(a), show(b), show(c), show(d), show(e)]
    c.to("cm"); log += [show(a), show(b), show(c)]
    a.to("m"); log += [show(a), show(c), show(d)]
    e.rebase(); log += [show(e), show(a), show(b)]
    b.abse(3); log += [show(b), show(c), show(e)]
    d.to("m2").rele(1); log += [show(d), show(a)]
    log += [show(a.value("mm")), show(b.value("km", dtype=int)), show(a), show(b)]
    return log
case("chain1", chain1)
def chain2():
    u = Unit(); c = Constant()
    a = 3 * u.kg * u.m**2 / u.s**2; b = Quantity(1, u.J); e = a + b
    log = [show(a), show(b), show(e), show(u.kg), show(u.J)]
    e.to("erg"); log += [show(e), show(a), show(b), show(u.J), show(u.m)]
    f = Quantity(1, "J").to(Quantity(2, "erg")); log += [show(f)]
    g = Quantity(5, "m"); h = Quantity(3, g); g.to("cm"); log += [show(g), show(h)]
    h.to("km"); log += [show(g), show(h)]
    log += [show(c.c), show((c.c * Quantity(2, "s")).to("km")), show(c.c)]
    return log
case("chain2", chain2)
def chain3():
    a = Quantity(20, "dBm"); b = Quantity(23, "dBm", abse=0.5)
    c = a + b; d = b - a
    log = [show(a), show(b), show(c), show(d)]
    c.to("W"); log += [show(c), show(a), show(b)]
    a.to("dBW"); log += [show(a), show(c), show(d)]
    log += [show(b.value("mW")), show(b)]
    t = Quantity([20., 30.], "Cel"); k = Quantity(t.value("K"), "K"); t2 = t - Quantity(5, "Cel")
    t.to("degF"); log += [show(t), show(k), show(t2)]
    return log
case("chain3", chain3)
def chain4():
    a = Quantity(Decimal("1.5"), "m"); b = Quantity(Decimal("25"), "cm")
    c = a + b; d = a * b; e = a / b; f = a * 2
    log = [show(x) for x in (a, b, c, d, e, f)]
    c.to("mm"); d.to("cm2"); log += [show(x) for x in (a, b, c, d)]
    b.to("m"); log += [show(x) for x in (a, b, c, d, e)]
    for fn in (lambda: a == b, lambda: a == Quantity(150, "cm"), lambda: Quantity(150, "cm") == a):
        try:
            log.append(show(fn()))
        except BaseException as ex:
            log.append(["exc", type(ex).__name__])
    log += [show(a), show(b)]
    return log
case("chain4", chain4)
def chain5():
    a = Quantity(2, "kg*m2*s-2*cm"); b = a * Quantity(3, "g")
    log = [show(a), show(b)]
    b.rebase(); log += [show(a), show(b)]
    a.rebase(); log += [show(a), show(b)]
    c = Quantity(3, "m*cm-1"); d = Quantity(2, "km*m-1") + c; log += [show(c), show(d)]
    return log
case("chain5", chain5)
def env():
    with UnitEnvironment({"xu": {"magnitude": 2.0, "dimensions": [1,0,0,0,0,0,0,0]}, "yu": Quantity(3, "s")}):
        a = Quantity(2, "xu"); b = Quantity(1, "m"); c = a + b; d = b - a; e = Quantity(2, "yu") * a
        log = [show(x) for x in (a, b, c, d, e)]
        c.to("m"); a.to("cm"); log += [show(x) for x in (a, b, c, d, e)]
    return log
case("env", env)
def err():
    log = []
    for fn in [lambda: Quantity(1, "m").to("s"), lambda: Quantity(1, "Cel*m").to("K"), lambda: Quantity(1, "dB*m*s*kg").to("W"),
               lambda: Quantity(1, "dB").to("xyz"), lambda: Quantity(1, "m").value("J"), lambda: Quantity("a", "m"),
               lambda: Quantity(1, 3.5), lambda: Quantity(1, "m", abse=1, rele=1), lambda: Quantity(1, "dB") + Quantity(1, "dBm"),
               lambda: Quantity(1, "Cel") + Quantity(1, "m"), lambda: Magnitude("x"), lambda: BaseUnits(3.5),
               lambda: Quantity(1, "m") == "m", lambda: Quantity(1, "m") == None]:
        try:
            log.append(["ok", show(fn())])
        except BaseException as e:
            log.append([type(e).__name__, [str(a) for a in e.args]])
    return log
case("err", err)

# lower-level helpers the operators are built on
def low():
    log = []
    f = Fraction(4, -6); g = Fraction(3)
    log += [str(f + g), str(f - g), str(f * g), str(f / g), str(f * 0.5), str(f / 0.5), str(f * (1, 2)), str(f / (1, 2)),
            str(f + 1), str(f - (1, 3)), str(-f), show(f == g), show(f.value()), show(f.value(dtype=float)), [f.num, f.den],
            show(Fraction(0, 5).value()), show(Fraction(6, 3).value()), str(Fraction.from_string("3:4")), str(Fraction.from_string("-2"))]
    d1 = Dimensions.from_list([1, 0, (1, 2), 0, 0, 0, 0, 0]); d2 = Dimensions(m=Fraction(2))
    log += [str(d1 + d2), str(d1 - d2), str(d1 * 2), str(d1 / 2), str(-d1), show(d1 == d2), show(d1.value()), show(d1.value(dtype=dict)),
            show(d1.value(dtype=tuple)), d1.nodim, Dimensions().nodim, str(d1 + 1), str(d1 - 1), repr(d1), str(d1), str(d2)]
    b1 = BaseUnits("kg*m2*s-2"); b2 = BaseUnits({"k:m": 1, "s": (1, 2)}); b3 = BaseUnits(b1)
    for r in (b1 + b2, b1 - b2, b1 * 2, b1 / 2, b1 * (1, 2), b2 * Fraction(2, 3), BaseUnits([1, 1, 0, 0, 0, 0, 0, 0]), BaseUnits(d1), BaseUnits(None), BaseUnits(np.array([0, 0, 1, 0, 0, 0, 0, 0]))):
        log.append([str(r), repr(r), r.expression, show(r.magnitude), str(r.dimensions), r.units, r.nodim, r.nobase, show(r.value())])
    log += [str(b1), str(b2), str(b3), show(b1 == b3), show(b1 == b2), b1.expression, b2.expression, show(b1.value()), show(b2.value())]
    for uid, e in [("m", None), ("k:g", Fraction(2)), ("s", Fraction(-1, 2)), ("#PR", Fraction(1)), ("c:m", Fraction(2, 4))]:
        try:
            x = get_unit_base(uid, e) if e is not None else get_unit_base(uid)
            log.append([show(x.magnitude), str(x.dimensions), x.units, x.expression, str(e)])
        except BaseException as ex:
            log.append(["exc", type(ex).__name__])
    m1 = Magnitude(4.0, 0.2); m2 = Magnitude([1., 2.], rele=10); m3 = Magnitude(Decimal("2.5")); m4 = Magnitude(3)
    for fn in [lambda: m1 + m4, lambda: m4 + m1, lambda: m1 - m4, lambda: m4 - m1, lambda: m1 * m4, lambda: m4 * m1, lambda: m1 / m4, lambda: m4 / m1,
               lambda: m1 + m1, lambda: m1 - m1, lambda: m1 * m1, lambda: m1 / m1, lambda: m1 ** 2, lambda: m4 ** 0.5, lambda: -m1, lambda: -m2,
               lambda: m2 + 1, lambda: 1 + m2, lambda: 2 - m2, lambda: m2 * 2, lambda: 2 / m2, lambda: m3 + 1, lambda: m3 * m4, lambda: 2 / m3, lambda: m3 - m3,
               lambda: m3 / m4, lambda: m1.abse(), lambda: m1.rele(), lambda: m2.rele(), lambda: str(m1), lambda: repr(m2), lambda: str(m4), lambda: str(Magnitude([1., 2., 3.])),
               lambda: Magnitude(np.float64(2.0)), lambda: Magnitude(np.int32(2)), lambda: Magnitude(2, rele=5), lambda: Magnitude(m1.value).abse(0.3), lambda: Magnitude(5.0).rele(10)]:
        try:
            log.append(show(fn()))
        except BaseException as ex:
            log.append(["exc", type(ex).__name__])
    log += [show(m1), show(m2), show(m3), show(m4)]
    # unit type objects
    for u1, u2 in [("m", "cm"), ("s", "Hz"), (None, "rad"), ("m", "s"), ("Cel", "K"), ("K", "K"), ("dB", "Np"), ("dBm", "W"), ("dB", "m"), ("Cel*m", "K")]:
        bu1, bu2 = BaseUnits(u1), BaseUnits(u2)
        row = []
        for T in S.UNIT_TYPES:
            try:
                c = T(bu1, bu2)
                row.append(None if c is None else [type(c).__name__, list(c.conversion), show(c.convert(Magnitude(2.0, 0.1))) if hasattr(c, c.conversion[0]) else "noimpl"])
            except BaseException as ex:
                row.append(["exc", type(ex).__name__])
        log.append(row)
    return log
case("low", low)

print(json.dumps(out))
'''

def run(root):
    src = os.path.join(os.path.abspath(root), "src")
    env = dict(os.environ, PYTHONDONTWRITEBYTECODE="1", PYTHONHASHSEED="0")
    p = subprocess.run([sys.executable, "-c", PROBE, src], capture_output=True, text=True, env=env, cwd="/tmp")
    if p.returncode != 0:
        print("probe crashed for", root); print(p.stderr[-3000:]); sys.exit(2)
    return json.loads(p.stdout)

def main():
    a, b = run(sys.argv[1]), run(sys.argv[2])
    bad = 0
    if len(a) != len(b):
        print("different number of cases", len(a), len(b)); bad += 1
    for x, y in zip(a, b):
        if x != y:
            bad += 1
            if bad <= 10:
                print("DIFF", x[0]); print("  base:", json.dumps(x)[:600]); print("  new :", json.dumps(y)[:600])
    nexc = sum(1 for x in a if x[1] == "exc")
    print("cases: %d (raising at top level: %d), differing: %d" % (len(a), nexc, bad))
    sys.exit(1 if bad else 0)

if __name__ == "__main__":
    main()
