#!/venv/bin/python
"""Differential check for property C06 (Quantity arithmetic vs. base-dimension arithmetic).

usage: diff.py <unmodified tree root> <refactored tree root>

Each tree is exercised in its own subprocess (own sys.path); the observable
outputs (magnitude values bit-exact, errors, unit expressions, base-unit
dictionaries, dimensions, raised exception types) are serialised to JSON and
compared.  Exit code 0 iff the two trees agree on every case.
"""
import json
import subprocess
import sys

WORKER = r'''
import sys, json, warnings
warnings.simplefilter("ignore")
sys.path.insert(0, sys.argv[1] + "/src")
import numpy as np
from scinumtools.units import Quantity, Unit
from scinumtools.units.base_units import BaseUnits, get_unit_base
from scinumtools.units.fraction import Fraction
from scinumtools.units.magnitude import Magnitude

def num(v):
    if v is None:
        return None
    if isinstance(v, np.ndarray):
        return [num(x) for x in v.tolist()]
    if isinstance(v, (float, np.floating)):
        return float(v).hex()
    if isinstance(v, (int, np.integer)):
        return int(v)
    return repr(v)

def show(q):
    if isinstance(q, Quantity):
        return {
            "type": "Quantity",
            "value": num(q.magnitude.value),
            "error": num(q.magnitude.error),
            "units": q.units(),
            "baseunits": {k: str(v) for k, v in q.baseunits.baseunits.items()},
            "dims": str(q.baseunits.dimensions),
            "factor": num(q.baseunits.magnitude),
            "str": str(q),
        }
    if isinstance(q, BaseUnits):
        return {"type": "BaseUnits", "str": str(q), "expr": q.expression,
                "factor": num(q.magnitude), "dims": str(q.dimensions),
                "units": list(q.units), "nodim": q.nodim, "nobase": q.nobase}
    if isinstance(q, Magnitude):
        return {"type": "Magnitude", "value": num(q.value), "error": num(q.error)}
    if isinstance(q, (bool, np.bool_)):
        return bool(q)
    if isinstance(q, (list, tuple)):
        return [show(x) for x in q]
    if isinstance(q, (float, int, np.ndarray, np.floating, np.integer)):
        return num(q)
    return repr(q)

def base(q):
    # re-express in base dimensions: numeric factor folded in, dims reported
    return [num(q.magnitude.value * q.baseunits.magnitude), str(q.baseunits.dimensions)]

Q = Quantity
cases = []
def case(name, fn):
    cases.append((name, fn))

# --- sums / differences in mixed units, either side of a plain number
case("add km+m",        lambda: Q(1.5, 'km') + Q(250, 'm'))
case("add m+km",        lambda: Q(250, 'm') + Q(1.5, 'km'))
case("sub cm-mm",       lambda: Q(3, 'cm') - Q(7, 'mm'))
case("add compound",    lambda: Q(2, 'km/h') + Q(3, 'm/s'))
case("sub compound",    lambda: Q(2, 'J') - Q(3, 'kg*m2/s2'))
case("add erg+J",       lambda: Q(5, 'erg') + Q(1e-7, 'J'))
case("add num right",   lambda: Q(2.5) + 3)
case("add num left",    lambda: 3 + Q(2.5))
case("sub num left",    lambda: 3 - Q(2.5))
case("sub num right",   lambda: Q(2.5) - 3.25)
case("add array",       lambda: Q([1., 2., 3.], 'm') + Q([10., 20., 30.], 'cm'))
case("sub array/scalar",lambda: Q(np.array([1., 2., 3.]), 'kg') - Q(250, 'g'))
case("add inverse dim", lambda: Q(2, 's') + Q(4, 'Hz'))
case("add errors",      lambda: Q(2, 'm', abse=0.1) + Q(30, 'cm', abse=2))
case("sub errors",      lambda: Q(2, 'm', rele=5) - Q(30, 'cm'))
# --- refusals
case("add m+s",         lambda: Q(1, 'm') + Q(1, 's'))
case("sub m-kg",        lambda: Q(1, 'm') - Q(1, 'kg'))
case("add num+m",       lambda: 1 + Q(1, 'm'))
case("sub m-num",       lambda: Q(1, 'm') - 1)
case("add m2+m",        lambda: Q(1, 'm2') + Q(1, 'm'))
case("convert m->s",    lambda: Q(1, 'm').to('s'))
case("unknown unit",    lambda: Q(1, 'foo'))
# --- temperatures and logarithmic units (other unit types)
case("add K+K",         lambda: Q(300, 'K') + Q(10, 'K'))
case("add Cel+K",       lambda: Q(20, 'Cel') + Q(5, 'K'))
case("sub degF-Cel",    lambda: Q(70, 'degF') - Q(5, 'Cel'))
case("temp compound",   lambda: Q(1, 'Cel/s') + Q(1, 'K'))
case("add dB+dB",       lambda: Q(10, 'dB') + Q(10, 'dB'))
case("sub dBm-dBm",     lambda: Q(13, 'dBm') - Q(10, 'dBm'))
case("add dBm+dBW",     lambda: Q(13, 'dBm') + Q(1, 'dBW'))
case("sub dB-Np",       lambda: Q(13, 'dB') - Q(1, 'Np'))
case("add dB+m",        lambda: Q(13, 'dB') + Q(1, 'm'))
case("add dB errs",     lambda: Q(10, 'dB', abse=0.1) + Q(7, 'dB', abse=0.2))
case("conv dBm->mW",    lambda: Q(20, 'dBm').to('mW'))
case("conv K->degF",    lambda: Q(300, 'K').to('degF'))
case("add Np+Np",       lambda: Q(1.5, 'Np') + Q(0.5, 'Np'))
case("sub dB arr",      lambda: Q([10., 20., 30.], 'dB') - Q([3., 6., 9.], 'dB'))
case("add dBV+dBm",     lambda: Q(3, 'dBV') + Q(3, 'dBm'))
case("add dBm+dBmW",    lambda: Q(3, 'dBm') + Q(3, 'dBmW'))
case("add cB+dB",       lambda: Q(30, 'cB') + Q(3, 'dB'))
case("sub dBV errs",    lambda: Q(12, 'dBV', abse=0.5) - Q(6, 'dBV'))
case("sub dB neg",      lambda: Q(3, 'dB') - Q(6, 'dB'))
case("add dB+num",      lambda: Q(3, 'dB') + 2)
case("add Cel+degF",    lambda: Q([20., 30.], 'Cel') + Q(5, 'degF'))
case("sub K-Cel",       lambda: Q(300, 'K') - Q(5, 'Cel'))
case("add Cel+m",       lambda: Q(300, 'Cel') + Q(5, 'm'))
# --- products / quotients
case("mul m*s",         lambda: Q(2, 'm') * Q(3, 's'))
case("mul km*m",        lambda: Q(2, 'km') * Q(3, 'm'))
case("mul cancel",      lambda: Q(2, 'km') * Q(3, 'm-1'))
case("div cancel",      lambda: Q(6, 'km') / Q(3, 'cm'))
case("div compound",    lambda: Q(6, 'J') / Q(3, 'N'))
case("div same",        lambda: Q(6, 'kg*m/s2') / Q(3, 'kg*m/s2'))
case("rmul",            lambda: 4 * Q(3, 'cm'))
case("rdiv",            lambda: 4 / Q(8, 'ms'))
case("div num",         lambda: Q(8, 'ms') / 4)
case("mul arrays",      lambda: Q([1., 2.], 'N') * Q([3., 4.], 'cm'))
case("div array",       lambda: np.array([1., 2.]) / Q(4., 'min') if False else Q([1., 2.], 'm') / Q(4., 'min'))
case("mul errs",        lambda: Q(2, 'm', abse=0.1) * Q(3, 's', abse=0.2))
case("div errs",        lambda: Q(2, 'm', abse=0.1) / Q(3, 's', abse=0.2))
case("mul deg*rad-1",   lambda: Q(90, 'deg') * Q(2, 'rad-1'))
case("mul pct",         lambda: Q(50, '%') * Q(3, 'm'))
# --- negation and powers
case("neg",             lambda: -Q(3, 'km/s'))
case("neg array",       lambda: -Q([1., -2.], 'erg'))
case("pow int",         lambda: Q(3, 'km') ** 2)
case("pow neg int",     lambda: Q(4, 'cm/s') ** -3)
case("pow tuple",       lambda: Q(9, 'm2') ** (1, 2))
case("pow float",       lambda: Q(9, 'm2') ** 0.5)
case("pow float third", lambda: Q(27, 'cm3') ** (1 / 3))
case("pow tuple third", lambda: Q(27, 'cm3') ** (1, 3))
case("pow tuple 2/3",   lambda: Q(8, 'km3*s-3') ** (2, 3))
case("pow Fraction",    lambda: Q(16, 'N2') ** Fraction(1, 2))
case("pow zero",        lambda: Q(16, 'N2') ** 0)
case("pow array",       lambda: Q([4., 9.], 'm2/s2') ** (1, 2))
case("pow err",         lambda: Q(4., 'm', abse=0.1) ** 3)
case("sqrt ufunc",      lambda: np.sqrt(Q(16, 'km2')))
case("cbrt ufunc",      lambda: np.cbrt(Q(27, 'l')))
case("power ufunc",     lambda: np.power(Q(2, 'mm'), 3))
# --- base units re-expression + helpers
case("to base add",     lambda: base(Q(1.5, 'km') + Q(250, 'm')))
case("to base mul",     lambda: base(Q(2, 'kJ') * Q(3, 'ms')))
case("to base div",     lambda: base(Q(2, 'kJ') / Q(3, 'eV')))
case("to base pow",     lambda: base(Q(2, 'kPa') ** (3, 2)))
case("value()",         lambda: (Q(2, 'km') * Q(3, 'm')).value('cm2'))
case("to()",            lambda: (Q(2, 'km') / Q(30, 'min')).to('m/s'))
case("rebase",          lambda: (Q(2, 'km') * Q(30, 'cm') * Q(1, 'm')).rebase())
case("eq",              lambda: (Q(2, 'km') + Q(30, 'm')) == Q(2030, 'm'))
case("eq 2",            lambda: (Q(2, 'km') * Q(30, 'm')) == Q(2030, 'm2'))
case("Unit mul",        lambda: 3 * Unit('km') / Unit('h'))
case("BaseUnits add",   lambda: BaseUnits('kg*m2/s2') + BaseUnits('s2/g'))
case("BaseUnits sub",   lambda: BaseUnits('kg*m2/s2') - BaseUnits('kg*m/s'))
case("BaseUnits mul",   lambda: [BaseUnits('kg*m2/s2') * p for p in (2, (1, 2), 0.5, -1.5, Fraction(2, 3), 0)])
case("BaseUnits div",   lambda: [BaseUnits('kg*m2/s2') / p for p in (2, (1, 2), 0.5, Fraction(2, 3))])
case("BaseUnits div 0", lambda: BaseUnits('kg*m2/s2') / 0)
case("BaseUnits bad",   lambda: BaseUnits(3.5))
case("unit base",       lambda: [(b.magnitude.hex() if isinstance(b.magnitude, float) else b.magnitude, str(b.dimensions), b.units, b.expression)
                                 for b in (get_unit_base('k:m'), get_unit_base('m', Fraction(2, 4)), get_unit_base('c:m', Fraction(-3)),
                                           get_unit_base('eV', Fraction(1, 2)), get_unit_base('au', Fraction(0)), get_unit_base('M:pc', Fraction(-4, -2)))])
case("sys unit mul",    lambda: Q(2, '#CACC') * Q(3, 's'))
case("sys unit add",    lambda: Q(2, '#SACC') + Q(3, '#CACC'))
case("sys unit add m",  lambda: Q(2, '#SACC') + Q(3, 'km/s2'))
case("sys unit pow",    lambda: Q(4, '#AACT') ** (1, 2))
case("sys unit div",    lambda: Q(4, '#SADO') / Q(2, '#CADO'))
case("sys unit base",   lambda: [(b.magnitude.hex(), str(b.dimensions), b.units, b.expression)
                                 for b in (get_unit_base('#CACC'), get_unit_base('#CADO', Fraction(3, 2)), get_unit_base('#SACT', Fraction(-2, 2)))])
case("pow many",        lambda: [Q(7.3, u) ** p for u in ('kN*mm/ms', 'eV', 'km2/h', 'mmol/l')
                                 for p in (2, -1, (1, 2), (3, 2), (-2, 3), 0.5, 1.5, -0.25, 0.2, Fraction(3, 4))])
case("mul/div many",    lambda: [r for a in ('km', 'g/cm3', 'kW*h', 'min-1', 'deg') for b in ('mm', 'kg/m3', 'J', 'Hz', 'rad')
                                 for r in (Q(1.7, a) * Q(0.3, b), Q(1.7, a) / Q(0.3, b))])
case("unit base bad",   lambda: get_unit_base('q:m'))
case("unit base bad2",  lambda: get_unit_base('k:foo'))
case("unit base bad3",  lambda: get_unit_base('foo'))
case("unit base bad4",  lambda: get_unit_base('#XYZ'))
case("unit base bad5",  lambda: get_unit_base('k:m:s'))

out = {}
for name, fn in cases:
    try:
        out[name] = {"ok": show(fn())}
    except BaseException as e:
        out[name] = {"raised": type(e).__name__}
print(json.dumps(out, sort_keys=True))
'''


def run(root):
    p = subprocess.run([sys.executable, "-c", WORKER, root], capture_output=True, text=True)
    if p.returncode != 0:
        sys.stderr.write(p.stderr)
        raise SystemExit(2)
    return json.loads(p.stdout.strip().splitlines()[-1])


def main():
    a = run(sys.argv[1])
    b = run(sys.argv[2])
    bad = [k for k in sorted(set(a) | set(b)) if a.get(k) != b.get(k)]
    for k in bad:
        print("DIFF", k, "\n  base:", a.get(k), "\n  new: ", b.get(k))
    nexc = sum(1 for v in a.values() if "raised" in v)
    print(f"{len(a)} cases compared ({nexc} raising), {len(bad)} differ")
    sys.exit(1 if bad else 0)


if __name__ == "__main__":
    main()
