#!/venv/bin/python
"""Differential check for property C04 (linear unit conversion).

usage: diff.py <unmodified tree root> <refactored tree root>

Runs the same battery of conversions against each tree in its own subprocess
(own sys.path) and exits 0 iff every observable (values bit-exact, units,
raised exception types, state after a refused conversion) is identical.
"""
import sys, os, json, subprocess

DRIVER = r'''
import sys, json, warnings
warnings.filterwarnings("ignore")
sys.path.insert(0, sys.argv[1] + "/src")
import numpy as np
from decimal import Decimal
from scinumtools.units import Quantity, Unit, Constant
from scinumtools.units.base_units import BaseUnits, get_unit_base
from scinumtools.units.fraction import Fraction
from scinumtools.units.unit_types import StandardUnitType, TemperatureUnitType, LogarithmicUnitType

def enc(v):
    if isinstance(v, np.ndarray):
        return ["arr", str(v.dtype), [enc(x) for x in v.tolist()]]
    if isinstance(v, (list, tuple)):
        return [type(v).__name__, [enc(x) for x in v]]
    if isinstance(v, (float, np.floating)):
        f = float(v)
        return ["f", f.hex() if f == f and abs(f) != float("inf") else repr(f)]
    if isinstance(v, (bool, np.bool_)):
        return ["b", bool(v)]
    if isinstance(v, (int, np.integer)):
        return ["i", int(v)]
    if isinstance(v, Decimal):
        return ["D", str(v)]
    if v is None:
        return None
    return [type(v).__name__, str(v)]

def q(o):
    return {"value": enc(o.magnitude.value), "error": enc(o.magnitude.error),
            "units": o.units(), "base": str(o.baseunits), "str": str(o)}

out = []
def case(label, fn):
    try:
        r = fn()
        if isinstance(r, Quantity):
            r = q(r)
        elif isinstance(r, dict):
            pass
        else:
            r = enc(r)
        out.append([label, "ok", r])
    except BaseException as e:
        out.append([label, "raise", type(e).__name__])

MAGS = [0.0, -0.0, 1.0, -3.75, 2.5e-7, 1e300, -1e-300, 5e-324, 1.7976931348623157e308, 123456.789, 1]
PAIRS = [("km","m"), ("m","km"), ("mm","um"), ("g","kg"), ("J","erg"), ("J","eV"), ("eV","J"),
         ("kg*m2/s2","J"), ("kg*m2/s2","kW*h"), ("N/m2","Pa"), ("Pa","bar"), ("atm","Ba"),
         ("m/s","km/h"), ("km/h","m/s"), ("au","pc"), ("ly","au"), ("deg","rad"), ("rad","deg"),
         ("'","''"), ("h","min"), ("day","s"), ("l","m3"), ("m3","cm3"), ("mol","mmol"),
         ("C","A*s"), ("V","kg*m2/(s3*A)"), ("m1:2","cm1:2"), ("m-2","km-2"), ("cd","mcd"),
         ("Hz","s-1"), ("s","Hz"), ("Hz","s"), ("m","m-1"), ("kHz","ms"), ("Ohm","S"),
         ("m","s"), ("kg","m"), ("J","W"), ("m2","m"), ("rad","m"), ("m","rad"), ("K","J"),
         ("#SACC","#CACC"), ("#CADO","Gy"), ("m/s2","#CACC"), ("#SACT","m")]

for u, v in PAIRS:
    for x in MAGS:
        case(f"to {x!r} {u}->{v}", lambda: Quantity(x, u).to(v))
    case(f"value 3.5 {u}->{v}", lambda: Quantity(3.5, u).value(v))

# refused conversions leave the quantity untouched
for u, v in [("m","s"), ("kg","m2"), ("J","W"), ("rad","m"), ("K","Pa"), ("m","kg*m")]:
    def refused():
        a = Quantity(4.25, u)
        try:
            a.to(v)
            flag = "converted"
        except BaseException as e:
            flag = type(e).__name__
        return {"flag": flag, "after": q(a)}
    case(f"refused {u}->{v}", refused)

# round trips and intermediates
TRIPLES = [("km","mi","m"), ("J","eV","erg"), ("Pa","atm","bar"), ("h","s","day"), ("deg","rad","''"),
           ("kg","lb","oz"), ("m3","l","cm3"), ("m/s","km/h","cm/s"), ("N","dyn","kg*m/s2"), ("W","erg/s","J/s")]
for u, w, v in TRIPLES:
    for x in [0.0, 1.0, -2.5, 6.02e23, 1.6e-19, 1e-300]:
        case(f"round {x!r} {u}->{v}->{u}", lambda: Quantity(x, u).to(v).to(u))
        case(f"via {x!r} {u}->{w}->{v}", lambda: Quantity(x, u).to(w).to(v))
        case(f"direct {x!r} {u}->{v}", lambda: Quantity(x, u).to(v))

# arrays, lists, ints, Decimal, errors
ARR = np.array([0.0, -1.5, 2.0, 1e-12, 3e20])
for u, v in [("km","m"), ("eV","J"), ("s","Hz"), ("deg","rad"), ("m","s"), ("kg*m2/s2","erg")]:
    case(f"array {u}->{v}", lambda: Quantity(ARR.copy(), u).to(v))
    case(f"list {u}->{v}", lambda: Quantity([1, 2, 4], u).to(v))
    case(f"arrvalue {u}->{v}", lambda: Quantity(ARR.copy(), u).value(v))
    case(f"abse {u}->{v}", lambda: Quantity(12.5, u, abse=0.25).to(v))
    case(f"rele {u}->{v}", lambda: Quantity(12.5, u, rele=2).to(v))
    case(f"decimal {u}->{v}", lambda: Quantity(Decimal("1.25"), u).to(v))
    case(f"int dtype {u}->{v}", lambda: Quantity(7, u).value(v, dtype=int))

# bare numbers and radians
for x in [0.0, 2, -0.5, 1e10]:
    case(f"bare {x!r}->rad", lambda: Quantity(x).to("rad"))
    case(f"bare {x!r}->mrad", lambda: Quantity(x).to("mrad"))
    case(f"bare {x!r}->deg", lambda: Quantity(x).to("deg"))
    case(f"bare {x!r}->m", lambda: Quantity(x).to("m"))
    case(f"rad {x!r}->bare", lambda: Quantity(x, "rad").to(None))
    case(f"bare {x!r}->%", lambda: Quantity(x).to("%"))
    case(f"rad*m/m {x!r}->rad", lambda: Quantity(x, "m/m").to("rad"))

# conversion to a Quantity / BaseUnits / dict / list target
case("to quantity", lambda: Quantity(3.0, "km").to(Quantity(2, "m")))
case("to baseunits", lambda: Quantity(3.0, "km").to(BaseUnits("cm")))
case("to dict", lambda: Quantity(3.0, "km").to({"m:m": 1}))
case("to dims", lambda: Quantity(3.0, "km/s").to([1, 0, -1, 0, 0, 0, 0, 0]))
case("to bad", lambda: Quantity(3.0, "km").to(3.5))
case("to unknown", lambda: Quantity(3.0, "km").to("foo"))
case("to badprefix", lambda: Quantity(3.0, "km").to("krad"))

# arithmetic and comparison go through the same converter selection
case("add", lambda: Quantity(1.0, "km") + Quantity(250.0, "m"))
case("radd", lambda: 2 + Quantity(3.0))
case("add mism", lambda: Quantity(1.0, "km") + Quantity(250.0, "s"))
case("add inverse", lambda: Quantity(1.0, "s") + Quantity(4.0, "Hz"))
case("sub", lambda: Quantity(1.0, "h") - Quantity(30.0, "min"))
case("rsub", lambda: 2 - Quantity(3.0))
case("sub mism", lambda: Quantity(1.0, "J") - Quantity(1.0, "W"))
case("add abse", lambda: Quantity(1.0, "km", abse=0.1) + Quantity(250.0, "m", abse=20))
case("eq", lambda: Quantity(1.0, "km") == Quantity(1000.0, "m"))
case("neq", lambda: Quantity(1.0, "km") == Quantity(1001.0, "m"))
case("eq mism", lambda: Quantity(1.0, "km") == Quantity(1.0, "s"))
case("eq num", lambda: Quantity(2.0) == 2)
case("sin deg", lambda: np.sin(Quantity(30.0, "deg")))
case("cos bare", lambda: np.cos(Quantity(0.5)))
case("sin m", lambda: np.sin(Quantity(0.5, "m")))
case("arcsin", lambda: np.arcsin(Quantity(0.5)))
case("arcsin %", lambda: np.arcsin(Quantity(50, "%")))
case("linspace", lambda: np.linspace(Quantity(1, "km"), Quantity(3000, "m"), 3))
case("rebase", lambda: Quantity(2.0, "km*m/cm").rebase())
case("mul/div", lambda: (Quantity(2.0, "km") * Quantity(3.0, "s-1") / Quantity(4, "m")).to("Hz"))
case("pow", lambda: (Quantity(2.0, "km") ** 2).to("m2"))
case("pow frac", lambda: (Quantity(4.0, "km2") ** (1, 2)).to("m"))
case("sqrt", lambda: np.sqrt(Quantity(4.0, "km2")).to("m"))
case("nodim rebase", lambda: Quantity(5.0, "km/m"))
case("percent", lambda: Quantity(5.0, "%").to(None))

# non-linear unit types (regression only)
case("K->Cel", lambda: Quantity(300.0, "K").to("Cel"))
case("degF->Cel", lambda: Quantity(41.0, "degF").to("Cel"))
case("Cel->K abse", lambda: Quantity(20.0, "Cel", abse=0.5).to("K"))
case("Cel*m", lambda: Quantity(20.0, "Cel*m").to("K*m"))
case("mW->dBm", lambda: Quantity(20.0, "mW").to("dBm"))
case("dBm->W", lambda: Quantity(30.0, "dBm").to("W"))
case("dB add", lambda: Quantity(3.0, "dBm") + Quantity(3.0, "dBm"))
case("dB add mism", lambda: Quantity(3.0, "dBm") + Quantity(3.0, "dBV"))
case("Np->dB", lambda: Quantity(1.0, "Np").to("dB"))
case("dBm->s", lambda: Quantity(1.0, "dBm").to("s"))

# helpers used by the conversion
def gub(unitid, exp=None):
    b = get_unit_base(unitid, exp)
    return {"m": enc(b.magnitude), "d": str(b.dimensions), "nodim": b.dimensions.nodim,
            "u": b.units, "e": b.expression, "exp": None if exp is None else [exp.num, exp.den]}
for uid in ["m", "k:m", "m:m", "eV", "G:eV", "#SACC", "#CACC", "#AACT", "rad", "m:rad", "deg", "u:g", "foo", "x:m", "k:foo", "a:b:c", "#NOPE"]:
    case(f"gub {uid}", lambda: gub(uid))
    for e in [Fraction(2), Fraction(-1), Fraction(1, 2), Fraction(2, 4), Fraction(-3, -6), Fraction(0), Fraction(3, -2)]:
        case(f"gub {uid} {e.num}/{e.den}", lambda: gub(uid, e))

def bu(arg):
    b = BaseUnits(arg)
    return {"m": enc(b.magnitude), "d": str(b.dimensions), "u": b.units, "e": b.expression,
            "nodim": b.nodim, "nobase": b.nobase, "s": str(b), "v": enc(sorted((k, str(v)) for k, v in b.value().items()))}
for arg in [None, "km", "kg*m2/s2", "km/m", "m0", "m1:2*s-3:2", {"k:m": 2, "s": (1, 2), "g": 0}, {"m": Fraction(0), "s": -1},
            [1, 0, -2, 0, 0, 0, 0, 0], [0] * 8, "#SACC*s", "rad", "deg/rad", {"foo": 1}, 3.5, "kfoo", {"k:m": (2, 4)}]:
    case(f"BaseUnits {arg!r}", lambda: bu(arg))
case("BaseUnits copy", lambda: bu(BaseUnits("km*s-1")))
case("BaseUnits add", lambda: bu(BaseUnits("km") + BaseUnits("s-1")))
case("BaseUnits sub", lambda: bu(BaseUnits("km") - BaseUnits("km")))

def ut(cls, a, b):
    c = cls(BaseUnits(a), BaseUnits(b))
    return None if c is None else {"conv": enc(list(c.conversion)), "cls": type(c).__name__}
for a, b in [("km","m"), ("s","Hz"), (None,"rad"), (None,"mrad"), (None,"deg"), ("m","s"), ("rad",None), (None,None),
             ("K","Cel"), ("Cel*m","K"), ("dBm","W"), ("W","dBm"), ("dBm*m*s","W")]:
    for cls in (TemperatureUnitType, LogarithmicUnitType, StandardUnitType):
        case(f"utype {cls.__name__} {a}->{b}", lambda: ut(cls, a, b))

case("Unit ctx", lambda: Unit("km").to("m"))
case("Const", lambda: Constant("c").to("km/s"))

print(json.dumps(out))
'''

def run(root):
    env = dict(os.environ)
    env.pop("PYTHONPATH", None)
    env["PYTHONDONTWRITEBYTECODE"] = "1"
    env["PYTHONHASHSEED"] = "0"
    p = subprocess.run([sys.executable, "-c", DRIVER, os.path.abspath(root)],
                       capture_output=True, text=True, env=env, cwd="/")
    if p.returncode != 0:
        print("driver failed for", root, "\n", p.stderr[-3000:])
        sys.exit(2)
    return json.loads(p.stdout.strip().splitlines()[-1])

def main():
    a = run(sys.argv[1])
    b = run(sys.argv[2])
    bad = 0
    if len(a) != len(b):
        print("different number of cases", len(a), len(b))
        bad += 1
    for x, y in zip(a, b):
        if x != y:
            bad += 1
            print("DIFF", x, "\n  vs", y)
    n_ok = sum(1 for x in a if x[1] == "ok")
    print(f"{len(a)} cases ({n_ok} ok, {len(a) - n_ok} raising) compared; {bad} differences")
    sys.exit(1 if bad else 0)

if __name__ == "__main__":
    main()
