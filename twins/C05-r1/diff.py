#!/usr/bin/env python
"""Differential check for property C05 (temperature and logarithmic conversions).

usage: diff.py <unmodified tree root> <refactored tree root>

Runs the same set of inputs against both trees (each in its own subprocess with
its own sys.path) and exits 0 iff every observable output (magnitude value,
error, unit expression, string form, raised exception type) is identical.
"""
import json
import subprocess
import sys

CHILD = r'''
import sys, json, warnings
warnings.filterwarnings("ignore")
root = sys.argv[1]
sys.path.insert(0, root + "/src")
import numpy as np
from decimal import Decimal
from scinumtools.units import Quantity

def show(q):
    if isinstance(q, Quantity):
        v = q.magnitude.value
        e = q.magnitude.error
        v = v.tolist() if isinstance(v, np.ndarray) else repr(v)
        if e is not None:
            e = e.tolist() if isinstance(e, np.ndarray) else repr(e)
        return {"value": repr(v), "error": repr(e), "units": q.units(), "str": str(q)}
    if isinstance(q, np.ndarray):
        return {"array": repr(q.tolist())}
    return {"plain": repr(q)}

results = []
def case(label, fn):
    try:
        out = show(fn())
    except BaseException as exc:          # only the exception type is observable
        out = {"raises": type(exc).__name__}
    results.append([label, out])

temps = ["K", "Cel", "degF", "degR"]
mags = [0.0, 23, -40, 273.15, 1e4, 36.6]
# all ordered pairs of temperature units, conversion and round trip
for a in temps:
    for b in temps:
        for m in mags:
            case(f"T {m} {a}->{b}", lambda a=a, b=b, m=m: Quantity(m, a).to(b))
            case(f"T {m} {a}->{b}->{a}", lambda a=a, b=b, m=m: Quantity(m, a).to(b).to(a))
        case(f"T arr {a}->{b}", lambda a=a, b=b: Quantity([0.0, 23.0, 451.0], a).to(b))
        case(f"T value() {a}->{b}", lambda a=a, b=b: Quantity(12.5, a).value(b))
# prefixed kelvin
for pk in ["kK", "mK", "MK"]:
    for b in ["Cel", "degF", "degR", "K"]:
        case(f"T 2.5 {pk}->{b}", lambda pk=pk, b=b: Quantity(2.5, pk).to(b))
        case(f"T 2300 {b}->{pk}", lambda pk=pk, b=b: Quantity(2300, b).to(pk))
# errors carried along, Decimal magnitudes
case("T err Cel->K", lambda: Quantity(23, "Cel", abse=0.5).to("K"))
case("T err K->degR", lambda: Quantity(23, "K", abse=0.5).to("degR"))
case("T dec K->Cel", lambda: Quantity(Decimal("300.5"), "K").to("Cel"))
# refused temperature inputs
case("T compound Cel*m->K*m", lambda: Quantity(1, "Cel*m").to("K*m"))
case("T kCel", lambda: Quantity(1, "kCel"))
case("T Cel->m", lambda: Quantity(1, "Cel").to("m"))
case("T Cel+K", lambda: Quantity(1, "Cel") + Quantity(1, "K"))
case("T Cel-Cel", lambda: Quantity(30, "Cel") - Quantity(10, "Cel"))

# logarithmic <-> linear pairs (with prefixes), forward and round trip
pairs = [
    ("B", "dB"), ("dB", "B"), ("B", "Np"), ("Np", "B"), ("dB", "cNp"), ("dNp", "dB"),
    ("AR", "dB"), ("dB", "AR"), ("PR", "dB"), ("dB", "PR"), ("AR", "Np"), ("Np", "AR"),
    ("PR", "Np"), ("Np", "PR"), ("PR", "B"), ("B", "AR"),
    ("mW", "dBm"), ("W", "dBm"), ("pW", "dBm"), ("dBm", "uW"), ("dBm", "mW"),
    ("W", "dBmW"), ("dBmW", "uW"), ("W", "dBW"), ("dBW", "W"), ("kW", "BW"),
    ("dBW", "dBm"), ("dBm", "dBW"), ("dBW", "dBmW"), ("dBmW", "dBW"), ("dBm", "dBmW"), ("dBmW", "dBm"),
    ("mV", "dBV"), ("V", "dBV"), ("dBV", "mV"), ("dBV", "V"), ("dBuV", "uV"), ("uV", "dBuV"),
    ("dBV", "dBuV"), ("dBuV", "dBV"),
    ("dBA", "A"), ("A", "dBA"), ("dBuA", "uA"), ("uA", "dBuA"),
    ("dBOhm", "Ohm"), ("Ohm", "dBOhm"), ("Pa", "dBSPL"), ("dBSPL", "Pa"),
    ("W/m2", "dBSIL"), ("dBSIL", "W/m2"), ("W", "dBSWL"), ("dBSWL", "W"),
    ("dBm", "dBm"), ("dB", "dB"), ("Np", "Np"), ("dBSPL", "dBSPL"), ("dBuA", "dBuA"),
    ("dBmW/Hz", "W/Hz"), ("W/Hz", "dBm/Hz"),
    ("dBm", "dBV"), ("dBA", "dBuA"), ("Np", "dBm"), ("dB", "m"),
]
for a, b in pairs:
    for m in [1, 0.115, 30, 1000]:
        case(f"L {m} {a}->{b}", lambda a=a, b=b, m=m: Quantity(m, a).to(b))
        case(f"L {m} {a}->{b}->{a}", lambda a=a, b=b, m=m: Quantity(m, a).to(b).to(a))
    case(f"L -3 {a}->{b}", lambda a=a, b=b: Quantity(-3, a).to(b))
    case(f"L arr {a}->{b}", lambda a=a, b=b: Quantity([0.5, 2.0, 40.0], a).to(b))
case("L err dBm->mW", lambda: Quantity(22, "dBm", abse=0.1).to("mW"))
case("L err dBW->dBm", lambda: Quantity(2, "dBW", abse=0.1).to("dBm"))
case("L 3units", lambda: Quantity(1, "dBm*m*s").to("W*m*s"))

# level arithmetic (power sum)
for u in ["dB", "B", "dBA", "dBm", "dBmW", "dBW", "dBV", "dBuV", "dBSPL", "Np", "cNp"]:
    for x, y in [(1, 2), (87, 83), (20, 23), (0, 0), (-3.5, 7.25)]:
        case(f"A {x}+{y} {u}", lambda u=u, x=x, y=y: Quantity(x, u) + Quantity(y, u))
        case(f"A {x}-{y} {u}", lambda u=u, x=x, y=y: Quantity(x, u) - Quantity(y, u))
    case(f"A arr+ {u}", lambda u=u: Quantity([1.0, 20.0], u) + Quantity([2.0, 23.0], u))
    case(f"A arr- {u}", lambda u=u: Quantity([5.0, 30.0], u) - Quantity([2.0, 23.0], u))
case("A err +", lambda: Quantity(20, "dBm", abse=0.2) + Quantity(23, "dBm", abse=0.1))
case("A err -", lambda: Quantity(87, "dBA", abse=0.2) - Quantity(83, "dBA", abse=0.1))
case("A B+dB", lambda: Quantity(1, "B") + Quantity(2, "dB"))
case("A dB-B", lambda: Quantity(20, "dB") - Quantity(1, "B"))
case("A dBm+dBW", lambda: Quantity(1, "dBm") + Quantity(2, "dBW"))
case("A dBm-dBW", lambda: Quantity(1, "dBm") - Quantity(2, "dBW"))
case("A dBm+dBV", lambda: Quantity(1, "dBm") + Quantity(2, "dBV"))
case("A dBm-dBV", lambda: Quantity(1, "dBm") - Quantity(2, "dBV"))
case("A dB+1", lambda: Quantity(1, "dB") + 1)
case("A 1+dB", lambda: 1 + Quantity(1, "dB"))
case("A dBm+W", lambda: Quantity(1, "dBm") + Quantity(1, "W"))
case("A dBm/Hz+", lambda: Quantity(1, "dBm/Hz") + Quantity(2, "dBm/Hz"))
# ordinary (non temperature, non logarithmic) paths through the same base class
case("S m+cm", lambda: Quantity(1, "m") + Quantity(5, "cm"))
case("S m-km", lambda: Quantity(1, "m") - Quantity(5, "km"))
case("S m+s", lambda: Quantity(1, "m") + Quantity(5, "s"))
case("S m-s", lambda: Quantity(1, "m") - Quantity(5, "s"))
case("S Hz->s", lambda: Quantity(23, "Hz").to("s"))
case("S km->m err", lambda: Quantity(2, "km", abse=0.1).to("m"))
case("S 23->rad", lambda: Quantity(23).to("rad"))
case("S dec", lambda: Quantity(Decimal("2.5"), "km").to("m"))

print(json.dumps(results))
'''


def run(root):
    proc = subprocess.run([sys.executable, "-c", CHILD, root],
                          capture_output=True, text=True)
    if proc.returncode != 0:
        sys.stderr.write(proc.stderr)
        raise SystemExit(2)
    return json.loads(proc.stdout.strip().splitlines()[-1])


def main():
    if len(sys.argv) != 3:
        raise SystemExit("usage: diff.py <base tree> <refactored tree>")
    base, new = run(sys.argv[1]), run(sys.argv[2])
    bad = 0
    if len(base) != len(new):
        print("different number of cases", len(base), len(new))
        bad += 1
    for (l1, o1), (l2, o2) in zip(base, new):
        if l1 != l2 or o1 != o2:
            bad += 1
            print("DIFF", l1, o1, o2)
    nexc = sum(1 for _, o in base if "raises" in o)
    print(f"{len(base)} cases compared ({nexc} raising), {bad} differences")
    sys.exit(1 if bad else 0)


if __name__ == "__main__":
    main()
