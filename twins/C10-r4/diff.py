#!/venv/bin/python
"""Differential check for property C10 (formula -> atoms decomposition).

usage: diff.py <unmodified tree root> <refactored tree root>

Runs the same inputs against each tree in its own subprocess (own sys.path)
and exits 0 iff every observable output (values, units, exception types) is
identical.
"""
import json
import subprocess
import sys

PROBE = r'''
import sys, json, warnings
warnings.filterwarnings("ignore")
root = sys.argv[1]
sys.path.insert(0, root + "/src")
import numpy as np
from scinumtools.materials import Element, Substance, SubstanceSolver
from scinumtools.units import Quantity

def val(x):
    if x is None:
        return None
    if isinstance(x, Quantity):
        return ["Q", repr(x.value()), str(x.units())]
    if isinstance(x, (bool, np.bool_)):
        return ["b", bool(x)]
    if isinstance(x, (int, np.integer)):
        return ["i", int(x)]
    if isinstance(x, (float, np.floating)):
        return ["f", repr(float(x))]
    return [type(x).__name__, str(x)]

def element_obs(el):
    return {
        "expr": el.expr, "proportion": val(el.proportion), "element": el.element,
        "isotope": val(el.isotope), "ionisation": val(el.ionisation), "natural": el.natural,
        "mass": val(el.mass), "mass_Da": repr(el.mass.value("Da")),
        "component_mass": val(el.component_mass), "composite_mass": val(el.composite_mass),
        "Z": val(el.Z), "N": val(el.N), "e": val(el.e), "str": str(el),
    }

def table_obs(pt, quantity):
    if pt is None:
        return None
    out = {}
    for key, row in pt.items():
        out[key] = {k: val(v) for k, v in row.items()}
    return out

def substance_obs(s):
    out = {
        "expr": s.expr, "natural": s.natural, "keys": list(s.components.keys()),
        "proportion_norm": val(s.proportion_norm),
        "composite_mass": val(s.composite_mass),
        "component_mass": val(getattr(s, "component_mass", None)),
        "components": {k: element_obs(c) for k, c in s.components.items()},
    }
    if s.components:
        out["str"] = str(s)
        out["data_components_q"] = table_obs(s.data_components(quantity=True), True)
        out["data_components"] = table_obs(s.data_components(quantity=False), False)
        out["data_composite_q"] = table_obs(s.data_composite(quantity=True), True)
        out["data_composite"] = table_obs(s.data_composite(quantity=False), False)
    return out

def guarded(fn):
    try:
        return {"ok": fn()}
    except BaseException as exc:
        return {"raised": type(exc).__name__}

FORMULAS = json.loads(sys.argv[2])
ELEMENTS = json.loads(sys.argv[3])
results = {}
for natural in (True, False):
    for f in FORMULAS:
        results["S|%s|%s" % (f, natural)] = guarded(lambda: substance_obs(Substance(f, natural=natural)))
        results["P|%s|%s" % (f, natural)] = guarded(lambda: SubstanceSolver(None).preprocess(f))
        results["M|%s|%s" % (f, natural)] = guarded(lambda: substance_obs(Substance(f, natural=natural) * 3))
        results["A|%s|%s" % (f, natural)] = guarded(
            lambda: substance_obs(Substance(f, natural=natural) + Substance("H2O{17}", natural=natural)))
        results["AE|%s|%s" % (f, natural)] = guarded(
            lambda: substance_obs(Substance(f, natural=natural) + Element("O{-2}", 2, natural=natural)))
    for e in ELEMENTS:
        for prop in (1, 4):
            results["E|%s|%s|%s" % (e, prop, natural)] = guarded(lambda: element_obs(Element(e, prop, natural=natural)))
        results["EM|%s|%s" % (e, natural)] = guarded(lambda: element_obs(Element(e, 2, natural=natural) * 5))
        results["EA|%s|%s" % (e, natural)] = guarded(
            lambda: element_obs(Element(e, 2, natural=natural) + Element(e, 3, natural=natural)))
        results["EX|%s|%s" % (e, natural)] = guarded(
            lambda: element_obs(Element(e, 2, natural=natural) + Element("Xe", 3, natural=natural)))
    results["D|%s" % natural] = guarded(lambda: substance_obs(Substance({"H{1}": 2, "O": 1, "[e]": 3}, natural=natural)))
    results["D0|%s" % natural] = guarded(lambda: substance_obs(Substance(natural=natural)))
print(json.dumps(results, sort_keys=True))
'''

FORMULAS = [
    "H2O",
    "DT",
    "NaCl",
    "C6H12O6",
    "Ca(OH)2",
    "Al2(SO4)3",
    "Fe{56}2O3",
    "H{2}2O{18}",
    "Na{+}Cl{-}",
    "Fe{56+3}2(S{32}O{16-2}4)3",
    "[p]2[n]2[e]2",
    "[p] [e]",
    "((CH3)2CH)2O",
    "K4(Fe(CN)6)3 H2O",
    "H2 + O",
    "H * 2 + O",
    "(H2O)3(NaCl)2",
    "  U{238}  O2  ",
    "He{3}He{4}He",
    "D{+}T{3-}D2O",
    "Ca{2+}",
    "Ca{+2}Cl{-}2",
    "Og",
    "Tc2",
    "Xx2",
    "H{9}2O",
    "H2O)",
    "(H2O",
    "2H",
    "H2.5O",
    "",
    "Uuo",
    "h2o",
    "C{12}C{13}C{14}C",
    "Mg(H2PO4)2(H2O)10",
    "O{-}O{+}O{-2}O{+2}",
]

ELEMENTS = [
    "H", "He", "C{12}", "C{13}", "O{-2}", "O{16-2}", "Fe{56+3}", "Na{+}", "Cl{-}", "Cl{35-}", "Cl{37+}",
    "D", "T", "D{+}", "T{-}", "D{2+}", "T{3-2}", "D{3}", "[p]", "[n]", "[e]", "[x]", "U{235}", "U",
    "Sn", "Pb{208+4}", "Tc", "Og", "Xx", "H{7}", "H{0}", "O{+0}", "O{-0}", "O{16+0}", "1H", "", "Fe{}", "he", "Mg{24}{+}",
    "Li{6}", "Li{+}", "B", "Hg{202-}", "Cu{63+2}", "Cu{+2}",
]


def run(root):
    proc = subprocess.run(
        [sys.executable, "-c", PROBE, root, json.dumps(FORMULAS), json.dumps(ELEMENTS)],
        capture_output=True, text=True,
    )
    if proc.returncode != 0:
        sys.stderr.write(proc.stderr)
        raise SystemExit(2)
    return json.loads(proc.stdout.strip().splitlines()[-1])


def main():
    base, new = sys.argv[1], sys.argv[2]
    a, b = run(base), run(new)
    bad = 0
    for key in sorted(set(a) | set(b)):
        if a.get(key) != b.get(key):
            bad += 1
            print("DIFF", key)
            print("   base:", json.dumps(a.get(key))[:400])
            print("   new :", json.dumps(b.get(key))[:400])
    n_ok = sum(1 for v in a.values() if "ok" in v)
    print("compared %d observations (%d succeeded, %d raised in base); %d differences"
          % (len(a), n_ok, len(a) - n_ok, bad))
    sys.exit(1 if bad else 0)


if __name__ == "__main__":
    main()
