#!/usr/bin/env python
"""Differential test: runs the same inputs against two trees and compares printed results.
usage: diff.py <clean tree root> <changed tree root>   (exit 0 identical, 1 otherwise)"""
import sys, subprocess

DRIVER = r'''
import sys, os
root = sys.argv[1]
sys.path.insert(0, os.path.join(root, 'src'))
import warnings
warnings.filterwarnings('ignore')
import numpy as np
import scinumtools
assert os.path.abspath(scinumtools.__file__).startswith(os.path.abspath(root)), scinumtools.__file__
from scinumtools.dip import DIP
from scinumtools.dip.solvers import NumericalSolver, LogicalSolver
from scinumtools.dip.solvers.numerical_solver import CustomOperatorAdd, CustomOperatorSub
from scinumtools.solver.tokens import Tokens
from scinumtools.units import Quantity

def show(label, fn):
    try:
        r = fn()
        print(label, '=>', type(r).__name__, repr(r), str(r))
    except BaseException as e:
        print(label, '=> EXC', type(e).__name__, repr(e.args))

with DIP() as dip:
    dip.add_string("""
$unit length = 1 cm
$unit foo = 3 m
a float = 10 m
b float = 300 cm
n int = 23
m int = 44
k int = 23
flag bool = true
w float = 57.3 kg
s str = 'abc'
""")
    env = dip.parse()

NUM = [
    '2 + 4 - 3', '1 - -3 + -4', '34 cm + 4 mm', '10 m + 4 cm + 3 m + 1 mm', '3 m - 5 cm',
    '10 m - 1 m + 3 cm - 3 mm', '23 kg*m*s-2', '10 m + 1 J', '10 m - 1 J', '1 + 2 m', '1 - 2 m',
    '1 s + 1 Hz', '1 s - 1 Hz', '8 / 4 * 3', '-8 / 2 * -4', '+8 / 2 * +4', '10 m * 2 cm',
    '4 cm2 + 10 m * 2 cm - 0.2 m2', '10 m2 / 200 cm', '3 kg * 4 m2 / 2 s2 + 1e7 erg',
    '(10 m - 1 m) + 3 cm - 3 mm', '10 m - (1 m + 3 cm - 3 mm)', '36 m2 / (20 dm * 300 cm) - 1',
    '(2 + (3 - 4))', '-(2 + 3)', '+(2 + 3)', '2 - -(3)', '2 + -(3 m / 1 m)', '2 - +3', '2 + +3', '2 + -3',
    '2 - - 3', '2 + - 3', '2 - + 3', '- - 3', '+ - 3', '- + 3', '2 * -3', '2 * - 3', '2 * + 3',
    '2 -  -3', '- 3', '+ 3', '-3 m + 2 m', '3 - ', '3 + ', ' - ', ' + ', '3 m * ', '',
    'exp(10 m / 5 cm)', 'log(10 m / 5 cm)', 'log10(10 m / 5 cm)', 'sqrt(16 m2)', 'sin(10 m / 5 cm)',
    'cos(10 m / 5 cm)', 'tan(1)', 'pow(10 m, 2)', 'logb(8, 2)', 'powb(2 m, 3)', 'exp(1 m)', 'log(2 m)',
    'exp(2) - -exp(1)', '3 m * log10({?a} / (7 cm - 20 mm)) + {?b}', '2 km - {?a} * 3 [foo] / 1 [length]', '1 [length] + 1 [foo] - 1 dm', '{?a} - {?b}', '{?a} + {?w}',
    '{?a} - {?w}', '{?missing} + 1', '2 [foo] + 1 m', '2 [foo] - 1 [length]', '1 [length] * 2 [foo]', '{?n} - -{?m}',
    '1 m + abc', '1 +2', '1 m2 + 1 m', '0 + 1 m', '0 m + 1',
]
with NumericalSolver(env) as p:
    for e in NUM:
        show('num %r' % e, lambda: p.solve(e))
    for e, u in [('34 cm + 4 mm', 'm'), ('10 m - 1 J', 'm'), ('2 [foo] - 1 [length]', 'cm'), ('3 m * 2', 'kg'),
                 ('2 + 3', None), ('2 + 3', ''), ('1 m - 3 cm', '[foo]'), ('{?a} + {?b}', 'km')]:
        show('num-in %r %r' % (e, u), lambda: p.solve(e, u))
        show('num-kw %r %r' % (e, u), lambda: p.solve(expr=e, in_units=u))
    for v in [3, 2.5, True, False, 0, np.float64(1.5), None, [1], np.int64(3)]:
        show('num-pass %r' % (v,), lambda: p.solve(v))
        show('num-pass-u %r' % (v,), lambda: p.solve(v, 'm'))
    for a, b in [('2 + 4 - 3', '3'), ('3 m - 5 cm', '295 cm'), ('3 m - 5 cm', '296 cm'), ('1 - -3 + -4', '0'),
                 ('10 m', '1 J')]:
        show('num-eq %r %r' % (a, b), lambda: p.equal(a, b))
with NumericalSolver() as p:
    for e in ['2 [foo] + 1 m', '1 - -3 + -4', '{?a} + 1', '4 m2 + 10 m3 / 2 m - 3 m2']:
        show('num-noenv %r' % e, lambda: p.solve(e))

# operators driven directly on a token buffer
def run_unary(cls, left, right):
    t = Tokens(Quantity)
    for x in left: t.put_left(x)
    for x in right: t.append(x)
    cls().operate_unary(t)
    return [repr(x) for x in t.left], [repr(x) for x in t.right]
def run_binary(cls, l, r):
    t = Tokens(Quantity)
    t.put_left(l); t.append(r)
    cls().operate_binary(t)
    return [repr(x) for x in t.left], [repr(x) for x in t.right], repr(r)
for cls in (CustomOperatorAdd, CustomOperatorSub):
    cases = [([], []), ([], [Quantity(2, 'm')]), ([Quantity(1, 'm')], [Quantity(2, 'm')]),
             ([Quantity(1)], [CustomOperatorAdd()]), ([Quantity(1)], [CustomOperatorSub()]),
             ([], [CustomOperatorAdd()]), ([], [CustomOperatorSub()]), ([CustomOperatorAdd()], [Quantity(3)]),
             ([CustomOperatorSub()], [Quantity(3, 's')]), ([Quantity(1)], []), ([Quantity(1)], ['x']),
             (['y'], ['x']), ([], ['x']), ([CustomOperatorSub()], [])]
    for i, (l, r) in enumerate(cases):
        show('unary %s %d' % (cls.__name__, i), lambda: run_unary(cls, l, r))
    bins = [(Quantity(1, 'm'), Quantity(2, 'cm')), (Quantity(1), Quantity(2, 'cm')), (Quantity(1, 'm'), Quantity(2)),
            (Quantity(1, 's'), Quantity(2, 'Hz')), (Quantity(1, 'm'), Quantity(2, 'J')), (Quantity(1), Quantity(2)),
            (None, Quantity(2)), (Quantity(1, 'm'), None), (Quantity(1), None)]
    for i, (l, r) in enumerate(bins):
        show('binary %s %d' % (cls.__name__, i), lambda: run_binary(cls, l, r))

LOG = [
    'true || true || true', 'false || false || false', 'true && false && true',
    'false || true && false && true || true', '(true || false) && true && true',
    'false || ((false||true) || false) && (true||false)', '{?n} == {?m}', '{?n} == {?k}', '{?n} != {?m}',
    '{?n} <= {?k}', '{?n} >= {?m}', '{?n} < {?m}', '{?n} > {?m}', '{?flag}', '~{?flag}', '~~{?flag}',
    '!{?n}', '!{?elefant}', '!{?elefant} == false', '~!{?elefant}', '{?elefant} == 1', '{?w} == 57.3 kg',
    '{?w} == 57300 g', '{?w} == 57.30000001 kg', '{?w} < 1 m', '{?w} >= 57.3 kg && {?n} == 23',
    '{?a} == 2 [foo]', '{?a} > 3 [foo]', '{?a} == 1000 [length]', '1 == 1', '1 m == 100 cm', '2 > 1 && ~false',
    '', 'true &&', '&& true', 'abc', '{?s} == true', 'true == 1', '(true', '1 [foo] == 3 m',
]
with LogicalSolver(env) as p:
    for e in LOG:
        show('log %r' % e, lambda: p.solve(e))
        show('log-kw %r' % e, lambda: p.solve(expr=e))
    for v in [True, 3, None]:
        show('log-nonstr %r' % (v,), lambda: p.solve(v))
with LogicalSolver() as p:
    for e in ['true || false', '1 [foo] == 3 m', '{?n} == 1', '!{?n}', '3 cm < 1 m']:
        show('log-noenv %r' % e, lambda: p.solve(e))

# through DIP itself
def dip_parse(code):
    with DIP() as d:
        d.add_string(code)
        e = d.parse()
        return sorted((k, type(v).__name__, repr(v)) for k, v in e.data().items())
for i, code in enumerate([
    "a float = 10 m\nb float = 300 cm\nc float = ('{?a} - -{?b} * 2') m\n",
    "$unit foo = 3 m\nc float = ('2 [foo] + 1 m') cm\nd int = ('7 - 2 * 3')\n",
    "a bool = true\nb float = 23.43 cm\nc bool = ('false || {?b} == 23.43 cm && {?a}')\n",
    "c float = ('1 m + 1 s') m\n",
    "a int = 3\n@case ('{?a} == 3 && ~false')\n  b int = 1\n@else\n  b int = 2\n@end\n",
    "c bool = ('!{?zzz} || 1 m < 3 cm')\n",
]):
    show('dip %d' % i, lambda: dip_parse(code))
'''

def run(root):
    r = subprocess.run([sys.executable, '-c', DRIVER, root], capture_output=True, text=True)
    return r.returncode, r.stdout, r.stderr

if __name__ == '__main__':
    a = run(sys.argv[1]); b = run(sys.argv[2])
    ok = True
    if a[0] != 0 or b[0] != 0:
        print('driver failed', a[0], b[0]); print(a[2][-2000:]); print(b[2][-2000:]); ok = False
    la, lb = a[1].splitlines(), b[1].splitlines()
    if la != lb:
        ok = False
        for x, y in zip(la, lb):
            if x != y:
                print('DIFF\n  clean  :', x, '\n  changed:', y)
        if len(la) != len(lb): print('line count differs', len(la), len(lb))
    print('%d lines compared; %s' % (len(la), 'IDENTICAL' if ok else 'DIFFERENT'))
    sys.exit(0 if ok and len(la) >= 12 else 1)
