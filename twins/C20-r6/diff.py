#!/usr/bin/env python
"""Differential check for property C20 (tables, row collector, plot grid, combinations).

usage: diff.py <unmodified tree root> <refactored tree root>
Runs the same inputs against both trees (each in its own subprocess with its
own sys.path) and exits 0 iff every observable output is identical.
"""
import json
import os
import subprocess
import sys

WORKER = r'''
import sys, json, random
root = sys.argv[1]
sys.path.insert(0, root + '/src')
import numpy as np
import scinumtools as snt
import os
assert os.path.realpath(snt.__file__).startswith(os.path.realpath(root) + os.sep), snt.__file__

def norm(x):
    if isinstance(x, np.ndarray):
        return ['ndarray', str(x.dtype), [norm(v) for v in x.tolist()]]
    if isinstance(x, (np.generic,)):
        return ['npscalar', type(x).__name__, repr(x.item())]
    if isinstance(x, dict):
        return ['dict', [[norm(k), norm(v)] for k, v in x.items()]]
    if isinstance(x, (list, tuple)):
        return [type(x).__name__, [norm(v) for v in x]]
    if isinstance(x, range):
        return ['range', list(x)]
    if type(x).__name__ == 'ParameterSettings':
        return ['PS', norm(x.data()), str(x), list(x.keys())]
    if type(x).__name__ in ('dict_items', 'dict_keys'):
        return [type(x).__name__, [norm(v) for v in x]]
    return [type(x).__name__, repr(x)]

CASES = []
def case(f):
    CASES.append(f)
    return f

def attempt(f, *a, **k):
    try:
        return ['ok', norm(f(*a, **k))]
    except BaseException as e:
        return ['exc', type(e).__name__]

def table_state(t):
    out = {}
    out['len'] = attempt(len, t)
    out['shape'] = attempt(t.shape)
    out['keys'] = attempt(lambda: list(t.keys()))
    out['items'] = attempt(lambda: t.items())
    out['items_type'] = attempt(lambda: type(t.items()).__name__)
    out['data'] = attempt(t.data)
    out['iter'] = attempt(lambda: [x for x in t])
    out['str'] = attempt(lambda: str(t))
    out['repr'] = attempt(lambda: repr(t))
    out['text'] = attempt(lambda: t.to_text())
    out['df_cols'] = attempt(lambda: list(t.to_dataframe().columns))
    out['raw_keys'] = norm(t._keys)
    out['raw_data_type'] = type(t._data).__name__
    return out

# ---------------------------------------------------------------- ParameterTable
@case
def pt_list_basic():
    t = snt.ParameterTable(['a', 'b', 'c'])
    r = [attempt(t.append, [1, 2, 3]), attempt(t.append, [4, 5, 6])]
    r.append(attempt(lambda: t[0]))
    r.append(attempt(lambda: t[1]['b']))
    r.append(attempt(lambda: t[-1].c))
    r.append(attempt(lambda: t[2]))
    r.append(attempt(lambda: t['a']))
    r.append(attempt(lambda: t.a))
    r.append(attempt(lambda: 'a' in t))
    r.append(attempt(lambda: t.__setitem__('k', [1, 2, 3])))
    r.append(table_state(t))
    return r

@case
def pt_list_init_and_delete():
    t = snt.ParameterTable(['a', 'b'], [[1, 2], [3, 4], [5, 6]])
    r = [table_state(t)]
    r.append(attempt(t.__delitem__, 1))
    r.append(table_state(t))
    r.append(attempt(t.__delitem__, 7))
    r.append(attempt(t.__delitem__, 'x'))
    r.append(table_state(t))
    return r

@case
def pt_dict_basic():
    t = snt.ParameterTable(['a', 'b', 'c'], keys=True)
    r = []
    t['d'] = [1, 2, 3]
    r.append(attempt(t.append, 'e', [4, 5, 6]))
    r.append(attempt(lambda: t['d']))
    r.append(attempt(lambda: t[1]))
    r.append(attempt(lambda: t[-1].a))
    r.append(attempt(lambda: t.e))
    r.append(attempt(lambda: t.e.b))
    r.append(attempt(lambda: t.zzz))
    r.append(attempt(lambda: t['zzz']))
    r.append(attempt(lambda: t[5]))
    r.append(attempt(lambda: t[True]))
    r.append(attempt(lambda: 'd' in t))
    r.append(attempt(lambda: 'q' in t))
    r.append(table_state(t))
    return r

@case
def pt_dict_overwrite_delete():
    t = snt.ParameterTable(['x', 'y'], {'k1': [1, 2], 'k2': [3, 4], 'k3': [5, 6]}, keys=True, keyname='name')
    r = [table_state(t)]
    t['k2'] = [30, 40]
    r.append(table_state(t))
    r.append(attempt(t.__delitem__, 'k1'))
    r.append(table_state(t))
    r.append(attempt(t.__delitem__, 'k1'))
    r.append(attempt(t.__delitem__, 0))
    t['k1'] = [7, 8]
    r.append(table_state(t))
    r.append(attempt(lambda: t[0]))
    r.append(attempt(lambda: t[2]))
    return r

@case
def pt_append_errors():
    r = []
    t = snt.ParameterTable(['a', 'b'], keys=True)
    r.append(attempt(t.append, 'only_key'))
    r.append(attempt(t.append, 'k', 5))
    r.append(table_state(t))
    r.append(attempt(t.append, 'k', [1, 2], 3))
    r.append(attempt(t.append, ['unhashable'], [1, 2]))
    r.append(table_state(t))
    u = snt.ParameterTable(['a', 'b'])
    r.append(attempt(u.append))
    r.append(attempt(u.append, 5))
    r.append(attempt(u.append, [1, 2], 'extra'))
    r.append(attempt(u.append, [1]))
    r.append(attempt(u.append, [1, 2, 3]))
    r.append(table_state(u))
    return r

@case
def pt_init_variants():
    r = []
    r.append(attempt(lambda: table_state(snt.ParameterTable(['a'], None))))
    r.append(attempt(lambda: table_state(snt.ParameterTable(['a'], []))))
    r.append(attempt(lambda: table_state(snt.ParameterTable(['a'], {}, keys=True))))
    r.append(attempt(lambda: table_state(snt.ParameterTable(['a'], [[1]], keys=True))))
    r.append(attempt(lambda: table_state(snt.ParameterTable(['a'], {'k': [1]}))))
    r.append(attempt(lambda: table_state(snt.ParameterTable(['a', 'b'], ((1, 2), (3, 4))))))
    r.append(attempt(lambda: table_state(snt.ParameterTable([], [[], []]))))
    r.append(attempt(lambda: table_state(snt.ParameterTable(['a'], {1: [1], 2: [2]}, keys=True))))
    return r

@case
def pt_random_sequences():
    rng = random.Random(2020)
    r = []
    for trial in range(6):
        keyed = trial % 2 == 0
        t = snt.ParameterTable(['p', 'q', 'r'], keys=keyed)
        log = []
        for step in range(25):
            op = rng.choice(['append', 'set', 'del', 'get', 'geti', 'attr', 'in'])
            k = rng.choice(['a', 'b', 'c', 'd', 'e'])
            i = rng.randrange(-3, 5)
            v = [rng.randrange(100) for _ in range(3)]
            if op == 'append':
                log.append(attempt(t.append, k, v) if keyed else attempt(t.append, v))
            elif op == 'set':
                log.append(attempt(t.__setitem__, k, v))
            elif op == 'del':
                log.append(attempt(t.__delitem__, k if keyed else i))
            elif op == 'get':
                log.append(attempt(t.__getitem__, k))
            elif op == 'geti':
                log.append(attempt(t.__getitem__, i))
            elif op == 'attr':
                log.append(attempt(getattr, t, k))
            else:
                log.append(attempt(t.__contains__, k))
            log.append([attempt(len, t), norm(t._keys), attempt(t.data)])
        r.append(log)
        r.append(table_state(t))
    return r

# ---------------------------------------------------------------- RowCollector
def rc_state(c):
    out = {}
    out['len'] = attempt(len, c)
    out['size'] = attempt(c.size)
    out['shape'] = attempt(c.shape)
    out['dict'] = attempt(c.to_dict)
    out['cols'] = norm(c._columns)
    out['text'] = attempt(c.to_text)
    out['str'] = attempt(lambda: str(c))
    out['attrs'] = attempt(lambda: [[n, getattr(c, n)] for n in c._columns])
    out['item'] = attempt(lambda: [c[n] for n in c._columns])
    return out

@case
def rc_list_rows():
    c = snt.RowCollector(['c1', 'c2', 'c3'])
    r = [rc_state(c)]
    r.append(attempt(c.append, [3, 'x', 1.5]))
    r.append(attempt(c.append, [1, 'y', 2.5]))
    r.append(attempt(c.append, {'c3': 0.5, 'c1': 2, 'c2': 'z'}))
    r.append(rc_state(c))
    r.append(attempt(c.append, [1, 2]))
    r.append(rc_state(c))
    return r

@case
def rc_dict_rows_and_missing():
    r = []
    c = snt.RowCollector()
    r.append(rc_state(c))
    r.append(attempt(c.append, {'a': 1, 'b': 2}))
    r.append(attempt(c.append, {'b': 4, 'a': 3}))
    r.append(attempt(c.append, {'a': 5, 'b': 6, 'z': 7}))
    r.append(attempt(c.append, {'a': 5}))
    r.append(rc_state(c))
    d = snt.RowCollector(['a'])
    r.append(attempt(d.append, {'q': 1, 'a': 2}))
    r.append(rc_state(d))
    return r

@case
def rc_sort_lists():
    r = []
    rows = [[3, 'c', 0.3], [1, 'a', 0.9], [2, 'b', 0.1], [1, 'z', 0.5], [0, 'q', 0.5]]
    for col in ['n', 's', 'f', 'nope']:
        for rev in (False, True):
            c = snt.RowCollector(['n', 's', 'f'], rows)
            r.append(attempt(c.sort, col, reverse=rev))
            r.append(rc_state(c))
            r.append(attempt(lambda: [type(v).__name__ for v in c.n]))
    c = snt.RowCollector(['n', 's'])
    r.append(attempt(c.sort, 'n'))
    r.append(rc_state(c))
    return r

@case
def rc_arrays():
    r = []
    c = snt.RowCollector(['x', 'y'], array=True)
    r.append(rc_state(c))
    for row in ([3, 1.5], [1, 2.5], {'y': 0.5, 'x': 2}):
        r.append(attempt(c.append, row))
    r.append(rc_state(c))
    r.append(attempt(c.sort, 'y'))
    r.append(rc_state(c))
    r.append(attempt(c.sort, 'x', reverse=True))
    r.append(rc_state(c))
    d = snt.RowCollector({'i': {'dtype': int}, 's': {'dtype': str}, 'f': {'dtype': float}}, array=True)
    r.append(rc_state(d))
    for row in ([3, 'cc', 1], [1, 'a', 2.5], [2, 'bbb', 0]):
        r.append(attempt(d.append, row))
    r.append(rc_state(d))
    r.append(attempt(d.sort, 's'))
    r.append(rc_state(d))
    r.append(attempt(d.append, ['notint', 'x', 1.0]))
    r.append(rc_state(d))
    r.append(attempt(lambda: snt.RowCollector({'i': {'dtype': int}, 'j': {'bogus': 1}}, array=True)))
    return r

@case
def rc_ctor_variants():
    r = []
    r.append(attempt(lambda: rc_state(snt.RowCollector({'a': {}, 'b': {}}))))
    r.append(attempt(lambda: rc_state(snt.RowCollector({'a': {}, 'b': {}}, [[1, 2], [3, 4]]))))
    r.append(attempt(lambda: rc_state(snt.RowCollector(('a', 'b'), [[1, 2], {'a': 3, 'b': 4}], array=True))))
    r.append(attempt(lambda: rc_state(snt.RowCollector(['a', 'b'], array=0))))
    r.append(attempt(lambda: rc_state(snt.RowCollector(['a', 'b'], [[1, 2]], array=0))))
    r.append(attempt(lambda: rc_state(snt.RowCollector(['a', 'b'], [[1, 2]], array=1))))
    r.append(attempt(lambda: rc_state(snt.RowCollector({'a': {'dtype': int}}, array=1))))
    r.append(attempt(lambda: rc_state(snt.RowCollector({'a': {'bogus': int}}, array=True))))
    r.append(attempt(lambda: rc_state(snt.RowCollector([], [{'p': 1, 'q': 2}], array=True))))
    r.append(attempt(lambda: rc_state(snt.RowCollector(5))))
    c = snt.RowCollector(['a', 'b'], [[2, 1], [1, 2]])
    r.append(attempt(lambda: c.to_dataframe(['b']).to_string()))
    r.append(attempt(lambda: c.to_dataframe({'a': 'A'}).to_string()))
    return r

@case
def rc_random_sort():
    rng = random.Random(77)
    r = []
    for trial in range(8):
        n = rng.randrange(0, 12)
        rows = [[rng.randrange(5), rng.random(), 'k%d' % rng.randrange(4)] for _ in range(n)]
        arr = trial % 3 == 0
        cols = {'i': {'dtype': int}, 'f': {'dtype': float}, 's': {'dtype': str}} if arr else ['i', 'f', 's']
        c = snt.RowCollector(cols, rows, array=arr)
        col = rng.choice(['i', 'f', 's'])
        r.append(attempt(c.sort, col, rng.random() < 0.5))
        r.append(rc_state(c))
    return r

# ---------------------------------------------------------------- DataPlotGrid
def grid_state(g):
    out = {'ndata': norm(g.ndata), 'ncols': norm(g.ncols), 'nrows': norm(g.nrows), 'figsize': norm(g.figsize)}
    for missing in (None, False, True, 0, 1):
        for transpose in (False, True, 0, 1, None):
            out['%r/%r' % (missing, transpose)] = attempt(lambda: list(g.items(missing=missing, transpose=transpose)))
    out['default'] = attempt(lambda: list(g.items()))
    out['is_gen'] = type(g.items()).__name__
    return out

@case
def grid_lists():
    r = []
    for n in range(0, 9):
        for ncols in (1, 2, 3, 4, 7):
            r.append(attempt(lambda: grid_state(snt.DataPlotGrid(['d%d' % i for i in range(n)], ncols))))
    return r

@case
def grid_dicts_and_axsize():
    r = []
    for n, ncols, ax in ((5, 2, (4, 2)), (6, 3, (1, 1)), (1, 4, (2.5, 3)), (7, 3, (3, 3)), (0, 2, (1, 2))):
        r.append(attempt(lambda: grid_state(snt.DataPlotGrid({'k%d' % i: i * i for i in range(n)}, ncols, ax))))
    return r

@case
def grid_bad_inputs():
    r = []
    r.append(attempt(lambda: grid_state(snt.DataPlotGrid(('a', 'b', 'c'), 2))))
    r.append(attempt(lambda: grid_state(snt.DataPlotGrid('abc', 2))))
    r.append(attempt(lambda: grid_state(snt.DataPlotGrid(np.arange(5), 2))))
    r.append(attempt(lambda: grid_state(snt.DataPlotGrid([1, 2, 3], 0))))
    r.append(attempt(lambda: grid_state(snt.DataPlotGrid(5, 2))))
    r.append(attempt(lambda: grid_state(snt.DataPlotGrid([1, 2, 3], 2.0))))
    r.append(attempt(lambda: grid_state(snt.DataPlotGrid([1, 2, 3], 2, (1,)))))
    g = snt.DataPlotGrid(('a', 'b', 'c'), 2)
    r.append(attempt(lambda: g.items()) [0])
    r.append(attempt(lambda: next(g.items())))
    r.append(attempt(lambda: next(g.items(missing=True))))
    return r

@case
def grid_subclasses_and_large():
    import collections
    class L(list): pass
    r = []
    r.append(attempt(lambda: grid_state(snt.DataPlotGrid(L(['a', 'b', 'c', 'd', 'e']), 3))))
    r.append(attempt(lambda: grid_state(snt.DataPlotGrid(collections.OrderedDict([('z', 1), ('y', 2), ('x', 3)]), 2))))
    r.append(attempt(lambda: grid_state(snt.DataPlotGrid([(1, 2), [3, 4], None, 'str', {'k': 1}], 2))))
    r.append(attempt(lambda: grid_state(snt.DataPlotGrid({(1, 2): [1], 'k': (3, 4), 5: None}, 2))))
    for n, ncols in ((23, 5), (40, 6), (17, 17), (17, 18), (31, 4)):
        g = snt.DataPlotGrid(list(range(n)), ncols)
        for t in (False, True):
            cells = [x[1:3] for x in g.items(transpose=t)] + [x[1:3] for x in g.items(missing=True, transpose=t)]
            r.append(norm([n, ncols, t, g.nrows, cells, len(set(cells)) == g.nrows * g.ncols]))
    g = snt.DataPlotGrid([1, 2, 3], 2)
    it = g.items()
    first = next(it)
    g.data.append(4)
    r.append(norm([first, list(it)]))
    return r

@case
def comb_lazy_and_nested():
    r = []
    c = snt.DataCombination([[1, 2], ['a', 'b', 'c']])
    it = c.items()
    r.append(norm([next(it), next(it)]))
    r.append(norm(list(it)))
    r.append(norm([dict(c.items()) == dict(zip(c.keys(), c.values()))]))
    big = snt.DataCombination([list(range(4)), list('xyz'), [None, 0.5], [(1,), (2, 3)]])
    r.append(norm(list(big.items())))
    r.append(norm([len(list(big.keys())), len(list(big.values()))]))
    r.append(attempt(lambda: list(snt.DataCombination([[1, 2], 7]).items())))
    r.append(attempt(lambda: list(snt.DataCombination([[1, 2], None]).keys())))
    r.append(attempt(lambda: snt.DataCombination([[1, 2], None]).keys().__class__.__name__))
    return r

# ---------------------------------------------------------------- DataCombination
def comb_state(items):
    c = snt.DataCombination(items)
    return {
        'keys': attempt(lambda: list(c.keys())),
        'values': attempt(lambda: list(c.values())),
        'items': attempt(lambda: list(c.items())),
        'types': [type(c.keys()).__name__, type(c.values()).__name__, type(c.items()).__name__],
        'twice': attempt(lambda: [list(c.items()), list(c.items())]),
    }

@case
def comb_basic():
    r = []
    for items in ([['a', 'b', 'c'], [1, 2], [True, False]],
                  [[1, 2, 3]],
                  [],
                  [[], [1, 2]],
                  [[1], [2], [3], [4]],
                  [['x', 'y'], ['x', 'y']],
                  [(1, 2), 'ab', [None]],
                  [[[1, 2], [3]], [{'a': 1}]]):
        r.append(attempt(comb_state, items))
    return r

@case
def comb_odd_inputs():
    r = []
    r.append(attempt(comb_state, [{0: 'p', 1: 'q'}, [1, 2]]))
    r.append(attempt(comb_state, [{'a': 'p', 'b': 'q'}, [1, 2]]))
    r.append(attempt(comb_state, [{5, 6}, [1]]))
    r.append(attempt(comb_state, [np.arange(3), np.array([1.5, 2.5])]))
    r.append(attempt(comb_state, [range(3), range(2)]))
    r.append(attempt(comb_state, [3, [1]]))
    r.append(attempt(comb_state, None))
    r.append(attempt(comb_state, ([1, 2], [3, 4])))
    r.append(attempt(comb_state, {'a': [1, 2], 'b': [3]}))
    r.append(attempt(comb_state, {0: [1, 2], 1: [3]}))
    return r

@case
def comb_random():
    rng = random.Random(5)
    r = []
    for trial in range(10):
        items = [[rng.randrange(10) for _ in range(rng.randrange(0, 4))] for _ in range(rng.randrange(0, 4))]
        r.append(attempt(comb_state, items))
    return r

# ---------------------------------------------------------------- library users
@case
def users_of_tables():
    r = []
    from scinumtools.units.settings import UNIT_PREFIXES, UNIT_STANDARD, QUANTITY_LIST
    r.append(attempt(lambda: list(UNIT_PREFIXES.keys())))
    r.append(attempt(lambda: UNIT_PREFIXES['k']))
    r.append(attempt(lambda: UNIT_STANDARD[3]))
    r.append(attempt(lambda: UNIT_STANDARD.m.magnitude))
    r.append(attempt(lambda: len(UNIT_STANDARD)))
    r.append(attempt(lambda: QUANTITY_LIST.shape()))
    r.append(attempt(lambda: QUANTITY_LIST.to_dict()))
    r.append(attempt(lambda: str(snt.units.Quantity(3, 'km').to('m'))))
    from scinumtools.materials.element import PERIODIC_TABLE
    r.append(attempt(lambda: PERIODIC_TABLE['O']))
    r.append(attempt(lambda: len(PERIODIC_TABLE)))
    r.append(attempt(lambda: snt.materials.Substance('H2O').data_components().to_text()))
    return r

out = {}
for f in CASES:
    out[f.__name__] = attempt(f)
print('@@RESULT@@' + json.dumps(out, sort_keys=True, default=repr))
'''


def run(root):
    p = subprocess.run([sys.executable, '-W', 'ignore', '-c', WORKER, root],
                       capture_output=True, text=True, cwd='/tmp')
    if p.returncode != 0:
        print('worker failed for', root)
        print(p.stderr[-3000:])
        sys.exit(2)
    line = [l for l in p.stdout.splitlines() if l.startswith('@@RESULT@@')][-1]
    return json.loads(line[len('@@RESULT@@'):])


def main():
    a = run(os.path.abspath(sys.argv[1]))
    b = run(os.path.abspath(sys.argv[2]))
    bad = 0
    for name in sorted(set(a) | set(b)):
        if a.get(name) != b.get(name):
            bad += 1
            print('DIFF in case', name)
            print('  base:', json.dumps(a.get(name))[:1500])
            print('  new :', json.dumps(b.get(name))[:1500])
    ncase = len(a)
    nexc = sum(1 for v in a.values() if v[0] == 'exc')
    print('%d cases compared (%d raised at top level), %d differ' % (ncase, nexc, bad))
    sys.exit(1 if bad else 0)


if __name__ == '__main__':
    main()
