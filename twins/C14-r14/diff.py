#!/venv/bin/python
"""Differential check for property C14 (last assignment wins, in the units and
type of the definition).  usage: diff.py <unmodified tree root> <refactored tree root>
Exits 0 iff every observable output is identical for both trees."""
import sys, subprocess, json

CASES = [
    # (label, DIP code)
    ("float_same_unit",      "a float = 1 m\na = 3 m"),
    ("float_other_unit",     "a float = 1 m\na = 250 cm"),
    ("float_no_unit_mod",    "a float = 1 km\na = 7"),
    ("float_typed_mod",      "a float = 1 m\na float = 3 km"),
    ("float_zero",           "a float = 5 m\na = 0 cm"),
    ("float_negative",       "a float = 5 m\na = -20 mm"),
    ("float_none",           "a float = 5 m\na = none"),
    ("float_none_then_val",  "a float = none m\na = 20 cm"),
    ("float_many_mods",      "a float = 1 m\na = 2 cm\na = 3 km\na = 4 mm"),
    ("float_defined_zero",   "a float = 0 m\na = 12 cm"),
    ("int_other_unit",       "n int = 2 km\nn = 3000 m"),
    ("int_zero",             "n int = 2 km\nn = 0 m"),
    ("int_negative",         "n int = 2 s\nn = -3 s"),
    ("int_nounit",           "n int = 2\nn = 9\nn = -1"),
    ("bool_false",           "b bool = true\nb = false"),
    ("bool_true",            "b bool = false\nb = true"),
    ("bool_none",            "b bool = true\nb = none"),
    ("str_mod",              "s str = 'abc'\ns = 'xyz'"),
    ("str_empty",            "s str = 'abc'\ns = ''"),
    ("str_none",             "s str = 'abc'\ns = none"),
    ("decl_then_mod",        "a float m\na = 30 cm"),
    ("decl_int_then_typed",  "n int s\nn int = 2 min"),
    ("decl_no_value",        "a float m"),
    ("decl_no_value_group",  "g\n  a float m\nh int = 2"),
    ("decl_mod_none",        "a float m\na = none"),
    ("dtype_change",         "a float = 1 m\na int = 3 m"),
    ("dtype_change_bool",    "b bool = true\nb str = 'x'"),
    ("dtype_change_str",     "s str = 'x'\ns float = 2"),
    ("dim_mismatch",         "a float = 1 m\na = 3 s"),
    ("dim_mismatch_typed",   "a float = 1 m\na float = 3 kg"),
    ("dim_mismatch_int",     "n int = 1 s\nn = 3 m"),
    ("unit_on_unitless",     "a float = 1\na = 3 m"),
    ("constant_mod",         "a float = 1 m\n  !constant\na = 3 m"),
    ("constant_typed_mod",   "n int = 1\n  !constant\nn int = 3"),
    ("constant_nested",      "g\n  a float = 1 m\n    !constant\ng.a = 2 m"),
    ("constant_other_ok",    "a float = 1 m\n  !constant\nb float = 2 m\nb = 3 cm"),
    ("hier_dotted",          "g\n  a float = 1 m\ng.a = 20 cm"),
    ("hier_nested",          "g\n  h\n    a float = 1 km\ng.h.a = 20 m\ng.h.a = 5"),
    ("hier_regroup",         "g\n  a float = 1 m\n  b int = 2\ng\n  a = 30 cm\n  b = 0"),
    ("hier_typed_regroup",   "g\n  a float = 1 m\ng\n  a float = 3 mm"),
    ("mod_undefined",        "a = 3 m"),
    ("two_nodes",            "a float = 1 m\nb float = 2 s\na = 5 cm\nb = 1 min\na = 7 mm"),
    ("options_after_mod",    "a float = 1 m\n  = 1 m\n  = 2 m\na = 200 cm"),
    ("options_violated",     "a float = 1 m\n  = 1 m\n  = 2 m\na = 300 cm"),
    ("prop_after_mod",       "a float = 1 m\nb float = 2 m\na = 3 m\n  !constant\nb = 4 m\na = 5 m"),
    ("array_mod",            "a float[3] = [1,2,3] m\na = [10,20,30] cm"),
    ("ref_mod",              "a float = 1 m\nb float = 200 cm\na = {?b}"),
    ("ref_mod_dim_mismatch", "a float = 1 m\nb float = 2 s\na = {?b}"),
    ("ref_mod_unit_given",   "a float = 1 m\nb float = 2 s\na = {?b} mm"),
    ("case_mod",             "a float = 1 m\n@case true\n  a = 30 cm\n@else\n  a = 40 cm\n@end"),
]

RUNNER = r'''
import sys, json
sys.path.insert(0, sys.argv[1] + '/src')
import numpy as np
from scinumtools.dip import DIP
cases = json.loads(sys.stdin.read())
out = []
def show(v):
    if isinstance(v, np.ndarray):
        v = v.tolist()
    return repr(v)
for label, code in cases:
    try:
        with DIP(name='dipcase') as p:
            p.add_string(code)
            env = p.parse()
        res = []
        for node in env.nodes:
            val = node.value
            res.append([
                node.name, type(node).__name__, node.keyword, node.units_raw,
                type(val).__name__,
                show(getattr(val, 'value', val)), type(getattr(val, 'value', val)).__name__,
                repr(getattr(val, 'unit', None)),
                bool(node.constant), bool(node.defined), env.nodes.cursor,
            ])
        try:
            data = repr(env.data(verbose=False))
        except Exception as e:
            data = 'data-exc:' + type(e).__name__
        out.append([label, 'ok', res, data])
    except BaseException as e:
        out.append([label, 'exc', type(e).__name__, type(e).__mro__[1].__name__])
print(json.dumps(out))
'''

def run(root):
    p = subprocess.run([sys.executable, '-c', RUNNER, root], input=json.dumps(CASES),
                       capture_output=True, text=True)
    if p.returncode != 0:
        print("runner failed for", root, p.stderr[-2000:])
        sys.exit(2)
    return json.loads(p.stdout.strip().splitlines()[-1])

def main():
    a = run(sys.argv[1]); b = run(sys.argv[2])
    bad = 0
    if len(a) != len(b) or len(a) != len(CASES):
        print("different number of results"); sys.exit(1)
    for ra, rb in zip(a, b):
        if ra != rb:
            bad += 1
            print("DIFF", ra[0], "\n  base:", ra[1:], "\n  new :", rb[1:])
    nexc = sum(1 for r in a if r[1] == 'exc')
    print(f"{len(a)} cases ({nexc} raising, {len(a)-nexc} returning), {bad} differences")
    sys.exit(1 if bad else 0)

if __name__ == '__main__':
    main()
