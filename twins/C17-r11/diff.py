#!/venv/bin/python
"""Differential check for property C17 (references: injection / import).

usage: diff.py <unmodified tree root> <refactored tree root>
Runs the same inputs against both trees (each in its own subprocess with its
own sys.path) and exits 0 iff every observable output is identical.
"""
import sys, subprocess, json

DRIVER = r'''
import sys, os, json, tempfile
root = sys.argv[1]
sys.path.insert(0, os.path.join(root, 'src'))
import numpy as np
from scinumtools.dip import DIP
from scinumtools.dip.settings import Format
from scinumtools.dip.datatypes import Type, NumberType

tmp = tempfile.mkdtemp(prefix='c17diff_')
def wfile(name, text):
    path = os.path.join(tmp, name)
    with open(path, 'w') as f:
        f.write(text)
    return path

REMOTE = wfile('remote.dip', """$unit len = 2 m
energy float = 13 J
count int = 7
flag bool = true
label str = 'abc'
empty float = none J
arr float[3] = [1,2,3] cm
grp
  a int = 1 kg
    !options [1,2,3] kg
  b float = 2.5 m
    !constant
  c str = 'x'
    !tags ["t1"]
  sub
    d float = 4 s
      !condition ("{?} > 1")
""")
NESTED = wfile('nested.dip', "$source inner = %s\nweight float = 3 kg\n" % REMOTE)
MATRIX = wfile('matrix.txt', "[[1,2,3],[4,5,6]]")
TEXT = wfile('text.txt', "hello\nworld\n")

def jval(v):
    if isinstance(v, np.ndarray):
        return ['ndarray', str(v.dtype.kind), v.tolist()]
    if isinstance(v, (np.generic,)):
        return [type(v).__name__, v.item()]
    return [type(v).__name__, v if isinstance(v, (int, float, str, bool, type(None))) else repr(v)]

def dump_nodes(nodes):
    out = []
    for node in nodes:
        val = node.value
        rec = dict(name=node.name, cls=type(node).__name__, keyword=node.keyword,
                   units_raw=node.units_raw, indent=node.indent,
                   constant=bool(getattr(node, 'constant', False)),
                   condition=getattr(node, 'condition', None),
                   tags=getattr(node, 'tags', None),
                   fmt=getattr(node, 'format', None),
                   options=repr(getattr(node, 'options', None)),
                   dimension=repr(node.dimension), defined=node.defined)
        if isinstance(val, Type):
            rec['vtype'] = type(val).__name__
            rec['value'] = jval(val.value)
            rec['unit'] = getattr(val, 'unit', None)
        else:
            rec['vtype'] = type(val).__name__
            rec['value'] = repr(val)
        out.append(rec)
    return out

def dump_env(env):
    return dict(nodes=dump_nodes(env.nodes),
                units=repr(sorted((k, repr(v)) for k, v in env.units.items())) if hasattr(env.units, 'items') else repr(env.units),
                sources=sorted(env.sources.keys()))

NB = [0]
def run(code, base=None, docs=False):
    try:
        if base is not None:
            NB[0] += 1
            p = DIP(env=base, name='T%d' % NB[0])
        else:
            p = DIP(name='D')
        p.add_string(code)
        if docs:
            doc = p.parse_docs()
            return dict(ok=True, docs=dump_nodes(doc.env.nodes) if hasattr(doc, 'env') else repr(type(doc)))
        env = p.parse()
        return dict(ok=True, env=dump_env(env), p=p)
    except Exception as e:
        return dict(ok=False, exc=type(e).__name__, nargs=len(e.args))

CASES = []
def case(name, code, **kw):
    CASES.append((name, code, kw))

SRC = "$source r = %s\n" % REMOTE

case('local_units', """
size1 float = 34 cm
size2 float = {?size1} m
size3 float = {?size2}
size1 = {?size2}
size4 int = {?size3} km
""")
case('local_after_mod', """
a float = 1 m
a = 250 cm
b float = {?a}
b2 float = {?a} cm
a = 3 m
c float = {?a} mm
b = {?c}
""")
case('local_bool_str_int', """
g
  f bool = true
  s str = 'some text'
  i int = 12 kg
h
  f bool = {?g.f}
  s str = {?g.s}
  i int = {?g.i}
  j float = {?g.i} g
g.f = false
k bool = {?g.f}
""")
case('slices', """
sizes float[3] = [34,23.34,1e34] cm
mysize float[2] = {?sizes}[:2]
one float = {?sizes}[1] m
masses float[2,2] = [[34,23.34],[1,1e34]] g
col float[2] = {?masses}[:,1]
cell float = {?masses}[1,0] kg
small float[3] = [5,6,7] cm
tail int[2] = {?small}[1:] m
word str = 'abcdefgh'
""")
case('slice_to_scalar_error', """
sizes float[3] = [34,23.34,1e34] cm
mysize float = {?sizes}[:2]
""")
case('remote_inject', SRC + """
e1 float = {r?energy}
e2 float = {r?energy} erg
e3 int = {r?count}
e4 bool = {r?flag}
e5 str = {r?label}
e6 float = {r?empty}
e7 float[3] = {r?arr}
e8 float = {r?arr}[2] m
e9 float = {r?grp.sub.d} ms
e2 = {r?energy}
e9 = {r?grp.sub.d}
""")
case('remote_unit_mismatch', SRC + """
e1 float = 1 s
e1 = {r?energy}
""")
case('import_all_remote', SRC + """
{r?*}
box
  {r?*}
basket.bag {r?grp.*}
single {r?grp.a}
deep
  deeper
    {r?grp.sub.d}
""")
case('import_local', """
icecream
  waffle str = 'standard'
    !options ["standard","choco"]
  scoops
    strawberry int = 1 kg
      !constant
    chocolate int = 2
      !condition ("{?} < 5")
bowl
  {?icecream.scoops.*}
plate {?icecream.waffle}
all
  {?*}
""")
case('import_constraints_option_violation', SRC + """
box {r?grp.*}
box.a = 5 kg
""")
case('import_constraints_constant_violation', SRC + """
box {r?grp.*}
box.b = 5 m
""")
case('import_constraints_condition_violation', SRC + """
box {r?grp.sub.*}
box.d = 0.5 s
""")
case('import_then_modify_ok', SRC + """
box {r?grp.*}
box.a = 2000 g
box.sub.d = 2 min
x float = {?box.sub.d}
y int = {?box.a}
""")
case('inject_none_selected', """
a int = 1
b int = {?zzz}
""")
case('inject_several_selected', """
g
  a int = 1
  b int = 2
c int = {?g.*}
""")
case('inject_several_remote', SRC + "c float = {r?*}\n")
case('inject_missing_source', "c float = {nosrc?energy}\n")
case('inject_no_local_nodes', "c float = {?energy}\n")
case('import_none_selected_local', """
a int = 1
box {?zzz.*}
""")
case('import_none_selected_remote', SRC + """
a int = 1
box
  {r?nothing}
""")
case('import_missing_source', "box {nosrc?*}\n")
case('block_imports', ("$source m = %s\n$source t = %s\n" % (MATRIX, TEXT)) + """
blocks
  m1 int[2,3] = {m}
  m2 float[2,3] = {m} cm
  m3 int[2] = {m}[1,:2]
  t1 str = {t}
""")
case('source_of_source', ("$source n = %s\n" % NESTED) + """
$source {n?inner}
w float = {n?weight} g
e float = {inner?energy}
all {inner?grp.*}
""")
case('source_of_source_all', ("$source n = %s\n" % NESTED) + """
$source {n?*}
e float = {inner?count}
""")
case('source_missing', ("$source n = %s\n" % NESTED) + "$source {n?nope}\n")
case('unit_import', SRC + """
$unit {r?len}
x float = 3 [len]
y float = {?x} m
""")
case('unit_import_all', SRC + """
$unit {r?*}
x float = 3 [len]
""")
case('source_path_injected', """
file str = '%s'
$source r = {?file}
{r?count}
q int = {r?count}
""" % REMOTE)
case('inject_in_case_and_template', """
sim
  gravity bool = true
  n int = 3
@case ("{?sim.gravity}")
  stars int = {?sim.n}
@else
  stars int = 1
@end
msg str = ("n={{?sim.n}} stars={{?stars}}")
""")
case('autoref_condition', """
a float = 5 m
  !condition ("{?} > 300 cm")
b float = {?a} km
  !condition ("{?} < 10 km")
""")
case('autoref_condition_fail', """
a float = 5 m
b float = {?a} km
  !condition ("{?} > 1")
""")
case('expression_refs', """
a float = 2 m
b float = ("{?a} * 3") cm
c float = {?b} mm
""")
case('docs_mode', SRC + """
a float = 3 m
b float = {?a}
c float = {r?energy}
d float = {nosrc?energy}
grp {r?grp.*}
""", docs=True)
case('docs_mode_missing_import', SRC + """
a float = 3 m
miss {nosrc?*}
box
  {nosrc?a}
  {r?grp.sub.*}
""", docs=True)
case('root_block_import_as_node', SRC + "{r}\n")

results = {}
for name, code, kw in CASES:
    r = run(code, **kw)
    r.pop('p', None)
    results[name] = r

# parsing on top of a previously parsed environment
try:
    p0 = DIP(name='B')
    p0.add_string(SRC + """
$unit foo = 3 m
base
  x float = 10 cm
    !options [10,20] cm
  y int = 4
top float = {r?energy}
""")
    env0 = p0.parse()
    before = dump_env(env0)
    src_before = dump_nodes(env0.sources['r'].nodes)
    outs = []
    for code in ["""
z float = {?base.x} m
base.x = 20 cm
w float = {?base.x}
q float = 2 [foo]
imp {?base.*}
imp.y = 9
rem {r?grp.*}
rem.a = 3 kg
e float = {r?energy} erg
""", """
base.x = 15 cm
""", """
v int = {?nope}
"""]:
        r = run(code, base=env0)
        r.pop('p', None)
        outs.append(r)
    after = dump_env(env0)
    src_after = dump_nodes(env0.sources['r'].nodes)
    results['base_env'] = dict(outs=outs, before=before, after=after,
                               unchanged=(before == after), src_unchanged=(src_before == src_after),
                               src=src_after)
except Exception as e:
    results['base_env'] = dict(ok=False, exc=type(e).__name__)

# direct calls of the request API
try:
    p = DIP(name='R')
    p.add_string(SRC + "g\n  a int = 1 m\n  b int = 2\nh float = 3 s\n")
    env = p.parse()
    req = {}
    def rq(key, *a, **k):
        try:
            out = env.request(*a, **k)
            if isinstance(out, str):
                req[key] = ['str', out]
            elif isinstance(out, dict):
                req[key] = ['dict', sorted(out.keys())]
            else:
                req[key] = [type(out).__name__, dump_nodes(out)]
        except Exception as e:
            req[key] = ['exc', type(e).__name__]
    from scinumtools.dip.settings import Namespace
    rq('all', '?*')
    rq('sub', '?g.*')
    rq('one', '?h', count=1)
    rq('one_bad', '?g.*', count=1)
    rq('list_ok', '?zzz', count=[0,1])
    rq('list_bad', '?g.*', count=[0,1])
    rq('remote', 'r?grp.*')
    rq('remote_count', 'r?energy', count=1)
    rq('remote_tags', 'r?*', tags=['t1'])
    rq('block', 'r')
    rq('nosrc', 'zz?x')
    rq('nosrc_soft', 'zz?x', errsrc=False)
    rq('nosrc_soft_block', 'zz', errsrc=False)
    rq('sources', 'r?*', namespace=Namespace.SOURCES)
    rq('units', 'r?*', namespace=Namespace.UNITS)
    rq('units_one', 'r?len', namespace=Namespace.UNITS)
    env.autoref = 'h'
    rq('autoref', '?')
    env.autoref = None
    rq('noauto', '?')
    results['request_api'] = req
except Exception as e:
    results['request_api'] = dict(ok=False, exc=type(e).__name__, msg=str(e))

print(json.dumps(results, sort_keys=True, default=repr).replace(tmp, '<TMP>'))
'''

def run_tree(root):
    proc = subprocess.run([sys.executable, '-c', DRIVER, root], capture_output=True, text=True, cwd='/tmp')
    if proc.returncode != 0:
        print('driver failed for', root)
        print(proc.stderr[-3000:])
        sys.exit(2)
    # verbose output of the library may precede: last line is the JSON
    return json.loads(proc.stdout.strip().splitlines()[-1])

def main():
    a = run_tree(sys.argv[1])
    b = run_tree(sys.argv[2])
    bad = [k for k in sorted(set(a) | set(b)) if a.get(k) != b.get(k)]
    n_ok = sum(1 for v in a.values() if isinstance(v, dict) and v.get('ok'))
    print('cases: %d (parsed ok in base: %d); differing: %s' % (len(a), n_ok, bad))
    for k in bad:
        print('---', k)
        print(' base:', json.dumps(a.get(k), sort_keys=True)[:1500])
        print(' new :', json.dumps(b.get(k), sort_keys=True)[:1500])
    sys.exit(1 if bad else 0)

if __name__ == '__main__':
    main()
