#!/usr/bin/env python
"""Differential test for NodeList.query / NumberType.convert refactorings.

usage: diff.py <clean tree root> <changed tree root>
Runs the same inputs against both trees (each in its own subprocess with that
tree's src first on sys.path), compares the printed results, exits 0 if equal.
"""
import subprocess
import sys

DRIVER = r'''
import sys, os
root = sys.argv[1]
sys.path.insert(0, os.path.join(root, "src"))
import numpy as np
import scinumtools
assert os.path.abspath(scinumtools.__file__).startswith(os.path.abspath(root)), scinumtools.__file__
from scinumtools.dip import DIP, Format
from scinumtools.dip.settings import Order
from scinumtools.dip.datatypes import NumberType, IntegerType, FloatType
from scinumtools.dip.lists.list_nodes import NodeList

def show(v):
    if isinstance(v, np.ndarray):
        return "ndarray[%s]%s" % (v.dtype, v.tolist())
    return "%s:%r" % (type(v).__name__, v)

def dump_nodes(nodes):
    out = [type(nodes).__name__, len(nodes)]
    for n in nodes:
        val = n.value
        out.append((n.name, type(n).__name__, type(val).__name__,
                    show(getattr(val, "value", None)), getattr(val, "unit", None),
                    n.tags, n.keyword, getattr(n, "units_raw", None),
                    repr(getattr(n, "options", None)), getattr(n, "condition", None),
                    getattr(n, "format", None), n.constant))
    return out

def run(label, fn):
    try:
        res = fn()
    except BaseException as e:
        res = ("EXC", type(e).__name__, [str(a) for a in e.args])
    print(label, "=>", res)

_N = [0]
def parse(code, **kw):
    _N[0] += 1
    kw.setdefault("name", "dip%d" % _N[0])
    with DIP(**kw) as dip:
        dip.add_string(code)
        return dip.parse()

def parsed(code):
    env = parse(code)
    return (dump_nodes(env.nodes), sorted((k, show(v)) for k, v in env.data(format=Format.TUPLE).items()))

BASE = """
box
  width float = 250 mm
    !tags ["geom","size"]
  height float = 2 m
    !tags ["geom"]
    !condition ('{?} > 1 m')
  count int = 7
    !options [3,4,5,7]
  name str = "abcdefgh"
  flag bool = true
  arr float[3] = [1,2,3] km
    !tags ["size"]
mpi
  nodes int = 36
  cores int = 96
    !tags ["geom"]
boxes int = 1
box.count = 3
box.count = 4
"""

# ---- value injections -------------------------------------------------
run("inj-adopt-unit", lambda: parsed(BASE + "a float = {?box.width}\n"))
run("inj-own-unit", lambda: parsed(BASE + "a float = {?box.width} cm\n"))
run("inj-def-unit-convert", lambda: parsed(BASE + "a float = 1 m\na = {?box.width}\n"))
run("inj-def-unit-convert2", lambda: parsed(BASE + "a float = 1 km\na = {?box.height}\nb float = {?a} cm\n"))
run("inj-modified", lambda: parsed(BASE + "a int = {?box.count}\n"))
run("inj-slice-str", lambda: parsed(BASE + "a str = {?box.name}[2:5]\n"))
run("inj-slice-arr", lambda: parsed(BASE + "a float[2] = {?box.arr}[1:]\nb float[2] = {?box.arr}[:2] m\n"))
run("inj-slice-2d", lambda: parsed("m float[2,2] = [[34,23.34],[1,1e34]] cm\nmm float[2] = {?m}[:,1]\nk float[2] = [1,1] m\nk = {?m}[0]\n"))
run("inj-slice-scalar-err", lambda: parsed(BASE + "a float = {?box.arr}[:2]\n"))
run("inj-arr-convert", lambda: parsed(BASE + "a float[3] = [1,1,1] m\na = {?box.arr}\n"))
run("inj-bool", lambda: parsed(BASE + "a bool = {?box.flag}\n"))
run("inj-none", lambda: parsed(BASE + "a float = {?box.nothing}\n"))
run("inj-several", lambda: parsed(BASE + "a float = {?box.*}\n"))
run("inj-all", lambda: parsed(BASE + "a float = {?*}\n"))
run("inj-incompatible", lambda: parsed(BASE + "a float = {?box.width} s\n"))
run("inj-dimensionless", lambda: parsed(BASE + "a float = {?mpi.nodes} m\nb float = 3 m\nb = {?mpi.cores}\n"))
# ---- imports ----------------------------------------------------------
run("imp-children", lambda: parsed(BASE + "copy\n  {?box.*}\n"))
run("imp-single", lambda: parsed(BASE + "copy\n  {?box.height}\n"))
run("imp-all", lambda: parsed(BASE + "copy\n  {?*}\n"))
run("imp-none", lambda: parsed(BASE + "copy\n  {?zzz.*}\n"))
run("imp-none2", lambda: parsed(BASE + "copy\n  {?zzz}\n"))
run("imp-prefix-only", lambda: parsed(BASE + "copy\n  {?box*}\n"))
run("imp-toplevel", lambda: parsed(BASE + "{?mpi.*}\n"))
# ---- remote source / previously parsed environment ---------------------
def remote():
    env0 = parse(BASE)
    before = dump_nodes(env0.nodes)
    with DIP(name="remote") as dip:
        srcfile = os.path.join(os.path.dirname(os.path.abspath(root.rstrip("/"))), "_c17_src.dip")
        open(srcfile, "w").write(BASE)
        dip.add_source("src", srcfile)
        dip.add_string("w float = {src?box.width} cm\nh float = 1 km\nh = {src?box.height}\nsub\n  {src?mpi.*}\none\n  {src?box.arr}\n")
        env1 = dip.parse()
    os.remove(srcfile)
    return (dump_nodes(env1.nodes), before == dump_nodes(env0.nodes))
run("remote-source", remote)
def ontop():
    env0 = parse(BASE)
    before = dump_nodes(env0.nodes)
    with DIP(env0, name="second") as dip:
        dip.add_string("w float = {?box.width} cm\nbox.width = 30 cm\nq float = {?box.width}\n")
        env1 = dip.parse()
    return (dump_nodes(env1.nodes), before == dump_nodes(env0.nodes))
run("on-top", ontop)
# ---- direct NodeList.query -------------------------------------------
ENV = parse(BASE + "copy\n  {?box.*}\n")
for q in ["*", "box.*", "mpi.*", "box.width", "boxes", "box", "box*", ".*", "", "x", "copy.arr", "zzz.*", "bo.*", "box.width.*"]:
    run("query %r" % q, lambda: dump_nodes(ENV.nodes.query(q)))
    run("query %r order" % q, lambda: [type(x).__name__ for x in [ENV.nodes.query(q, order=Order.NAME)]] + dump_nodes(ENV.nodes.query(q, order=Order.NAME))[1:])
    run("query %r order0" % q, lambda: dump_nodes(ENV.nodes.query(q, order=Order.NONE)))
for tags in [["geom"], ["size"], ["nope"], [], None, ["geom", "size"], "geom", ("size",), [["geom"]]]:
    for q in ["*", "box.*", "box.width", "mpi.cores", "boxes"]:
        run("query %r tags=%r" % (q, tags), lambda: dump_nodes(ENV.nodes.query(q, tags)))
        run("query %r tags=%r kw order" % (q, tags), lambda: dump_nodes(ENV.nodes.query(query=q, tags=tags, order=Order.NAME))[1:])
run("query non-str", lambda: dump_nodes(ENV.nodes.query(None)))
run("query int", lambda: dump_nodes(ENV.nodes.query(5)))
run("query empty list", lambda: dump_nodes(NodeList().query("*", tags=["a"], order=1)))
def isolation():
    got = ENV.nodes.query("box.*")
    got[0].name = "changed"; got[0].value.value = -1
    return dump_nodes(ENV.nodes.query("box.*"))
run("query copies", isolation)
run("request", lambda: dump_nodes(ENV.request("?box.*", tags=["geom"])))
run("request count", lambda: dump_nodes(ENV.request("?box.*", count=1)))
run("data query", lambda: sorted(ENV.data(query="box.*", tags=["size"], format=Format.TUPLE).items(), key=str).__repr__())
# ---- direct NumberType.convert ------------------------------------------
def conv(cls, value, unit, to, env=None):
    t = cls(value, unit)
    r = t.convert(to, env) if env is not None else t.convert(to)
    return (r is t, type(r).__name__, show(t.value), t.unit)
CASES = [
    (FloatType, 2.5, "m", "cm"), (FloatType, 2.5, "m", "m"), (FloatType, 2.5, "m", None),
    (FloatType, 2.5, "m", ""), (FloatType, 2.5, None, "cm"), (FloatType, 2.5, "", "cm"),
    (IntegerType, 3, "km", "m"), (IntegerType, 3, "km", "s"), (IntegerType, 3, None, None),
    (FloatType, np.array([1., 2., 3.]), "km", "m"), (IntegerType, np.array([1, 2]), "m", "mm"),
    (FloatType, [1., 2.], "km", "m"), (FloatType, "4.5", "m", "cm"), (FloatType, "x", "m", "cm"),
    (FloatType, None, "m", "cm"), (FloatType, None, "m", "m"), (FloatType, 1.0, "m", "nonsense"),
    (FloatType, 1.0, "Cel", "K"), (FloatType, True, "m", "cm"), (NumberType, 5, "g", "kg"),
]
for i, (cls, v, u, to) in enumerate(CASES):
    run("convert %d %s %r %r->%r" % (i, cls.__name__, v if not isinstance(v, np.ndarray) else v.tolist(), u, to), lambda: conv(cls, v, u, to))
    run("convert-env %d" % i, lambda: conv(cls, v, u, to, ENV))
run("convert kw", lambda: (lambda t: (t.convert(unit="mm", env=None) is t, show(t.value), t.unit))(FloatType(1.5, "m")))
run("convert bad env", lambda: conv(FloatType, 1.0, "m", "cm", object()))
run("convert bad env noop", lambda: conv(FloatType, 1.0, "m", "m", object()))
def custom_units():
    env = parse("$unit len = 5 m\na float = 2 [len]\nb float = 1 m\nb = {?a}\nc float = {?a} cm\n")
    r = dump_nodes(env.nodes)
    t = FloatType(3.0, "[len]")
    t.convert("m", env)
    return (r, show(t.value), t.unit)
run("custom units", custom_units)
run("custom units no env", lambda: conv(FloatType, 3.0, "[len]", "m"))
'''


def run(root):
    p = subprocess.run([sys.executable, "-W", "ignore", "-c", DRIVER, root], capture_output=True, text=True)
    return p.returncode, p.stdout, p.stderr


def main():
    clean, changed = sys.argv[1], sys.argv[2]
    a = run(clean)
    b = run(changed)
    if a[0] != 0 or b[0] != 0:
        print("driver failed", a[0], b[0])
        print(a[2][-2000:])
        print(b[2][-2000:])
        return 1
    la, lb = a[1].splitlines(), b[1].splitlines()
    ok = la == lb and len(la) >= 12
    if not ok:
        for x, y in zip(la, lb):
            if x != y:
                print("DIFF\n  clean  :", x, "\n  changed:", y)
        if len(la) != len(lb):
            print("line count differs", len(la), len(lb))
    print("%d cases compared: %s" % (len(la), "identical" if ok else "DIFFERENT"))
    return 0 if ok else 1


if __name__ == "__main__":
    sys.exit(main())
