#!/venv/bin/python
"""Differential check for property C03 (unit expression == product of table entries).

usage: diff.py <unmodified tree root> <refactored tree root>

Runs the same probe in a subprocess per tree (each with its own sys.path) and
exits 0 iff every observable output (values, units, exception types) is identical.
"""
import json
import subprocess
import sys

PROBE = r'''
import sys, json, warnings
warnings.filterwarnings("ignore")
root = sys.argv[1]
sys.path.insert(0, root + "/src")
import numpy as np
import scinumtools
assert scinumtools.__file__.startswith(root), scinumtools.__file__
from scinumtools.units import Quantity, Unit, Constant, UnitEnvironment
from scinumtools.units.unit_solver import UnitSolver, AtomParser
from scinumtools.units.base_units import BaseUnits, get_unit_base
from scinumtools.units.dimensions import Dimensions
from scinumtools.units.fraction import Fraction
from scinumtools.units.settings import UNIT_STANDARD, UNIT_PREFIXES, QUANTITY_UNITS
from scinumtools.solver import ExpressionSolver, AtomBase

def frac(f):
    return [f.num, f.den]

def call(fn):
    try:
        return ["ok", fn()]
    except BaseException as e:
        return ["raise", type(e).__name__]

def show_atom(a):
    return [repr(float(a.magnitude)), {k: frac(v) for k, v in a.baseunits.items()}, str(a), repr(a)]

def show_bu(b):
    return [repr(float(b.magnitude)), {k: frac(v) for k, v in b.baseunits.items()},
            [frac(getattr(b.dimensions, n)) for n in ['m','g','s','K','C','cd','mol','rad']],
            b.dimensions.nodim, b.units, b.expression, b.nodim, b.nobase, str(b), repr(b),
            repr(b.value()), str(b.dimensions), repr(b.dimensions.value()),
            repr(b.dimensions.value(dtype=dict)), repr(b.dimensions.value(dtype=tuple))]

def show_q(q):
    return [repr(q.magnitude.value), show_bu(q.baseunits), str(q), repr(q), q.units()]

def probe_unit(s):
    out = {}
    out["atomparser"] = call(lambda: show_atom(AtomParser(s)))
    out["solver"] = call(lambda: show_atom(UnitSolver(s)))
    out["baseunits"] = call(lambda: show_bu(BaseUnits(s)))
    out["quantity"] = call(lambda: show_q(Quantity(1, s)))
    def roundtrip():
        q = Quantity(3.5, s)
        text = q.units()
        q2 = Quantity(3.5, text)
        return [text, show_q(q2), q2.units(), bool(q2.baseunits == q.baseunits)]
    out["roundtrip"] = call(roundtrip)
    out["to_si"] = call(lambda: show_q(Quantity(2, s).rebase()))
    return out

units = [
    # plain symbols, prefixes, exponents
    "m", "km", "kg", "g", "ms", "mm2", "cm-3", "s-1", "m1:2", "m-3:2", "km2:3", "kg+2", "m0",
    "dam", "dag2", "mrad", "mol", "mmol", "cd", "K", "mK", "C", "uC",
    # derived units and ambiguous symbol/prefix splits
    "J", "kJ", "eV", "MeV", "Pa", "hPa", "N", "W", "mW", "V", "Ohm", "kOhm", "Hz", "GHz", "T", "mT",
    "min", "h", "day", "yr", "kyr", "pc", "Mpc", "ly", "au", "AU", "Ao", "l", "mL", "dm3", "ha", "har",
    "bar", "mbar", "atm", "cal", "kcal", "Cal", "t", "kt", "u", "Da", "amu", "lb", "oz", "ft", "in", "mi",
    "deg", "'", "''", "p", "pi", "pt", "mil", "Cel", "degF", "degR", "dB", "Np", "erg", "dyn", "G", "Mx",
    # constants
    "[c]", "[c]2", "[h]", "[hbar]", "[k]", "[k_B]", "[e]", "[G]", "[N_0]", "[m_e]", "[m_p]", "[pi]",
    "[eps_0]", "[mu_0]", "[a_0]", "[alpha]", "[R_inf]", "[g]", "k[c]", "[c]-1:2",
    # products / quotients / numbers / parentheses
    "kg*m2/s2", "kg*m2*s-2", "m/s", "m/s2", "m*s-1", "km/h", "J/(mol*K)", "W/(m2*K4)", "N*m", "kg/(m*s2)",
    "(kg*m2)/(s2)", "((m))", "(m/s)/(s)", "m/(s/s)", "1/s", "1/(m*s)", "2*m", "1e3*g", "1.5e-2*km/h",
    "60*s", "m*m", "m/m", "m2/m2", "km/m", "kg/g", "km*m-1", "g*cm-3", "g/cm3", "kg*m-3", "eV/[c]2",
    "[h]*[c]/nm", "[hbar]2/([m_e]*[a_0]2)", "[k_B]*K", "mol/l", "mmol/dm3", "rad/s", "deg/min",
    "erg/(cm2*s)", "1e-7*J/(1e-4*m2*s)", " m ", "kg * m / s2", "m1:2*m1:2", "m1:3*m2:3", "s-1:2/s1:2",
    "J2:3/kg1:3", "(m2)/(m1:2)", "-1*m", "-2.5e3*Pa", "3", "1e3", "0.5", ".5*m", "5.*m",
    # system (quantity) units
    "#SLEN", "#CLEN", "#ALEN", "#SENE", "#CENE2", "#AENE-1", "#SMAS*#SLEN2/#STIM2", "#SPRE", "#XXXX",
    # invalid: unknown symbols, forbidden prefixes, foreign characters
    "xyz", "q", "kq", "foo2", "kau", "mft", "kmin", "kmrad", "krad", "Gly", "kly", "mpc", "mbbl",
    "kkm", "mmm", "mkg", "dak", "xm", "$m", "m$", "?kg", "k g", "k m", "_m", "m_", "%", "m%2",
    "k[c]x", "x[c]", "[c", "c]", "[cc]", "[]", "m**2", "m^2", "m2.5", "m1:0", "m:2", "m1:", "m--2",
    "m+-2", "m1:2:3", "kg*", "*kg", "kg**m", "kg//m", "kg/", "/kg", "(kg", "kg)", "(kg*m", "kg*m)",
    "()", "(", ")", "", " ", "*", "/", "kg*()", "kg,m", "(kg,m)", "m s", "1e", "e3", "1e3e4", "1.2.3",
    "#", "#S", "a#SLEN", "m#SLEN", "Km", "KM", "mM", "Mm", "MM", "µm", "m\n", "\tm", "2m", "2 m",
    "m2m", "kg2m", "m-", "m+", "-m", "+m", "--m", "m*-1", "m/-s", "1/-s", "-(m)", "+(m)",
]

res = {}
for s in units:
    res["U|" + s] = probe_unit(s)

# non-string arguments to the parser entry points
for label, arg in [("None", None), ("int", 3), ("float", 2.5), ("list", ["m"]), ("bytes", b"m")]:
    res["A|" + label] = [call(lambda: show_atom(AtomParser(arg))), call(lambda: show_atom(UnitSolver(arg)))]

# every table symbol on its own, with every prefix, and with a fractional exponent
table = {}
for sym in list(UNIT_STANDARD.keys()):
    table[sym] = call(lambda: show_q(Quantity(1, sym)))
    table[sym + "-2:3"] = call(lambda: show_atom(UnitSolver(sym + "-2:3")))
    for p in list(UNIT_PREFIXES.keys()):
        r = call(lambda: show_q(Quantity(1, p + sym + "2")))
        table[p + "|" + sym] = r if r[0] == "raise" else [r[1][0], r[1][1][0], r[1][1][1], r[1][1][5]]
res["TABLE"] = table
res["QUNITS"] = {k: call(lambda: show_q(Quantity(1, k + "3:2"))) for k in QUANTITY_UNITS}

# get_unit_base / BaseUnits / Dimensions / Fraction helpers fed directly
def show_base(b):
    return [repr(float(b.magnitude)), str(b.dimensions), b.units, b.expression]
gub = {}
for uid, e in [("m", None), ("k:m", None), ("k:g", Fraction(2)), ("m:s", Fraction(-1, 2)), ("J", Fraction(2, 4)),
               ("M:eV", Fraction(3, -6)), ("[c]", Fraction(-2)), ("#SLEN", None), ("#AENE", Fraction(1, 3)),
               ("#XXXX", None), ("q", None), ("x:m", None), ("k:q", None), ("a:b:c", None), ("m", Fraction(0)),
               ("da:g", Fraction(-4, -2)), (":m", None), ("k:", None)]:
    gub[uid + "|" + (str(frac(e)) if e is not None else "None")] = call(lambda: show_base(get_unit_base(uid, e)))
res["GUB"] = gub

bu = {}
for label, arg in [
    ("none", None), ("dict_int", {"k:g": 1, "m": 2, "s": -2}), ("dict_tuple", {"m": (1, 2), "s": (-3, 2)}),
    ("dict_frac", {"m": Fraction(2, 4), "s": Fraction(0)}), ("dict_zero", {"m": 0, "g": (0, 3)}),
    ("dict_float", {"m": 2.0}), ("dict_str", {"m": "2"}), ("dict_bad", {"zz": 1}), ("dict_sys", {"#SENE": (1, 2)}),
    ("list", [1, 1, -2, 0, 0, 0, 0, 0]), ("list_tuple", [(1, 2), 0, (-1, 3), 0, 0, 0, 0, 0]),
    ("array", np.array([0, 1, 0, 0, 0, 0, 0, 2])), ("short_list", [1, 2]), ("dims", Dimensions(m=Fraction(1), s=Fraction(-1, 2))),
    ("int", 5), ("set", {"m"}),
]:
    bu[label] = call(lambda: show_bu(BaseUnits(arg)))
def arith():
    a, b = BaseUnits("kg*m2/s2"), BaseUnits("m1:2*s")
    return [show_bu(a + b), show_bu(a - b), show_bu(a * 2), show_bu(a * (1, 2)), show_bu(a / 2), show_bu(b / 0.5),
            show_bu(a * 0.25), a == b, a == BaseUnits("s-2*m2*kg"), BaseUnits("m") == BaseUnits("km")]
bu["arith"] = call(arith)
bu["copy"] = call(lambda: show_bu(BaseUnits(BaseUnits("km/s"))))
res["BU"] = bu

dm = {}
for label, arg in [("ints", [1, 2, 3, 4, 5, 6, 7, 8]), ("tuples", [(1, 2), (2, 4), (-1, -3), (0, 5), 0, 1, -1, (3, -9)]),
                   ("zeros", [0] * 8), ("floats", [1.0, 2.9, 0, 0, 0, 0, 0, 0]), ("short", [1]), ("long", list(range(10))),
                   ("strs", ["1"] * 8), ("fracs", [Fraction(1)] * 8), ("none", [None] * 8)]:
    def f():
        d = Dimensions.from_list(arg)
        return [str(d), repr(d), d.nodim, repr(d.value()), repr(d.value(dtype=dict)), repr(d.value(dtype=tuple)),
                str(d * 2), str(d / 2), str(-d), str(d + d), str(d - d), (d - d).nodim, d == d, str(d * (1, 3)), str(d * 0.5)]
    dm[label] = call(f)
res["DIM"] = dm

fr = {}
for label, fn in [
    ("str", lambda: [str(Fraction(a, b)) for a, b in [(1, 2), (2, 4), (-2, 4), (2, -4), (-2, -4), (0, 5), (0, -5), (6, 3), (7, 1), (10**6, 10**3), (3, 9)]]),
    ("value", lambda: [repr(Fraction(a, b).value()) for a, b in [(1, 2), (2, 4), (-2, -4), (0, 5), (6, 3), (7, 1), (3, -9)]]),
    ("fvalue", lambda: [repr(Fraction(a, b).value(dtype=float)) for a, b in [(1, 2), (2, 4), (-2, -4), (0, 5), (6, 3), (7, 1), (3, -9)]]),
    ("from_string", lambda: [frac(Fraction.from_string(s)) for s in ["2", "-2", "+2", "1:2", "-3:2", "+3:-2", "0", "0:4", "10:5"]]),
    ("bad_string", lambda: Fraction.from_string("1:2:3")), ("bad_string2", lambda: Fraction.from_string("a")),
    ("bad_string3", lambda: Fraction.from_string(":")), ("bad_string4", lambda: Fraction.from_string("1.5")),
    ("add", lambda: [frac(Fraction(1, 2) + Fraction(1, 3)), frac(Fraction(1, 2) + (1, 3)), frac(Fraction(1, 2) + 2), frac(Fraction(1, 2) - Fraction(1, 3)), frac(Fraction(1, 2) - (1, 3)), frac(Fraction(1, 2) - 2)]),
    ("add_bad", lambda: Fraction(1, 2) + 0.5), ("sub_bad", lambda: Fraction(1, 2) - "1"),
    ("mul", lambda: [frac(Fraction(1, 2) * Fraction(2, 3)), frac(Fraction(1, 2) * (2, 3)), frac(Fraction(1, 2) * 3), frac(Fraction(1, 2) * 3.0), frac(Fraction(1, 2) * 0.25), frac(Fraction(1, 2) / Fraction(2, 3)), frac(Fraction(1, 2) / (2, 3)), frac(Fraction(1, 2) / 3), frac(Fraction(1, 2) / 0.25), frac(-Fraction(1, 2))]),
    ("eq", lambda: [Fraction(1, 2) == Fraction(2, 4), Fraction(1, 2) == Fraction(1, 3), Fraction(0, 2) == Fraction(0, 7)]),
    ("rebase", lambda: [(lambda f: (f.rebase(), frac(f))[1])(Fraction(a, b)) for a, b in [(4, 6), (-4, 6), (4, -6), (-4, -6), (0, -3), (0, 3), (5, 1), (12, 18), (1, 0)]]),
]:
    fr[label] = call(fn)
res["FRAC"] = fr

# custom units via UnitEnvironment (tables are mutable), then the tables must be restored
def env():
    out = []
    with UnitEnvironment({"smoot": {"magnitude": 1.7018, "dimensions": [1, 0, 0, 0, 0, 0, 0, 0], "prefixes": ["k", "m"]},
                          "blip": Quantity(3, "ms")}):
        for s in ["smoot", "ksmoot2", "msmoot/blip", "Msmoot", "kblip", "blip-1:2"]:
            out.append(call(lambda: show_q(Quantity(1, s))))
    out.append(call(lambda: show_q(Quantity(1, "smoot"))))
    return out
res["ENV"] = call(env)

# conversions and arithmetic that depend on the parsed factors
def conv():
    return [repr(Quantity(1, "km/h").to("m/s").value()), repr(Quantity(1, "eV").to("J").value()),
            repr(Quantity(2.5, "kcal/mol").value("kJ/mol")), repr(Quantity(1, "[c]").value("km/s")),
            repr(Quantity(1, "l").value("cm3")), repr(Quantity(9, "m2").to("m1:2*m3:2").value()),
            str(Quantity(1, "kg*m2/s2") * Quantity(2, "s/m")), str(Quantity(1, "m") / Quantity(4, "s2")),
            str(Quantity(4, "m2") ** (1, 2)), str(Quantity(1, "km") + Quantity(1, "m")), str(Unit("kg*m/s2")),
            str(Constant("c")), str(Unit().km), str(Constant().k_B), str(Quantity(1, "m/m")), str(Quantity(1, "km/m")),
            str(Quantity(1, "J").to("#CENE")), str(Quantity(1, "erg").to("#SENE")), str(Quantity(1, "deg").to("rad"))]
res["CONV"] = call(conv)
res["CONV_BAD"] = [call(lambda: str(Quantity(1, "m").to("s"))), call(lambda: str(Quantity(1, "m").to("xyz"))),
                   call(lambda: Quantity(1, "m").value("k m"))]

# the generic expression solver with its default operators and atoms (shared tokenizer)
gen = {}
for e in ["1+2*3", "(1+2)*3", "2**3**2", "-2**2", "10/4/5", "2*(3+(4-1))/3", "1 + -2", "1--2", "1-+2", "+3", "-(3)",
          "sqrt(16)+log10(100)", "logb(8,2)", "pow(2,10)", "exp(0)", "sin(0)+cos(0)+tan(0)", "1<2 && 2<3", "1>2 || !0",
          "1==1", "1!=1", "!1", "!!1", "2<=2", "3>=4", "(1", "1)", "1 2", "logb(8)", "pow(1,2,3)", "abc", "", "1+", "*2",
          "1e3*2", "2*-3", "4/-2", "((2))", "1<2<3"]:
    def g():
        with ExpressionSolver(AtomBase) as es:
            v = es.solve(e)
        return [type(v).__name__, repr(getattr(v, "value", v))]
    gen[e] = call(g)
def reuse():
    with ExpressionSolver(AtomBase) as es:
        a = es.solve("1+1").value
        try:
            es.solve("(1")
        except Exception:
            pass
        b = es.solve("2*3").value
    return [a, b]
gen["reuse"] = call(reuse)
def custom_steps():
    from scinumtools.solver import OperatorAdd, OperatorMul, Otype
    with ExpressionSolver(AtomBase, {"add": OperatorAdd, "mul": OperatorMul},
                          [dict(operators=["add"], otype=Otype.BINARY), dict(operators=["mul"], otype=Otype.BINARY),
                           dict(operators=["nonexistent"], otype=Otype.UNARY), dict(operators=["mul"], otype=Otype.TERNARY)]) as es:
        return es.solve("1+2*3").value
gen["custom_steps"] = call(custom_steps)
res["GENERIC"] = gen

print(json.dumps(res, sort_keys=True, default=repr))
'''


def run(root):
    p = subprocess.run([sys.executable, "-c", PROBE, root.rstrip("/")], capture_output=True, text=True)
    if p.returncode != 0:
        sys.stderr.write("probe failed for %s\n%s\n" % (root, p.stderr[-4000:]))
        sys.exit(2)
    return json.loads(p.stdout)


def walk(a, b, path, out):
    if isinstance(a, dict) and isinstance(b, dict):
        for k in sorted(set(a) | set(b)):
            if k not in a or k not in b:
                out.append((path + [k], a.get(k, "<missing>"), b.get(k, "<missing>")))
            else:
                walk(a[k], b[k], path + [k], out)
    elif a != b:
        out.append((path, a, b))


def main():
    base, new = sys.argv[1], sys.argv[2]
    ra, rb = run(base), run(new)
    diffs = []
    walk(ra, rb, [], diffs)
    n = sum(len(v) if isinstance(v, dict) else 1 for v in ra.values())
    if diffs:
        for path, x, y in diffs[:40]:
            print("DIFF", "/".join(map(str, path)), "\n   base:", json.dumps(x)[:300], "\n   new: ", json.dumps(y)[:300])
        print("%d differences over %d probe groups" % (len(diffs), n))
        sys.exit(1)
    print("identical: %d probe entries" % n)
    sys.exit(0)


if __name__ == "__main__":
    main()
