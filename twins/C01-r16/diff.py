#!/venv/bin/python
"""Differential check for property C01 (expression solver step table).

usage: diff.py <unmodified tree root> <refactored tree root>
Runs the same inputs against both trees (each in its own subprocess with its
own sys.path) and exits 0 iff every observable output is identical.
"""
import json
import subprocess
import sys

WORKER = r'''
import sys, json, random, warnings
warnings.filterwarnings("ignore")
sys.path.insert(0, sys.argv[1] + "/src")
import numpy as np
np.seterr(all="ignore")
from scinumtools.solver import ExpressionSolver, AtomBase
from scinumtools.solver import *

FIXED = [
    "1", " 42 ", "1+2", "1 + 2", "2*3+4", "2+3*4", "2 + 3 * 4", "2**3**2", "2 ** 3 ** 2",
    "-2**2", "- 2 ** 2", "2**-2", "2*-3", "2--3", "2-+3", "2+-+-3", "+4", "-4", "--4", "-+-4",
    "(1+2)*3", "((1+2))*(3-4)", "( 1 + 2 ) * ( 3 - 4 )", "8/4/2", "8 / 4 / 2", "8-4-2", "2*3/4*5",
    "exp(1)", "log(10)", "log10(1000)", "sqrt(16)", "sin(0.5)", "cos(0.5)", "tan(0.5)",
    "logb(8,2)", "logb( 8 , 2 )", "pow(2,10)", "pow(2, 3)**2", "sqrt(pow(3,2)+pow(4,2))",
    "exp(log(5))*2-1", "-exp(2)", "2*-sqrt(4)", "-(1+2)", "-(-(3))", "3*(-2)",
    "1<2", "1 < 2", "2<=2", "3>=4", "3>4", "1==1", "1!=1", "1 != 2", "1+1==2", "2*3>5&&1<2",
    "!1", "!0", "!!1", "! ! 0", "!1==0", "!(1==0)", "1&&0", "1||0", "0||0&&1", "1||0&&0",
    "1 && 0 || 1", "(1||0)&&0", "!0&&!0", "1<2&&2<3||0", "1<2 == 1", "2>1>0",
    "sin(3.14159/2)**2+cos(3.14159/2)**2", "1.5e3+2", "2.5*4", "0.1+0.2", "10/4", "7-10",
    "log10(100)*logb(9,3)", "pow(2,pow(2,2))", "((((1))))", "(1)+(2)", "exp(0)==1",
    # ill-formed
    "", " ", "(", ")", "(1+2", "1+2)", "((1+2)", "(1+2))", "sqrt(4", "sqrt 4)", "pow(2)", "pow(2,3,4)",
    "logb(8)", "sqrt(1,2)", "sqrt()", "()", "1+", "+", "*2", "2*", "2**", "1/", "1<", "<1", "1&&", "&&1",
    "1||", "||", "!", "1!", "1 2", "1 + + ", "2 * * 3", "2 */ 3", "1 == ", "1 = 1", "abc", "1+a",
    "sin()", "exp(,)", "pow(,2)", "pow(2,)", "1(2)", "(1)(2)", "2 3 +", "1 ! 2", "1/0", "log(0)", "sqrt(-1)",
    "(-1)**0.5", "0**-1", "1e400*10", "!(", "-(", "1,2", "pow(1,2", "pow(1,(2)", "pow((1,2))",
]


def gen(rng, depth):
    """Stratified grammar of the default operator table."""
    def sp():
        return rng.choice(["", "", " ", "  "])

    def number():
        return rng.choice(["1", "2", "3", "4", "5", "7", "0.5", "1.5", "2.25", "10", "1", "2", "3", "0"])

    def primary(d):
        r = rng.random()
        if d <= 0 or r < 0.45:
            return number()
        if r < 0.70:
            return "(" + sp() + disj(d - 1) + sp() + ")"
        if r < 0.90:
            f = rng.choice(["exp", "log", "log10", "sqrt", "sin", "cos", "tan"])
            return f + "(" + sp() + additive(d - 1) + sp() + ")"
        f = rng.choice(["logb", "pow"])
        return f + "(" + sp() + additive(d - 1) + sp() + "," + sp() + additive(d - 1) + sp() + ")"

    def unary(d):
        s = primary(d)
        for _ in range(rng.choice([0, 0, 0, 0, 1, 1, 2])):
            s = rng.choice(["+", "-"]) + sp() + s
        return s

    def chain(sub, ops, d, maxn):
        s = sub(d)
        for _ in range(rng.choice([0, 0] + list(range(maxn + 1)))):
            s = s + sp() + rng.choice(ops) + sp() + sub(d)
        return s

    def power(d):
        return chain(unary, ["**"], d, 1)

    def mult(d):
        return chain(power, ["*", "/"], d, 2)

    def additive(d):
        return chain(mult, ["+", "-"], d, 2)

    def comp(d):
        return chain(additive, ["==", "!=", "<=", ">=", "<", ">"], d, 1)

    def neg(d):
        s = comp(d)
        for _ in range(rng.choice([0, 0, 0, 0, 0, 1, 2])):
            s = "!" + sp() + s
        return s

    def conj(d):
        return chain(neg, ["&&"], d, 1)

    def disj(d):
        return chain(conj, ["||"], d, 1)

    return disj(depth)


def mutate(rng, s):
    """Single-edit ill-formed variant."""
    if not s:
        return "("
    i = rng.randrange(len(s))
    kind = rng.randrange(4)
    if kind == 0:      # delete one character
        return s[:i] + s[i + 1:]
    if kind == 1:      # insert an operator / bracket / comma
        return s[:i] + rng.choice(["(", ")", ",", "*", "+", "&&", "!", "<", "**", "/"]) + s[i:]
    if kind == 2:      # truncate
        return s[:i]
    return s[i:]       # drop prefix


def observe(expr):
    try:
        with ExpressionSolver(AtomBase) as es:
            res = es.solve(expr)
        val = getattr(res, "value", res)
        return ["ok", type(res).__name__, type(val).__name__, repr(val)]
    except BaseException as e:      # noqa
        return ["raise", type(e).__name__]


def main():
    rng = random.Random(20240601)
    inputs = list(FIXED)
    for depth in (0, 1, 2, 3, 4):
        for _ in range(120):
            inputs.append(gen(rng, depth))
    wf = list(inputs[len(FIXED):])
    for s in wf[::2]:
        inputs.append(mutate(rng, s))
    out = [[e, observe(e)] for e in inputs]

    # the same solver instance reused for several expressions
    reuse = []
    with ExpressionSolver(AtomBase) as es:
        for e in ["1+2", "(3", "2*3", "pow(1)", "4-1", "1+", "!0"]:
            try:
                reuse.append(["ok", repr(es.solve(e).value)])
            except BaseException as ex:   # noqa
                reuse.append(["raise", type(ex).__name__])
    out.append(["<reuse>", reuse])

    # a reduced operator table / custom steps (only the public constructor arguments)
    custom = []
    ops = {"par": OperatorPar, "mul": OperatorMul, "truediv": OperatorTruediv, "add": OperatorAdd}
    steps = [
        dict(operators=["par"], otype=Otype.ARGS),
        dict(operators=["mul", "truediv"], otype=Otype.BINARY),
        dict(operators=["add"], otype=Otype.BINARY),
    ]
    for e in ["2*3", "2*(3+4)", "8/2/2", "1+2*3", "2*(3", "2**3", "2-1", "sqrt(4)"]:
        try:
            with ExpressionSolver(AtomBase, ops, steps) as es:
                custom.append(["ok", repr(es.solve(e).value)])
        except BaseException as ex:   # noqa
            custom.append(["raise", type(ex).__name__])
    out.append(["<custom>", custom])

    # other consumers of the solver in the library
    other = []
    try:
        from scinumtools.units import Quantity, Unit
        for u in ["kg*m2/s2", "m/s", "km/(h*s)", "J/(kg*K)", "N*m", "cm3", "(m/s)2", "kg*(m", "m//s"]:
            try:
                q = Quantity(2.0, u)
                other.append(["ok", str(q), str(q.value()), str(q.units())])
            except BaseException as ex:   # noqa
                other.append(["raise", type(ex).__name__])
    except BaseException as ex:           # noqa
        other.append(["import-raise", type(ex).__name__])
    out.append(["<units>", other])

    # the token buffer driven directly, including an operation type without a handler
    direct = []
    from scinumtools.solver.tokens import Tokens
    for otype in (Otype.UNARY, Otype.BINARY, Otype.ARGS, Otype.TERNARY):
        for sel in ((OperatorAdd,), (OperatorSub, OperatorAdd), (OperatorMul,), (OperatorNot,)):
            t = Tokens(AtomBase)
            for tok in (AtomBase(2.0), OperatorMul(), OperatorSub(), AtomBase(3.0), OperatorAdd(), OperatorNot(), AtomBase(0.0)):
                t.append(tok)
            try:
                t.operate(sel, otype)
                direct.append(["ok", repr(t.left), repr(t.right)])
            except BaseException as ex:   # noqa
                direct.append(["raise", type(ex).__name__, repr(t.left), repr(t.right)])
    out.append(["<tokens>", direct])

    # parenthesis operators constructed directly on an Expression (incl. a subclass with other symbols)
    from scinumtools.solver.expression import Expression

    class AnglePar(OperatorPar):
        symbol = '<'
        symbol_open = '<'
        symbol_close = '>'

    class SemiPow(OperatorPowb):
        symbol_separator = ';'

    par = []
    cases = [
        (OperatorPar, "(1+2)*3"), (OperatorPar, "((1),(2))+1"), (OperatorPar, "(1,2)"), (OperatorPar, "(1"),
        (OperatorPar, "()"), (OperatorPar, "( (a) b ) c"), (OperatorPowb, "pow(1,2)x"), (OperatorPowb, "pow((1,2),3)"),
        (OperatorPowb, "pow(1)"), (OperatorPowb, "pow(1,2,3)"), (OperatorPowb, "pow(1,(2)"), (OperatorLogb, "logb( 8 , 2 ) "),
        (OperatorSqrt, "sqrt(pow(3,2))"), (OperatorSqrt, "sqrt(3,2)"), (OperatorSqrt, "sqrt(,)"), (OperatorSqrt, "sqrt("),
        (AnglePar, "<a<b>c>d"), (AnglePar, "<a,b>"), (AnglePar, "<a(b>c)"), (AnglePar, "<<a>"),
        (SemiPow, "pow(1;2)"), (SemiPow, "pow(1,2)"), (SemiPow, "pow((1;2);3) rest"),
    ]
    for cls, text in cases:
        e = Expression(text)
        try:
            op = cls(e)
            par.append(["ok", [repr(a) + "|" + a.expr for a in op.args], e.left, e.right, e.expr])
        except BaseException as ex:   # noqa
            par.append(["raise", type(ex).__name__, e.left, e.right, e.expr])
    out.append(["<par>", par])

    # materials use a parenthesis operator with '<' and '>'
    mats = []
    try:
        from scinumtools.materials import Substance, Material
        for m in ["H2O", "<H2O>2", "C<OH>2", "Ca<OH>2", "<H2<O>", "H2>O"]:
            try:
                sb = Substance(m)
                mats.append(["ok", str(sb.data_components().to_text())])
            except BaseException as ex:   # noqa
                mats.append(["raise", type(ex).__name__])
    except BaseException as ex:           # noqa
        mats.append(["import-raise", type(ex).__name__])
    out.append(["<materials>", mats])

    json.dump(out, sys.stdout)


main()
'''


def run(root):
    p = subprocess.run([sys.executable, "-c", WORKER, root], capture_output=True, text=True, timeout=600)
    if p.returncode != 0:
        print("worker failed for", root, "\n", p.stderr[-3000:])
        sys.exit(2)
    return json.loads(p.stdout)


def main():
    a = run(sys.argv[1])
    b = run(sys.argv[2])
    bad = 0
    if len(a) != len(b):
        print("different number of observations", len(a), len(b))
        bad += 1
    for x, y in zip(a, b):
        if x != y:
            bad += 1
            if bad < 20:
                print("DIFF", x, "!=", y)
    nok = sum(1 for x in a if isinstance(x[1], list) and x[1] and x[1][0] == "ok")
    nraise = sum(1 for x in a if isinstance(x[1], list) and x[1] and x[1][0] == "raise")
    print("inputs:", len(a), "values:", nok, "rejected:", nraise, "differences:", bad)
    sys.exit(1 if bad else 0)


main()
