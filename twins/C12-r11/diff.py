#!/venv/bin/python
"""Differential check for property C12 (densities, volume and masses of matter).

usage: diff.py <unmodified tree root> <refactored tree root>

Every tree is exercised in its own subprocess (own sys.path = <root>/src); the
observable outputs (values, units, printed text, raised exception types) are
serialised to JSON and compared.  Exit code 0 iff they are identical.
"""
import sys
import os
import json
import subprocess


def describe(obj):
    """Turn an observable into something JSON serialisable and exact."""
    import numpy as np
    from scinumtools.units import Quantity
    if obj is None:
        return None
    if isinstance(obj, Quantity):
        mag = obj.magnitude
        if isinstance(mag, (int, float, np.floating, np.integer)):
            mag = repr(float(mag))
        elif isinstance(mag, np.ndarray):
            mag = [repr(float(v)) for v in mag.ravel()]
        else:
            mag = "%s:%r:%r" % (type(mag).__name__, getattr(mag, 'value', None), getattr(mag, 'error', None))
        return {"Q": mag, "u": obj.units(), "s": str(obj)}
    if isinstance(obj, (bool, str)):
        return obj
    if isinstance(obj, (int, float, np.floating, np.integer)):
        return repr(float(obj))
    if isinstance(obj, (list, tuple)):
        return [describe(o) for o in obj]
    if isinstance(obj, dict):
        return {str(k): describe(v) for k, v in obj.items()}
    return "%s:%s" % (type(obj).__name__, obj)


def table(pt):
    if pt is None:
        return None
    out = {}
    for key in pt.keys():
        row = pt[key]
        out[key] = {col: describe(row[col]) for col in row.keys()} if hasattr(row, 'keys') else describe(row)
    return out


def observe(make, after=None, components=None, printing=False):
    """Build a piece of matter and collect everything C12 talks about."""
    import io
    import contextlib
    out = {}
    try:
        obj, inputs = make()
        if after:
            after(obj)
        out["inputs_after"] = describe(inputs)      # inputs are converted in place
        out["rho"] = describe(obj.mass_density)
        out["n"] = describe(obj.number_density)
        out["V"] = describe(obj.volume)
        out["M"] = describe(getattr(obj, 'mass', None)) if obj.volume is not None else "no-volume"
        out["given"] = describe(obj.number_density_given)
        out["composite_mass"] = describe(obj.composite_mass)
        out["cols_matter"] = describe(obj.cols_matter)
        for quantity in (True, False):
            tag = "data_q" if quantity else "data_s"
            try:
                out[tag] = table(obj.data_matter(quantity=quantity))
            except Exception as e:
                out[tag] = "EXC:" + type(e).__name__
            if components:
                try:
                    out[tag + "_sel"] = table(obj.data_matter(components=components, quantity=quantity))
                except Exception as e:
                    out[tag + "_sel"] = "EXC:" + type(e).__name__
        try:
            out["composite"] = table(obj.data_composite(quantity=False))
            out["components"] = table(obj.data_components(quantity=False))
            out["composite_q"] = table(obj.data_composite(quantity=True))
            out["components_q"] = table(obj.data_components(quantity=True))
        except Exception as e:
            out["composite"] = "EXC:" + type(e).__name__
        if printing:
            buf = io.StringIO()
            try:
                with contextlib.redirect_stdout(buf):
                    obj.print()
                    obj.print_matter()
                out["print"] = buf.getvalue()
            except Exception as e:
                out["print"] = "EXC:" + type(e).__name__ + "|" + buf.getvalue()
    except Exception as e:
        out["EXC"] = type(e).__name__
    return out


def worker(root):
    import warnings
    warnings.simplefilter("ignore")
    sys.path.insert(0, os.path.join(root, "src"))
    from scinumtools.units import Quantity as Q
    from scinumtools.materials import Element, Substance, Material, Norm

    def mk(cls, expr, n=None, rho=None, V=None, **kw):
        def make():
            inputs = {}
            args = dict(kw)
            if n is not None:
                inputs["n"] = args["number_density"] = Q(*n)
            if rho is not None:
                inputs["rho"] = args["mass_density"] = Q(*rho)
            if V is not None:
                inputs["V"] = args["volume"] = Q(*V)
            return cls(expr, **args), inputs
        return make

    def add_O(obj):
        obj.add('O', 2)

    def add_salt(obj):
        obj.add('NaCl', 0.5)

    def drop(*cols):
        def after(obj):
            for col in cols:
                del obj.cols_matter[col]
        return after

    cases = {
        # customised column tables (columns are pruned by what is known)
        "cols_noM":      (mk(Substance, 'H2O', rho=(997, 'kg/m3')), drop('M'), None, False),
        "cols_noN":      (mk(Substance, 'H2O', rho=(997, 'kg/m3')), drop('N'), None, False),
        "cols_noN_V":    (mk(Substance, 'H2O', rho=(997, 'kg/m3'), V=(1, 'l')), drop('N'), ['H'], False),
        "cols_non":      (mk(Substance, 'H2O'), drop('n'), None, False),
        "cols_norho":    (mk(Element, 'B'), drop('rho', 'N'), None, False),
        "cols_norho_n":  (mk(Material, '1 <H2O> 2 <CO2>', n=(1e20, 'cm-3'), V=(1, 'l')), drop('rho', 'M'), None, False),
        # elements
        "el_rho":        (mk(Element, 'B', rho=(997, 'kg/m3')), None, None, True),
        "el_rho_V":      (mk(Element, 'B', rho=(997, 'kg/m3'), V=(1, 'l')), None, None, True),
        "el_n_V":        (mk(Element, 'O{16}', n=(2.5e28, 'm-3'), V=(3, 'cm3')), None, None, True),
        "el_n_prop":     (mk(Element, 'Fe', n=(8.4e22, 'cm-3'), V=(0.2, 'm3'), proportion=3), None, None, False),
        "el_nucleon":    (mk(Element, '[p]', rho=(1e-3, 'g/cm3'), V=(2, 'dm3')), None, None, True),
        "el_ion":        (mk(Element, 'He{4+2}', n=(1e10, 'mm-3')), None, None, False),
        "el_plain":      (mk(Element, 'C'), None, None, True),
        "el_V_only":     (mk(Element, 'C', V=(1, 'l')), None, None, False),
        "el_both":       (mk(Element, 'Cu', n=(1e22, 'cm-3'), rho=(8.96, 'g/cm3'), V=(10, 'ml')), None, None, True),
        "el_abundant":   (mk(Element, 'Cl', rho=(3.2, 'kg/m3'), V=(1, 'm3'), natural=False), None, None, False),
        # substances
        "sub_rho":       (mk(Substance, 'B{11}N{14}H{1}6', rho=(780, 'kg/m3')), None, ['H{1}'], True),
        "sub_n":         (mk(Substance, 'B{11}N{14}H{1}6', n=(1.5123538e+22, 'cm-3')), None, ['B{11}', 'N{14}'], False),
        "sub_rho_V":     (mk(Substance, 'H2O', rho=(997, 'kg/m3'), V=(1, 'l'), natural=False), None, ['O'], True),
        "sub_rho_units": (mk(Substance, 'H2O', rho=(0.997, 'g/cm3'), V=(1000, 'cm3'), natural=False), None, ['O'], False),
        "sub_rho_units2": (mk(Substance, 'H2O', rho=(0.997e-3, 'kg/cm3'), V=(1e-3, 'm3'), natural=False), None, None, False),
        "sub_n_V":       (mk(Substance, 'C6H12O6', n=(5.1e27, 'm-3'), V=(250, 'ml')), None, ['C', 'H'], True),
        "sub_n_V_units": (mk(Substance, 'C6H12O6', n=(5.1e21, 'cm-3'), V=(0.25, 'l')), None, ['C', 'H'], False),
        "sub_add_rho":   (mk(Substance, 'C', rho=(1.98, 'kg/m3'), V=(2, 'l')), add_O, None, True),
        "sub_add_n":     (mk(Substance, 'C', n=(2.7e19, 'cm-3'), V=(2, 'l')), add_O, None, True),
        "sub_both":      (mk(Substance, 'NaCl', n=(2e22, 'cm-3'), rho=(2.16, 'g/cm3'), V=(1, 'cm3')), None, None, True),
        "sub_dict":      (mk(Substance, {'H': 2, 'S': 1, 'O': 4}, rho=(1.83, 'g/cm3'), V=(5, 'dl')), None, ['S'], False),
        "sub_plain":     (mk(Substance, 'H2O'), None, None, True),
        "sub_V_only":    (mk(Substance, 'H2O', V=(1, 'l')), None, None, False),
        "sub_empty":     (mk(Substance, '', rho=(1, 'g/cm3')), None, None, False),
        # materials
        "mat_rho":       (mk(Material, '0.2 <H2O> 0.3 <NaCl>', rho=(0.3, 'g/cm3')), None, ['H2O'], True),
        "mat_rho_V":     (mk(Material, '0.2 <H2O> 0.3 <NaCl>', rho=(300, 'kg/m3'), V=(1, 'l')), None, ['NaCl'], True),
        "mat_n_V":       (mk(Material, '0.2 <H2O> 0.3 <NaCl>', n=(8.5e27, 'm-3'), V=(1000, 'cm3')), None, ['NaCl'], True),
        "mat_massfrac":  (mk(Material, '0.7 <N2> 0.3 <O2>', rho=(1.2, 'kg/m3'), V=(2, 'm3'), norm_type=Norm.MASS_FRACTION), None, ['O2'], True),
        "mat_massfrac_n": (mk(Material, '0.7 <N2> 0.3 <O2>', n=(2.5e19, 'cm-3'), V=(2e6, 'cm3'), norm_type=Norm.MASS_FRACTION), None, ['N2'], False),
        "mat_dict_add":  (mk(Material, {'H2O': 0.5, 'C2H6O': 0.5}, rho=(0.9, 'g/cm3'), V=(0.75, 'l')), add_salt, ['NaCl'], True),
        "mat_n_add":     (mk(Material, {'H2O': 0.5, 'C2H6O': 0.5}, n=(1e22, 'cm-3')), add_salt, None, False),
        "mat_plain":     (mk(Material, '0.2 <H2O> 0.3 <NaCl>'), None, None, True),
        # wrong units -> exceptions
        "bad_rho_unit":  (mk(Substance, 'H2O', rho=(997, 'kg')), None, None, False),
        "bad_n_unit":    (mk(Substance, 'H2O', n=(1e22, 'g/cm3')), None, None, False),
        "bad_V_unit":    (mk(Material, '1 <H2O>', rho=(1, 'g/cm3'), V=(1, 's')), None, None, False),
        "bad_el_unit":   (mk(Element, 'B', n=(1, 'kg/m3'), V=(1, 'l')), None, None, False),
        "bad_el_V":      (mk(Element, 'B', rho=(1, 'kg/m3'), V=(1, 'm2')), None, None, False),
        "bad_number":    (mk(Substance, 'H2O', rho=1.0), None, None, False),
        "bad_expr":      (mk(Element, '??', rho=(1, 'kg/m3')), None, None, False),
    }
    results = {}
    for name, (make, after, comps, printing) in cases.items():
        results[name] = observe(make, after, comps, printing)
    sys.stdout.write(json.dumps(results, sort_keys=True, indent=1))


def run(root):
    proc = subprocess.run(
        [sys.executable, os.path.abspath(__file__), "--worker", root],
        capture_output=True, text=True, cwd="/tmp",
        env={k: v for k, v in os.environ.items() if k != "PYTHONPATH"},
    )
    if proc.returncode != 0:
        sys.stderr.write(proc.stderr)
        raise SystemExit(2)
    return json.loads(proc.stdout)


def main():
    if len(sys.argv) == 3 and sys.argv[1] == "--worker":
        worker(sys.argv[2])
        return 0
    base, new = run(sys.argv[1]), run(sys.argv[2])
    bad = 0
    for name in sorted(set(base) | set(new)):
        if base.get(name) != new.get(name):
            bad += 1
            print("DIFFERENT:", name)
            b, n = base.get(name) or {}, new.get(name) or {}
            for k in sorted(set(b) | set(n)):
                if b.get(k) != n.get(k):
                    print("   ", k, "\n      base:", b.get(k), "\n      new :", n.get(k))
    ok_exc = sum(1 for v in base.values() if "EXC" in v)
    print("%d cases compared (%d raising), %d different" % (len(base), ok_exc, bad))
    return 1 if bad else 0


if __name__ == "__main__":
    sys.exit(main())
