#!/venv/bin/python
"""Differential check for property C07 (operations never alter their operands).

usage: diff.py <unmodified tree root> <refactored tree root>

Runs the same probe (a list of varied operations on quantities) against each
tree in its own subprocess (each with its own sys.path) and exits 0 iff every
observable output (values, units, uncertainties, raised exception types) is
identical in both trees.
"""
import json
import subprocess
import sys

PROBE = r'''
import sys, json, warnings
warnings.filterwarnings("ignore")
sys.path.insert(0, sys.argv[1] + "/src")
import numpy as np
from decimal import Decimal
from scinumtools.units import Quantity, Unit
from scinumtools.units.magnitude import Magnitude
from scinumtools.units.base_units import BaseUnits
from scinumtools.units.fraction import Fraction

def val(v):
    if v is None:
        return None
    if isinstance(v, np.ndarray):
        return ["nd", [repr(float(x)) for x in v.ravel()], list(v.shape)]
    if isinstance(v, Decimal):
        return ["dec", str(v)]
    if isinstance(v, (bool, np.bool_)):
        return ["bool", bool(v)]
    if isinstance(v, Magnitude):
        return ["mag", val(v.value), val(v.error)]
    try:
        return [type(v).__name__, repr(float(v))]
    except Exception:
        return ["obj", repr(v)]

def snap(q):
    if isinstance(q, Quantity):
        return {"v": val(q.magnitude.value), "e": val(q.magnitude.error),
                "u": q.units(), "b": {k: str(x) for k, x in q.baseunits.baseunits.items()},
                "s": guard(lambda: str(q))}
    if isinstance(q, BaseUnits):
        return {"b": {k: str(x) for k, x in q.baseunits.items()}, "x": q.expression,
                "m": val(q.magnitude)}
    return val(q)

def guard(fn):
    try:
        return fn()
    except Exception as e:
        return ["EXC", type(e).__name__]

def mk(spec):
    v, u, kw = spec
    if isinstance(v, list):
        v = np.array(v, dtype=float) if kw.pop("_nd", False) else list(v)
    if isinstance(v, str):
        v = Decimal(v)
    return Quantity(v, u, **kw)

OPS = {
    "add": lambda a, b: a + b,
    "sub": lambda a, b: a - b,
    "mul": lambda a, b: a * b,
    "div": lambda a, b: a / b,
    "eq":  lambda a, b: a == b,
    "radd": lambda a, b: 2 + a,
    "rmul": lambda a, b: 3 * a,
    "rdiv": lambda a, b: 3 / a,
    "rsub": lambda a, b: 3 - a,
    "neg": lambda a, b: -a,
    "pow2": lambda a, b: a ** 2,
    "powt": lambda a, b: a ** (1, 2),
    "powf": lambda a, b: a ** Fraction(3, 2),
    "powh": lambda a, b: a ** 0.5,
    "sqrt": lambda a, b: np.sqrt(a),
    "cbrt": lambda a, b: np.cbrt(a),
    "nppow": lambda a, b: np.power(a, 3),
    "abs": lambda a, b: np.abs(a),
    "floor": lambda a, b: np.floor(a),
    "sum": lambda a, b: np.sum(a),
    "sin": lambda a, b: np.sin(a),
    "linspace": lambda a, b: np.linspace(a, b, 4),
    "value_in": lambda a, b: a.value(b.units()),
    "value_self": lambda a, b: b.value(a.units()),
}

PAIRS = [
    # same unit
    ((3.0, "m", {}), (4.0, "m", {}), ["km", "cm"], ["mm"]),
    # different unit, same dimension
    ((2.0, "km", {}), (30.0, "cm", {}), ["m", "mm"], ["m"]),
    # with uncertainties
    ((30.0, "cm", {"abse": 0.3}), (2.0, "m", {"rele": 10}), ["m", "mm"], ["cm"]),
    ((30.0, "cm", {"abse": 0.3}), (2.0, "m", {}), ["m"], ["km"]),
    ((30.0, "cm", {}), (2.0, "m", {"abse": 0.01}), ["m"], ["km"]),
    # compound units
    ((5.0, "kg*m2/s2", {"abse": 0.5}), (2.0, "J", {"abse": 0.1}), ["J", "erg"], ["erg"]),
    ((9.0, "m2", {"rele": 5}), (4.0, "cm2", {}), ["cm2"], ["m2"]),
    # arrays
    (([1.0, 2.0, 3.0], "m", {}), ([10.0, 20.0, 30.0], "cm", {}), ["cm"], ["mm"]),
    (([1.0, 2.0, 3.0], "m", {"abse": 0.1, "_nd": True}), (2.0, "km", {}), ["cm"], ["m"]),
    (([4.0, 9.0], "s", {"_nd": True}), ([2.0, 3.0], "ms", {"abse": 0.5}), ["ms"], ["s"]),
    # Decimal magnitudes
    (("1.25", "m", {}), ("2.5", "m", {}), ["cm"], ["km"]),
    (("1.25", "m", {}), (4.0, "cm", {}), ["cm"], ["m"]),
    # logarithmic units
    ((20.0, "dBm", {}), (10.0, "dBm", {}), ["dBW", "W"], ["dBmW"]),
    ((3.0, "dBV", {"abse": 0.1}), (6.0, "dBV", {}), ["dBuV"], ["V"]),
    ((1.0, "Np", {}), (2.0, "B", {}), ["dB"], ["Np"]),
    # temperatures
    ((300.0, "K", {}), (20.0, "Cel", {}), ["Cel", "degF"], ["K"]),
    # angles / dimensionless
    ((90.0, "deg", {}), (1.0, "rad", {}), ["rad"], ["deg"]),
    ((5.0, None, {}), (2.0, "%", {}), ["%"], [None]),
    # incompatible dimensions
    ((1.0, "m", {}), (1.0, "s", {}), ["km"], ["ms"]),
    ((1.0, "m", {}), (2.0, "1/m", {}), ["cm"], ["1/cm"]),
]

out = []
for ia, (sa, sb, ua, ub) in enumerate(PAIRS):
    for name, op in OPS.items():
        rec = {"pair": ia, "op": name}
        a = guard(lambda: mk((sa[0], sa[1], dict(sa[2]))))
        b = guard(lambda: mk((sb[0], sb[1], dict(sb[2]))))
        if not (isinstance(a, Quantity) and isinstance(b, Quantity)):
            rec["ctor"] = [snap(a), snap(b)]
            out.append(rec)
            continue
        rec["before"] = [snap(a), snap(b)]
        r = guard(lambda: op(a, b))
        rec["result"] = snap(r)
        rec["after_op"] = [snap(a), snap(b)]
        # converting the result in place must not change operands
        if isinstance(r, Quantity):
            rec["r_conv"] = []
            for u in ua:
                c = guard(lambda: r.to(u) if u is not None else r.rebase())
                rec["r_conv"].append([snap(c), snap(r), snap(a), snap(b)])
            rec["r_rebase"] = [snap(guard(lambda: r.rebase())), snap(a), snap(b)]
            rec["r_abse"] = [snap(guard(lambda: r.abse(0.25))), snap(a), snap(b)]
        # converting operands in place must not change the result
        rec["a_conv"] = []
        for u in ua:
            c = guard(lambda: a.to(u) if u is not None else a.rebase())
            rec["a_conv"].append([snap(c), snap(a), snap(b), snap(r)])
        rec["b_conv"] = []
        for u in ub:
            c = guard(lambda: b.to(u) if u is not None else b.rebase())
            rec["b_conv"].append([snap(c), snap(a), snap(b), snap(r)])
        rec["a_rele"] = [snap(guard(lambda: a.rele(2))), snap(a), snap(b), snap(r)]
        rec["b_rebase"] = [snap(guard(lambda: b.rebase())), snap(a), snap(b), snap(r)]
        out.append(rec)

# direct probes of the helper layers
def extra(label, fn):
    out.append({"extra": label, "res": snap(guard(fn))})

EXTRA_PLACEHOLDER = None
##EXTRA##

print(json.dumps(out, sort_keys=True))
'''


def run(root, extra):
    p = subprocess.run([sys.executable, "-c", PROBE.replace("##EXTRA##", extra), root],
                       capture_output=True, text=True)
    if p.returncode != 0:
        print("probe failed for", root, "\n", p.stderr[-3000:])
        sys.exit(2)
    return json.loads(p.stdout)


def main(extra=""):
    base, new = sys.argv[1], sys.argv[2]
    ra, rb = run(base, extra), run(new, extra)
    bad = 0
    if len(ra) != len(rb):
        print("different number of records", len(ra), len(rb))
        bad += 1
    for x, y in zip(ra, rb):
        if x != y:
            bad += 1
            if bad <= 10:
                print("DIFF", x.get("pair"), x.get("op"), x.get("extra"))
                for k in x:
                    if x.get(k) != y.get(k):
                        print("   ", k, "\n      base:", x.get(k), "\n      new: ", y.get(k))
    print(f"{len(ra)} records compared, {bad} differing")
    sys.exit(1 if bad else 0)


EXTRA = r'''
# refactoring 1: Magnitude._add / Magnitude._sub error combination
def mag_case(lv, le, rv, re, op):
    l = Magnitude(lv, le); r = Magnitude(rv, re)
    res = (l + r) if op == "+" else (l - r)
    before = [val(l), val(r)]
    # mutate result error in place, operands must keep theirs
    if isinstance(res.error, np.ndarray):
        res.error += 1
    res.abse(9.0)
    return [val(res), before, val(l), val(r)]
for i, (lv, le, rv, re) in enumerate([
    (3.0, None, 4.0, None), (3.0, 0.1, 4.0, None), (3.0, None, 4.0, 0.2), (3.0, 0.1, 4.0, 0.2),
    ([1.0, 2.0], 0.1, [3.0, 4.0], None), ([1.0, 2.0], None, [3.0, 4.0], 0.2), ([1.0, 2.0], 0.1, [3.0, 4.0], 0.2),
    ([1.0, 2.0], 0.1, 5.0, 0.3), (5.0, 0.3, [1.0, 2.0], None),
    (Decimal("1.5"), None, Decimal("2.5"), None), (Decimal("1.5"), 0.1, 2.0, None), (1.5, None, Decimal("2.5"), 0.2),
]):
    for op in "+-":
        extra(f"mag{i}{op}", lambda: mag_case(lv, le, rv, re, op))
extra("mag_radd", lambda: [val(2 + Magnitude(3.0, 0.1)), val(2 - Magnitude(3.0, 0.1)), val(Magnitude(3.0, 0.1) + 2)])
extra("mag_bad", lambda: Magnitude(3.0) + "x")
'''

if __name__ == '__main__':
    main(EXTRA)
