#!/venv/bin/python
"""Differential check for property C12 (densities, volume and masses of matter).

usage: diff.py <unmodified tree root> <refactored tree root>

Each tree is exercised in its own subprocess (own sys.path) with the same
inputs; exit code 0 iff every observable (values, units, exception types,
printed tables, state of the quantities passed in) is identical.
"""
import json
import os
import subprocess
import sys

WORKER = r'''
import sys, json, io, warnings, contextlib
warnings.simplefilter("ignore")
root = sys.argv[1]
sys.path.insert(0, root + "/src")
import numpy as np
from scinumtools.units import Quantity
from scinumtools.materials import Material, Substance, Element, Norm
import scinumtools.materials.matter as matter_module
assert matter_module.__file__.startswith(root), matter_module.__file__

def ser(v):
    if isinstance(v, Quantity):
        val = v.value()
        try:
            val = repr(float(val))
        except Exception:
            val = repr(val)
        return ["Q", val, str(v.units())]
    if isinstance(v, (bool, np.bool_)):
        return ["b", bool(v)]
    if isinstance(v, (float, np.floating)):
        return ["f", repr(float(v))]
    if isinstance(v, (int, np.integer)):
        return ["i", int(v)]
    if v is None:
        return None
    return ["s", str(v)]

def table(pt):
    if pt is None:
        return None
    return [[key, [[col, ser(val)] for col, val in row.items()]] for key, row in pt.data().items()]

def attempt(fn):
    try:
        with np.errstate(all="ignore"):
            return ["ok", fn()]
    except Exception as exc:
        return ["raised", type(exc).__name__]

def state(c):
    return {
        "rho": ser(c.mass_density), "n": ser(c.number_density), "V": ser(c.volume), "M": ser(c.mass),
        "given": ser(c.number_density_given), "cols": [[k, v] for k, v in c.cols_matter.items()],
        "composite_mass": ser(c.composite_mass), "component_mass": ser(getattr(c, "component_mass", None)),
    }

def observe(c, inputs=(), components=None):
    out = {}
    out["str"] = str(c)
    out["state"] = state(c)
    out["inputs"] = [ser(q) for q in inputs]          # quantities handed in by the caller
    out["matter_q"] = attempt(lambda: table(c.data_matter()))
    out["matter_s"] = attempt(lambda: table(c.data_matter(quantity=False)))
    if components:
        out["sel_q"] = attempt(lambda: table(c.data_matter(components=components)))
        out["sel_s"] = attempt(lambda: table(c.data_matter(components=components, quantity=False)))
    if hasattr(c, "data_composite"):
        out["composite_s"] = attempt(lambda: table(c.data_composite(quantity=False)))
        out["components_q"] = attempt(lambda: table(c.data_components()))
    def printed():
        buf = io.StringIO()
        with contextlib.redirect_stdout(buf):
            c.print()
            c.print_matter()
        return buf.getvalue()
    out["print"] = attempt(printed)
    out["state_after"] = state(c)
    return out

def build(cls, expr, *, comps=None, **kw):
    inputs = [kw[k] for k in ("mass_density", "number_density", "volume") if k in kw]
    c = cls(expr, **{k: v for k, v in kw.items()})
    return observe(c, inputs, comps)

def grow():
    rho = Quantity(1.2, "kg/l")
    m = Material({"H2O": 2.0}, norm_type=Norm.NUMBER, mass_density=rho, volume=Quantity(250, "ml"))
    first = observe(m, [rho])
    m.add("NaCl", 1.0)
    m.add("H2O", 0.5)
    return [first, observe(m, [rho])]

def grow_n():
    n = Quantity(2.5e28, "m-3")
    s = Substance("H2", number_density=n, volume=Quantity(3, "cm3"))
    first = observe(s, [n])
    s.add("O", 1)
    return [first, observe(s, [n])]

def custom(cls, expr, drop, **kw):
    # caller trims the (per instance) column table before asking for data
    c = cls(expr, **kw)
    for col in drop:
        del c.cols_matter[col]
    other = cls(expr, **kw)
    return [observe(c), [[k, v] for k, v in other.cols_matter.items()]]

Q = Quantity
NF, MF, NU = Norm.NUMBER_FRACTION, Norm.MASS_FRACTION, Norm.NUMBER
AIR = {"N2": 78.084, "O2": 20.946, "Ar": 0.934, "CO2": 0.036}

CASES = [
    ("el_rho_vol",       lambda: build(Element, "B", mass_density=Q(997, "kg/m3"), volume=Q(1, "l"))),
    ("el_rho_vol_cgs",   lambda: build(Element, "B", mass_density=Q(0.997, "g/cm3"), volume=Q(1000, "cm3"))),
    ("el_rho_only",      lambda: build(Element, "Fe{56}", mass_density=Q(7.874, "g/cm3"))),
    ("el_n_only",        lambda: build(Element, "O", number_density=Q(2.5e19, "cm-3"))),
    ("el_n_vol_si",      lambda: build(Element, "He{4+2}", natural=False, number_density=Q(1e26, "m-3"), volume=Q(0.5, "m3"))),
    ("el_proportion",    lambda: build(Element, "H", proportion=2, mass_density=Q(0.0899, "kg/m3"), volume=Q(22.4, "l"))),
    ("el_both",          lambda: build(Element, "C", mass_density=Q(2.26, "g/cm3"), number_density=Q(1e23, "cm-3"), volume=Q(2, "mm3"))),
    ("el_nucleon",       lambda: build(Element, "[p]", number_density=Q(1e6, "m-3"), volume=Q(1, "km3"))),
    ("el_none",          lambda: build(Element, "Si")),
    ("el_vol_only",      lambda: build(Element, "Si", volume=Q(1, "cm3"))),
    ("sub_rho_vol",      lambda: build(Substance, "H2O", mass_density=Q(997, "kg/m3"), volume=Q(1, "l"), comps=["O"])),
    ("sub_rho_vol_lb",   lambda: build(Substance, "H2O", mass_density=Q(62.24, "lb/ft3"), volume=Q(61.0237, "in3"))),
    ("sub_n",            lambda: build(Substance, "CO2", number_density=Q(2.7e25, "m-3"))),
    ("sub_n_vol",        lambda: build(Substance, "C6H12O6", natural=False, number_density=Q(5e21, "cm-3"), volume=Q(10, "ml"), comps=["C", "H"])),
    ("sub_dict",         lambda: build(Substance, {"U{235}": 1, "O": 2}, mass_density=Q(10.97, "g/cm3"), volume=Q(1, "dm3"))),
    ("sub_both",         lambda: build(Substance, "NaCl", mass_density=Q(2.16, "g/cm3"), number_density=Q(1, "cm-3"))),
    ("sub_none",         lambda: build(Substance, "NaCl")),
    ("sub_vol_only",     lambda: build(Substance, "NaCl", volume=Q(1, "l"))),
    ("sub_ops",          lambda: observe(Substance("H2O", mass_density=Q(1, "g/cm3")) * 2 + Substance("NaCl", volume=Q(1, "l")))),
    ("sub_ops_ok",       lambda: observe(Substance("H2O", mass_density=Q(1, "g/cm3")) * 2 + Substance("NaCl", number_density=Q(1e20, "cm-3")))),
    ("cols_no_M",        lambda: custom(Substance, "H2O", ["M"], mass_density=Q(1, "g/cm3"))),
    ("cols_no_M_vol",    lambda: custom(Substance, "H2O", ["M"], mass_density=Q(1, "g/cm3"), volume=Q(2, "l"))),
    ("cols_no_N_vol",    lambda: custom(Element, "Fe", ["N"], number_density=Q(8.5e22, "cm-3"), volume=Q(2, "cm3"))),
    ("cols_no_N",        lambda: custom(Element, "Fe", ["N"], number_density=Q(8.5e22, "cm-3"))),
    ("cols_no_n_none",   lambda: custom(Material, {"H2O": 1.0}, ["n", "M"])),
    ("mat_rho",          lambda: build(Material, "0.2 <H2O> 0.3 <NaCl>", mass_density=Q(0.3, "g/cm3"))),
    ("mat_rho_vol",      lambda: build(Material, AIR, mass_density=Q(1.225, "kg/m3"), volume=Q(1, "m3"), comps=["O2", "Ar"])),
    ("mat_n_vol",        lambda: build(Material, AIR, natural=False, number_density=Q(2.5e19, "cm-3"), volume=Q(2, "l"))),
    ("mat_number",       lambda: build(Material, {"H2O": 2, "CO2": 5}, norm_type=NU, mass_density=Q(1.5, "g/ml"), volume=Q(0.75, "l"))),
    ("mat_scaled",       lambda: build(Material, {"H2O": 20, "CO2": 50}, norm_type=NU, number_density=Q(3e21, "cm-3"), volume=Q(750, "cm3"))),
    ("mat_mf_rho",       lambda: build(Material, "0.2 <H2O> 0.3 <NaCl>", norm_type=MF, mass_density=Q(0.3, "g/cm3"))),
    ("mat_mf_n",         lambda: build(Material, "0.2 <H2O> 0.3 <NaCl>", norm_type=MF, number_density=Q(1e22, "cm-3"))),
    ("mat_grow_rho",     grow),
    ("sub_grow_n",       grow_n),
    ("mat_empty",        lambda: build(Material, None, mass_density=Q(1, "g/cm3"), volume=Q(1, "l"))),
    ("err_rho_unit",     lambda: build(Substance, "H2O", mass_density=Q(1, "m"))),
    ("err_n_unit",       lambda: build(Element, "O", number_density=Q(1, "g/cm3"))),
    ("err_vol_unit",     lambda: build(Material, AIR, mass_density=Q(1, "g/cm3"), volume=Q(1, "s"))),
    ("err_rho_float",    lambda: build(Element, "O", mass_density=1.0, volume=Q(1, "l"))),
    ("zero_rho",         lambda: build(Substance, "H2O", mass_density=Q(0, "g/cm3"), volume=Q(1, "l"))),
]

results = {}
for name, fn in CASES:
    try:
        with np.errstate(all="ignore"):
            results[name] = ["ok", fn()]
    except BaseException as exc:
        results[name] = ["raised", type(exc).__name__]
print("@@RESULT@@" + json.dumps(results, sort_keys=True))
'''


def run(root):
    root = os.path.abspath(root)
    proc = subprocess.run([sys.executable, "-c", WORKER, root],
                          capture_output=True, text=True, cwd="/")
    if proc.returncode != 0:
        sys.stderr.write(proc.stderr)
        raise SystemExit(2)
    payload = [l for l in proc.stdout.splitlines() if l.startswith("@@RESULT@@")]
    if len(payload) != 1:
        sys.stderr.write(proc.stdout + proc.stderr)
        raise SystemExit(2)
    return json.loads(payload[0][len("@@RESULT@@"):])


def main():
    if len(sys.argv) != 3:
        raise SystemExit("usage: diff.py <base tree> <refactored tree>")
    base, new = run(sys.argv[1]), run(sys.argv[2])
    bad = [k for k in sorted(set(base) | set(new)) if base.get(k) != new.get(k)]
    nok = sum(1 for v in base.values() if v[0] == "ok")
    print(f"{len(base)} inputs ({nok} returning, {len(base) - nok} raising); {len(bad)} differ")
    for k in bad:
        print("DIFF", k)
        print("  base:", json.dumps(base.get(k))[:600])
        print("  new: ", json.dumps(new.get(k))[:600])
    sys.exit(1 if bad else 0)


if __name__ == "__main__":
    main()
