#!/venv/bin/python
"""Differential check: run the same export scenarios against two source trees
(sys.argv[1] = unmodified tree, sys.argv[2] = refactored tree), each in its own
subprocess with its own sys.path, and exit 0 iff all observable outputs agree."""
import sys, os, json, subprocess

DRIVER = r'''
import sys, os, json
root = sys.argv[1]
sys.path.insert(0, os.path.join(root, 'src'))
import warnings
warnings.filterwarnings("ignore")
import numpy as np
from scinumtools.dip import DIP
from scinumtools.dip.settings import Format
from scinumtools.dip.config import *

SOURCES = {
 "basic": """
simulation
  name str = 'Configuration test'
  output bool = true
box
  height float = 15 cm
num_cells int = 100
  !tags ["selection"]
""",
 "derived": """
box
  width float32 = 12 cm
    !tags ["selection"]
density float128 = 23 g/cm3
num_groups uint64 = 2399495729
short int16 = -1234
ushort uint16 = 65000
wide int64 = -9007199254740993
uwide uint32 = 4000000000
""",
 "arrays": """
primes int[3] = [3,5,7]
sizes float[3] = [23.4,46,96.4] cm
flags bool[2] = [true,false]
names str[2] = ["ab","c"]
""",
 "matrix": """
grid int[2,3] = [[1,2,3],[4,5,6]]
cube float32[2,2,2] = [[[1,2],[3,4]],[[5,6],[7,8]]] m
mask bool[2,2] = [[true,false],[false,true]]
words str[2,2] = [["a","b"],["c","d"]]
u16 uint16[2,2] = [[1,2],[3,4]]
""",
 "none": """
particles
  stars int = none
  tracers int = 23
  mass float = none
""",
 "strings": """
path str = "C:\\\\dir\\\\file"
quote str = 'say "hi" $HOME `x`'
multi str = \"\"\"
line one
line two
\"\"\"
empty str = ""
""",
 "tags": """
a int = 1
  !tags ["x","y"]
b float = 2.5 s
  !tags ["y"]
c bool = false
  !tags ["x"]
grp
  d str = "dd"
    !tags ["z"]
  e int[2] = [1,2]
    !tags ["x"]
""",
 "odd": """
big float128 = 1e300
neg float32 = -0.000125 kg*m/s2
zero int = 0
uz uint16 = 0 km
off bool = false
""",
}

def make_env(keys):
    with DIP() as dip:
        for k in keys:
            dip.add_string(SOURCES[k])
        return dip.parse()

def attempt(fn):
    try:
        out = fn()
        return {"ok": out}
    except BaseException as e:
        return {"exc": type(e).__name__}

def norm(o):
    if isinstance(o, dict):
        return {str(k): norm(v) for k, v in o.items()}
    if isinstance(o, (list, tuple)):
        return [type(o).__name__] + [norm(v) for v in o]
    if isinstance(o, np.ndarray):
        return ["ndarray", str(o.dtype), o.tolist()]
    if isinstance(o, (str, int, float, bool)) or o is None:
        return [type(o).__name__, repr(o)]
    return [type(o).__name__, repr(o)]

results = {}
def record(label, fn):
    results[label] = attempt(fn)

ENVSETS = [("basic",), ("basic","derived"), ("arrays",), ("matrix",), ("none",),
           ("strings",), ("tags",), ("odd",), ("basic","derived","arrays","none")]

EXPORTERS = {
  "dip": (ExportConfig, [dict()]),
  "c": (ExportConfigC, [dict(), dict(guard="G_H"), dict(define=("num_cells","simulation.name","simulation.output","particles.stars","a","quote"))]),
  "cpp": (ExportConfigCPP, [dict(), dict(define=("num_cells","simulation.output"), const=("box.height","primes","grid","a")), dict(guard="X", const=("simulation.name",))]),
  "rust": (ExportConfigRust, [dict()]),
  "fortran": (ExportConfigFortran, [dict(), dict(module="Mod")]),
  "bash": (ExportConfigBash, [dict(), dict(export=False)]),
  "json": (ExportConfigJSON, [dict(), dict(units=False), dict(indent=2)]),
  "yaml": (ExportConfigYAML, [dict(), dict(units=False)]),
  "toml": (ExportConfigTOML, [dict(), dict(units=False)]),
}

def run(cls, keys, ckw, pkw, sel):
    env = make_env(keys)
    with cls(env, **ckw) as exp:
        if sel is not None:
            exp.select(**sel)
        first = exp.parse(**pkw)
        second = exp.parse(**pkw)   # repeated parse observes internal state
        incs = getattr(exp, "includes", None)
        return {"text": first, "again": second, "attr_text": exp.text,
                "includes": incs, "data": norm({k: (v if not hasattr(v, "value") else [type(v).__name__, repr(getattr(v,"value",None)), repr(getattr(v,"unit",None))]) for k, v in exp.data.items()})}

for keys in ENVSETS:
    for ename, (cls, pkws) in EXPORTERS.items():
        for i, pkw in enumerate(pkws):
            for rn in (True, False):
                record(f"{'+'.join(keys)}|{ename}|{i}|rename={rn}",
                       lambda: run(cls, keys, dict(rename=rn), pkw, None))

SELECTIONS = [dict(query="box.*"), dict(tags=["selection"]), dict(query="*", tags=["x"]),
              dict(tags=["y"]), dict(query="grp.*"), dict(query="grp.*", tags=["x"]),
              dict(query="nothing.*"), dict(tags=["absent"])]
for sel in SELECTIONS:
    for ename, (cls, pkws) in EXPORTERS.items():
        for keys in (("basic","derived"), ("tags",)):
            record(f"sel={json.dumps(sel, sort_keys=True)}|{'+'.join(keys)}|{ename}",
                   lambda: run(cls, keys, {}, pkws[0], sel))

# explicit dtype override and a non-data environment
for ename, (cls, pkws) in EXPORTERS.items():
    for fmt in ("VALUE", "TYPE", "TUPLE"):
        record(f"dtype={fmt}|{ename}", lambda: run(cls, ("basic","arrays"), dict(dtype=getattr(Format, fmt)), pkws[0], None))

# direct calls of the public per-parameter methods
def direct(cls, meth, rn):
    env = make_env(("basic","derived","arrays","matrix","none","strings"))
    exp = cls(env, rename=rn)
    out = {}
    for name, param in exp.data.items():
        out[name] = attempt(lambda: getattr(exp, meth)(name, param))
    out["__includes__"] = list(exp.includes)
    return out
for rn in (True, False):
    record(f"direct|c|parse_define|{rn}", lambda: direct(ExportConfigC, "parse_define", rn))
    record(f"direct|c|parse_const|{rn}", lambda: direct(ExportConfigC, "parse_const", rn))
    record(f"direct|cpp|parse_const|{rn}", lambda: direct(ExportConfigCPP, "parse_const", rn))
    record(f"direct|cpp|parse_constexpr|{rn}", lambda: direct(ExportConfigCPP, "parse_constexpr", rn))

# hand-built parameters: widths the DIP grammar cannot spell, and unsupported ones
def handmade(cls, pkw):
    from scinumtools.dip.datatypes import StringType, BooleanType, FloatType, IntegerType
    env = make_env(("basic",))
    out = {}
    params = {
      "i8": IntegerType(-5, None, precision=8), "u8": IntegerType(200, None, precision=8, unsigned=True),
      "i16": IntegerType(7, "m", precision=16), "u32": IntegerType(9, None, precision=32, unsigned=True),
      "i128": IntegerType(1, None, precision=128), "u128": IntegerType(1, None, precision=128, unsigned=True),
      "f16": FloatType(1.5, None, precision=16), "f80": FloatType(2.5, "s", precision=80),
      "f96": FloatType(2.5, None, precision=96), "f128": FloatType(2.5, None, precision=128),
      "arr.i8": IntegerType(np.array([[1,2],[3,4]]), None, precision=8),
      "arr.f32": FloatType([1.0,2.0,3.0], "cm", precision=32),
      "s": StringType('a"b\\c\nd'), "b": BooleanType(True), "bl": BooleanType([True, False]),
    }
    for key, param in params.items():
        def one():
            exp = cls(env)
            exp.data = {key: param}
            return [exp.parse(**pkw), getattr(exp, "includes", None)]
        out[key] = attempt(one)
    return out
for ename in ("dip", "c", "cpp", "rust", "fortran"):
    cls, pkws = EXPORTERS[ename]
    for i, pkw in enumerate(pkws):
        record(f"handmade|{ename}|{i}", lambda: handmade(cls, pkw))

# save() round trip
def saving(cls):
    import tempfile
    env = make_env(("basic","arrays"))
    with cls(env) as exp:
        exp.parse()
        fd, p = tempfile.mkstemp()
        os.close(fd)
        try:
            exp.save(p)
            with open(p) as f:
                return f.read()
        finally:
            os.remove(p)
for ename, (cls, _) in EXPORTERS.items():
    record(f"save|{ename}", lambda: saving(cls))

print("@@RESULT@@" + json.dumps(results, sort_keys=True))
'''

def run_tree(root):
    p = subprocess.run([sys.executable, "-c", DRIVER, root], capture_output=True, text=True,
                       cwd="/tmp", env={**os.environ, "PYTHONDONTWRITEBYTECODE": "1", "PYTHONHASHSEED": "0"})
    if p.returncode != 0:
        sys.stderr.write(p.stderr)
        raise SystemExit(2)
    line = [l for l in p.stdout.splitlines() if l.startswith("@@RESULT@@")][-1]
    return json.loads(line[len("@@RESULT@@"):])

def main():
    a = run_tree(os.path.abspath(sys.argv[1]))
    b = run_tree(os.path.abspath(sys.argv[2]))
    bad = 0
    for k in sorted(set(a) | set(b)):
        if a.get(k) != b.get(k):
            bad += 1
            print("DIFF", k)
            print("   base:", json.dumps(a.get(k))[:400])
            print("   new :", json.dumps(b.get(k))[:400])
    nexc = sum(1 for v in a.values() if "exc" in v)
    print(f"{len(a)} scenarios compared ({nexc} raise in base), {bad} differences")
    sys.exit(1 if bad else 0)

if __name__ == "__main__":
    main()
