#!/venv/bin/python
"""Differential test for property C09 (temporary custom units never outlive their scope).

usage: diff.py <unmodified tree root> <refactored tree root>

Runs the same scenarios against each tree in a separate subprocess (each with its own
sys.path) and exits 0 iff all observable outputs are identical.
"""
import json
import subprocess
import sys

WORKER = r'''
import sys, json, warnings
warnings.filterwarnings("ignore")
root = sys.argv[1]
sys.path.insert(0, root + "/src")
import numpy as np
from scinumtools.units import Quantity, Unit, UnitEnvironment
from scinumtools.units.settings import UNIT_STANDARD, UNIT_PREFIXES, UNIT_TYPES
from scinumtools.units.unit_types import UnitType
from scinumtools.units.unit_environment import check_unique_symbols
from scinumtools.dip import DIP
from scinumtools.dip.environment import Environment
from scinumtools.dip.datatypes import FloatType, IntegerType

def snap():
    """Full content of the process-wide tables."""
    std = [(k, repr(v)) for k, v in UNIT_STANDARD.items()]
    pre = [(k, repr(v)) for k, v in UNIT_PREFIXES.items()]
    return {
        "std_keys": list(UNIT_STANDARD.keys()),
        "std": std,
        "pre_keys": list(UNIT_PREFIXES.keys()),
        "pre": pre,
        "types": [t.__name__ for t in UNIT_TYPES],
        "nstd": len(UNIT_STANDARD),
    }

BASE = snap()

def delta():
    """Compact description of how the tables differ from the pristine ones."""
    now = snap()
    if now == BASE:
        return "clean"
    return {
        "added_keys": [k for k in now["std_keys"] if k not in BASE["std_keys"]],
        "removed_keys": [k for k in BASE["std_keys"] if k not in now["std_keys"]],
        "types": now["types"],
        "pre_same": now["pre"] == BASE["pre"],
        "order_same": [k for k in now["std_keys"] if k in BASE["std_keys"]] == BASE["std_keys"],
    }

def exc(e):
    args = []
    for a in e.args:
        args.append(a if isinstance(a, (str, int, float, list)) else repr(a))
    return {"exc": type(e).__name__, "args": args}

def q(value, unit, to=None):
    try:
        x = Quantity(value, unit)
        out = {"str": str(x), "mag": repr(x.baseunits.magnitude), "dim": x.baseunits.dimensions.value()}
        if to is not None:
            out["to"] = str(x.to(to))
        return out
    except Exception as e:
        return exc(e)

class TypeA(UnitType):
    def _istype(self):
        return False

class TypeB(UnitType):
    def _istype(self):
        return False

DIMS = [3, 2, -1, 0, 0, 1, 0, 0]
LEN = [1, 0, 0, 0, 0, 0, 0, 0]

def keys_of(units):
    return {k: (list(v.keys()) if isinstance(v, dict) else type(v).__name__) for k, v in units.items()}

def s_basic():
    units = {"x": {"magnitude": 3, "dimensions": list(DIMS)}, "y": Quantity(2, "cm/g2")}
    out = []
    with UnitEnvironment(units) as env:
        out += [q(1, "x"), q(1, "y"), q(2, "x*y"), q(1, "kx"), delta(), list(env.new_units), len(env.new_types)]
        out.append(repr(UNIT_STANDARD["x"]))
        out.append(repr(UNIT_STANDARD["y"]))
    out += [delta(), q(1, "x"), keys_of(units), repr(units["x"])]
    return out

def s_body_raises():
    units = {"x": {"magnitude": 3, "dimensions": list(DIMS), "definition": TypeA}}
    out = []
    try:
        with UnitEnvironment(units):
            out.append(delta())
            raise ValueError("boom")
    except Exception as e:
        out.append(exc(e))
    out.append(delta())
    try:
        with UnitEnvironment(units):
            out.append(q(1, "x"))
            raise KeyboardInterrupt()
    except BaseException as e:
        out.append(exc(e))
    out.append(delta())
    return out

def s_dup_standard():
    out = []
    for sym in ["m", "eV", "Cel"]:
        units = {"aa": {"magnitude": 2, "dimensions": list(LEN), "definition": TypeA},
                 sym: {"magnitude": 3, "dimensions": list(DIMS)},
                 "bb": {"magnitude": 4, "dimensions": list(LEN)}}
        try:
            with UnitEnvironment(units):
                out.append("entered")
        except Exception as e:
            out.append(exc(e))
        out += [delta(), keys_of(units)]
    return out

def s_prefix_clash():
    out = []
    cases = [
        {"km": {"magnitude": 3, "dimensions": list(LEN)}},
        {"x": {"magnitude": 3, "dimensions": list(LEN), "prefixes": True},
         "kx": {"magnitude": 5, "dimensions": list(LEN)}},
        {"al": {"magnitude": 3, "dimensions": list(LEN), "prefixes": ["m", "c"], "definition": TypeA},
         "w": {"magnitude": 3, "dimensions": list(LEN), "definition": TypeB}},
        {"al": {"magnitude": 3, "dimensions": list(LEN), "prefixes": ["k", "M"]}},
        {"a": {"magnitude": 3, "dimensions": list(LEN), "prefixes": True}},
        {"ol": {"magnitude": 3, "dimensions": list(LEN), "prefixes": ["m"]},
         "Pa2": {"magnitude": 3, "dimensions": list(LEN)},
         "d": {"magnitude": 3, "dimensions": list(LEN), "prefixes": ["c"]}},
    ]
    for units in cases:
        try:
            with UnitEnvironment(units):
                out.append(["entered", delta()])
        except Exception as e:
            out.append(exc(e))
        out.append(delta())
    return out

def s_malformed():
    out = []
    cases = [
        {"a1": {"magnitude": 1, "dimensions": list(LEN), "definition": TypeA}, "x": {"dimensions": list(DIMS)}},
        {"a1": {"magnitude": 1, "dimensions": list(LEN)}, "x": {"magnitude": 2, "definition": TypeB}},
        {"a1": {"magnitude": 1, "dimensions": list(LEN)}, "x": (3, list(DIMS))},
        {"a1": {"magnitude": 1, "dimensions": list(LEN)}, "x": None},
        {"a1": {"magnitude": 1, "dimensions": list(LEN)}, "x": 5.0},
        {"a1": {"magnitude": 1, "dimensions": list(LEN), "prefixes": ["k", "Q"]}},
        {"a1": {"magnitude": 1, "dimensions": list(LEN), "prefixes": ["k", "Q"], "definition": TypeA},
         "a2": {"magnitude": 1, "dimensions": list(LEN), "definition": TypeB}},
    ]
    for units in cases:
        try:
            with UnitEnvironment(units):
                out.append(["entered", delta()])
        except BaseException as e:
            out.append(exc(e))
        out += [delta(), keys_of(units)]
    for units in [[("x", {"magnitude": 1, "dimensions": list(LEN)})], None, "x"]:
        try:
            with UnitEnvironment(units):
                out.append("entered")
        except BaseException as e:
            out.append(type(e).__name__)
        out.append(delta())
    return out

def s_nested():
    out = []
    u1 = {"x": {"magnitude": 3, "dimensions": list(DIMS), "definition": TypeA}}
    u2 = {"y": Quantity(2, "cm/g2"), "z": {"magnitude": 7, "dimensions": list(LEN), "definition": TypeB, "prefixes": ["k"]}}
    u3 = {"w": {"magnitude": 9, "dimensions": list(LEN)}, "y": {"magnitude": 1, "dimensions": list(LEN)}}
    with UnitEnvironment(u1):
        out.append(delta())
        with UnitEnvironment(u2):
            out += [delta(), q(1, "x*y*kz")]
            try:
                with UnitEnvironment(u3):
                    out.append("entered")
            except Exception as e:
                out.append(exc(e))
            out += [delta(), q(1, "w"), q(3, "kz", "z")]
            try:
                with UnitEnvironment(u1):
                    out.append("entered")
            except Exception as e:
                out.append(exc(e))
            out.append(delta())
        out += [delta(), q(1, "y"), q(1, "x")]
    out.append(delta())
    return out

def s_repeated():
    out = []
    units = {"xq": {"magnitude": 3, "dimensions": list(DIMS), "definition": TypeA, "name": "ex", "prefixes": True}}
    for i in range(4):
        with UnitEnvironment(units):
            out += [q(i, "Mxq"), delta(), repr(UNIT_STANDARD["xq"])]
        out.append(delta())
    out.append(keys_of(units))
    return out

def s_types():
    out = []
    units = {"x": {"magnitude": 3, "dimensions": list(DIMS), "definition": TypeA},
             "y": {"magnitude": 3, "dimensions": list(DIMS), "definition": TypeA},
             "z": {"magnitude": 3, "dimensions": list(DIMS), "definition": TypeB},
             "ss": {"magnitude": 3, "dimensions": list(DIMS), "definition": "3*m"},
             "nn": {"magnitude": 3, "dimensions": list(DIMS), "definition": None},
             "tt": {"magnitude": 3, "dimensions": list(DIMS), "definition": UNIT_TYPES[0]}}
    env = UnitEnvironment(units)
    out += [delta(), [t.__name__ for t in env.new_types], list(env.new_units)]
    out += [repr(UNIT_STANDARD[k]) for k in units]
    env.close()
    out.append(delta())
    return out

def s_close_twice():
    out = []
    units = {"x": {"magnitude": 3, "dimensions": list(DIMS), "definition": TypeA}}
    env = UnitEnvironment(units)
    env.close()
    out.append(delta())
    try:
        env.close()
    except Exception as e:
        out.append(type(e).__name__)
    out.append(delta())
    try:
        with UnitEnvironment(units) as e2:
            e2.close()
            out.append(delta())
    except Exception as e:
        out.append(type(e).__name__)
    out.append(delta())
    out.append([list(env.new_units), len(env.new_types)])
    return out

def s_empty_and_check():
    out = []
    with UnitEnvironment({}) as env:
        out += [delta(), env.new_units, env.new_types]
    out.append(check_unique_symbols())
    out.append(delta())
    return out

DIP_CODES = [
    ("$unit length = 2 cm\n$unit mass = 3 g\na float = 4 [length]\nb float = 2 [mass]/[length]3\nc float = {?a} m\n", None),
    ("$unit length = 2 cm\n$unit length = 3 cm\na float = 4 [length]\n", None),
    ("$unit length = 2 cm\n$unit area = 3 [length]2\na float = 4 [area]\nb float = 1 m2\nb = 2 [area]\n", None),
    ("$unit length = 2 foo\na float = 4 [length]\n", None),
    ("$unit length = 2 cm\na float = 4 [len]\n", None),
    ("a float = 4 [length]\n", None),
    ("$unit length = 2 cm\na float = (\"3 [length] + 2 cm\") cm\nb bool = (\"{?a} > 3 [length]\")\n", None),
    ("$unit length = 2 cm\na float = 4 [length]\n  !condition ('{?} < 3 cm')\n", None),
    ("$unit length = 2 cm\na float = 1 [length]\n  !condition ('{?} < 3 cm')\n", None),
    ("$unit length = 2 cm\na float = (\"3 [length] + 2 g\") cm\n", None),
    ("$unit length = 2 cm\na float = 30 mm\n@case (\"{?a} > 1 [length]\")\n  b float = 1 [length]\n@else\n  b float = 2 [length]\n@end\n", None),
    ("$unit length = 2 cm\n$unit bad = 3 [nolength]\na float = 1 [length]\n", None),
    ("$unit length = 2 cm\n$unit 9$ = 3\n", None),
    ("$unit length = 2 cm\na int = 4 [length]\n  !options [1,4] m\n", None),
    ("mass float = 3 g\n$unit m2 = {?mass} kg\na float = 1 [m2]\n", None),
    ("a float = 4 [velocity]\nb float = 2 km/s\nb = 1 [velocity]\n", ("velocity", 13, "cm/s")),
    ("$unit velocity = 1 m/s\n", ("velocity", 13, "cm/s")),
    ("$unit l = 2\na float = 4 [l]\n", None),
]

def s_dip():
    out = []
    for code, extra in DIP_CODES:
        item = []
        try:
            with DIP() as p:
                if extra:
                    p.add_unit(*extra)
                p.add_string(code)
                env = p.parse()
                item.append({k: str(v) for k, v in env.data(verbose=True).items()} if hasattr(env, "data") else None)
                item.append({k: {kk: repr(vv) for kk, vv in v.items() if kk != "source"} for k, v in env.units.items()})
        except Exception as e:
            item.append(exc(e))
        item.append(delta())
        out.append(item)
    return out

def s_dip_in_scope():
    """DIP parse while a user scope is open; and conversions via a DIP environment."""
    out = []
    with UnitEnvironment({"x": {"magnitude": 3, "dimensions": list(LEN), "definition": TypeA}}):
        try:
            with DIP() as p:
                p.add_string("$unit length = 2 cm\na float = 4 [length]\nb float = 1 x\n")
                env = p.parse()
            out.append({k: str(v) for k, v in env.data(verbose=True).items()})
        except Exception as e:
            out.append(exc(e))
        out.append(delta())
        try:
            with DIP() as p:
                p.add_string("$unit x = 2 cm\na float = 4 [x]\n$unit m = 1 cm\nc float = 1 [m]\n")
                env = p.parse()
            out.append({k: str(v) for k, v in env.data(verbose=True).items()})
        except Exception as e:
            out.append(exc(e))
        out.append(delta())
    out.append(delta())
    # number conversion with a DIP environment
    with DIP() as p:
        p.add_string("$unit length = 2 cm\na float = 4 [length]\n")
        env = p.parse()
    for val, u_from, u_to in [(4.0, "[length]", "cm"), (4.0, "cm", "[length]"), (4.0, "cm", "cm"),
                              (4.0, "cm", None), (4.0, None, "cm"), (4.0, "[length]", "g"), (4.0, "[nope]", "cm")]:
        for use_env in (True, False):
            try:
                t = FloatType(val, u_from)
                r = t.convert(u_to, env if use_env else None)
                out.append([repr(r.value), r.unit, r is t])
            except Exception as e:
                out.append(exc(e))
            out.append(delta())
    try:
        t = IntegerType(4, "[length]").convert("mm", env)
        out.append([repr(t.value), t.unit])
    except Exception as e:
        out.append(exc(e))
    out.append(delta())
    return out

SCENARIOS = [s_basic, s_body_raises, s_dup_standard, s_prefix_clash, s_malformed, s_nested, s_repeated,
             s_types, s_close_twice, s_empty_and_check, s_dip, s_dip_in_scope]

results = {}
for fn in SCENARIOS:
    try:
        results[fn.__name__] = fn()
    except BaseException as e:
        results[fn.__name__] = {"scenario_failed": type(e).__name__, "args": repr(e.args)}
    results[fn.__name__ + ":after"] = delta()
results["final_equals_base"] = (snap() == BASE)
results["base"] = BASE
sys.stdout.write("@@RESULT@@" + json.dumps(results, sort_keys=True, default=repr).replace(root, "<ROOT>"))
'''


def run(root):
    proc = subprocess.run([sys.executable, "-c", WORKER, root], capture_output=True, text=True, cwd="/tmp")
    if "@@RESULT@@" not in proc.stdout:
        print("worker failed for", root)
        print(proc.stdout[-2000:])
        print(proc.stderr[-4000:])
        sys.exit(2)
    return json.loads(proc.stdout.split("@@RESULT@@", 1)[1])


def main():
    base, new = sys.argv[1], sys.argv[2]
    a, b = run(base.rstrip("/")), run(new.rstrip("/"))
    bad = 0
    n_obs = 0
    for key in sorted(set(a) | set(b)):
        va, vb = a.get(key), b.get(key)
        n_obs += len(va) if isinstance(va, list) else 1
        if va != vb:
            bad += 1
            print("MISMATCH in", key)
            print("  base:", json.dumps(va)[:3000])
            print("  new :", json.dumps(vb)[:3000])
    failed = [k for k, v in a.items() if isinstance(v, dict) and "scenario_failed" in v]
    if failed:
        print("scenarios that crashed on the base tree (still compared):", failed)
    print("compared %d scenario groups / %d observations; mismatches: %d" % (len(a), n_obs, bad))
    sys.exit(1 if bad else 0)


if __name__ == "__main__":
    main()
