#!/usr/bin/env python
"""Differential check: run the same export scenarios against two source trees
and compare the printed results (values, types, exception class names)."""
import sys, os, subprocess

DRIVER = r'''
import sys, os
root = sys.argv[1]
sys.path.insert(0, os.path.join(root, "src"))
import numpy as np
from scinumtools.dip import DIP
from scinumtools.dip.settings import Format
from scinumtools.dip.config import ExportConfig, ExportConfigC, ExportConfigCPP
import scinumtools
assert os.path.realpath(scinumtools.__file__).startswith(os.path.realpath(root)), scinumtools.__file__

BASIC = """
simulation
  name str = 'Configuration test'
  output bool = true
box
  height float = 15 cm
num_cells int = 100
  !tags ["selection"]
"""
DERIVED = """
box
  width float32 = 12 cm
    !tags ["selection"]
density float128 = 23 g/cm3
num_groups uint64 = 2399495729
small int16 = -5
mid int16 = 300
umid uint16 = 300
wide int64 = -9000000000
u32 uint32 = 7
f64 float64 = 1.5e-7 s
"""
ARRAYS = """
primes int[3] = [3,5,7]
sizes float[3] = [23.4,46,96.4] cm
matrix int[2,3] = [[1,2,3],[4,5,6]]
flags bool[2] = [true,false]
names str[2] = ["a","bc"]
cube float32[2,2,2] = [[[1,2],[3,4]],[[5,6],[7,8]]]
"""
NONE = """
particles
  stars int = none
  tracers int = 23
  label str = none
  active bool = none
"""
TRICKY = """
path str = "C:\\\\dir\\\\file"
quote str = 'say "hi"'
off bool = false
zero int = 0
neg float = -0.0
big float = 1e300
"""

def env_of(*srcs):
    with DIP() as dip:
        for s in srcs:
            dip.add_string(s)
        return dip.parse()

def show(label, fn):
    try:
        r = fn()
        print("CASE", label, "->", type(r).__name__, repr(r))
    except BaseException as e:
        print("CASE", label, "-> EXC", type(e).__name__, repr(str(e)))

ALL = (BASIC, DERIVED, ARRAYS, NONE, TRICKY)
SETS = {"basic": (BASIC,), "derived": (BASIC, DERIVED), "arrays": (ARRAYS,), "none": (NONE,),
        "tricky": (TRICKY,), "all": ALL}

for key, srcs in SETS.items():
    # DIP text back-end
    def dip_case():
        with ExportConfig(env_of(*srcs)) as e:
            t = e.parse()
            return (t, e.text == t)
    show("dip/"+key, dip_case)
    # C back-end
    def c_case():
        with ExportConfigC(env_of(*srcs)) as e:
            t = e.parse()
            return (t, e.text == t, list(e.includes))
    show("c/"+key, c_case)
    # C++ back-end
    def cpp_case():
        with ExportConfigCPP(env_of(*srcs)) as e:
            t = e.parse()
            return (t, e.text == t, list(e.includes))
    show("cpp/"+key, cpp_case)

# guards / define / const selections
def c_define():
    with ExportConfigC(env_of(*ALL)) as e:
        return e.parse(guard="MY_GUARD_H", define=("simulation.name","simulation.output","num_cells",
               "particles.stars","primes","path","quote","box.height","off"))
show("c/define", c_define)
def c_define_list_empty():
    with ExportConfigC(env_of(BASIC)) as e:
        return (e.parse(define=()), e.parse(define=[]), e.parse(define=None), e.parse("G"))
show("c/define-empty", c_define_list_empty)
def cpp_mixed():
    with ExportConfigCPP(env_of(*ALL)) as e:
        return e.parse(guard="X_H", define=("simulation.output","density","particles.label"),
                       const=("simulation.name","simulation.output","matrix","flags","small"))
show("cpp/mixed", cpp_mixed)
def cpp_const_only():
    with ExportConfigCPP(env_of(BASIC, ARRAYS)) as e:
        return (e.parse(const=("primes","simulation.output")), list(e.includes), e.parse(define=("sizes",), const=()))
show("cpp/const-only", cpp_const_only)
# a define given as a string is a substring test
def c_define_str():
    with ExportConfigC(env_of(BASIC)) as e:
        return e.parse(define="num_cells box.height")
show("c/define-str", c_define_str)
# repeated parse keeps the include list
def c_twice():
    with ExportConfigC(env_of(BASIC)) as e:
        a = e.parse(); e.include("<math.h>"); e.include("<stdio.h>"); b = e.parse(guard="TWICE")
        return (a, b, list(e.includes))
show("c/twice-includes", c_twice)
def cpp_includes():
    with ExportConfigCPP(env_of(BASIC)) as e:
        e.include("<cmath>"); e.include("<string>"); e.include("<cmath>")
        return (e.parse(), list(e.includes))
show("cpp/includes", cpp_includes)
# rename off, selections
for cls in (ExportConfig, ExportConfigC, ExportConfigCPP):
    def norename():
        with cls(env_of(BASIC, DERIVED), rename=False) as e:
            return e.parse()
    show(cls.__name__+"/norename", norename)
    def sel_query():
        with cls(env_of(BASIC, DERIVED)) as e:
            e.select(query="box.*")
            return e.parse()
    show(cls.__name__+"/select-query", sel_query)
    def sel_tags():
        with cls(env_of(BASIC, DERIVED)) as e:
            e.select(tags=["selection"])
            return e.parse()
    show(cls.__name__+"/select-tags", sel_tags)
    def sel_nothing():
        with cls(env_of(BASIC)) as e:
            e.select(tags=["absent"])
            return e.parse()
    show(cls.__name__+"/select-empty", sel_nothing)
    # wrong data format: raw values instead of typed parameters
    for fmt in (Format.VALUE, Format.TUPLE, Format.NODE):
        def wrongfmt():
            with cls(env_of(BASIC, ARRAYS), dtype=fmt) as e:
                return e.parse()
        show(cls.__name__+"/fmt-"+str(fmt), wrongfmt)

# direct calls of the per-parameter helpers
env = env_of(*ALL)
data = env.data(Format.TYPE)
c = ExportConfigC(env); cpp = ExportConfigCPP(env); cpp_nr = ExportConfigCPP(env, rename=False)
for name, param in data.items():
    show("parse_define/"+name, lambda: c.parse_define(name, param))
    show("parse_const/"+name, lambda: c.parse_const(name, param))
    show("cpp.parse_define/"+name, lambda: cpp.parse_define(name, param))
    show("cpp.parse_const/"+name, lambda: cpp.parse_const(name, param))
    show("parse_constexpr/"+name, lambda: cpp.parse_constexpr(name, param))
    show("parse_constexpr-nr/"+name, lambda: cpp_nr.parse_constexpr(name, param))
from scinumtools.dip.datatypes import IntegerType, FloatType, StringType, BooleanType
ODD = {
  "odd.i8": lambda: IntegerType(np.int8(-5), None, precision=8, unsigned=False),
  "odd.u8": lambda: IntegerType(5, None, precision=8, unsigned=True),
  "odd.i24": lambda: IntegerType(5, "m", precision=24, unsigned=False),
  "odd.f16": lambda: FloatType(1.5, None, precision=16),
  "odd.f80": lambda: FloatType(1.5, "s", precision=80),
  "odd.str": lambda: StringType('a"b\\c\nd'),
  "odd.boolarr": lambda: BooleanType([[True, False],[False, True]]),
  "odd.tuple": lambda: IntegerType((1,2,3), None, precision=32, unsigned=False),
  "odd.empty": lambda: FloatType([], None, precision=64),
}
for name, mk in ODD.items():
    try:
        param = mk()
    except BaseException as ex:
        print("CASE mk/"+name, "EXC", type(ex).__name__); continue
    show("odd.parse_define/"+name, lambda: c.parse_define(name, param))
    show("odd.parse_const/"+name, lambda: c.parse_const(name, param))
    show("odd.parse_constexpr/"+name, lambda: cpp.parse_constexpr(name, param))
    for cls in (ExportConfig, ExportConfigC, ExportConfigCPP):
        def odd_parse():
            e = cls(env_of(BASIC)); e.data = {"first": data["num_cells"], name: param}
            return e.parse()
        show("odd.parse/"+cls.__name__+"/"+name, odd_parse)
show("includes-after", lambda: (list(c.includes), list(cpp.includes)))
# foreign objects handed to the helpers
class Fake:
    value = 3
    unit = None
for bad in (Fake(), 5, None, "text"):
    show("parse_define/bad-%r" % type(bad).__name__, lambda: c.parse_define("a.b", bad))
    show("parse_const/bad-%r" % type(bad).__name__, lambda: c.parse_const("a.b", bad))
    show("parse_constexpr/bad-%r" % type(bad).__name__, lambda: cpp.parse_constexpr("a.b", bad))
show("parse_define/badname", lambda: c.parse_define(5, data["num_cells"]))
show("parse_const/badname", lambda: c.parse_const(None, data["num_cells"]))
# foreign object inside the exported data
def foreign_data(cls):
    e = cls(env_of(BASIC))
    e.data = dict(e.data); e.data["zz.fake"] = Fake()
    return e.parse()
for cls in (ExportConfig, ExportConfigC, ExportConfigCPP):
    show(cls.__name__+"/foreign-data", lambda: foreign_data(cls))
    def foreign_first():
        e = cls(env_of(BASIC))
        e.data = {"zz.fake": Fake()}
        return e.parse()
    show(cls.__name__+"/foreign-first", foreign_first)
# save without / with parse
import tempfile
def save_case(cls):
    d = tempfile.mkdtemp()
    f = os.path.join(d, "out.txt")
    e = cls(env_of(BASIC, ARRAYS))
    try:
        e.save(f)
        first = "saved"
    except BaseException as ex:
        first = type(ex).__name__
    e.parse(); e.save(f)
    return (first, open(f).read())
for cls in (ExportConfig, ExportConfigC, ExportConfigCPP):
    show(cls.__name__+"/save", lambda: save_case(cls))
'''

def run(root):
    p = subprocess.run([sys.executable, "-c", DRIVER, os.path.abspath(root)],
                       capture_output=True, text=True, cwd="/tmp")
    return p.returncode, p.stdout, p.stderr

def main():
    a = run(sys.argv[1]); b = run(sys.argv[2])
    ncases = a[1].count("CASE ")
    if a[0] != 0 or b[0] != 0:
        print("driver failed", a[0], b[0]); print(a[2][-2000:]); print(b[2][-2000:]); return 1
    if a[1] != b[1]:
        la, lb = a[1].splitlines(), b[1].splitlines()
        for x, y in zip(la, lb):
            if x != y:
                print("DIFF\n  clean:  ", x[:600], "\n  changed:", y[:600])
        print("MISMATCH (%d vs %d lines)" % (len(la), len(lb))); return 1
    print("identical: %d cases" % ncases)
    return 0 if ncases >= 12 else 1

if __name__ == "__main__":
    sys.exit(main())
