#!/venv/bin/python
"""Differential check for property C12 (densities, volume and masses of matter).

usage: diff.py <unmodified tree root> <refactored tree root>
Runs the same inputs against each tree in its own subprocess (own sys.path) and
exits 0 iff every observable output (values, units, exception types, printed
text) is identical.
"""
import json
import subprocess
import sys

PROBE = r'''
import sys, io, json, contextlib, warnings
warnings.simplefilter("ignore")
sys.path.insert(0, sys.argv[1] + "/src")
import numpy as np
from scinumtools.units import Quantity
from scinumtools.materials import Element, Substance, Material, Norm

def show(v):
    if isinstance(v, Quantity):
        return "Q(" + show(v.magnitude.value) + "~" + show(v.magnitude.error) + "|" + str(v.units()) + ")"
    if isinstance(v, (float, np.floating)):
        return "f:" + repr(float(v))
    if isinstance(v, (int, np.integer)) and not isinstance(v, bool):
        return "i:" + repr(int(v))
    if isinstance(v, np.ndarray):
        return "a:" + repr(v.tolist())
    if isinstance(v, dict):
        return "{" + ", ".join(show(k) + ": " + show(x) for k, x in v.items()) + "}"
    if isinstance(v, (list, tuple)):
        return "[" + ", ".join(show(x) for x in v) + "]"
    return type(v).__name__ + ":" + repr(v)

def table(pt):
    if pt is None:
        return "None"
    out = []
    for key in pt.keys():
        row = pt[key]
        d = row if isinstance(row, dict) else row.__dict__
        out.append(str(key) + " => " + show(dict(d)))
    return out

def matter(m, components=None):
    res = {}
    for name in ("mass_density", "number_density", "volume", "mass",
                 "composite_mass", "component_mass", "proportion_norm", "proportion",
                 "number_density_given", "expr", "isotope", "ionisation", "Z", "N", "e"):
        if hasattr(m, name):
            res[name] = show(getattr(m, name))
    res["str"] = str(m)
    for q in (True, False):
        res["data_matter_%s" % q] = table(m.data_matter(quantity=q))
        if components is not None:
            res["data_matter_sel_%s" % q] = table(m.data_matter(components=components, quantity=q))
        if hasattr(m, "data_components"):
            res["data_components_%s" % q] = table(m.data_components(quantity=q))
            res["data_composite_%s" % q] = table(m.data_composite(quantity=q))
    if hasattr(m, "components"):
        res["components"] = {k: [show(c.proportion), show(c.component_mass)] for k, c in m.components.items()}
    buf = io.StringIO()
    with contextlib.redirect_stdout(buf):
        m.print()
        if getattr(m, "mass_density", None):
            m.print_matter()
    res["print"] = buf.getvalue()
    return res

def c_el_rho():      return matter(Element("B", mass_density=Quantity(997, "kg/m3"), volume=Quantity(1, "l")))
def c_el_rho_u():    return matter(Element("B", mass_density=Quantity(0.997, "g/cm3"), volume=Quantity(1000, "cm3")))
def c_el_n():        return matter(Element("O{16}", number_density=Quantity(2.5e19, "cm-3")))
def c_el_n_u():      return matter(Element("O{16}", number_density=Quantity(2.5e25, "m-3"), volume=Quantity(2, "m3")))
def c_el_prop():     return matter(Element("Fe{56+2}", proportion=3, number_density=Quantity(1e20, "cm-3"), volume=Quantity(3, "dm3")))
def c_el_ion():      return matter(Element("O{-}", natural=False, mass_density=Quantity(1.4, "g/cm3")))
def c_el_ion2():     return matter(Element("He{+2}", mass_density=Quantity(0.2, "g/l"), volume=Quantity(5, "l")))
def c_el_D():        return matter(Element("D{+}", number_density=Quantity(1e14, "cm-3"), volume=Quantity(1, "m3")))
def c_el_T():        return matter(Element("T", natural=False, mass_density=Quantity(1e-3, "kg/m3")))
def c_el_nucleon():  return matter(Element("[p]", number_density=Quantity(1, "cm-3"), volume=Quantity(1, "km3")))
def c_el_none():     return matter(Element("C"))
def c_el_both():     return matter(Element("C", number_density=Quantity(1e22, "cm-3"), mass_density=Quantity(2.2, "g/cm3"), volume=Quantity(1, "cm3")))
def c_el_badiso():   return matter(Element("C{99}", mass_density=Quantity(1, "g/cm3")))
def c_el_badexpr():  return matter(Element("{12}", mass_density=Quantity(1, "g/cm3")))
def c_el_badunit():  return matter(Element("C", mass_density=Quantity(1, "m/s")))
def c_el_badvol():   return matter(Element("C", mass_density=Quantity(1, "g/cm3"), volume=Quantity(1, "s")))
def c_el_mul():      return matter(Element("N", mass_density=Quantity(1, "g/cm3")) * 3)
def c_el_add():      return matter(Element("N") + Element("N", proportion=2))
def c_el_addbad():   return matter(Element("N") + Element("O"))

def c_sub_rho():     return matter(Substance("B{11}N{14}H{1}6", mass_density=Quantity(780, "kg/m3")), ["B{11}", "H{1}"])
def c_sub_rho_v():   return matter(Substance("B{11}N{14}H{1}6", mass_density=Quantity(0.78, "g/cm3"), volume=Quantity(1, "l")), ["N{14}"])
def c_sub_n():       return matter(Substance("B{11}N{14}H{1}6", number_density=Quantity(1.5123538e22, "cm-3")))
def c_sub_n_u():     return matter(Substance("H2O", number_density=Quantity(3.3e28, "m-3"), volume=Quantity(250, "ml")), ["O"])
def c_sub_abund():   return matter(Substance("H2O", natural=False, mass_density=Quantity(997, "kg/m3"), volume=Quantity(1, "l")))
def c_sub_paren():   return matter(Substance("Ca(OH)2", mass_density=Quantity(2.21, "g/cm3"), volume=Quantity(0.5, "m3")))
def c_sub_ions():    return matter(Substance("Na{+}Cl{-}", mass_density=Quantity(2160, "kg/m3"), volume=Quantity(2, "cm3")))
def c_sub_dict():    return matter(Substance({"C": 6, "H": 12, "O": 6}, mass_density=Quantity(1.54, "g/cm3"), volume=Quantity(10, "cm3")))
def c_sub_dict_n():  return matter(Substance({"U{235}": 1, "O": 2}, number_density=Quantity(2.4e22, "cm-3"), volume=Quantity(1, "l")))
def c_sub_add():
    s = Substance("H2", mass_density=Quantity(1, "g/cm3"), volume=Quantity(1, "l"))
    s.add("O", 1)
    return matter(s)
def c_sub_add_n():
    s = Substance("H2", number_density=Quantity(1e22, "cm-3"), volume=Quantity(1, "l"))
    s.add("O", 1)
    s.add("H", 2)
    return matter(s)
def c_sub_empty():
    s = Substance(mass_density=Quantity(1, "g/cm3"))
    return [show(s.data_matter()), show(s.mass_density), show(s.number_density)]
def c_sub_none():    return matter(Substance("CO2"))
def c_sub_mul():     return matter(Substance("CO2", mass_density=Quantity(1, "g/cm3")) * 2)
def c_sub_sum():     return matter(Substance("CO2") + Substance("H2O"))
def c_sub_nucl():    return matter(Substance("[p]2[e]", number_density=Quantity(1e10, "cm-3"), volume=Quantity(1, "m3")))
def c_sub_badunit(): return matter(Substance("H2O", number_density=Quantity(1, "kg")))
def c_sub_badel():   return matter(Substance("Xx2", mass_density=Quantity(1, "g/cm3")))
def c_sub_volonly(): return matter(Substance("H2O", volume=Quantity(1, "l")))

def c_mat_rho():     return matter(Material("0.2 <H2O> 0.3 <NaCl>", mass_density=Quantity(0.3, "g/cm3")), ["NaCl"])
def c_mat_rho_v():   return matter(Material("0.2 <H2O> 0.3 <NaCl>", mass_density=Quantity(300, "kg/m3"), volume=Quantity(1, "l")), ["H2O"])
def c_mat_n():       return matter(Material("0.2 <H2O> 0.3 <NaCl>", number_density=Quantity(8.5e21, "cm-3"), volume=Quantity(1e-3, "m3")))
def c_mat_massfr():  return matter(Material("0.2 <H2O> 0.8 <NaCl>", norm_type=Norm.MASS_FRACTION, mass_density=Quantity(1.2, "g/cm3"), volume=Quantity(3, "l")))
def c_mat_massfr_n():return matter(Material({"N2": 0.755, "O2": 0.232, "Ar": 0.013}, norm_type=Norm.MASS_FRACTION, number_density=Quantity(2.5e19, "cm-3"), volume=Quantity(1, "m3")))
def c_mat_dict():    return matter(Material({"N2": 0.78, "O2": 0.21, "Ar": 0.01}, mass_density=Quantity(1.225, "kg/m3"), volume=Quantity(1, "m3")), ["O2", "Ar"])
def c_mat_abund():   return matter(Material("0.5 <D2O> 0.5 <H2O>", natural=False, mass_density=Quantity(1.05, "g/cm3"), volume=Quantity(100, "ml")))
def c_mat_exp():     return matter(Material("1e-2 <CO2> 0.99 <N2>", mass_density=Quantity(1.2e-3, "g/cm3")))
def c_mat_add():
    m = Material("0.2 <H2O>", mass_density=Quantity(1, "g/cm3"), volume=Quantity(1, "l"))
    m.add("NaCl", 0.3)
    return matter(m)
def c_mat_sum():     return matter(Material("0.2 <H2O>") + Material("0.3 <NaCl>"))
def c_mat_rmul():    return matter(2 * Material("0.2 <H2O> 0.3 <NaCl>", mass_density=Quantity(1, "g/cm3")))
def c_mat_none():    return matter(Material("0.2 <H2O> 0.3 <NaCl>"))
def c_mat_empty():
    m = Material(mass_density=Quantity(1, "g/cm3"))
    return [show(m.data_matter()), show(m.mass_density), show(m.number_density), str(m)]
def c_mat_badunit(): return matter(Material("0.2 <H2O>", mass_density=Quantity(1, "cm-3")))
def c_mat_badsub():  return matter(Material("0.2 <Qq>", mass_density=Quantity(1, "g/cm3")))

results = {}
for name, fn in sorted((k, v) for k, v in globals().items() if k.startswith("c_")):
    try:
        results[name] = ["ok", fn()]
    except BaseException as exc:
        results[name] = ["raised", type(exc).__name__]
sys.__stdout__.write(json.dumps(results, sort_keys=True))
'''


def run(root):
    proc = subprocess.run([sys.executable, "-c", PROBE, root],
                          capture_output=True, text=True, cwd="/tmp")
    if proc.returncode != 0:
        print("probe failed for", root)
        print(proc.stderr[-3000:])
        sys.exit(2)
    return json.loads(proc.stdout)


def main():
    base, new = run(sys.argv[1]), run(sys.argv[2])
    bad = 0
    for name in sorted(set(base) | set(new)):
        if base.get(name) != new.get(name):
            bad += 1
            print("DIFF", name)
            print("  base:", json.dumps(base.get(name))[:1500])
            print("  new :", json.dumps(new.get(name))[:1500])
    ok = sum(1 for v in base.values() if v[0] == "ok")
    print("cases: %d (ok in base: %d, raising in base: %d), differing: %d"
          % (len(base), ok, len(base) - ok, bad))
    sys.exit(1 if bad else 0)


if __name__ == "__main__":
    main()
