#!/venv/bin/python
"""Differential check: run the same solver inputs against two trees and compare.

usage: diff.py <unmodified tree root> <refactored tree root>
exit 0 iff every observable (value type, value repr, exception type, left-over
token buffers, units strings) is identical in both trees.
"""
import json
import subprocess
import sys

CHILD = r'''
import sys, json, random, warnings
warnings.simplefilter("ignore")
root = sys.argv[1]
sys.path.insert(0, root + "/src")
import numpy as np
from scinumtools.solver import *
from scinumtools.solver.tokens import Tokens
from scinumtools.solver.expression import Expression

out = []

def show(v):
    if isinstance(v, AtomBase):
        return ["atom", type(v.value).__name__, repr(v.value)]
    return ["other", type(v).__name__, repr(v)]

def run(tag, fn):
    try:
        out.append([tag, "ok", fn()])
    except BaseException as e:
        out.append([tag, "raise", type(e).__name__])

FIXED = [
    "1", " 2 ", "1+2", "1 + 2", "1+2*3", "(1+2)*3", "2**3**2", "-2**2", "2**-2", "- 2 ** - 2",
    "2*-3", "2*+3", "2--3", "2-+3", "2+-3", "2++3", "--2", "-+2", "+-2", "+2", "-(1+2)", "+(1+2)",
    "1-2-3", "8/4/2", "8 / 4 * 2", "2*3**2", "1+2<4", "1+2<=3&&4>3", "1<2||3<2&&0", "!1", "!0", "!!1", "!!!0",
    "!1==0", "!(1==0)", "1!=2", "1==1&&!0", "1>=1", "1>2", "1<2<3", "3>2==1",
    "exp(1)", "log(exp(2))", "log10(1000)", "sqrt(16)", "sin(0)", "cos(0)", "tan(0.5)",
    "logb(8,2)", "pow(2,10)", "pow(2,pow(2,2))", "logb( 81 , 3 )", "pow((1+1),(2+1))",
    "((((3))))", "(1+(2*(3-(4/2))))", "sqrt(sqrt(16))*-1", "2*(3+4)**2/7-1",
    "1e3+1", "1.5e-3*2", "exp(-1)**2", "-exp(1)", "!sqrt(0)", "1&&0||1", "0||0&&1", "1 && 1 && 0", "0 || 0 || 2",
    "2 ** 3 * 4 + 5 < 100 && ! 0 || 0",
    "2---3", "2-+-3", "2+-+3", "-(-(-2))", "2*--3", "2/-+2", "(-2)", "(+2)", "2**--2", "---2", "+++2", "-+-+2", "1<-2", "1==-1", "!-1", "-!0",
    "pow(-2,+2)", "logb(+8,--2)", "2 - - 3", "2 + - 3", "- - 2", "2 * - 3",
    # ill-formed
    "", " ", "(", ")", "(1+2", "1+2)", "((1)", "(1))", "pow(2)", "pow(1,2,3)", "logb(3)", "sin(1,2)", "sqrt()", "()",
    "1+", "*2", "1*/2", "1**", "/", "1 2", "1==", "==1", "&&1", "1||", "!", "1!", "1 ! 2", "abc", "1+abc", "log(", "pow(1,", "pow(,)",
    "1,2", "exp(1)(2)", "2(3)", "(2)3", "1<", "<", "1+*2", "--", "+", "-",
]

def gen(rng, depth):
    if depth <= 0 or rng.random() < 0.25:
        return rng.choice(["1", "2", "3", "0.5", "4", "10", "0", "7.25"])
    k = rng.randrange(8)
    sp = rng.choice(["", " "])
    if k == 0:
        return "(" + sp + gen(rng, depth - 1) + sp + ")"
    if k == 1:
        f = rng.choice(["exp", "log", "log10", "sqrt", "sin", "cos", "tan"])
        return f + "(" + gen(rng, depth - 1) + ")"
    if k == 2:
        f = rng.choice(["logb", "pow"])
        return f + "(" + gen(rng, depth - 1) + sp + "," + sp + gen(rng, depth - 1) + ")"
    if k == 3:
        return rng.choice(["-", "+", "!"]) + sp + gen(rng, depth - 1)
    op = rng.choice(["**", "*", "/", "+", "-", "==", "!=", "<=", ">=", "<", ">", "&&", "||"])
    return gen(rng, depth - 1) + sp + op + sp + gen(rng, depth - 1)

def mutate(rng, s):
    if not s:
        return "("
    i = rng.randrange(len(s))
    k = rng.randrange(3)
    if k == 0:
        return s[:i] + s[i + 1:]
    if k == 1:
        return s[:i] + rng.choice("()+-*/,!<>=&|") + s[i:]
    return s[:i] + rng.choice("()+-*/,") + s[i + 1:]

rng = random.Random(20240701)
GEN = []
for n in range(220):
    e = gen(rng, rng.randrange(1, 5))
    GEN.append(e)
    if n % 2 == 0:
        GEN.append(mutate(rng, e))

def solve_default(expr):
    with ExpressionSolver(AtomBase) as es:
        r = es.solve(expr)
        return [show(r), repr(es.tokens.left), repr(es.tokens.right)]

for e in FIXED + GEN:
    run("default:" + e, lambda e=e: solve_default(e))

# one solver instance re-used for several expressions (fresh buffers each time)
def reuse():
    res = []
    with ExpressionSolver(AtomBase) as es:
        for e in ["1+", "1+2", "(", "3*(2+1)", "pow(1)", "!0"]:
            try:
                res.append(show(es.solve(e)))
            except BaseException as x:
                res.append(type(x).__name__)
            res.append([repr(es.tokens.left), repr(es.tokens.right)])
    return res
run("reuse", reuse)

# Expression object instead of a string
run("exprobj", lambda: solve_default(Expression("2*(3+4)")))

# restricted operator tables and custom steps
def restricted(ops, steps, expr):
    with ExpressionSolver(AtomBase, ops, steps) as es:
        return show(es.solve(expr))
run("sel1", lambda: restricted({'gt': OperatorGt, 'eq': OperatorEq}, None, "23 > 4"))
run("sel2", lambda: restricted({'log': OperatorLog}, None, "23 > 4"))
run("sel3", lambda: restricted({'par': OperatorPar, 'mul': OperatorMul, 'truediv': OperatorTruediv}, None, "2*(3/4)*5"))
run("sel4", lambda: restricted({'add': OperatorAdd, 'mul': OperatorMul},
                               [dict(operators=['add'], otype=Otype.BINARY), dict(operators=['mul'], otype=Otype.BINARY)], "2*3+4*5"))
run("sel5", lambda: restricted({'add': OperatorAdd, 'mul': OperatorMul},
                               [dict(operators=['add'], otype=Otype.TERNARY), dict(operators=['mul'], otype=Otype.BINARY)], "2*3"))
run("sel6", lambda: restricted({'add': OperatorAdd, 'mul': OperatorMul},
                               [dict(operators=['sub', 'nothing'], otype=Otype.BINARY), dict(operators=['mul', 'add'], otype=Otype.BINARY)], "2*3+4"))

# custom string atom
class AtomStr(AtomBase):
    def __init__(self, value):
        self.value = str(value)
    def __add__(self, other):
        return AtomStr(self.value + other.value)
    def __gt__(self, other):
        return AtomStr(len(self.value) > len(other.value))
def custom(expr, steps=None):
    with ExpressionSolver(AtomStr, {'add': OperatorAdd, 'gt': OperatorGt}, steps) as es:
        return show(es.solve(expr))
run("str1", lambda: custom("foo + bar"))
run("str2", lambda: custom("limit + 100 km/s > limit + 50000000000 km/s",
                           [dict(operators=['add'], otype=Otype.BINARY), dict(operators=['gt'], otype=Otype.BINARY)]))

# direct use of the helper classes
def tokens_direct():
    t = Tokens(AtomBase)
    for x in [AtomBase(2), OperatorMul(), AtomBase(3), OperatorAdd(), OperatorSub(), AtomBase(4)]:
        t.append(x)
    res = []
    t.operate((OperatorAdd, OperatorSub), Otype.UNARY); res.append([repr(t.left), repr(t.right)])
    t.operate((OperatorMul,), Otype.BINARY); res.append([repr(t.left), repr(t.right)])
    t.operate((OperatorAdd, OperatorSub), Otype.BINARY); res.append([repr(t.left), repr(t.right)])
    t.operate((OperatorAdd,), Otype.TERNARY); res.append([repr(t.left), repr(t.right)])
    res.append([repr(t.get_left()), repr(t.get_right()), repr(t.get_right())])
    return res
run("tokens", tokens_direct)

def par_direct(cls, text):
    e = Expression(text)
    op = cls(e)
    return [repr(op), repr(op.args), repr(e.left), repr(e.right)]
for cls, text in [(OperatorPar, "(1+2)*3"), (OperatorPowb, "pow(1,(2,3))+1"), (OperatorPar, "(1"), (OperatorLogb, "logb(1)"),
                  (OperatorPar, "(a,b)"), (OperatorSin, "sin( (1) )x")]:
    run("par:" + cls.__name__ + ":" + text, lambda cls=cls, text=text: par_direct(cls, text))

run("atom1", lambda: [show(AtomBase(" 1.5 ")), show(AtomBase(True)), show(AtomBase(3)), show(AtomBase(np.float64(2)))])
run("atom2", lambda: show(AtomBase("x")))

# other front ends built on the same solver
def units():
    from scinumtools.units import Quantity, Unit
    return [str(Quantity(1, 'kg*m2/s2')), str(Quantity(2, 'km/(s*Mpc)')), str(Quantity(3, 'm').to('cm')),
            str(Quantity(1, 'J/(kg*K)')), str(Quantity(1, 'm2*(kg/s)'))]
run("units", units)
def units_bad():
    from scinumtools.units import Quantity
    return str(Quantity(1, 'kg*(m'))
run("units_bad", units_bad)
def units_bad2():
    from scinumtools.units import Quantity
    return str(Quantity(1, '(m/s)2*kg'))
run("units_bad2", units_bad2)
def dipnum():
    from scinumtools.dip.solvers import NumericalSolver
    from scinumtools.dip import Environment
    with NumericalSolver(Environment()) as s:
        return [str(s.solve("2 * (3 + 4) - -1")), str(s.solve("pow(2,3) / 4 + sqrt(16)")), str(s.solve("2 m * 3 s"))]
run("dipnum", dipnum)
def dipnum1(expr):
    from scinumtools.dip.solvers import NumericalSolver
    from scinumtools.dip import Environment
    with NumericalSolver(Environment()) as s:
        return str(s.solve(expr))
for e in ["2 - -3", "2 + -3", "2 - +3", "2 + +3", "-2 + 3", "+2 - 3", "2 * -3", "2 * +3", "(-2) - (+3)", "2 -  - 3", "2 +  + 3", "2 +  - 3", "2 -  + 3",
          "2 m + 3 cm", "2 m - 3 s", "2 + ", " - ", "pow(-2,2) - -1"]:
    run("dipnum:" + e, lambda e=e: dipnum1(e))
def materials():
    from scinumtools.materials import Substance
    return str(Substance('H2O').data_components(quantity=False).to_text()) if hasattr(Substance('H2O'), 'data_components') else 'na'
run("materials", materials)

print(json.dumps(out))
'''


def run_tree(root):
    p = subprocess.run([sys.executable, '-c', CHILD, root], capture_output=True, text=True, timeout=600)
    if p.returncode != 0:
        print("child failed for", root, file=sys.stderr)
        print(p.stderr[-3000:], file=sys.stderr)
        sys.exit(2)
    return json.loads(p.stdout.strip().splitlines()[-1])


def main():
    a = run_tree(sys.argv[1].rstrip('/'))
    b = run_tree(sys.argv[2].rstrip('/'))
    bad = 0
    if len(a) != len(b):
        print("different number of records", len(a), len(b))
        bad += 1
    for x, y in zip(a, b):
        if x != y:
            bad += 1
            if bad < 20:
                print("DIFF", x, y)
    nok = sum(1 for x in a if x[1] == 'ok')
    print(f"{len(a)} inputs compared ({nok} returned a value, {len(a) - nok} raised), {bad} differences")
    sys.exit(1 if bad else 0)


if __name__ == '__main__':
    main()
