#!/venv/bin/python
"""Differential check for property C02 (solver instance unaffected by history).

usage: diff.py <unmodified tree root> <refactored tree root>

Runs the same sequences of solve() calls (on ONE solver instance per sequence,
with failing calls interleaved) against both trees, each in its own subprocess
with its own sys.path, and exits 0 iff every observable outcome (value, units,
raised exception type, left-over token buffer sizes) is identical.
"""
import json
import os
import subprocess
import sys

RUNNER = r'''
import sys, json, os
root = sys.argv[1]
sys.path.insert(0, os.path.join(root, 'src'))
import warnings
warnings.simplefilter('ignore')
import numpy as np
np.seterr(all='ignore')
import scinumtools
assert os.path.abspath(scinumtools.__file__).startswith(os.path.abspath(root) + os.sep), scinumtools.__file__
from scinumtools.solver import *
from scinumtools.solver.expression import Expression
from scinumtools.units.unit_solver import UnitSolver, AtomParser
from scinumtools.units import Quantity


def show(res):
    if res is None:
        return 'None'
    if isinstance(res, AtomBase):
        v = res.value
        return '%s(%s:%r)' % (type(res).__name__, type(v).__name__, v)
    if hasattr(res, 'magnitude') and hasattr(res, 'baseunits'):
        return 'Q(%r|%r)' % (res.magnitude, res.baseunits)
    return '%s:%r' % (type(res).__name__, res)


def run_seq(es, exprs):
    out = []
    for e in exprs:
        try:
            r = es.solve(e() if callable(e) else e)
            rec = ['ok', show(r)]
        except BaseException as exc:
            rec = ['err', type(exc).__name__]
        rec.append([len(es.tokens.left), len(es.tokens.right)])
        out.append(rec)
    return out


class BoomAtom(AtomBase):
    def __init__(self, value):
        if isinstance(value, str) and value.strip() == 'boom':
            raise KeyError('boom')
        if isinstance(value, str) and value.strip() == 'x':
            value = 7.0
        super().__init__(value)


class StrAtom(AtomBase):
    def __init__(self, value):
        self.value = str(value)
    def __add__(self, other):
        return StrAtom(self.value + other.value)
    def __gt__(self, other):
        return StrAtom(len(self.value) > len(other.value))


class OperatorSquare(OperatorBase):
    symbol = '~'
    def operate_unary(self, tokens):
        right = tokens.get_right()
        tokens.put_left(right * right)


class OperatorCube(OperatorBase):
    symbol = '^'
    def operate_unary(self, tokens):
        left = tokens.get_left()
        tokens.put_left(left * left * left)


results = {}

# 1. default solver, good expressions only, repeated
GOOD = ['1 + 2*3', '-(2 + 3)**2', 'sin(0.5) + cos(0.25)*tan(1)', 'logb(8, 2) + pow(2, 3)',
        '2 < 3 && !(4 == 5) || 0', '--3 - +-2', 'exp(1) / sqrt(4) - log(3) + log10(100)',
        '!!1', '1 != 2', '3 >= 3 && 2 <= 1', '((1))', ' 4 ']
results['good'] = run_seq(ExpressionSolver(AtomBase), GOOD + GOOD[::-1])

# 2. default solver, failures at various token positions interleaved with good ones
BAD = ['foo + 1', '1 + foo', '(1 + 2', '2 * (3 + (4 - 1)', '1 +', '* 2', '1 2 +', 'logb(8)',
       'pow(1, 2, 3)', '', '()', '1 + (2 * bar) + 3', '3 3', '1 + + ', '!', '&& 1',
       'sin(foo) + 1', '1 + sin(', '1 / 0', '2 ** ']
mixed = []
for i, b in enumerate(BAD):
    mixed.append(b)
    mixed.append(GOOD[i % len(GOOD)])
results['mixed'] = run_seq(ExpressionSolver(AtomBase), mixed)

# 3. same expressions, each on a fresh instance (history-free reference)
results['fresh'] = [run_seq(ExpressionSolver(AtomBase), [e])[0] for e in mixed]

# 4. atom constructor raising
results['boom'] = run_seq(ExpressionSolver(BoomAtom),
                          ['x + 1', 'boom + 1', 'x + 1', '1 + boom', 'x * (boom)', 'x * (2)',
                           '(x + boom', 'x', 'sqrt(boom)', 'sqrt(x + 9)'])

# 5. subset of operators
ops = {'gt': OperatorGt, 'eq': OperatorEq}
results['subset'] = run_seq(ExpressionSolver(AtomBase, ops),
                            ['23 > 4', '20 == 20', '1 + 2', '23 > 4', '5 > ', '> 5', '4 > 23', '1 > 2 > 3', '2 == 2'])
results['subset_log'] = run_seq(ExpressionSolver(AtomBase, {'log': OperatorLog}),
                                ['log(1)', '23 > 4', 'log(2', 'log(1)', 'log()', 'log(1)'])

# 6. custom atom + custom steps
ops = {'add': OperatorAdd, 'gt': OperatorGt, 'par': OperatorPar}
steps = [dict(operators=['par'], otype=Otype.ARGS),
         dict(operators=['add'], otype=Otype.BINARY),
         dict(operators=['gt'], otype=Otype.BINARY)]
results['stratom'] = run_seq(ExpressionSolver(StrAtom, ops, steps),
                             ['foo + bar', '(limit + 100 km/s) > (limit + 5 km/s)', '(foo + bar',
                              'foo + bar', 'foo +', 'a > b + c', '+ foo', 'foo + bar'])

# 7. custom operators + custom step order (including a step naming an absent operator
#    and an otype that no operator implements)
ops = {'square': OperatorSquare, 'cube': OperatorCube, 'add': OperatorAdd}
steps = [dict(operators=['square', 'cube', 'nonexistent'], otype=Otype.UNARY),
         dict(operators=['missing'], otype=Otype.BINARY),
         dict(operators=['add'], otype=Otype.TERNARY),
         dict(operators=['add'], otype=Otype.BINARY)]
results['custom_ops'] = run_seq(ExpressionSolver(AtomBase, ops, steps),
                                ['~3 + 2^', '~ + 2', '~3 + 2^', '^', '3 + ~', '~3 + 2^', '1 + 2 + ~2'])

# 8. reversed step order (mul after add) on default operators
steps = [dict(operators=['par'], otype=Otype.ARGS),
         dict(operators=['add', 'sub'], otype=Otype.BINARY),
         dict(operators=['mul', 'truediv'], otype=Otype.BINARY)]
results['revsteps'] = run_seq(ExpressionSolver(AtomBase, None, steps),
                              ['1 + 2 * 3', '(1 + 2', '1 + 2 * 3', '2 * (1 + x)', '2 * (1 + 3) - 1', '1 < 2', '4 / 2 + 2'])

# 9. Expression objects passed directly, with and without context manager
with ExpressionSolver(AtomBase) as es:
    results['exprobj'] = run_seq(es, [lambda: Expression('1 + 1'), lambda: Expression('(1'),
                                      lambda: Expression('2 ** 3 ** 2'), '7'])

# 10. default tables are per-instance: mutating one instance must not leak into another
a = ExpressionSolver(AtomBase)
b = ExpressionSolver(AtomBase)
before = run_seq(b, ['1 + 2 * 3', 'sin(0)'])
del a.operators['mul']
a.operators['sin'] = OperatorCos
a.steps.pop(3)
a.steps[0]['operators'].remove('cos')
c = ExpressionSolver(AtomBase)
results['isolation'] = [before, run_seq(a, ['1 + 2 * 3', 'sin(0)', 'cos(0)']),
                        run_seq(b, ['1 + 2 * 3', 'sin(0)', 'cos(0)']),
                        run_seq(c, ['1 + 2 * 3', 'sin(0)', 'cos(0)']),
                        [list(c.operators.keys()), [(s['operators'], s['otype'].name) for s in c.steps]],
                        a.operators is not b.operators, a.steps is not b.steps]

# 11. the unit solver built on top (function atom, operator subset)
def unit_seq(exprs):
    out = []
    for e in exprs:
        try:
            out.append(['ok', show(UnitSolver(e))])
        except BaseException as exc:
            out.append(['err', type(exc).__name__])
    return out
results['units'] = unit_seq(['kg*m2/s2', 'kg*(m/s', 'xyz*m', 'km/(s*Mpc)', 'm*', 'kg*m2/s2', '(m)', 'N/m2'])
es = ExpressionSolver(AtomParser, {'par': OperatorPar, 'mul': OperatorMul, 'truediv': OperatorTruediv})
results['units_one_instance'] = run_seq(es, ['kg*m2/s2', 'kg*(m/s', 'xyz*m', 'km/(s*Mpc)', '*m', 'kg*m2/s2', '(m)', 'm/'])

# 12. quantities (values + units) through the public API
qs = []
for u in ['km/s', 'erg', 'kg*m2/s2', 'bad_unit', 'J/(K*mol)']:
    try:
        q = Quantity(2.5, u).to('cm/s' if u == 'km/s' else None) if u == 'km/s' else Quantity(2.5, u)
        qs.append(['ok', str(q)])
    except BaseException as exc:
        qs.append(['err', type(exc).__name__])
results['quantity'] = qs

# 13. Tokens buffer directly
from scinumtools.solver.tokens import Tokens
t = Tokens(AtomBase)
t.append(AtomBase(1)); t.append(OperatorAdd()); t.append(AtomBase(2)); t.append(OperatorMul()); t.append(AtomBase(4))
t.operate((OperatorMul,), Otype.BINARY)
s1 = [show(x) if isinstance(x, AtomBase) else repr(x) for x in t.right]
t.operate((OperatorAdd,), Otype.TERNARY)
s2 = [show(x) if isinstance(x, AtomBase) else repr(x) for x in t.right]
t.operate((OperatorAdd, OperatorSub), Otype.BINARY)
s3 = [show(x) if isinstance(x, AtomBase) else repr(x) for x in t.right]
results['tokens'] = [s1, s2, s3, len(t.left), show(t.get_right()), show(t.get_right()), show(t.get_left())]

print(json.dumps(results, sort_keys=True, default=repr))
'''


def run(root):
    root = os.path.abspath(root)
    env = dict(os.environ)
    env.pop('PYTHONPATH', None)
    env['PYTHONDONTWRITEBYTECODE'] = '1'
    p = subprocess.run([sys.executable, '-c', RUNNER, root], capture_output=True, text=True,
                       cwd='/', env=env)
    if p.returncode != 0:
        sys.stderr.write(p.stderr)
        raise SystemExit(2)
    return json.loads(p.stdout)


def main():
    base, new = os.path.abspath(sys.argv[1]), os.path.abspath(sys.argv[2])
    a, b = run(base), run(new)
    bad = 0
    ncase = 0
    for k in sorted(set(a) | set(b)):
        ncase += len(a.get(k, []))
        if a.get(k) != b.get(k):
            bad += 1
            print('DIFF in', k)
            print('  base:', a.get(k))
            print('  new :', b.get(k))
    print('groups: %d, recorded outcomes: %d, differing groups: %d' % (len(a), ncase, bad))
    sys.exit(1 if bad else 0)


if __name__ == '__main__':
    main()
