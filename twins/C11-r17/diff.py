#!/venv/bin/python
"""Differential check for property C11 (number / mass fractions of composites).

usage: diff.py <unmodified tree root> <refactored tree root>
Runs the same inputs against both trees (each in its own subprocess with its
own sys.path) and exits 0 iff every observable output is identical.
"""
import json
import subprocess
import sys

RUNNER = r'''
import sys, json, io, contextlib, warnings
warnings.filterwarnings("ignore")
sys.path.insert(0, sys.argv[1] + "/src")
from scinumtools.materials import Material, Substance, Element, Norm
from scinumtools.units import Quantity

def show(v):
    if isinstance(v, Quantity):
        return "Q(%r|%s)" % (v.value(), v.units())
    if isinstance(v, float):
        return repr(float(v))
    try:
        import numpy as np
        if isinstance(v, np.generic):
            return repr(v.item())
    except Exception:
        pass
    return repr(v)

def safe(fn):
    try:
        return fn()
    except Exception as e:
        return "EXC " + type(e).__name__

def table(pt):
    if pt is None:
        return None
    out = {}
    for key, row in pt.items():
        out[str(key)] = {str(c): show(v) for c, v in row.items()}
    return out

def composite(c):
    res = {
        "str": str(c),
        "expr": c.expr,
        "norm_type": str(c.norm_type),
        "proportion_norm": show(c.proportion_norm),
        "composite_mass": show(c.composite_mass),
        "component_mass": show(getattr(c, "component_mass", None)),
        "mass_density": show(c.mass_density),
        "number_density": show(c.number_density),
        "mass": show(c.mass),
        "props": {k: show(v.proportion) for k, v in c.components.items()},
        "cmass": {k: show(v.component_mass) for k, v in c.components.items()},
    }
    for q in (True, False):
        res["components_%s" % q] = table(c.data_components(quantity=q))
        res["composite_%s" % q] = table(c.data_composite(quantity=q))
        try:
            res["matter_%s" % q] = table(c.data_matter(quantity=q))
        except Exception as e:
            res["matter_%s" % q] = "EXC " + type(e).__name__
    keys = list(c.components.keys())
    if keys:
        res["composite_sel"] = table(c.data_composite(components=keys[:1], quantity=False))
    buf = io.StringIO()
    with contextlib.redirect_stdout(buf):
        c.print()
    res["print"] = buf.getvalue()
    return res

def element(e):
    res = {
        "str": str(e), "element": e.element, "isotope": show(e.isotope),
        "ionisation": show(e.ionisation), "mass": show(e.mass),
        "Z": show(e.Z), "N": show(e.N), "e": show(e.e),
        "component_mass": show(e.component_mass),
        "composite_mass": show(e.composite_mass),
        "number_density": show(e.number_density),
        "mass_density": show(e.mass_density),
    }
    buf = io.StringIO()
    with contextlib.redirect_stdout(buf):
        e.print()
    res["print"] = buf.getvalue()
    return res

def roundtrip(spec, natural):
    """number fractions -> resulting mass fractions -> same material"""
    a = Material(spec, natural=natural, norm_type=Norm.NUMBER_FRACTION)
    ta = a.data_composite(quantity=False)
    X = {k: ta[k]["X"] for k in a.components}
    b = Material(X, natural=natural, norm_type=Norm.MASS_FRACTION)
    return {"a": composite(a), "b": composite(b)}

CASES = {
  # substances (Norm.NUMBER)
  "sub_H2O":        lambda: composite(Substance("H2O")),
  "sub_H2O_abund":  lambda: composite(Substance("H2O", natural=False)),
  "sub_DT":         lambda: composite(Substance("DT{+}O{16-2}")),
  "sub_paren":      lambda: composite(Substance("Ca(OH)2")),
  "sub_big":        lambda: composite(Substance("C6H12O6 NaCl", natural=False)),
  "sub_nucleons":   lambda: composite(Substance("[p]2[n]2[e]")),
  "sub_dict":       lambda: composite(Substance({"Fe": 2, "O": 3})),
  "sub_dict_float": lambda: composite(Substance({"B{11}": 0.5, "N": 1.5, "H{1}": 7})),
  "sub_density":    lambda: composite(Substance("H2O", mass_density=Quantity(997, "kg/m3"), volume=Quantity(1, "l"))),
  "sub_ndensity":   lambda: composite(Substance("NaCl", number_density=Quantity(2e22, "cm-3"))),
  "sub_add":        lambda: composite(Substance("H2O") + Substance("NaCl")),
  "sub_mul":        lambda: composite(Substance("CO2") * 3),
  "sub_add_elem":   lambda: composite(Substance("CO") + Element("O", 1)),
  "sub_empty":      lambda: (lambda s: [s.components, show(s.proportion_norm), show(s.composite_mass), s.data_composite()])(Substance()),
  # materials, number fractions
  "mat_nf_1":       lambda: composite(Material("1 <H2O>")),
  "mat_nf_2":       lambda: composite(Material("0.683815 <H2O> 0.316185 <NaCl>")),
  "mat_nf_scaled":  lambda: composite(Material("68.3815 <H2O> 31.6185 <NaCl>")),
  "mat_nf_3":       lambda: composite(Material({"N2": 78.0, "O2": 21.0, "Ar": 1.0})),
  "mat_nf_3_abund": lambda: composite(Material({"N2": 0.78, "O2": 0.21, "Ar": 0.01}, natural=False)),
  "mat_nf_k5":      lambda: composite(Material({"H2": 5, "He": 4, "CH4": 3, "NH3": 2, "H2O": 1})),
  "mat_nf_dens":    lambda: composite(Material("0.2 <H2O> 0.3 <NaCl>", mass_density=Quantity(1.2, "g/cm3"), volume=Quantity(2, "cm3"))),
  "mat_nf_ndens":   lambda: composite(Material({"SiO2": 3, "Al2O3": 1}, number_density=Quantity(1e22, "cm-3"), volume=Quantity(1, "m3"))),
  # materials, mass fractions
  "mat_mf_1":       lambda: composite(Material("1 <CO2>", norm_type=Norm.MASS_FRACTION)),
  "mat_mf_2":       lambda: composite(Material("0.2 <H2O> 0.3 <NaCl>", norm_type=Norm.MASS_FRACTION)),
  "mat_mf_scaled":  lambda: composite(Material("20 <H2O> 30 <NaCl>", norm_type=Norm.MASS_FRACTION)),
  "mat_mf_3_abund": lambda: composite(Material({"Fe": 0.7, "Cr": 0.2, "Ni": 0.1}, natural=False, norm_type=Norm.MASS_FRACTION)),
  "mat_mf_dens":    lambda: composite(Material({"Cu": 9, "Sn": 1}, norm_type=Norm.MASS_FRACTION, mass_density=Quantity(8.8, "g/cm3"), volume=Quantity(10, "cm3"))),
  "mat_mf_add":     lambda: composite(Material({"H2O": 1.0}, norm_type=Norm.MASS_FRACTION) + Material({"NaCl": 3.0, "H2O": 0.5}, norm_type=Norm.MASS_FRACTION)),
  "mat_rmul":       lambda: composite(2.5 * Material({"N2": 0.8, "O2": 0.2})),
  "mat_add_subst":  lambda: composite(Material({"N2": 0.8}) + Substance("O2", proportion=0.2)),
  "mat_incremental":lambda: (lambda m: (m.add("H2O", 2), m.add("NaCl", 1), m.add("H2O", 1), composite(m))[-1])(Material(norm_type=Norm.MASS_FRACTION)),
  "mat_empty":      lambda: (lambda m: [m.components, show(m.proportion_norm), show(m.composite_mass), m.data_composite(), m.data_components()])(Material()),
  # round trips x -> X -> x
  "rt_natural":     lambda: roundtrip({"H2O": 0.7, "NaCl": 0.2, "C2H5OH": 0.1}, True),
  "rt_abundant":    lambda: roundtrip({"H2O": 7, "NaCl": 2, "C2H5OH": 1}, False),
  "rt_single":      lambda: roundtrip({"UO2": 3.0}, True),
  # elements
  "el_natural":     lambda: element(Element("Cl")),
  "el_abundant":    lambda: element(Element("Cl", natural=False)),
  "el_isotope":     lambda: element(Element("O{17}", 3)),
  "el_iso_ion":     lambda: element(Element("Fe{56+3}")),
  "el_iso_minus":   lambda: element(Element("O{16-}")),
  "el_ion_plus":    lambda: element(Element("Na{+}", natural=False)),
  "el_ion_num":     lambda: element(Element("S{-2}", 2)),
  "el_D":           lambda: element(Element("D{-}")),
  "el_T":           lambda: element(Element("T")),
  "el_proton":      lambda: element(Element("[p]", 2)),
  "el_density":     lambda: element(Element("Au", mass_density=Quantity(19.3, "g/cm3"), volume=Quantity(1, "cm3"))),
  "el_data":        lambda: [table(Element("C{13}")._data({"mass": "Da", "Z": None}, lambda s, m: {"mass": m.mass, "Z": m.Z}, quantity=q)) for q in (True, False)],
  "el_mul_add":     lambda: [str(Element("O") * 2), str(Element("O", 2) + Element("O"))],
  # errors
  "err_isotope":    lambda: Element("H{9}"),
  "err_element":    lambda: Element("Xx"),
  "err_expr":       lambda: Element("{12}"),
  "err_add":        lambda: Element("O") + Element("N"),
  "err_substance":  lambda: Substance("Qq2"),
  "err_material":   lambda: Material("0.5 <Zz>"),
  "err_mf_zero":    lambda: composite(Material({"H2O": 0.0}, norm_type=Norm.MASS_FRACTION)),
  "norm_none_comp": lambda: table(Material({"H2O": 1, "NaCl": 3}, norm_type=None).data_components(quantity=False)),
  "norm_none_x":    lambda: Material({"H2O": 1, "NaCl": 3}, norm_type=None).data_composite(),
  "all_abundant":   lambda: {k: [show(e.isotope), show(e.mass), show(e.N)] for k in __import__("scinumtools.materials.periodic_table", fromlist=["PT_DATA"]).PT_DATA for e in [Element(k, natural=False)]},
  "all_natural":    lambda: {k: safe(lambda: [(show(e.isotope), show(e.mass), show(e.N), show(e.ionisation)) for e in [Element(k + "{+}")]]) for k in __import__("scinumtools.materials.periodic_table", fromlist=["PT_DATA"]).PT_DATA},
  "all_get_abund":  lambda: {k: [show(v) for v in Element("H").get_abundant(k, -2)] for k in __import__("scinumtools.materials.periodic_table", fromlist=["PT_DATA"]).PT_DATA},
  "sub_number_expr":lambda: Substance("2"),
  "mat_number_expr":lambda: Material("0.5"),
  "mat_str_add":    lambda: (lambda m: (m.add("CO2", 0.5), m.add("H2O", 0.25), composite(m))[-1])(Material("1 <H2O> 2 <N2>", natural=False)),
  "mat_mf_str_paren": lambda: composite(Material("3 <Ca(OH)2> 1 <C6H12O6>", norm_type=Norm.MASS_FRACTION)),
  "atom_number":    lambda: [Substance().atom("12"), Substance().atom("1.5e3"), Material().atom("0.25")],
  "atom_bad":       lambda: Material().atom("2abc"),
  "atom_bad_sub":   lambda: Substance().atom("3x"),
}

out = {}
for name, fn in CASES.items():
    try:
        out[name] = {"ok": fn()}
    except BaseException as e:
        out[name] = {"exc": type(e).__name__}
json.dump(out, sys.stdout, sort_keys=True, default=repr)
'''


def run(root):
    p = subprocess.run([sys.executable, "-c", RUNNER, root], capture_output=True, text=True)
    if p.returncode != 0:
        sys.stderr.write(p.stderr)
        raise SystemExit(2)
    return json.loads(p.stdout)


def main():
    a = run(sys.argv[1])
    b = run(sys.argv[2])
    bad = 0
    for k in sorted(set(a) | set(b)):
        if a.get(k) != b.get(k):
            bad += 1
            print("DIFF in case", k)
            print("   base:", json.dumps(a.get(k), sort_keys=True)[:600])
            print("   new :", json.dumps(b.get(k), sort_keys=True)[:600])
    print("%d cases compared, %d differ" % (len(a), bad))
    sys.exit(1 if bad else 0)


if __name__ == "__main__":
    main()
