#!/venv/bin/python
"""Differential test for property C19 (configuration exports).

usage: diff.py <unmodified tree root> <refactored tree root>
Runs the same set of export scenarios against each tree in its own subprocess
and exits 0 iff all observable outputs (texts, exception types) are identical.
"""
import sys, os, json, subprocess

WORKER = r'''
import sys, json, tempfile, os
root = sys.argv[1]
sys.path.insert(0, os.path.join(root, "src"))
import numpy as np
from scinumtools.dip import DIP
from scinumtools.dip.settings import Format
from scinumtools.dip.datatypes import IntegerType, FloatType, StringType, BooleanType
from scinumtools.dip.config import *

SOURCES = {
 "basic": """
simulation
  name str = 'Configuration test'
  output bool = true
box
  height float = 15 cm
num_cells int = 100
  !tags ["selection"]
""",
 "derived": """
box
  width float32 = 12 cm
    !tags ["selection"]
density float128 = 23 g/cm3
num_groups uint64 = 2399495729
small int16 = -7
usmall uint16 = 7
mid uint32 = 70000
big int64 = -9000000000
single float64 = 1.5e-3 m
off bool = false
""",
 "arrays": """
primes int[3] = [3,5,7]
sizes float[3] = [23.4,46,96.4] cm
grid int[2,3] = [[1,2,3],[4,5,6]]
cube float32[2,2,2] = [[[1,2],[3,4]],[[5,6],[7,8]]] s
flags bool[2] = [true,false]
names str[2] = ["ab","c"]
matrix uint16[3,2] = [[1,2],[3,4],[5,6]]
""",
 "strings": """
quote str = 'say "hi" now'
back str = "a\\\\b"
dollar str = 'cost $HOME `x`'
empty str = ''
""",
 "none": """
particles
  stars int = none
  tracers int = 23
  label str = none
  mass float = none kg
""",
}

COMBOS = [("basic",), ("derived",), ("arrays",), ("strings",), ("none",),
          ("basic","derived"), ("basic","derived","arrays"), ("basic","none","strings")]

def env_of(keys):
    with DIP() as dip:
        for k in keys:
            dip.add_string(SOURCES[k])
        return dip.parse()

out = []
def rec(label, fn):
    try:
        res = fn()
        out.append([label, "ok", res])
    except BaseException as e:
        out.append([label, "exc", type(e).__name__])

def canon(x):
    return json.loads(json.dumps(x, default=lambda o: repr(o)))

CLASSES = [("dip",ExportConfig),("c",ExportConfigC),("cpp",ExportConfigCPP),("rust",ExportConfigRust),
           ("fortran",ExportConfigFortran),("bash",ExportConfigBash),("json",ExportConfigJSON),
           ("toml",ExportConfigTOML),("yaml",ExportConfigYAML)]

for keys in COMBOS:
    tag = "+".join(keys)
    for cname, cls in CLASSES:
        for rename in (True, False):
            lab = f"{tag}/{cname}/rename={rename}"
            rec(lab+"/default", lambda: cls(env_of(keys), rename=rename).parse())
            if cname in ("json","toml","yaml"):
                rec(lab+"/nounits", lambda: cls(env_of(keys), rename=rename).parse(units=False))
                def twice():
                    e = cls(env_of(keys), rename=rename)
                    a = e.parse(units=True); b = e.parse(units=False); c = e.parse()
                    return [a, b, c, canon(e.data), e.text]
                rec(lab+"/twice", twice)
                def twice2():
                    e = cls(env_of(keys), rename=rename)
                    a = e.parse(units=False); b = e.parse(units=True)
                    return [a, b, canon(e.data)]
                rec(lab+"/twice2", twice2)
                rec(lab+"/valuefmt", lambda: cls(env_of(keys), dtype=Format.VALUE).parse())
            if cname == "json":
                rec(lab+"/indent", lambda: cls(env_of(keys)).parse(indent=2, sort_keys=True))
                rec(lab+"/badkw", lambda: cls(env_of(keys)).parse(nonsense=1))
            if cname == "yaml":
                rec(lab+"/flow", lambda: cls(env_of(keys)).parse(units=True, default_flow_style=True))
            if cname == "bash":
                rec(lab+"/noexport", lambda: cls(env_of(keys), rename=rename).parse(export=False))
                rec(lab+"/noexport_pos", lambda: cls(env_of(keys), rename=rename).parse(False))
            if cname == "c":
                names = list(env_of(keys).data().keys())
                rec(lab+"/guard", lambda: cls(env_of(keys), rename=rename).parse(guard="MY_H"))
                rec(lab+"/define_all", lambda: cls(env_of(keys), rename=rename).parse("G_H", tuple(names)))
                rec(lab+"/define_some", lambda: cls(env_of(keys), rename=rename).parse(define=names[::2]))
                def incl():
                    e = cls(env_of(keys), rename=rename)
                    e.include("<math.h>"); e.include("<stdio.h>"); e.include("<math.h>")
                    t1 = e.parse(); t2 = e.parse()
                    return [t1, t2, list(e.includes)]
                rec(lab+"/includes", incl)
                rec(lab+"/parse_const", lambda: [cls(env_of(keys), rename=rename).parse_const(n, p) for n, p in cls(env_of(keys)).data.items()])
                rec(lab+"/parse_define", lambda: [cls(env_of(keys), rename=rename).parse_define(n, p) for n, p in cls(env_of(keys)).data.items()])
            if cname == "cpp":
                names = list(env_of(keys).data().keys())
                rec(lab+"/guard", lambda: cls(env_of(keys), rename=rename).parse(guard="MY_HPP"))
                rec(lab+"/define_const", lambda: cls(env_of(keys), rename=rename).parse("G", tuple(names[::3]), tuple(names[1::3])))
                rec(lab+"/const_all", lambda: cls(env_of(keys), rename=rename).parse(const=names))
                rec(lab+"/define_all", lambda: cls(env_of(keys), rename=rename).parse(define=names))
                def incl():
                    e = cls(env_of(keys), rename=rename)
                    e.include("<cmath>"); e.include("<string>")
                    return [e.parse(), list(e.includes)]
                rec(lab+"/includes", incl)
                rec(lab+"/parse_constexpr", lambda: [cls(env_of(keys), rename=rename).parse_constexpr(n, p) for n, p in cls(env_of(keys)).data.items()])
                rec(lab+"/parse_const", lambda: [cls(env_of(keys), rename=rename).parse_const(n, p) for n, p in cls(env_of(keys)).data.items()])
            if cname == "fortran":
                rec(lab+"/module", lambda: cls(env_of(keys), rename=rename).parse(module="Cfg"))
                rec(lab+"/module_pos", lambda: cls(env_of(keys), rename=rename).parse("Cfg2"))
        # selections
        for sel in ({"query":"box.*"}, {"tags":["selection"]}, {"query":"*", "tags":["selection"]},
                    {"query":"particles.*"}, {"query":"nothing_here"}, {"query":"primes"}):
            def selrun():
                e = cls(env_of(keys)); e.select(**sel)
                return [e.parse(), sorted(e.data.keys())]
            rec(f"{tag}/{cname}/select={sorted(sel.items())}", selrun)
    # explicit dtype kwargs
    rec(f"{tag}/dip/dtype_kw", lambda: ExportConfig(env_of(keys), dtype=Format.TYPE, rename=False).parse())
    rec(f"{tag}/bash/dtype_type", lambda: ExportConfigBash(env_of(keys), dtype=Format.TYPE).parse())
    rec(f"{tag}/c/dtype_value", lambda: ExportConfigC(env_of(keys), dtype=Format.VALUE).parse())
    rec(f"{tag}/rust/dtype_tuple", lambda: ExportConfigRust(env_of(keys), dtype=Format.TUPLE).parse())

# unsupported / unusual types injected through the public ``data`` attribute
ODD = {
 "i8": IntegerType(5, precision=8), "u8": IntegerType(5, precision=8, unsigned=True),
 "i16": IntegerType(5, precision=16), "u16": IntegerType(5, precision=16, unsigned=True),
 "i24": IntegerType(5, precision=24), "u1": IntegerType(5, precision=32, unsigned=1),
 "i128": IntegerType(5, precision=128), "f16": FloatType(1.0, precision=16),
 "f80": FloatType(1.0, precision=80), "f96": FloatType(1.0, precision=96), "f128": FloatType(1.0, precision=128),
 "f32u": FloatType(1.0, "m", precision=32), "arr_i8": IntegerType([1,2], precision=8),
 "arr_empty": IntegerType([], precision=32), "arr_nested_empty": FloatType([[],[]]),
 "tuple_arr": IntegerType((1,2,3)), "np_arr": FloatType(np.array([[1.,2.],[3.,4.]])),
 "s": StringType("x\ny\"z"), "b": BooleanType(True),
 "u24": IntegerType(5, precision=24, unsigned=True), "u128": IntegerType(5, precision=128, unsigned=True),
 "u32": IntegerType(5, precision=32, unsigned=True), "u64": IntegerType(2**63, precision=64, unsigned=True),
 "i32": IntegerType(-5), "i64": IntegerType(-2**62, precision=64), "f64": FloatType(-2.5e300),
 "f32arr": FloatType([[1.5,2.5,3.5]], "km", precision=32), "u8arr": IntegerType([[1],[2]], precision=8, unsigned=True),
 "f0": FloatType(1.0, precision=0), "barr": BooleanType([True, False]), "sarr": StringType(["a", "b\"c"]),
}
for cname, cls in CLASSES:
    for oname, oval in ODD.items():
        def oddrun():
            e = cls(env_of(("basic",)))
            if e.dtype == Format.TYPE:
                e.data = {"odd.param": oval}
            elif e.dtype == Format.TUPLE:
                e.data = {"odd.param": (oval.value, getattr(oval, "unit", None)) if getattr(oval, "unit", None) else oval.value}
            else:
                e.data = {"odd.param": oval.value}
            return e.parse()
        rec(f"odd/{cname}/{oname}", oddrun)

# non-data environment, save(), context manager, text attribute
def save_roundtrip(cls):
    def run():
        with cls(env_of(("basic","derived","arrays"))) as e:
            t = e.parse()
            fd, path = tempfile.mkstemp(); os.close(fd)
            try:
                e.save(path)
                e.save(path, "a")
                with open(path) as f:
                    s = f.read()
            finally:
                os.remove(path)
            return [t == e.text, s == t + t]
    return run
for cname, cls in CLASSES:
    rec(f"save/{cname}", save_roundtrip(cls))
    rec(f"text_before_parse/{cname}", lambda: cls(env_of(("basic",))).text)
    rec(f"save_before_parse/{cname}", lambda: cls(env_of(("basic",))).save("/nonexistent_dir/x"))
    def badenv():
        env = env_of(("basic",))
        env.envtype = None
        return cls(env).parse()
    rec(f"badenv/{cname}", badenv)
    rec(f"escape/{cname}", lambda: [cls(env_of(("basic",)))._rename("a.b.c"), cls(env_of(("basic",)), rename=False)._rename("a.b.c")])

print(json.dumps(out))
'''

def run(root):
    p = subprocess.run([sys.executable, "-c", WORKER, os.path.abspath(root)],
                       capture_output=True, text=True, cwd="/tmp")
    if p.returncode != 0:
        print("worker failed for", root, "\n", p.stderr[-3000:])
        sys.exit(2)
    return json.loads(p.stdout.strip().splitlines()[-1])

def main():
    a = run(sys.argv[1])
    b = run(sys.argv[2])
    bad = 0
    if len(a) != len(b):
        print("different number of results", len(a), len(b)); bad += 1
    for x, y in zip(a, b):
        if x != y:
            bad += 1
            if bad < 10:
                print("DIFF", x[0], "\n  base:", x[1:], "\n  new: ", y[1:])
    nexc = sum(1 for x in a if x[1] == "exc")
    print(f"{len(a)} scenarios compared ({nexc} raising in base), {bad} differences")
    sys.exit(1 if bad else 0)

if __name__ == "__main__":
    main()
