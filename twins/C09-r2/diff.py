#!/venv/bin/python
"""Differential check for property C09 (temporary custom units never outlive their scope).

usage: diff.py <unmodified tree root> <refactored tree root>

Runs the same scenarios against both trees (each in its own subprocess with its own
sys.path) and exits 0 iff every observable output (values, units, exception types and
arguments, snapshots of the process-wide unit / prefix / conversion-type tables) is identical.
"""
import json
import subprocess
import sys

DRIVER = r'''
import sys, json, hashlib
sys.path.insert(0, sys.argv[1] + '/src')
from scinumtools.units import Quantity, UnitEnvironment
from scinumtools.units.settings import UNIT_STANDARD, UNIT_PREFIXES, UNIT_TYPES
from scinumtools.units.unit_types import UnitType
from scinumtools.units.unit_environment import check_unique_symbols
from scinumtools.dip import DIP

def snapshot():
    std = [(k, repr(v)) for k, v in UNIT_STANDARD.items()]
    pfx = [(k, repr(v)) for k, v in UNIT_PREFIXES.items()]
    blob = repr((list(UNIT_STANDARD.keys()), std, list(UNIT_PREFIXES.keys()), pfx,
                 [t.__name__ for t in UNIT_TYPES]))
    return [len(UNIT_STANDARD), len(UNIT_PREFIXES), [t.__name__ for t in UNIT_TYPES],
            hashlib.sha256(blob.encode()).hexdigest()]

def exc(e):
    return ['EXC', type(e).__name__, [repr(a) for a in e.args]]

def q(value, unit, to=None):
    try:
        x = Quantity(value, unit)
        if to is not None:
            x = x.to(to)
        return [str(x), repr(x.baseunits.magnitude), x.baseunits.dimensions.value()]
    except Exception as e:
        return exc(e)

class CustomUnitType(UnitType):
    def _istype(self):
        return False

class OtherUnitType(UnitType):
    def _istype(self):
        return False

BASE = snapshot()
results = {}

def scenario(fn):
    out = []
    try:
        fn(out)
    except BaseException as e:
        out.append(exc(e))
    after = snapshot()
    out.append(['restored', after == BASE, after])
    results[fn.__name__] = out
    return fn

@scenario
def s01_dict_unit(out):
    units = {'x': {'magnitude': 3, 'dimensions': [3, 2, -1, 0, 0, 1, 0, 0]}}
    with UnitEnvironment(units) as env:
        out.append(q(1, 'x')); out.append(q(2, 'x2/m')); out.append(q(1, 'kx'))
        out.append(['x' in UNIT_STANDARD, env.new_units, len(env.new_types)])
        out.append(snapshot())
    out.append(sorted(units['x'].items(), key=lambda kv: kv[0]).__repr__())
    out.append(q(1, 'x'))

@scenario
def s02_quantity_unit(out):
    units = {'y': Quantity(2, 'cm/g2'), 'zz': Quantity(5, 'km')}
    with UnitEnvironment(units):
        out.append(q(1, 'y')); out.append(q(3, 'zz', 'm')); out.append(q(1, 'y*zz'))
    out.append(q(1, 'y')); out.append(q(1, 'zz'))
    out.append([type(v).__name__ for v in units.values()])

@scenario
def s03_exception_in_body(out):
    units = {'x': {'magnitude': 7, 'dimensions': [1, 0, 0, 0, 0, 0, 0, 0]}}
    try:
        with UnitEnvironment(units):
            out.append(q(1, 'x', 'm'))
            raise ZeroDivisionError('boom')
    except Exception as e:
        out.append(exc(e))
    out.append('x' in UNIT_STANDARD)

@scenario
def s04_duplicate_standard_symbol(out):
    for sym in ('m', 'g', 'Cel', 'eV'):
        try:
            with UnitEnvironment({'ok1': {'magnitude': 1, 'dimensions': [0]*8},
                                  sym: {'magnitude': 2, 'dimensions': [1, 0, 0, 0, 0, 0, 0, 0]},
                                  'ok2': {'magnitude': 1, 'dimensions': [0]*8}}):
                out.append('entered')
        except Exception as e:
            out.append(exc(e))
        out.append(['ok1' in UNIT_STANDARD, 'ok2' in UNIT_STANDARD, snapshot() == BASE])

@scenario
def s05_clash_with_prefixed_symbol(out):
    for sym, pref in (('km', False), ('mm', False), ('in', True), ('d', True), ('eV', ['k']),
                      ('w', ['k', 'M']), ('Gy2', True), ('c', ['m'])):
        try:
            with UnitEnvironment({sym: {'magnitude': 2, 'dimensions': [1, 0, 0, 0, 0, 0, 0, 0],
                                        'prefixes': pref}}):
                out.append(['entered', sym, q(1, sym), q(1, 'k' + sym)])
        except BaseException as e:
            out.append(exc(e))
        out.append([sym in UNIT_STANDARD, snapshot() == BASE])

@scenario
def s06_malformed_definitions(out):
    bad = [
        {'a': {'dimensions': [0]*8}},
        {'a': {'magnitude': 1}},
        {'a': 5},
        {'a': None},
        {'a': 'm'},
        {'a': []},
        {'good': {'magnitude': 1, 'dimensions': [0]*8}, 'a': {'magnitude': 1}},
        {'good': {'magnitude': 1, 'dimensions': [0]*8, 'definition': CustomUnitType}, 'a': 3.5},
        {'a': {'magnitude': 1, 'dimensions': [0]*8, 'prefixes': ['q?']}},
    ]
    for units in bad:
        try:
            with UnitEnvironment(units):
                out.append(['entered', q(1, 'a')])
        except BaseException as e:
            out.append(exc(e))
        out.append(['a' in UNIT_STANDARD, 'good' in UNIT_STANDARD,
                    [t.__name__ for t in UNIT_TYPES], snapshot() == BASE])
    try:
        UnitEnvironment(None)
    except BaseException as e:
        out.append(exc(e))
    try:
        UnitEnvironment([('a', 1)])
    except BaseException as e:
        out.append(exc(e))

@scenario
def s07_nested_scopes(out):
    u1 = {'x': {'magnitude': 3, 'dimensions': [1, 0, 0, 0, 0, 0, 0, 0]}}
    u2 = {'y': {'magnitude': 4, 'dimensions': [0, 1, 0, 0, 0, 0, 0, 0], 'prefixes': ['k', 'M']}}
    u3 = {'z': Quantity(2, 's')}
    with UnitEnvironment(u1):
        out.append(snapshot())
        with UnitEnvironment(u2):
            out.append([q(1, 'x*ky'), q(1, 'My', 'g'), q(1, 'Gy')])
            with UnitEnvironment(u3):
                out.append(q(1, 'x*y/z', 'm*g/s'))
                out.append(snapshot())
            out.append([q(1, 'z'), snapshot()])
        out.append([q(1, 'y'), q(1, 'x', 'cm'), snapshot()])

@scenario
def s08_nested_duplicate_of_outer(out):
    u1 = {'x': {'magnitude': 3, 'dimensions': [1, 0, 0, 0, 0, 0, 0, 0]}}
    with UnitEnvironment(u1):
        inner = snapshot()
        try:
            with UnitEnvironment({'w': {'magnitude': 1, 'dimensions': [0]*8},
                                  'x': {'magnitude': 9, 'dimensions': [0]*8}}):
                out.append('entered')
        except Exception as e:
            out.append(exc(e))
        out.append([snapshot() == inner, 'w' in UNIT_STANDARD, q(1, 'x', 'm')])
        try:
            with UnitEnvironment(u1):
                out.append('entered')
        except Exception as e:
            out.append(exc(e))
        out.append([snapshot() == inner, q(2, 'x', 'm')])

@scenario
def s09_repeated_scopes(out):
    units = {'x': {'magnitude': 3, 'dimensions': [1, 0, 0, 0, 0, 0, 0, 0]},
             'y': Quantity(1, 'kg')}
    for i in range(4):
        with UnitEnvironment(units):
            out.append([q(i, 'x*y', 'm*g'), len(UNIT_STANDARD)])
        out.append(snapshot() == BASE)
    out.append(repr(sorted(units['x'].keys())))

@scenario
def s10_custom_unit_types(out):
    units = {'x': {'magnitude': 3, 'dimensions': [3, 2, -1, 0, 0, 1, 0, 0], 'definition': CustomUnitType},
             'x2_': {'magnitude': 1, 'dimensions': [0]*8, 'definition': CustomUnitType},
             'o': {'magnitude': 1, 'dimensions': [0]*8, 'definition': OtherUnitType},
             's_': {'magnitude': 1, 'dimensions': [0]*8, 'definition': 'km*s', 'name': 'named'},
             'n_': {'magnitude': 1, 'dimensions': [0]*8, 'definition': None}}
    env = UnitEnvironment(units)
    try:
        out.append([env.new_units, [t.__name__ for t in env.new_types], [t.__name__ for t in UNIT_TYPES]])
        out.append([UNIT_STANDARD['s_'].name, UNIT_STANDARD['x'].name, repr(UNIT_STANDARD['n_'].definition),
                    UNIT_STANDARD['o'].prefixes])
        with UnitEnvironment({'pq_': {'magnitude': 1, 'dimensions': [0]*8, 'definition': CustomUnitType}}) as e2:
            out.append([e2.new_units, [t.__name__ for t in e2.new_types], [t.__name__ for t in UNIT_TYPES]])
        out.append([t.__name__ for t in UNIT_TYPES])
        try:
            with UnitEnvironment({'r_': {'magnitude': 1, 'dimensions': [0]*8, 'definition': OtherUnitType},
                                  't_': {'magnitude': 1, 'dimensions': [0]*8, 'definition': int},
                                  'm': {'magnitude': 1, 'dimensions': [0]*8}}):
                out.append('entered')
        except Exception as e:
            out.append(exc(e))
        out.append([t.__name__ for t in UNIT_TYPES])
    finally:
        env.close()
    out.append([t.__name__ for t in UNIT_TYPES])

@scenario
def s11_double_close_and_manual(out):
    env = UnitEnvironment({'x': {'magnitude': 3, 'dimensions': [0]*8}})
    env.close()
    out.append(snapshot() == BASE)
    try:
        env.close()
    except BaseException as e:
        out.append(exc(e))
    out.append(snapshot() == BASE)
    env = UnitEnvironment({})
    out.append([env.new_units, env.new_types])
    env.close(); env.close()
    with UnitEnvironment({}) as e:
        out.append(type(e).__name__)

@scenario
def s12_check_unique_symbols(out):
    out.append(check_unique_symbols())
    UNIT_STANDARD.append('km', (1, [0]*8, None, 'km', False))
    UNIT_STANDARD.append('cpc', (1, [0]*8, None, 'cpc', ['k']))
    try:
        out.append(check_unique_symbols())
    except BaseException as e:
        out.append(exc(e))
    finally:
        del UNIT_STANDARD['km']; del UNIT_STANDARD['cpc']
    UNIT_STANDARD.append('qq', (1, [0]*8, None, 'qq', ['nope']))
    try:
        out.append(check_unique_symbols())
    except BaseException as e:
        out.append(exc(e))
    finally:
        del UNIT_STANDARD['qq']
    out.append(check_unique_symbols())

@scenario
def s13_dip_custom_units(out):
    with DIP() as p:
        p.add_unit('velocity', 13, 'cm/s')
        p.add_string("""
        $unit length = 1 cm
        $unit mass = 2 g
        $unit area = 3 [length]2
        a float = 3 [length]
        b float = 4 [mass]/[length]3
        c float = 2 [velocity]
        d float = 5 [area]
        e float = 3 m
        e = 2 [length]
        """)
        env = p.parse()
    for name in ('a', 'b', 'c', 'd', 'e'):
        node = env.nodes.query(name)[0]
        out.append([name, repr(node.value.value), node.units_raw if hasattr(node, 'units_raw') else None,
                    str(node.value)])
    out.append(sorted(env.units.keys()))
    out.append([(k, repr(v['magnitude']), v['dimensions'], v['value'], v['units']) for k, v in env.units.items()])
    out.append(snapshot() == BASE)
    out.append(q(1, '[length]'))

@scenario
def s14_dip_failing_units(out):
    codes = [
        "$unit length = 1 cm\n$unit length = 2 m\n",
        "$unit length = 1 blah\n",
        "$unit length = 1 cm\na float = 3 [mass]\n",
        "$unit length = 1 cm\na float = 3 [length]\nb float = 1 [length]*foo\n",
        "$unit length = abc cm\n",
        "$unit length = 1 cm\n$unit area = 2 [lengthh]2\n",
        "$unit length = 1 cm\na float = 3 [length]\na = 4 s\n",
    ]
    for code in codes:
        try:
            with DIP() as p:
                p.add_string(code)
                env = p.parse()
            out.append(['parsed', sorted(env.units.keys())])
        except BaseException as e:
            out.append(['EXC', type(e).__name__, repr(e.args[0]) if e.args else None])
        out.append(snapshot() == BASE)

@scenario
def s15_dip_nested_in_unit_env(out):
    with UnitEnvironment({'x': {'magnitude': 3, 'dimensions': [1, 0, 0, 0, 0, 0, 0, 0]}}):
        inner = snapshot()
        with DIP() as p:
            p.add_string("$unit length = 2 x\na float = 3 [length]\nb float = 1 x\n")
            env = p.parse()
        out.append([str(env.nodes.query('a')[0].value), str(env.nodes.query('b')[0].value)])
        out.append([(k, repr(v['magnitude']), v['dimensions']) for k, v in env.units.items()])
        out.append(snapshot() == inner)
        # re-use the DIP environment: second parse on top of the first one
        with DIP(env) as p:
            p.add_string("c float = 3 [length]\n$unit time = 2 s\nd float = 1 [length]/[time]\n")
            env2 = p.parse()
        out.append([str(env2.nodes.query('c')[0].value), str(env2.nodes.query('d')[0].value)])
        out.append(snapshot() == inner)

@scenario
def s16_dip_unit_list_queries(out):
    with DIP() as p:
        p.add_string("$unit length = 1 cm\n$unit mass = 2 g\n")
        env = p.parse()
    out.append(sorted(env.units.query('*').keys()))
    out.append(sorted(env.units.query('[mass]').keys()))
    try:
        env.units.query('[nope]')
    except Exception as e:
        out.append(exc(e))
    try:
        env.units.append('mass', '1', 'g', Quantity(1, 'g'), ('x', 1))
    except Exception as e:
        out.append(exc(e))
    out.append(len(env.units))
    with UnitEnvironment(env.units):
        out.append([q(1, '[length]', 'm'), q(1, '[mass]', 'kg')])
    out.append(q(1, '[length]'))

print('@@RESULT@@' + json.dumps(results, sort_keys=True, default=repr))
'''


def run(root):
    proc = subprocess.run([sys.executable, '-c', DRIVER, root], capture_output=True, text=True)
    if proc.returncode != 0:
        sys.stderr.write(proc.stderr)
        raise SystemExit(f"driver failed for {root}")
    payload = [l for l in proc.stdout.splitlines() if l.startswith('@@RESULT@@')][-1]
    return json.loads(payload[len('@@RESULT@@'):])


def main():
    base, new = sys.argv[1], sys.argv[2]
    a, b = run(base), run(new)
    bad = 0
    for name in sorted(set(a) | set(b)):
        if a.get(name) != b.get(name):
            bad += 1
            print(f"DIFF in {name}:\n  base: {a.get(name)}\n  new : {b.get(name)}")
    print(f"{len(a)} scenarios compared, {bad} differ")
    sys.exit(1 if bad else 0)


if __name__ == '__main__':
    main()
