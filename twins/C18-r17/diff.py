#!/venv/bin/python
"""Differential check for property C18 (DIP numerical / logical / template expressions).

usage: diff.py <unmodified tree root> <refactored tree root>

Each tree is exercised in its own subprocess (own sys.path, cwd outside both trees);
the probe prints one JSON document with every observable (values, units, exception
types) and the two documents must be identical.  Exit 0 iff identical.
"""
import json
import os
import subprocess
import sys
import tempfile

PROBE = r'''
import sys, json, warnings
warnings.simplefilter("ignore")
root = sys.argv[1]
sys.path.insert(0, root + "/src")
import numpy as np
import scinumtools
assert scinumtools.__file__.startswith(root), scinumtools.__file__
from scinumtools.dip import DIP
from scinumtools.dip.settings import Format
from scinumtools.dip.solvers import NumericalSolver, LogicalSolver, TemplateSolver
from scinumtools.solver import ExpressionSolver, AtomBase
from scinumtools.units import Quantity

def show(x):
    if isinstance(x, Quantity):
        return ["Quantity", repr(x.value()), str(x.units())]
    if isinstance(x, AtomBase):
        return ["Atom", repr(x.value)]
    if hasattr(x, "value") and hasattr(x, "unit"):
        return [type(x).__name__, repr(x.value), repr(x.unit)]
    if isinstance(x, dict):
        return {k: show(v) for k, v in x.items()}
    return [type(x).__name__, repr(x)]

def run(fn):
    try:
        return {"ok": show(fn())}
    except BaseException as e:
        return {"exc": type(e).__name__, "args0": repr(e.args[0]) if e.args else None}

ENV_TEXT = """
$unit len = 2.5 cm
$unit wt = 3 kg
a float = 10 m
b float = 300 cm
n int = 7
z float = 0
t float = 3 s
cl float = 4 [len]
m float = 2 [wt]
flag bool = true
off bool = false
name str = "William Smith"
widths float[2,3] = [[23.4,235.4,34],[1e10,2e23,5e20]]
body
  weight float = 57.3 kg
  height float = 177 cm
"""
with DIP() as dip:
    dip.add_string(ENV_TEXT)
    env = dip.parse()

out = {}

NUM = [
    ("2 + 4 - 3", None), ("1 - -3 + -4", None), ("34 cm + 4 mm", "cm"),
    ("10 m + 4 cm + 3 m + 1 mm", "m"), ("10 m - 1 m + 3 cm - 3 mm", "mm"),
    ("8 / 4 * 3", None), ("8 / 2 / 4", None), ("-8 / 2 * -4", None),
    ("2 + 3 * 4 - 6 / 3", None), ("2 - 3 - 4", None), ("2 * 3 + 4 * 5 - 1", None),
    ("4 cm2 + 10 m * 2 cm - 0.2 m2", "m2"), ("4 m2 + 10 m3 / 2 m - 3 m2", "cm2"),
    ("3 kg * 4 m2 / 2 s2 + 1e7 erg", "J"), ("23 kg*m2/s2 / 2 J", None),
    ("(10 m - 1 m) + 3 cm - 3 mm", "m"), ("10 m - (1 m + 3 cm - 3 mm)", "m"),
    ("36 m2 / (20 dm * 300 cm) - 1", None), ("(2 + (3 - 4))", None),
    ("((1 + 2) * (3 + 4)) / (1 + 6)", None),
    ("exp(10 m / 5 m)", None), ("log(10 m / 5 cm)", None), ("log10(10 m / 5 cm)", None),
    ("sqrt(16 m2)", "cm"), ("sin(0.5)", None), ("cos(0.5)", None), ("tan(0.5)", None),
    ("pow(10 m, 2)", "m2"), ("logb(8, 2)", None), ("pow(2, 3) + sqrt(9) * 2", None),
    ("3 m * log10({?a} / (7 cm - 20 mm)) + {?b}", "m"),
    ("{?a} + {?b}", "cm"), ("{?a} * {?b} / {?n}", "m2"), ("{?a} / {?t}", "km/h"),
    ("{?cl} + 1 cm", "cm"), ("3 [len] + {?cl}", "mm"), ("{?m} * 2", "kg"), ("{?m} + 1 [wt]", "g"),
    ("{?body.weight} * 2 + 400 g", "kg"), ("- {?a} + 1 km", "m"), ("{?z} + 1", None),
    # failing inputs
    ("10 m + 1 J", None), ("10 m - 1 J", None), ("1 s + 1 Hz", None), ("{?a} + {?t}", None),
    ("{?missing} + 1", None), ("(1 + 2", None), ("logb(8)", None), ("pow(2)", None),
    ("1 +", None), ("* 3", None), ("2 3 +", None), ("1 m + 1 foo", None), ("10 m", "J"),
    ("", None), ("   ", None), ("1 + + 2", None), ("1 - - 2", None), ("1 + - 2", None), ("1 - + 2", None),
    (5, None), (2.5, "m"),
]
for i, (expr, u) in enumerate(NUM):
    def f(expr=expr, u=u):
        with NumericalSolver(env) as s:
            return s.solve(expr, u)
    out["num%02d %r %r" % (i, expr, u)] = run(f)

EQ = [("34 cm + 4 mm", "34.4 cm"), ("8 / 4 * 3", "6"), ("10 m2 / 200 cm", "50 dm"),
      ("2 + 2", "5"), ("1 m", "1 s"), ("{?cl}", "10 cm"), ("{?a}", "{?b}")]
for i, (l, r) in enumerate(EQ):
    def f(l=l, r=r):
        with NumericalSolver(env) as s:
            return s.equal(l, r)
    out["eq%02d %r %r" % (i, l, r)] = run(f)

# solver without an environment
for i, expr in enumerate(["2 * 3 cm + 1 m", "{?a} + 1", "1 [len]"]):
    def f(expr=expr):
        with NumericalSolver() as s:
            return s.solve(expr)
    out["noenv%02d %r" % (i, expr)] = run(f)

LOG = [
    "true || true || true", "false || true || false", "true && false && true",
    "true && true && true || false || false", "false || true && false && true || true",
    "false || false || true && false && true", "(true || false) && true && true",
    "false || ((false||true) || false) && (true||false)", "true || false && false", "(true || false) && false",
    "~true", "~false", "~~true", "~~~false", "~true || true", "~(true && false)", "~true && false",
    "{?a} == {?b}", "{?a} == 1000 cm", "{?a} != 1000 cm", "{?a} == 10.000001 m", "{?a} == 10.0001 m",
    "{?a} != 10.000001 m", "{?a} <= 10.000001 m", "{?a} >= 10.000001 m", "{?a} < {?b}", "{?a} > {?b}",
    "{?n} == 7", "{?n} <= 6", "{?n} >= 7", "{?n} < 8", "{?n} > 8", "{?n} != 7",
    "{?cl} == 10 cm", "{?cl} > 9 cm", "{?m} == 6 kg", "{?m} < 5000 g",
    "{?body.weight} == 57.30 kg", "{?body.weight} >= 57300 g", "{?body.weight} < 50", "{?body.weight} < 60",
    "{?flag}", "~{?flag}", "{?off} || {?flag}", "{?flag} && {?off}", "{?flag} == true", "{?off} == false",
    "!{?a}", "!{?elefant}", "!{?elefant} == false", "~!{?elefant}", "~!{?a}", "!{?a} && !{?n}",
    "{?a} > 5 m && {?n} == 7 || {?off}", "{?a} > 5 m && ({?n} == 8 || {?flag})",
    "\n {?a} > 30 cm \n || ({?a} < 0.4 m || {?a} >= 34) \n && {?flag} \n || ~!{?color}\n",
    "{?name} == 'William Smith'", "{?name} == 'Bob'", "{?name} != 'Bob'",
    "1 == 1", "1 m == 100 cm", "1 m != 1 m", "1 m == 1 s", "2 < 3 && 3 < 2", "2 cm < 3 mm",
    # failing inputs
    "{?elefant}", "{?elefant} == 1", "", "  ", "(true || false", "true &&", "&& true", "true false", "~", "!",
]
for i, expr in enumerate(LOG):
    def f(expr=expr):
        with LogicalSolver(env) as s:
            return s.solve(expr)
    out["log%02d %r" % (i, expr)] = run(f)
for i, expr in enumerate(["true && ~false", "1 == 1", "!{?x}", "{?x}"]):
    def f(expr=expr):
        with LogicalSolver() as s:
            return s.solve(expr)
    out["lognoenv%02d %r" % (i, expr)] = run(f)

TPL = [
    "A={{?a}} B={{?b}:.2f} N={{?n}:05d}", "W={{?body.weight}:.3e} H={{?body.height}:.1f}",
    "{{?name}}|{{?name}[8:]}|{{?name}[:7]}|{{?name}:>20s}|{{?name}[2:5]:*^9s}",
    "{{?widths}[1,1]:.2e} and\n{{?widths}[:,1:]}", "{{?widths}[0]}", "{{?flag}} {{?off}}",
    "plain text, no refs", "", "{", "}", "{}", "{{", "}}", "{ {?a} }", "{{?a}", "{{?a} }", "x{y}z{{?n}}{",
    "{{?n}:x} {{?n}:b} {{?n}:+d} {{?a}:10.3f}|", "{{?cl}} {{?m}}", "{{?a}}{{?b}}{{?n}}", "{{{?n}}}",
    "{{?n}:}", "{{?z}:.0f}", "{{?a}:%}",
    # failing inputs
    "{{?missing}}", "{{?n}:s}", "{{?name}:d}", "{{?name}[a:b]}", "{{?*}}", "{{?body.*}}",
]
for i, expr in enumerate(TPL):
    def f(expr=expr):
        with TemplateSolver(env) as s:
            return s.solve(expr)
    out["tpl%02d %r" % (i, expr)] = run(f)

# template(): file in / file out
import os, tempfile
tmpd = tempfile.mkdtemp()
fin = os.path.join(tmpd, "in.txt"); fout = os.path.join(tmpd, "out.txt")
open(fin, "w").write("a={{?a}:.1f}\nname={{?name}[:7]}\n")
def f():
    with TemplateSolver(env) as s:
        txt = s.template(fin, fout)
    return [txt, open(fout).read()]
out["tplfile"] = run(f)
def f():
    with TemplateSolver(env) as s:
        return s.template(fin)
out["tplfile_noout"] = run(f)
def f():
    with TemplateSolver(env) as s:
        return s.template(os.path.join(tmpd, "absent.txt"))
out["tplfile_missing"] = run(f)

# relative paths are resolved against the file that instantiated the solver (this probe)
here = os.path.dirname(os.path.abspath(__file__))
open(os.path.join(here, "rel_in.txt"), "w").write("n={{?n}:03d} b={{?b}}\n")
def f():
    with TemplateSolver(env) as s:
        txt = s.template("rel_in.txt", "rel_out.txt")
    return [txt, open(os.path.join(here, "rel_out.txt")).read()]
out["tplfile_relative"] = run(f)

# whole DIP texts with expressions and custom units defined in the same text
DIPS = [
    """
    $unit len = 2 m
    a float = 3 [len]
    b float = ("{?a} + 50 cm") m
    c float = ("{?a} * 2 / 4 + 1 [len]") cm
    d int = ("{?b} * 2") m
    e bool = ("{?b} == 650 cm && ~({?c} > 6 m) || false")
    f str = ("b={{?b}:.2f} c={{?c}:08.1f} e={{?e}}")
    g float = ("sqrt({?a} * {?a}) + pow({?a}, 1)") m
    h float = ("{?a} / {?a}")
    """,
    """
    a float = 14.24 mm
    b int = 220 cm
    c float = ("{?a} + {?b} + 10 m") cm
    d int = ("{?b} + 1 cm + 10 m + 1 nm") cm
    k bool = ("!{?c} && !{?nope} == false")
    """,
    'a float = ("10 dm + 1 m") J\n',
    'a float = ("10 dm + 1 s") m\n',
    'a float = 1 m\nb float = ("{?a} + {?c}") m\n',
    'a bool = ("1 [qq] == 1 m")\n',
    'a float[2] = [14.24,15.23] mm\nb str = ("a = {{?a}[0]:.3e} / {{?a}[1]:.1f} / {{?a}}")\n',
    'a float = 2 m\n@case ("{?a} > 1 m && {?a} < 300 cm")\n  b int = 1\n@case ("{?a} == 2 m")\n  b int = 2\n@else\n  b int = 3\n@end\n',
    'a float = 5 m\n@case ("~({?a} > 1 m)")\n  b int = 1\n@else\n  b int = 3\n@end\nc float = ("{?b} * 2 m + {?a}") cm\n',
]
for i, text in enumerate(DIPS):
    def f(text=text):
        with DIP() as p:
            p.add_string(text)
            return p.parse().data(format=Format.TYPE)
    out["dip%02d" % i] = run(f)

# the generic expression solver underneath the DIP solvers
GEN = ["1 + 2 * 3", "-(2 + 3) * 4 ** 2", "2 ** 3 ** 2", "8 / 2 / 2 - 1 - 1", "sin(0) + cos(0) * exp(1)",
       "logb(8,2) + pow(2,3)", "1 < 2 && 2 < 3 || !(1 == 1)", "!!(1 == 2)", "1 <= 1 && 2 >= 3", "1 != 2",
       "- - 2", "+ 2 - - 3 + - 4", "2 * -3", "(1", "pow(1)", "1 2", ""]
for i, expr in enumerate(GEN):
    def f(expr=expr):
        with ExpressionSolver(AtomBase) as es:
            return es.solve(expr)
    out["gen%02d %r" % (i, expr)] = run(f)
def f():
    with ExpressionSolver(AtomBase) as es:   # one solver object reused for several expressions
        return [repr(es.solve(e).value) for e in ["1 + 1", "2 * (3 + 4)", "10 / 4"]]
out["gen_reuse"] = run(f)
def f():
    with ExpressionSolver(AtomBase) as es:   # a failed solve must not poison the next one
        try:
            es.solve("1 2")
        except Exception:
            pass
        return es.solve("3 + 4")
out["gen_after_failure"] = run(f)

# units / materials parsers share the generic solver
from scinumtools.units import Unit
for i, (v, u, to) in enumerate([(1, "kg*m2/s2", "erg"), (3, "km/h", "m/s"), (2, "(m/s)2", "km2/h2"), (1, "m", "s")]):
    def f(v=v, u=u, to=to):
        return Quantity(v, u).to(to)
    out["unit%02d" % i] = run(f)
from scinumtools.materials import Substance, SubstanceSolver, Material, MaterialSolver
for i, expr in enumerate(["C", "H2O", "C{13+2}(B{11}Li2)4 H{-}2 O{+3}", "((CB2)2Al)3", "(C"]):
    def f(expr=expr):
        with SubstanceSolver(Substance().atom) as ms:
            return str(ms.solve(expr))
    out["subst%02d %r" % (i, expr)] = run(f)
for i, expr in enumerate(["<H2O>", "0.2 <H2O> 0.8 <NaCl>"]):
    def f(expr=expr):
        with MaterialSolver(Material().atom) as ms:
            return str(ms.solve(expr))
    out["mat%02d %r" % (i, expr)] = run(f)

print("=====JSON=====")
print(json.dumps(out, sort_keys=True, indent=1))
'''


def probe(root):
    root = os.path.abspath(root)
    with tempfile.TemporaryDirectory() as cwd:
        script = os.path.join(cwd, "probe.py")
        with open(script, "w") as f:
            f.write(PROBE)
        env = dict(os.environ)
        env.pop("PYTHONPATH", None)
        env["PYTHONDONTWRITEBYTECODE"] = "1"
        r = subprocess.run([sys.executable, script, root], cwd=cwd, env=env,
                           capture_output=True, text=True, timeout=600)
    if r.returncode != 0:
        print("probe failed for", root, "\n", r.stderr[-3000:])
        sys.exit(2)
    noise, _, doc = r.stdout.partition("=====JSON=====\n")
    res = json.loads(doc)
    res["<stdout before results>"] = {"ok": noise}
    return res


def main():
    a, b = probe(sys.argv[1]), probe(sys.argv[2])
    bad = [k for k in sorted(set(a) | set(b)) if a.get(k) != b.get(k)]
    for k in bad:
        print("DIFF", k, "\n   base:", a.get(k), "\n   new :", b.get(k))
    nexc = sum(1 for v in a.values() if "exc" in v)
    print("%d probes compared (%d raising), %d differences" % (len(a), nexc, len(bad)))
    sys.exit(1 if bad else 0)


if __name__ == "__main__":
    main()
