#!/venv/bin/python
"""Differential check for property C20 (table / row collector / plot grid / combination helpers).

usage: diff.py <unmodified tree root> <refactored tree root>
Runs the same cases against both trees (each in its own subprocess with its own
sys.path) and exits 0 iff every observable output (values, types, raised
exception types) is identical.
"""
import subprocess
import sys

DRIVER = r'''
import sys, json
root = sys.argv[1]
sys.path.insert(0, root + '/src')
import numpy as np
from scinumtools.parameter_table import ParameterTable, ParameterSettings
from scinumtools.row_collector import RowCollector
from scinumtools.data_plot_grid import DataPlotGrid
from scinumtools.data_combination import DataCombination
import scinumtools
assert scinumtools.__file__.startswith(root), scinumtools.__file__

def norm(v):
    if isinstance(v, ParameterSettings):
        return ['PS', [[k, norm(x)] for k, x in v.items()]]
    if isinstance(v, np.ndarray):
        return ['nd', str(v.dtype), [norm(x) for x in v.tolist()]]
    if isinstance(v, np.generic):
        return ['np', type(v).__name__, repr(v.item())]
    if isinstance(v, dict):
        return ['dict', [[norm(k), norm(x)] for k, x in v.items()]]
    if isinstance(v, (list, tuple)):
        return [type(v).__name__, [norm(x) for x in v]]
    if isinstance(v, (range,)):
        return ['range', repr(v)]
    return [type(v).__name__, repr(v)]

results = []
def case(label):
    def deco(fn):
        try:
            out = ['ok', norm(fn())]
        except BaseException as e:
            out = ['exc', type(e).__name__]
        results.append([label, out])
        return fn
    return deco

# ---------------------------------------------------------------- ParameterTable
def table_state(t, keyed):
    st = {'len': len(t), 'shape': t.shape(), 'items': list(t.items()), 'data': t.data()}
    if keyed:
        st['keys'] = list(t.keys())
        st['str'] = str(t)
        st['byPos'] = [t[i] for i in range(len(t))]
        st['byKey'] = [t[k] for k in t.keys()]
        st['byAttr'] = [getattr(t, k) for k in t.keys()]
        st['contains'] = ['a' in t, 'zz' in t]
    else:
        st['byPos'] = [t[i] for i in range(len(t))]
    st['text'] = t.to_text()
    return st

@case('pt keyed build/overwrite/delete')
def _():
    out = []
    t = ParameterTable(['x', 'y', 'z'], {'a': [1, 2, 3], 'b': [4, 5, 6]}, keys=True)
    out.append(table_state(t, True))
    t['c'] = [7, 8, 9]
    t.append('d', [10, 11, 12])
    out.append(table_state(t, True))
    t['a'] = [0, 0, 0]            # overwrite keeps position
    out.append(table_state(t, True))
    del t['b']
    out.append(table_state(t, True))
    t['b'] = ['p', 'q', 'r']      # re-insert goes last
    out.append(table_state(t, True))
    out.append([t[-1], t[0], t['c'], t.c.y, t['d']['z'], t.d.x])
    return out

@case('pt keyed longer op sequence')
def _():
    t = ParameterTable(['v', 'w'], keys=True, keyname='name')
    out = []
    ops = [('set', 'k1', [1, 2]), ('set', 'k2', [3, 4]), ('set', 'k3', [5, 6]), ('del', 'k2'),
           ('set', 'k1', [9, 9]), ('set', 'k4', [7, 8]), ('del', 'k1'), ('set', 'k2', [0, 1]),
           ('del', 'k4'), ('set', 'k5', [2.5, None])]
    for op in ops:
        if op[0] == 'set':
            t[op[1]] = op[2]
        else:
            del t[op[1]]
        out.append(table_state(t, True))
    return out

@case('pt keyed missing key index')
def _():
    t = ParameterTable(['x'], {'a': [1]}, keys=True)
    return t['nope']

@case('pt keyed position out of range')
def _():
    t = ParameterTable(['x'], {'a': [1]}, keys=True)
    return t[3]

@case('pt keyed delete missing')
def _():
    t = ParameterTable(['x'], {'a': [1]}, keys=True)
    del t['nope']

@case('pt keyed delete by position')
def _():
    t = ParameterTable(['x'], {'a': [1], 'b': [2]}, keys=True)
    try:
        del t[0]
    except BaseException as e:
        return [type(e).__name__, list(t.keys()), t.data()]
    return ['noexc', list(t.keys()), t.data()]

@case('pt keyed missing attr')
def _():
    t = ParameterTable(['x'], {'a': [1]}, keys=True)
    return t.nope

@case('pt keyed bool and float keys')
def _():
    t = ParameterTable(['x'], keys=True)
    t[True] = [1]
    t[2.5] = [2]
    t['s'] = [3]
    out = [t.data(), list(t.keys()), t[2.5], t['s']]
    for k in (True, 1, 0, False):
        try:
            out.append(['get', repr(k), t[k]])
        except BaseException as e:
            out.append(['get', repr(k), type(e).__name__])
    return out

@case('pt keyed short/long value lists')
def _():
    t = ParameterTable(['x', 'y', 'z'], keys=True)
    t['a'] = [1]
    t['b'] = [1, 2, 3, 4, 5]
    return [t.data(), t.shape()]

@case('pt keyed wrong arg count')
def _():
    t = ParameterTable(['x'], keys=True)
    t.append('a')

@case('pt keyed non-iterable values keeps key?')
def _():
    t = ParameterTable(['x'], keys=True)
    try:
        t.append('a', 5)
    except BaseException as e:
        return [type(e).__name__, list(t.keys()), len(t)]
    return ['noexc']

@case('pt list build/append/delete')
def _():
    out = []
    t = ParameterTable(['x', 'y'], [[1, 2], [3, 4], [5, 6]])
    out.append(table_state(t, False))
    t.append([7, 8])
    out.append(table_state(t, False))
    del t[1]
    out.append(table_state(t, False))
    out.append([t[-1], t[0]['y'], t[1].x, t[0:2]])
    del t[-1]
    out.append(table_state(t, False))
    return out

@case('pt list setitem')
def _():
    t = ParameterTable(['x'], [[1]])
    t[0] = [2]

@case('pt list getattr')
def _():
    t = ParameterTable(['x'], [[1]])
    return t.a

@case('pt list contains')
def _():
    t = ParameterTable(['x'], [[1]])
    return 'a' in t

@case('pt list keys')
def _():
    t = ParameterTable(['x'], [[1]])
    return t.keys()

@case('pt list index error / delete error')
def _():
    t = ParameterTable(['x'], [[1]])
    out = []
    for fn in (lambda: t[5], lambda: t['a'], lambda: t.__delitem__(4), lambda: t.__delitem__('a')):
        try:
            out.append(fn())
        except BaseException as e:
            out.append(type(e).__name__)
    out.append(t.data())
    return out

@case('pt context manager and empty')
def _():
    with ParameterTable(['a', 'b'], keys=True) as t:
        e = [len(t), t.shape(), list(t.items()), t.data(), str(t)]
        t['q'] = [1, 2]
        return [e, t.data(), t.to_dataframe().to_dict()]

# ---------------------------------------------------------------- RowCollector
def rc_state(rc):
    return {'len': len(rc), 'size': rc.size(), 'shape': rc.shape(), 'cols': list(rc._columns),
            'dict': rc.to_dict(), 'byName': [rc[c] for c in rc._columns], 'text': rc.to_text(),
            'str': str(rc)}

@case('rc list rows')
def _():
    rc = RowCollector(['a', 'b', 'c'])
    out = [rc_state(rc)]
    rc.append([3, 'x', 1.5])
    rc.append([1, 'y', 2.5])
    rc.append({'c': 0.5, 'a': 2, 'b': 'z'})
    out.append(rc_state(rc))
    rc.sort('a')
    out.append(rc_state(rc))
    rc.sort('c', reverse=True)
    out.append(rc_state(rc))
    rc.sort('b')
    out.append(rc_state(rc))
    return out

@case('rc sort with ties and many rows')
def _():
    rows = [[(7 * i) % 5, i, 'r%d' % i] for i in range(17)]
    rc = RowCollector(['k', 'i', 's'], rows)
    out = [rc_state(rc)]
    rc.sort('k')
    out.append(rc_state(rc))
    rc.sort('k', reverse=True)
    out.append(rc_state(rc))
    rc.sort('i', True)
    out.append(rc_state(rc))
    rc.sort('s')
    out.append(rc_state(rc))
    return out

@case('rc array mode sort')
def _():
    rc = RowCollector(['a', 'b'], [[3.0, 1], [1.0, 2], [2.0, 3], [1.0, 4]], array=True)
    out = [rc_state(rc)]
    rc.sort('a')
    out.append(rc_state(rc))
    rc.sort('b', reverse=True)
    out.append(rc_state(rc))
    rc.append({'b': 9, 'a': 0.5})
    rc.sort('a')
    out.append(rc_state(rc))
    return out

@case('rc array mode with dtypes')
def _():
    rc = RowCollector({'i': dict(dtype=int), 'f': dict(dtype=float), 's': dict(dtype=str)}, array=True)
    for row in ([5, 1.5, 'e'], [2, 3.5, 'b'], [9, 0.5, 'z'], [2, 9.0, 'a']):
        rc.append(row)
    out = [rc_state(rc)]
    rc.sort('i')
    out.append(rc_state(rc))
    rc.sort('s', reverse=True)
    out.append(rc_state(rc))
    return out

@case('rc sort empty and single')
def _():
    out = []
    rc = RowCollector(['a', 'b'])
    rc.sort('a')
    out.append(rc_state(rc))
    rc.append([1, 2])
    rc.sort('b', reverse=True)
    out.append(rc_state(rc))
    rc2 = RowCollector(['a'], array=True)
    rc2.sort('a')
    out.append(rc_state(rc2))
    return out

@case('rc sort missing column')
def _():
    rc = RowCollector(['a'], [[1], [0]])
    rc.sort('nope')

@case('rc sort by non-column attribute name')
def _():
    rc = RowCollector(['a', 'b'], [[2, 'x'], [1, 'y']])
    try:
        rc.sort('_columns')
    except BaseException as e:
        return [type(e).__name__, rc.to_dict()]
    return ['noexc', rc.to_dict()]

@case('rc sort mixed types')
def _():
    rc = RowCollector(['a', 'b'], [[2, 'x'], ['s', 'y'], [1, None]])
    try:
        rc.sort('a')
    except BaseException as e:
        return [type(e).__name__, rc.to_dict()]
    return ['noexc', rc.to_dict()]

@case('rc dict rows define columns')
def _():
    rc = RowCollector()
    rc.append({'p': 1, 'q': 'u'})
    rc.append({'q': 'v', 'p': 0})
    out = [rc_state(rc)]
    rc.sort('p')
    out.append(rc_state(rc))
    try:
        rc.append({'p': 1, 'q': 2, 'zz': 3})
    except BaseException as e:
        out.append(type(e).__name__)
    try:
        rc.append({'p': 1})
    except BaseException as e:
        out.append(type(e).__name__)
    out.append(rc_state(rc))
    return out

@case('rc short row')
def _():
    rc = RowCollector(['a', 'b', 'c'])
    try:
        rc.append([1, 2])
    except BaseException as e:
        return [type(e).__name__, rc.to_dict()]

@case('rc dataframe variants')
def _():
    with RowCollector(['a', 'b'], [[2, 'x'], [1, 'y']]) as rc:
        rc.sort('a')
        return [rc.to_dataframe().to_dict(), rc.to_dataframe(['b']).to_dict(),
                rc.to_dataframe({'a': 'A'}).to_dict(), rc.to_text(index=False)]

# ---------------------------------------------------------------- DataPlotGrid
def grid_all(data, ncols, **kw):
    g = DataPlotGrid(data, ncols, **kw) if ncols is not None else DataPlotGrid(data, **kw)
    out = {'ndata': g.ndata, 'ncols': g.ncols, 'nrows': g.nrows, 'figsize': g.figsize}
    for missing in (None, False, True, 0, 1):
        for transpose in (False, True, 0, 1, None):
            out['%r/%r' % (missing, transpose)] = list(g.items(missing=missing, transpose=transpose))
    out['default'] = list(g.items())
    out['kwT'] = list(g.items(transpose=True))
    out['posMissing'] = list(g.items(True))
    out['posBoth'] = list(g.items(True, True))
    return out

@case('grid list sizes')
def _():
    out = []
    for n in range(0, 14):
        for ncols in (1, 2, 3, 4, 5, 7):
            out.append([n, ncols, grid_all(['d%d' % i for i in range(n)], ncols)])
    return out

@case('grid dict sizes')
def _():
    out = []
    for n in (0, 1, 2, 3, 5, 6, 7, 10, 11):
        for ncols in (1, 2, 3, 4):
            out.append([n, ncols, grid_all({'k%d' % i: i * i for i in range(n)}, ncols)])
    return out

@case('grid defaults and axsize')
def _():
    return [grid_all([1, 2, 3], None), grid_all([1, 2, 3, 4, 5], 3, axsize=(1.5, 2.5))]

@case('grid wrong data type tuple')
def _():
    g = DataPlotGrid((1, 2, 3), 2)
    return list(g.items())

@case('grid wrong data type tuple transposed')
def _():
    g = DataPlotGrid((1, 2, 3), 2)
    return list(g.items(transpose=True))

@case('grid wrong data type missing ok')
def _():
    g = DataPlotGrid((1, 2, 3), 2)
    return [list(g.items(missing=True)), list(g.items(missing=True, transpose=True))]

@case('grid wrong data type is lazy')
def _():
    g = DataPlotGrid('abc', 2)
    it = g.items()
    out = [type(it).__name__]
    try:
        next(it)
    except BaseException as e:
        out.append(type(e).__name__)
    return out

@case('grid ndarray data')
def _():
    g = DataPlotGrid(np.arange(5), 2)
    out = [g.nrows, list(g.items(missing=True))]
    try:
        out.append(list(g.items()))
    except BaseException as e:
        out.append(type(e).__name__)
    return out

@case('grid zero columns')
def _():
    return DataPlotGrid([1, 2], 0)

@case('grid float columns')
def _():
    g = DataPlotGrid([1, 2, 3, 4, 5], 2.0)
    out = [g.nrows, g.figsize]
    for kw in (dict(), dict(transpose=True), dict(missing=True), dict(missing=True, transpose=True)):
        try:
            out.append(list(g.items(**kw)))
        except BaseException as e:
            out.append(type(e).__name__)
    return out

@case('grid subclass list/dict and partial iteration')
def _():
    class L(list): pass
    class D(dict): pass
    g1 = DataPlotGrid(L([1, 2, 3]), 2)
    g2 = DataPlotGrid(D(a=1, b=2, c=3), 2)
    it = g1.items(transpose=True)
    first = next(it)
    return [first, list(it), list(g2.items()), list(g2.items(transpose=True)), list(g2.items(missing=True))]

# ---------------------------------------------------------------- DataCombination
@case('combination product')
def _():
    out = []
    for items in ([[1, 2], ['a', 'b', 'c']], [[1], [2], [3]], [[], [1, 2]], [], [[1, 2, 3]],
                  [['x', 'y'], [True, False], [0.5, None, 3]], ['ab', (1, 2)]):
        dc = DataCombination(items)
        out.append([list(dc.keys()), list(dc.values()), list(dc.items())])
    return out

print(json.dumps(results))
'''


def run(root):
    p = subprocess.run([sys.executable, '-c', DRIVER, root], capture_output=True, text=True)
    if p.returncode != 0:
        sys.stderr.write(p.stderr)
        raise SystemExit(2)
    import json
    return json.loads(p.stdout.strip().splitlines()[-1])


def main():
    base, new = sys.argv[1].rstrip('/'), sys.argv[2].rstrip('/')
    a, b = run(base), run(new)
    bad = 0
    if len(a) != len(b):
        print('different number of cases', len(a), len(b))
        bad += 1
    for (la, ra), (lb, rb) in zip(a, b):
        if la != lb or ra != rb:
            bad += 1
            print('DIFF in case %r:\n  base: %s\n  new : %s' % (la, str(ra)[:600], str(rb)[:600]))
    print('%d cases compared, %d differ' % (len(a), bad))
    sys.exit(1 if bad else 0)


if __name__ == '__main__':
    main()
