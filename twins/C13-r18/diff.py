#!/venv/bin/python
"""Differential check for property C13 (DIP node paths follow indentation and
values are the literals written).

usage: diff.py <unmodified tree root> <refactored tree root>

Each tree is exercised in its own subprocess (own sys.path); the script exits 0
iff every observable output (node order, dotted paths, keyword, width/sign,
shape, value, unit, raised exception type and arguments) is identical.
"""
import json
import subprocess
import sys

RUNNER = r'''
import sys, json
root = sys.argv[1]
sys.path.insert(0, root + '/src')
import numpy as np
from scinumtools.dip import DIP
from scinumtools.dip.datatypes import Type
assert DIP.__module__ and sys.modules['scinumtools'].__file__.startswith(root), sys.modules['scinumtools'].__file__

INPUTS = json.loads(sys.stdin.read())

def plain(v):
    if isinstance(v, np.ndarray):
        return ['ndarray', str(v.dtype.kind), list(v.shape), v.tolist()]
    if isinstance(v, (np.generic,)):
        return [type(v).__name__, v.item()]
    if isinstance(v, (list, tuple)):
        return [plain(x) for x in v]
    return [type(v).__name__, v if isinstance(v, (int, float, str, bool, type(None))) else repr(v)]

def describe(node):
    val = node.value
    out = dict(
        name=node.name, keyword=node.keyword, cls=type(node).__name__,
        indent=node.indent, dimension=plain(node.dimension),
        dtype_prop=plain(list(node.dtype_prop)),
        units_raw=node.units_raw, value_raw=plain(node.value_raw),
        defined=node.defined, code=node.code,
        srcline=node.source[1] if node.source else None,
        precision=plain(getattr(node, 'precision', None)),
        unsigned=plain(getattr(node, 'unsigned', None)),
    )
    if isinstance(val, Type):
        out['vtype'] = type(val).__name__
        out['value'] = plain(val.value)
        out['unit'] = getattr(val, 'unit', None)
        out['vprecision'] = plain(getattr(val, 'precision', None))
        out['vunsigned'] = plain(getattr(val, 'unsigned', None))
    else:
        out['vtype'] = type(val).__name__
        out['value'] = plain(val)
    return out

results = []
for mode, text in INPUTS:
    try:
        with DIP() as p:
            p.add_string(text)
            if mode == 'queue':
                # nodes as produced line by line, before hierarchy resolution
                queue = p._get_queue()
                res = [describe(n) for n in queue.nodes.nodes]
                res.append(['lines_left', len(p.lines)])
            else:
                env = p.parse()
                res = [describe(n) for n in env.nodes]
        results.append(['ok', res])
    except BaseException as e:
        results.append(['exc', type(e).__name__, [repr(a) for a in e.args]])
print(json.dumps(results, sort_keys=True))
'''

INPUTS = []
def add(text, mode='parse'):
    INPUTS.append([mode, text])

# 1 flat scalars of every type
add('''
adult bool = true
minor bool = false
age int = 20 yr
weight float = 63.3 kg
name str = 'Laura'
city str = Prague
''')
# 2 nested groups, 2-blank indentation, comments and blank lines
add('''
# leading comment
box
  width float = 1.5 m   # trailing comment

  inner
    depth int = -3
    label str = "a b c"
  height float = 2e3 cm
lid bool = false
''')
# 3 same tree, 4-blank / mixed consistent indentation
add('''
box
    width float = 1.5 m
    inner
          depth int = -3
          label str = "a b c"
    height float = 2e3 cm
lid bool = false
''')
# 4 dotted names under groups, dedent of several levels at once
add('''
a.b
   c.d int = 1
   e
      f.g.h float = 2.5
         i str = x
j int = 3
a.k int = 4
''')
# 5 width / sign suffixes
add('''
    integer int = -34
    unsignedInteger uint = 235
    unsignedLongInteger uint64 = 29349850209348495020394849
    longInteger int64 = -239490304
    shortInteger int16 = 12
    f32 float32 = 1.25
    f128 float128 = -239490304
''')
# 6 float notations
add('''
f1 float = 1
f2 float = -1.
f3 float = .5
f4 float = 1e5
f5 float = 1.5E-3 km/s
f6 float = +2.0e+2
i1 int = +7
i2 int = 007
''')
# 7 inline arrays with dimensions
add('''
counts int[3] = [4234,34,2]
lengths float[2:,2] = [[4234,34],[234,34]] cm
colleagues str[:] = ["John","Patricia","Lena"]
logic bool[2] = [true,false]
spaced int[:3] = "[0, 1, 2]"
names str[2] = '["Jolana", "Anastasia"]'
''')
# 8 none values, quotes, escaped quotes, hash inside string
add('''
name str = none
age int = none
height float = none m
married bool = none
girl_friend str = "\\"l'amie\\""
boy_friend str = '"l\\'ami"'
hashtag str = '#nocomment'
anticommutator str = '{a,b}'
''')
# 9 block text and block array inside a group
add('''
grp
  text str = """
   tripple qotes # ' "
block of text
"""
  matrix int[2,3] = """
[[1,2,3],
 [4,5,6]]
  """ # comment after block
  after int = 1
''')
# 10 tables (scalar and array columns) nested in a group
add('''
run
  outputs table = """
time float s
snapshot int
intensity float W/m2

0.234 0 2.34
1.355 1 9.4
2.535 2 3.4
  """  # endqotes can be indented
  people table = """
name str
numbers int[3]
flag bool

"John Smith" [2,3,4] true
"Jennyfer Milton" [5,6,7] false
"""
  last int = 9
''')
# 11 declarations, later definitions and modifications
add('''
cash bool
cash = true
grp
  weight float kg
  weight = 77
  size float = 10 m
grp.size = 200 cm
''')
# 12 references with slices
add('''
sizes float[3] = [34,23.4,1e34] cm
masses float[2,3] = [[1,2,3],[4,5,6]] kg
mysize float[2] = {?sizes}[:2]
mymass float[2] = {?masses}[:,1]
one float = {?sizes}[1]
grp
  copy float = {?one} m
''')
# 13 errors: bad name
add('wrong$name int = 3')
# 14 errors: unknown type
add('a\n  b double = 3')
# 15 errors: wrong dimension
add('counts int[2] = [4234,34,2]')
# 16 errors: unterminated block
add('a str = """\nfoo\nbar')
# 17 errors: table with wrong number of columns
add('''
t table = """
a int
b int

1 2
3
"""
''')
# 18 errors: table header without blank line / bad header
add('''
t table = """
a int
b table
1 2
"""
''')
add('''
t table = """
a int = 3

1
"""
''')
# 20 errors: malformed dimensions / slices
add('a int[1:2:3] = [1]')
add('a int[,] = [1]')
add('s float[3] = [1,2,3]\nb float = {?s}[1:2:3]')
# 23 declaration without value
add('counts int')
# 24 units on bool / string
add('age bool = true a')
add('name str = Johannes Brahms')
# 26 empty table body and table with blank rows
add('''
t table = """
a int
b float m

"""
x int = 1
''')
add('''
t table = """
a int

1

2
"""
''')
# 28 line-level view of the node queue (before hierarchy), incl. blocks
add('''
# c
g
  a int[2] = """
[1,
2]
"""  # tail
  b str = """x
y"""

  t table = """
q int

1
"""
''', mode='queue')
add('a int = 1\nb str = """\nfoo', mode='queue')
# 30 tabs / odd whitespace as indentation, comment-only indented lines
add('g\n\tx int = 1\n\t# only comment\n\ty\n\t\tz float = 2 m\n   \nw int = 2')
# 31 expression and function-less parenthesised values
add('''
a int = 2
b float = ("{?a} * 3")
c bool = ("{?a} > 1")
d str = ("val={{?a}}")
''')
# 32 redefinition of the same node path twice -> single parameter
add('''
g
  a int = 1
  a = 2
g.a = 3
h
  a int = 5
''')


# 33.. (r3) tables: all column types with widths/units, quoted cells, nested
# placement, surrounding whitespace, empty rows, malformed headers and rows
add('''
sim
  out
    data table = """
t float32 s
n uint64
tag str
ok bool
vec float[2] cm

0.5 1 a true [1,2]
1.5 2 "b c" false [3.5,4e1]
"""
    after int16 = 3
  sibling str = x
''')
add('t table = """\n   a int\n  b float kg\n\n   1   2.5\n 3 4\n\n"""')
add('t table = """\na int\n\n1\n\n\n2\n"""')
add('t table = """\na int\nb int\n\n1 2 3\n"""')
add('t table = """\na int\nb.c int\n\n1 2\n"""\nt.a = [5]')
add('t table = """\na$ int\n\n1\n"""')
add('t table = """\na\n\n1\n"""')
add('t table = """\na int m # c\n\n1\n"""')
add('t table = """\n\n1 2\n"""')
add('t table = """\nv int[2]\n\n[1,2\n"""')
add('t table')
add('g\n  t table = """\n  a int\n  \n  1\n  """')
add('t table = """\na int\na float\n\n1 2\n3 4\n"""')


def run(root):
    proc = subprocess.run(
        [sys.executable, '-c', RUNNER, root],
        input=json.dumps(INPUTS), capture_output=True, text=True,
    )
    if proc.returncode != 0:
        print(proc.stderr)
        raise SystemExit(2)
    return json.loads(proc.stdout.strip().splitlines()[-1])


def main():
    base, new = sys.argv[1].rstrip('/'), sys.argv[2].rstrip('/')
    out_a, out_b = run(base), run(new)
    assert len(out_a) == len(out_b) == len(INPUTS) and len(INPUTS) >= 12
    bad = 0
    nok = 0
    for i, (a, b) in enumerate(zip(out_a, out_b)):
        if a[0] == 'ok':
            nok += 1
        if a != b:
            bad += 1
            print(f"DIFF on input #{i+1}:\n{INPUTS[i][1]}\n  base: {a}\n  new:  {b}")
    print(f"{len(INPUTS)} inputs, {nok} parsed ok in base, {len(INPUTS)-nok} raised, {bad} differences")
    sys.exit(1 if bad else 0)


if __name__ == '__main__':
    main()
