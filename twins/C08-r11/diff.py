#!/venv/bin/python
"""Differential check for property C08 (uncertainty propagation of Magnitude / Quantity).

usage: diff.py <unmodified tree root> <refactored tree root>
Runs the same inputs against both trees (one subprocess per tree, each with its own
sys.path) and exits 0 iff every observable output is identical.
"""
import json
import subprocess
import sys

PROBE = r'''
import sys, json
sys.path.insert(0, sys.argv[1] + '/src')
import numpy as np
from decimal import Decimal
from scinumtools.units import Magnitude, Quantity

def show(x):
    if isinstance(x, Magnitude):
        return ['Magnitude', show(x.value), show(x.error)]
    if isinstance(x, Quantity):
        return ['Quantity', show(x.magnitude), str(x.units())]
    if isinstance(x, np.ndarray):
        return ['ndarray', str(x.dtype), list(x.shape), [repr(float(v)) for v in x.ravel()]]
    if isinstance(x, (np.floating, np.integer)):
        return [type(x).__name__, repr(float(x))]
    if isinstance(x, Decimal):
        return ['Decimal', str(x)]
    if x is None or isinstance(x, (bool, int, str)):
        return [type(x).__name__, x]
    if isinstance(x, float):
        return ['float', repr(x)]
    return [type(x).__name__, repr(x)]

def run(fn):
    try:
        with np.errstate(all='ignore'):
            return ['ok', show(fn())]
    except BaseException as e:
        return ['raise', type(e).__name__]

M = Magnitude
A = lambda: M(4.0, 0.05)
B = lambda: M(7.0, 0.02)
N = lambda: M(-4.0, 0.05)
P = lambda: M(-7.0, 0.02)
E = lambda: M(3.0)
X = lambda: M(-2.5)
AR = lambda: M(np.array([1.0, -2.0, 3.0]), 0.1)
BR = lambda: M([2.0, 5.0, -8.0], rele=10)
ER = lambda: M(np.array([2.0, 4.0, 6.0]))
D = lambda: M(Decimal('2.5'))
DE = lambda: M(Decimal('2.5'), Decimal('0.5'))

operands = dict(A=A, B=B, N=N, P=P, E=E, X=X, AR=AR, BR=BR, ER=ER, D=D, DE=DE)
raw = dict(two=2, mthree=-3.0, half=0.5, zero=0, arr=np.array([1.0, 2.0, 4.0]), lst=[1.0, 2.0, 4.0],
           dec=Decimal('4'), s='x', none=None)
ops = {
    'add': lambda a, b: a + b,
    'sub': lambda a, b: a - b,
    'mul': lambda a, b: a * b,
    'div': lambda a, b: a / b,
}
cases = {}
for on, op in ops.items():
    for ln, l in operands.items():
        for rn, r in operands.items():
            cases[f'{on}:{ln}:{rn}'] = (lambda op=op, l=l, r=r: op(l(), r()))
        for rn, r in raw.items():
            cases[f'{on}:{ln}:raw-{rn}'] = (lambda op=op, l=l, r=r: op(l(), r))
            cases[f'{on}:raw-{rn}:{ln}'] = (lambda op=op, l=l, r=r: op(r, l()))
for ln, l in operands.items():
    cases[f'neg:{ln}'] = (lambda l=l: -l())
    cases[f'str:{ln}'] = (lambda l=l: str(l()))
    cases[f'repr:{ln}'] = (lambda l=l: repr(l()))
    cases[f'abse:{ln}'] = (lambda l=l: l().abse())
    cases[f'rele:{ln}'] = (lambda l=l: l().rele())
    cases[f'setabse:{ln}'] = (lambda l=l: l().abse(0.25))
    cases[f'setrele:{ln}'] = (lambda l=l: l().rele(5))
    cases[f'abs2rel:{ln}'] = (lambda l=l: l()._abs_to_rel(0.2))
    cases[f'rel2abs:{ln}'] = (lambda l=l: l()._rel_to_abs(-20))
    for p in (2, 3, -1, 0.5, 0, -2):
        cases[f'pow:{ln}:{p}'] = (lambda l=l, p=p: l() ** p)
# constructor
cases['ctor:both'] = lambda: M(1.0, 0.1, 10)
cases['ctor:rele'] = lambda: M(-20.0, rele=10)
cases['ctor:str'] = lambda: M('a')
cases['ctor:none'] = lambda: M(None)
cases['ctor:int'] = lambda: M(3, 1)
cases['ctor:npscalar'] = lambda: M(np.float32(1.5), 0.5)
cases['ctor:arr-errarr'] = lambda: M(np.array([1.0, 2.0]), np.array([0.1, 0.2]))
cases['ctor:arr-rele'] = lambda: M(np.array([[1.0, -2.0], [3.0, 4.0]]), rele=5)
cases['chain1'] = lambda: (A() + B()) * N() / P() - E()
cases['chain2'] = lambda: (AR() * 2 - 1) / BR()
cases['chain3'] = lambda: -(A() * B()) ** 2
# Quantity level: arithmetic and linear unit conversion
Q = Quantity
cases['q:conv1'] = lambda: Q(2.0, 'km', abse=0.25).to('m')
cases['q:conv2'] = lambda: Q(2.0, 'm', rele=10).to('cm')
cases['q:conv3'] = lambda: Q(-3.0, 'h', abse=0.5).to('s')
cases['q:conv4'] = lambda: Q([1.0, 2.0, 3.0], 'kg', abse=0.1).to('g')
cases['q:conv5'] = lambda: Q(5.0, 'km/h', abse=0.5).to('m/s')
cases['q:conv6'] = lambda: Q(5.0, 'm').to('km')
cases['q:conv-rele'] = lambda: Q(2.0, 'km', abse=0.25).to('m').rele()
cases['q:conv-bad'] = lambda: Q(2.0, 'km', abse=0.25).to('s')
cases['q:add'] = lambda: Q(2.0, 'm', abse=0.1) + Q(30.0, 'cm', abse=2.0)
cases['q:sub'] = lambda: Q(2.0, 'm', abse=0.1) - Q(30.0, 'cm', abse=2.0)
cases['q:sub-exact'] = lambda: Q(2.0, 'm', abse=0.1) - Q(30.0, 'cm')
cases['q:mul'] = lambda: Q(2.0, 'm', abse=0.1) * Q(3.0, 's', abse=0.2)
cases['q:mul-num'] = lambda: Q(2.0, 'm', abse=0.1) * -3
cases['q:rmul-num'] = lambda: -3 * Q(2.0, 'm', abse=0.1)
cases['q:div'] = lambda: Q(2.0, 'm', abse=0.1) / Q(4.0, 's', abse=0.2)
cases['q:div-num'] = lambda: Q(2.0, 'm', abse=0.1) / -4
cases['q:rdiv-num'] = lambda: 8 / Q(2.0, 's', abse=0.1)
cases['q:pow'] = lambda: Q(2.0, 'm', abse=0.1) ** 2
cases['q:neg'] = lambda: -Q(2.0, 'm', abse=0.1)
cases['q:exact'] = lambda: Q(2.0, 'm') * Q(4.0, 's') / Q(3.0, 'kg') + Q(1.0, 'm*s/kg')
cases['q:str'] = lambda: str(Q(2.0, 'm', abse=0.1) * Q(3.0, 's', abse=0.2))
cases['q:arr'] = lambda: Q([1.0, 2.0], 'm', abse=0.1) * Q([3.0, -4.0], 's', rele=5)
cases['q:mag'] = lambda: Q(M(2.0, 0.1), 'm', rele=20)
cases['q:mag-abse'] = lambda: Q(M(2.0, 0.1), 'm', abse=0.3).abse()

print(json.dumps({k: run(v) for k, v in cases.items()}, sort_keys=True))
'''


def probe(root):
    res = subprocess.run([sys.executable, '-c', PROBE, root], capture_output=True, text=True)
    if res.returncode != 0:
        sys.stderr.write(res.stderr)
        raise SystemExit(2)
    return json.loads(res.stdout.strip().splitlines()[-1])


def main():
    base, new = probe(sys.argv[1]), probe(sys.argv[2])
    bad = [k for k in sorted(set(base) | set(new)) if base.get(k) != new.get(k)]
    for k in bad:
        print('DIFF', k, base.get(k), new.get(k))
    nok = sum(1 for v in base.values() if v[0] == 'ok')
    print(f'{len(base)} cases ({nok} ok, {len(base) - nok} raising); {len(bad)} differing')
    sys.exit(1 if bad else 0)


if __name__ == '__main__':
    main()
