#!/venv/bin/python
"""Differential check for property C15 (nested @case/@else/@end selection).

usage: diff.py <unmodified tree root> <refactored tree root>
Runs the same DIP inputs against both trees (each in its own subprocess with
its own sys.path) and exits 0 iff every observable output is identical.
"""
import sys, os, json, subprocess

WORKER = r'''
import sys, json, random
root = sys.argv[1]
sys.path.insert(0, root + '/src')
from scinumtools.dip import DIP
from scinumtools.dip.settings import Format
import scinumtools
assert scinumtools.__file__.startswith(root), scinumtools.__file__

FIXED = [
# 0 nested, closed by indentation, nodes before/inside/after
"""
before int = 1
@case false
  flower str = 'rose'
@else
  flower str = 'dandelion'
  @case false
    color str = 'red'
  @case false
    color str = 'blue'
  @else
    @case true
      leaves int = 234
    color str = 'yellow'
tree str = 'maple'
""",
# 1 modifications inside clauses
"""
star str = 'Sun'
@case false
  star = 'Sirius'
  nebula str = 'Orion'
@else
  star = 'Wega'
  nebula str = 'Crab'
nebula = 'Eagle'
""",
# 2 explicit @end, first true wins
"""
plant
  @case true
    leaves int = 1302
  @case true
    leaves int = 12304
  @else
    leaves int = 7
  @end
  stem float = 2.5 cm
""",
# 3 compact names
"""
plant.@case false
    flower str = 'green'
plant.@case false
    flower str = 'yellow'
plant.@case true
    flower str = 'red'
plant.@else
    flower str = 'blue'
plant.size float = 3 m
""",
# 4 only false case, nothing selected
"""
sim
  gravity bool = false
  @case ("{?sim.gravity}")
    stars int = 30
  @end
  after int = 4
""",
# 5 expression conditions with units
"""
trafic
  limit float = 75 km/s
  urban bool = true
  @case ("{?trafic.limit} <= 50 km/s || {?trafic.urban}")
    road str = 'town'
  @case ("( {?trafic.limit} <= 100 km/s && {?trafic.limit} > 50 km/s )  && !{?trafic.urban}")
    road str = 'country'
  @else
    road str = 'motorway'
  @end
  cars int = 12
""",
# 6 misplaced @end
"""
@end
""",
# 7 misplaced @else
"""
@else
   car str = 'BMW'
""",
# 8 @end at deeper indent than its case
"""
@case true
  @end
""",
# 9 @else after @end
"""
@case true
  a int = 1
@end
@else
  a int = 2
""",
# 10 double @end
"""
@case false
  a int = 1
@end
@end
""",
# 11 properties inside unselected / selected clauses
"""
gravity bool = false
@case ("{?gravity}")
  stars int = 30
    !constant
@else
  stars int = 40 km
    !options [40,50] km
@end
radiation bool = true
  !constant
""",
# 12 inner block closed by indentation of outer clause keyword
"""
@case true
  a int = 1
  @case false
    b int = 2
  @else
    b int = 3
@case true
  a int = 10
@else
  a int = 100
c int = 5
""",
# 13 false outer with true inner
"""
@case false
  @case true
    x float = 1 m
  @else
    x float = 2 m
  y float = 3 s
@end
z float = 4 kg
""",
# 14 three levels, explicit ends
"""
top
  @case true
    @case true
      @case false
        deep int = 1
      @else
        deep int = 2
      @end
      mid int = 3
    @end
    out int = 4
  @end
  last int = 5
""",
# 15 @else twice in one block
"""
@case false
  a int = 1
@else
  a int = 2
@else
  a int = 3
@end
""",
# 16 clause ended by a node at the keyword's indent, then more nodes
"""
grp
  @case true
    a int = 1
  b int = 2
  @case false
    c int = 3
  d int = 4
e int = 5
""",
# 17 @case after @else in same block
"""
@case false
  a int = 1
@else
  a int = 2
@case true
  a int = 3
@end
q int = 9
""",
# 18 flat compact names: outer @else while an inner branch is still open
"""
g.@case false
g.h.@case true
g.h.x int = 1
g.@else
g.y int = 2
g.@end
z int = 3
""",
# 19 flat compact names: outer @end while an inner branch is still open
"""
g.@case true
g.h.@case true
g.h.x int = 1
g.@end
z int = 3
""",
# 20 @else of a sibling group that has no open block
"""
a
  @case true
    x int = 1
b
  @else
    y int = 2
""",
# 21 inner @else reached after the outer clause switched
"""
@case true
  @case false
    x int = 1
@case true
  @else
    x int = 2
""",
# 22 two sequential blocks, second reuses the path of the first
"""
@case false
  x int = 1
@end
@case true
  x int = 2
@else
  x int = 3
@end
w int = 0
""",
# 23 deeper compact path then return to the shallower one
"""
p.@case true
p.q.@case false
p.q.r int = 1
p.q.@else
p.q.r int = 2
p.q.@end
p.s int = 3
p.@case true
p.s int = 4
p.@end
""",
]

def gen_block(rng, depth, indent, counter, explicit):
    """Random nested case block; returns list of lines."""
    pad = ' ' * indent
    lines = []
    nclauses = rng.randint(1, 3)
    for k in range(nclauses):
        val = rng.choice(['true', 'false'])
        lines.append(f"{pad}@case {val}")
        lines += gen_body(rng, depth, indent + 2, counter, explicit)
    if rng.random() < 0.6:
        lines.append(f"{pad}@else")
        lines += gen_body(rng, depth, indent + 2, counter, explicit)
    if explicit or rng.random() < 0.4:
        lines.append(f"{pad}@end")
    return lines

def gen_body(rng, depth, indent, counter, explicit):
    pad = ' ' * indent
    lines = []
    for _ in range(rng.randint(1, 3)):
        r = rng.random()
        if r < 0.35 and depth > 0:
            lines += gen_block(rng, depth - 1, indent, counter, explicit)
        elif r < 0.55 and counter['names']:
            nm = rng.choice(counter['names'])
            counter['n'] += 1
            lines.append(f"{pad}{nm} = {counter['n']}")
        else:
            counter['n'] += 1
            nm = f"n{rng.randint(0, 4)}"
            if nm not in counter['names']:
                counter['names'].append(nm)
            lines.append(f"{pad}{nm} int = {counter['n']}")
    return lines

def gen_program(seed):
    rng = random.Random(seed)
    counter = {'n': 0, 'names': []}
    explicit = seed % 2 == 0
    lines = ["pre int = 0"]
    if seed % 3:   # pre-declare the pool so that modifications always have a target
        for k in range(5):
            lines.append(f"n{k} int = -1")
            counter['names'].append(f"n{k}")
    for _ in range(rng.randint(1, 3)):
        lines += gen_block(rng, 3, 0, counter, explicit)
        counter['n'] += 1
        lines.append(f"mid{counter['n']} float = {counter['n']} m")
    lines.append("post str = 'x'")
    return "\n".join(lines) + "\n"

def run(code):
    try:
        with DIP() as p:
            p.add_string(code)
            env = p.parse()
        data = env.data(Format.TYPE, verbose=False)
        out = {k: [type(v).__name__, repr(v.value), repr(v.unit)] for k, v in data.items()}
        props = [[n.name, bool(n.constant), repr(n.options) if hasattr(n, 'options') else None] for n in env.nodes]
        return {'ok': out, 'order': list(data.keys()), 'props': props}
    except Exception as e:
        return {'exc': type(e).__name__, 'arg0': repr(e.args[0]) if e.args else None}

results = []
for code in FIXED:
    results.append(run(code))
for seed in range(60):
    results.append(run(gen_program(seed)))
print(json.dumps(results))
'''

def collect(root):
    root = os.path.abspath(root)
    env = dict(os.environ)
    env.pop('PYTHONPATH', None)
    p = subprocess.run([sys.executable, '-c', WORKER, root], capture_output=True, text=True, env=env, cwd='/')
    if p.returncode != 0:
        sys.stderr.write(p.stderr)
        raise SystemExit(2)
    return json.loads(p.stdout.strip().splitlines()[-1])

def main():
    a = collect(sys.argv[1])
    b = collect(sys.argv[2])
    bad = 0
    if len(a) != len(b):
        print("different number of results"); bad += 1
    for i, (x, y) in enumerate(zip(a, b)):
        if x != y:
            bad += 1
            print(f"input {i} differs:\n  base: {x}\n  new:  {y}")
    nexc = sum('exc' in x for x in a)
    print(f"{len(a)} inputs compared ({nexc} raising), {bad} differences")
    sys.exit(1 if bad else 0)

if __name__ == '__main__':
    main()
