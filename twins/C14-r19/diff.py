#!/venv/bin/python
"""Differential test for property C14 (last assignment wins, in units/type of the definition).

usage: diff.py <unmodified tree root> <refactored tree root>
Runs the same DIP inputs against both trees (each in its own subprocess with its
own sys.path) and exits 0 iff every observable output is identical.
"""
import sys, os, json, subprocess

CHILD = r'''
import sys, json
root = sys.argv[1]
sys.path.insert(0, root + '/src')
import numpy as np
from scinumtools.dip import DIP
from scinumtools.dip.settings import Format
from scinumtools.dip.datatypes import Type

CASES = [
 # --- repeated assignment, same dimension, typed / untyped ---
 ("len_chain", "size float = 70 cm\nsize float = 80 cm\nsize = 90 cm\nsize = 100\nsize = 1 m"),
 ("energy", "energy float = 1.23 J\nenergy = 2.2 erg\nenergy = 2.2 g*cm2/s2"),
 ("angle", "angle float = 1.57079633 rad\nangle = 31 '"),
 ("percent", "alcohol float = 34 %\nalcohol = 2 ppth"),
 ("temp", "temp float = 20 Cel\ntemp = 280.15 K"),
 ("int_units", "age int = 34 yr\nage = 480 mo\nage int = 2 yr"),
 ("int_round", "n int = 3 m\nn = 250 cm"),
 ("uint16", "n uint16 = 3\nn = 7"),
 ("float32", "x float32 = 3 km\nx = 7 m\nx float32 = 2 km"),
 # --- zero, negative, false, none ---
 ("zero_f", "a float = 5 m\na = 0 cm"),
 ("zero_f2", "a float = 5 m\na = 0"),
 ("neg_f", "a float = 5 m\na = -250 cm"),
 ("zero_i", "a int = 5\na = 0"),
 ("neg_i", "a int = 5 m\na = -3 km"),
 ("false_b", "b bool = true\nb = false"),
 ("true_b", "b bool = false\nb = true\nb bool = false\nb = true"),
 ("none_f", "a float = 5 m\na = none"),
 ("none_f_unit", "a float = 5 m\na = none cm"),
 ("none_then_val", "a float = none m\na = 20 cm"),
 ("none_i", "a int = 5\na = none"),
 ("none_b", "b bool = true\nb = none"),
 ("none_s", "s str = abc\ns = none"),
 ("zero_first", "a float = 0 m\na = 20 cm"),
 ("false_first", "b bool = false\nb = true"),
 ("zero_first_i", "a int = 0 m\na = 2 km\na = 0"),
 ("str_mod", "s str = abc\ns = 'def ghi'\ns str = \"\""),
 ("str_empty_first", "s str = ''\ns = x"),
 # --- declarations ---
 ("decl_then_val", "a float m\na = 20 cm"),
 ("decl_then_typed", "a float m\na float = 3 km"),
 ("decl_int", "a int\na = 3"),
 ("decl_bool", "b bool\nb = false"),
 ("decl_str", "s str\ns = ''"),
 ("decl_missing", "a float m"),
 ("decl_missing_b", "b bool\nc int = 1"),
 ("decl_none", "a float m\na = none"),
 ("decl_zero", "a float m\na = 0"),
 # --- failure modes ---
 ("dtype_change", "age int = 34 yr\nage float = 55"),
 ("dtype_change2", "a float = 1\na str = x"),
 ("dtype_change3", "a bool = true\na int = 1"),
 ("dim_mismatch", "a float = 1 m\na = 2 s"),
 ("dim_mismatch_i", "a int = 1 kg\na = 2 m"),
 ("unit_on_unitless", "a float = 1\na = 2 m"),
 ("bool_unit", "b bool = true\nb = false m"),
 ("str_unit", "s str = a\ns = b m"),
 ("const", "size float = 30 cm\n  !constant\nsize = 23"),
 ("const_ok", "size float = 30 cm\n  !constant\nother float = 1 m\nother = 3 cm"),
 ("const_after_mod", "size float = 30 cm\nsize = 1 m\n  !constant\nsize = 2"),
 ("undefined_mod", "weight = 23 kg"),
 ("bad_value", "a int = 3\na = abc"),
 ("bad_bool", "b bool = true\nb = maybe"),
 ("bad_unit", "a float = 3 m\na = 3 foo"),
 # --- hierarchy ---
 ("hier", "box\n  size float = 1 m\n  size = 20 cm\nbox.size = 30 mm"),
 ("hier_ns", "a.b.c int = 1 km\na\n  b\n    c = 3000 m\na.b.c = 5"),
 ("hier_const", "a\n  b float = 1 m\n    !constant\na.b = 2"),
 ("hier_other", "a\n  x float = 1 m\nb\n  x float = 2 s\na.x = 3 cm\nb.x = 4 ms"),
 # --- options / conditions / cases interplay ---
 ("options_ok", "width float = 2 m\n  = 2 m\n  = 3 m\nwidth = 3000 mm"),
 ("options_bad", "size float = 24 cm\n  = 24 cm\n  = 25 m\nsize = 25 cm"),
 ("cond", "a float = 2 m\n  !condition ('{?} > 1 m')\na = 50 cm"),
 ("case", "a float = 1 m\n@case true\n  a = 20 cm\n@else\n  a = 30 cm\n@end"),
 ("case_false", "a float = 1 m\n@case false\n  a = 20 s\n@else\n  a = 30 cm\n@end"),
 # --- arrays ---
 ("arr", "a float[3] = [1,2,3] m\na = [10,20,30] cm"),
 ("arr_bad_dim", "a float[3] = [1,2,3] m\na = [10,20] cm"),
 ("arr_int", "a int[2] = [1,2] km\na = [3000,4000] m"),
 ("arr_bool", "b bool[2] = [true,false]\nb = [false,false]"),
 # --- references / expressions ---
 ("ref", "x float = 5 km\na float = 1 m\na = {?x}"),
 ("ref_dim", "x float = 5 s\na float = 1 m\na = {?x}"),
 ("expr", "a float = 1 m\na float = ('2*3') cm"),
 ("expr2", 'a float = 1 m\na float = ("2*3") cm'),
 ("custom_unit", "$unit foot = 0.3048 m\na float = 1 m\na = 10 [foot]"),
 ("custom_unit_bad", "$unit tick = 2 s\na float = 1 m\na = 10 [tick]"),
 ("int_units2", "age int = 34 yr\nage = 730 day\nage int = 2 yr"),
]

def ser(v):
    if isinstance(v, Type):
        d = {"T": type(v).__name__, "value": ser(v.value), "unit": v.unit}
        for k in ("precision", "unsigned"):
            if hasattr(v, k):
                d[k] = ser(getattr(v, k))
        return d
    if isinstance(v, np.ndarray):
        return {"nd": v.tolist(), "dt": str(v.dtype)}
    if isinstance(v, (np.generic,)):
        return {"np": type(v).__name__, "v": v.item()}
    if isinstance(v, (list, tuple)):
        return [ser(x) for x in v]
    if isinstance(v, dict):
        return {str(k): ser(x) for k, x in v.items()}
    if isinstance(v, (int, float, str, bool)) or v is None:
        return {"py": type(v).__name__, "v": repr(v)}
    return {"repr": repr(v)}

def exc_args(e):
    out = []
    for a in e.args:
        try:
            out.append(ser(a))
        except Exception:
            out.append(repr(a))
    return out

out = {}
for name, code in CASES:
    res = {}
    try:
        with DIP(name="P") as p:
            p.add_string(code)
            env = p.parse()
        res["nodes"] = [
            {"name": n.name, "cls": type(n).__name__, "kw": n.keyword, "value": ser(n.value),
             "units_raw": n.units_raw, "value_raw": ser(n.value_raw), "constant": n.constant,
             "defined": n.defined, "str": str(n)}
            for n in env.nodes
        ]
        res["cursor"] = env.nodes.cursor
        for fmt in ("VALUE", "TUPLE", "TYPE"):
            try:
                res["data_" + fmt] = ser(env.data(format=getattr(Format, fmt)))
            except Exception as e:
                res["data_" + fmt] = {"exc": type(e).__name__, "args": exc_args(e)}
    except BaseException as e:
        res["exc"] = type(e).__name__
        res["args"] = exc_args(e)
    out[name] = res

# direct unit tests of the datatype / node helpers used by the assignment path
from scinumtools.dip.datatypes import FloatType, IntegerType, BooleanType, StringType
from scinumtools.dip.nodes import FloatNode, IntegerNode, BooleanNode, StringNode, ModNode
from scinumtools.dip.lists.list_hierarchy import HierarchyList
from scinumtools.dip.nodes.node import Node

def attempt(fn):
    try:
        return ser(fn())
    except BaseException as e:
        return {"exc": type(e).__name__, "args": exc_args(e)}

direct = {}
direct["conv1"] = attempt(lambda: FloatType(2.0, 'km').convert('m'))
direct["conv2"] = attempt(lambda: FloatType(2.0, 'km').convert(None))
direct["conv3"] = attempt(lambda: FloatType(2.0, None).convert('m'))
direct["conv4"] = attempt(lambda: FloatType(2.0, 'm').convert('m'))
direct["conv5"] = attempt(lambda: IntegerType(2, 'km', unsigned=True, precision='16').convert('m'))
direct["conv6"] = attempt(lambda: FloatType(2.0, 'km').convert('s'))
direct["conv7"] = attempt(lambda: FloatType(np.array([1., 2.]), 'km', precision=32).convert('m'))
direct["conv8"] = attempt(lambda: FloatType(0.0, 'km').convert('m'))
direct["ft_copy"] = attempt(lambda: FloatType(FloatType(3.0, 'm'), 'km'))
direct["it_copy"] = attempt(lambda: IntegerType(IntegerType(3, 'm'), 'km', unsigned=False))
direct["bt_copy"] = attempt(lambda: BooleanType(BooleanType(False)))
direct["bt_arr"] = attempt(lambda: BooleanType(np.array([True, False])))
direct["ft_badprec"] = attempt(lambda: FloatType(1.0, precision='x'))

def mknode(cls, **kw):
    base = dict(code='c', name='n', dtype_prop=['', ''] if cls is IntegerNode else [''],
                value_raw=None, units_raw=None, dimension=None, value_slice=None)
    base.update(kw)
    return cls(**base)

def setv(cls, arg, **kw):
    n = mknode(cls, **kw)
    n.set_value(*arg)
    return n.value

for cname, cls in (("F", FloatNode), ("I", IntegerNode), ("B", BooleanNode), ("S", StringNode)):
    for rname, raw in (("none", None), ("empty", ''), ("one", '1'), ("true", 'true'), ("kwnone", 'none'), ("zero", '0')):
        for aname, arg in (("noarg", ()), ("zero", (0,)), ("false", (False,)), ("val", (2,)), ("str", ('x',)), ("estr", ('',))):
            direct[f"set_{cname}_{rname}_{aname}"] = attempt(lambda: setv(cls, arg, value_raw=raw, units_raw='m' if cname in 'FI' else None))
        direct[f"rawempty_{cname}_{rname}"] = attempt(lambda: mknode(cls, value_raw=raw).raw_empty())
        direct[f"cast_{cname}_{rname}"] = attempt(lambda: mknode(cls, value_raw=raw).cast_value())
        direct[f"cast2_{cname}_{rname}"] = attempt(lambda: mknode(cls, value_raw='1').cast_value(raw))

direct["cast_arr"] = attempt(lambda: mknode(FloatNode, value_raw='[1,2,3]', dimension=[(3, 3)]).cast_value())
direct["cast_arr_bad"] = attempt(lambda: mknode(FloatNode, value_raw='[1,2,3]', dimension=[(1, 2)]).cast_value())
direct["cast_arr_bad2"] = attempt(lambda: mknode(FloatNode, value_raw='[1,2,3]', dimension=[(4, None)]).cast_value())
direct["cast_ft_to_int"] = attempt(lambda: mknode(IntegerNode, value_raw='1').cast_value(FloatType(2.0, 'm')))
direct["cast_it_to_float"] = attempt(lambda: mknode(FloatNode, value_raw='1').cast_value(IntegerType(2, 'm')))
direct["cast_bt"] = attempt(lambda: mknode(BooleanNode, value_raw='true').cast_value(BooleanType(False)))
direct["cast_npbool"] = attempt(lambda: mknode(BooleanNode, value_raw='true').cast_value(np.bool_(False)))

def hier():
    h = HierarchyList()
    names = []
    for ind, nm, kw in ((0, 'a', 'group'), (2, 'b', 'float'), (2, 'c', 'option'), (4, 'd', 'int'), (0, 'e.f', 'int'), (1, None, 'mod')):
        n = Node('c', indent=ind, name=nm, keyword=kw)
        h.register(n, ['option'])
        names.append(n.name)
    return names
direct["hier"] = attempt(hier)
out["__direct__"] = direct

print(json.dumps(out, sort_keys=True))
'''

def run(root):
    root = os.path.abspath(root)
    env = dict(os.environ)
    env.pop('PYTHONPATH', None)
    env['PYTHONDONTWRITEBYTECODE'] = '1'
    r = subprocess.run([sys.executable, '-c', CHILD, root], capture_output=True, text=True, cwd='/tmp', env=env)
    if r.returncode != 0:
        print("child failed for", root, file=sys.stderr)
        print(r.stderr[-3000:], file=sys.stderr)
        sys.exit(2)
    return json.loads(r.stdout.strip().splitlines()[-1])

def main():
    a = run(sys.argv[1])
    b = run(sys.argv[2])
    bad = 0
    for key in sorted(set(a) | set(b)):
        if key == "__direct__":
            for k in sorted(set(a[key]) | set(b[key])):
                if a[key].get(k) != b[key].get(k):
                    bad += 1
                    print("DIFF direct", k, a[key].get(k), b[key].get(k))
            continue
        if a.get(key) != b.get(key):
            bad += 1
            print("DIFF", key)
            print("  base:", json.dumps(a.get(key))[:600])
            print("  new :", json.dumps(b.get(key))[:600])
    n = len(a) - 1 + len(a.get("__direct__", {}))
    print(f"{n} observations compared, {bad} differences")
    sys.exit(1 if bad else 0)

if __name__ == '__main__':
    main()
