#!/venv/bin/python
"""Differential check for property C13 (DIP node paths follow indentation, values are literals).

usage: diff.py <unmodified tree root> <refactored tree root>
Runs the same DIP inputs against both trees (each in its own subprocess with its own
sys.path) and exits 0 iff every observable output is identical.
"""
import json
import subprocess
import sys

DRIVER = r'''
import sys, json
root = sys.argv[1]
sys.path.insert(0, root + '/src')
import numpy as np
from scinumtools.dip import DIP
from scinumtools.dip.settings import Format

CASES = json.loads(sys.stdin.read())

def plain(v):
    if isinstance(v, np.ndarray):
        return ['ndarray', str(v.dtype.kind), v.tolist()]
    if isinstance(v, (np.generic,)):
        return [type(v).__name__, v.item()]
    if isinstance(v, (list, tuple)):
        return [type(v).__name__, [plain(x) for x in v]]
    if isinstance(v, float):
        return ['float', repr(v)]
    if isinstance(v, bool):
        return ['bool', v]
    if isinstance(v, int):
        return ['int', v]
    if v is None:
        return None
    return [type(v).__name__, str(v)]

def run(text):
    out = {}
    try:
        with DIP() as p:
            p.add_string(text)
            env = p.parse()
        nodes = []
        for node in env.nodes:
            val = node.value
            nodes.append(dict(
                name=node.name,
                keyword=node.keyword,
                cls=type(node).__name__,
                indent=node.indent,
                vtype=type(val).__name__,
                value=plain(getattr(val, 'value', val)),
                unit=getattr(val, 'unit', None),
                precision=plain(getattr(val, 'precision', None)),
                unsigned=plain(getattr(val, 'unsigned', None)),
                units_raw=node.units_raw,
                dimension=plain(node.dimension),
                defined=node.defined,
                code=node.code,
                source_line=node.source[1],
            ))
        out['nodes'] = nodes
        out['tuple'] = [[k, plain(v)] for k, v in env.data(format=Format.TUPLE).items()]
        out['value'] = [[k, plain(v)] for k, v in env.data().items()]
    except BaseException as e:
        out['exc'] = type(e).__name__
        out['exc_nargs'] = len(e.args)
    return out

def run_docs(text):
    try:
        with DIP() as p:
            p.add_string(text)
            docs = p.parse_docs()
        return [[n.name, n.keyword, n.indent] for n in docs.env.nodes] if hasattr(docs, 'env') else 'ok'
    except BaseException as e:
        return type(e).__name__

res = []
for text in CASES:
    res.append(dict(parse=run(text), docs=run_docs(text)))
print(json.dumps(res, sort_keys=True))
'''

CASES = [
    # 1 flat scalars of all kinds
    "a bool = true\nb bool = false\nc int = 23\nd float = 2.5\ne str = hello\nf str = 'two words'\ng str = \"dq # not comment\"",
    # 2 nested groups, indentation 2
    "box\n  width float = 3 cm\n  height float = 4.5e1 mm\n  inner\n    depth int = 7 m\n  label str = top\nafter int = 1",
    # 3 same tree with indentation 4 / 1 mixed and comments / blank lines
    "# head comment\nbox   # group comment\n    width float = 3 cm   # c\n\n    height float = 4.5e1 mm\n    inner\n     depth int = 7 m\n\n    # interleaved\n    label str = top\nafter int = 1\n",
    # 4 dotted names, with parents
    "a.b.c int = 1\nx\n  y.z float = 1e-3 s\n  y.w\n    v bool = false\n  u.t str = q",
    # 5 type suffixes
    "i16 int16 = -12\nu32 uint32 = 12\nu64 uint64 = 18446744073709551615\ni64 int64 = -9\nf32 float32 = 1.5\nf64 float64 = 2.5E+3\nf128 float128 = 1e300 kg\nu uint = 5 m",
    # 6 float notations
    "a float = 1\nb float = -1.\nc float = .5\nd float = +3.25e-2\ne float = 1E5 J\nf float = -0.0\ng int = -0\nh int = +15",
    # 7 none values
    "a int = none\nb float = none km\nc str = none\nd bool = none\ne int[2] = none",
    # 8 inline arrays
    "a int[3] = [1,2,3]\nb float[2,2] = [[1.5,2],[3,4e1]] cm\nc str[2] = [\"x\",\"y\"]\nd bool[:] = [true,false,true]\ne int[1:] = [4] m\nf float[:3] = [1,2]",
    # 9 block arrays and strings
    "grp\n  arr int[2,3] = \"\"\"\n[[1,2,3],\n [4,5,6]]\n\"\"\" m\n  txt str = \"\"\"\nline one\n  line # two\n\"\"\"\n  z int = 0",
    # 10 table
    "run\n  out table = \"\"\"\nt float s\nn int\nok bool\nname str\n\n0.5 1 true a\n1.5 2 false b\n2.5 3 true \"c d\"\n\"\"\"\n  tail int = 2",
    # 11 table with array column + declared units
    "tab table = \"\"\"\nv float[2] m\nk uint16\n\n[1,2] 3\n[4.5,6] 7\n\"\"\"",
    # 12 dedent to multiple levels, sibling groups with same child names
    "a\n  b\n    c\n      d int = 1\n  e int = 2\nf\n  b\n    c int = 3\n d int = 4\ng int = 5",
    # 13 redefinition / modification keeps first-appearance order
    "a int = 1\nb int = 2 m\na = 3\ng\n  x float = 1 cm\ng.x = 2 mm\nc str = s",
    # 14 escapes and hash inside quotes
    "s1 str = 'it\\'s'\ns2 str = \"say \\\"hi\\\"\"\ns3 str = \"a#b\" # real comment\ns4 str = bare#c",
    # 15 errors: unknown type
    "a integer = 4",
    # 16 errors: bad name
    "a$b int = 4",
    # 17 errors: missing value / declaration only
    "a int",
    # 18 errors: empty value
    "a int = ",
    # 19 errors: wrong dimension
    "a int[2] = [1,2,3]",
    # 20 errors: array to scalar, bad bool, bad int, unit on str / bool
    "a int = [1,2]",
    "a bool = yes",
    "a int = 1.5x",
    "a str = x cm",
    "a bool = true cm",
    # 25 errors: table problems
    "t table = \"\"\"\na int\nb int\n\n1 2 3\n\"\"\"",
    "t table = \"\"\"\na int\nb intx\n\n1 2\n\"\"\"",
    "t table = \"\"\"\na int = 3\n\n1\n\"\"\"",
    # 28 unterminated block
    "a str = \"\"\"\nabc",
    # 29 tabs/odd whitespace, trailing blanks, comment-only, blank-only
    "g   \n   a int = 1   \n   \n   # c\n   b   float   =   2   m   # x\n",
    "# only a comment\n\n   # another",
    "",
    # 32 group line followed by deeper typed and modification without definition
    "g\n  h\n    i int = 1\nq = 3",
    # 33 declaration followed by definition
    "a int m\na = 4 cm\nb str\nb = x",
    # 34 slices of references and injected values
    "a int[3] = [1,2,3]\nb int = {?a}[1]\nc int[2] = {?a}[:2]\nd float = {?b} ",
    "e str = {?nothere}",
    # 35 expressions and functions fall-through (value parse order)
    "a float = 2 m\nb float = (\"{?a} * 3\") m\nc bool = (\"{?a} > 1 m\")\nd str = (\"v={{?a}:.1f}\")",
    "e int = (fn)",
    # 36 case branching inside hierarchy
    "g\n  @case true\n    a int = 1\n  @else\n    a int = 2\n  @end\n  b int = 3",
    # 37 hierarchy with property lines
    "g\n  a int = 1\n    !options [1,2]\n    !description \"x\"\n    !constant\n  b float = 2\n    !condition (\"{?} > 1\")\n    !tags [\"t\"]",
    "b float = 2\n  !format \"x\"",
    "g\n  s str = ab\n    !format \"[a-z]+\"\n  t str = AB\n    !format \"[a-z]+\"",
    # 39 units directive + source-less unit usage
    "$unit len = 5 cm\na float = 2 [len]\nb float = 1 m\nb = 2 [len]",
]


def run(root):
    p = subprocess.run(
        [sys.executable, '-c', DRIVER, root],
        input=json.dumps(CASES), capture_output=True, text=True, timeout=600,
    )
    if p.returncode != 0:
        print("driver failed for", root)
        print(p.stderr[-3000:])
        sys.exit(2)
    return json.loads(p.stdout.strip().splitlines()[-1])


def main():
    base, new = sys.argv[1], sys.argv[2]
    a, b = run(base), run(new)
    bad = 0
    for i, (x, y) in enumerate(zip(a, b)):
        if x != y:
            bad += 1
            print(f"DIFF in case {i + 1}:\n  input: {CASES[i]!r}\n  base: {json.dumps(x)[:1500]}\n  new:  {json.dumps(y)[:1500]}")
    if len(a) != len(b):
        bad += 1
    nexc = sum(1 for x in a if 'exc' in x['parse'])
    print(f"{len(CASES)} cases, {nexc} raising in base, {bad} differing")
    sys.exit(1 if bad else 0)


if __name__ == '__main__':
    main()
