#!/venv/bin/python
"""Differential check for property C10 (formula -> atoms decomposition).

usage: diff.py <unmodified tree root> <refactored tree root>
Runs the same inputs against each tree in its own subprocess and exits 0
iff every observable (values, units, exception types) is identical.
"""
import json
import os
import subprocess
import sys

PROBE = r'''
import sys, json, io, contextlib
root = sys.argv[1]
sys.path.insert(0, root + "/src")
import scinumtools
assert scinumtools.__file__.startswith(root + "/"), scinumtools.__file__
from scinumtools.materials import Substance, Element, SubstanceSolver
from scinumtools.units import Quantity

def show(v):
    if isinstance(v, Quantity):
        return ["Q", repr(v.value()), str(v.units())]
    if isinstance(v, (list, tuple)):
        return [show(i) for i in v]
    if isinstance(v, dict):
        return {str(k): show(i) for k, i in v.items()}
    if hasattr(v, "tolist"):
        return show(v.tolist())
    if isinstance(v, float):
        return repr(v)
    if v is None or isinstance(v, (int, str, bool)):
        return v
    return repr(v)

def substance(s):
    out = {}
    out["expr"] = s.expr
    out["keys"] = list(s.components.keys())
    out["counts"] = [show(c.proportion) for c in s.components.values()]
    out["species"] = [[c.element, show(c.isotope), show(c.ionisation), show(c.Z), show(c.N), show(c.e),
                       show(c.mass), show(c.component_mass)] for c in s.components.values()]
    out["norm"] = show(s.proportion_norm)
    out["mass"] = show(s.composite_mass)
    for q in (True, False):
        dc = s.data_components(quantity=q)
        ds = s.data_composite(quantity=q)
        out["dc%d" % q] = None if dc is None else {k: show([dc[k][c] for c in s.cols_components]) for k in dc.keys()}
        out["ds%d" % q] = None if ds is None else {k: show([ds[k][c] for c in s.cols_composite]) for k in ds.keys()}
    out["str"] = str(s) if s.components else None
    buf = io.StringIO()
    if s.components:
        with contextlib.redirect_stdout(buf):
            s.print()
    out["print"] = buf.getvalue()
    return out

def guard(fn):
    try:
        return ["ok", fn()]
    except BaseException as e:
        return ["exc", type(e).__name__]

FORMULAS = [
    "H2O", "DT", "C2H5OH", "NaCl", "Ca(OH)2", "Al2(SO4)3", "Mg(NO3)2 H2O",
    "H{1}2 O{16}", "O{17-2}", "Fe{56+3}2 O{-2}3", "H{+}", "Cl{-}", "D{-}2O", "T{+}",
    "[p]", "[n]2 [e]", "[p]2[n]2", "He{4+2} [e]2",
    "((CH3)2CH)2O", "(H2 O)3", "( H2 O )2", "Fe(C5(H)5)2", "K4(Fe(CN)6)",
    "H2 + O", "H * 2 + O", "(H + O) * 3", "C + C + C{13}", "U{235}", "U{238+}3O8",
    "Og", "Tc", "Pm{145}", "C{14}O2", "H2O2H2", "O", "Li2 C O3", "B{10}4C",
    "H{4}", "Xx", "h2o", "(H2O", "H2O)", "", "2", "2H", "H{1", "H2{1}", "Na Cl2 ( )", "C{12+-}",
    "H  O", "H2(SO4)", "(NH4)2(SO4)", "Cu(SO4)(H2O)5", "e", "p", "A", "He0", "He1.5", "H 2",
]

ELEMENTS = [
    ("H", 1), ("H", 3), ("O{16}", 2), ("O{-2}", 1), ("O{18+}", 1), ("O{+}", 4), ("O{-}", 1),
    ("D", 2), ("T{+}", 1), ("D{-2}", 1), ("[p]", 1), ("[n]", 3), ("[e]", 2), ("Fe", 1),
    ("Sn", 1), ("Xe{129}", 1), ("U", 1), ("Og", 1), ("Zz", 1), ("O{99}", 1), ("", 1), ("[x]", 1), ("1H", 1),
    ("Na{23+1}", 2.5), ("Cl{35-1}", 0),
]

res = {}
for natural in (True, False):
    for f in FORMULAS:
        res["S|%s|%s" % (f, natural)] = guard(lambda: substance(Substance(f, natural=natural)))
    for e, p in ELEMENTS:
        def el():
            x = Element(e, p, natural=natural)
            return [x.expr, x.element, show(x.isotope), show(x.ionisation), show(x.Z), show(x.N), show(x.e),
                    show(x.mass), show(x.component_mass), show(x.composite_mass), show(x.proportion), str(x)]
        res["E|%s|%s|%s" % (e, p, natural)] = guard(el)
    # arithmetic on substances / elements
    res["A1|%s" % natural] = guard(lambda: substance(Substance("H2O", natural=natural) + Substance("CO2", natural=natural)))
    res["A2|%s" % natural] = guard(lambda: substance(Substance("H2O", natural=natural) * 3))
    res["A3|%s" % natural] = guard(lambda: substance(Substance("Ca(OH)2", natural=natural) * 2 + Substance("O{16-2}", natural=natural)))
    res["A4|%s" % natural] = guard(lambda: substance(Substance("H2O", natural=natural) + Element("O", 2, natural=natural)))
    res["A5|%s" % natural] = guard(lambda: substance(Substance({"H": 2, "O{17}": 1, "[e]": 3}, natural=natural)))
    res["A6|%s" % natural] = guard(lambda: substance(Substance(natural=natural)))
    res["A7|%s" % natural] = guard(lambda: str(Element("O", 2, natural=natural) + Element("O", 1, natural=natural)))
    res["A8|%s" % natural] = guard(lambda: str(Element("O", 2, natural=natural) + Element("H", 1, natural=natural)))
    res["A9|%s" % natural] = guard(lambda: str(Element("C{13}", 2, natural=natural) * 4))
    res["A10|%s" % natural] = guard(lambda: substance(Substance("H2O", natural=natural) * 0.5))
    res["A11|%s" % natural] = guard(lambda: substance(Substance("H2O", natural=natural) + 3))
    def dens():
        s = Substance("H2O", natural=natural, mass_density=Quantity(997, "kg/m3"), volume=Quantity(1, "l"))
        d = s.data_matter(quantity=False)
        return [show(s.number_density), show(s.mass_density), show(s.mass),
                {k: show([d[k][c] for c in ("n", "rho", "N", "M")]) for k in d.keys()},
                show([s.data_composite(components=["H"], quantity=False)[k]["mass"] for k in ("H", "avg", "sum")])]
    res["M|%s" % natural] = guard(dens)

# the preprocessing step and the atom callback on their own
for f in FORMULAS:
    res["P|%s" % f] = guard(lambda: SubstanceSolver(lambda x: x).preprocess(f))
for a in ["2", "2.5", "1e3", "H", "O{16}", "3x", "x3", "", ".5", "1.2e-2", "[p]"]:
    def atom():
        r = Substance().atom(a)
        return show(r) if isinstance(r, float) else substance(r)
    res["T|%s" % a] = guard(atom)

# Composite is shared with Material: a few mixtures in each norm type
from scinumtools.materials import Material, Norm
for natural in (True, False):
    for mexpr in ['0.2 <H2O> 0.8 <NaCl>', '2 <H2O> 3 <NaCl>', '<Ca(OH)2>', '0.5 <O{16}2> 0.5 <N2>', '<Xx>', '']:
        for nt in (Norm.NUMBER_FRACTION, Norm.MASS_FRACTION):
            def mat():
                m = Material(mexpr, natural=natural, norm_type=nt)
                ds = m.data_composite(quantity=False)
                dc = m.data_components(quantity=False)
                return [list(m.components.keys()), show([c.proportion for c in m.components.values()]),
                        show(m.proportion_norm), show(m.composite_mass),
                        None if ds is None else {k: show([ds[k][c] for c in m.cols_composite]) for k in ds.keys()},
                        None if dc is None else {k: show([dc[k][c] for c in m.cols_components]) for k in dc.keys()}]
            res["X|%s|%s|%s" % (mexpr, nt.name, natural)] = guard(mat)

print(json.dumps(res, sort_keys=True))
'''


def run(root):
    root = os.path.abspath(os.path.realpath(root))
    env = {k: v for k, v in os.environ.items() if k != "PYTHONPATH"}
    env["PYTHONDONTWRITEBYTECODE"] = "1"
    env["PYTHONWARNINGS"] = "ignore"
    p = subprocess.run([sys.executable, "-c", PROBE, root], capture_output=True, text=True, env=env, cwd="/")
    if p.returncode != 0:
        sys.stderr.write(p.stderr)
        raise SystemExit(2)
    return json.loads(p.stdout.strip().splitlines()[-1])


def main():
    a = run(sys.argv[1])
    b = run(sys.argv[2])
    bad = [k for k in sorted(set(a) | set(b)) if a.get(k) != b.get(k)]
    for k in bad[:20]:
        print("DIFF", k, "\n  base:", json.dumps(a.get(k))[:400], "\n  new: ", json.dumps(b.get(k))[:400])
    print("%d inputs compared, %d differ" % (len(a), len(bad)))
    sys.exit(1 if bad else 0)


if __name__ == "__main__":
    main()
