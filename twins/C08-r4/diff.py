#!/venv/bin/python
"""Differential script for property C08 (uncertainty propagation).

usage: diff.py <unmodified tree root> <refactored tree root>
Runs the same inputs against each tree in a separate subprocess (each with its
own sys.path) and exits 0 iff every observable output (values, errors, units,
string forms, raised exception types) is identical.
"""
import sys, subprocess, json

DRIVER = r'''
import sys, json, warnings
root = sys.argv[1]
sys.path.insert(0, root + "/src")
warnings.simplefilter("ignore")
import numpy as np
from decimal import Decimal
from scinumtools.units import Quantity
from scinumtools.units.magnitude import Magnitude
import scinumtools
assert scinumtools.__file__.startswith(root), scinumtools.__file__

def enc(x):
    if x is None:
        return None
    if isinstance(x, np.ndarray):
        return ["nd", str(x.dtype), list(x.shape), [enc(i) for i in x.ravel().tolist()]]
    if isinstance(x, Decimal):
        return ["Decimal", str(x)]
    if isinstance(x, (np.floating, np.integer)):
        return [type(x).__name__, repr(x.item())]
    if isinstance(x, (float, int, bool)):
        return [type(x).__name__, repr(x)]
    if isinstance(x, Magnitude):
        return ["Magnitude", enc(x.value), enc(x.error)]
    if isinstance(x, Quantity):
        return ["Quantity", enc(x.magnitude), x.units()]
    if isinstance(x, (tuple, list)):
        return [type(x).__name__] + [enc(i) for i in x]
    return [type(x).__name__, repr(x)]

def sform(x):
    try:
        return str(x)
    except Exception as e:
        return "EXC:" + type(e).__name__

results = []
def case(name, fn):
    try:
        r = fn()
        out = ["ok", enc(r)]
        if isinstance(r, (Magnitude, Quantity)):
            out.append(sform(r))
    except Exception as e:
        out = ["exc", type(e).__name__]
    results.append([name, out])

M, Q, D = Magnitude, Quantity, Decimal
A = lambda *a: np.array(a, dtype=float)

operands = {
    "p_err":    lambda: M(4, 0.05),
    "p_err2":   lambda: M(7, 0.1),
    "n_err":    lambda: M(-3.5, 0.2),
    "p_exact":  lambda: M(2.5),
    "n_exact":  lambda: M(-6),
    "rel":      lambda: M(32, rele=10),
    "arr_err":  lambda: M([12, 3], 0.2),
    "arr_err2": lambda: M(A(2, -4), 0.1),
    "arr_exact":lambda: M([1.5, -2.5]),
    "dec":      lambda: M(D("1.25")),
    "dec_err":  lambda: M(D("2.5"), D("0.5")),
    "big_err":  lambda: M(1.0, 3.0),
    "zero":     lambda: M(0.0, 0.1),
}
import operator
ops = {"add": operator.add, "sub": operator.sub, "mul": operator.mul, "div": operator.truediv}
for ln, lf in operands.items():
    for rn, rf in operands.items():
        for on, of in ops.items():
            case(f"M:{ln}:{on}:{rn}", lambda lf=lf, rf=rf, of=of: of(lf(), rf()))
# plain numbers on either side (exact scaling / shifting)
for ln, lf in operands.items():
    for num in (3, -2.5, 0, A(2, -4), [1, 2], D("2"), "x", None):
        for on, of in ops.items():
            case(f"M:{ln}:{on}:num{num!r}", lambda lf=lf, of=of, num=num: of(lf(), num))
            case(f"M:num{num!r}:{on}:{ln}", lambda lf=lf, of=of, num=num: of(num, lf()))
    for p in (2, -1, 0.5, 0, 3):
        case(f"M:{ln}:pow:{p}", lambda lf=lf, p=p: lf()**p)
    case(f"M:{ln}:neg", lambda lf=lf: -lf())
    case(f"M:{ln}:abse", lambda lf=lf: lf().abse())
    case(f"M:{ln}:rele", lambda lf=lf: lf().rele())
    case(f"M:{ln}:set_abse", lambda lf=lf: lf().abse(0.3))
    case(f"M:{ln}:set_rele", lambda lf=lf: lf().rele(5))

# constructor behaviour
case("ctor_both", lambda: M(1, 0.1, 1))
case("ctor_str", lambda: M("x"))
case("ctor_npscalar", lambda: M(np.float32(2.5), 0.5))
case("ctor_neg_rele", lambda: M(-20, rele=10))
case("ctor_arr_rele", lambda: M([10, -20], rele=10))
case("ctor_zero_abse", lambda: M(3, 0))
case("ctor_zero_rele", lambda: M(3, rele=0))

# quantities: arithmetic and unit conversion
quants = {
    "cm_err":  lambda: Q(4, "cm", abse=0.1),
    "m_err":   lambda: Q(-2, "m", abse=0.05),
    "cm_rel":  lambda: Q(30, "cm", rele=10),
    "m_exact": lambda: Q(1.5, "m"),
    "s_err":   lambda: Q(12, "s", abse=0.2),
    "arr_cm":  lambda: Q([2, 4], "cm", abse=0.1),
    "nodim":   lambda: Q(3, abse=0.3),
    "km_mag":  lambda: Q(M(5, 0.5), "km"),
    "K_err":   lambda: Q(300, "K", abse=2),
    "Cel_err": lambda: Q(23, "Cel", abse=1),
    "dB_err":  lambda: Q(10, "dB", abse=1),
    "Hz_err":  lambda: Q(50, "Hz", abse=2),
}
for ln, lf in quants.items():
    for rn, rf in quants.items():
        for on, of in ops.items():
            case(f"Q:{ln}:{on}:{rn}", lambda lf=lf, rf=rf, of=of: of(lf(), rf()))
    for num in (3, -0.5):
        for on, of in ops.items():
            case(f"Q:{ln}:{on}:num{num}", lambda lf=lf, of=of, num=num: of(lf(), num))
            case(f"Q:num{num}:{on}:{ln}", lambda lf=lf, of=of, num=num: of(num, lf()))
    for p in (2, -1, (1, 2), 0.5):
        case(f"Q:{ln}:pow:{p}", lambda lf=lf, p=p: lf()**p)
    case(f"Q:{ln}:neg", lambda lf=lf: -lf())
    for u in ("m", "km", "mm", "s", "ms", "K", "Cel", "degF", "Hz", "dB", "Np", "m2", None):
        case(f"Q:{ln}:to:{u}", lambda lf=lf, u=u: lf().to(u))
        case(f"Q:{ln}:to:{u}:rele", lambda lf=lf, u=u: lf().to(u).rele())
        case(f"Q:{ln}:value:{u}", lambda lf=lf, u=u: lf().value(u))
    case(f"Q:{ln}:toQ", lambda lf=lf: lf().to(Q(2, "m", abse=0.1)))
    case(f"Q:{ln}:toQexact", lambda lf=lf: lf().to(Q(-2, "mm")))
    case(f"Q:{ln}:rebase", lambda lf=lf: (lf()*Q(2, "mm", abse=0.2)).rebase())
    case(f"Q:{ln}:abse", lambda lf=lf: lf().abse())
    case(f"Q:{ln}:rele", lambda lf=lf: lf().rele())
case("Q:inverse", lambda: Q(4, "s", abse=0.1).to("Hz"))
case("Q:dec", lambda: Q(D("2.5"), "m").to("cm"))
case("Q:dec_err", lambda: Q(D("2.5"), "m", abse=D("0.5")).to("cm"))
case("Q:ctor_both", lambda: Q(1, "m", abse=0.1, rele=1))
case("Q:logadd", lambda: Q(10, "dBm", abse=1) + Q(13, "dBm", abse=0.5))
case("Q:logsub", lambda: Q(13, "dBm", abse=1) - Q(10, "dBm"))
case("Q:log_to", lambda: Q(10, "dBm", abse=1).to("W"))
case("Q:log_to2", lambda: Q(2, "W", abse=0.1).to("dBm"))
print(json.dumps(results))
'''

def run(root):
    p = subprocess.run([sys.executable, "-c", DRIVER, root], capture_output=True, text=True)
    if p.returncode != 0:
        sys.stderr.write(p.stderr)
        raise SystemExit(2)
    return json.loads(p.stdout.strip().splitlines()[-1])

def main():
    base, new = sys.argv[1].rstrip("/"), sys.argv[2].rstrip("/")
    a, b = run(base), run(new)
    bad = 0
    if len(a) != len(b):
        print("different number of cases", len(a), len(b)); bad += 1
    for (n1, r1), (n2, r2) in zip(a, b):
        if n1 != n2 or r1 != r2:
            bad += 1
            if bad <= 20:
                print("DIFF", n1, r1, r2)
    nexc = sum(1 for _, r in a if r[0] == "exc")
    print(f"{len(a)} cases compared ({nexc} raising), {bad} differences")
    sys.exit(1 if bad else 0)

if __name__ == "__main__":
    main()
