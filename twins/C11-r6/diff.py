#!/venv/bin/python
"""Differential check for property C11 (number / mass fractions of composites).

usage: diff.py <unmodified tree root> <refactored tree root>

The same probe program is run in a subprocess against each tree (each with
its own sys.path); the JSON it prints is compared.  Exit status 0 iff every
observable output (values, units, raised exception types, printed tables) is
identical.
"""
import json
import subprocess
import sys

PROBE = r'''
import sys, io, json, contextlib, warnings
warnings.simplefilter("ignore")
root = sys.argv[1]
sys.path.insert(0, root + "/src")
import numpy as np
from scinumtools.units import Quantity
from scinumtools.materials import Material, Substance, Element, Norm

def enc(v):
    if v is None or isinstance(v, (bool, str)):
        return v
    if isinstance(v, Quantity):
        mag = v.magnitude
        return {"Q": enc(v.value()), "u": str(v.units()), "mag": type(mag).__name__,
                "err": enc(getattr(mag, "error", None))}
    if isinstance(v, (int, np.integer)):
        return int(v)
    if isinstance(v, (float, np.floating)):
        return float(v).hex()
    if isinstance(v, np.ndarray):
        return [enc(i) for i in v.tolist()]
    if isinstance(v, (list, tuple)):
        return [enc(i) for i in v]
    if isinstance(v, dict):
        return {str(k): enc(i) for k, i in v.items()}
    return repr(v)

def table(pt):
    if pt is None:
        return None
    return {str(k): enc(dict(row)) if isinstance(row, dict) else enc(row.__dict__ if hasattr(row, "__dict__") else row)
            for k, row in pt.items()}

def state(c):
    out = {
        "type": type(c).__name__,
        "expr": c.expr,
        "norm_type": c.norm_type.name,
        "proportion_norm": enc(c.proportion_norm),
        "composite_mass": enc(c.composite_mass),
        "component_mass": enc(getattr(c, "component_mass", None)),
        "proportions": {k: enc(v.proportion) for k, v in c.components.items()},
        "masses": {k: enc(v.component_mass) for k, v in c.components.items()},
        "number_density": enc(c.number_density),
        "mass_density": enc(c.mass_density),
        "mass": enc(c.mass),
        "str": str(c) if c.components else None,
    }
    for q in (True, False):
        out["composite_q%d" % q] = table(c.data_composite(quantity=q))
        out["components_q%d" % q] = table(c.data_components(quantity=q))
    first = list(c.components)[:1]
    out["composite_subset"] = table(c.data_composite(components=first, quantity=False))
    if c.components:
        buf = io.StringIO()
        with contextlib.redirect_stdout(buf):
            c.print()
        out["print"] = buf.getvalue()
    if c.number_density:
        out["matter"] = table(c.data_matter(quantity=False))
        out["matter_q"] = table(c.data_matter())
    return out

def roundtrip(spec, natural):
    """number fractions -> resulting mass fractions -> same material"""
    a = Material(spec, natural=natural, norm_type=Norm.NUMBER_FRACTION)
    X = a.data_composite(quantity=False)
    b = Material({k: X[k]["X"] for k in spec}, natural=natural, norm_type=Norm.MASS_FRACTION)
    return {"a": state(a), "b": state(b)}

CASES = {
  "mat_numfrac_2":      lambda: state(Material("0.2 <H2O> 0.3 <NaCl>")),
  "mat_numfrac_scaled": lambda: state(Material("20 <H2O> 30 <NaCl>")),
  "mat_massfrac_2":     lambda: state(Material("0.2 <H2O> 0.3 <NaCl>", norm_type=Norm.MASS_FRACTION)),
  "mat_massfrac_scaled":lambda: state(Material({"H2O": 7.5, "NaCl": 11.25, "CO2": 3.0}, norm_type=Norm.MASS_FRACTION)),
  "mat_single":         lambda: state(Material({"B{11}N{14}H{1}6": 1.0})),
  "mat_single_mass":    lambda: state(Material({"Fe2O3": 42.0}, norm_type=Norm.MASS_FRACTION)),
  "mat_abundant":       lambda: state(Material("1 <N2> 3 <O2> 0.5 <Ar>", natural=False)),
  "mat_abundant_mass":  lambda: state(Material({"N2": 75.5, "O2": 23.1, "Ar": 1.4}, natural=False, norm_type=Norm.MASS_FRACTION)),
  "mat_air_dict":       lambda: state(Material({"N2": 78.084, "O2": 20.946, "Ar": 0.934, "CO2": 0.0417, "Ne": 0.001818,
                                                "He": 0.000524, "CH4": 0.000187, "Kr": 0.000114, "H2O": 0.5}, mass_density=Quantity(1.2754, "kg/m3"))),
  "mat_air_mass_dens":  lambda: state(Material({"N2": 75.5, "O2": 23.1, "Ar": 1.29, "CO2": 0.06, "Ne": 0.0013,
                                                "He": 0.00007, "CH4": 0.0001, "Kr": 0.0003, "H2O": 0.3},
                                               norm_type=Norm.MASS_FRACTION, number_density=Quantity(2.5e19, "cm-3"), volume=Quantity(2, "l"))),
  "mat_mass_massdens":  lambda: state(Material({"H2O": 1.0, "NaCl": 0.035}, norm_type=Norm.MASS_FRACTION, mass_density=Quantity(1.025, "g/cm3"))),
  "mat_num_numdens":    lambda: state(Material("2 <H2O> 1 <C2H5OH>", number_density=Quantity(3e22, "cm-3"), volume=Quantity(0.5, "l"))),
  "mat_norm_number":    lambda: state(Material({"H2O": 2, "NaCl": 3}, norm_type=Norm.NUMBER)),
  "mat_empty":          lambda: state(Material()),
  "mat_add":            lambda: state(Material("1 <H2O>") + Material("3 <NaCl> 2 <H2O>")),
  "mat_add_mass":       lambda: state(Material({"H2O": 1}, norm_type=Norm.MASS_FRACTION) + Material({"NaCl": 3, "H2O": 2.5}, norm_type=Norm.MASS_FRACTION)),
  "mat_rmul":           lambda: state(2.5 * Material("0.2 <H2O> 0.3 <NaCl>", norm_type=Norm.MASS_FRACTION)),
  "mat_incremental":    lambda: (lambda m: (m.add("H2O", 1), m.add("NaCl", 2), m.add("H2O", 0.5), state(m))[-1])(Material(norm_type=Norm.MASS_FRACTION)),
  "mat_isotopes_ions":  lambda: state(Material("1 <D2O> 2 <H{1}2O{16}> 0.25 <Na{+}Cl{-}>")),
  "sub_water":          lambda: state(Substance("H2O")),
  "sub_dmso":           lambda: state(Substance("(CH3)2SO", mass_density=Quantity(1.1, "g/cm3"), volume=Quantity(10, "cm3"))),
  "sub_abundant":       lambda: state(Substance("C6H12O6", natural=False)),
  "sub_dict":           lambda: state(Substance({"Fe": 2, "O": 3}, number_density=Quantity(1e21, "cm-3"))),
  "sub_nucleons":       lambda: state(Substance("[p]2[n]2[e]2")),
  "sub_mul_add":        lambda: state(Substance("CaCO3") * 3 + Substance("H2O")),
  "el_matter":          lambda: [table(Element("O", 2, number_density=Quantity(1e20, "cm-3"), volume=Quantity(3, "cm3")).data_matter(quantity=q)) for q in (True, False)],
  "el_matter_abundant": lambda: [table(Element("Fe{+3}", natural=False, mass_density=Quantity(7.8, "g/cm3")).data_matter(quantity=q)) for q in (True, False)],
  "el_matter_none":     lambda: table(Element("He").data_matter()),
  "sub_components_stats": lambda: [table(Substance("C2H5OH")._data({"mass": "Da", "Z": None}, lambda s, m: {"mass": m.mass, "Z": m.Z}, stats=st, weight=w, quantity=q))
                                   for st in (True, False) for w in (True, False) for q in (True, False)],
  "mat_weighted_stats": lambda: [table(Material("2 <H2O> 1 <NaCl>", norm_type=nt, number_density=Quantity(1e22, "cm-3")).data_matter(quantity=False)) for nt in (Norm.NUMBER, Norm.NUMBER_FRACTION)],
  "sub_empty":          lambda: state(Substance()),
  "rt_natural":         lambda: roundtrip({"H2O": 0.2, "NaCl": 0.3, "C6H12O6": 0.05}, True),
  "rt_abundant":        lambda: roundtrip({"CO2": 4.0, "CH4": 1.0, "N2": 15.0}, False),
  "rt_single":          lambda: roundtrip({"SiO2": 3.0}, True),
  "err_bad_element":    lambda: state(Material("1 <Xx2O>")),
  "err_bad_isotope":    lambda: state(Material({"H{9}2O": 1.0})),
  "err_zero_mass_frac": lambda: state(Material({"H2O": 0.0}, norm_type=Norm.MASS_FRACTION)),
  "err_bad_norm":       lambda: state(Material({"H2O": 1.0}, norm_type=None)),
  "err_unknown_subset": lambda: table(Material("1 <H2O> 2 <NaCl>").data_composite(components=["KCl"], quantity=False)),
}

results = {}
for name, fn in CASES.items():
    try:
        with np.errstate(all="ignore"):
            results[name] = {"ok": fn()}
    except BaseException as e:
        results[name] = {"exc": type(e).__name__}
print("@@RESULT@@" + json.dumps(results, sort_keys=True))
'''


def run(root):
    proc = subprocess.run([sys.executable, "-c", PROBE, root], capture_output=True, text=True)
    if proc.returncode != 0:
        print(proc.stderr, file=sys.stderr)
        raise SystemExit(2)
    payload = [l for l in proc.stdout.splitlines() if l.startswith("@@RESULT@@")]
    if len(payload) != 1:
        print("probe produced no result for", root, file=sys.stderr)
        raise SystemExit(2)
    return json.loads(payload[0][len("@@RESULT@@"):])


def main():
    base, new = sys.argv[1].rstrip("/"), sys.argv[2].rstrip("/")
    a, b = run(base), run(new)
    bad = 0
    for name in sorted(set(a) | set(b)):
        if a.get(name) != b.get(name):
            bad += 1
            print("DIFF in case", name)
            print("   base:", json.dumps(a.get(name), sort_keys=True)[:600])
            print("   new :", json.dumps(b.get(name), sort_keys=True)[:600])
    n_exc = sum(1 for v in a.values() if "exc" in v)
    print(f"{len(a)} cases compared ({n_exc} raising in base), {bad} differing")
    return 1 if bad else 0


if __name__ == "__main__":
    sys.exit(main())
