#!/venv/bin/python
"""Differential check for property C03 (unit expression = product of table entries).

usage: diff.py <unmodified tree root> <refactored tree root>
Runs the same probes against both trees (each in its own subprocess with its own
sys.path) and exits 0 iff every observable output is identical.
"""
import json
import subprocess
import sys

PROBE = r'''
import sys, json
sys.path.insert(0, sys.argv[1] + '/src')
import numpy as np
from scinumtools.units import Quantity, Unit, Constant, BaseUnits, Dimensions, Fraction, UnitSolver
from scinumtools.units.unit_solver import AtomParser, Atom
from scinumtools.units.base_units import get_unit_base
from scinumtools.units.settings import UNIT_STANDARD, UNIT_PREFIXES

def obs(fn):
    try:
        return ['ok', fn()]
    except BaseException as e:
        return ['exc', type(e).__name__]

def fr(f):
    return [f.num, f.den]

def dims(d):
    return [fr(getattr(d, n)) for n in ['m','g','s','K','C','cd','mol','rad']] + [d.nodim]

def bu(expr):
    b = BaseUnits(expr)
    again = BaseUnits(b.expression) if b.expression is not None else BaseUnits()
    return {
        'mag': repr(float(b.magnitude)),
        'dims': dims(b.dimensions),
        'dimvalue': b.dimensions.value(),
        'baseunits': {k: fr(v) for k, v in b.baseunits.items()},
        'value': b.value(),
        'units': b.units,
        'expr': b.expression,
        'str': str(b),
        'nodim': b.nodim, 'nobase': b.nobase,
        'again_mag': repr(float(again.magnitude)),
        'again_dims': again.dimensions.value(),
        'again_expr': again.expression,
        'again_eq': again == b,
    }

def atom(s):
    a = AtomParser(s)
    return [repr(float(a.magnitude)), {k: fr(v) for k, v in a.baseunits.items()}, str(a), repr(a)]

def solver(s):
    a = UnitSolver(s)
    return [repr(float(a.magnitude)), {k: fr(v) for k, v in a.baseunits.items()}, str(a)]

def base(unitid, exp):
    e = None if exp is None else Fraction(*exp)
    b = get_unit_base(unitid, e)
    return [repr(float(b.magnitude)), dims(b.dimensions), b.units, b.expression,
            None if e is None else fr(e)]

def quantity(val, expr, to=None):
    q = Quantity(val, expr)
    out = [str(q), repr(float(q.value())), q.units()]
    if to is not None:
        p = q.to(to)
        out += [str(p), repr(float(p.value())), p.units()]
    return out

def frac_rebase(n, d):
    f = Fraction(n, d)
    f.rebase()
    return [f.num, f.den, str(Fraction(n, d)), repr(Fraction(n, d)),
            Fraction(n, d).value(), Fraction(n, d).value(dtype=float) if d else None]

def frac_ops():
    a, b = Fraction(3, -6), Fraction(-2, -4)
    res = [a + b, a - b, a * b, a / b, -a, a * 2, a * 0.5, a / 3, a + (1, 2), a - 1]
    return [[fr(r), str(r), r.value()] for r in res] + [a == Fraction(-1, 2), b == Fraction(1, 2)]

def dim_ops():
    d1 = Dimensions.from_list([1, (1, 2), -2, 0, 0, 0, (-3, 4), 0])
    d2 = Dimensions(m=Fraction(2), s=Fraction(-1, 3))
    res = [d1, d2, d1 + d2, d1 - d2, d1 * Fraction(2, 3), d1 / 2, -d1, Dimensions()]
    return [[dims(r), str(r), r.value(), r.value(dtype=dict), list(r.value(dtype=tuple))] for r in res]

exprs = [
    'm', 'km', 'kg*m2/s2', 'kg*m2*s-2', 'cm-3', 'm1:2', 'm-3:2*s', 'g2:4', 'm4:-6',
    'J', 'mJ', 'erg', 'eV', 'keV/[c]2', '[c]', '[h]/([m_e]*[c])', '[k_B]*K', '[G]*Msol2/pc2',
    'N*m', 'W/(m2*K4)', '(kg*m)/(s2*A)', '((m/s)/s)', 'm/(s*(kg/m3))', 'km/s/Mpc',
    '2*m', '1e3*g', '0.5*m2', '1.5e-3*kg/cm3', 'm/2', '2.5', '1', '60*s', '-2*m',
    'mrad', 'rad', 'deg', 'mol', 'mmol/dm3', 'cd*sr', 'uC', 'dag', 'daPa', 'Ym', 'ys-1',
    'au', 'AU', 'ly', 'kly', 'Gpc', 'Ao', 'mAo', 'in', 'ft2', 'mi/h', 'oz', 'lb*ft/s2',
    'Cel', 'degF', 'dB', 'Np', 'PR', 'AR', 'Hz', 'kHz', 'min', 'h', 'day', 'yr', 'kt', 'Gt',
    'm*m', 'm2/m2', 'm/m', 'm0', 'kg*g', 'km*m-1', 's*s-1*s',
    '#m', '#g2', '#s-1', '#SACC', '#CACC2', '#SACT-1', '#AACT1:2', '#SACC*s', 'kg*#SACC', '#SCAP/#SCON', 'k#SACC',
    # rejected strings
    'xyz', 'foo*m', 'km*qq', 'kau', 'kft', 'krad', 'Tly', 'uAo', 'ym_e', 'k[c]',
    'xm', 'xkm', '?m', ' m', 'm ', 'k m', '$kg', 'mm%', '1m', 'kkm', 'mkm', 'dam2x', 'm^2',
    'm**2', 'm//s', '(m', 'm)', '', '*', 'm*', '/s', 'm2:', 'm:2', 'm1:0', 'k', 'da', 'M2',
    '#q', '#', '[c', 'c]', '[zz]', 'ł', 'µm', 'm2.5', 'm--2', 'm+2', 'm-+2',
]

atoms = ['m', 'km', 'kg2', 'cm-3', 's1:2', 's-1:2', 'dam', 'mmol', 'Pa', 'hPa', 'mrad', '[c]', '[c]2',
         '12', '1.5e3', '-2', '1e-3', '.5', '1.2.3', 'e5', '3e', '--2',
         '#m', '#m2', '#zz-1', '#SACC', '#CDVI-2', '#SACT1:3', 'xm', 'krad', 'kau', 'zz', ' m', 'km ', 'm2:', '2m', '', 'k', '+', '-', ':']

bases = [('m', None), ('m', (2, 1)), ('k:m', (1, 1)), ('k:g', (-2, 1)), ('c:m', (3, 2)), ('c:m', (6, 4)),
         ('m:rad', (1, 1)), ('[c]', (2, 1)), ('eV', (-1, -1)), ('da:g', (2, -4)), ('u:s', (0, 5)),
         ('#m', (1, 1)), ('#g', (2, 3)), ('#SACC', None), ('#CACC', (2, 1)), ('#AACT', (-1, 2)), ('#SDVI', (3, 6)), ('#s', (-1, 1)), ('#rad', None), ('#zz', (1, 1)),
         ('q:m', (1, 1)), ('k:zz', (1, 1)), ('zz', None), ('k:m:s', (1, 1)), ('m', (1, 0))]

out = {}
for e in exprs:
    out['bu ' + e] = obs(lambda: bu(e))
    out['solver ' + e] = obs(lambda: solver(e))
for a in atoms:
    out['atom ' + a] = obs(lambda: atom(a))
out['atom None'] = obs(lambda: atom(None))
out['atom 5'] = obs(lambda: atom(5))
for u, x in bases:
    out['base %s %s' % (u, x)] = obs(lambda: base(u, x))
for n, d in [(0, 1), (0, -5), (-0, 3), (2, 4), (-2, 4), (2, -4), (-2, -4), (6, 3), (-6, -3), (7, 1),
             (7, -1), (12, 18), (-12, 18), (1, 0), (0, 0), (3, 1), (1000, 250), (17, 51), (-17, -51)]:
    out['rebase %d %d' % (n, d)] = obs(lambda: frac_rebase(n, d))
out['frac_ops'] = obs(frac_ops)
for name, lst in [('short', [1, 2, 3]), ('empty', []), ('long', [1, 2, 3, 4, 5, 6, 7, 8, 9]),
                  ('nd', np.array([1, 0, -2, 0, 0, 0, 0, 0])), ('ndf', np.array([0.5, 0, 0, 0, 0, 0, 0, 1.9])),
                  ('tup', ((1, 2), 0, (-3, 4), 0, 0, 0, 0, (2, -6))), ('badtup', [(1,), 0, 0, 0, 0, 0, 0, 0]),
                  ('str', ['1', 0, 0, 0, 0, 0, 0, 'x']), ('none', None), ('zero', [0] * 8),
                  ('bu-list', None)]:
    if name == 'bu-list':
        out['from_list ' + name] = obs(lambda: (lambda b: [b.expression, repr(float(b.magnitude)), b.dimensions.value()])(BaseUnits([1, 1, -2, 0, 0, 0, 0, 0])))
    else:
        out['from_list ' + name] = obs(lambda: (lambda d: [dims(d), str(d), d.value()])(Dimensions.from_list(lst)))
out['dim_ops'] = obs(dim_ops)
for val, e, to in [(1, 'km', 'm'), (2.5, 'kg*m2/s2', 'erg'), (1, 'eV', 'J'), (3, 'cm-3', 'm-3'), (1, 'ly', 'pc'),
                   (1, 'm1:2', 'cm1:2'), (1, '[c]', 'km/s'), (4, 'm2:4', 'mm1:2'), (1, 'mrad', 'deg'),
                   (1, 'kg', 's'), (1, 'kft', None), (1, 'xm', None), (1, 'm', 'kau'), (23, 'Cel', 'K'),
                   (1, 'N*m', 'J'), (1, 'Hz', 's-1'), (1, 'Hz', 's')]:
    out['quantity %s %s %s' % (val, e, to)] = obs(lambda: quantity(val, e, to))
for e in ['m', 'kg*m2/s2', 'mJ', '[c]', 'cm-3:2', 'kau', 'xm']:
    out['unit ' + e] = obs(lambda: [str(Unit(e)), str(Quantity(2, e) * Unit(e)), str(Quantity(2, e) / Unit(e))])
out['const'] = obs(lambda: [str(Constant('c')), str(Constant('h').to('eV*s'))])

# sweep over every table symbol, with a prefix and with an exponent
sweep = {}
for sym in list(UNIT_STANDARD.keys()):
    for text in (sym, 'k' + sym, 'm' + sym + '-2', 'da' + sym + '3:2', 'x' + sym, sym + '2*s/' + sym):
        r = obs(lambda: (lambda b: [repr(float(b.magnitude)), b.dimensions.value(), b.expression,
                                    BaseUnits(b.expression).expression if b.expression else None])(BaseUnits(text)))
        sweep[text] = r
out['sweep'] = sweep
json.dump(out, sys.stdout, sort_keys=True, default=repr)
'''


def run(root):
    p = subprocess.run([sys.executable, '-c', PROBE, root], capture_output=True, text=True, cwd='/')
    if p.returncode != 0:
        print('probe failed for', root, file=sys.stderr)
        print(p.stderr[-3000:], file=sys.stderr)
        sys.exit(2)
    return json.loads(p.stdout)


def main():
    a = run(sys.argv[1])
    b = run(sys.argv[2])
    bad = [k for k in sorted(set(a) | set(b)) if a.get(k) != b.get(k)]
    if 'sweep' in bad:
        sa, sb = a['sweep'], b['sweep']
        for k in sorted(set(sa) | set(sb)):
            if sa.get(k) != sb.get(k):
                print('DIFF sweep', repr(k), sa.get(k), sb.get(k))
    for k in bad:
        if k != 'sweep':
            print('DIFF', repr(k), a.get(k), b.get(k))
    nok = sum(1 for v in a.values() if isinstance(v, list) and v and v[0] == 'ok')
    nexc = sum(1 for v in a.values() if isinstance(v, list) and v and v[0] == 'exc')
    print('%d probes (%d ok, %d raising) + %d sweep strings; %d differences'
          % (len(a) - 1, nok, nexc, len(a['sweep']), len(bad)))
    sys.exit(1 if bad else 0)


if __name__ == '__main__':
    main()
