#!/usr/bin/env python
"""Differential check: argv[1] = clean tree root, argv[2] = changed tree root."""
import subprocess, sys

DRIVER = r'''
import sys
sys.path.insert(0, sys.argv[1] + "/src")
import numpy as np
from decimal import Decimal
from scinumtools.units import Quantity, Unit
from scinumtools.units.magnitude import Magnitude

def safestr(x):
    try:
        return str(x)
    except BaseException as e:
        return "str-EXC %s" % type(e).__name__

def show(x):
    if isinstance(x, Quantity):
        return "Quantity(%s | %r | %s)" % (show(x.magnitude), dict(x.baseunits.baseunits), safestr(x))
    if isinstance(x, Magnitude):
        return "Magnitude(value=%s, error=%s, inst=%s)" % (show(x.value), show(x.error), sorted(vars(x)))
    if isinstance(x, np.ndarray):
        return "ndarray[%s]%s" % (x.dtype, x.tolist())
    return "%s:%r" % (type(x).__name__, x)

def run(label, fn):
    try:
        out = show(fn())
    except BaseException as e:
        out = "EXC %s %s" % (type(e).__name__, [show(a) for a in e.args])
    print(label, "=>", out)

def same(label, fn):
    # returns-self checks
    try:
        obj, res = fn()
        print(label, "=> same:", res is obj, show(res))
    except BaseException as e:
        print(label, "=> EXC", type(e).__name__)

arr = np.array([1.0, -2.0, 4.0])
cases = {
  "m_plain":      lambda: Magnitude(3),
  "m_abse":       lambda: Magnitude(3, 0.5),
  "m_abse_kw":    lambda: Magnitude(3.0, abse=0),
  "m_rele":       lambda: Magnitude(-4, rele=10),
  "m_rele0":      lambda: Magnitude(5, rele=0),
  "m_both":       lambda: Magnitude(3, 0.1, 2),
  "m_both0":      lambda: Magnitude(3, 0, 0),
  "m_dec":        lambda: Magnitude(Decimal("2.5")),
  "m_dec_abse":   lambda: Magnitude(Decimal("2.5"), abse=Decimal("0.1")),
  "m_dec_rele":   lambda: Magnitude(Decimal("2.5"), rele=Decimal("4")),
  "m_dec_relef":  lambda: Magnitude(Decimal("2.5"), rele=4.0),
  "m_list":       lambda: Magnitude([1, 2, 3]),
  "m_list_abse":  lambda: Magnitude([1, 2, 3], abse=0.1),
  "m_list_abses": lambda: Magnitude([1, 2, 3], abse=[0.1, 0.2, 0.3]),
  "m_list_badab": lambda: Magnitude([1, 2, 3], abse=[0.1, 0.2]),
  "m_arr_rele":   lambda: Magnitude(arr, rele=5),
  "m_arr_relea":  lambda: Magnitude(arr, rele=np.array([1.0, 2.0, 3.0])),
  "m_npscalar":   lambda: Magnitude(np.float32(2.5), rele=2),
  "m_npint":      lambda: Magnitude(np.int64(7), abse=1),
  "m_bool":       lambda: Magnitude(True, rele=50),
  "m_str":        lambda: Magnitude("3"),
  "m_none":       lambda: Magnitude(None, 1),
  "m_tuple":      lambda: Magnitude((1, 2)),
  "m_complex":    lambda: Magnitude(1 + 2j, rele=1),
  "m_rele_str":   lambda: Magnitude(3, rele="x"),
  "m_abse_str":   lambda: Magnitude(3, abse="x"),
  "m_get_abse":   lambda: Magnitude(3, 0.5).abse(),
  "m_get_abse_n": lambda: Magnitude(3).abse(),
  "m_get_rele":   lambda: Magnitude(4, 0.5).rele(),
  "m_get_rele_n": lambda: Magnitude(4).rele(),
  "m_get_rele_0": lambda: Magnitude(0, 0.5).rele(),
  "m_get_rele_a": lambda: Magnitude(arr, 0.5).rele(),
  "m_set_abse0":  lambda: Magnitude(3, 0.5).abse(0),
  "m_set_rele0":  lambda: Magnitude(3, 0.5).rele(0),
  "m_set_rele_a": lambda: Magnitude(arr).rele(10),
  "m_set_abse_a": lambda: Magnitude(arr).abse(0.25),
  "m_r2a":        lambda: Magnitude(-8)._rel_to_abs(25),
  "m_r2a_dec":    lambda: Magnitude(Decimal("-8"))._rel_to_abs(Decimal("25")),
  "m_r2a_decf":   lambda: Magnitude(Decimal("-8"))._rel_to_abs(2.5),
  "m_r2a_arr":    lambda: Magnitude(arr)._rel_to_abs(np.array([1, 2, 3])),
  "m_r2a_none":   lambda: Magnitude(2)._rel_to_abs(None),
  "m_add":        lambda: Magnitude(3, 0.1) + Magnitude(4, rele=10),
  "m_mul":        lambda: Magnitude(3, 0.1) * Magnitude(4, rele=10),
  "m_div":        lambda: Magnitude(3, 0.1) / Magnitude(4, rele=10),
  "m_pow":        lambda: Magnitude(3, 0.1) ** 2,
  "m_str_e":      lambda: str(Magnitude(3.1415, rele=1)),
  "q_plain":      lambda: Quantity(3, "m"),
  "q_abse":       lambda: Quantity(3, "m", abse=0.2),
  "q_rele":       lambda: Quantity(3, "km", rele=5),
  "q_both":       lambda: Quantity(3, "m", abse=0.2, rele=5),
  "q_pos":        lambda: Quantity(3, "m", 0.2),
  "q_nounit":     lambda: Quantity(3, abse=0.2),
  "q_mag":        lambda: Quantity(Magnitude(3, 0.1), "m"),
  "q_mag_abse":   lambda: Quantity(Magnitude(3, 0.1), "m", abse=0.4),
  "q_mag_rele":   lambda: Quantity(Magnitude(3, 0.1), "m", rele=10),
  "q_mag_both":   lambda: Quantity(Magnitude(3, 0.1), "m", abse=0.4, rele=10),
  "q_mag_abse0":  lambda: Quantity(Magnitude(3, 0.1), "m", abse=0, rele=10),
  "q_mag_rele0":  lambda: Quantity(Magnitude(3, 0.1), "cm", rele=0),
  "q_dec":        lambda: Quantity(Decimal("1.5"), "m", rele=Decimal("2")),
  "q_list":       lambda: Quantity([1, 2, 3], "m", rele=10),
  "q_arr":        lambda: Quantity(arr, "g", abse=0.5),
  "q_npscalar":   lambda: Quantity(np.float64(2.0), "s", rele=1),
  "q_str":        lambda: Quantity("3", "m"),
  "q_none":       lambda: Quantity(None, "m"),
  "q_quant":      lambda: Quantity(Quantity(1, "m"), "m"),
  "q_badunit":    lambda: Quantity(1, 3.5),
  "q_unit_q":     lambda: Quantity(2, Quantity(3, "m", abse=0.3), abse=0.1),
  "q_nodim":      lambda: Quantity(2, "m/cm", rele=10),
  "q_get_abse":   lambda: Quantity(3, "m", abse=0.2).abse(),
  "q_get_abse_n": lambda: Quantity(3, "m").abse(),
  "q_get_rele":   lambda: Quantity(3, "m", abse=0.3).rele(),
  "q_get_rele_n": lambda: Quantity(3, "m").rele(),
  "q_set_abse0":  lambda: Quantity(3, "m", abse=0.2).abse(0),
  "q_set_rele0":  lambda: Quantity(3, "m", abse=0.2).rele(0),
  "q_set_rele":   lambda: Quantity(-3, "m").rele(10),
  "q_set_abse_s": lambda: Quantity(3, "m").abse("bad"),
  "q_set_rele_s": lambda: Quantity(3, "m").rele("bad"),
  "q_to":         lambda: Quantity(3, "km", rele=5).to("m"),
  "q_to_rele":    lambda: Quantity(3, "km", rele=5).to("cm").rele(),
  "q_add":        lambda: Quantity(3, "m", abse=0.2) + Quantity(50, "cm", abse=5),
  "q_sub":        lambda: Quantity(3, "m", abse=0.2) - Quantity(50, "cm", abse=5),
  "q_mul_exact":  lambda: Quantity(3, "m", abse=0.2) * -2,
  "q_div_exact":  lambda: Quantity(3, "m", abse=0.2) / -2,
  "q_mul":        lambda: Quantity(3, "m", abse=0.2) * Quantity(2, "s", rele=10),
  "q_div":        lambda: Quantity(3, "m", abse=0.2) / Quantity(2, "s", rele=10),
  "q_exact":      lambda: Quantity(3, "m") * Quantity(2, "s"),
  "u_abse":       lambda: Quantity(3, "m", abse=0.2).abse(0.7).abse(),
}
for k, f in cases.items():
    run(k, f)

def s1():
    m = Magnitude(3, 0.5); return m, m.abse(0.1)
def s2():
    m = Magnitude(3, 0.5); return m, m.rele(10)
def s3():
    q = Quantity(3, "m"); return q, q.abse(0.1)
def s4():
    q = Quantity(3, "m"); return q, q.rele(10)
def s5():
    m = Magnitude(3, 0.5); q = Quantity(m, abse=0.9); return m, q.magnitude
def s6():
    m = Magnitude(3, 0.5); q = Quantity(m, rele=10); print("  side-effect on m:", show(m)); return m, q.magnitude
for k, f in [("s1", s1), ("s2", s2), ("s3", s3), ("s4", s4), ("s5", s5), ("s6", s6)]:
    same(k, f)
'''

def run(root):
    p = subprocess.run([sys.executable, "-W", "ignore", "-c", DRIVER, root],
                       capture_output=True, text=True)
    return p.returncode, p.stdout, p.stderr

def main():
    a = run(sys.argv[1]); b = run(sys.argv[2])
    if a[0] != 0 or b[0] != 0:
        print("driver failed", a[0], b[0]); print(a[2][-2000:]); print(b[2][-2000:]); return 1
    la, lb = a[1].splitlines(), b[1].splitlines()
    bad = [(x, y) for x, y in zip(la, lb) if x != y]
    if len(la) != len(lb) or bad:
        print("DIFFERENT", len(la), len(lb))
        for x, y in bad[:20]:
            print(" clean  :", x); print(" changed:", y)
        return 1
    print("identical: %d result lines" % len(la))
    return 0

sys.exit(main())
