#!/venv/bin/python
"""Differential check for property C09 (temporary custom units never outlive their scope).

usage: diff.py <unmodified tree root> <refactored tree root>

Runs the same scenarios against both trees (each in its own subprocess with its
own sys.path) and exits 0 iff every observable output is identical.
"""
import json
import subprocess
import sys

RUNNER = r'''
import sys, json
root = sys.argv[1]
sys.path.insert(0, root + '/src')

from scinumtools.units import Quantity, Unit, UnitEnvironment
from scinumtools.units.settings import UNIT_STANDARD, UNIT_PREFIXES, UNIT_TYPES
from scinumtools.units.unit_types import UnitType
from scinumtools.units.unit_environment import check_unique_symbols
from scinumtools.parameter_table import ParameterTable
from scinumtools.dip import DIP


def snap():
    """Full content of the three process-wide tables."""
    std = [(k, repr(v)) for k, v in UNIT_STANDARD.items()]
    return {
        'std_keys': list(UNIT_STANDARD.keys()),
        'std_data': std,
        'std_len': len(UNIT_STANDARD),
        'pre_keys': list(UNIT_PREFIXES.keys()),
        'pre_data': [(k, repr(v)) for k, v in UNIT_PREFIXES.items()],
        'types': [t.__name__ for t in UNIT_TYPES],
    }

BASELINE = snap()

def state():
    """Compact description of the tables relative to the pristine baseline."""
    s = snap()
    return {
        'same_as_baseline': s == BASELINE,
        'extra_std': [k for k in s['std_keys'] if k not in BASELINE['std_keys']],
        'missing_std': [k for k in BASELINE['std_keys'] if k not in s['std_keys']],
        'types': s['types'],
        'n_prefixes': len(s['pre_keys']),
    }

def exc(e):
    args = []
    for a in e.args:
        args.append(a if isinstance(a, (str, int, float, bool, type(None))) else repr(a))
    return {'type': type(e).__name__, 'args': args}

def q(value, unit, to=None):
    try:
        x = Quantity(value, unit)
        if to:
            x = x.to(to)
        b = x.baseunits
        return {'str': str(x), 'mag': repr(x.magnitude.value if hasattr(x.magnitude, 'value') else x.magnitude),
                'bmag': repr(b.magnitude), 'dims': b.dimensions.value(dtype=list)}
    except Exception as e:
        return exc(e)

class Boom(Exception):
    pass

class CustomA(UnitType):
    def _istype(self):
        return False

class CustomB(UnitType):
    def _istype(self):
        return False

results = {}

def scenario(fn):
    out = {}
    try:
        out['value'] = fn()
    except BaseException as e:
        out['raised'] = exc(e)
    out['after'] = state()
    results[fn.__name__] = out
    return fn

# ---------------------------------------------------------------- direct environments

@scenario
def s01_normal_scope():
    units = {'x': {'magnitude': 3, 'dimensions': [3, 2, -1, 0, 0, 1, 0, 0]},
             'y': Quantity(2, 'cm/g2')}
    with UnitEnvironment(units) as env:
        inside = state()
        r = [q(1, 'x'), q(2, 'y'), q(1, 'x*y2'), q(1, 'kx'), q(3, 'y', 'm/kg2'),
             env.new_units, [t.__name__ for t in env.new_types]]
    return {'inside': inside, 'r': r, 'units_after': repr(units['x']), 'ykind': type(units['y']).__name__,
            'outside': [q(1, 'x'), q(1, 'y')]}

@scenario
def s02_body_raises():
    units = {'foo': {'magnitude': 2.5, 'dimensions': [1, 0, 0, 0, 0, 0, 0, 0], 'prefixes': ['k', 'm']}}
    log = []
    try:
        with UnitEnvironment(units):
            log.append(state())
            log.append(q(1, 'kfoo', 'm'))
            log.append(q(1, 'Mfoo'))
            raise Boom('body')
    except Boom as e:
        log.append(exc(e))
    log.append(state())
    log.append(q(1, 'kfoo'))
    return log

@scenario
def s03_duplicate_builtin_symbol():
    units = {'aa': {'magnitude': 1, 'dimensions': [0, 1, 0, 0, 0, 0, 0, 0]},
             'm': {'magnitude': 1, 'dimensions': [1, 0, 0, 0, 0, 0, 0, 0]},
             'bb': {'magnitude': 1, 'dimensions': [0, 1, 0, 0, 0, 0, 0, 0]}}
    try:
        UnitEnvironment(units)
    except Exception as e:
        return [exc(e), state(), sorted(units['aa'].keys()), sorted(units['bb'].keys())]
    return 'no error'

@scenario
def s04_prefix_clash():
    # 'km' clashes with kilo + meter, found only by the uniqueness check after registration
    units = {'zz': {'magnitude': 1, 'dimensions': [0, 1, 0, 0, 0, 0, 0, 0]},
             'km': {'magnitude': 7, 'dimensions': [1, 0, 0, 0, 0, 0, 0, 0]}}
    try:
        with UnitEnvironment(units):
            return 'entered'
    except Exception as e:
        return [exc(e), state()]

@scenario
def s05_prefix_clash_from_prefixed_custom():
    # custom unit 'in2' with all prefixes: 'm'+'in2' ... ; custom 'ol' with prefixes -> 'mol' clash
    units = {'ol': {'magnitude': 1, 'dimensions': [0, 0, 0, 0, 0, 0, 1, 0], 'prefixes': True, 'definition': CustomA}}
    try:
        with UnitEnvironment(units):
            return 'entered'
    except Exception as e:
        return [exc(e), state()]

@scenario
def s05b_multiple_and_triple_clashes():
    z = [0]*8
    units = {'w': {'magnitude': 1, 'dimensions': z, 'prefixes': True, 'definition': CustomB},
             'aw': {'magnitude': 1, 'dimensions': z, 'prefixes': ['d', 'k']},
             'daw': {'magnitude': 1, 'dimensions': z},
             'kaw': {'magnitude': 1, 'dimensions': z, 'definition': CustomA}}
    try:
        with UnitEnvironment(units):
            return 'entered'
    except Exception as e:
        return [exc(e), state()]

@scenario
def s06_malformed_missing_magnitude():
    units = {'ok1': {'magnitude': 1, 'dimensions': [0, 1, 0, 0, 0, 0, 0, 0], 'definition': CustomA},
             'bad': {'dimensions': [0, 1, 0, 0, 0, 0, 0, 0], 'definition': CustomB},
             'ok2': {'magnitude': 1, 'dimensions': [0, 1, 0, 0, 0, 0, 0, 0]}}
    try:
        UnitEnvironment(units)
    except Exception as e:
        return [exc(e), state(), sorted(units['bad'].keys()), sorted(units['ok2'].keys())]
    return 'no error'

@scenario
def s07_malformed_not_a_mapping():
    out = []
    for bad in (5, None, 'text', ['magnitude', 'dimensions'], (1, [0]*8)):
        units = {'ok1': Quantity(3, 'km'), 'bad': bad}
        try:
            UnitEnvironment(units)
            out.append('no error')
        except Exception as e:
            out.append([type(e).__name__, state()])
    return out

@scenario
def s08_unknown_prefix_list():
    units = {'qq': {'magnitude': 1, 'dimensions': [0, 1, 0, 0, 0, 0, 0, 0], 'prefixes': ['k', 'W']}}
    try:
        UnitEnvironment(units)
    except BaseException as e:
        return [exc(e), state()]
    return 'no error'

@scenario
def s09_nested_scopes():
    log = []
    a = {'ua': {'magnitude': 2, 'dimensions': [1, 0, 0, 0, 0, 0, 0, 0], 'definition': CustomA}}
    b = {'ub': Quantity(5, 'ua') if False else {'magnitude': 4, 'dimensions': [0, 0, 1, 0, 0, 0, 0, 0], 'definition': CustomB}}
    c = {'uc': {'magnitude': 8, 'dimensions': [0, 1, 0, 0, 0, 0, 0, 0], 'definition': CustomA, 'name': 'cee', 'prefixes': True}}
    with UnitEnvironment(a):
        log.append(state())
        with UnitEnvironment(b):
            log.append(state())
            try:
                with UnitEnvironment(c):
                    log.append(state())
                    log.append(q(1, 'ua*ub/kuc'))
                    log.append(repr(UNIT_STANDARD['uc']))
                    # re-registering an outer unit fails and must not disturb any level
                    try:
                        with UnitEnvironment({'new': {'magnitude': 1, 'dimensions': [0]*8}, 'ua': a['ua']}):
                            log.append('entered')
                    except Exception as e:
                        log.append(exc(e))
                    log.append(state())
                    raise Boom('inner')
            except Boom as e:
                log.append(exc(e))
            log.append(state())
            log.append(q(1, 'uc'))
        log.append(state())
    log.append(state())
    return log

@scenario
def s10_repeated_scopes():
    log = []
    units = {'rp': {'magnitude': 9, 'dimensions': [0, 0, 0, 0, 1, 0, 0, 0], 'definition': CustomB}}
    for i in range(4):
        try:
            with UnitEnvironment(units) as env:
                log.append([state(), q(i, 'rp'), sorted(units['rp'].keys())])
                if i % 2:
                    raise Boom(i)
        except Boom as e:
            log.append(exc(e))
        log.append(state())
    return log

@scenario
def s11_explicit_close_and_interleaving():
    log = []
    e1 = UnitEnvironment({'i1': {'magnitude': 1, 'dimensions': [1]+[0]*7, 'definition': CustomA}})
    e2 = UnitEnvironment({'i2': {'magnitude': 2, 'dimensions': [1]+[0]*7, 'definition': CustomA},
                          'i3': {'magnitude': 2, 'dimensions': [1]+[0]*7, 'definition': CustomB}})
    log.append([e1.new_units, [t.__name__ for t in e1.new_types], e2.new_units, [t.__name__ for t in e2.new_types]])
    log.append(state())
    e1.close()      # closed out of order
    log.append(state())
    log.append([q(1, 'i1'), q(1, 'i2/i3')])
    e2.close()
    log.append(state())
    try:
        e2.close()  # double close
        log.append('second close ok')
    except Exception as e:
        log.append(exc(e))
    log.append(state())
    return log

@scenario
def s12_empty_and_string_definition():
    log = []
    with UnitEnvironment({}) as env:
        log.append([env.new_units, env.new_types, state()])
    units = {'sd': {'magnitude': 1000., 'dimensions': [1]+[0]*7, 'definition': 'km', 'name': 'strdef'},
             'nd': {'magnitude': 1., 'dimensions': [1]+[0]*7, 'definition': None}}
    with UnitEnvironment(units) as env:
        log.append([env.new_units, env.new_types, state(), repr(UNIT_STANDARD['sd']), repr(UNIT_STANDARD['nd']),
                    q(2, 'sd', 'm'), 'sd' in UNIT_STANDARD, 'nope' in UNIT_STANDARD])
    log.append(check_unique_symbols())
    return log

@scenario
def s13_existing_type_not_removed():
    # definition that is an already registered conversion type must survive the scope
    builtin = UNIT_TYPES[-1]
    units = {'bt': {'magnitude': 1, 'dimensions': [0]*8, 'definition': builtin}}
    with UnitEnvironment(units) as env:
        inside = [[t.__name__ for t in env.new_types], state()]
    return inside

@scenario
def s14_non_mapping_units_argument():
    out = []
    for arg in (None, 3, [('x', 1)]):
        try:
            UnitEnvironment(arg)
            out.append('no error')
        except Exception as e:
            out.append([type(e).__name__, state()])
    return out

# ---------------------------------------------------------------- DIP parses

def nodes_of(env):
    out = []
    for n in env.nodes.values() if hasattr(env.nodes, 'values') else env.nodes:
        v = n.value
        out.append([n.name, n.keyword, repr(getattr(v, 'value', v)), repr(getattr(v, 'unit', None))])
    return out

@scenario
def s15_dip_custom_units():
    with DIP() as p:
        p.add_unit("velocity", 13, 'cm/s')
        p.add_string("""
        $unit length = 10 pc
        $unit mass = 2 g
        width float = 23 [length]
        speed float = 2 [velocity]
        speed = 1 m/s
        dens float = 3 [mass]/[length]3
        x float = 3 m
        y float = ("{?x} * 2 + 1 [length]") [mass]-1*[length]*g
        z bool = ("{?x} > 1 [length]")
        """)
        mid = state()
        env = p.parse()
    return [mid, nodes_of(env), sorted(env.units.keys()), [sorted(v.keys()) for v in env.units.units.values()]]

@scenario
def s16_dip_duplicate_unit():
    with DIP() as p:
        p.add_string("""
        $unit length = 10 pc
        a float = 1 [length]
        $unit length = 2 m
        """)
        return nodes_of(p.parse())

@scenario
def s17_dip_malformed_units():
    out = []
    for code in ("$unit bad = 3 nonsense\n", "$unit ok = 1 m\nb float = 3 [missing]\n",
                 "$unit ok = 1 m\n$unit ok2 = 2 [ok]\nc float = 1 [ok2]\nc = 5 s\n",
                 "$unit w = abc m\n"):
        try:
            with DIP() as p:
                p.add_string(code)
                out.append(nodes_of(p.parse()))
        except Exception as e:
            out.append(exc(e))
        out.append(state())
    return out

@scenario
def s18_dip_inside_environment():
    log = []
    with UnitEnvironment({'outer': {'magnitude': 3, 'dimensions': [1]+[0]*7}}):
        with DIP() as p:
            p.add_string("""
            $unit inner = 2 outer
            a float = 4 [inner]
            a = 1 m
            """)
            log.append(nodes_of(p.parse()))
        log.append(state())
        try:
            with DIP() as p:
                p.add_unit("m2", 1, 'outer')
                p.add_string("b float = 4 [m2]\nb = 1 xx\n")
                log.append(nodes_of(p.parse()))
        except Exception as e:
            log.append(exc(e))
        log.append(state())
    return log

# ---------------------------------------------------------------- table module

@scenario
def s19_parameter_table_keyed():
    log = []
    t = ParameterTable(['a', 'b'], {'k1': (1, 2), 'k2': (3, 4)}, keys=True)
    t.append('k3', (5, 6))
    t['k1'] = (7, 8)          # overwrite keeps key position
    t.append('k4', (9,))      # short row
    log.append([list(t.keys()), [(k, repr(v)) for k, v in t.items()], len(t), t.shape(), 'k2' in t, 'zz' in t,
                repr(t['k3']), repr(t[0]), repr(t.k2), t.data(), str(t)])
    del t['k2']
    log.append([list(t.keys()), len(t), 'k2' in t, t.data()])
    for bad in ('k2', 'nokey'):
        try:
            del t[bad]
        except Exception as e:
            log.append(exc(e))
    log.append([list(t.keys()), len(t)])
    try:
        t.append('only-key')
    except Exception as e:
        log.append(type(e).__name__)
    try:
        t.append('k9', 5)
    except Exception as e:
        log.append(type(e).__name__)
    log.append([list(t.keys()), len(t)])
    return log

@scenario
def s20_parameter_table_unkeyed():
    log = []
    t = ParameterTable(['a', 'b'], [(1, 2), (3, 4)])
    t.append((5, 6))
    log.append([[(k, repr(v)) for k, v in t.items()], len(t), t.shape(), repr(t[1]), t.data()])
    del t[0]
    log.append([len(t), t.data()])
    for fn in (lambda: 'x' in t, lambda: t.keys(), lambda: t.__setitem__('a', (1, 2)), lambda: t.append('k', (1, 2)),
               lambda: t.__delitem__(10), lambda: t.nokey):
        try:
            log.append(repr(fn()))
        except Exception as e:
            log.append(exc(e))
    log.append([len(t), t.data()])
    return log

@scenario
def s21_final_tables_identical():
    return {'identical': snap() == BASELINE, 'unique': check_unique_symbols(), 'n': len(UNIT_STANDARD)}

print('@@RESULT@@' + json.dumps(results, sort_keys=True, default=repr))
'''


def run(root):
    proc = subprocess.run([sys.executable, '-c', RUNNER, root], capture_output=True, text=True, cwd='/tmp')
    if proc.returncode != 0:
        return {'__crash__': proc.stderr[-3000:]}
    for line in proc.stdout.splitlines():
        if line.startswith('@@RESULT@@'):
            return json.loads(line[len('@@RESULT@@'):])
    return {'__crash__': 'no result line', 'stdout': proc.stdout[-2000:]}


def main():
    base, new = sys.argv[1].rstrip('/'), sys.argv[2].rstrip('/')
    a, b = run(base), run(new)
    if '__crash__' in a or '__crash__' in b:
        print('runner crashed:', a.get('__crash__'), b.get('__crash__'))
        return 2
    bad = 0
    for name in sorted(set(a) | set(b)):
        if a.get(name) != b.get(name):
            bad += 1
            print('DIFF in', name)
            print('  base:', json.dumps(a.get(name))[:1500])
            print('  new :', json.dumps(b.get(name))[:1500])
    print(f'{len(a)} scenarios compared, {bad} differ')
    if '-v' in sys.argv:
        print(json.dumps(a, indent=1)[:20000])
    return 1 if bad else 0


if __name__ == '__main__':
    sys.exit(main())
