#!/usr/bin/env python
"""Differential check for property C13 (DIP node paths follow indentation, values are literals).

usage: diff.py <unmodified tree root> <refactored tree root>
Runs the same DIP inputs against both trees (each in its own subprocess with its
own sys.path) and exits 0 iff every observable output is identical.
"""
import json
import os
import subprocess
import sys

WORKER = r'''
import sys, json
root = sys.argv[1]
sys.path.insert(0, root + '/src')
import numpy as np
import scinumtools
assert scinumtools.__file__.startswith(root + '/'), scinumtools.__file__
from scinumtools.dip import DIP
from scinumtools.dip.datatypes import Type

CASES = json.loads(sys.stdin.read())

def plain(v):
    if isinstance(v, np.ndarray):
        return ['ndarray', str(v.dtype), v.tolist()]
    if isinstance(v, (list, tuple)):
        return [plain(x) for x in v]
    if isinstance(v, np.generic):
        return [type(v).__name__, v.item()]
    return [type(v).__name__, v if isinstance(v, (int, float, str, bool, type(None))) else repr(v)]

def describe(node):
    val = node.value
    rec = {
        'name': node.name,
        'class': type(node).__name__,
        'keyword': node.keyword,
        'indent': node.indent,
        'dtype_prop': list(node.dtype_prop),
        'precision': getattr(node, 'precision', None),
        'unsigned': getattr(node, 'unsigned', None),
        'dimension': node.dimension,
        'value_raw': plain(node.value_raw),
        'units_raw': node.units_raw,
        'defined': node.defined,
        'source': list(node.source),
    }
    if isinstance(val, Type):
        rec['vtype'] = type(val).__name__
        rec['value'] = plain(val.value)
        rec['unit'] = val.unit
        rec['vprecision'] = getattr(val, 'precision', None)
        rec['vunsigned'] = getattr(val, 'unsigned', None)
    else:
        rec['vtype'] = type(val).__name__
        rec['value'] = plain(val)
        rec['unit'] = None
    return rec

out = []
for label, code in CASES:
    try:
        p = DIP(name='D')
        p.add_string(code)
        env = p.parse()
        res = {'ok': [describe(n) for n in env.nodes],
               'parents': [[q.indent, q.name] for q in env.hierarchy.parents]}
    except Exception as e:
        res = {'exc': type(e).__name__, 'args': [str(a) for a in e.args]}
    out.append([label, res])
sys.stdout.write(json.dumps(out, sort_keys=True, default=repr))
'''

CASES = [
    ("flat scalars", """
adult bool = true
minor bool = false
age int = 20 yr
weight float = 63.3 kg
name str = 'Laura'
"""),
    ("int/float subtypes", """
a int16 = -12
b uint32 = 4000000000
c int64 = 12 m
d uint = 7
e float32 = 1.5
f float128 = 2.5e-3 cm
g float64 = -1E+5
h uint16 = 0
"""),
    ("float notations", """
f1 float = 1
f2 float = -1.
f3 float = +.5
f4 float = 6.022e23 1/mol
f5 float = 1e-10
f6 float = 1.2E3
f7 int = -0
f8 int = +15
"""),
    ("strings and none", """
country str = Canada              # bare
name str = "Johannes Brahms"      # quoted
single str = 'x y  z'
girl_friend str = "\\"l'amie\\""
boy_friend str = '"l\\'ami"'
hashtag str = '#nocomment'
anticommutator str = '{a,b}'
empty str = ""
nothing str = none
nonum float = none km
noint int = none
nobool bool = none
"""),
    ("nested groups, 2 blanks", """
simulation
  name str = run1
  box
    size float = 10 cm
    periodic bool = true
  steps int = 100
output
  dir str = /tmp/out
"""),
    ("nested groups, 4 blanks + comments + blank lines", """
# leading comment
simulation     # group comment

    name str = run1
       # oddly indented comment
    box
        size float = 10 cm   # the size

        periodic bool = true
    steps int = 100

output
    dir str = /tmp/out
"""),
    ("mixed indentation widths", """
a
 b
      c int = 1
      d int = 2
 e
   f
     g float = 3 s
   h str = x
i int = 4
"""),
    ("dotted names in hierarchy", """
top.sub
  leaf.x int = 1
  leaf.y int = 2
  deeper
    very-long.node23_NAME float = 3.5
other.one bool = false
"""),
    ("node as parent of nodes", """
size float = 70 cm
  width float = 3 cm
    tag str = w
  height float = 4 cm
after int = 1
"""),
    ("dedent to several levels", """
a
  b
    c
      d int = 1
  e int = 2
f
      g int = 3
  h int = 4
"""),
    ("inline arrays", """
counts int[3] = [4234,34,2]
lengths float[2:,2] = [[4234,34],[234,34]] cm
colleagues str[:] = ["John","Patricia","Lena"]
logic bool[2] = [true,false]
quoted int[3] = "[0, 1, 2]"
answers bool[2] = "[true, false]"
names str[2] = '["Jolana", "Anastasia"]'
ranged float[1:4] = [1.5,2.5]
u8 uint16[:2] = [1,2] m
"""),
    ("block arrays and text", """
grp
  velocity int[1:,3] = \"\"\"
[[42,34,35],
 [23,34,64],
 [35,23,23]]
\"\"\" km/s
  text str = \"\"\"
   tripple qotes # ' " \\' \\"
block of text
\"\"\"
  after int = 3
"""),
    ("tables", """
run
  outputs table = \"\"\"
time float s
snapshot int
intensity float32 W/m2
ok bool

0.234 0 2.34 true
1.355 1 9.4 false
2.535 2 3.4 true
  \"\"\"  # endquotes can be indented
  people table = \"\"\"
name str
numbers int[3]

"John Smith" [2,3,4]
"Jennyfer Milton" [5,6,7]
\"\"\"
  last int = 1
"""),
    ("declarations then definitions / modifications", """
cash bool
cash = true
weight float kg
weight = 77
grp
  x int = 1 m
  y int = 2
grp.x = 5
grp
  y = 3
"""),
    ("redefinition keeps first position", """
a int = 1
b int = 2
a int = 3
g
  b int = 4
g
  b int = 5
  c int = 6
"""),
    ("err: bad name", "wrong$name int = 3"),
    ("err: bad type", "x double = 3"),
    ("err: bool units", "age bool = true a"),
    ("err: str units", "name str = Johannes Brahms"),
    ("err: dim too many", "counts int[2] = [4234,34,2]"),
    ("err: dim too few", "counts int[2,3:] = [[234,4234],[234,34]]"),
    ("err: array into scalar", "counts int = [[234,4234],[234,34]]"),
    ("err: undefined declaration", "g\n  counts int"),
    ("err: empty value", "x int = "),
    ("err: bad bool", "x bool = maybe"),
    ("err: bad int", "g\n  x int = abc"),
    ("err: unterminated block", 'x str = """\nabc\n'),
    ("err: table header", 'x table = """\na int\nb\n\n1 2\n"""'),
    ("err: table columns", 'x table = """\na int\nb int\n\n1 2 3\n"""'),
    ("err: trailing garbage", "x int = 3 m extra"),
    ("err: unknown unit", "x int = 3 foobarunit"),
    ("err: name glued", "x=3"),
    ("err: mod undefined", "g\n  x = 3"),
]


def run(root):
    proc = subprocess.run(
        [sys.executable, '-c', WORKER, root],
        input=json.dumps(CASES), capture_output=True, text=True,
        cwd=root, env={k: v for k, v in os.environ.items() if k != 'PYTHONPATH'},
    )
    if proc.returncode != 0:
        sys.stderr.write(proc.stderr)
        raise SystemExit(2)
    return json.loads(proc.stdout)


def main():
    base = os.path.abspath(sys.argv[1])
    new = os.path.abspath(sys.argv[2])
    a = run(base)
    b = run(new)
    bad = 0
    if len(a) != len(CASES) or len(b) != len(CASES):
        print("case count mismatch")
        bad += 1
    for (la, ra), (lb, rb) in zip(a, b):
        if ra != rb:
            bad += 1
            print("DIFF in case %r:\n  base: %s\n  new:  %s" % (la, json.dumps(ra, sort_keys=True), json.dumps(rb, sort_keys=True)))
    nok = sum(1 for _, r in a if 'ok' in r)
    print("%d cases (%d parsed ok, %d raised in base), %d differences" % (len(a), nok, len(a) - nok, bad))
    sys.exit(1 if bad else 0)


if __name__ == '__main__':
    main()
