#!/venv/bin/python
"""Differential check for property C13 (DIP node paths follow indentation,
values are the literals written).

usage: diff.py <unmodified tree root> <refactored tree root>

Each tree is exercised in its own subprocess (own sys.path); the observable
outputs (ordered node paths, node kinds, value types, values, units, dtype
width/sign, array shapes, raised exception types) are compared.
Exit code 0 iff all of them are identical.
"""
import sys
import os
import json
import subprocess

PY = '/venv/bin/python'

INPUTS = {}

INPUTS['flat_scalars'] = '''
adult bool = true
minor bool = false
age int = 20 yr
weight float = 63.3 kg
name str = 'Laura'
country str = Canada
'''

INPUTS['nested_groups_2'] = '''
box
  width float = 1.5 cm
  lid
    colour str = "dark red"
    open bool = false
  height float = 2e1 cm
sphere
  radius float = -3.5E-2 m
count int = 3
'''

INPUTS['nested_groups_4_comments_blanks'] = '''
# leading comment
box      # group comment

    width float = 1.5 cm   # a width

    lid
        # comment deeper than anything
        colour str = "dark red"

        open bool = false
    height float = 2e1 cm
# comment at root level
sphere
    radius float = -3.5E-2 m

count int = 3
'''

INPUTS['mixed_indent_widths'] = '''
a
   b
         c int = 1
         d
          e float = 2.
   f str = x
 g bool = true
h int = 4
'''

INPUTS['dotted_names'] = '''
sim.grid
  size.x int = 10
  size.y int = 20
  cell
    shape.kind str = cube
sim.time float = 1.25e+3 s
very-long.node23_NAME int = 1
'''

INPUTS['typed_parent_nodes'] = '''
runtime float = 10 s
  step float = 0.1 s
    sub int = 3
  name str = abc
other int = 5
 child int = 6
'''

INPUTS['int_float_subtypes'] = '''
integer int = -34
unsignedInteger uint = 235
unsignedLongInteger uint64 = 29349850209348495020394849
longInteger int64 = -239490304
short int16 = 12
ushort uint16 = 13
i32 int32 = 7
u32 uint32 = 8
f float = -34
f32 float32 = 1.5
f64 float64 = 2.5e-3
f128 float128 = -239490304
plus float = +1.0
dot float = .5
big float = 1E10
'''

INPUTS['none_values'] = '''
grp
  name str = none
  age int = none
  height float = none m
  married bool = none
'''

INPUTS['inline_arrays'] = '''
counts int[3] = [4234,34,2]
lengths float[2:,2] = [[4234,34],[234,34]] cm
colleagues str[:] = ["John","Patricia","Lena"]
logic bool[2] = [true,false]
grp
  quoted int[3] = "[0, 1, 2]"
  answers bool[2] = "[true, false]"
  names str[2] = '["Jolana", "Anastasia"]'
  open float[:3] = [1.5,2.5]
  cube int[2,1:2,2] = [[[1,2]],[[3,4]]]
'''

INPUTS['strings_and_escapes'] = '''
name str = "Johannes Brahms"      # strings with a whitespace
girl_friend str = "\\"l'amie\\""    # escaping of double quotes
boy_friend str = '"l\\'ami"'       # escaping of single quotes
hashtag str = '#nocomment'        # comment
anticommutator str = '{a,b}'      # this is not an import
empty str = ""
bare str = a.b-c_d
'''

INPUTS['block_matrix'] = '''
data
  velocity int[1:,3] = """
[[42,34,35],
 [23,34,64],
 [35,23,23]]
""" km/s
  after float = 1
'''

INPUTS['block_text'] = '''
doc
    text str = """
   tripple qotes # ' " \\' \\"
block of text
"""
    tail int = 2
'''

INPUTS['block_table'] = '''
run
  outputs table = """
time float s
snapshot int
intensity float32 W/m2
ok bool
label str

0.234 0 2.34 true a
1.355 1 9.4 false "b c"
2.535 2 3.4 true d
  """  # endqotes can be indented
  next int = 1
'''

INPUTS['table_with_array_columns'] = '''
outputs table = """
name str
numbers int[3]

"John Smith" [2,3,4]
"Jennyfer Milton" [5,6,7]
"""
'''

INPUTS['declaration_and_modification'] = '''
grp
  cash bool
  weight float kg
  n int = 1
grp.cash = true
grp
  weight = 77
  n = 5
last str = z
'''

INPUTS['redefinition_keeps_first_position'] = '''
a int = 1
b int = 2
a int = 3
g
  c float = 1 m
g.c float = 200 cm
'''

INPUTS['dedent_across_levels'] = '''
l1
  l2
    l3
      v int = 1
  w int = 2
x int = 3
l1
  l2
    y int = 4
'''

INPUTS['tabs_and_trailing_blanks'] = "grp   \n\tval int = 1   \n\t\tsub int = 2\t\n\tval2 float = 2.5 m  # c\n"

# ---- erroneous inputs: exception types must agree ----
INPUTS['err_bad_name'] = 'wrong$name int = 3'
INPUTS['err_bad_type'] = 'grp\n  a complex = 3'
INPUTS['err_bad_type_suffix'] = 'a int8 = 3'
INPUTS['err_float_suffix'] = 'a float16 = 3'
INPUTS['err_dim_too_many'] = 'counts int[2] = [4234,34,2]'
INPUTS['err_dim_too_few'] = 'counts int[2,3:] = [[234,4234],[234,34]]'
INPUTS['err_array_to_scalar'] = 'counts int = [[234,4234],[234,34]]'
INPUTS['err_bad_dimension_spec'] = 'counts int[1:2:3] = [1,2]'
INPUTS['err_empty_dimension_item'] = 'counts int[1,] = [1]'
INPUTS['err_undefined'] = 'grp\n  counts int'
INPUTS['err_bool_units'] = 'age bool = true a'
INPUTS['err_str_units'] = 'name str = Johannes Brahms'
INPUTS['err_unterminated_block'] = 'a str = """\nabc\ndef'
INPUTS['err_not_int'] = 'a int = abc'
INPUTS['err_not_bool'] = 'a bool = maybe'
INPUTS['err_no_value'] = 'a int = '
INPUTS['err_table_header'] = 'o table = """\nt float s extra\n\n1\n"""'
INPUTS['err_table_columns'] = 'o table = """\nt float s\nn int\n\n1 2 3\n"""'
INPUTS['err_trailing_garbage'] = 'a int = 3 m = 4'


def worker(root):
    sys.path.insert(0, os.path.join(root, 'src'))
    import numpy as np
    from scinumtools.dip import DIP
    import scinumtools
    assert os.path.realpath(scinumtools.__file__).startswith(os.path.realpath(root)), scinumtools.__file__

    def plain(v):
        if isinstance(v, np.ndarray):
            return {'ndarray': v.tolist(), 'dtype': str(v.dtype), 'shape': list(v.shape)}
        if isinstance(v, (list, tuple)):
            return [plain(x) for x in v]
        if isinstance(v, np.generic):
            return {'npscalar': v.item() if not isinstance(v, np.floating) else repr(v), 'dtype': str(v.dtype)}
        if isinstance(v, float):
            return repr(v)
        if isinstance(v, (int, bool, str)) or v is None:
            return v
        return repr(v)

    out = {}
    for key, code in INPUTS.items():
        try:
            with DIP() as p:
                p.add_string(code)
                env = p.parse()
            res = []
            for node in env.nodes:
                val = node.value
                res.append({
                    'path': node.name,
                    'node': type(node).__name__,
                    'keyword': node.keyword,
                    'indent': node.indent,
                    'dtype_prop': plain(node.dtype_prop),
                    'dimension': plain(node.dimension),
                    'units_raw': node.units_raw,
                    'vtype': type(val).__name__,
                    'value': plain(getattr(val, 'value', val)),
                    'unit': getattr(val, 'unit', None),
                    'precision': plain(getattr(val, 'precision', None)),
                    'unsigned': plain(getattr(val, 'unsigned', None)),
                    'repr': repr(node),
                })
            out[key] = {'ok': res, 'parents': [[q.indent, q.name] for q in env.hierarchy.parents]}
        except BaseException as e:
            out[key] = {'exc': type(e).__name__}
    print(json.dumps(out, sort_keys=True, default=repr))


def run(root):
    root = os.path.abspath(root)
    r = subprocess.run([PY, '-W', 'ignore', os.path.abspath(__file__), '--worker', root],
                       capture_output=True, text=True, cwd='/')
    if r.returncode != 0:
        print('worker failed for', root, '\n', r.stderr)
        sys.exit(2)
    return json.loads(r.stdout)


def main():
    a = run(sys.argv[1])
    b = run(sys.argv[2])
    bad = 0
    for key in INPUTS:
        if a[key] != b[key]:
            bad += 1
            print('DIFF', key)
            print('   base:', json.dumps(a[key])[:600])
            print('   new :', json.dumps(b[key])[:600])
    n_ok = sum(1 for k in a if 'ok' in a[k])
    print(f'{len(INPUTS)} inputs ({n_ok} parsed, {len(INPUTS)-n_ok} raising), {bad} differences')
    sys.exit(1 if bad else 0)


if __name__ == '__main__':
    if len(sys.argv) == 3 and sys.argv[1] == '--worker':
        worker(sys.argv[2])
    else:
        main()
