#!/usr/bin/env python
"""Differential check for property C11 (number / mass fractions).

usage: diff.py <unmodified tree root> <refactored tree root>
Runs the same probe inputs against each tree (separate subprocess, own sys.path)
and exits 0 iff every observable output (values, units, exception types) agrees.
"""
import sys, os, json, subprocess

PROBE = r'''
import sys, json, io, contextlib, warnings
warnings.simplefilter("ignore")
root = sys.argv[1]
sys.path.insert(0, root + "/src")
import numpy as np
from scinumtools.units import Quantity, Unit
from scinumtools.materials import Material, Substance, Element, Norm

def show(v):
    if isinstance(v, Quantity):
        return ["Q", repr(v.value()), str(v.units())]
    if isinstance(v, (list, tuple)):
        return [show(i) for i in v]
    if isinstance(v, dict):
        return {str(k): show(i) for k, i in v.items()}
    if isinstance(v, (np.floating, float)):
        return repr(float(v))
    if isinstance(v, (np.integer, int)):
        return repr(int(v))
    return repr(v)

def table(pt):
    if pt is None:
        return None
    out = {}
    for key, row in pt.items():
        out[str(key)] = {c: show(row[c]) for c in row.keys()} if hasattr(row, "keys") else show(row)
    return out

def dump(obj):
    res = {}
    res["type"] = type(obj).__name__
    try:
        res["str"] = str(obj)
    except Exception as e:
        res["str"] = "EXC:" + type(e).__name__
    res["expr"] = getattr(obj, "expr", None)
    for attr in ("proportion_norm", "composite_mass", "component_mass", "mass_density", "number_density", "mass", "volume"):
        try:
            res[attr] = show(getattr(obj, attr))
        except Exception as e:
            res[attr] = "EXC:" + type(e).__name__
    for q in (True, False):
        for name in ("data_composite", "data_components", "data_matter"):
            try:
                res[f"{name}:{q}"] = table(getattr(obj, name)(quantity=q))
            except Exception as e:
                res[f"{name}:{q}"] = "EXC:" + type(e).__name__
    buf = io.StringIO()
    try:
        with contextlib.redirect_stdout(buf):
            obj.print()
        res["print"] = buf.getvalue()
    except Exception as e:
        res["print"] = "EXC:" + type(e).__name__
    return res

CASES = {
  "subst_water":      lambda: Substance("H2O"),
  "subst_water_abund":lambda: Substance("H2O", natural=False),
  "subst_iso_ion":    lambda: Substance("C{13}3 O{-2}2 H{2+}"),
  "subst_paren":      lambda: Substance("Ca(OH)2"),
  "subst_DT":         lambda: Substance("DT O{17}"),
  "subst_nucleons":   lambda: Substance("[p]2[n][e]3"),
  "subst_dict":       lambda: Substance({"H": 4, "C": 1.5}),
  "subst_density":    lambda: Substance("NaCl", mass_density=Quantity(2.16, "g/cm3"), volume=Quantity(2, "cm3")),
  "subst_ndens":      lambda: Substance("H2O", number_density=Quantity(3.3e22, "cm-3")),
  "subst_select":     lambda: table(Substance("C2H5OH").data_composite(components=["H", "O"])),
  "subst_mul":        lambda: Substance("H2O") * 3,
  "subst_add":        lambda: Substance("H2O") + Substance("CO2"),
  "subst_add_el":     lambda: Substance("H2O") + Element("O", 2),
  "subst_empty":      lambda: Substance(),
  "subst_bad":        lambda: Substance("Xx2"),
  "subst_badiso":     lambda: Substance("H{9}"),
  "mat_air_num":      lambda: Material("78.084 <N2> 20.946 <O2> 0.934 <Ar>"),
  "mat_air_scaled":   lambda: Material("7.8084 <N2> 2.0946 <O2> 0.0934 <Ar>"),
  "mat_air_abund":    lambda: Material("78.084 <N2> 20.946 <O2> 0.934 <Ar>", natural=False),
  "mat_dict_num":     lambda: Material({"N2": 78.084, "O2": 20.946, "Ar": 0.934}),
  "mat_dict_mass":    lambda: Material({"N2": 75.518, "O2": 23.135, "Ar": 1.288, "CO2": 0.059}, norm_type=Norm.MASS_FRACTION),
  "mat_mass_scaled":  lambda: Material({"N2": 0.75518, "O2": 0.23135, "Ar": 0.01288}, norm_type=Norm.MASS_FRACTION, natural=False),
  "mat_expr_mass":    lambda: Material("0.2 <H2O> 0.8 <C2H5OH>", norm_type=Norm.MASS_FRACTION),
  "mat_number":       lambda: Material({"H2O": 3, "NaCl": 1}, norm_type=Norm.NUMBER),
  "mat_single":       lambda: Material("1 <Fe2O3>"),
  "mat_density":      lambda: Material("0.9 <H2O> 0.1 <NaCl>", mass_density=Quantity(1.07, "g/cm3"), volume=Quantity(1, "l")),
  "mat_ndens_mass":   lambda: Material({"B": 0.2, "C{12}": 0.8}, norm_type=Norm.MASS_FRACTION, number_density=Quantity(1e23, "cm-3")),
  "mat_select":       lambda: table(Material("5 <H2O> 3 <CO2> 2 <O2>").data_composite(components=["CO2"])),
  "mat_rmul":         lambda: 2.5 * Material("1 <H2O> 3 <CO2>"),
  "mat_add":          lambda: Material("1 <H2O>") + Material("3 <CO2>", natural=False),
  "mat_add_subst":    lambda: Material("1 <H2O>") + Substance("CO2", proportion=4),
  "mat_add_method":   lambda: (lambda m: (m.add("H2O", 2), m.add("He", 0.5), m.add("H2O", 1), m)[-1])(Material(norm_type=Norm.MASS_FRACTION)),
  "mat_empty":        lambda: Material(),
  "mat_bad":          lambda: Material("1 <Qq>"),
  "mat_roundtrip":    lambda: (lambda a: Material({k: v["X"] for k, v in table(a.data_composite(quantity=False)).items() if k not in ("avg", "sum")} and
                                               {k: float(a.data_composite(quantity=False)[k]["X"]) for k in a.components}, norm_type=Norm.MASS_FRACTION))(Material({"H2O": 2, "CO2": 7, "Ar": 1})),
  "el_natural":       lambda: Element("O", 2),
  "el_abund":         lambda: Element("Cl{-}", natural=False),
  "el_iso":           lambda: Element("U{235+3}", 4),
  "el_ion_plus":      lambda: Element("Na{+}"),
  "el_D":             lambda: Element("D{-}"),
  "el_T":             lambda: Element("T"),
  "el_nucleon":       lambda: Element("[n]", 3),
  "el_mul_add":       lambda: Element("Fe", 2) * 3 + Element("Fe", 1),
  "el_add_bad":       lambda: Element("Fe") + Element("O"),
  "el_bad":           lambda: Element("7"),
  "el_D_iso_ion":     lambda: Element("D{3+2}", natural=False),
  "el_T_iso":         lambda: Element("T{1}"),
  "el_ion_only_num":  lambda: Element("Fe{+3}", natural=False),
  "el_ion_minus_nat": lambda: Element("O{-2}", 3),
  "el_iso_minus":     lambda: Element("C{14-}"),
  "el_abund_all":     lambda: [show((e, Element(e, natural=False).isotope, Element(e, natural=False).mass, Element(e).mass, Element(e).N)) for e in ("H","He","Li","B","Ar","K","V","Te","Os","U","Th")],
  "el_get_natural":   lambda: show(list(Element("H").get_natural("Cl", -1))),
  "el_get_abundant":  lambda: show(list(Element("H").get_abundant("Sn", 2))),
  "el_lower":         lambda: Element("d"),
  "el_density":       lambda: Element("Cu", mass_density=Quantity(8.96, "g/cm3"), volume=Quantity(3, "cm3")),
}

out = {}
for name, fn in CASES.items():
    try:
        r = fn()
        if isinstance(r, (Material, Substance, Element)):
            out[name] = dump(r)
        else:
            out[name] = show(r) if not isinstance(r, dict) else r
    except BaseException as e:
        out[name] = "EXC:" + type(e).__name__
print(json.dumps(out, sort_keys=True, default=repr))
'''

def run(root):
    env = {k: v for k, v in os.environ.items() if k != "PYTHONPATH"}
    p = subprocess.run([sys.executable, "-c", PROBE, os.path.abspath(root)],
                       capture_output=True, text=True, env=env, cwd="/tmp")
    if p.returncode != 0:
        print(p.stderr)
        raise SystemExit(2)
    return json.loads(p.stdout.strip().splitlines()[-1])

def main():
    a, b = run(sys.argv[1]), run(sys.argv[2])
    bad = [k for k in sorted(set(a) | set(b)) if a.get(k) != b.get(k)]
    for k in bad:
        print("DIFF", k)
        print("  base:", json.dumps(a.get(k), sort_keys=True)[:600])
        print("  new :", json.dumps(b.get(k), sort_keys=True)[:600])
    nexc = sum(1 for v in a.values() if isinstance(v, str) and v.startswith("EXC:"))
    print(f"{len(a)} cases, {nexc} raising in base, {len(bad)} differing")
    sys.exit(1 if bad else 0)

if __name__ == "__main__":
    main()
