#!/venv/bin/python
"""Differential check for property C01 (expression solver step table).

usage: diff.py <unmodified tree root> <refactored tree root>

Runs the same set of expressions (hand written well-formed ones, blank
variants, ill-formed ones, customised solvers, the unit solver, and a few
hundred expressions drawn from a seeded stratified grammar together with
single-edit ill-formed variants) against both trees, each in its own
subprocess with its own sys.path, and exits 0 iff every observable output
(value type + value, or the raised exception type) is identical.
"""
import json
import subprocess
import sys

RUNNER = r'''
import sys, json, random, warnings
warnings.filterwarnings("ignore")
root = sys.argv[1]
sys.path.insert(0, root + "/src")
import numpy as np
np.seterr(all="ignore")
from scinumtools.solver import *
from scinumtools.units import UnitSolver

def show(atom):
    v = getattr(atom, "value", atom)
    return [type(atom).__name__, type(v).__name__, repr(v)]

def run(fn):
    try:
        return ["ok"] + show(fn())
    except BaseException as e:
        return ["exc", type(e).__name__]

HAND = [
    "1", " 42 ", "1+2", "1 + 2", "1+2*3", "(1+2)*3", "2**3**2", "2*3**2", "-2**2", "- 2 ** 2",
    "2**-1", "2 ** - 1", "1--1", "1-+1", "1+-+-1", "+3", "-(3)", "-(-3)", "3*-2", "3/-2", "6/3/2",
    "6/3*2", "10-4-3", "10 - 4 + 3", "1<2", "2<1", "1<=1", "1>=2", "1==1", "1!=1", "1 != 2",
    "!1", "!0", "!!1", "! ! 0", "!1==0", "!(1==0)", "1&&0", "1&&1", "0||1", "0||0", "1||0&&0",
    "(1||0)&&0", "1<2&&2<3", "1<2 && 2<3 || 0", "!1<2", "1+1==2&&!0", "1 + 1 == 2 && ! 0",
    "exp(0)", "exp(1)", "log(1)", "log(exp(2))", "log10(1000)", "sqrt(16)", "sin(0)", "cos(0)",
    "tan(0)", "logb(8,2)", "logb( 8 , 2 )", "pow(2,10)", "pow(2,pow(2,2))", "pow((1+1),(2))",
    "sqrt(sqrt(16))", "sqrt(3+1)*2", "2*sqrt(4)**2", "-sqrt(4)", "-sqrt(4)**2", "1-sqrt(4)",
    "((((1))))", "((1+2)*(3+4))", "(1+2)*(3+4)/(5-6)", "1.5e3+1", "1e3*2", "3.25/0.5",
    "1/0", "log(0)", "sqrt(-1)", "2**0.5", "(-8)**2", "0**0", "1 <  2", "1== 1", "  (  1 + 2 )  ",
    "1+2 > 2 == 1", "1 < 2 < 3", "1 == 1 != 0", "3 > 2 >= 1", "-1 < 0", "1 - -1 < 3", "!-1", "!1+1",
]
ILL = [
    "", " ", "(", ")", "(1", "1)", "(1+2", "1+2)", "((1)", "(1))", "sqrt(4", "sqrt4)", "sqrt()",
    "sqrt(1,2)", "logb(8)", "logb(8,2,1)", "pow(2)", "pow(,2)", "pow(2,)", "pow(2,3,4)", "exp(,)",
    "1+", "1*", "*1", "/1", "1/", "1**", "**2", "1*/2", "1 2", "1+*2", "1==", "==1", "1&&", "&&1",
    "||", "1||", "!", "1!", "1<", "<1", "()", "(())", "1()", "()1", "(1)(2)", "2(3)", "abc", "1+a",
    "sin", "sin()", "sin(1)(2)", "1,2", "(1,2)", "1 + + ", "--", "-", "+", "1-", "!&&1", "1 ! 2",
]

# ---- seeded stratified grammar ------------------------------------------------
rng = random.Random(20240917)
FUN1 = ["exp", "log", "log10", "sqrt", "sin", "cos", "tan"]
FUN2 = ["logb", "pow"]
def sp():
    return rng.choice(["", "", " ", "  "])
def num():
    return rng.choice(["1", "2", "3", "4", "7", "0.5", "1.5", "10", "2.25", "1e1", "1", "2", "3", "0"])
def prim(d):
    r = rng.random()
    if d <= 0 or r < 0.45:
        return num()
    if r < 0.7:
        return "(" + sp() + disj(d - 1) + sp() + ")"
    if r < 0.9:
        return rng.choice(FUN1) + "(" + sp() + add(d - 1) + sp() + ")"
    return rng.choice(FUN2) + "(" + sp() + add(d - 1) + sp() + "," + sp() + add(d - 1) + sp() + ")"
def signed(d):
    s = ""
    for _ in range(rng.choice([0, 0, 0, 1, 1, 2])):
        s += rng.choice(["-", "+"]) + sp()
    return s + prim(d)
def chain(sub, ops, d, pmore):
    s = sub(d)
    while rng.random() < pmore:
        s += sp() + rng.choice(ops) + sp() + sub(d)
    return s
def power(d):
    return chain(signed, ["**"], d, 0.15)
def mult(d):
    return chain(power, ["*", "/"], d, 0.3)
def add(d):
    return chain(mult, ["+", "-"], d, 0.3)
def comp(d):
    return chain(add, ["==", "!=", "<=", ">=", "<", ">"], d, 0.25)
def neg(d):
    s = ""
    for _ in range(rng.choice([0, 0, 0, 1, 2])):
        s += "!" + sp()
    return s + comp(d)
def conj(d):
    return chain(neg, ["&&"], d, 0.25)
def disj(d):
    return chain(conj, ["||"], d, 0.25)

GEN = [disj(rng.choice([0, 1, 1, 2, 2, 3])) for _ in range(300)]
def mutate(e):
    k = rng.randrange(6)
    i = rng.randrange(len(e) + 1)
    if k == 0:
        return e[:i] + "(" + e[i:]
    if k == 1:
        return e[:i] + ")" + e[i:]
    if k == 2 and e:
        i = rng.randrange(len(e))
        return e[:i] + e[i + 1:]
    if k == 3:
        return e[:i] + rng.choice(["*", "/", "**", "==", "&&", "||", "<", ","]) + e[i:]
    if k == 4:
        return e + rng.choice(["+", "*", "/", "&&", "||", "<=", "**"])
    return rng.choice(["*", "/", "&&", "==", ")"]) + e
MUT = [mutate(e) for e in GEN[:200]]

out = {}
with ExpressionSolver(AtomBase) as es:
    for group, exprs in (("hand", HAND), ("ill", ILL), ("gen", GEN), ("mut", MUT)):
        for n, e in enumerate(exprs):
            out["%s/%03d/%s" % (group, n, e)] = run(lambda: es.solve(e))
    # the same solver object keeps working after failures and repeated use
    for n, e in enumerate(["1+1", "(1", "2*3", "1+", "sqrt(9)"]):
        out["reuse/%d/%s" % (n, e)] = run(lambda: es.solve(e))
    # Expression objects are accepted as well as strings
    out["exprobj"] = run(lambda: es.solve(Expression("2*(3+4)")))

# fresh solver per expression
for n, e in enumerate(HAND[:40] + ILL[:30]):
    def fresh():
        with ExpressionSolver(AtomBase) as s:
            return s.solve(e)
    out["fresh/%03d/%s" % (n, e)] = run(fresh)

# customised operator tables and steps
class AtomStr(AtomBase):
    def __init__(self, value):
        self.value = str(value)
    def __add__(self, other):
        return AtomStr(self.value + other.value)
    def __gt__(self, other):
        return AtomStr(len(self.value) > len(other.value))
class OperatorSquare(OperatorBase):
    symbol = "~"
    def operate_unary(self, tokens):
        right = tokens.get_right()
        tokens.put_left(right * right)
class OperatorCube(OperatorBase):
    symbol = "^"
    def operate_unary(self, tokens):
        left = tokens.get_left()
        tokens.put_left(left * left * left)
class WordNot(OperatorNot):
    symbol = "not"
def custom():
    res = []
    with ExpressionSolver(AtomStr, {"add": OperatorAdd, "gt": OperatorGt}) as s:
        res.append(show(s.solve("foo + bar")))
    ops = {"add": OperatorAdd, "gt": OperatorGt, "par": OperatorPar}
    steps = [dict(operators=["par"], otype=Otype.ARGS), dict(operators=["add"], otype=Otype.BINARY),
             dict(operators=["gt"], otype=Otype.BINARY)]
    with ExpressionSolver(AtomStr, ops, steps) as s:
        res.append(show(s.solve("(limit + 100 km/s) > (limit + 5 km/s)")))
    ops = {"square": OperatorSquare, "cube": OperatorCube, "add": OperatorAdd}
    steps = [dict(operators=["square", "cube"], otype=Otype.UNARY), dict(operators=["add"], otype=Otype.BINARY)]
    with ExpressionSolver(AtomBase, ops, steps) as s:
        res.append(show(s.solve("~3 + 2^")))
    with ExpressionSolver(AtomBase, {"not": WordNot}) as s:
        res.append(show(s.solve("not 1")))
        res.append(show(s.solve("not not 0")))
    # a step naming operators that are not in the table is skipped; TERNARY does nothing
    steps = [dict(operators=["nope"], otype=Otype.BINARY), dict(operators=["add"], otype=Otype.TERNARY),
             dict(operators=["add"], otype=Otype.BINARY)]
    with ExpressionSolver(AtomBase, {"add": OperatorAdd}, steps) as s:
        res.append(show(s.solve("1+2+3")))
    return res
try:
    out["custom"] = custom()
except BaseException as e:
    out["custom"] = ["exc", type(e).__name__]
for n, e in enumerate(["23 > 4", "20 == 20"]):
    def only_log():
        with ExpressionSolver(AtomBase, {"log": OperatorLog}) as s:
            return s.solve(e)
    out["onlylog/%d" % n] = run(only_log)

# unit expressions go through the same solver (values and units)
for n, e in enumerate(["kg*m2/s2", "12/4*kg/(m2*s2)", "m/s", "(kg*m)/(s*s)", "km/(h", "kg**2", "1/s", "N*m)"]):
    try:
        out["unit/%d/%s" % (n, e)] = ["ok", str(UnitSolver(e))]
    except BaseException as ex:
        out["unit/%d/%s" % (n, e)] = ["exc", type(ex).__name__]

# material / substance expressions use a customised parenthesis operator ('<' ... '>')
try:
    from scinumtools.materials import Material, MaterialSolver, Substance, SubstanceSolver
    def mat(e):
        with MaterialSolver(Material().atom) as ms:
            return str(ms.solve(e))
    def sub(e):
        with SubstanceSolver(Substance().atom) as ss:
            return str(ss.solve(e))
    for n, e in enumerate(["<H2O>", "0.5 <H2O>", "0.2 <H2O> 0.8 <NaCl>", "<H2O", "0.5 <H2O> +", "<H2O,NaCl>"]):
        try:
            out["material/%d/%s" % (n, e)] = ["ok", mat(e)]
        except BaseException as ex:
            out["material/%d/%s" % (n, e)] = ["exc", type(ex).__name__]
    for n, e in enumerate(["H2O", "C2H5OH", "Ca(OH)2", "(NH4)2SO4", "Ca(OH2", "Ca(OH)2)", "Ca(O,H)"]):
        try:
            out["substance/%d/%s" % (n, e)] = ["ok", sub(e)]
        except BaseException as ex:
            out["substance/%d/%s" % (n, e)] = ["exc", type(ex).__name__]
except ImportError as ex:
    out["materials-import"] = ["exc", type(ex).__name__]

json.dump(out, sys.stdout, sort_keys=True)
'''


def observe(root):
    proc = subprocess.run([sys.executable, "-c", RUNNER, root], capture_output=True, text=True, cwd="/")
    if proc.returncode != 0:
        sys.stderr.write("runner failed for %s\n%s\n" % (root, proc.stderr))
        sys.exit(2)
    return json.loads(proc.stdout)


def main():
    base, new = sys.argv[1], sys.argv[2]
    a, b = observe(base), observe(new)
    bad = 0
    for key in sorted(set(a) | set(b)):
        if a.get(key) != b.get(key):
            bad += 1
            print("DIFF %r: base=%r refactored=%r" % (key, a.get(key), b.get(key)))
    nexc = sum(1 for v in a.values() if v and v[0] == "exc")
    print("compared %d observations (%d raising), %d differences" % (len(a), nexc, bad))
    sys.exit(1 if bad else 0)


if __name__ == "__main__":
    main()
