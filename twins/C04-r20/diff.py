#!/venv/bin/python
"""Differential check for property C04 (linear unit conversion).

usage: diff.py <unmodified tree root> <refactored tree root>

Runs the same battery of inputs against each tree in a separate subprocess
(each with its own sys.path) and exits 0 iff every observable output (values,
units, raised exception types and arguments) is identical.
"""
import json
import os
import subprocess
import sys

WORKER = r'''
import sys, json, itertools, warnings
warnings.simplefilter("ignore")
sys.path.insert(0, sys.argv[1] + "/src")
import numpy as np
from decimal import Decimal
import os, scinumtools
assert os.path.realpath(scinumtools.__file__).startswith(os.path.realpath(sys.argv[1]) + os.sep), scinumtools.__file__
from scinumtools.units import Quantity, Unit, BaseUnits, Dimensions, Fraction, Magnitude, UnitEnvironment
from scinumtools.units.unit_types import UnitType, StandardUnitType, TemperatureUnitType, LogarithmicUnitType
from scinumtools.units.base_units import get_unit_base

out = []

def enc(v):
    if isinstance(v, Quantity):
        return ["Q", enc(v.magnitude.value), enc(v.magnitude.error), v.baseunits.expression,
                sorted((k, str(e)) for k, e in v.baseunits.baseunits.items())]
    if isinstance(v, Magnitude):
        return ["M", enc(v.value), enc(v.error)]
    if isinstance(v, BaseUnits):
        return ["BU", repr(v), v.expression, enc(v.magnitude), repr(v.dimensions), v.units, v.nodim, v.nobase]
    if isinstance(v, (Dimensions, Fraction)):
        return [type(v).__name__, repr(v)]
    if isinstance(v, np.ndarray):
        return ["A", str(v.dtype), [enc(x) for x in v.tolist()]]
    if isinstance(v, (float, np.floating)):
        v = float(v)
        return ["f", v.hex() if v == v and abs(v) != float("inf") else repr(v)]
    if isinstance(v, Decimal):
        return ["D", str(v)]
    if isinstance(v, (bool, np.bool_)):
        return ["b", bool(v)]
    if isinstance(v, (list, tuple)):
        return [type(v).__name__, [enc(x) for x in v]]
    if isinstance(v, dict):
        return ["d", [[str(k), enc(x)] for k, x in v.items()]]
    if v is None or isinstance(v, (int, str)):
        return v
    return ["?", type(v).__name__, repr(v)]

def run(label, fn):
    try:
        res = ["ok", enc(fn())]
    except BaseException as e:
        res = ["exc", type(e).__name__, [repr(a) for a in e.args]]
    out.append([label, res])

values = [0.0, 1.0, -2.5, 3.0e-300, 7.7e250, 1234.5678, -1e-12]
groups = [
    ["m", "km", "cm", "nm", "au", "pc", "ly", "in", "mi"],
    ["g", "kg", "mg", "u", "lb", "t", "oz"],
    ["s", "ms", "min", "h", "day", "yr"],
    ["J", "kJ", "erg", "eV", "MeV", "cal", "kg*m2/s2", "N*m", "W*h"],
    ["m/s", "km/h", "cm/ms", "mi/h", "mph"],
    ["Pa", "bar", "atm", "N/m2", "kg/(m*s2)", "hPa"],
    ["rad", "deg", "'", "''"],
    ["m3", "l", "cm3", "ml"],
    ["kg*m2/(s3*A)", "V", "mV", "W/A"],
    ["m1:2", "cm1:2"],
]
for grp in groups:
    for u, v in itertools.permutations(grp, 2):
        for x in values[:4] if len(grp) > 6 else values:
            run(f"to {x!r} {u}->{v}", lambda: Quantity(x, u).to(v))
    for u, v, w in itertools.islice(itertools.permutations(grp, 3), 24):
        run(f"chain {u}->{v}->{w}", lambda: Quantity(1234.5678, u).to(v).to(w))
        run(f"round {u}->{v}->{u}", lambda: Quantity(-0.37, u).to(v).to(u))
        run(f"value {u}->{w}", lambda: Quantity(42.0, u).value(w))

# arrays, lists, ints, numpy scalars, dtype
run("arr m->km", lambda: Quantity([0.0, 1.0, -3.5, 1e300], "m").to("km"))
run("arr2d J->eV", lambda: Quantity(np.array([[1.0, 2.0], [-3.0, 0.0]]), "J").to("eV"))
run("npint cm->m", lambda: Quantity(np.int64(7), "cm").to("m"))
run("npf32 h->s", lambda: Quantity(np.float32(1.5), "h").to("s"))
run("int km->m", lambda: Quantity(3, "km").to("m"))
run("value dtype int", lambda: Quantity(3, "km").value("m", dtype=int))
run("value dtype arr", lambda: Quantity([3.2, 4.7], "km").value("m", dtype=int))
run("value none", lambda: Quantity([3.2, 4.7], "km").value())

# reciprocal dimensions
for u, v in [("s", "Hz"), ("Hz", "ms"), ("m", "1/km"), ("1/cm", "nm"), ("s/m", "km/h"), ("Ohm", "S"), ("S", "kOhm")]:
    for x in [2.0, -0.25, 1e-200, 0.0]:
        run(f"inv {x} {u}->{v}", lambda: Quantity(x, u).to(v))
run("inv arr", lambda: Quantity([2.0, 4.0, -8.0], "s").to("kHz"))

# bare number <-> rad / dimensionless
run("num->rad", lambda: Quantity(2.5).to("rad"))
run("num->rad arr", lambda: Quantity([0.0, -1.0]).to("rad"))
run("num->deg", lambda: Quantity(2.5).to("deg"))
run("rad->num", lambda: Quantity(2.5, "rad").to(None))
run("num->%", lambda: Quantity(0.25).to("%"))
run("%->ppth", lambda: Quantity(25, "%").to("ppm"))
run("num->m", lambda: Quantity(2.5).to("m"))
run("sin deg", lambda: np.sin(Quantity(30, "deg")))
run("cos num", lambda: np.cos(Quantity(0.5)))
run("arcsin", lambda: np.arcsin(Quantity(0.5)))
run("arctan m", lambda: np.arctan(Quantity(0.5, "m")))

# refused conversions leave the quantity as it was
def refused(x, u, v):
    q = Quantity(x, u)
    try:
        q.to(v)
        r = "converted"
    except BaseException as e:
        r = [type(e).__name__, [repr(a) for a in e.args]]
    return [r, q]
for u, v in [("m", "s"), ("kg", "m"), ("J", "W"), ("m2", "m"), ("m", "1/s"), ("rad", "m"), ("m/s", "m/s2"),
             ("V", "A"), ("mol", "g"), ("cd", "K"), ("K", "m"), ("m", "Cel"), ("dB", "m"), ("m", "dBm"),
             ("m", "rad"), ("kg*m", "g*cm*s"), ("m", None), ("Cel", "m/s")]:
    run(f"refuse {u}->{v}", lambda: refused(3.5, u, v))
    run(f"refuse arr {u}->{v}", lambda: refused([1.0, 2.0], u, v))
run("refuse value", lambda: Quantity(1, "m").value("s"))
run("unknown unit", lambda: Quantity(1, "m").to("xyzzy"))
run("bad prefix", lambda: Quantity(1, "m").to("kCel"))

# to() with other argument kinds
run("to Quantity", lambda: Quantity(5, "km").to(Quantity(2, "m")))
run("to Quantity bad", lambda: refused(5, "km", Quantity(2, "s")))
run("to Unit", lambda: Quantity(5, "km").to(Unit("cm")))
run("to BaseUnits", lambda: Quantity(5, "km").to(BaseUnits("mm")))
run("to dict", lambda: Quantity(5, "km").to({"c:m": 1}))
run("to dims", lambda: Quantity(5, "km").to(Dimensions(m=Fraction(1))))
run("to list", lambda: Quantity(5, "km/h").to([1, 0, -1, 0, 0, 0, 0, 0]))
run("to tuple", lambda: Quantity(5, "km").to(("m",)))

# errors, Decimal
run("abse km->m", lambda: Quantity(5.0, "km", abse=0.2).to("m"))
run("rele h->s", lambda: Quantity(5.0, "h", rele=10).to("s"))
run("abse arr", lambda: Quantity([5.0, -6.0], "km", abse=0.2).to("cm"))
run("abse inv", lambda: Quantity(5.0, "s", abse=0.2).to("Hz"))
run("abse neg", lambda: Quantity(-5.0, "km", abse=0.2).to("m").abse())
run("dec km->m", lambda: Quantity(Decimal("1.25"), "km").to("m"))
run("dec inv", lambda: Quantity(Decimal("4"), "s").to("Hz"))
run("dec err", lambda: Quantity(Decimal("1.25"), "km", abse=0.1).to("m"))
run("dec refuse", lambda: refused(Decimal("1.25"), "km", "s"))

# arithmetic that goes through conversion
run("add", lambda: Quantity(1, "km") + Quantity(250, "m"))
run("radd", lambda: 3 + Quantity(2))
run("sub", lambda: Quantity(1, "h") - Quantity(30, "min"))
run("rsub", lambda: 3 - Quantity(2))
run("add bad", lambda: Quantity(1, "km") + Quantity(250, "s"))
run("sub bad", lambda: Quantity(1, "km") - Quantity(250, "s"))
run("add inv", lambda: Quantity(1, "s") + Quantity(2, "Hz"))
run("add num", lambda: Quantity(1, "m") + 2)
run("add err", lambda: Quantity(1, "km", abse=0.1) + Quantity(250, "m", abse=5))
run("eq1", lambda: Quantity(1, "km") == Quantity(1000, "m"))
run("eq2", lambda: Quantity(1, "km") == Quantity(1001, "m"))
run("eq3", lambda: Quantity(1, "km") == Quantity(1000, "s"))
run("eq4", lambda: Quantity(0, "km") == Quantity(0, "km"))
run("eq5", lambda: Quantity(0, "km") == Quantity(0, "m"))
run("eq6", lambda: Quantity(2) == 2)
run("mul", lambda: Quantity(2, "km") * Quantity(3, "m"))
run("div", lambda: (Quantity(2, "km") / Quantity(4, "m")).to(None))
run("pow", lambda: (Quantity(2, "km") ** 2).to("m2"))
run("powf", lambda: (Quantity(4, "km2") ** 0.5).to("m"))
run("powt", lambda: (Quantity(4, "km2") ** (1, 2)).to("m"))
run("sqrt", lambda: np.sqrt(Quantity(4, "km2")).to("m"))
run("rebase", lambda: Quantity(3, "km*m/cm").rebase())
run("linspace", lambda: np.linspace(Quantity(1, "km"), Quantity(3000, "m"), 3))
run("logspace", lambda: np.logspace(1, Quantity(3), 3))

# temperature and logarithmic types (not linear, but dispatch must stay the same)
for u, v in [("K", "Cel"), ("Cel", "degF"), ("degF", "K"), ("degR", "Cel"), ("Cel", "Cel"), ("K", "degR"), ("mK", "K")]:
    run(f"temp {u}->{v}", lambda: Quantity(23.5, u).to(v))
run("temp compound", lambda: Quantity(23.5, "Cel/s").to("K/s"))
for u, v in [("dBm", "W"), ("W", "dBm"), ("dB", "Np"), ("Np", "dB"), ("PR", "dB"), ("dBV", "dBuV"), ("Pa", "dBSPL"), ("dBm", "dBm")]:
    run(f"log {u}->{v}", lambda: Quantity(1.5, u).to(v))
run("log add", lambda: Quantity(10, "dBm") + Quantity(10, "dBm"))
run("log sub", lambda: Quantity(10, "dBm") - Quantity(7, "dBm"))
run("log add bad", lambda: Quantity(10, "dBm") + Quantity(7, "dBW"))
run("log 3", lambda: Quantity(10, "dBm*m*s").to("W"))

# unit type objects directly
def utype(cls, a, b):
    t = cls(BaseUnits(a), BaseUnits(b))
    return None if t is None else [type(t).__name__, list(t.conversion)]
for a, b in [("m", "km"), ("s", "Hz"), (None, "rad"), (None, "deg"), ("rad", None), ("m", "s"), (None, None), ("m", None), ("rad", "rad")]:
    run(f"std {a},{b}", lambda: utype(StandardUnitType, a, b))
    run(f"tmp {a},{b}", lambda: utype(TemperatureUnitType, a, b))
    run(f"log {a},{b}", lambda: utype(LogarithmicUnitType, a, b))
run("conv direct", lambda: StandardUnitType(BaseUnits("km"), BaseUnits("cm")).convert(Magnitude(2.0, abse=0.5)))
run("conv direct inv", lambda: StandardUnitType(BaseUnits("ms"), BaseUnits("Hz")).convert(Magnitude([2.0, 4.0])))
class Weird(StandardUnitType):
    def _istype(self):
        self.conversion = ("_nope", 1)
        return True
run("conv unimplemented", lambda: Weird(BaseUnits("km"), BaseUnits("cm")).convert(Magnitude(2.0)))
class Noconv(UnitType):
    def _istype(self):
        return True
run("conv noattr", lambda: Noconv(BaseUnits("km"), BaseUnits("cm")).convert(Magnitude(2.0)))
run("type add", lambda: StandardUnitType(BaseUnits("km"), BaseUnits("m")).add(Quantity(1, "km"), Quantity(1, "m")))
run("type sub bad", lambda: StandardUnitType(BaseUnits("s"), BaseUnits("Hz")).sub(Quantity(1, "s"), Quantity(1, "Hz")))

# helper classes: BaseUnits, Dimensions, Fraction, get_unit_base
bu = lambda s: BaseUnits(s)
run("bu str", lambda: bu("kg*m2/s2"))
run("bu add", lambda: bu("kg*m2/s2") + bu("s/m"))
run("bu sub", lambda: bu("kg*m2/s2") - bu("kg*cm"))
run("bu mul", lambda: bu("kg*m2/s2") * 2)
run("bu mulf", lambda: bu("kg*m2/s2") * 0.5)
run("bu mult", lambda: bu("kg*m2/s2") * (1, 3))
run("bu mulF", lambda: bu("kg*m2/s2") * Fraction(3, 2))
run("bu div", lambda: bu("kg*m2/s2") / 2)
run("bu divf", lambda: bu("kg*m2/s2") / 0.25)
run("bu div0", lambda: bu("kg*m2/s2") / 0)
run("bu eq", lambda: [bu("m*s") == bu("s*m"), bu("m") == bu("km"), bu("m2") == bu("m"), bu("m") == bu("m*s"), bu(None) == bu({})])
run("bu value", lambda: bu("kg*m1:2/s2").value())
run("bu zero", lambda: BaseUnits({"m": 0, "s": (1, 2), "k:g": Fraction(2, 2)}))
run("bu bad", lambda: BaseUnits(3.5))
run("bu list", lambda: BaseUnits([1, (1, 2), 0, 0, 0, 0, 0, -1]))
run("bu short", lambda: BaseUnits([1, 2]))
run("bu copy", lambda: BaseUnits(bu("km/s")))
run("bu sys", lambda: BaseUnits("#SLEN"))
for uid, e in [("m", None), ("k:m", Fraction(2)), ("m", Fraction(2, 4)), ("c:m", Fraction(-3, -6)), ("g", Fraction(0, 5)),
               ("#SLEN", Fraction(2)), ("zz", None), ("q:m", None), ("k:m", Fraction(4, 2))]:
    run(f"gub {uid} {e}", lambda: (lambda b: [enc(b.magnitude), repr(b.dimensions), b.units, b.expression])(get_unit_base(uid, e) if e is not None else get_unit_base(uid)))
d1 = Dimensions(m=Fraction(1), s=Fraction(-2)); d2 = Dimensions.from_list([1, 0, -2, 0, 0, 0, 0, 0]); d3 = Dimensions.from_list([(1, 2), 0, 0, 0, 0, 0, 0, 1])
run("dim", lambda: [d1, d2, d3, d1 == d2, d1 == d3, -d1 == d2, -d3, d1 + d3, d1 - d3, d1 + 1, d1 - (1, 2), d1 * 2, d1 * 0.5, d3 / 2, d3 / (1, 2),
                    d1.nodim, Dimensions().nodim, (d1 - d2).nodim, d3.value(), d3.value(dtype=dict), d3.value(dtype=tuple), Dimensions().value(dtype=dict)])
run("dim short", lambda: Dimensions.from_list([1, 2]))
run("dim eq bad", lambda: d1 == 3)
run("frac", lambda: [Fraction(2, 4), Fraction(2, 4) == Fraction(1, 2), Fraction(1, 2) + 1, Fraction(1, 2) - (1, 3), Fraction(3, -6).value(),
                     Fraction(3, -6).value(dtype=float), Fraction(4, 2).value(), Fraction(0, 3).value(), -Fraction(1, 3), Fraction(1, 3) * 1.5, Fraction(1, 3) / 0.5,
                     Fraction.from_string("3:4"), Fraction.from_string("-2")])

# custom units / types in an environment
def env():
    with UnitEnvironment({"x": {"magnitude": 3, "dimensions": [1, 0, 0, 0, 0, 0, 0, 0], "prefixes": ["k"]}, "y": Quantity(2, "km/h")}):
        return [Quantity(2, "kx").to("m"), Quantity(5, "y").to("m/s"), refused(1, "x", "s")]
run("env", env)
def env_type():
    class Never(UnitType):
        def _istype(self):
            return False
    with UnitEnvironment({"x": {"magnitude": 3, "dimensions": [1, 0, 0, 0, 0, 0, 0, 0], "definition": Never}}):
        return [Quantity(2, "x").to("cm"), Quantity(1, "x") + Quantity(1, "m"), refused(1, "x", "g")]
run("env type", env_type)

json.dump(out, sys.stdout)
'''


def collect(root):
    proc = subprocess.run([sys.executable, "-c", WORKER, root], capture_output=True, text=True, cwd="/")
    if proc.returncode != 0:
        print(f"worker failed for {root}:\n{proc.stderr}", file=sys.stderr)
        sys.exit(2)
    return json.loads(proc.stdout)


def main():
    base, refactored = os.path.abspath(sys.argv[1]), os.path.abspath(sys.argv[2])
    a, b = collect(base), collect(refactored)
    bad = 0
    if len(a) != len(b):
        print(f"different number of results: {len(a)} vs {len(b)}")
        bad += 1
    for (la, ra), (lb, rb) in zip(a, b):
        if la != lb or ra != rb:
            bad += 1
            print(f"DIFF {la}:\n  base: {ra}\n  new:  {rb}")
    print(f"{len(a)} cases compared, {bad} differences")
    sys.exit(1 if bad else 0)


if __name__ == "__main__":
    main()
